import Proofs.Lemmas.ParserChar
import FsicModel.Solver
/-
C03 — Variable classification, ordering and lag/lead lengths match the script.

Property theorems only (helper lemmas: `Proofs/Lemmas/Parser*.lean`).  Everything is stated for ALL term-level
scripts `S : List Stmt` (a statement = the terms `parse_equation_terms` returns + the opaque `equation` / `code`
strings; no lexing is involved), all option sets and all span lengths.

Guards used (both are facts about what the regular-expression level hands over, see `ASSUMPTIONS` of the check):
  `WellIndexed S`      function/keyword terms carry no index, every other term carries an `int` or `str` one
  `NoFunctionClash S`  no name is used both as a called function and as a variable/parameter/error
                       (the C01 grammar excludes it; `classify_spec_false_at_witness` shows what the code does otherwise)
-/
set_option linter.unusedSimpArgs false
set_option linter.unusedVariables false
namespace Fsic.C03
open Fsic Fsic.Parser

/-! ### The enum order (re-proved against `Generated.typeValues` = /repo's `Type` on every run) -/

/-- `VARIABLE < EXOGENOUS < ENDOGENOUS`, so that `max` promotes towards ENDOGENOUS. -/
theorem type_order : TermType.variable.value < TermType.exogenous.value ∧
    TermType.exogenous.value < TermType.endogenous.value := by decide

/-- `max(self.type, other.type)` over the three variable kinds: ENDOGENOUS wins, then EXOGENOUS. -/
theorem promote_spec (a b : TermType) (ha : isVarKind a = true) (hb : isVarKind b = true) :
    (promote a b = .endogenous ↔ a = .endogenous ∨ b = .endogenous) ∧
    (promote a b = .variable ↔ a = .variable ∧ b = .variable) ∧
    isVarKind (promote a b) = true := by
  revert ha hb; cases a <;> cases b <;> decide

example : promote .exogenous .endogenous = .endogenous ∧ promote .endogenous .exogenous = .endogenous ∧
    promote .variable .exogenous = .exogenous := by decide

instance (a b : TermType) : Decidable (TypeLe a b) := by unfold TypeLe; infer_instance

theorem typeLe_of_endogenous {c : TermType} : TypeLe .endogenous c → c = .endogenous := by
  cases c <;> decide
theorem typeLe_of_parameter {c : TermType} : TypeLe .parameter c → c = .parameter := by
  cases c <;> decide
theorem typeLe_of_error {c : TermType} : TypeLe .error c → c = .error := by
  cases c <;> decide
theorem typeLe_of_exogenous {c : TermType} : TypeLe .exogenous c → c = .exogenous ∨ c = .endogenous := by
  cases c <;> decide
theorem typeLe_to_exogenous {s : TermType} : TypeLe s .exogenous → s ≠ .endogenous := by
  cases s <;> decide
theorem typeLe_indexed {s c : TermType} : TypeLe s c → isIndexed s = true → isIndexed c = true := by
  cases s <;> cases c <;> decide
theorem typeLe_conflict {a b c : TermType} : TypeLe a c → TypeLe b c → a ≠ b →
    isVarKind a = true ∧ isVarKind b = true := by
  cases a <;> cases b <;> cases c <;> decide

/-! ### `parse_equation_terms`: a variable on the left-hand side is ENDOGENOUS, on the right-hand side EXOGENOUS -/

theorem lhs_variable_endogenous {lhs rhs ts : List Parser.Term} (h : equationTerms lhs rhs = .ok ts) :
    ts = lhs.map (retype .endogenous) ++ rhs.map (retype .exogenous) ∧
    (∀ t : Parser.Term, (retype .endogenous t).type = .endogenous ↔ (t.type = .variable ∨ t.type = .endogenous)) ∧
    (∀ t : Parser.Term, t.type = .variable → (retype .exogenous t).type = .exogenous) ∧
    (∀ t : Parser.Term, ∀ new, t.type ≠ .variable → retype new t = t) := by
  refine ⟨?_, ?_, ?_, ?_⟩
  · unfold equationTerms at h
    split at h
    · cases h
    · cases h; rfl
  · intro t; unfold retype
    by_cases hv : t.type = .variable <;> simp [hv]
  · intro t hv; simp [retype, hv]
  · intro t new hv; simp [retype, hv]

example : equationTerms [⟨"Y", .variable, .int 0⟩] [⟨"X", .variable, .int (-1)⟩, ⟨"a", .parameter, .int 0⟩]
    = .ok [⟨"Y", .endogenous, .int 0⟩, ⟨"X", .exogenous, .int (-1)⟩, ⟨"a", .parameter, .int 0⟩] := by rfl

/-! ### Occurrences -/

/-- The script contains a term `x` of type `ty` (for `ty = .endogenous`: some statement assigns `x`). -/
def Occurs (S : List Stmt) (x : String) (ty : TermType) : Prop :=
  ∃ ts e c, Stmt.eqn ts e c ∈ S ∧ ∃ t ∈ ts, t.name = x ∧ t.type = ty

theorem occurs_iff (S : List Stmt) (x : String) (ty : TermType) (hty : ty ≠ .verbatim) :
    Occurs S x ty ↔ ∃ s ∈ scriptOcc S, s.name = some x ∧ s.type = ty := by
  constructor
  · rintro ⟨ts, e, c, hst, t, ht, hn, htt⟩
    refine ⟨termSymbol e c t, ?_, by simp [termSymbol_name, hn], by simp [termSymbol_type, htt]⟩
    exact stmtOcc_subset hst _ (mem_termSyms ht (by rw [htt]; exact hty))
  · rintro ⟨s, hs, hn, htt⟩
    obtain ⟨stmt, hst, hso⟩ := List.mem_flatMap.1 hs
    cases stmt with
    | verb e c => simp [stmtOcc] at hso
    | eqn ts e c =>
      simp only [stmtOcc, termSyms] at hso
      obtain ⟨t, ht, rfl⟩ := List.mem_map.1 hso
      exact ⟨ts, e, c, hst, t, (List.mem_filter.1 ht).1, by simpa [termSymbol_name] using hn, htt⟩

theorem mem_namesOfType {ty : TermType} {syms : List Symbol} {k : Option String} :
    k ∈ namesOfType ty syms ↔ ∃ c ∈ syms, c.type = ty ∧ c.name = k := by
  unfold namesOfType
  constructor
  · intro h; obtain ⟨c, hc, rfl⟩ := List.mem_map.1 h
    obtain ⟨h1, h2⟩ := List.mem_filter.1 hc
    exact ⟨c, h1, by simpa using h2, rfl⟩
  · rintro ⟨c, hc, ht, rfl⟩
    exact List.mem_map_of_mem (List.mem_filter.2 ⟨hc, by simpa using ht⟩)

/-- What an accepted script looks like (from `parseModel_char`), in the form the theorems below use. -/
theorem accepted_char {S : List Stmt} {syms : List Symbol} (h : parseModel S = .ok syms)
    (w1 : WellIndexed S) (w2 : NoFunctionClash S) :
    ∃ D V, syms = D ++ V ∧ (∀ v ∈ V, v.name = none ∧ v.type = .verbatim) ∧
      keys D = firstApp ((scriptOcc S).map (·.name)) ∧
      (∀ c ∈ D, Summ c ((scriptOcc S).filter (fun s => s.name = c.name))) ∧
      (∀ s ∈ scriptOcc S, ∃ c ∈ D, c.name = s.name) := by
  obtain ⟨D, V, h1, h2, h3, h4⟩ := parseModel_char h (stmtOK_of_guards w1 w2)
  refine ⟨D, V, h1, h2, h3, h4, ?_⟩
  intro s hs
  have : s.name ∈ keys D := by rw [h3]; exact (mem_firstApp _ _).2 (List.mem_map_of_mem hs)
  obtain ⟨c, hc, hcn⟩ := List.mem_map.1 this
  exact ⟨c, hc, hcn⟩

/-- Entry of a given type and name ↔ class-list membership, for the non-verbatim classes. -/
theorem mem_class {D V : List Symbol} {ty : TermType} (hty : ty ≠ .verbatim)
    (hV : ∀ v ∈ V, v.name = none ∧ v.type = .verbatim) (x : String) :
    some x ∈ namesOfType ty (D ++ V) ↔ ∃ c ∈ D, c.type = ty ∧ c.name = some x := by
  rw [mem_namesOfType]
  constructor
  · rintro ⟨c, hc, ht, hn⟩
    rcases List.mem_append.1 hc with hc | hc
    · exact ⟨c, hc, ht, hn⟩
    · rw [(hV c hc).1] at hn; cases hn
  · rintro ⟨c, hc, ht, hn⟩; exact ⟨c, List.mem_append_left _ hc, ht, hn⟩

/-! ### Classification -/

/-- **classify_spec.**  For every accepted script: a name is endogenous iff some statement assigns it (an
    ENDOGENOUS = left-hand-side variable term), a parameter iff it is written in braces, an error iff written in
    angle brackets, and exogenous iff it occurs as a variable and no statement assigns it. -/
theorem classify_spec {S : List Stmt} {syms : List Symbol} (h : parseModel S = .ok syms)
    (w1 : WellIndexed S) (w2 : NoFunctionClash S) (x : String) :
    (some x ∈ namesOfType .endogenous syms ↔ Occurs S x .endogenous) ∧
    (some x ∈ namesOfType .parameter syms ↔ Occurs S x .parameter) ∧
    (some x ∈ namesOfType .error syms ↔ Occurs S x .error) ∧
    (some x ∈ namesOfType .exogenous syms ↔ Occurs S x .exogenous ∧ ¬ Occurs S x .endogenous) := by
  obtain ⟨D, V, rfl, hV, hk, hS, hE⟩ := accepted_char h w1 w2
  simp only [occurs_iff S x _ (by decide : TermType.endogenous ≠ .verbatim),
    occurs_iff S x _ (by decide : TermType.parameter ≠ .verbatim),
    occurs_iff S x _ (by decide : TermType.error ≠ .verbatim),
    occurs_iff S x _ (by decide : TermType.exogenous ≠ .verbatim),
    mem_class (by decide : TermType.endogenous ≠ .verbatim) hV,
    mem_class (by decide : TermType.parameter ≠ .verbatim) hV,
    mem_class (by decide : TermType.error ≠ .verbatim) hV,
    mem_class (by decide : TermType.exogenous ≠ .verbatim) hV]
  -- the two directions, generically
  have att : ∀ ty, (∃ c ∈ D, c.type = ty ∧ c.name = some x) → ∃ s ∈ scriptOcc S, s.name = some x ∧ s.type = ty := by
    rintro ty ⟨c, hc, ht, hn⟩
    obtain ⟨s, hs, hst⟩ := (hS c hc).typeAtt
    obtain ⟨hs1, hs2⟩ := List.mem_filter.1 hs
    exact ⟨s, hs1, by rw [← hn]; simpa using hs2, by rw [hst, ht]⟩
  have le : ∀ s ∈ scriptOcc S, s.name = some x → ∃ c ∈ D, c.name = some x ∧ TypeLe s.type c.type := by
    intro s hs hn
    obtain ⟨c, hc, hcn⟩ := hE s hs
    exact ⟨c, hc, by rw [hcn, hn], (hS c hc).typeLe s (List.mem_filter.2 ⟨hs, by simp [hcn]⟩)⟩
  have uniq : ∀ c ∈ D, ∀ c' ∈ D, c.name = c'.name → c = c' := by
    intro c hc c' hc' hn
    have hnd : (keys D).Nodup := by rw [hk]; exact nodup_firstApp _
    have := findSym_of_mem_nodup hnd hc
    rw [hn, findSym_of_mem_nodup hnd hc'] at this
    exact (Option.some.inj this).symm
  refine ⟨⟨att _, ?_⟩, ⟨att _, ?_⟩, ⟨att _, ?_⟩, ⟨?_, ?_⟩⟩
  · rintro ⟨s, hs, hn, ht⟩
    obtain ⟨c, hc, hcn, hle⟩ := le s hs hn
    rw [ht] at hle; exact ⟨c, hc, typeLe_of_endogenous hle, hcn⟩
  · rintro ⟨s, hs, hn, ht⟩
    obtain ⟨c, hc, hcn, hle⟩ := le s hs hn
    rw [ht] at hle; exact ⟨c, hc, typeLe_of_parameter hle, hcn⟩
  · rintro ⟨s, hs, hn, ht⟩
    obtain ⟨c, hc, hcn, hle⟩ := le s hs hn
    rw [ht] at hle; exact ⟨c, hc, typeLe_of_error hle, hcn⟩
  · intro hc
    refine ⟨att _ hc, ?_⟩
    obtain ⟨c, hc, ht, hn⟩ := hc
    rintro ⟨s, hs, hsn, hst⟩
    obtain ⟨c', hc', hcn', hle⟩ := le s hs hsn
    have : c = c' := uniq c hc c' hc' (by rw [hn, hcn'])
    subst this
    rw [ht] at hle
    exact typeLe_to_exogenous hle hst
  · rintro ⟨⟨s, hs, hn, ht⟩, hno⟩
    obtain ⟨c, hc, hcn, hle⟩ := le s hs hn
    rw [ht] at hle
    rcases typeLe_of_exogenous hle with h1 | h1
    · exact ⟨c, hc, h1, hcn⟩
    · exact absurd (att _ ⟨c, hc, h1, hcn⟩) hno

end Fsic.C03
