import Proofs.Lemmas.ParserAccepted
import Proofs.Lemmas.Solver
/-
C03 — Variable classification, ordering and lag/lead lengths match the script.

Property theorems only (helper lemmas: `Proofs/Lemmas/Parser*.lean`).  Everything is stated for ALL term-level
scripts `S : List Stmt` (a statement = the terms `parse_equation_terms` returns + the opaque `equation` / `code`
strings; no lexing is involved), all option sets and all span lengths.

Guard used (a fact about what the regular-expression level hands over, see `ASSUMPTIONS` of the check):
  `WellIndexed S`      function/keyword terms carry no index, every other term carries an `int` or `str` one
A name used both as a called function and as a variable is REJECTED by the code (ParserError inside one statement
since fix 3f601b8, SymbolError across statements), so no guard is needed for it: `accepted_no_function_clash`.
-/
set_option linter.unusedSimpArgs false
set_option linter.unusedVariables false
namespace Fsic.C03
open Fsic Fsic.Parser

/-! ### The enum order (re-proved against `Generated.typeValues` = /repo's `Type` on every run) -/

/-- `VARIABLE < EXOGENOUS < ENDOGENOUS`, so that `max` promotes towards ENDOGENOUS. -/
theorem type_order : TermType.variable.value < TermType.exogenous.value ∧
    TermType.exogenous.value < TermType.endogenous.value := by decide

/-- `max(self.type, other.type)` over the three variable kinds: ENDOGENOUS wins, then EXOGENOUS. -/
theorem promote_spec (a b : TermType) (ha : isVarKind a = true) (hb : isVarKind b = true) :
    (promote a b = .endogenous ↔ a = .endogenous ∨ b = .endogenous) ∧
    (promote a b = .variable ↔ a = .variable ∧ b = .variable) ∧
    isVarKind (promote a b) = true := by
  revert ha hb; cases a <;> cases b <;> decide

example : promote .exogenous .endogenous = .endogenous ∧ promote .endogenous .exogenous = .endogenous ∧
    promote .variable .exogenous = .exogenous := by decide

/-! ### `parse_equation_terms`: a variable on the left-hand side is ENDOGENOUS, on the right-hand side EXOGENOUS -/

theorem lhs_variable_endogenous {lhs rhs ts : List Parser.Term} (h : equationTerms lhs rhs = .ok ts) :
    ts = lhs.map (retype .endogenous) ++ rhs.map (retype .exogenous) ∧
    (∀ t : Parser.Term, (retype .endogenous t).type = .endogenous ↔ (t.type = .variable ∨ t.type = .endogenous)) ∧
    (∀ t : Parser.Term, t.type = .variable → (retype .exogenous t).type = .exogenous) ∧
    (∀ t : Parser.Term, ∀ new, t.type ≠ .variable → retype new t = t) := by
  refine ⟨?_, ?_, ?_, ?_⟩
  · unfold equationTerms at h
    split at h
    · cases h
    · cases h; rfl
  · intro t; unfold retype
    by_cases hv : t.type = .variable <;> simp [hv]
  · intro t hv; simp [retype, hv]
  · intro t new hv; simp [retype, hv]

example : equationTerms [⟨"Y", .variable, .int 0⟩] [⟨"X", .variable, .int (-1)⟩, ⟨"a", .parameter, .int 0⟩]
    = .ok [⟨"Y", .endogenous, .int 0⟩, ⟨"X", .exogenous, .int (-1)⟩, ⟨"a", .parameter, .int 0⟩] := by rfl

/-! ### Occurrences -/

/-- The script contains a term `x` of type `ty` (for `ty = .endogenous`: some statement assigns `x`). -/
def Occurs (S : List Stmt) (x : String) (ty : TermType) : Prop :=
  ∃ ts e c, Stmt.eqn ts e c ∈ S ∧ ∃ t ∈ ts, t.name = x ∧ t.type = ty

theorem occurs_iff (S : List Stmt) (x : String) (ty : TermType) (hty : ty ≠ .verbatim) :
    Occurs S x ty ↔ ∃ s ∈ scriptOcc S, s.name = some x ∧ s.type = ty := by
  constructor
  · rintro ⟨ts, e, c, hst, t, ht, hn, htt⟩
    refine ⟨termSymbol e c t, ?_, by simp [termSymbol_name, hn], by simp [termSymbol_type, htt]⟩
    exact stmtOcc_subset hst _ (mem_termSyms ht (by rw [htt]; exact hty))
  · rintro ⟨s, hs, hn, htt⟩
    obtain ⟨stmt, hst, hso⟩ := List.mem_flatMap.1 hs
    cases stmt with
    | verb e c => simp [stmtOcc] at hso
    | eqn ts e c =>
      simp only [stmtOcc, termSyms] at hso
      obtain ⟨t, ht, rfl⟩ := List.mem_map.1 hso
      exact ⟨ts, e, c, hst, t, (List.mem_filter.1 ht).1, by simpa [termSymbol_name] using hn, htt⟩

theorem mem_namesOfType {ty : TermType} {syms : List Symbol} {k : Option String} :
    k ∈ namesOfType ty syms ↔ ∃ c ∈ syms, c.type = ty ∧ c.name = k := by
  unfold namesOfType
  constructor
  · intro h; obtain ⟨c, hc, rfl⟩ := List.mem_map.1 h
    obtain ⟨h1, h2⟩ := List.mem_filter.1 hc
    exact ⟨c, h1, by simpa using h2, rfl⟩
  · rintro ⟨c, hc, ht, rfl⟩
    exact List.mem_map_of_mem (List.mem_filter.2 ⟨hc, by simpa using ht⟩)

/-- Entry of a given type and name ↔ class-list membership, for the non-verbatim classes. -/
theorem mem_class {D V : List Symbol} {ty : TermType} (hty : ty ≠ .verbatim)
    (hV : ∀ v ∈ V, v.name = none ∧ v.type = .verbatim) (x : String) :
    some x ∈ namesOfType ty (D ++ V) ↔ ∃ c ∈ D, c.type = ty ∧ c.name = some x := by
  rw [mem_namesOfType]
  constructor
  · rintro ⟨c, hc, ht, hn⟩
    rcases List.mem_append.1 hc with hc | hc
    · exact ⟨c, hc, ht, hn⟩
    · rw [(hV c hc).1] at hn; cases hn
  · rintro ⟨c, hc, ht, hn⟩; exact ⟨c, List.mem_append_left _ hc, ht, hn⟩

/-! ### Classification -/

/-- **classify_spec.**  For every accepted script: a name is endogenous iff some statement assigns it (an
    ENDOGENOUS = left-hand-side variable term), a parameter iff it is written in braces, an error iff written in
    angle brackets, and exogenous iff it occurs as a variable and no statement assigns it. -/
theorem classify_spec {S : List Stmt} {syms : List Symbol} (h : parseModel S = .ok syms)
    (w1 : WellIndexed S) (x : String) :
    (some x ∈ namesOfType .endogenous syms ↔ Occurs S x .endogenous) ∧
    (some x ∈ namesOfType .parameter syms ↔ Occurs S x .parameter) ∧
    (some x ∈ namesOfType .error syms ↔ Occurs S x .error) ∧
    (some x ∈ namesOfType .exogenous syms ↔ Occurs S x .exogenous ∧ ¬ Occurs S x .endogenous) := by
  obtain ⟨D, V, rfl, hV, hk, hS, hE, _⟩ := accepted_char h w1
  simp only [occurs_iff S x _ (by decide : TermType.endogenous ≠ .verbatim),
    occurs_iff S x _ (by decide : TermType.parameter ≠ .verbatim),
    occurs_iff S x _ (by decide : TermType.error ≠ .verbatim),
    occurs_iff S x _ (by decide : TermType.exogenous ≠ .verbatim),
    mem_class (by decide : TermType.endogenous ≠ .verbatim) hV,
    mem_class (by decide : TermType.parameter ≠ .verbatim) hV,
    mem_class (by decide : TermType.error ≠ .verbatim) hV,
    mem_class (by decide : TermType.exogenous ≠ .verbatim) hV]
  -- the two directions, generically
  have att : ∀ ty, (∃ c ∈ D, c.type = ty ∧ c.name = some x) → ∃ s ∈ scriptOcc S, s.name = some x ∧ s.type = ty := by
    rintro ty ⟨c, hc, ht, hn⟩
    obtain ⟨s, hs, hst⟩ := (hS c hc).typeAtt
    obtain ⟨hs1, hs2⟩ := List.mem_filter.1 hs
    exact ⟨s, hs1, by rw [← hn]; simpa using hs2, by rw [hst, ht]⟩
  have le : ∀ s ∈ scriptOcc S, s.name = some x → ∃ c ∈ D, c.name = some x ∧ TypeLe s.type c.type := by
    intro s hs hn
    obtain ⟨c, hc, hcn⟩ := hE s hs
    exact ⟨c, hc, by rw [hcn, hn], (hS c hc).typeLe s (List.mem_filter.2 ⟨hs, by simp [hcn]⟩)⟩
  have uniq : ∀ c ∈ D, ∀ c' ∈ D, c.name = c'.name → c = c' := by
    intro c hc c' hc' hn
    have hnd : (keys D).Nodup := by rw [hk]; exact nodup_firstApp _
    have := findSym_of_mem_nodup hnd hc
    rw [hn, findSym_of_mem_nodup hnd hc'] at this
    exact (Option.some.inj this).symm
  refine ⟨⟨att _, ?_⟩, ⟨att _, ?_⟩, ⟨att _, ?_⟩, ⟨?_, ?_⟩⟩
  · rintro ⟨s, hs, hn, ht⟩
    obtain ⟨c, hc, hcn, hle⟩ := le s hs hn
    rw [ht] at hle; exact ⟨c, hc, typeLe_of_endogenous hle, hcn⟩
  · rintro ⟨s, hs, hn, ht⟩
    obtain ⟨c, hc, hcn, hle⟩ := le s hs hn
    rw [ht] at hle; exact ⟨c, hc, typeLe_of_parameter hle, hcn⟩
  · rintro ⟨s, hs, hn, ht⟩
    obtain ⟨c, hc, hcn, hle⟩ := le s hs hn
    rw [ht] at hle; exact ⟨c, hc, typeLe_of_error hle, hcn⟩
  · intro hc
    refine ⟨att _ hc, ?_⟩
    obtain ⟨c, hc, ht, hn⟩ := hc
    rintro ⟨s, hs, hsn, hst⟩
    obtain ⟨c', hc', hcn', hle⟩ := le s hs hsn
    have : c = c' := uniq c hc c' hc' (by rw [hn, hcn'])
    subst this
    rw [ht] at hle
    exact typeLe_to_exogenous hle hst
  · rintro ⟨⟨s, hs, hn, ht⟩, hno⟩
    obtain ⟨c, hc, hcn, hle⟩ := le s hs hn
    rw [ht] at hle
    rcases typeLe_of_exogenous hle with h1 | h1
    · exact ⟨c, hc, h1, hcn⟩
    · exact absurd (att _ ⟨c, hc, h1, hcn⟩) hno

/-! ### Rejection -/

/-- A name used with two kinds that cannot be merged: variable and parameter/error, parameter and error, … -/
def KindConflict (S : List Stmt) : Prop :=
  ∃ s1 ∈ scriptOcc S, ∃ s2 ∈ scriptOcc S, s1.name = s2.name ∧ s1.type ≠ s2.type ∧
    ¬ (isVarKind s1.type = true ∧ isVarKind s2.type = true)

/-- One name assigned by two statements whose normalised equations (or generated code) differ. -/
def DoubleDef (S : List Stmt) : Prop :=
  ∃ s1 ∈ scriptOcc S, ∃ s2 ∈ scriptOcc S, s1.name = s2.name ∧
    ((∃ e1 e2, s1.equation = some e1 ∧ s2.equation = some e2 ∧ e1 ≠ e2) ∨
     (∃ c1 c2, s1.code = some c1 ∧ s2.code = some c2 ∧ c1 ≠ c2))

/-- **classify_rejects.**  A script in which a name is used both as a variable and as a parameter/error (or as a
    parameter and an error), or in which one name is defined by two different equations, is not accepted. -/
theorem classify_rejects {S : List Stmt} (w1 : WellIndexed S)
    (hbad : KindConflict S ∨ DoubleDef S) : ∃ e, parseModel S = .error e := by
  cases h : parseModel S with
  | error e => exact ⟨e, rfl⟩
  | ok syms =>
    exfalso
    obtain ⟨D, V, rfl, hV, hk, hS, hE, _⟩ := accepted_char h w1
    rcases hbad with ⟨s1, h1, s2, h2, hn, ht, hv⟩ | ⟨s1, h1, s2, h2, hn, hd⟩
    · obtain ⟨c, hc, hcn⟩ := hE s1 h1
      have l1 := (hS c hc).typeLe s1 (List.mem_filter.2 ⟨h1, by simp [hcn]⟩)
      have l2 := (hS c hc).typeLe s2 (List.mem_filter.2 ⟨h2, by simp [hcn, ← hn]⟩)
      exact hv (typeLe_conflict l1 l2 ht)
    · obtain ⟨c, hc, hcn⟩ := hE s1 h1
      have m1 : s1 ∈ (scriptOcc S).filter (fun s => s.name = c.name) := List.mem_filter.2 ⟨h1, by simp [hcn]⟩
      have m2 : s2 ∈ (scriptOcc S).filter (fun s => s.name = c.name) := List.mem_filter.2 ⟨h2, by simp [hcn, ← hn]⟩
      rcases hd with ⟨e1, e2, he1, he2, hne⟩ | ⟨c1, c2, hc1, hc2, hne⟩
      · have a := (hS c hc).eqAll s1 m1 e1 he1
        have b := (hS c hc).eqAll s2 m2 e2 he2
        rw [a] at b; exact hne (Option.some.inj b)
      · have a := (hS c hc).codeAll s1 m1 c1 hc1
        have b := (hS c hc).codeAll s2 m2 c2 hc2
        rw [a] at b; exact hne (Option.some.inj b)

/-- **Which error.**  A rejected script raises one of the parser's own two errors — SymbolError together with a kind
    conflict, or ParserError together with a double definition or a defective statement (a function/variable clash
    inside it, or not exactly one assigned variable). -/
theorem rejection_class {S : List Stmt} {e : Err} (h : parseModel S = .error e) (w1 : WellIndexed S) :
    (e = .symbolError ∧ KindConflict S) ∨ (e = .parserError ∧ (DoubleDef S ∨ BadStmt S)) :=
  parseModel_error_class h w1

theorem kindConflict_of_stmtClash {S : List Stmt} {stmt : Stmt} (hst : stmt ∈ S) (h : StmtClash stmt) :
    KindConflict S := by
  obtain ⟨s1, h1, s2, h2, hf, hnf, hn⟩ := h
  refine ⟨s1, stmtOcc_subset hst s1 h1, s2, stmtOcc_subset hst s2 h2, hn, by rw [hf]; exact fun e => hnf e.symm, ?_⟩
  rw [hf]; intro h; exact absurd h.1 (by decide)

/-- A script is accepted exactly when it has none of the defects. -/
theorem accepted_iff {S : List Stmt} (w1 : WellIndexed S) :
    (∃ syms, parseModel S = .ok syms) ↔ (¬ KindConflict S ∧ ¬ DoubleDef S ∧ ∀ stmt ∈ S, DefinesOne stmt) := by
  constructor
  · rintro ⟨syms, h⟩
    refine ⟨?_, ?_, ?_⟩
    · intro hk; obtain ⟨e, he⟩ := classify_rejects w1 (Or.inl hk); rw [h] at he; cases he
    · intro hd; obtain ⟨e, he⟩ := classify_rejects w1 (Or.inr hd); rw [h] at he; cases he
    · intro stmt hst
      cases stmt with
      | verb _ _ => trivial
      | eqn ts q c =>
        unfold parseModel at h
        cases hm : mapE stmtSymbols S with
        | error x => simp [hm] at h
        | ok groups =>
          obtain ⟨G, _, hG⟩ := (mapE_ok_mem hm).2 _ hst
          have hok := stmtOK_of_guards w1 _ hst
          simp only [stmtSymbols] at hG
          obtain ⟨hf, hone⟩ := symbolsOfTerms_ok hok hG
          show (definedNames (.eqn ts q c)).length = 1
          rw [← defined_count hf]; exact hone
  · rintro ⟨hk, hd, hone⟩
    cases h : parseModel S with
    | ok syms => exact ⟨syms, rfl⟩
    | error e =>
      rcases rejection_class h w1 with ⟨_, h1⟩ | ⟨_, h1 | ⟨stmt, hst, h1 | h1⟩⟩
      · exact absurd h1 hk
      · exact absurd h1 hd
      · exact absurd (kindConflict_of_stmtClash hst h1) hk
      · exact absurd (hone stmt hst) h1

/-- **accepted_no_function_clash.**  In every accepted script no name is both a called function and a variable,
    parameter or error (this was a *guard* before fix 3f601b8; now the code rejects the clash). -/
theorem accepted_no_function_clash {S : List Stmt} {syms : List Symbol} (h : parseModel S = .ok syms)
    (w1 : WellIndexed S) : NoFunctionClash S := by
  intro s1 h1 s2 h2 hn hf
  by_cases h2f : s2.type = .function
  · exact h2f
  · exfalso
    obtain ⟨e, he⟩ := classify_rejects w1 (Or.inl ⟨s1, h1, s2, h2, hn, by rw [hf]; exact fun e => h2f e.symm,
      by rw [hf]; intro h; exact absurd h.1 (by decide)⟩)
    rw [h] at he; cases he

/-- **function_clash_rejected.**  A statement in which a name is both a called function and a variable is never
    accepted; the two steps that detect it raise ParserError (`stepTerm_*` below). -/
theorem function_clash_rejected {e c : String} {ts : List Parser.Term}
    (w : ∀ t ∈ ts, t.type = .function → t.index = .none) (hclash : ClashT ts) :
    ∃ x, symbolsOfTerms e c ts = .error x := by
  rcases symbolsOfTerms_cases e c ts w with h | ⟨h, _⟩
  · cases hf : foldE addSym [] (termSyms e c ts) with
    | error x => exact ⟨x, by rw [h, hf]⟩
    | ok G =>
      exfalso
      obtain ⟨_, _, hs, hc⟩ := fold_from_empty hf
      obtain ⟨t1, m1, t2, m2, hfn, hnf, hnv, hn⟩ := hclash
      have o1 := mem_termSyms (e := e) (c := c) m1 (by rw [hfn]; simp)
      have o2 := mem_termSyms (e := e) (c := c) m2 hnv
      obtain ⟨g, hg, hgn⟩ := hc _ o1
      have l1 := (hs g hg).typeLe _ (List.mem_filter.2 ⟨o1, by simp [hgn]⟩)
      have l2 := (hs g hg).typeLe _ (List.mem_filter.2 ⟨o2, by simp [hgn, termSymbol_name, hn]⟩)
      simp only [termSymbol_type] at l1 l2
      have := typeLe_conflict l1 l2 (by rw [hfn]; exact fun e => hnf e.symm)
      rw [hfn] at this; exact absurd this.1 (by decide)
  · exact ⟨_, h⟩

/-- The function step: a variable of the same name is already a symbol ⇒ ParserError. -/
theorem stepTerm_function_after_variable (e c : String) (st : EqState) (t : Parser.Term) (y : Symbol)
    (hf : t.type = .function) (h1 : findSym (some t.name) st.functions = none)
    (h2 : findSym (some t.name) st.symbols = some y) : stepTerm e c st t = .error .parserError := by
  unfold stepTerm; simp [hf, h1, h2]

/-- The variable step: a function of the same name was called earlier in the statement ⇒ ParserError. -/
theorem stepTerm_variable_after_function (e c : String) (st : EqState) (t : Parser.Term) (y : Symbol)
    (hv : t.type ≠ .verbatim) (hf : t.type ≠ .function) (h1 : findSym (some t.name) st.functions = some y) :
    stepTerm e c st t = .error .parserError := by
  unfold stepTerm; simp [hv, hf, h1]

example : symbolsOfTerms "e" "c" [⟨"Y", .endogenous, .int 0⟩, ⟨"log", .exogenous, .int 0⟩, ⟨"log", .function, .none⟩]
    = .error .parserError := by rfl
example : symbolsOfTerms "e" "c" [⟨"Y", .endogenous, .int 0⟩, ⟨"log", .function, .none⟩, ⟨"log", .exogenous, .int 0⟩]
    = .error .parserError := by rfl
/-- `{a} = X`, `1 = X`: no assigned variable ⇒ ParserError (fix d65c5fa). -/
example : symbolsOfTerms "e" "c" [⟨"a", .parameter, .int 0⟩, ⟨"X", .exogenous, .int 0⟩] = .error .parserError := by rfl
example : symbolsOfTerms "e" "c" [⟨"X", .exogenous, .int 0⟩] = .error .parserError := by rfl

/-- **rejects_symbolError.**  A name used as variable and as parameter/error (or as parameter and error, or as a
    function in one statement and a variable in another), no double definition and no defective statement: the script
    is rejected with SymbolError. -/
theorem rejects_symbolError {S : List Stmt} (w1 : WellIndexed S)
    (hk : KindConflict S) (hd : ¬ DoubleDef S) (hb : ¬ BadStmt S) : parseModel S = .error .symbolError := by
  obtain ⟨e, he⟩ := classify_rejects w1 (Or.inl hk)
  rcases rejection_class he w1 with ⟨rfl, _⟩ | ⟨_, h1 | h1⟩
  · exact he
  · exact absurd h1 hd
  · exact absurd h1 hb

/-- **rejects_parserError.**  Two different equations for one name — or a statement with a function/variable clash,
    or one that does not assign exactly one variable — and no kind conflict: rejected with ParserError. -/
theorem rejects_parserError {S : List Stmt} (w1 : WellIndexed S)
    (hd : DoubleDef S ∨ ∃ stmt ∈ S, ¬ DefinesOne stmt) (hk : ¬ KindConflict S) :
    parseModel S = .error .parserError := by
  have hrej : ∃ e, parseModel S = .error e := by
    rcases hd with hd | ⟨stmt, hst, hno⟩
    · exact classify_rejects w1 (Or.inr hd)
    · cases h : parseModel S with
      | error e => exact ⟨e, rfl⟩
      | ok syms => exact absurd (((accepted_iff w1).1 ⟨syms, h⟩).2.2 stmt hst) hno
  obtain ⟨e, he⟩ := hrej
  rcases rejection_class he w1 with ⟨_, h1⟩ | ⟨rfl, _⟩
  · exact absurd h1 hk
  · exact he

theorem scriptOcc_append (S T : List Stmt) : scriptOcc (S ++ T) = scriptOcc S ++ scriptOcc T := by
  simp [scriptOcc, List.flatMap_append]

/-- **identical_duplicates_accepted.**  Repeating an equation statement that the script already contains changes
    nothing: the script is still accepted, with the same named symbols in the same order (each name once). -/
theorem identical_duplicates_accepted {S : List Stmt} {syms : List Symbol} {ts : List Parser.Term} {q c : String}
    (h : parseModel S = .ok syms) (w1 : WellIndexed S) (hdup : Stmt.eqn ts q c ∈ S) :
    ∃ syms', parseModel (S ++ [.eqn ts q c]) = .ok syms' ∧
      syms'.filter (fun s => s.name.isSome) = syms.filter (fun s => s.name.isSome) := by
  have hmem : ∀ s, s ∈ scriptOcc (S ++ [.eqn ts q c]) ↔ s ∈ scriptOcc S := by
    intro s; rw [scriptOcc_append]
    constructor
    · intro hs; rcases List.mem_append.1 hs with hs | hs
      · exact hs
      · simp only [scriptOcc, List.flatMap_cons, List.flatMap_nil, List.append_nil] at hs
        exact stmtOcc_subset hdup s hs
    · intro hs; exact List.mem_append_left _ hs
  have w1' : WellIndexed (S ++ [.eqn ts q c]) := fun s hs => w1 s ((hmem s).1 hs)
  obtain ⟨hk, hd, hone⟩ := (accepted_iff w1).1 ⟨syms, h⟩
  have hacc : ∃ syms', parseModel (S ++ [.eqn ts q c]) = .ok syms' := by
    apply (accepted_iff w1').2
    refine ⟨?_, ?_, ?_⟩
    · rintro ⟨s1, h1, s2, h2, r⟩; exact hk ⟨s1, (hmem s1).1 h1, s2, (hmem s2).1 h2, r⟩
    · rintro ⟨s1, h1, s2, h2, r⟩; exact hd ⟨s1, (hmem s1).1 h1, s2, (hmem s2).1 h2, r⟩
    · intro stmt hst
      rcases List.mem_append.1 hst with hst | hst
      · exact hone stmt hst
      · simp at hst; subst hst; exact hone _ hdup
  obtain ⟨syms', h'⟩ := hacc
  refine ⟨syms', h', ?_⟩
  obtain ⟨D, V, rfl, hV, hkD, hS, _, _⟩ := accepted_char h w1
  obtain ⟨D', V', rfl, hV', hkD', hS', _, _⟩ := accepted_char h' w1'
  have named : ∀ (D V : List Symbol) (S : List Stmt), (∀ v ∈ V, v.name = none ∧ v.type = .verbatim) →
      keys D = firstApp ((scriptOcc S).map (·.name)) →
      (D ++ V).filter (fun s => s.name.isSome) = D := by
    intro D V S hV hk
    rw [List.filter_append]
    have e1 : D.filter (fun s => s.name.isSome) = D := by
      apply List.filter_eq_self.2
      intro d hd
      have : d.name ∈ keys D := List.mem_map_of_mem hd
      rw [hk, mem_firstApp] at this
      obtain ⟨s, hs, hsn⟩ := List.mem_map.1 this
      obtain ⟨stmt, _, hso⟩ := List.mem_flatMap.1 hs
      cases stmt with
      | verb _ _ => simp [stmtOcc] at hso
      | eqn ts' q' c' => rw [← hsn]; exact termSyms_name_some s hso
    have e2 : V.filter (fun s => s.name.isSome) = [] := by
      apply List.filter_eq_nil_iff.2
      intro v hv; rw [(hV v hv).1]; simp
    rw [e1, e2, List.append_nil]
  rw [named D V S hV hkD, named D' V' _ hV' hkD']
  have hkeys : keys D' = keys D := by
    rw [hkD', hkD, scriptOcc_append, List.map_append, firstApp, List.foldl_append]
    apply foldl_pushNew_of_mem
    intro x hx
    apply (mem_firstApp _ _).2
    obtain ⟨s, hs, rfl⟩ := List.mem_map.1 hx
    simp only [scriptOcc, List.flatMap_cons, List.flatMap_nil, List.append_nil] at hs
    exact List.mem_map_of_mem (stmtOcc_subset hdup s hs)
  apply list_eq_of_map_eq (fun s : Symbol => s.name) D' D hkeys
  intro x hx y hy hxy
  apply (hS' x hx).unique (hS y hy) _ hxy
  intro s
  simp only [List.mem_filter, hmem, hxy]

/-- Which of the parser's own errors a single `combine` raises: SymbolError exactly for an unmergeable pair of kinds
    (it is the first check), ParserError only for two different equations / code strings. -/
theorem combine_error_class (a b : Symbol) (hn : a.name = b.name) :
    (combine a b = .error .symbolError ↔
      (a.type ≠ b.type ∧ ¬ (isVarKind a.type = true ∧ isVarKind b.type = true))) ∧
    (combine a b = .error .parserError →
      ((∃ e1 e2, a.equation = some e1 ∧ b.equation = some e2 ∧ e1 ≠ e2) ∨
       (∃ c1 c2, a.code = some c1 ∧ b.code = some c2 ∧ c1 ≠ c2))) ∧
    (combine a b ≠ .error .assertionError) := by
  have hl : ∀ x y e, resolveLag x y = .error e → e = .typeError := by
    intro x y e h; cases x <;> cases y <;> simp [resolveLag] at h <;> exact h.symm
  have hd : ∀ x y e, resolveLead x y = .error e → e = .typeError := by
    intro x y e h; cases x <;> cases y <;> simp [resolveLead] at h <;> exact h.symm
  have hs : ∀ x y e, resolveStr x y = .error e → e = .parserError ∧ ∃ u v, x = some u ∧ y = some v ∧ u ≠ v := by
    intro x y e h
    cases x with
    | none => cases y <;> simp [resolveStr] at h
    | some u =>
      cases y with
      | none => simp [resolveStr] at h
      | some v =>
        simp only [resolveStr] at h
        by_cases huv : u = v
        · simp [huv] at h
        · simp [huv] at h; exact ⟨h.symm, u, v, rfl, rfl, huv⟩
  unfold combine
  simp only [hn, if_true]
  cases ht : combineType a.type b.type with
  | error e =>
    have he : e = .symbolError ∧ a.type ≠ b.type ∧ ¬ (isVarKind a.type = true ∧ isVarKind b.type = true) := by
      unfold combineType at ht
      by_cases hab : a.type = b.type
      · simp [hab] at ht
      · simp only [hab, if_false] at ht
        by_cases hv : (isVarKind a.type && isVarKind b.type) = true
        · simp [hv] at ht
        · simp only [hv, if_false] at ht
          refine ⟨by cases ht; rfl, hab, ?_⟩
          simpa [Bool.and_eq_true] using hv
    obtain ⟨rfl, h1, h2⟩ := he
    simp [h1, h2]
  | ok t =>
    have hok : ¬ (a.type ≠ b.type ∧ ¬ (isVarKind a.type = true ∧ isVarKind b.type = true)) := by
      rintro ⟨h1, h2⟩
      unfold combineType at ht
      simp only [h1, if_false] at ht
      have : ¬ ((isVarKind a.type && isVarKind b.type) = true) := by simpa [Bool.and_eq_true] using h2
      simp [this] at ht
    cases hl' : resolveLag a.lags b.lags with
    | error e =>
      have := hl _ _ _ hl'; subst this
      exact ⟨⟨fun h => by simp at h, fun h => absurd h hok⟩, fun h => by simp at h, by simp⟩
    | ok l =>
      cases hd' : resolveLead a.leads b.leads with
      | error e =>
        have := hd _ _ _ hd'; subst this
        exact ⟨⟨fun h => by simp at h, fun h => absurd h hok⟩, fun h => by simp at h, by simp⟩
      | ok d =>
        cases hq : resolveStr a.equation b.equation with
        | error e =>
          obtain ⟨rfl, u, v, h1, h2, h3⟩ := hs _ _ _ hq
          exact ⟨⟨fun h => by simp at h, fun h => absurd h hok⟩, fun _ => Or.inl ⟨u, v, h1, h2, h3⟩, by simp⟩
        | ok q =>
          cases hc : resolveStr a.code b.code with
          | error e =>
            obtain ⟨rfl, u, v, h1, h2, h3⟩ := hs _ _ _ hc
            exact ⟨⟨fun h => by simp at h, fun h => absurd h hok⟩, fun _ => Or.inr ⟨u, v, h1, h2, h3⟩, by simp⟩
          | ok c =>
            exact ⟨⟨fun h => by simp at h, fun h => absurd h hok⟩, fun h => by simp at h, by simp⟩

/-- Non-vacuity of the rejections, on term lists: `Y = {a}` / `Z = a` (SymbolError), `Y = X` / `Y = Z` (ParserError),
    and the identical duplicate `Y = X` / `Y = X` (accepted, one symbol per name). -/
example : parseModel [.eqn [⟨"Y", .endogenous, .int 0⟩, ⟨"a", .parameter, .int 0⟩] "Y[t] = a[t]" "c1",
                      .eqn [⟨"Z", .endogenous, .int 0⟩, ⟨"a", .exogenous, .int 0⟩] "Z[t] = a[t]" "c2"]
    = .error .symbolError := by rfl

example : parseModel [.eqn [⟨"Y", .endogenous, .int 0⟩, ⟨"X", .exogenous, .int 0⟩] "Y[t] = X[t]" "c1",
                      .eqn [⟨"Y", .endogenous, .int 0⟩, ⟨"Z", .exogenous, .int 0⟩] "Y[t] = Z[t]" "c2"]
    = .error .parserError := by rfl

example : (parseModel [.eqn [⟨"Y", .endogenous, .int 0⟩, ⟨"X", .exogenous, .int 0⟩] "Y[t] = X[t]" "c1",
                       .eqn [⟨"Y", .endogenous, .int 0⟩, ⟨"X", .exogenous, .int 0⟩] "Y[t] = X[t]" "c1"]).toOption.map
      (fun syms => syms.map (·.name)) = some [some "Y", some "X"] := by rfl

/-! ### Ordering and partition -/

/-- Names of the script's terms in script order (`some name` for every non-verbatim term). -/
def scriptNames (S : List Stmt) : List (Option String) := (scriptOcc S).map (·.name)

/-- **symbol_order.**  The named symbols of an accepted script are exactly the names of its terms, each once, in
    order of first appearance (Python-dict insertion order: re-assignment keeps the original slot); nameless
    verbatim symbols follow. -/
theorem symbol_order {S : List Stmt} {syms : List Symbol} (h : parseModel S = .ok syms)
    (w1 : WellIndexed S) :
    ∃ D V, syms = D ++ V ∧ keys D = firstApp (scriptNames S) ∧ (keys D).Nodup ∧
      (∀ v ∈ V, v.name = none ∧ v.type = .verbatim) := by
  obtain ⟨D, V, h1, hV, hk, _, _, _⟩ := accepted_char h w1
  exact ⟨D, V, h1, hk, by rw [hk]; exact nodup_firstApp _, hV⟩

/-- **names_partition.**  `NAMES = ENDOGENOUS ++ EXOGENOUS ++ PARAMETERS ++ ERRORS`, no name twice, and every class
    lists its names in order of first appearance in the script. -/
theorem names_partition {S : List Stmt} {syms : List Symbol} {o : BuildOpts} {L : Lists}
    (h : parseModel S = .ok syms) (w1 : WellIndexed S) (hb : buildLists syms o = .ok L) :
    L.names = L.endogenous ++ L.exogenous ++ L.parameters ++ L.errors ∧ L.check = L.endogenous ∧
    L.names.Nodup ∧
    L.endogenous.Sublist (firstApp (scriptNames S)) ∧ L.exogenous.Sublist (firstApp (scriptNames S)) ∧
    L.parameters.Sublist (firstApp (scriptNames S)) ∧ L.errors.Sublist (firstApp (scriptNames S)) := by
  obtain ⟨D, V, rfl, hk, hnd, hV⟩ := symbol_order h w1
  have hL : L.endogenous = namesOfType .endogenous D ∧ L.exogenous = namesOfType .exogenous D ∧
      L.parameters = namesOfType .parameter D ∧ L.errors = namesOfType .error D ∧
      L.names = L.endogenous ++ L.exogenous ++ L.parameters ++ L.errors ∧ L.check = L.endogenous := by
    unfold buildLists at hb
    cases h1 : finalLen o.lags (autoLags (D ++ V)) o.minLags with
    | error e => simp [h1] at hb
    | ok a =>
      cases h2 : finalLen o.leads (autoLeads (D ++ V)) o.minLeads with
      | error e => simp [h1, h2] at hb
      | ok b =>
        simp only [h1, h2, Except.ok.injEq] at hb
        subst hb
        simp only [namesOfType_append, namesOfType_verbatim_tail (by decide : TermType.endogenous ≠ .verbatim) hV,
          namesOfType_verbatim_tail (by decide : TermType.exogenous ≠ .verbatim) hV,
          namesOfType_verbatim_tail (by decide : TermType.parameter ≠ .verbatim) hV,
          namesOfType_verbatim_tail (by decide : TermType.error ≠ .verbatim) hV, List.append_nil, and_self]
  obtain ⟨e1, e2, e3, e4, e5, e6⟩ := hL
  refine ⟨e5, e6, ?_, ?_, ?_, ?_, ?_⟩
  · rw [e5, e1, e2, e3, e4]
    have nd : ∀ ty, (namesOfType ty D).Nodup := fun ty => (namesOfType_sublist ty D).nodup hnd
    rw [List.append_assoc, List.append_assoc]
    refine List.nodup_append.2 ⟨nd _, ?_, ?_⟩
    · refine List.nodup_append.2 ⟨nd _, ?_, ?_⟩
      · exact List.nodup_append.2 ⟨nd _, nd _, namesOfType_disjoint hnd (by decide)⟩
      · intro a ha b hb'
        rcases List.mem_append.1 hb' with hb' | hb'
        · exact namesOfType_disjoint hnd (by decide) a ha b hb'
        · exact namesOfType_disjoint hnd (by decide) a ha b hb'
    · intro a ha b hb'
      rcases List.mem_append.1 hb' with hb' | hb'
      · exact namesOfType_disjoint hnd (by decide) a ha b hb'
      · rcases List.mem_append.1 hb' with hb' | hb'
        · exact namesOfType_disjoint hnd (by decide) a ha b hb'
        · exact namesOfType_disjoint hnd (by decide) a ha b hb'
  · rw [e1, ← hk]; exact namesOfType_sublist _ D
  · rw [e2, ← hk]; exact namesOfType_sublist _ D
  · rw [e3, ← hk]; exact namesOfType_sublist _ D
  · rw [e4, ← hk]; exact namesOfType_sublist _ D

/-! ### Lag and lead lengths -/

/-- **lags_leads_spec.**  Without `lags=` / `leads=`: `LAGS = max(0 :: −offsets)` and `LEADS = max(0 :: offsets)` over
    every integer index written anywhere in the script (a string index contributes nothing, i.e. 0). -/
theorem lags_leads_spec {S : List Stmt} {syms : List Symbol} (h : parseModel S = .ok syms)
    (w1 : WellIndexed S) :
    autoLags syms = .ok (maxList 0 ((scriptOffsets S).map (-·))) ∧
    autoLeads syms = .ok (maxList 0 (scriptOffsets S)) := by
  obtain ⟨D, V, rfl, hV, hk, hS, hE, _⟩ := accepted_char h w1
  -- every indexed entry holds integers, bounded by / attained among the offsets of its own name
  have entry : ∀ c ∈ nonIndexed D,
      (∃ m, c.lags = .int m ∧ m ≤ 0 ∧ (∀ s ∈ scriptOcc S, s.name = c.name → ∀ i, s.lags = .int i → m ≤ i) ∧
        (m = 0 ∨ m ∈ scriptOffsets S)) ∧
      (∃ m, c.leads = .int m ∧ 0 ≤ m ∧ (∀ s ∈ scriptOcc S, s.name = c.name → ∀ i, s.lags = .int i → i ≤ m) ∧
        (m = 0 ∨ m ∈ scriptOffsets S)) := by
    intro c hc
    obtain ⟨hcD, hci⟩ := List.mem_filter.1 hc
    have hs := hS c hcD
    obtain ⟨s0, hs0, hs0t⟩ := hs.typeAtt
    obtain ⟨hs0a, _⟩ := List.mem_filter.1 hs0
    have hs0l : s0.lags ≠ .none := (w1 s0 hs0a).2 (by rw [hs0t]; exact hci)
    constructor
    · rcases hs.lags with ⟨_, hall⟩ | ⟨m, hm1, hm2, hm3, hm4⟩
      · exact absurd (hall s0 hs0) hs0l
      · refine ⟨m, hm1, hm2, ?_, ?_⟩
        · intro s hs' hn i hi
          exact (hm3 s (List.mem_filter.2 ⟨hs', by simp [hn]⟩)).2 i hi
        · rcases hm4 with h0 | ⟨s, hs', hsm⟩
          · exact Or.inl h0
          · exact Or.inr (mem_scriptOffsets.2 ⟨s, (List.mem_filter.1 hs').1, hsm⟩)
    · rcases hs.leads with ⟨_, hall⟩ | ⟨m, hm1, hm2, hm3, hm4⟩
      · have := hall s0 hs0; rw [scriptOcc_leads S s0 hs0a] at this; exact absurd this hs0l
      · refine ⟨m, hm1, hm2, ?_, ?_⟩
        · intro s hs' hn i hi
          have hmem : s ∈ (scriptOcc S).filter (fun s => s.name = c.name) := List.mem_filter.2 ⟨hs', by simp [hn]⟩
          exact (hm3 s hmem).2 i (by rw [scriptOcc_leads S s hs']; exact hi)
        · rcases hm4 with h0 | ⟨s, hs', hsm⟩
          · exact Or.inl h0
          · have hsa := (List.mem_filter.1 hs').1
            exact Or.inr (mem_scriptOffsets.2 ⟨s, hsa, by rw [← scriptOcc_leads S s hsa]; exact hsm⟩)
  -- every offset belongs to an indexed entry
  have cover : ∀ i ∈ scriptOffsets S, ∃ c ∈ nonIndexed D, ∃ s ∈ scriptOcc S, s.name = c.name ∧ s.lags = .int i := by
    intro i hi
    obtain ⟨s, hs, hsi⟩ := mem_scriptOffsets.1 hi
    obtain ⟨c, hc, hcn⟩ := hE s hs
    have hsidx : isIndexed s.type = true := by
      cases hidx : isIndexed s.type with
      | true => rfl
      | false => have := (w1 s hs).1 hidx; rw [hsi] at this; cases this
    have hle := (hS c hc).typeLe s (List.mem_filter.2 ⟨hs, by simp [hcn]⟩)
    exact ⟨c, List.mem_filter.2 ⟨hc, typeLe_indexed hle hsidx⟩, s, hs, hcn.symm, hsi⟩
  constructor
  · unfold autoLags
    rw [nonIndexed_append_V hV]
    obtain ⟨ms, hms1, hms2⟩ := allInts_of_forall ((nonIndexed D).map (·.lags)) (by
      intro i hi; obtain ⟨c, hc, rfl⟩ := List.mem_map.1 hi
      obtain ⟨⟨m, hm, _⟩, _⟩ := entry c hc; exact ⟨m, hm⟩)
    rw [hms1]
    have key := absmin_eq ms (scriptOffsets S) (by
      intro m hm
      have : Idx.int m ∈ (nonIndexed D).map (·.lags) := by rw [hms2]; exact List.mem_map_of_mem hm
      obtain ⟨c, hc, hcm⟩ := List.mem_map.1 this
      obtain ⟨⟨m', hm1, hm2, _, hm4⟩, _⟩ := entry c hc
      rw [hm1] at hcm; cases hcm; exact ⟨hm2, hm4⟩) (by
      intro i hi
      obtain ⟨c, hc, s, hs, hn, hsi⟩ := cover i hi
      obtain ⟨⟨m, hm1, _, hm3, _⟩, _⟩ := entry c hc
      refine ⟨m, ?_, hm3 s hs hn i hsi⟩
      have : Idx.int m ∈ (nonIndexed D).map (·.lags) := by rw [← hm1]; exact List.mem_map_of_mem hc
      rw [hms2] at this
      obtain ⟨m', hm', hmm⟩ := List.mem_map.1 this
      cases hmm; exact hm')
    cases ms with
    | nil => simp only at key ⊢; rw [← key]
    | cons x xs => simp only at key ⊢; rw [key]
  · unfold autoLeads
    rw [nonIndexed_append_V hV]
    obtain ⟨ms, hms1, hms2⟩ := allInts_of_forall ((nonIndexed D).map (·.leads)) (by
      intro i hi; obtain ⟨c, hc, rfl⟩ := List.mem_map.1 hi
      obtain ⟨_, ⟨m, hm, _⟩⟩ := entry c hc; exact ⟨m, hm⟩)
    rw [hms1]
    have key := absmax_eq ms (scriptOffsets S) (by
      intro m hm
      have : Idx.int m ∈ (nonIndexed D).map (·.leads) := by rw [hms2]; exact List.mem_map_of_mem hm
      obtain ⟨c, hc, hcm⟩ := List.mem_map.1 this
      obtain ⟨_, ⟨m', hm1, hm2, _, hm4⟩⟩ := entry c hc
      rw [hm1] at hcm; cases hcm; exact ⟨hm2, hm4⟩) (by
      intro i hi
      obtain ⟨c, hc, s, hs, hn, hsi⟩ := cover i hi
      obtain ⟨_, ⟨m, hm1, _, hm3, _⟩⟩ := entry c hc
      refine ⟨m, ?_, hm3 s hs hn i hsi⟩
      have : Idx.int m ∈ (nonIndexed D).map (·.leads) := by rw [← hm1]; exact List.mem_map_of_mem hc
      rw [hms2] at this
      obtain ⟨m', hm', hmm⟩ := List.mem_map.1 this
      cases hmm; exact hm')
    cases ms with
    | nil => simp only at key ⊢; rw [← key]
    | cons x xs => simp only at key ⊢; rw [key]

/-- Explicit `lags=` / `leads=` replace the computed lengths (and `min_lags` / `min_leads` are then ignored). -/
theorem explicit_replace {syms : List Symbol} {o : BuildOpts} {L : Lists} (hb : buildLists syms o = .ok L) :
    (∀ l, o.lags = some l → L.lags = l) ∧ (∀ l, o.leads = some l → L.leads = l) := by
  unfold buildLists at hb
  cases h1 : finalLen o.lags (autoLags syms) o.minLags with
  | error e => simp [h1] at hb
  | ok a =>
    cases h2 : finalLen o.leads (autoLeads syms) o.minLeads with
    | error e => simp [h1, h2] at hb
    | ok b =>
      simp only [h1, h2, Except.ok.injEq] at hb
      subst hb
      constructor
      · intro l hl; rw [hl] at h1; simp [finalLen] at h1; exact h1.symm
      · intro l hl; rw [hl] at h2; simp [finalLen] at h2; exact h2.symm

/-- `min_lags` / `min_leads` only raise: the result is `max(auto, min)`. -/
theorem min_only_raise {syms : List Symbol} {o : BuildOpts} {L : Lists} (hb : buildLists syms o = .ok L) :
    (o.lags = none → ∃ a, autoLags syms = .ok a ∧ L.lags = max a o.minLags ∧ a ≤ L.lags ∧ o.minLags ≤ L.lags ∧
      (o.minLags ≤ a → L.lags = a)) ∧
    (o.leads = none → ∃ a, autoLeads syms = .ok a ∧ L.leads = max a o.minLeads ∧ a ≤ L.leads ∧ o.minLeads ≤ L.leads ∧
      (o.minLeads ≤ a → L.leads = a)) := by
  unfold buildLists at hb
  cases h1 : finalLen o.lags (autoLags syms) o.minLags with
  | error e => simp [h1] at hb
  | ok a =>
    cases h2 : finalLen o.leads (autoLeads syms) o.minLeads with
    | error e => simp [h1, h2] at hb
    | ok b =>
      simp only [h1, h2, Except.ok.injEq] at hb
      subst hb
      constructor
      · intro hl; rw [hl] at h1
        cases ha : autoLags syms with
        | error e => simp [finalLen, ha] at h1
        | ok x =>
          simp [finalLen, ha] at h1
          refine ⟨x, rfl, h1.symm, ?_, ?_, ?_⟩ <;> (simp only []; omega)
      · intro hl; rw [hl] at h2
        cases ha : autoLeads syms with
        | error e => simp [finalLen, ha] at h2
        | ok x =>
          simp [finalLen, ha] at h2
          refine ⟨x, rfl, h2.symm, ?_, ?_, ?_⟩ <;> (simp only []; omega)

/-! ### The default solution range -/

/-- **default_range_feasible.**  With `LAGS = max(0 :: −offsets)` and `LEADS = max(0 :: offsets)`, the positions
    `LAGS ≤ t ≤ n−1−LEADS` are exactly those at which every offset of the script (and `t` itself) stays inside a
    span of length `n`. -/
theorem default_range_feasible (offs : List Int) (n : Nat) (t : Int) :
    (maxList 0 (offs.map (-·)) ≤ t ∧ t ≤ (n : Int) - 1 - maxList 0 offs) ↔
    (∀ k ∈ (0 : Int) :: offs, 0 ≤ t + k ∧ t + k < n) := by
  have a1 := (maxList_ge (offs.map (-·)) 0).1
  have a2 := (maxList_ge (offs.map (-·)) 0).2
  have b1 := (maxList_ge offs 0).1
  have b2 := (maxList_ge offs 0).2
  constructor
  · rintro ⟨h1, h2⟩ k hk
    rcases List.mem_cons.1 hk with rfl | hk
    · omega
    · have := a2 (-k) (List.mem_map.2 ⟨k, hk, rfl⟩)
      have := b2 k hk
      omega
  · intro h
    have h0 := h 0 (by simp)
    constructor
    · rcases maxList_mem (offs.map (-·)) 0 with e | e
      · omega
      · obtain ⟨k, hk, hke⟩ := List.mem_map.1 e
        have := h k (List.mem_cons_of_mem _ hk)
        omega
    · rcases maxList_mem offs 0 with e | e
      · omega
      · have := h _ (List.mem_cons_of_mem _ e)
        omega

theorem mem_periodRange (s e t : Nat) : t ∈ periodRange s e ↔ s ≤ t ∧ t ≤ e := by
  unfold periodRange
  simp only [List.mem_map, List.mem_range]
  constructor
  · rintro ⟨a, ha, rfl⟩; omega
  · rintro ⟨h1, h2⟩; exact ⟨t - s, by omega, by omega⟩

/-- **default_range_enumerated.**  `solve()` with no `start`/`end` walks `periodRange LAGS (n−1−LEADS)`: exactly the
    feasible positions, each once, in increasing order. -/
theorem default_range_enumerated (lags leads n : Nat) (hleads : leads < n) :
    (∀ t : Nat, t ∈ periodRange lags (n - 1 - leads) ↔ (lags ≤ t ∧ (t : Int) ≤ (n : Int) - 1 - leads)) ∧
    (periodRange lags (n - 1 - leads)).Pairwise (· < ·) := by
  constructor
  · intro t; rw [mem_periodRange]; omega
  · unfold periodRange
    rw [List.pairwise_map]
    exact (List.pairwise_lt_range).imp (by intro a b h; omega)

/-- Boundary: a span of exactly `LAGS + LEADS + 1` periods has exactly one solvable period, position `LAGS`
    (and a span of `LAGS + LEADS` periods none when `LAGS > 0`; with `LAGS = 0` the end label `span[-1-LEADS]` does
    not exist — IndexError in the code, `leads < n` guard in M1's `solve`). -/
theorem default_range_single (lags leads : Nat) :
    periodRange lags ((lags + leads + 1) - 1 - leads) = [lags] ∧
    (0 < lags → periodRange lags ((lags + leads) - 1 - leads) = []) := by
  constructor
  · unfold periodRange
    have : lags + leads + 1 - 1 - leads + 1 - lags = 1 := by omega
    rw [this]; simp [List.range_succ]
  · intro h
    unfold periodRange
    have : lags + leads - 1 - leads + 1 - lags = 0 := by omega
    rw [this]; rfl

example : periodRange 2 ((2 + 1 + 1) - 1 - 1) = [2] := by decide

/-- The default range is what M1's `solve` iterates over (`start`/`end` not given). -/
theorem default_range_is_solve_range {σ V : Type} (I : Interp σ V) (o : Opts) (n lags leads : Nat) (w : World σ)
    (h0 : ¬ o.minIter > o.maxIter) (hn : n ≠ 0) (hl : lags < n) (hd : leads < n) :
    solve I o n lags leads none none w = solveList I o n (periodRange lags (n - 1 - leads)) w [] [] := by
  simp [solve, h0, hn, hl, hd, resolveBound]

/-- The default range is also exactly the set of positions that `solve_t` itself accepts (its up-front feasibility
    test, `Feasible` in M1): `solve()` never hands `solve_t` a period it would refuse, and skips none it would take. -/
theorem default_range_is_accepted_periods {σ V : Type} (I : Interp σ V) (n t : Nat) (hleads : I.leads < n) :
    t ∈ periodRange I.lags (n - 1 - I.leads) ↔ Feasible I n (t : Int) := by
  rw [mem_periodRange]
  unfold Feasible normT
  have : ¬ ((t : Int) < 0) := by omega
  simp only [this, if_false]
  omega

/-- Non-vacuity: `Z = Y[2]; Y = Z[-1] + X['a']` — Y is read with a lead before it is assigned and with nothing
    else, Z is read with a lag after being assigned; X only ever has a named-period index. -/
def exScript : List Stmt :=
  [.eqn [⟨"Z", .endogenous, .int 0⟩, ⟨"Y", .exogenous, .int 2⟩] "Z[t] = Y[t+2]" "self._Z[t] = self._Y[t+2]",
   .eqn [⟨"Y", .endogenous, .int 0⟩, ⟨"Z", .exogenous, .int (-1)⟩, ⟨"X", .exogenous, .str "'a'"⟩]
     "Y[t] = Z[t-1] + X['a']" "self._Y[t] = self._Z[t-1] + self['X', 'a']"]

example : (parseModel exScript).toOption.map (fun syms => (syms.map (·.name), syms.map (·.type), syms.map (·.lags), syms.map (·.leads)))
    = some ([some "Z", some "Y", some "X"], [.endogenous, .endogenous, .exogenous],
            [.int (-1), .int 0, .int 0], [.int 0, .int 2, .int 0]) := by rfl

example : ((parseModel exScript).toOption.bind fun syms => (buildLists syms {}).toOption).map
      (fun L => (L.names, L.lags, L.leads))
    = some ([some "Z", some "Y", some "X"], 1, 2) := by rfl

example : scriptOffsets exScript = [0, 2, 0, -1] ∧ maxList 0 ((scriptOffsets exScript).map (-·)) = 1 ∧
    maxList 0 (scriptOffsets exScript) = 2 := by decide

example : periodRange 1 (6 - 1 - 2) = [1, 2, 3] := by decide

/-! ### Non-vacuity (review): every hypothesis-carrying theorem instantiated at a concrete non-trivial script

`exS`: `Z = log(Y[2]) * {a}` ; `Y = Z[-1] + X['a'] + <e>` (a called function, a parameter, an error, a lead, a lag, a
named period; Y read before assigned).  `exKind`: `Y = {a}` ; `Z = a`.  `exDouble`: `Y = X` ; `Y = Z`. -/

private def exS0 : Stmt :=
  .eqn [⟨"Z", .endogenous, .int 0⟩, ⟨"log", .function, .none⟩, ⟨"Y", .exogenous, .int 2⟩, ⟨"a", .parameter, .int 0⟩]
     "Z[t] = log(Y[t+2]) * a[t]" "self._Z[t] = np.log(self._Y[t+2]) * self._a[t]"
private def exS : List Stmt :=
  [exS0,
   .eqn [⟨"Y", .endogenous, .int 0⟩, ⟨"Z", .exogenous, .int (-1)⟩, ⟨"X", .exogenous, .str "'a'"⟩, ⟨"e", .error, .int 0⟩]
     "Y[t] = Z[t-1] + X['a'] + e[t]" "self._Y[t] = self._Z[t-1] + self['X', 'a'] + self._e[t]"]
private def exKind : List Stmt :=
  [.eqn [⟨"Y", .endogenous, .int 0⟩, ⟨"a", .parameter, .int 0⟩] "Y[t] = a[t]" "c1",
   .eqn [⟨"Z", .endogenous, .int 0⟩, ⟨"a", .exogenous, .int 0⟩] "Z[t] = a[t]" "c2"]
private def exDouble : List Stmt :=
  [.eqn [⟨"Y", .endogenous, .int 0⟩, ⟨"X", .exogenous, .int 0⟩] "Y[t] = X[t]" "c1",
   .eqn [⟨"Y", .endogenous, .int 0⟩, ⟨"Z", .exogenous, .int 0⟩] "Y[t] = Z[t]" "c2"]

private def exSyms : List Symbol := match parseModel exS with | .ok s => s | .error _ => []
private def exL : Lists :=
  match buildLists exSyms {} with
  | .ok L => L
  | .error _ => ⟨[], [], [], [], [], [], 0, 0⟩
private def exL' : Lists :=
  match buildLists exSyms { lags := some 5, minLeads := 4 } with
  | .ok L => L
  | .error _ => ⟨[], [], [], [], [], [], 0, 0⟩

private theorem exS_ok : parseModel exS = .ok exSyms := by rfl
private theorem exS_wi : WellIndexed exS := by unfold WellIndexed; decide
private theorem exKind_wi : WellIndexed exKind := by unfold WellIndexed; decide
private theorem exDouble_wi : WellIndexed exDouble := by unfold WellIndexed; decide
private theorem exL_ok : buildLists exSyms {} = .ok exL := by rfl
private theorem exL'_ok : buildLists exSyms { lags := some 5, minLeads := 4 } = .ok exL' := by rfl

private theorem differ_iff (a b : Option String) :
    (∃ e1 e2, a = some e1 ∧ b = some e2 ∧ e1 ≠ e2) ↔ (a.isSome = true ∧ b.isSome = true ∧ a ≠ b) := by
  cases a <;> cases b <;> simp
private def DoubleDef' (S : List Stmt) : Prop :=
  ∃ s1 ∈ scriptOcc S, ∃ s2 ∈ scriptOcc S, s1.name = s2.name ∧
    ((s1.equation.isSome = true ∧ s2.equation.isSome = true ∧ s1.equation ≠ s2.equation) ∨
     (s1.code.isSome = true ∧ s2.code.isSome = true ∧ s1.code ≠ s2.code))
private theorem doubleDef_iff (S : List Stmt) : DoubleDef' S ↔ DoubleDef S := by
  unfold DoubleDef DoubleDef'; simp only [differ_iff]
private instance : DecidablePred DoubleDef' := fun S => by unfold DoubleDef'; infer_instance
private instance : DecidablePred DoubleDef := fun S => decidable_of_iff _ (doubleDef_iff S)
private instance : DecidablePred KindConflict := fun S => by unfold KindConflict; infer_instance
private instance : DecidablePred StmtClash := fun s => by unfold StmtClash; infer_instance
private instance : DecidablePred DefinesOne := fun s => by cases s <;> unfold DefinesOne <;> infer_instance
private instance : DecidablePred BadStmt := fun S => by unfold BadStmt; infer_instance

example : exSyms.map (fun s => (s.name, s.type)) =
    [(some "Z", .endogenous), (some "log", .function), (some "Y", .endogenous), (some "a", .parameter),
     (some "X", .exogenous), (some "e", .error)] := by decide
example : (exL.endogenous, exL.exogenous, exL.parameters, exL.errors, exL.lags, exL.leads) =
    ([some "Z", some "Y"], [some "X"], [some "a"], [some "e"], 1, 2) := by decide

/-- `promote_spec` at EXOGENOUS/ENDOGENOUS. -/
example : promote .exogenous .endogenous = .endogenous :=
  (promote_spec .exogenous .endogenous rfl rfl).1.mpr (Or.inr rfl)

/-- `lhs_variable_endogenous` on `Y = X[-1] * {a}` as `parse_terms` hands it over (VARIABLE terms). -/
example : [⟨"Y", .endogenous, .int 0⟩, ⟨"X", .exogenous, .int (-1)⟩, ⟨"a", .parameter, .int 0⟩] =
    ([⟨"Y", .variable, .int 0⟩] : List Parser.Term).map (retype .endogenous) ++
      ([⟨"X", .variable, .int (-1)⟩, ⟨"a", .parameter, .int 0⟩] : List Parser.Term).map (retype .exogenous) :=
  (lhs_variable_endogenous (lhs := [⟨"Y", .variable, .int 0⟩])
    (rhs := [⟨"X", .variable, .int (-1)⟩, ⟨"a", .parameter, .int 0⟩]) (by rfl)).1

/-- `classify_spec` on `exS`: Y (read with a lead first, assigned later) is endogenous, not exogenous. -/
example : (some "Y" ∈ namesOfType .endogenous exSyms ↔ Occurs exS "Y" .endogenous) ∧
    (some "Y" ∈ namesOfType .exogenous exSyms ↔ Occurs exS "Y" .exogenous ∧ ¬ Occurs exS "Y" .endogenous) :=
  ⟨(classify_spec exS_ok exS_wi "Y").1, (classify_spec exS_ok exS_wi "Y").2.2.2⟩
example : some "Y" ∈ namesOfType .endogenous exSyms ∧ some "Y" ∉ namesOfType .exogenous exSyms ∧
    some "X" ∈ namesOfType .exogenous exSyms := by decide

/-- `classify_rejects`, `rejection_class`, `rejects_symbolError`, `rejects_parserError` on the two bad scripts. -/
example : (∃ e, parseModel exKind = .error e) ∧ (∃ e, parseModel exDouble = .error e) :=
  ⟨classify_rejects exKind_wi (Or.inl (by decide)), classify_rejects exDouble_wi (Or.inr (by decide))⟩
example : (Err.symbolError = .symbolError ∧ KindConflict exKind) ∨
    (Err.symbolError = .parserError ∧ (DoubleDef exKind ∨ BadStmt exKind)) :=
  rejection_class (S := exKind) (by rfl) exKind_wi
example : parseModel exKind = .error .symbolError :=
  rejects_symbolError exKind_wi (by decide) (by decide) (by decide)
example : parseModel exDouble = .error .parserError :=
  rejects_parserError exDouble_wi (Or.inl (by decide)) (by decide)
/-- … second disjunct of `rejects_parserError`: `{a} = X` assigns no variable. -/
example : parseModel [.eqn [⟨"a", .parameter, .int 0⟩, ⟨"X", .exogenous, .int 0⟩] "e" "c"] = .error .parserError :=
  rejects_parserError (by unfold WellIndexed; decide)
    (Or.inr ⟨_, List.Mem.head _, by decide⟩) (by decide)

/-- `accepted_iff`, `accepted_no_function_clash` on `exS` (which does call a function). -/
example : ¬ KindConflict exS ∧ ¬ DoubleDef exS ∧ ∀ stmt ∈ exS, DefinesOne stmt :=
  (accepted_iff exS_wi).1 ⟨exSyms, exS_ok⟩
example : NoFunctionClash exS := accepted_no_function_clash exS_ok exS_wi

/-- `function_clash_rejected`, `stepTerm_*`: `Y = log + log(…)` in both orders. -/
example : ∃ x, symbolsOfTerms "e" "c"
    [⟨"Y", .endogenous, .int 0⟩, ⟨"log", .exogenous, .int 0⟩, ⟨"log", .function, .none⟩] = .error x :=
  function_clash_rejected (by decide) (by unfold ClashT; decide)
example : stepTerm "e" "c" ⟨[⟨some "Y", .endogenous, .int 0, .int 0, some "e", some "c"⟩,
      ⟨some "log", .exogenous, .int 0, .int 0, none, none⟩], []⟩ ⟨"log", .function, .none⟩ = .error .parserError :=
  stepTerm_function_after_variable "e" "c" _ _ ⟨some "log", .exogenous, .int 0, .int 0, none, none⟩ rfl rfl rfl
example : stepTerm "e" "c" ⟨[⟨some "Y", .endogenous, .int 0, .int 0, some "e", some "c"⟩],
      [⟨some "log", .function, .none, .none, none, none⟩]⟩ ⟨"log", .exogenous, .int 0⟩ = .error .parserError :=
  stepTerm_variable_after_function "e" "c" _ _ ⟨some "log", .function, .none, .none, none, none⟩
    (by decide) (by decide) rfl

/-- `identical_duplicates_accepted`: repeating the first statement of `exS`. -/
example : ∃ syms', parseModel (exS ++ [exS0]) = .ok syms' ∧
    syms'.filter (fun s => s.name.isSome) = exSyms.filter (fun s => s.name.isSome) :=
  identical_duplicates_accepted exS_ok exS_wi (List.Mem.head _)

/-- `combine_error_class`: `{a}` against the variable `a` is a SymbolError. -/
example : combine ⟨some "a", .parameter, .int 0, .int 0, none, none⟩ ⟨some "a", .exogenous, .int 0, .int 0, none, none⟩
    = .error .symbolError :=
  (combine_error_class ⟨some "a", .parameter, .int 0, .int 0, none, none⟩
    ⟨some "a", .exogenous, .int 0, .int 0, none, none⟩ rfl).1.2 (by decide)

/-- `symbol_order`, `names_partition`, `lags_leads_spec` on `exS`. -/
example : ∃ D V, exSyms = D ++ V ∧ keys D = firstApp (scriptNames exS) ∧ (keys D).Nodup ∧
    (∀ v ∈ V, v.name = none ∧ v.type = .verbatim) := symbol_order exS_ok exS_wi
example : exL.names = exL.endogenous ++ exL.exogenous ++ exL.parameters ++ exL.errors ∧ exL.check = exL.endogenous ∧
    exL.names.Nodup := by
  have h := names_partition exS_ok exS_wi exL_ok
  exact ⟨h.1, h.2.1, h.2.2.1⟩
example : autoLags exSyms = .ok 1 ∧ autoLeads exSyms = .ok 2 := lags_leads_spec exS_ok exS_wi

/-- `explicit_replace` / `min_only_raise` with `lags=5, min_leads=4` (computed lengths 1 and 2). -/
example : exL'.lags = 5 := (explicit_replace exL'_ok).1 5 rfl
example : ∃ a, autoLeads exSyms = .ok a ∧ exL'.leads = max a 4 ∧ a ≤ exL'.leads ∧ (4 : Int) ≤ exL'.leads ∧
    ((4 : Int) ≤ a → exL'.leads = a) := (min_only_raise exL'_ok).2 rfl
example : exL'.leads = 4 ∧ exL.leads = 2 := by decide

/-- `default_range_enumerated` / `default_range_single` / `default_range_is_solve_range` /
    `default_range_is_accepted_periods` at `LAGS = 1, LEADS = 2, n = 6`. -/
example : ∀ t : Nat, t ∈ periodRange 1 (6 - 1 - 2) ↔ (1 ≤ t ∧ (t : Int) ≤ (6 : Nat) - 1 - (2 : Nat)) :=
  (default_range_enumerated 1 2 6 (by decide)).1
example : periodRange 1 ((1 + 2) - 1 - 2) = [] := (default_range_single 1 2).2 (by decide)
example {σ V : Type} (I : Interp σ V) (w : World σ) :
    solve I {} 6 1 2 none none w = solveList I {} 6 (periodRange 1 (6 - 1 - 2)) w [] [] :=
  default_range_is_solve_range I {} 6 1 2 w (by decide) (by decide) (by decide) (by decide)
private def exI12 : Interp Unit Unit :=
  { lags := 1, leads := 2, check := fun _ _ => (), allFinite := fun _ => true, close := fun _ _ => true,
    zeroNF := id, copyOffset := fun u _ _ => u, before := fun _ u _ => (u, false),
    eval := fun _ u _ _ => (u, false), after := fun _ u _ _ => (u, false) }
example : Feasible exI12 6 (3 : Nat) ∧ ¬ Feasible exI12 6 (4 : Nat) :=
  ⟨(default_range_is_accepted_periods exI12 6 3 (by decide)).1 (by decide),
   fun h => absurd ((default_range_is_accepted_periods exI12 6 4 (by decide)).2 h) (by decide)⟩

end Fsic.C03
