import Proofs.Lemmas.ContainerAccess
import Proofs.Lemmas.ContainerIndex
import Proofs.C09
import FsicModel.ContainerAlias
/-
C10 — Label-based access addresses exactly the labelled periods.

Property theorems only (helpers: `Proofs/Lemmas/ContainerAccess.lean`).  All statements are about the model M6
and hold for every store that satisfies the C09 invariant, every span, every label and every slice.

Labels are classes under Python `==` (so `1`, `1.0`, `True` are one label, as in a `dict`).  For list / tuple /
range and NumPy-array spans `locate` is the model's own search (`locate_seq_*`, `locate_numpy_*`); for pandas
spans it is a lookup in the recorded `get_loc` table, and every theorem below that takes `locate s k = .pos p`
as a hypothesis applies to whatever pandas answered (partial: pandas' own `get_loc` is outside the model).
-/
set_option linter.unusedSimpArgs false
set_option linter.unusedVariables false
namespace Fsic.C10
open Fsic Fsic.Container

variable {cfg : Cfg}

/-! ## Python slices -/

/-- **Python slice semantics, positive step, all bounds** (`None`, negative, beyond either end): with
    `lo = clamp(start)` (default 0) and `hi = clamp(stop)` (default n), `xs[start:stop:step]` addresses exactly the
    positions `lo ≤ i < hi` with `i ≡ lo (mod step)`, in increasing order `lo, lo+step, …`. -/
theorem pySlice_spec (n : Nat) (a b : Option Int) {st : Nat} (hs : 0 < st) :
    (∀ i, i ∈ pySlice n a b st ↔ sliceLo n a ≤ i ∧ i < sliceHi n b ∧ (i - sliceLo n a) % st = 0) ∧
    pySlice n a b st = (List.range (sliceCount (sliceLo n a) (sliceHi n b) st)).map (fun k => sliceLo n a + k * st) ∧
    (∀ i ∈ pySlice n a b st, i < n) := by
  refine ⟨fun i => mem_pySlice hs i, rfl, fun i hi => ?_⟩
  have := ((mem_pySlice hs i).mp hi).2.1
  exact Nat.lt_of_lt_of_le this (sliceHi_le n b)

/-- How the bounds are clamped (this *is* `slice.indices(n)` for a positive step). -/
theorem clamp_spec (n : Nat) (x : Int) :
    (0 ≤ x → x ≤ n → clampPos n x = x.toNat) ∧ (x > n → clampPos n x = n) ∧
    (x < 0 → 0 ≤ x + n → clampPos n x = (x + n).toNat) ∧ (x + n < 0 → clampPos n x = 0) := by
  unfold clampPos
  refine ⟨fun h1 h2 => ?_, fun h => ?_, fun h1 h2 => ?_, fun h => ?_⟩
  · have : ¬ x < 0 := by omega
    have h3 : ¬ x > n := by omega
    simp [this, h3]
  · have : ¬ x < 0 := by omega
    simp [this, h]
  · have : ¬ x + n < 0 := by omega
    simp [h1, this]
  · have : x < 0 := by omega
    simp [this, h]

/-- Non-vacuity: `range(10)[2:9:3]`, `[-3:]`, `[:-8]`, `[5:2]`, `[-100:100:4]`. -/
example : pySlice 10 (some 2) (some 9) 3 = [2, 5, 8] ∧ pySlice 10 (some (-3)) none 1 = [7, 8, 9] ∧
    pySlice 10 none (some (-8)) 1 = [0, 1] ∧ pySlice 10 (some 5) (some 2) 1 = [] ∧
    pySlice 10 (some (-100)) (some 100) 4 = [0, 4, 8] := by decide

/-! ## Locating a label -/

/-- **List / tuple / range spans**: a label is located at its first occurrence … -/
theorem locate_seq_pos {s : Store} (hk : s.spanKind = .seq) (k p : Nat) :
    locate s k = .pos p ↔ s.span[p]? = some k ∧ ∀ j, j < p → s.span[j]? ≠ some k := by
  rw [locate_seq hk]
  cases hf : firstIdx s.span k with
  | none =>
    simp only
    constructor
    · intro h; cases h
    · intro h; rw [← firstIdx_some] at h; rw [hf] at h; cases h
  | some i =>
    simp only
    rw [← firstIdx_some, hf]
    constructor
    · intro h; cases h; rfl
    · intro h; cases h; rfl

/-- … and a label that is not in the span is `missing` (never another period). -/
theorem locate_seq_missing {s : Store} (hk : s.spanKind = .seq) (k : Nat) :
    locate s k = .missing ↔ k ∉ s.span := by
  rw [locate_seq hk, ← firstIdx_none]
  cases firstIdx s.span k <;> simp

/-- With distinct labels, the label of period `p` is located at `p`. -/
theorem locate_seq_nodup {s : Store} (hk : s.spanKind = .seq) (hn : s.span.Nodup) {k p : Nat}
    (hp : s.span[p]? = some k) : locate s k = .pos p := by
  rw [locate_seq hk, firstIdx_of_nodup hn hp]

/-- **NumPy-array spans** (the fallback): located iff the label occurs exactly once, at that position;
    absent labels and ambiguous labels are `missing` (KeyError). -/
theorem locate_numpy {s : Store} (hk : s.spanKind = .numpy) (k : Nat) :
    (∀ p, locate s k = .pos p ↔ countOcc s.span k = 1 ∧ firstIdx s.span k = some p) ∧
    (k ∉ s.span → locate s k = .missing) := by
  unfold locate
  rw [hk]
  constructor
  · intro p
    by_cases hc : countOcc s.span k = 1
    · simp only [hc, if_true, true_and]
      cases firstIdx s.span k <;> simp
    · simp [hc]
  · intro hm
    have : firstIdx s.span k = none := firstIdx_none.mpr hm
    simp only [this]
    split <;> rfl

/-- A located position is inside the span. -/
theorem locate_lt {s : Store} (hk : s.spanKind ≠ .pandas) {k p : Nat} (h : locate s k = .pos p) : p < s.n := by
  unfold locate at h
  cases hs : s.spanKind with
  | pandas => exact absurd hs hk
  | seq =>
    rw [hs] at h
    simp only at h
    cases hf : firstIdx s.span k with
    | none => rw [hf] at h; cases h
    | some i => rw [hf] at h; cases h; exact firstIdx_lt hf
  | numpy =>
    rw [hs] at h
    simp only at h
    split at h
    · cases hf : firstIdx s.span k with
      | none => rw [hf] at h; cases h
      | some i => rw [hf] at h; cases h; exact firstIdx_lt hf
    · cases h

/-- Non-vacuity: span `[2000, 2001, 2002]` as label classes `[0, 1, 2]`; class 7 is absent. -/
example : locate (init [0, 1, 2] .seq false) 1 = .pos 1 ∧ locate (init [0, 1, 2] .seq false) 7 = .missing ∧
    locate (init [0, 1, 1] .numpy false) 1 = .missing ∧ locate (init [0, 1, 1] .numpy false) 0 = .pos 0 := by
  decide

/-- **What a label access addresses is a function of the span alone** (its labels, its kind, pandas' answers): two
    stores with the same span resolve every label and every label slice identically — there is no memory of
    earlier accesses, and data, attributes and strictness play no part. -/
theorem access_depends_only_on_span {s s' : Store} (h1 : s'.span = s.span) (h2 : s'.spanKind = s.spanKind)
    (h3 : s'.getLoc = s.getLoc) :
    (∀ k, locate s' k = locate s k) ∧
    (∀ a b st, resolveSlice s' a b st = resolveSlice s a b st) ∧
    (∀ a b st, labelSlicePositions s' a b st = labelSlicePositions s a b st) := by
  have hloc : ∀ k, locate s' k = locate s k := by
    intro k; unfold locate; rw [h1, h2, h3]
  have hres : ∀ a b st, resolveSlice s' a b st = resolveSlice s a b st := by
    intro a b st; unfold resolveSlice; simp only [hloc, h1]
  refine ⟨hloc, hres, ?_⟩
  intro a b st
  unfold labelSlicePositions
  rw [hres]
  simp only [Store.n, h1]

/-- … in particular no operation of the alphabet changes what a later access addresses (the span is never
    touched: `C09.step_ext`), for every history. -/
theorem access_unchanged_by_history (s : Store) (ops : List Op) :
    (∀ k, locate (run cfg s ops) k = locate s k) ∧
    (∀ a b st, labelSlicePositions (run cfg s ops) a b st = labelSlicePositions s a b st) := by
  have h := C09.run_ext (cfg := cfg) s ops
  have := access_depends_only_on_span h.span h.spanKind h.getLoc
  exact ⟨this.1, this.2.2⟩

/-! ## Reading and writing one label -/

/-- **`obj[name, label]` reads exactly the element at the label's position.** -/
theorem label_get {s : Store} {name : Name} {ser : Series} {k p : Nat} (hg : s.get name = some ser)
    (hw : ser.wf s.n) (hl : locate s k = .pos p) (hp : p < s.n) :
    getLabel s name k = .elem (pick ser.data p) := by
  unfold getLabel
  rw [hg]
  simp only [hl, readLoc, firstDim_wf hw, hp, if_true, viewPos_wf hw, readView]

/-- **`obj[name, label] = v` writes exactly that element** (converted to the series' dtype) and nothing else:
    same shape, same dtype, every other position and every other variable untouched. -/
theorem label_set {s : Store} {name : Name} {ser : Series} {k p : Nat} {v w : Val}
    (hg : s.get name = some ser) (hw : ser.wf s.n) (hl : locate s k = .pos p) (hp : p < s.n)
    (hc : conv ser.dtype v = .ok w) :
    step cfg s (.setLabel name k (.scalar v)) = (s.put name { ser with data := setAt ser.data p w }, .ok) := by
  simp only [step, setLabel, hl, hg, assignLoc, firstDim_wf hw, hp, if_true]
  rw [assignAt_scalar hc, viewPos_wf hw]
  rfl

/-- The frame of a label write, spelled out. -/
theorem label_set_frame {s : Store} {name : Name} {ser : Series} {k p : Nat} {v w : Val}
    (hg : s.get name = some ser) (hw : ser.wf s.n) (hl : locate s k = .pos p) (hp : p < s.n)
    (hc : conv ser.dtype v = .ok w) :
    (∀ other, other ≠ name → (step cfg s (.setLabel name k (.scalar v))).1.get other = s.get other) ∧
    (∃ ser', (step cfg s (.setLabel name k (.scalar v))).1.get name = some ser' ∧ ser'.dtype = ser.dtype ∧
      ser'.shape = ser.shape ∧ pick ser'.data p = w ∧ ∀ j, j ≠ p → pick ser'.data j = pick ser.data j) := by
  rw [label_set hg hw hl hp hc]
  refine ⟨fun other ho => get_put_other ho, ⟨_, get_put_same hg, rfl, rfl, ?_, fun j hj => ?_⟩⟩
  · exact pick_setAt_eq w (by rw [hw.2]; exact hp)
  · exact pick_setAt_ne w (fun h => hj h.symm)

/-- **A label that is not in the span raises KeyError and never aliases another period**: reads raise, writes
    raise and leave the store exactly as it was — for a single label and for either end of a label slice. -/
theorem missing_label_keyerror {s : Store} {k : Nat} (hl : locate s k = .missing) (name : Name) (v : Operand) :
    getLabel s name k = .raised .key ∧
    step cfg s (.setLabel name k v) = (s, .raised .key) ∧
    (∀ kb st, getLabelSlice s name (some k) (some kb) st = .raised .key) ∧
    (∀ kb st, step cfg s (.setLabelSlice name (some k) (some kb) st v) = (s, .raised .key)) ∧
    (∀ ka st, locate s ka ≠ .missing → getLabelSlice s name (some ka) (some k) st = .raised .key) ∧
    (∀ ka st, locate s ka ≠ .missing → step cfg s (.setLabelSlice name (some ka) (some k) st v) = (s, .raised .key)) := by
  have hres1 : ∀ kb st, resolveSlice s (some k) (some kb) st = .error .key := by
    intro kb st; simp [resolveSlice, hl, Loc.start?]
  have hres2 : ∀ ka st, locate s ka ≠ .missing → resolveSlice s (some ka) (some k) st = .error .key := by
    intro ka st hka
    cases hla : locate s ka with
    | missing => exact absurd hla hka
    | pos i => simp [resolveSlice, hla, hl, Loc.start?, Loc.stop?]
    | nonIntPos i => simp [resolveSlice, hla, hl, Loc.start?, Loc.stop?]
    | slice x y => simp [resolveSlice, hla, hl, Loc.start?, Loc.stop?]
  refine ⟨?_, ?_, ?_, ?_, ?_, ?_⟩
  · unfold getLabel
    cases s.get name <;> simp [hl, readLoc]
  · simp only [step, setLabel]
    cases s.get name <;> simp [hl]
  · intro kb st
    unfold getLabelSlice
    cases s.get name <;> simp [hres1]
  · intro kb st
    simp only [step, setLabelSlice]
    cases s.get name <;> simp [hres1]
  · intro ka st hka
    unfold getLabelSlice
    cases s.get name <;> simp [hres2 ka st hka]
  · intro ka st hka
    simp only [step, setLabelSlice]
    cases s.get name <;> simp [hres2 ka st hka]

/-- For list-like spans "not in the span" is literal. -/
theorem missing_label_keyerror_seq {s : Store} (hk : s.spanKind = .seq) {k : Nat} (hm : k ∉ s.span)
    (name : Name) (v : Operand) :
    getLabel s name k = .raised .key ∧ step cfg s (.setLabel name k v) = (s, .raised .key) :=
  ⟨(missing_label_keyerror (cfg := cfg) ((locate_seq_missing hk k).mpr hm) name v).1,
   (missing_label_keyerror (cfg := cfg) ((locate_seq_missing hk k).mpr hm) name v).2.1⟩

/-! ## Label slices -/

/-- **`obj[name, a:b:s]` addresses positions `pos(a), pos(a)+s, …` up to and including `pos(b)`** — nothing when
    `pos(a) > pos(b)`; a missing step means 1. -/
theorem label_slice_positions {s : Store} {ka kb pa pb : Nat} (ha : locate s ka = .pos pa)
    (hb : locate s kb = .pos pb) (hpa : pa < s.n) (hpb : pb < s.n) {st : Nat} (hs : 0 < st) :
    labelSlicePositions s (some ka) (some kb) (some (st : Int)) = .ok (pySlice s.n (some pa) (some ((pb + 1 : Nat) : Int)) st) ∧
    (∀ i, i ∈ pySlice s.n (some pa) (some ((pb + 1 : Nat) : Int)) st ↔ pa ≤ i ∧ i ≤ pb ∧ (i - pa) % st = 0) ∧
    (pa > pb → pySlice s.n (some pa) (some ((pb + 1 : Nat) : Int)) st = []) ∧
    labelSlicePositions s (some ka) (some kb) none = .ok (pySlice s.n (some pa) (some ((pb + 1 : Nat) : Int)) 1) := by
  have hlo : sliceLo s.n (some (pa : Int)) = pa := clampPos_nat (Nat.le_of_lt hpa)
  have hhi : sliceHi s.n (some ((pb + 1 : Nat) : Int)) = pb + 1 := clampPos_nat hpb
  have hmem : ∀ i, i ∈ pySlice s.n (some pa) (some ((pb + 1 : Nat) : Int)) st ↔ pa ≤ i ∧ i ≤ pb ∧ (i - pa) % st = 0 := by
    intro i
    rw [mem_pySlice hs, hlo, hhi]
    omega
  have hst : st ≠ 0 := by omega
  refine ⟨?_, hmem, ?_, ?_⟩
  · simp [labelSlicePositions, resolveSlice, ha, hb, Loc.start?, Loc.stop?, pySliceAny, hst, hs]
  · intro hgt
    apply List.eq_nil_iff_forall_not_mem.mpr
    intro i hi
    have := (hmem i).mp hi
    omega
  · simp [labelSlicePositions, resolveSlice, ha, hb, Loc.start?, Loc.stop?, pySliceAny]

/-- **Open ends are the ends of the span.**  An open start is position 0 (the first label is its own first
    occurrence); an open stop is the last position provided the last label does not occur earlier (always true
    for distinct labels). -/
theorem label_slice_open_ends {s : Store} (hk : s.spanKind = .seq) (hn : s.span.Nodup) (hne : s.span ≠ [])
    (st : Option Int) :
    resolveSlice s none none st = .ok (0, s.n, st.getD 1) := by
  obtain ⟨x, xs, hx⟩ : ∃ x xs, s.span = x :: xs := by
    cases h : s.span with
    | nil => exact absurd h hne
    | cons x xs => exact ⟨x, xs, rfl⟩
  have hhead : s.span.head? = some x := by rw [hx]; rfl
  obtain ⟨y, hy⟩ : ∃ y, s.span.getLast? = some y := by
    cases h : s.span.getLast? with
    | none => rw [List.getLast?_eq_none_iff] at h; exact absurd h hne
    | some y => exact ⟨y, rfl⟩
  have h0 : locate s x = .pos 0 := by
    rw [locate_seq hk, hx, firstIdx_head]
  have hlast : s.span[s.n - 1]? = some y := by
    rw [List.getLast?_eq_getElem?] at hy
    exact hy
  have hl : locate s y = .pos (s.n - 1) := locate_seq_nodup hk hn hlast
  have hpos : 0 < s.n := by
    simp only [Store.n, hx, List.length_cons]; omega
  simp only [resolveSlice, hhead, hy, h0, hl, Loc.start?, Loc.stop?]
  have : s.n - 1 + 1 = s.n := by omega
  rw [this]

/-- Labels must identify periods for that: with a repeated last label the open stop resolves to its *first*
    occurrence (recorded behaviour, outside the property: `['a', 'b', 'a']`, `obj[name, :]` addresses position 0 only). -/
example : (labelSlicePositions (init [0, 1, 0] .seq false) none none none).toOption = some [0] := by decide

/-- Non-vacuity: span 2000..2009 (classes 0..9): `2002:2008:3`, `2005:2002`, open ends. -/
example :
    (labelSlicePositions (init [0, 1, 2, 3, 4, 5, 6, 7, 8, 9] .seq false) (some 2) (some 8) (some 3)).toOption = some [2, 5, 8] ∧
    (labelSlicePositions (init [0, 1, 2, 3, 4, 5, 6, 7, 8, 9] .seq false) (some 5) (some 2) none).toOption = some [] ∧
    (labelSlicePositions (init [0, 1, 2, 3, 4, 5, 6, 7, 8, 9] .seq false) none (some 1) none).toOption = some [0, 1] ∧
    (labelSlicePositions (init [0, 1, 2, 3, 4, 5, 6, 7, 8, 9] .seq false) (some 8) none none).toOption = some [8, 9] ∧
    (labelSlicePositions (init [0, 1, 2, 3, 4, 5, 6, 7, 8, 9] .seq false) (some 8) (some 77) none).toOption = none := by
  decide

/-- A label slice reads exactly the addressed positions, in order. -/
theorem label_slice_get {s : Store} {name : Name} {ser : Series} (hg : s.get name = some ser) (hw : ser.wf s.n)
    {a b : Option Nat} {st : Option Int} {ps : List Nat} (hps : labelSlicePositions s a b st = .ok ps) :
    getLabelSlice s name a b st = .array [ps.length] (ps.map (pick ser.data)) := by
  unfold labelSlicePositions at hps
  unfold getLabelSlice
  rw [hg]
  cases hr : resolveSlice s a b st with
  | error e => rw [hr] at hps; cases hps
  | ok t =>
    obtain ⟨lo, hi, step⟩ := t
    rw [hr] at hps
    simp only at hps ⊢
    rw [firstDim_wf hw]
    cases hp : pySliceAny s.n (some ↑lo) (some ↑hi) (some step) with
    | none => rw [hp] at hps; cases hps
    | some ps' =>
      rw [hp] at hps
      cases hps
      simp only [viewSlice_wf hw, readView, gather]

/-- A scalar written through a label slice lands on exactly the addressed positions. -/
theorem label_slice_set {s : Store} {name : Name} {ser : Series} (hg : s.get name = some ser) (hw : ser.wf s.n)
    {a b : Option Nat} {st : Option Int} {ps : List Nat} (hps : labelSlicePositions s a b st = .ok ps)
    {v w : Val} (hc : conv ser.dtype v = .ok w) :
    step cfg s (.setLabelSlice name a b st (.scalar v)) =
      (s.put name { ser with data := writeRaw ser.data (ps.map fun k => (k, w)) }, .ok) := by
  unfold labelSlicePositions at hps
  simp only [step, setLabelSlice]
  cases hr : resolveSlice s a b st with
  | error e => rw [hr] at hps; cases hps
  | ok t =>
    obtain ⟨lo, hi, stp⟩ := t
    rw [hr] at hps
    simp only [hg] at hps ⊢
    rw [firstDim_wf hw]
    cases hp : pySliceAny s.n (some ↑lo) (some ↑hi) (some stp) with
    | none => rw [hp] at hps; cases hps
    | some ps' =>
      rw [hp] at hps
      cases hps
      simp only
      rw [assignAt_scalar hc, viewSlice_wf hw]

/-! ## All access paths agree -/

/-- **Reads**: attribute / name key, position, label and label slice are projections of one and the same stored
    series — whatever was written, by whichever path, every path reads the same elements. -/
theorem access_paths_agree_reads {s : Store} {name : Name} {ser : Series} (hg : s.get name = some ser)
    (hw : ser.wf s.n) {k p : Nat} (hl : locate s k = .pos p) (hp : p < s.n) :
    getItem s name = .array [s.n] ser.data ∧
    getPos s name (p : Int) = .elem (pick ser.data p) ∧
    getLabel s name k = .elem (pick ser.data p) ∧
    getLabelSlice s name (some k) (some k) none = .array [1] [pick ser.data p] := by
  refine ⟨?_, ?_, label_get hg hw hl hp, ?_⟩
  · simp [getItem, hg, hw.1]
  · have hidx : pyIndex s.n (p : Int) = some p := by
      unfold pyIndex
      have h1 : (0 : Int) ≤ (p : Int) := by omega
      have h2 : (p : Int) < (s.n : Int) := by omega
      simp [h1, h2]
    simp [getPos, hg, firstDim_wf hw, hidx, viewPos_wf hw, readView]
  · have hps : labelSlicePositions s (some k) (some k) none = .ok [p] := by
      have h := (label_slice_positions hl hl hp hp (st := 1) (by omega)).2.2.2
      rw [h]
      congr 1
      have hlo : sliceLo s.n (some (p : Int)) = p := clampPos_nat (Nat.le_of_lt hp)
      have hhi : sliceHi s.n (some ((p : Int) + 1)) = p + 1 := by
        have := clampPos_nat (n := s.n) (p := p + 1) hp
        simpa [sliceHi] using this
      simp [pySlice, hlo, hhi, sliceCount]
    rw [label_slice_get hg hw hps]
    rfl

/-- **The attribute path** `obj.name` reads the same series as `obj[name]` — provided no entry of the attribute
    list carries that name (PARTIAL: see the witness below). -/
theorem access_paths_agree_attribute_partial {s : Store} {name : Name} (hi : name ∈ s.index)
    (ha : s.attrs.contains name = false) : getAttr s name = getItem s name := by
  obtain ⟨ser, hg⟩ := get_of_index hi
  have hna : name ∉ s.attrs := by simpa using ha
  simp [getAttr, getItem, hna, hg]

/-- The full statement (without the guard) is FALSE on the code as it stands: `obj.P = 5` (an ad-hoc attribute),
    then `add_variable('P', 1)` — accepted, only the index is checked — then `obj.P = 7`: the write goes to the
    variable (`obj['P']` reads 7s) but `obj.P` still returns the stale attribute.  Reproduced on the real code by
    the oracle (key `attribute-shadows-variable`). -/
theorem access_paths_agree_attribute_false_at_witness :
    (let s := run Cfg.shipped (init [0, 1, 2] .seq false)
        [.setAttr "P" (.scalar (.i 5)) [], .addVariable "P" (.scalar (.i 1)) none, .setAttr "P" (.scalar (.i 7)) []]
     (getItem s "P", getAttr s "P")) = (.array [3] [.i 7, .i 7, .i 7], .other) := by
  decide

/-- With the candidate fix (`add_variable` also checks `_attributes`; `Cfg.current.addVarChecksAttrs` is read off
    the code on every run) the shadowing cannot be set up: creating a variable under the name of an existing
    attribute raises DuplicateNameError and changes nothing. -/
theorem add_variable_refuses_attribute_name (hc : cfg.addVarChecksAttrs = true) {s : Store} {name : Name}
    (ha : s.attrs.contains name = true) (v : Operand) (dtype : Option Kind) :
    step cfg s (.addVariable name v dtype) = (s, .raised .duplicateName) := by
  simp only [step, addVariable]
  by_cases hi : s.index.contains name = true
  · rw [if_pos hi]
  · rw [if_neg hi, if_pos (by rw [hc, ha]; rfl)]

/-- No attribute-list entry carries the name of a variable. -/
def NoShadow (s : Store) : Prop := ∀ name ∈ s.index, name ∉ s.attrs

theorem NoShadow.mono {s s' : Store} (h : NoShadow s) (hi : s'.index = s.index)
    (ha : ∀ a ∈ s'.attrs, a ∈ s.attrs ∨ a ∉ s.index) : NoShadow s' := by
  intro name hn hat
  rw [hi] at hn
  rcases ha name hat with h1 | h1
  · exact h name hn h1
  · exact h1 hn

theorem not_index_of_get_none {s : Store} {name : Name} (hg : s.get name = none) : name ∉ s.index := by
  intro hc
  obtain ⟨ser, hser⟩ := get_of_index hc
  rw [hg] at hser
  cases hser

theorem mem_appendNew {xs : List Name} {x a : Name} (h : a ∈ appendNew xs x) : a ∈ xs ∨ a = x := by
  unfold appendNew at h
  split at h
  · exact Or.inl h
  · rcases List.mem_append.mp h with h' | h'
    · exact Or.inl h'
    · right; simpa using h'

/-- A fresh container has no shadowed variable (it has no variable). -/
theorem no_shadow_init (span : List Nat) (kind : SpanKind) (strict : Bool) : NoShadow (init span kind strict) := by
  intro name hn
  simp [init, Store.index] at hn

theorem no_shadow_addAttribute {s : Store} (h : NoShadow s) (name : Name) :
    NoShadow (addAttribute cfg s name).1 := by
  rcases addAttribute_cases cfg s name with hc | ⟨hc, hi, _, _⟩
  · rw [hc]; exact h
  · rw [hc]
    refine h.mono rfl (fun a ha => ?_)
    rcases List.mem_append.mp ha with h1 | h1
    · exact Or.inl h1
    · right; simp at h1; rw [h1]; simpa using hi

/-- **With the candidate fix, no operation can make an attribute shadow a variable** (`add_variable` refuses
    attribute names, `add_attribute` and `__setattr__` refuse / never reuse variable names). -/
theorem no_shadow_step (hc : cfg.addVarChecksAttrs = true) {s : Store} (h : NoShadow s) (op : Op) :
    NoShadow (step cfg s op).1 := by
  cases op with
  | addVariable name v dtype =>
    rcases addVariable_cases cfg s name v dtype with ⟨e, he⟩ | ⟨a, _, _, _, hat, _, he⟩
    · rw [show step cfg s (.addVariable name v dtype) = addVariable cfg s name v dtype from rfl, he]; exact h
    · rw [show step cfg s (.addVariable name v dtype) = addVariable cfg s name v dtype from rfl, he]
      have hna : name ∉ s.attrs := by
        rw [hc] at hat
        simpa using hat
      intro nm hnm
      simp only [Store.index, List.map_append, List.map_cons, List.map_nil, List.mem_append,
        List.mem_singleton] at hnm
      rcases hnm with h1 | h1
      · exact h nm h1
      · rw [h1]; exact hna
  | addAttribute name => exact no_shadow_addAttribute h name
  | setAttr name v alts =>
    simp only [step, setAttr]
    split
    · exact h
    · cases hg : s.get name with
      | some ser => exact h.mono (assignWhole_index _ _ _ _) (fun a ha => Or.inl ((assignWhole_attrs _ _ _ _).1 ▸ ha))
      | none =>
        have hni := not_index_of_get_none hg
        dsimp only
        split
        · refine h.mono rfl (fun a ha => ?_)
          rcases mem_appendNew ha with h1 | h1
          · exact Or.inl h1
          · right; rw [h1]; exact hni
        · split
          · exact h
          · exact no_shadow_addAttribute h name
  | setItem name v =>
    exact h.mono (setItem_index _ _ _) (fun a ha => Or.inl ((setItem_attrs _ _ _).1 ▸ ha))
  | setPos name i v =>
    exact h.mono (setPos_index _ _ _ _) (fun a ha => Or.inl ((setPos_attrs _ _ _ _).1 ▸ ha))
  | setPosSlice name a b st v =>
    exact h.mono (setPosSlice_index _ _ _ _ _ _) (fun x ha => Or.inl ((setPosSlice_attrs _ _ _ _ _ _).1 ▸ ha))
  | setLabel name l v =>
    exact h.mono (setLabel_index _ _ _ _) (fun a ha => Or.inl ((setLabel_all _ _ _ _).2.2.2.1 ▸ ha))
  | setLabelSlice name a b st v =>
    exact h.mono (setLabelSlice_index _ _ _ _ _ _) (fun x ha => Or.inl ((setLabelSlice_all _ _ _ _ _ _).2.2.2.1 ▸ ha))
  | replaceValues kvs =>
    exact h.mono (replaceValues_index _ _) (fun a ha => Or.inl ((replaceValues_attrs _ _).1 ▸ ha))
  | setValues v alts =>
    simp only [step, setValues]
    split
    · exact h
    · cases hg : s.get "values" with
      | some ser => exact h.mono (assignWhole_index _ _ _ _) (fun a ha => Or.inl ((assignWhole_attrs _ _ _ _).1 ▸ ha))
      | none =>
        have hni := not_index_of_get_none hg
        dsimp only
        have hi := setValuesCore_index (cfg := cfg) s v
        have hat := (setValuesCore_all (cfg := cfg) s v).2.2.1
        generalize setValuesCore cfg s v = r at hi hat
        obtain ⟨s', o⟩ := r
        cases o with
        | raised e => exact h.mono hi (fun a ha => Or.inl (hat ▸ ha))
        | ok =>
          refine h.mono hi (fun a ha => ?_)
          dsimp only at ha hat
          rcases mem_appendNew ha with h1 | h1
          · exact Or.inl (hat ▸ h1)
          · right; rw [h1]; exact hni
  | setStrict b alts =>
    simp only [step, setStrict]
    split
    · exact h
    · cases hg : s.get "strict" with
      | some ser => exact h.mono (assignWhole_index _ _ _ _) (fun a ha => Or.inl ((assignWhole_attrs _ _ _ _).1 ▸ ha))
      | none =>
        have hni := not_index_of_get_none hg
        refine h.mono rfl (fun a ha => ?_)
        rcases mem_appendNew ha with h1 | h1
        · exact Or.inl h1
        · right; rw [h1]; exact hni
  | badKey t => exact h

/-- … hence after every history. -/
theorem no_shadow_history (hc : cfg.addVarChecksAttrs = true) {s : Store} (h : NoShadow s) (ops : List Op) :
    NoShadow (run cfg s ops) := by
  induction ops generalizing s with
  | nil => exact h
  | cons op ops ih => exact ih (no_shadow_step hc h op)

/-- **The attribute path, full strength** (same configuration hypothesis): in every store reached from a fresh
    container — or from any store without shadowed variables — `obj.name` and `obj[name]` read the same series. -/
theorem access_paths_agree_attribute {s : Store} (h : NoShadow s) {name : Name} (hi : name ∈ s.index) :
    getAttr s name = getItem s name :=
  access_paths_agree_attribute_partial hi (by simpa using h name hi)

/-- Non-vacuity: the witness history under the fixed configuration — the variable is refused, `obj.P` and
    `obj['P']` cannot disagree because there is no variable `P`. -/
example :
    (let s := run Cfg.fixed (init [0, 1, 2] .seq false)
        [.setAttr "P" (.scalar (.i 5)) [], .addVariable "P" (.scalar (.i 1)) none, .setAttr "P" (.scalar (.i 7)) []]
     (getItem s "P", getAttr s "P", s.index)) = (.raised .key, .other, []) := by
  decide

/-- **Write by label, read by every path.** -/
theorem access_paths_agree_label_write {s : Store} {name : Name} {ser : Series} {k p : Nat} {v w : Val}
    (hg : s.get name = some ser) (hw : ser.wf s.n) (hl : locate s k = .pos p) (hp : p < s.n)
    (hc : conv ser.dtype v = .ok w) :
    getLabel (step cfg s (.setLabel name k (.scalar v))).1 name k = .elem w ∧
    getPos (step cfg s (.setLabel name k (.scalar v))).1 name (p : Int) = .elem w ∧
    getItem (step cfg s (.setLabel name k (.scalar v))).1 name = .array [s.n] (setAt ser.data p w) ∧
    getLabelSlice (step cfg s (.setLabel name k (.scalar v))).1 name (some k) (some k) none = .array [1] [w] := by
  rw [label_set hg hw hl hp hc]
  have hg' : (s.put name { ser with data := setAt ser.data p w }).get name
      = some { ser with data := setAt ser.data p w } := get_put_same hg
  have hw' : ({ ser with data := setAt ser.data p w } : Series).wf (s.put name { ser with data := setAt ser.data p w }).n :=
    wf_setData hw (setAt_length _ _ _)
  have hl' : locate (s.put name { ser with data := setAt ser.data p w }) k = .pos p := hl
  have hpk : pick (setAt ser.data p w) p = w := pick_setAt_eq w (by rw [hw.2]; exact hp)
  obtain ⟨h1, h2, h3, h4⟩ := access_paths_agree_reads hg' hw' hl' hp
  simp only [hpk] at h2 h3 h4
  exact ⟨h3, h2, h1, h4⟩

/-- **Write by position, read by label** (the label whose position it is). -/
theorem access_paths_agree_pos_write {s : Store} {name : Name} {ser : Series} {k p : Nat} {i : Int} {v w : Val}
    (hg : s.get name = some ser) (hw : ser.wf s.n) (hl : locate s k = .pos p) (hp : p < s.n)
    (hi : pyIndex s.n i = some p) (hc : conv ser.dtype v = .ok w) :
    (step cfg s (.setPos name i (.scalar v))).2 = .ok ∧
    getLabel (step cfg s (.setPos name i (.scalar v))).1 name k = .elem w := by
  have hstep : step cfg s (.setPos name i (.scalar v)) = (s.put name { ser with data := setAt ser.data p w }, .ok) := by
    simp only [step, setPos, hg, firstDim_wf hw, hi]
    rw [assignAt_scalar hc, viewPos_wf hw]
    rfl
  rw [hstep]
  refine ⟨rfl, ?_⟩
  have hg' : (s.put name { ser with data := setAt ser.data p w }).get name
      = some { ser with data := setAt ser.data p w } := get_put_same hg
  have hw' : ({ ser with data := setAt ser.data p w } : Series).wf (s.put name { ser with data := setAt ser.data p w }).n :=
    wf_setData hw (setAt_length _ _ _)
  rw [label_get hg' hw' (show locate (s.put name _) k = .pos p from hl) hp]
  exact congrArg _ (pick_setAt_eq w (by rw [hw.2]; exact hp))

/-- **Write the whole series (attribute or name key), read by any label.** -/
theorem access_paths_agree_whole_write {s : Store} {name : Name} {ser : Series} {k p : Nat} {v w : Val}
    (hg : s.get name = some ser) (hw : ser.wf s.n) (hl : locate s k = .pos p) (hp : p < s.n)
    (hc : conv ser.dtype v = .ok w) :
    (step cfg s (.setItem name (.scalar v))).2 = .ok ∧
    getLabel (step cfg s (.setItem name (.scalar v))).1 name k = .elem w ∧
    step cfg s (.setAttr name (.scalar v) []) = step cfg s (.setItem name (.scalar v)) := by
  have hstep : step cfg s (.setItem name (.scalar v)) =
      (s.put name { ser with data := writeRaw ser.data ((List.range s.n).map fun j => (j, w)) }, .ok) := by
    simp only [step, setItem, hg]
    rw [assignWhole_nonseq (by rfl), assignAt_scalar hc, viewAll_wf hw]
  refine ⟨by rw [hstep], ?_, ?_⟩
  · rw [hstep]
    have hlen : (writeRaw ser.data ((List.range s.n).map fun j => (j, w))).length = ser.data.length :=
      writeRaw_length _ _
    have hg' := get_put_same (ser := { ser with data := writeRaw ser.data ((List.range s.n).map fun j => (j, w)) }) hg
    rw [label_get hg' (wf_setData hw hlen) (show locate (s.put name _) k = .pos p from hl) hp]
    congr 1
    rw [pick_writeRaw_fill _ _ _ _ (by rw [hw.2]; exact hp)]
    simp [hp]
  · have := (C09_helper s name ser v hg)
    exact this
where
  C09_helper (s : Store) (name : Name) (ser : Series) (v : Val) (hg : s.get name = some ser) :
      step cfg s (.setAttr name (.scalar v) []) = step cfg s (.setItem name (.scalar v)) := by
    have hmem : name ∈ s.index := index_of_get hg
    simp [step, setAttr, setItem, strictBlocks, hmem, hg]

/-- **Write by label slice, read by position**: inside the slice the new value, outside it the old one. -/
theorem access_paths_agree_slice_write {s : Store} {name : Name} {ser : Series} (hg : s.get name = some ser)
    (hw : ser.wf s.n) {a b : Option Nat} {st : Option Int} {ps : List Nat}
    (hps : labelSlicePositions s a b st = .ok ps) {v w : Val} (hc : conv ser.dtype v = .ok w)
    {j : Nat} (hj : j < s.n) :
    getPos (step cfg s (.setLabelSlice name a b st (.scalar v))).1 name (j : Int) =
      .elem (if j ∈ ps then w else pick ser.data j) := by
  rw [label_slice_set hg hw hps hc]
  have hlen : (writeRaw ser.data (ps.map fun k => (k, w))).length = ser.data.length := writeRaw_length _ _
  have hg' := get_put_same (ser := { ser with data := writeRaw ser.data (ps.map fun k => (k, w)) }) hg
  have hw' := wf_setData hw hlen
  have hidx : pyIndex s.n (j : Int) = some j := by
    unfold pyIndex
    have h1 : (0 : Int) ≤ (j : Int) := by omega
    have h2 : (j : Int) < (s.n : Int) := by omega
    simp [h1, h2]
  simp only [getPos, hg', firstDim_wf hw', put_n, hidx, viewPos_wf hw', readView]
  rw [pick_writeRaw_fill _ _ _ _ (by rw [hw.2]; exact hj)]

/-- Non-vacuity of the whole chain on a concrete container: span classes `[0,1,2,3]`, int variable `X`; write 7 by
    label 2, 9 by position -1, 5 through the label slice `0:2:2`; read back through label, position, key, slice. -/
example :
    (let s := run Cfg.shipped (init [0, 1, 2, 3] .seq false)
        [.addVariable "X" (.list [.i 10, .i 20, .i 30, .i 40]) none, .setLabel "X" 2 (.scalar (.i 7)),
         .setPos "X" (-1) (.scalar (.i 9)), .setLabelSlice "X" (some 0) (some 2) (some 2) (.scalar (.i 5))]
     (getItem s "X", getLabel s "X" 3, getPos s "X" 2, getLabelSlice s "X" (some 1) none none, getLabel s "X" 9))
    = (.array [4] [.i 5, .i 20, .i 5, .i 9], .elem (.i 9), .elem (.i 5), .array [3] [.i 20, .i 5, .i 9],
       .raised .key) := by
  decide

/-! ## Item and label access is defined on `index`, not on `names`

A model-like object keeps `status`, `iterations` (and a tracer's `trace`) as ordinary container variables: they are in
`index` but not in `names` (`Store.nonNames`), and `name in obj` (`contains`) speaks about `names`. -/

/-- **Every access path by name is defined exactly on `index`**: a name in the index has a series — whether or not
    it is a model variable — so all label / slice / position theorems above apply to it; a name outside the index
    raises KeyError on every read and every write by key, label, label slice or position, and nothing changes.
    Membership `name in obj` is a different question: it is about `names ⊆ index`. -/
theorem access_defined_on_index (s : Store) (name : Name) :
    (name ∈ s.index ↔ ∃ ser, s.get name = some ser) ∧
    (getItem s name = .raised .key ↔ name ∉ s.index) ∧
    (name ∉ s.index → ∀ (k : Nat) (a b : Option Nat) (st : Option Int) (i : Int) (v : Operand),
      getLabel s name k = .raised .key ∧ getLabelSlice s name a b st = .raised .key ∧ getPos s name i = .raised .key ∧
      step cfg s (.setItem name v) = (s, .raised .key) ∧ step cfg s (.setLabel name k v) = (s, .raised .key) ∧
      step cfg s (.setLabelSlice name a b st v) = (s, .raised .key) ∧ step cfg s (.setPos name i v) = (s, .raised .key)) ∧
    (contains s name = true → name ∈ s.index) ∧
    (∀ x ∈ s.nonNames, contains s x = false) := by
  refine ⟨⟨get_of_index, fun ⟨ser, h⟩ => index_of_get h⟩, ?_, ?_, ?_, ?_⟩
  · constructor
    · intro h hi
      obtain ⟨ser, hg⟩ := get_of_index hi
      simp [getItem, hg] at h
    · intro hi
      simp [getItem, get_none_of_not_index hi]
  · intro hi k a b st i v
    have hg := get_none_of_not_index hi
    simp [getLabel, getLabelSlice, getPos, step, setItem, setLabel, setLabelSlice, setPos, hg]
  · intro h
    simp only [contains, Store.names, List.contains_iff_mem, List.mem_filter] at h
    exact h.1
  · intro x hx
    simp only [contains, Store.names]
    cases hc : (List.filter (fun x => !s.nonNames.contains x) s.index).contains x with
    | false => rfl
    | true =>
      simp only [List.contains_iff_mem, List.mem_filter] at hc
      simp at hc
      exact absurd hx hc.2

/-- Non-vacuity: a model-like store with `status` (str) and `iterations` (int) in front of its model variable `Y`
    and a `trace` behind it: `'iterations' in obj` is False, yet `obj['iterations', label] = 5` and a label slice on
    `status` address exactly their cells; a name outside the index raises KeyError. -/
example :
    (let s0 : Store := { init [0, 1, 2] .seq false with
        vars := [("status", ⟨uN 1, [3], [.s "-", .s "-", .s "-"]⟩), ("iterations", ⟨i8, [3], [.i (-1), .i (-1), .i (-1)]⟩),
                 ("Y", ⟨f8, [3], [.i 0, .i 0, .i 0]⟩), ("trace", ⟨⟨.obj, 0⟩, [3], [.s "<a>", .s "<b>", .s "<c>"]⟩)],
        nonNames := ["status", "iterations", "trace"] }
     let s := run Cfg.fixed s0 [.setLabel "iterations" 1 (.scalar (.i 5)),
        .setLabelSlice "status" (some 1) none none (.scalar (.s "F")), .setLabel "trace" 0 (.scalar (.s "<new>"))]
     (s.names, contains s "iterations", getItem s "iterations", getItem s "status", getLabel s "trace" 0,
      (step Cfg.fixed s (.setLabel "nope" 1 (.scalar (.i 5)))).2))
    = (["Y"], false, .array [3] [.i (-1), .i 5, .i (-1)], .array [3] [.s "-", .s "F", .s "F"], .elem (.s "<new>"),
       .raised .key) := by
  decide

/-! ## Variables never share storage

Whole-series assignment stores VALUES: `obj.Y = obj.X`, `obj['Y'] = obj['X']`, a view of `X`, or one caller-owned array
given to two variables all arrive in the model as the operand's current values (`Operand.ndarray`), and `put` replaces
the series of the named variable only.  Hence a later write to one of them cannot reach the other. -/

/-- The variable a single-variable assignment names. -/
def Op.target : Op → Option Name
  | .setAttr name _ _ => some name
  | .setItem name _ => some name
  | .setPos name _ _ => some name
  | .setPosSlice name _ _ _ _ => some name
  | .setLabel name _ _ => some name
  | .setLabelSlice name _ _ _ _ => some name
  | _ => none

theorem assignAt_other {s : Store} {name other : Name} (ho : other ≠ name) (ser : Series)
    (view : List Nat × List Nat) (v : Operand) : (assignAt s name ser view v).1.get other = s.get other := by
  rw [assignAt_eq]; exact get_put_other ho

theorem assignWhole_other {s : Store} {name other : Name} (ho : other ≠ name) (ser : Series) (v : Operand) :
    (assignWhole cfg s name ser v).1.get other = s.get other := by
  cases hv : v.isSequence
  · rw [assignWhole_nonseq hv]; exact assignAt_other ho _ _ _
  · unfold assignWhole
    simp only [hv, if_true]
    cases hl : listShape v with
    | none => rfl
    | some p =>
      obtain ⟨shp, leaves⟩ := p
      dsimp only
      cases hc : convAll ser.dtype leaves with
      | error e => rfl
      | ok ws =>
        dsimp only
        cases hd : shapeRejected cfg s.n shp with
        | true => rfl
        | false => exact get_put_other ho

theorem assignLoc_other {s : Store} {name other : Name} (ho : other ≠ name) (ser : Series) (l : Loc) (v : Operand) :
    (assignLoc s name ser l v).1.get other = s.get other := by
  cases l with
  | missing => rfl
  | pos p => simp only [assignLoc]; split; exact assignAt_other ho _ _ _; rfl
  | nonIntPos p => simp only [assignLoc]; split; exact assignAt_other ho _ _ _; rfl
  | slice a b => simp only [assignLoc]; exact assignAt_other ho _ _ _

/-- **A write to one variable leaves every other variable's every cell unchanged** — for every store (hence after
    every history, cross-assignments `Y ← X` included), every single-variable assignment (whole series by attribute
    or key, position, position slice, label, label slice), every operand and whether or not the write succeeds. -/
theorem write_touches_only_target (s : Store) {op : Op} {name : Name} (ht : Op.target op = some name) {other : Name}
    (ho : other ≠ name) : (step cfg s op).1.get other = s.get other := by
  cases op with
  | setAttr n v alts =>
    simp only [Op.target] at ht; cases ht
    simp only [step, setAttr]
    split
    · rfl
    · cases hg : s.get name with
      | some ser => exact assignWhole_other ho ser v
      | none =>
        dsimp only
        split
        · rfl
        · split
          · rfl
          · rcases addAttribute_cases cfg s name with hc | ⟨hc, _⟩ <;> rw [hc] <;> rfl
  | setItem n v =>
    simp only [Op.target] at ht; cases ht
    simp only [step, setItem]
    cases hg : s.get name with
    | none => rfl
    | some ser => exact assignWhole_other ho ser v
  | setPos n i v =>
    simp only [Op.target] at ht; cases ht
    simp only [step, setPos]
    cases hg : s.get name with
    | none => rfl
    | some ser =>
      dsimp only
      cases pyIndex (firstDim ser) i with
      | none => rfl
      | some p => exact assignAt_other ho _ _ _
  | setPosSlice n a b st v =>
    simp only [Op.target] at ht; cases ht
    simp only [step, setPosSlice]
    cases hg : s.get name with
    | none => rfl
    | some ser =>
      dsimp only
      cases pySliceAny (firstDim ser) a b st with
      | none => rfl
      | some ps => exact assignAt_other ho _ _ _
  | setLabel n l v =>
    simp only [Op.target] at ht; cases ht
    simp only [step, setLabel]
    cases hg : s.get name with
    | none => rfl
    | some ser =>
      dsimp only
      cases hl : locate s l with
      | missing => rfl
      | pos p => exact assignLoc_other ho _ _ _
      | nonIntPos p => exact assignLoc_other ho _ _ _
      | slice a b => exact assignLoc_other ho _ _ _
  | setLabelSlice n a b st v =>
    simp only [Op.target] at ht; cases ht
    simp only [step, setLabelSlice]
    cases hg : s.get name with
    | none => rfl
    | some ser =>
      dsimp only
      cases resolveSlice s a b st with
      | error e => rfl
      | ok t =>
        obtain ⟨lo, hi, stp⟩ := t
        dsimp only
        cases pySliceAny (firstDim ser) (some ↑lo) (some ↑hi) (some stp) with
        | none => rfl
        | some ps => exact assignAt_other ho _ _ _
  | addVariable n v d => simp [Op.target] at ht
  | addAttribute n => simp [Op.target] at ht
  | replaceValues kvs => simp [Op.target] at ht
  | setValues v alts => simp [Op.target] at ht
  | setStrict b alts => simp [Op.target] at ht
  | badKey t => simp [Op.target] at ht

/-- Non-vacuity (the regression this guards against): `obj.Y = obj.X` (the operand is X's current values), then
    `obj['X', label 1] = 99` and a label-slice write to `Y`: each lands in its own variable only. -/
example :
    (let s := run Cfg.fixed (init [0, 1, 2] .seq false)
        [.addVariable "X" (.list [.i 1, .i 2, .i 3]) none, .addVariable "Y" (.scalar (.i 0)) none,
         .setAttr "Y" (.ndarray ⟨i8, [3], [.i 1, .i 2, .i 3]⟩) [], .setLabel "X" 1 (.scalar (.i 99)),
         .setLabelSlice "Y" (some 0) (some 1) none (.scalar (.i 7))]
     (getItem s "X", getItem s "Y")) = (.array [3] [.i 1, .i 99, .i 3], .array [3] [.i 7, .i 7, .i 3]) := by
  decide

/-! ## Alias-enabled classes (`AliasMixin` in front of the container)

The alias layer is `resolveName al` (M8's `Alias.resolve` on the instance's shortened alias map) applied to the
*name* of an access; everything above carries over to the variable the alias stands for. -/

/-- **Only names are resolved**: the operation handed to the base container has exactly the label arguments the
    caller wrote — a label is never looked up in the alias map, whatever it is spelled like. -/
theorem alias_resolves_names_only (al : Alias.AMap Name) (op : Op) :
    (op.resolveNames al).labelArgs = op.labelArgs := by
  cases op <;> rfl

/-- **The label is passed through unchanged**: access through alias `a` at label `l` *is* access through
    `resolve a` at label `l` — for every `l`, in particular for the label class `lab b` of a string `b` that is
    itself an alias (or a variable name); reads, writes, single labels and slices. -/
theorem alias_label_passthrough (al : Alias.AMap Name) (s : Store) (a : Name) (lab : Name → Nat) (b : Name)
    (v : Operand) (kb : Option Nat) (st : Option Int) :
    aGetLabel al s a (lab b) = getLabel s (resolveName al a) (lab b) ∧
    aStep cfg al s (.setLabel a (lab b) v) = step cfg s (.setLabel (resolveName al a) (lab b) v) ∧
    aGetLabelSlice al s a (some (lab b)) kb st = getLabelSlice s (resolveName al a) (some (lab b)) kb st ∧
    aStep cfg al s (.setLabelSlice a (some (lab b)) kb st v)
      = step cfg s (.setLabelSlice (resolveName al a) (some (lab b)) kb st v) :=
  ⟨rfl, rfl, rfl, rfl⟩

/-- Reading through an alias addresses the element at the label's position in the aliased variable. -/
theorem alias_label_get (al : Alias.AMap Name) {s : Store} {a : Name} {ser : Series} {k p : Nat}
    (hg : s.get (resolveName al a) = some ser) (hw : ser.wf s.n) (hl : locate s k = .pos p) (hp : p < s.n) :
    aGetLabel al s a k = .elem (pick ser.data p) :=
  label_get hg hw hl hp

/-- Writing through an alias changes exactly that element of the aliased variable. -/
theorem alias_label_set (al : Alias.AMap Name) {s : Store} {a : Name} {ser : Series} {k p : Nat} {v w : Val}
    (hg : s.get (resolveName al a) = some ser) (hw : ser.wf s.n) (hl : locate s k = .pos p) (hp : p < s.n)
    (hc : conv ser.dtype v = .ok w) :
    aStep cfg al s (.setLabel a k (.scalar v)) =
      (s.put (resolveName al a) { ser with data := setAt ser.data p w }, .ok) :=
  label_set hg hw hl hp hc

/-- **A label that is not in the span raises KeyError through an alias too** — also when the label is spelled like
    an alias whose target *is* a period of the span: nothing is read, nothing is written. -/
theorem alias_missing_label_keyerror (al : Alias.AMap Name) {s : Store} {k : Nat} (hl : locate s k = .missing)
    (a : Name) (v : Operand) :
    aGetLabel al s a k = .raised .key ∧ aStep cfg al s (.setLabel a k v) = (s, .raised .key) ∧
    (∀ kb st, aGetLabelSlice al s a (some k) (some kb) st = .raised .key) ∧
    (∀ kb st, aStep cfg al s (.setLabelSlice a (some k) (some kb) st v) = (s, .raised .key)) := by
  have h := missing_label_keyerror (cfg := cfg) hl (resolveName al a) v
  exact ⟨h.1, h.2.1, h.2.2.1, h.2.2.2.1⟩

/-- **All names of a variable read the same series**: two names that resolve to the same variable (an alias and
    its target, two aliases of one variable, the end of a chain) agree on every access path. -/
theorem alias_paths_agree (al : Alias.AMap Name) (s : Store) {a b : Name} (h : resolveName al a = resolveName al b) :
    aGetItem al s a = aGetItem al s b ∧ (∀ i, aGetPos al s a i = aGetPos al s b i) ∧
    (∀ k, aGetLabel al s a k = aGetLabel al s b k) ∧
    (∀ x y st, aGetLabelSlice al s a x y st = aGetLabelSlice al s b x y st) ∧
    (∀ op_v k, aStep cfg al s (.setLabel a k op_v) = aStep cfg al s (.setLabel b k op_v)) := by
  simp [aGetItem, aGetPos, aGetLabel, aGetLabelSlice, aStep, Op.resolveNames, h]

/-- Non-vacuity (the regression this guards against): span `['Y', 'GDP', 'I']` = classes `[0, 1, 2]`, variables `Y`,
    `C`; `ALIASES = {'GDP': 'Y', 'OUT': 'GDP'}` (a chain).  `obj['C', 'GDP']` addresses period `'GDP'` (position 1), not
    period `'Y'`; `obj['OUT', 'GDP'] = 9` writes `Y[1]`; the absent label `'INV'` (class 7) raises KeyError. -/
example :
    (let al := aliasesOf [("GDP", "Y"), ("OUT", "GDP")]
     let s := aRun Cfg.fixed al (init [0, 1, 2] .seq false)
        [.addVariable "Y" (.list [.i 10, .i 20, .i 30]) none, .addVariable "C" (.list [.i 1, .i 2, .i 3]) none,
         .setLabel "OUT" 1 (.scalar (.i 9))]
     (al, aGetLabel al s "C" 1, aGetItem al s "GDP", aGetLabel al s "GDP" 7,
      (aStep Cfg.fixed al s (.setLabel "C" 7 (.scalar (.i 0)))).2))
    = ([("GDP", "Y"), ("OUT", "Y")], .elem (.i 2), .array [3] [.i 10, .i 9, .i 30], .raised .key, .raised .key) := by
  decide

/-! ## Non-vacuity (review): every hypothesis-carrying theorem instantiated at a concrete non-trivial instance

`exX`: span label classes `[0, 1, 2, 3]` (list span), int variable `X = [10, 20, 30, 40]`, int variable `Y = 0`. -/

section Review

private def exX : Store := run Cfg.shipped (init [0, 1, 2, 3] .seq false)
  [.addVariable "X" (.list [.i 10, .i 20, .i 30, .i 40]) none, .addVariable "Y" (.scalar (.i 0)) none]
private def serX : Series := ⟨i8, [4], [.i 10, .i 20, .i 30, .i 40]⟩
private theorem exX_get : exX.get "X" = some serX := by decide
private theorem serX_wf : serX.wf exX.n := by decide
private theorem exX_loc2 : locate exX 2 = .pos 2 := by decide
private theorem exX_loc0 : locate exX 0 = .pos 0 := by decide
private theorem exX_conv : conv serX.dtype (.i 7) = .ok (.i 7) := by rfl
private def exNp : Store := init [5, 6, 6, 7] .numpy false

/-- `pySlice_spec` (step 3) and the four cases of `clamp_spec`. -/
example : ∀ i, i ∈ pySlice 10 (some 2) (some 9) 3 ↔
    sliceLo 10 (some 2) ≤ i ∧ i < sliceHi 10 (some 9) ∧ (i - sliceLo 10 (some 2)) % 3 = 0 :=
  (pySlice_spec 10 (some 2) (some 9) (st := 3) (by decide)).1
example : clampPos 10 4 = 4 ∧ clampPos 10 100 = 10 ∧ clampPos 10 (-3) = 7 ∧ clampPos 10 (-100) = 0 :=
  ⟨(clamp_spec 10 4).1 (by decide) (by decide), (clamp_spec 10 100).2.1 (by decide),
   (clamp_spec 10 (-3)).2.2.1 (by decide) (by decide), (clamp_spec 10 (-100)).2.2.2 (by decide)⟩

/-- `locate_seq_*`, `locate_numpy`, `locate_lt`. -/
example : locate exX 2 = .pos 2 := (locate_seq_pos (s := exX) rfl 2 2).2 (by decide)
example : locate exX 9 = .missing := (locate_seq_missing (s := exX) rfl 9).2 (by decide)
example : locate exX 3 = .pos 3 := locate_seq_nodup (s := exX) rfl (by decide) (k := 3) (p := 3) rfl
example : locate exNp 7 = .pos 3 ∧ locate exNp 9 = .missing :=
  ⟨((locate_numpy (s := exNp) rfl 7).1 3).2 (by decide), (locate_numpy (s := exNp) rfl 9).2 (by decide)⟩
example : ¬ ∃ p, locate exNp 6 = .pos p :=
  fun ⟨p, h⟩ => absurd (((locate_numpy (s := exNp) rfl 6).1 p).1 h).1 (by decide)
example : 2 < exX.n := locate_lt (s := exX) (by decide) exX_loc2

/-- `access_depends_only_on_span`: `exX` against the same span with no variables at all. -/
example : ∀ k, locate (init [0, 1, 2, 3] .seq true) k = locate exX k :=
  (access_depends_only_on_span (s := exX) (s' := init [0, 1, 2, 3] .seq true) (by decide) (by decide) (by decide)).1

/-- `label_get`, `label_set`, `label_set_frame` at label 2 of `X`. -/
example : getLabel exX "X" 2 = .elem (.i 30) := label_get exX_get serX_wf exX_loc2 (by decide)
example : step Cfg.shipped exX (.setLabel "X" 2 (.scalar (.i 7))) =
    (exX.put "X" { serX with data := setAt serX.data 2 (.i 7) }, .ok) :=
  label_set exX_get serX_wf exX_loc2 (by decide) exX_conv
example : (step Cfg.shipped exX (.setLabel "X" 2 (.scalar (.i 7)))).1.get "Y" = exX.get "Y" :=
  (label_set_frame (cfg := Cfg.shipped) exX_get serX_wf exX_loc2 (by decide) exX_conv).1 "Y" (by decide)

/-- `missing_label_keyerror` / `missing_label_keyerror_seq` at the absent label class 9. -/
example : getLabel exX "X" 9 = .raised .key ∧ step Cfg.shipped exX (.setLabel "X" 9 (.scalar (.i 1))) = (exX, .raised .key) :=
  ⟨(missing_label_keyerror (cfg := Cfg.shipped) (s := exX) (k := 9) (by decide) "X" (.scalar (.i 1))).1,
   (missing_label_keyerror (cfg := Cfg.shipped) (s := exX) (k := 9) (by decide) "X" (.scalar (.i 1))).2.1⟩
example : getLabelSlice exX "X" (some 1) (some 9) none = .raised .key :=
  (missing_label_keyerror (cfg := Cfg.shipped) (s := exX) (k := 9) (by decide) "X" (.scalar (.i 1))).2.2.2.2.1 1 none
    (by decide)
example : getLabel exX "X" 9 = .raised .key ∧ step Cfg.shipped exX (.setLabel "X" 9 (.scalar (.i 1))) = (exX, .raised .key) :=
  missing_label_keyerror_seq (cfg := Cfg.shipped) (s := exX) rfl (by decide) "X" (.scalar (.i 1))

/-- `label_slice_positions` (`0:2:2` → positions 0, 2), `label_slice_open_ends`, `label_slice_get`, `label_slice_set`. -/
example : labelSlicePositions exX (some 0) (some 2) (some ((2 : Nat) : Int)) =
    .ok (pySlice exX.n (some ((0 : Nat) : Int)) (some ((2 + 1 : Nat) : Int)) 2) :=
  (label_slice_positions exX_loc0 exX_loc2 (by decide) (by decide) (st := 2) (by decide)).1
example : pySlice exX.n (some 0) (some 3) 2 = [0, 2] := by decide
example : resolveSlice exX none none (some 2) = .ok (0, exX.n, 2) :=
  label_slice_open_ends (s := exX) rfl (by decide) (by decide) (some 2)
example : getLabelSlice exX "X" (some 0) (some 2) (some 2) = .array [[0, 2].length] ([0, 2].map (pick serX.data)) :=
  label_slice_get exX_get serX_wf (ps := [0, 2]) (by rfl)
example : step Cfg.shipped exX (.setLabelSlice "X" (some 0) (some 2) (some 2) (.scalar (.i 7))) =
    (exX.put "X" { serX with data := writeRaw serX.data ([0, 2].map fun k => (k, Val.i 7)) }, .ok) :=
  label_slice_set exX_get serX_wf (ps := [0, 2]) (by rfl) exX_conv

/-- The access paths: reads, attribute path, the four write theorems. -/
example : getItem exX "X" = .array [exX.n] serX.data ∧ getPos exX "X" ((2 : Nat) : Int) = .elem (pick serX.data 2) ∧
    getLabel exX "X" 2 = .elem (pick serX.data 2) ∧
    getLabelSlice exX "X" (some 2) (some 2) none = .array [1] [pick serX.data 2] :=
  access_paths_agree_reads exX_get serX_wf exX_loc2 (by decide)
example : getAttr exX "X" = getItem exX "X" :=
  access_paths_agree_attribute_partial (s := exX) (by decide) (by decide)
example : getLabel (step Cfg.shipped exX (.setLabel "X" 2 (.scalar (.i 7)))).1 "X" 2 = .elem (.i 7) :=
  (access_paths_agree_label_write (cfg := Cfg.shipped) exX_get serX_wf exX_loc2 (by decide) exX_conv).1
example : getLabel (step Cfg.shipped exX (.setPos "X" (-2) (.scalar (.i 7)))).1 "X" 2 = .elem (.i 7) :=
  (access_paths_agree_pos_write (cfg := Cfg.shipped) exX_get serX_wf exX_loc2 (by decide) (i := -2) (by decide) exX_conv).2
example : getLabel (step Cfg.shipped exX (.setItem "X" (.scalar (.i 7)))).1 "X" 2 = .elem (.i 7) :=
  (access_paths_agree_whole_write (cfg := Cfg.shipped) exX_get serX_wf exX_loc2 (by decide) exX_conv).2.1
example : getPos (step Cfg.shipped exX (.setLabelSlice "X" (some 0) (some 2) (some 2) (.scalar (.i 7)))).1 "X" ((1 : Nat) : Int) =
    .elem (if 1 ∈ [0, 2] then Val.i 7 else pick serX.data 1) :=
  access_paths_agree_slice_write (cfg := Cfg.shipped) exX_get serX_wf (ps := [0, 2]) (by rfl) exX_conv (j := 1) (by decide)

/-- `add_variable_refuses_attribute_name`, `no_shadow_step`, `no_shadow_history`, `access_paths_agree_attribute` under
    the configuration of the tree under test (`Cfg.current.addVarChecksAttrs` holds). -/
example : Cfg.current.addVarChecksAttrs = true := by decide
example : step Cfg.current (step Cfg.current (init [0, 1, 2] .seq false) (.setAttr "P" (.scalar (.i 5)) [])).1
      (.addVariable "P" (.scalar (.i 1)) none) =
    ((step Cfg.current (init [0, 1, 2] .seq false) (.setAttr "P" (.scalar (.i 5)) [])).1, .raised .duplicateName) :=
  add_variable_refuses_attribute_name (cfg := Cfg.current) (by decide) (by decide) _ _
private def exHist : List Op :=
  [.setAttr "P" (.scalar (.i 5)) [], .addVariable "P" (.scalar (.i 1)) none, .addVariable "Q" (.scalar (.i 1)) none,
   .setAttr "P" (.scalar (.i 7)) []]
example : NoShadow (step Cfg.current (run Cfg.current (init [0, 1, 2] .seq false) exHist) (.addAttribute "Q")).1 :=
  no_shadow_step (cfg := Cfg.current) (by decide)
    (no_shadow_history (cfg := Cfg.current) (by decide) (no_shadow_init _ _ _) exHist) _
example : getAttr (run Cfg.current (init [0, 1, 2] .seq false) exHist) "Q" =
    getItem (run Cfg.current (init [0, 1, 2] .seq false) exHist) "Q" :=
  access_paths_agree_attribute (no_shadow_history (cfg := Cfg.current) (by decide) (no_shadow_init _ _ _) exHist) (by decide)

/-- `write_touches_only_target`: a label-slice write to `X` leaves `Y` alone; `access_defined_on_index` off the index. -/
example : (step Cfg.shipped exX (.setLabelSlice "X" (some 0) (some 2) none (.scalar (.i 7)))).1.get "Y" = exX.get "Y" :=
  write_touches_only_target (cfg := Cfg.shipped) exX (op := .setLabelSlice "X" (some 0) (some 2) none (.scalar (.i 7)))
    (name := "X") rfl (other := "Y") (by decide)
example : getLabel exX "nope" 2 = .raised .key :=
  ((access_defined_on_index (cfg := Cfg.shipped) exX "nope").2.2.1 (by decide) 2 none none none 0 (.scalar (.i 1))).1

/-- The alias layer: `ALIASES = {'GDP': 'X', 'OUT': 'GDP'}` over `exX`. -/
private def exAl : Alias.AMap Name := aliasesOf [("GDP", "X"), ("OUT", "GDP")]
private theorem exAl_out : resolveName exAl "OUT" = "X" := by decide
example : aGetLabel exAl exX "OUT" 2 = .elem (pick serX.data 2) :=
  alias_label_get exAl (a := "OUT") (by rw [exAl_out]; exact exX_get) serX_wf exX_loc2 (by decide)
example : aStep Cfg.shipped exAl exX (.setLabel "OUT" 2 (.scalar (.i 7))) =
    (exX.put (resolveName exAl "OUT") { serX with data := setAt serX.data 2 (.i 7) }, .ok) :=
  alias_label_set exAl (a := "OUT") (by rw [exAl_out]; exact exX_get) serX_wf exX_loc2 (by decide) exX_conv
example : aGetLabel exAl exX "OUT" 9 = .raised .key :=
  (alias_missing_label_keyerror (cfg := Cfg.shipped) exAl (s := exX) (k := 9) (by decide) "OUT" (.scalar (.i 1))).1
example : aGetItem exAl exX "OUT" = aGetItem exAl exX "GDP" :=
  (alias_paths_agree (cfg := Cfg.shipped) exAl exX (a := "OUT") (b := "GDP") (by decide)).1

end Review

end Fsic.C10
