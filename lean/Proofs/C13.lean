import Proofs.Lemmas.Format
import Proofs.Lemmas.Split
set_option linter.unusedSimpArgs false
set_option linter.unusedVariables false
/-
C13 — The parser is total, fails only with its own errors, has no side effects, drops no statement.
(TEXT level, model M2: `FsicModel/Lexer.lean`.)

Totality of the modelled logic is by construction: `scanTerms`, `splitStatements`, `pyFormat`,
`parseEquationText`, `parseScript` are structurally recursive Lean functions (no fuel, no well-founded recursion).
The explicit statements that this rests on are `matchAt_consumes` (every alternative of `term_re` consumes at
least one and at most the available characters) and `scanTerms_spans` (the reported spans are non-empty, ordered,
disjoint and inside the text).

Partial (stated, not hidden): CPython's `compile`/`exec` (the syntax check of `parse_model`) and the symbol stage
(`Symbol.combine`) are not part of M2; the statements below are about everything before them.  The full-strength
claim "never an unrelated internal exception" is FALSE for the code: see `format_fails_manual_field`,
`format_fails_empty_field`, `unpack_fails_without_equals` (negations at concrete witnesses) and
`parse_error_classes` for the guarded positive statement.
-/
namespace Fsic.C13
open Fsic.Lx

/-- The alternation order of `term_re` that `matchAtK` follows, reflected from the compiled pattern on every run:
    reordering the alternatives in the source breaks this obligation before any test runs. -/
theorem term_re_group_order : Fsic.Generated.termGroups =
    ["_VERBATIM", "_INVALID", "_KEYWORD", "_FUNCTION", "_PARAMETER", "_ERROR", "_VARIABLE", "INDEX"] := rfl

/-! ## Totality: consumption and spans -/

/-- Every alternative of `term_re` consumes at least one character and no more than there are. -/
theorem matchAt_consumes (pw : Bool) (s : List Char) (m : M) (h : matchAt pw s = some m) :
    0 < m.len ∧ m.len ≤ s.length :=
  matchAtK_len _ keywordChars_nonempty pw s m h

example : matchAt false ['H', '[', ' ', '-', '1', ']', '+'] = some ⟨.variable, ['H'], some ['-', '1'], 6⟩ := by decide

/-- non-empty, ordered, pairwise disjoint spans between `lo` and `hi` -/
def SpansFrom (lo hi : Nat) : List RawMatch → Prop
  | [] => True
  | m :: ms => lo ≤ m.start ∧ m.start < m.stop ∧ m.stop ≤ hi ∧ SpansFrom m.stop hi ms

theorem SpansFrom.weaken {lo lo' hi : Nat} (h : lo' ≤ lo) : ∀ {ms : List RawMatch}, SpansFrom lo hi ms → SpansFrom lo' hi ms
  | [], _ => trivial
  | m :: ms, ⟨h1, h2, h3, h4⟩ => ⟨by omega, h2, h3, h4⟩

theorem scanGo_spans : ∀ (s : List Char) (skip : Nat) (pw : Bool) (pos : Nat),
    SpansFrom (pos + skip) (pos + s.length) (scanGo skip pw pos s)
  | [], _, _, _ => by simp [scanGo, SpansFrom]
  | c :: cs, skip + 1, pw, pos => by
    simp only [scanGo, List.length_cons]
    have := scanGo_spans cs skip (isWordU c) (pos + 1)
    have e1 : pos + 1 + skip = pos + (skip + 1) := by omega
    have e2 : pos + 1 + cs.length = pos + (cs.length + 1) := by omega
    rw [e1, e2] at this; exact this
  | c :: cs, 0, pw, pos => by
    simp only [scanGo, List.length_cons]
    cases hm : matchAt pw (c :: cs) with
    | none =>
      have := scanGo_spans cs 0 (isWordU c) (pos + 1)
      have e2 : pos + 1 + cs.length = pos + (cs.length + 1) := by omega
      rw [e2] at this
      exact this.weaken (by omega)
    | some m =>
      have hl := matchAt_consumes pw (c :: cs) m hm
      simp only [List.length_cons] at hl
      have := scanGo_spans cs (m.len - 1) (isWordU c) (pos + 1)
      have e1 : pos + 1 + (m.len - 1) = pos + m.len := by omega
      have e2 : pos + 1 + cs.length = pos + (cs.length + 1) := by omega
      rw [e1, e2] at this
      exact ⟨by simp [M.at], by simp [M.at]; omega, by simp [M.at]; omega, by simpa [M.at] using this⟩

/-- `term_re.finditer`: the spans are non-empty, in order, disjoint and inside the text. -/
theorem scanTerms_spans (s : List Char) : SpansFrom 0 s.length (scanTerms s) := by
  have := scanGo_spans s 0 false 0
  simpa [scanTerms] using this

/-! ## Statement splitting -/

/-- Every statement the splitter yields is non-blank and matched by `equation_re` — nothing else is yielded. -/
theorem split_yields_checked : ∀ (l : List (List Char)) (st : SplitState),
    ∀ e ∈ (splitGo st l).1, eqSearch e = true ∧ strip e ≠ []
  | [], st => by simp [splitGo]
  | raw :: rest, st => by
    simp only [splitGo]
    cases hl : lineStep st raw with
    | next s1 => exact split_yields_checked rest s1
    | emit eq =>
      intro e he
      simp [consFst] at he
      rcases he with rfl | he
      · exact lineStep_emit st raw _ hl
      · exact split_yields_checked rest .init e he
    | stop e => simp

example : splitStatements ['Y', '=', '(', 'X', '\n', ')', ' ', '#', 'c', '\n', '\n', 'Z', '=', '1'] =
    ([['Y', '=', '(', 'X', '\n', ')'], ['Z', '=', '1']], .ok) := by decide

/-- The unterminated fence: the rest of the script is swallowed and no error is reported (what the code does). -/
theorem unterminated_fence_swallows :
    splitStatements ['Y', '=', 'X', '\n', '`', '`', '`', '\n', 'Z', '=', 'W'] = ([['Y', '=', 'X']], .ok) := by decide

/-! ## `str.format` on the template -/

/-- **format_safe**: if every `{` / `}` of the statement lies inside a matched term, the normalised template has
    exactly one automatic field per match and `str.format` succeeds with the arguments in order. -/
theorem format_safe (s : List Char) (args : List (List Char)) (hb : bracesInside 0 0 (scanTerms s) s = true)
    (ha : args.length = (scanTerms s).length) :
    Auto (scanTerms s).length (normaliseWs (template s)) ∧
    pyFormat (normaliseWs (template s)) args = .ok (renderP (fmtPieces none (normaliseWs (template s))) args) := by
  have hauto : Auto (scanTerms s).length (normaliseWs (template s)) :=
    (template_auto s 0 0 (scanTerms s) hb).normalise
  have hp := fmtPieces_auto hauto
  refine ⟨hauto, ?_⟩
  unfold pyFormat
  rw [fmtRun_unset hp, fmtRun_auto hp args 0 (by omega)]
  simp

/-- … and with fewer arguments than fields it fails (IndexError). -/
theorem format_safe_arity (s : List Char) (args : List (List Char)) (hb : bracesInside 0 0 (scanTerms s) s = true)
    (ha : args.length < (scanTerms s).length) : pyFormat (normaliseWs (template s)) args = .fail := by
  have hauto : Auto (scanTerms s).length (normaliseWs (template s)) :=
    (template_auto s 0 0 (scanTerms s) hb).normalise
  have hp := fmtPieces_auto hauto
  unfold pyFormat
  rw [fmtRun_unset hp, fmtRun_auto_short hp args 0 (by omega) (by omega)]

/-- `Y = {alpha} * X [1]` -/
def okStmt : List Char := ['Y', ' ', '=', ' ', '{', 'a', '}', ' ', '*', ' ', ' ', 'X', '[', '1', ']']

example : bracesInside 0 0 (scanTerms okStmt) okStmt = true ∧ (scanTerms okStmt).length = 3 := by decide
example : parseEquationText okStmt =
    .parsed [⟨.variable, ['Y'], .int 0⟩] [⟨.parameter, ['a'], .int 0⟩, ⟨.variable, ['X'], .int 1⟩]
      (.ok ['Y', '[', 't', ']', ' ', '=', ' ', 'a', '[', 't', ']', ' ', '*', ' ', 'X', '[', 't', '+', '1', ']'])
      (.ok ['s', 'e', 'l', 'f', '.', '_', 'Y', '[', 't', ']', ' ', '=', ' ', 's', 'e', 'l', 'f', '.', '_', 'a', '[', 't', ']',
            ' ', '*', ' ', 's', 'e', 'l', 'f', '.', '_', 'X', '[', 't', '+', '1', ']']) := by decide

/-- Full-strength claim is false: `Y = {0}` — ValueError (automatic → manual field numbering). -/
theorem format_fails_manual_field :
    parseEquationText ['Y', ' ', '=', ' ', '{', '0', '}'] = .err .formatFailure ∧
    bracesInside 0 0 (scanTerms ['Y', ' ', '=', ' ', '{', '0', '}']) ['Y', ' ', '=', ' ', '{', '0', '}'] = false := by
  decide

/-- `Y = {}` — IndexError (two fields, one argument). -/
theorem format_fails_empty_field :
    parseEquationText ['Y', ' ', '=', ' ', '{', '}'] = .err .formatFailure ∧
    bracesInside 0 0 (scanTerms ['Y', ' ', '=', ' ', '{', '}']) ['Y', ' ', '=', ' ', '{', '}'] = false := by
  decide

/-- `Y = {{X}}` — no error, but the parameter term is dropped from the equation (`{{`, `}}` are escapes). -/
theorem format_drops_escaped_term :
    parseEquationText ['Y', ' ', '=', ' ', '{', '{', 'X', '}', '}'] =
      .parsed [⟨.variable, ['Y'], .int 0⟩] [⟨.parameter, ['X'], .int 0⟩]
        (.ok ['Y', '[', 't', ']', ' ', '=', ' ', '{', '}'])
        (.ok ['s', 'e', 'l', 'f', '.', '_', 'Y', '[', 't', ']', ' ', '=', ' ', '{', '}']) := by decide

/-- A parenthesised fenced block passes `equation_re` but has no `=`: tuple unpacking fails (ValueError). -/
theorem unpack_fails_without_equals :
    parseEquationText ['(', '\n', '`', '`', '`', '\n', 'y', '\n', '`', '`', '`', '\n', ')'] = .err .unpackFailure := by
  decide

/-- A backticked fragment that contains the `=` is one match of the whole statement but no term of either side:
    two fields, one argument (IndexError).  This is what the guard `TermsAlign` of `parse_error_classes` excludes. -/
theorem format_fails_straddling_term : parseEquationText ['Y', '`', '=', '`'] = .err .formatFailure := by decide

/-! ## Error classes -/

/-- Where the model's errors come from: everything is a ParserError except the two internal failures, each with
    its exact cause. -/
theorem parseBody_errors (s : List Char) (e : PErr) (h : parseBody s = .err e) :
    e = .parserError ∨ (e = .unpackFailure ∧ splitAtEq s = none) ∨
    (e = .formatFailure ∧ ∃ lt rt, equationTerms s = .ok (lt, rt) ∧
      pyFormat (normaliseWs (template s)) ((lt ++ rt).map termStr) = .fail) := by
  unfold parseBody at h
  split at h
  · cases h
  · split at h
    · simp at h; exact Or.inl h.symm
    · split at h
      · rename_i e' he
        simp at h; subst h
        unfold equationTerms at he
        split at he
        · simp at he; exact Or.inr (Or.inl ⟨he.symm, by assumption⟩)
        · split at he
          · simp at he; exact Or.inl he.symm
          · split at he
            · simp at he; exact Or.inl he.symm
            · split at he
              · simp at he; exact Or.inl he.symm
              · cases he
      · rename_i lt rt he
        unfold finishEq at h
        split at h
        · rename_i hf
          simp at h
          exact Or.inr (Or.inr ⟨h.symm, lt, rt, he, hf⟩)
        · cases h

/-- The number of terms found on the two sides of the first `=` equals the number of matches in the whole
    statement (no match straddles the `=`). -/
def TermsAlign (s : List Char) : Prop :=
  ∀ l r, splitAtEq s = some (l, r) → (scanTerms l).length + (scanTerms r).length = (scanTerms s).length

/-- **parse_error_classes**: a statement that contains `=`, whose braces all lie inside matched terms and whose
    matches do not straddle the `=`, fails — if it fails — with ParserError or IndentationError only.
    (The other two constructors of the model's error type are the internal failures excluded by the guards.) -/
theorem parse_error_classes (s : List Char) (e : PErr) (h : parseEquationText s = .err e)
    (hb : bracesInside 0 0 (scanTerms s) s = true) (ht : TermsAlign s) (heq : splitAtEq s ≠ none) :
    e = .parserError ∨ e = .indentationError := by
  unfold parseEquationText at h
  split at h
  · cases h
  · split at h
    · simp at h; exact Or.inl h.symm
    · simp at h; exact Or.inr h.symm
    · rcases parseBody_errors s e h with h1 | ⟨_, h2⟩ | ⟨_, lt, rt, h3, h4⟩
      · exact Or.inl h1
      · exact absurd h2 heq
      · obtain ⟨l, r, hs, hl, hr⟩ := equationTerms_ok s lt rt h3
        have hlen : ((lt ++ rt).map termStr).length = (scanTerms s).length := by
          simp [hl, hr, ht l r hs]
        rw [(format_safe s _ hb hlen).2] at h4
        cases h4
    · simp at h; exact Or.inl h.symm

example : TermsAlign okStmt ∧ splitAtEq okStmt ≠ none := by
  constructor
  · intro l r h
    have : splitAtEq okStmt = some (['Y', ' '], [' ', '{', 'a', '}', ' ', '*', ' ', ' ', 'X', '[', '1', ']']) := by decide
    rw [this] at h; simp at h; obtain ⟨rfl, rfl⟩ := h
    decide
  · decide

/-- A match may straddle the `=` (then `TermsAlign` fails): `Y[a=b] = X` has 2 matches but 4 terms. -/
example : (scanTerms ['Y', '[', 'a', '=', 'b', ']', ' ', '=', ' ', 'X']).length = 2 ∧
    (scanTerms ['Y', '[', 'a']).length + (scanTerms ['b', ']', ' ', '=', ' ', 'X']).length = 4 := by decide

/-! ## The statement loop -/

def isErr : EqOut → Bool
  | .err _ => true
  | _ => false

/-- The statement loop stops at the first error: only the last result can be an error. -/
theorem parseScript_stops_at_first_error : ∀ (ss : List (List Char)) (e : SplitEnd) (r : EqOut),
    r ∈ (scriptGo ss e).dropLast → isErr r = false
  | [], .ok, r, h => by simp [scriptGo] at h
  | [], .parserError, r, h => by simp [scriptGo] at h
  | [], .indentationError, r, h => by simp [scriptGo] at h
  | s :: ss, e, r, h => by
    unfold scriptGo at h
    split at h
    · simp at h
    · rename_i r' hne
      cases hg : scriptGo ss e with
      | nil => rw [hg] at h; simp at h
      | cons g gs =>
        rw [hg] at h
        rw [List.dropLast_cons_cons] at h
        rcases List.mem_cons.mp h with rfl | h'
        · cases hp : parseEquationText s with
          | err x => exact absurd hp (hne x)
          | empty => rfl
          | verbatim _ _ => rfl
          | parsed _ _ _ _ => rfl
        · exact parseScript_stops_at_first_error ss e r (by rw [hg]; exact h')

example : parseScript ['Y', '=', '{', '0', '}', '\n', ')'] = [.err .formatFailure] := by decide

/-! ## `int()` -/

theorem pyInt_accepts :
    pyInt [' ', '-', '1', ' '] = some (-1) ∧ pyInt ['+', '1'] = some 1 ∧ pyInt ['1', '_', '0'] = some 10 ∧
    pyInt ['0', '0', '7'] = some 7 ∧ pyInt ['1', '_', '_', '0'] = none ∧ pyInt ['_', '1'] = none ∧
    pyInt ['1', '_'] = none ∧ pyInt ['-', ' ', '1'] = none ∧ pyInt [] = none ∧ pyInt ['1', '.', '0'] = none := by
  decide

end Fsic.C13
