import Proofs.Lemmas.Format
import Proofs.Lemmas.Split
set_option linter.unusedSimpArgs false
set_option linter.unusedVariables false
/-
C13 — The parser is total, fails only with its own errors, has no side effects, drops no statement.
(TEXT level, model M2: `FsicModel/Lexer.lean`.)

Totality of the modelled logic is by construction: `scanTerms`, `splitStatements`, `pyFormat`,
`parseEquationText`, `parseScript` are structurally recursive Lean functions (no fuel, no well-founded recursion).
The explicit statements that this rests on are `matchAt_consumes` (every alternative of `term_re` consumes at
least one and at most the available characters) and `scanTerms_spans` (the reported spans are non-empty, ordered,
disjoint and inside the text).

Partial (stated, not hidden): CPython's `compile` (the syntax check of `parse_model`; it no longer executes the
statement) is not part of M2, and of the symbol stage only the outcome class is modelled here (`symbolStage`;
the symbols themselves are M3).  Since the fixes a900a8c…d65c5fa the full-strength claim holds on the model:
`parse_error_classes` has no guard any more — every failure of `parseEquationText` is a ParserError, an
IndentationError or a SymbolError; `format_cannot_fail` explains why (`str.format` is only reached with a template
whose braces are the `{}` of the matched terms and with exactly that many arguments).  The former failure
witnesses are kept as positive examples: these inputs are now rejected with ParserError.
-/
namespace Fsic.C13
open Fsic.Lx

/-- The alternation order of `term_re` that `matchAtK` follows, reflected from the compiled pattern on every run:
    reordering the alternatives in the source breaks this obligation before any test runs. -/
theorem term_re_group_order : Fsic.Generated.termGroups =
    ["_VERBATIM", "_INVALID", "_KEYWORD", "_FUNCTION", "_PARAMETER", "_ERROR", "_VARIABLE", "INDEX"] := rfl

/-! ## Totality: consumption and spans -/

/-- Every alternative of `term_re` consumes at least one character and no more than there are. -/
theorem matchAt_consumes (pw : Bool) (s : List Char) (m : M) (h : matchAt pw s = some m) :
    0 < m.len ∧ m.len ≤ s.length :=
  matchAtK_len _ keywordChars_nonempty pw s m h

example : matchAt false ['H', '[', ' ', '-', '1', ']', '+'] = some ⟨.variable, ['H'], some ['-', '1'], 6⟩ := by decide

/-- Spans reported from any scanner state are non-empty, ordered, pairwise disjoint and inside the text. -/
theorem scanGo_spans (s : List Char) (skip : Nat) (pw : Bool) (pos : Nat) :
    SpansFrom (pos + skip) (pos + s.length) (scanGo skip pw pos s) := scanGo_spansL s skip pw pos

/-- `term_re.finditer`: the spans are non-empty, in order, disjoint and inside the text. -/
theorem scanTerms_spans (s : List Char) : SpansFrom 0 s.length (scanTerms s) := by
  have := scanGo_spans s 0 false 0
  simpa [scanTerms] using this

/-! ## Statement splitting -/

/-- Every statement the splitter yields is non-blank and matched by `equation_re` — nothing else is yielded. -/
theorem split_yields_checked : ∀ (l : List (List Char)) (st : SplitState),
    ∀ e ∈ (splitGo st l).1, eqSearch e = true ∧ strip e ≠ []
  | [], st => by simp [splitGo]
  | raw :: rest, st => by
    simp only [splitGo]
    cases hl : lineStep st raw with
    | next s1 => exact split_yields_checked rest s1
    | emit eq =>
      intro e he
      simp [consFst] at he
      rcases he with rfl | he
      · exact lineStep_emit st raw _ hl
      · exact split_yields_checked rest .init e he
    | stop e => simp

example : splitStatements ['Y', '=', '(', 'X', '\n', ')', ' ', '#', 'c', '\n', '\n', 'Z', '=', '1'] =
    ([['Y', '=', '(', 'X', '\n', ')'], ['Z', '=', '1']], .ok) := by decide

/-- An unterminated fence is an error at the end of the input (it used to swallow the rest silently); the
    statements before it have already been yielded. -/
theorem unterminated_fence_rejected :
    splitStatements ['Y', '=', 'X', '\n', '`', '`', '`', '\n', 'Z', '=', 'W'] = ([['Y', '=', 'X']], .parserError) := by
  decide

/-! ## `str.format` on the template -/

/-- **format_safe**: if no `{` / `}` of the statement lies outside the matched terms (the check `parse_equation`
    now makes), the normalised template has exactly one automatic field per match and `str.format` succeeds with
    the arguments in order. -/
theorem format_safe (s : List Char) (args : List (List Char)) (hb : (outside s).any isBrace = false)
    (ha : args.length = (scanTerms s).length) :
    Auto (scanTerms s).length (normaliseWs (template s)) ∧
    pyFormat (normaliseWs (template s)) args = .ok (renderP (fmtPieces none (normaliseWs (template s))) args) := by
  have hsp : SpansFrom (0 + 0) (0 + s.length) (scanTerms s) := by simpa using scanTerms_spans s
  have hauto : Auto (scanTerms s).length (normaliseWs (template s)) :=
    (template_auto s 0 0 (scanTerms s) hsp hb).normalise
  have hp := fmtPieces_auto hauto
  refine ⟨hauto, ?_⟩
  unfold pyFormat
  rw [fmtRun_unset hp, fmtRun_auto hp args 0 (by omega)]
  simp

/-- … and with fewer arguments than fields it fails (IndexError): the reason for the "term spans the `=`" check. -/
theorem format_safe_arity (s : List Char) (args : List (List Char)) (hb : (outside s).any isBrace = false)
    (ha : args.length < (scanTerms s).length) : pyFormat (normaliseWs (template s)) args = .fail := by
  have hsp : SpansFrom (0 + 0) (0 + s.length) (scanTerms s) := by simpa using scanTerms_spans s
  have hauto : Auto (scanTerms s).length (normaliseWs (template s)) :=
    (template_auto s 0 0 (scanTerms s) hsp hb).normalise
  have hp := fmtPieces_auto hauto
  unfold pyFormat
  rw [fmtRun_unset hp, fmtRun_auto_short hp args 0 (by omega) (by omega)]

/-- **format_cannot_fail**: whenever `parse_equation` gets past its checks (no brace outside the matched terms, as
    many terms as matches), both calls of `str.format` succeed. -/
theorem format_cannot_fail (s : List Char) (lt rt : List Term) (hb : (outside s).any isBrace = false)
    (hl : (lt ++ rt).length = (scanTerms s).length) :
    pyFormat (normaliseWs (template s)) ((lt ++ rt).map termStr) ≠ .fail ∧
    pyFormat (normaliseWs (template s)) ((lt ++ rt).map termCode) ≠ .fail := by
  constructor
  · rw [(format_safe s _ hb (by simpa using hl)).2]; simp
  · rw [(format_safe s _ hb (by simpa using hl)).2]; simp

/-- `Y = {alpha} * X [1]` -/
def okStmt : List Char := ['Y', ' ', '=', ' ', '{', 'a', '}', ' ', '*', ' ', ' ', 'X', '[', '1', ']']

example : (outside okStmt).any isBrace = false ∧ (scanTerms okStmt).length = 3 := by decide
example : parseEquationText okStmt =
    .parsed [⟨.variable, ['Y'], .int 0⟩] [⟨.parameter, ['a'], .int 0⟩, ⟨.variable, ['X'], .int 1⟩]
      (.ok ['Y', '[', 't', ']', ' ', '=', ' ', 'a', '[', 't', ']', ' ', '*', ' ', 'X', '[', 't', '+', '1', ']'])
      (.ok ['s', 'e', 'l', 'f', '.', '_', 'Y', '[', 't', ']', ' ', '=', ' ', 's', 'e', 'l', 'f', '.', '_', 'a', '[', 't', ']',
            ' ', '*', ' ', 's', 'e', 'l', 'f', '.', '_', 'X', '[', 't', '+', '1', ']']) := by decide

/-! The inputs that used to escape as ValueError / IndexError / KeyError (or to lose a term silently) are now
    rejected with the parser's own error. -/

/-- `Y = {0}` (was: ValueError, automatic → manual field numbering) -/
theorem manual_field_rejected : parseEquationText ['Y', ' ', '=', ' ', '{', '0', '}'] = .err .parserError := by decide

/-- `Y = {}` (was: IndexError) -/
theorem empty_field_rejected : parseEquationText ['Y', ' ', '=', ' ', '{', '}'] = .err .parserError := by decide

/-- `Y = {{X}}` (was: accepted, the parameter dropped from the equation) -/
theorem escaped_term_rejected :
    parseEquationText ['Y', ' ', '=', ' ', '{', '{', 'X', '}', '}'] = .err .parserError := by decide

/-- A parenthesised fenced block passes `equation_re` but has no `=` (was: ValueError from tuple unpacking). -/
theorem missing_equals_rejected :
    parseEquationText ['(', '\n', '`', '`', '`', '\n', 'y', '\n', '`', '`', '`', '\n', ')'] = .err .parserError := by
  decide

/-- A backticked fragment that contains the `=` is one match of the whole statement but no term of either side
    (was: IndexError). -/
theorem straddling_term_rejected : parseEquationText ['Y', '`', '=', '`'] = .err .parserError := by decide

/-- `1 = X` and `log = log(X)` (were: accepted, no equation) -/
theorem no_endogenous_rejected :
    parseEquationText ['1', ' ', '=', ' ', 'X'] = .err .parserError ∧
    parseEquationText ['l', 'o', 'g', ' ', '=', ' ', 'l', 'o', 'g', '(', 'X', ')'] = .err .parserError := by decide

/-- `Y = {Y}`: a name used both as variable and as parameter is a SymbolError. -/
example : parseEquationText ['Y', ' ', '=', ' ', '{', 'Y', '}'] = .err .symbolError := by decide

/-! ## Error classes -/

/-- **parse_error_classes** (full strength, no guard): every failure of `parse_equation` on the model is one of
    the parser's own errors — ParserError, IndentationError or SymbolError; the format failure of the model's error
    type is unreachable. -/
theorem parse_error_classes (s : List Char) (e : PErr) (h : parseEquationText s = .err e) :
    e = .parserError ∨ e = .indentationError ∨ e = .symbolError := by
  unfold parseEquationText at h
  split at h
  · cases h
  · split at h
    · simp at h; exact Or.inl h.symm
    · simp at h; exact Or.inr (Or.inl h.symm)
    · unfold parseBody at h
      split at h
      · cases h
      · split at h
        · simp at h; exact Or.inl h.symm
        · rename_i _ hb
          split at h
          · simp at h; exact Or.inl h.symm
          · rename_i hbr
            have hbr' : (outside s).any isBrace = false := by simpa using hbr
            split at h
            · rename_i e' he
              simp at h; subst h
              exact Or.inl (equationTerms_err s e' he)
            · rename_i lt rt he
              split at h
              · simp at h; exact Or.inl h.symm
              · rename_i hlen
                have hlen' : (lt ++ rt).length = (scanTerms s).length := by simpa using hlen
                have hf := format_cannot_fail s lt rt hbr' hlen'
                unfold finishEq at h
                split at h
                · rename_i hfail; exact absurd hfail hf.1
                · split at h
                  · rename_i e' hs
                    simp at h; subst h
                    unfold symbolStage at hs
                    split at hs
                    · rename_i e'' hl
                      simp at hs; subst hs
                      -- the symbol loop only raises ParserError or SymbolError
                      exact symLoop_errors _ _ _ _ hl
                    · split at hs
                      · cases hs
                      · simp at hs; exact Or.inl hs.symm
                  · cases h
    · simp at h; exact Or.inl h.symm

/-- `parse_model` level: every error the statement loop reports is one of the three. -/
theorem parseScript_error_classes (s : List Char) (e : PErr) (h : EqOut.err e ∈ parseScript s) :
    e = .parserError ∨ e = .indentationError ∨ e = .symbolError := by
  unfold parseScript at h
  generalize (splitStatements s).1 = ss at h
  generalize (splitStatements s).2 = en at h
  induction ss with
  | nil => cases en <;> simp [scriptGo] at h <;> simp [h]
  | cons st ss ih =>
    unfold scriptGo at h
    split at h
    · rename_i x hx
      simp at h; rw [h]
      exact parse_error_classes st x hx
    · rename_i r hne
      rcases List.mem_cons.mp h with h1 | h2
      · exact absurd h1.symm (hne e)
      · exact ih h2

/-- A match may straddle the `=`: `Y[a=b] = X` has 2 matches but 4 terms, and is rejected. -/
example : (scanTerms ['Y', '[', 'a', '=', 'b', ']', ' ', '=', ' ', 'X']).length = 2 ∧
    parseEquationText ['Y', '[', 'a', '=', 'b', ']', ' ', '=', ' ', 'X'] = .err .parserError := by decide

/-! ## The statement loop -/

def isErr : EqOut → Bool
  | .err _ => true
  | _ => false

/-- The statement loop stops at the first error: only the last result can be an error. -/
theorem parseScript_stops_at_first_error : ∀ (ss : List (List Char)) (e : SplitEnd) (r : EqOut),
    r ∈ (scriptGo ss e).dropLast → isErr r = false
  | [], .ok, r, h => by simp [scriptGo] at h
  | [], .parserError, r, h => by simp [scriptGo] at h
  | [], .indentationError, r, h => by simp [scriptGo] at h
  | s :: ss, e, r, h => by
    unfold scriptGo at h
    split at h
    · simp at h
    · rename_i r' hne
      cases hg : scriptGo ss e with
      | nil => rw [hg] at h; simp at h
      | cons g gs =>
        rw [hg] at h
        rw [List.dropLast_cons_cons] at h
        rcases List.mem_cons.mp h with rfl | h'
        · cases hp : parseEquationText s with
          | err x => exact absurd hp (hne x)
          | empty => rfl
          | verbatim _ _ => rfl
          | parsed _ _ _ _ => rfl
        · exact parseScript_stops_at_first_error ss e r (by rw [hg]; exact h')

example : parseScript ['Y', '=', '{', '0', '}', '\n', ')'] = [.err .parserError] := by decide

/-! ## `int()` -/

theorem pyInt_accepts :
    pyInt [' ', '-', '1', ' '] = some (-1) ∧ pyInt ['+', '1'] = some 1 ∧ pyInt ['1', '_', '0'] = some 10 ∧
    pyInt ['0', '0', '7'] = some 7 ∧ pyInt ['1', '_', '_', '0'] = none ∧ pyInt ['_', '1'] = none ∧
    pyInt ['1', '_'] = none ∧ pyInt ['-', ' ', '1'] = none ∧ pyInt [] = none ∧ pyInt ['1', '.', '0'] = none := by
  decide

/-! ## Non-vacuity (review): the hypotheses of the theorems above at concrete inputs -/

-- matchAt_consumes: `h` (the variable `H[ -1]` followed by `+`: 6 of 7 characters consumed)
example : 0 < 6 ∧ 6 ≤ ['H', '[', ' ', '-', '1', ']', '+'].length :=
  matchAt_consumes false ['H', '[', ' ', '-', '1', ']', '+'] ⟨.variable, ['H'], some ['-', '1'], 6⟩ (by decide)
-- scanTerms_spans at a statement with three terms
example : SpansFrom 0 okStmt.length (scanTerms okStmt) ∧ (scanTerms okStmt).length = 3 :=
  ⟨scanTerms_spans okStmt, by decide⟩
-- split_yields_checked at a script that yields two statements (a comment and a blank line are dropped)
example : ∀ e ∈ (splitStatements ['Y', '=', '(', 'X', '\n', ')', ' ', '#', 'c', '\n', '\n', 'Z', '=', '1']).1,
    eqSearch e = true ∧ strip e ≠ [] := by decide
-- format_safe: hb, ha with three real arguments; format_safe_arity: one argument too few; format_cannot_fail: hl
example : pyFormat (normaliseWs (template okStmt)) [['Y'], ['a'], ['X']] =
    .ok (renderP (fmtPieces none (normaliseWs (template okStmt))) [['Y'], ['a'], ['X']]) :=
  (format_safe okStmt [['Y'], ['a'], ['X']] (by decide) (by decide)).2
example : pyFormat (normaliseWs (template okStmt)) [['Y'], ['a']] = .fail :=
  format_safe_arity okStmt [['Y'], ['a']] (by decide) (by decide)
example : pyFormat (normaliseWs (template okStmt))
    ((([⟨.variable, ['Y'], .int 0⟩] : List Term) ++
      ([⟨.parameter, ['a'], .int 0⟩, ⟨.variable, ['X'], .int 1⟩] : List Term)).map termStr) ≠ .fail :=
  (format_cannot_fail okStmt [⟨.variable, ['Y'], .int 0⟩] [⟨.parameter, ['a'], .int 0⟩, ⟨.variable, ['X'], .int 1⟩]
    (by decide) (by decide)).1
-- … and the brace hypothesis is a real restriction: `Y = {0}` has a brace outside the matched terms
example : (outside ['Y', ' ', '=', ' ', '{', '0', '}']).any isBrace = true := by decide
-- parse_error_classes: `h` for each of the three classes
example : parseEquationText ['Y', ' ', '=', ' ', '{', '0', '}'] = .err .parserError ∧
    parseEquationText [' ', 'Y', ' ', '=', ' ', 'X'] = .err .indentationError ∧
    parseEquationText ['Y', ' ', '=', ' ', '{', 'Y', '}'] = .err .symbolError := by decide
-- parseScript_error_classes: `h` (a good statement, then a SymbolError; then a split error at the end of input)
example : EqOut.err .symbolError ∈ parseScript ['Z', '=', '1', '\n', 'Y', '=', '{', 'Y', '}'] := by decide
example : EqOut.err .parserError ∈ parseScript ['Z', '=', '1', '\n', '`', '`', '`', '\n', 'Y', '=', 'X'] := by decide
-- parseScript_stops_at_first_error: a member of `dropLast` (first statement good, second fails, third never reached)
example : (scriptGo [['Z', '=', '1'], ['Y', '=', '{', '0', '}'], ['W', '=', '2']] .ok).length = 2 ∧
    (scriptGo [['Z', '=', '1'], ['Y', '=', '{', '0', '}'], ['W', '=', '2']] .ok).dropLast ≠ [] ∧
    ∀ r ∈ (scriptGo [['Z', '=', '1'], ['Y', '=', '{', '0', '}'], ['W', '=', '2']] .ok).dropLast, isErr r = false :=
  ⟨by decide, by decide, fun r h => parseScript_stops_at_first_error _ _ r h⟩

end Fsic.C13
