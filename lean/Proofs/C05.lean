import Proofs.Lemmas.Solver
import Proofs.Lemmas.SolverOutcome
import FsicModel.Generated
/-
C05 — solve() equals the ordered sequence of single-period solves; failures are contained.

`solve` / `solveList` / `solvePeriod` are in FsicModel/Solver.lean; labels enter through `Loc`, the outcome of
`_locate_period_in_span` (a plain position, something that is not a plain int, or KeyError).
-/
set_option linter.unusedSimpArgs false
namespace Fsic.C05
open Fsic

variable {σ V : Type} (I : Interp σ V) (o : Opts) (n : Nat)

/-! ### The periods visited -/

/-- `range(start, end + 1)`: exactly the positions from `s` to `e` inclusive … -/
theorem mem_periodRange (s e p : Nat) : p ∈ periodRange s e ↔ s ≤ p ∧ p ≤ e := by
  unfold periodRange
  simp only [List.mem_map, List.mem_range]
  constructor
  · rintro ⟨i, hi, rfl⟩; omega
  · rintro ⟨h1, h2⟩; exact ⟨p - s, by omega, by omega⟩

/-- … in span order, each once … -/
theorem periodRange_eq (s e : Nat) : periodRange s e = List.range' s (e + 1 - s) := by
  unfold periodRange
  apply List.ext_getElem
  · simp
  · intro i h1 h2
    simp [List.getElem_range']
    omega

/-- … and none at all when the pair is reversed. -/
theorem periodRange_reversed (s e : Nat) (h : e < s) : periodRange s e = [] := by
  unfold periodRange
  have : e + 1 - s = 0 := by omega
  rw [this]; rfl

/-! ### solve() is the period loop -/

theorem solveList_nil (w : World σ) : solveList I o n [] w [] [] = (w, .ok [] []) := rfl

/-- One more period: exactly one `solve_t` call on the world left by the previous ones, same options. -/
theorem solveList_step (p : Nat) (rest : List Nat) (w : World σ) (ps : List Nat) (fs : List Bool) :
    solveList I o n (p :: rest) w ps fs =
      match solveT I o n (p : Int) w with
      | (w', .ret b) => solveList I o n rest w' (p :: ps) (b :: fs)
      | (w', r) => (w', .err r ps.reverse fs.reverse) := by
  simp only [solveList]
  rcases solveT I o n (↑p) w with ⟨w', r⟩
  cases r <;> rfl

/-- The world a sequence of single-period solves produces (ignoring results). -/
def seqWorld : List Nat → World σ → World σ
  | [], w => w
  | p :: rest, w => seqWorld rest (solveT I o n (p : Int) w).1

/-- The flags those single-period solves return. -/
def seqFlags : List Nat → World σ → List Bool
  | [], _ => []
  | p :: rest, w => decide ((solveT I o n (p : Int) w).2 = .ret true) :: seqFlags rest (solveT I o n (p : Int) w).1

/-- No period raises. -/
def AllReturn : List Nat → World σ → Prop
  | [], _ => True
  | p :: rest, w => (∃ b, (solveT I o n (p : Int) w).2 = .ret b) ∧ AllReturn rest (solveT I o n (p : Int) w).1

/-- **solve = fold.** If no period raises, the effect on the model and the returned (positions, flags) are those
    of calling the single-period solver on each period in turn with the same options. -/
theorem solveList_eq_seq (ps : List Nat) (w : World σ) (acc : List Nat) (fs : List Bool)
    (h : AllReturn I o n ps w) :
    solveList I o n ps w acc fs =
      (seqWorld I o n ps w, .ok (acc.reverse ++ ps) (fs.reverse ++ seqFlags I o n ps w)) := by
  induction ps generalizing w acc fs with
  | nil => simp [solveList, seqWorld, seqFlags]
  | cons p ps ih =>
    obtain ⟨⟨b, hb⟩, hrest⟩ := h
    rw [solveList_step]
    rcases hs : solveT I o n (↑p) w with ⟨w', r⟩
    rw [hs] at hb hrest
    simp only at hb
    subst hb
    simp only
    rw [ih w' _ _ hrest]
    simp only [seqWorld, seqFlags, hs]
    cases b <;> simp

/-- **Failure containment.** If the periods `pre` complete and period `p` then raises `r`, the world is exactly
    the one left by `pre` followed by `p`'s own effect, the result is that exception, and the periods after `p`
    are never passed to the solver (the outcome does not depend on them). -/
theorem solve_failure_containment (pre post : List Nat) (p : Nat) (w : World σ)
    (hpre : AllReturn I o n pre w)
    (r : Result) (hr : (solveT I o n (p : Int) (seqWorld I o n pre w)).2 = r) (hnot : ∀ b, r ≠ .ret b) :
    solveList I o n (pre ++ p :: post) w [] [] =
      ((solveT I o n (p : Int) (seqWorld I o n pre w)).1, .err r pre (seqFlags I o n pre w)) := by
  rw [solveList_append, solveList_eq_seq I o n pre w [] [] hpre]
  simp only [List.reverse_nil, List.nil_append]
  rw [solveList_step]
  rcases hs : solveT I o n (↑p) (seqWorld I o n pre w) with ⟨w', r'⟩
  rw [hs] at hr
  simp only at hr
  subst hr
  cases r' with
  | ret b => exact absurd rfl (hnot b)
  | _ => simp

/-- … and `status` / `iterations` of every later period are what they were: a period's solve touches only its own
    entry (`solveT_series_frame`), so entries at positions not yet visited are unchanged by the whole prefix. -/
theorem later_periods_untouched (ps : List Nat) (w : World σ) (j : Nat)
    (hlen : w.status.length = n) (hj : ∀ p ∈ ps, p ≠ j) (hps : ∀ p ∈ ps, p < n) :
    (seqWorld I o n ps w).status[j]? = w.status[j]? ∧ (seqWorld I o n ps w).iters[j]? = w.iters[j]? := by
  induction ps generalizing w with
  | nil => exact ⟨rfl, rfl⟩
  | cons p ps ih =>
    have hp : pyIndex n (p : Int) ≠ some j := by
      have hlt := hps p (by simp)
      have hne := hj p (by simp)
      unfold pyIndex
      have h0 : (0 : Int) ≤ (p : Int) := Int.natCast_nonneg p
      have h1 : ((p : Nat) : Int) < (n : Int) := by exact_mod_cast hlt
      simp only [h0, h1, if_true]
      intro e
      apply hne
      have := Option.some.inj e
      simpa using this
    have hf := solveT_series_frame I o n (p : Int) w j hp
    have hl := solveT_lengths I o n (p : Int) w
    have := ih (solveT I o n (p : Int) w).1 (by rw [hl.1]; exact hlen)
      (fun q hq => hj q (by simp [hq])) (fun q hq => hps q (by simp [hq]))
    simp only [seqWorld]
    exact ⟨this.1.trans hf.1, this.2.trans hf.2⟩

/-! ### The entry checks of solve() -/

theorem solve_min_gt_max (lags leads : Nat) (start stop : Option Loc) (w : World σ)
    (h : o.minIter > o.maxIter) :
    solve I o n lags leads start stop w = (w, .err .valueError [] []) := by
  simp [solve, h]

/-- A start/end label that is unknown, or does not resolve to a single plain position, raises KeyError before
    anything is solved. -/
theorem solve_bad_label (lags leads : Nat) (start stop : Option Loc) (w : World σ)
    (h0 : ¬ o.minIter > o.maxIter)
    (h : start = some .other ∨ start = some .missing ∨ stop = some .other ∨ stop = some .missing) :
    solve I o n lags leads start stop w = (w, .keyError) := by
  unfold solve
  simp only [h0, if_false]
  by_cases h1 : start = some .other ∨ start = some .missing
  · simp [h1]
  · simp only [h1, if_false]
    have h2 : stop = some .other ∨ stop = some .missing := by
      rcases h with h | h | h | h
      · exact absurd (Or.inl h) h1
      · exact absurd (Or.inr h) h1
      · exact Or.inl h
      · exact Or.inr h
    simp [h2]

/-- An empty span raises SolutionError. -/
theorem solve_empty_span (lags leads : Nat) (w : World σ) (h0 : ¬ o.minIter > o.maxIter) :
    solve I o 0 lags leads none none w = (w, .emptySpan) := by
  simp [solve, h0]

/-- Given positions: exactly the periods from start to end inclusive, through the period loop. -/
theorem solve_explicit (lags leads s e : Nat) (w : World σ) (h0 : ¬ o.minIter > o.maxIter) (hn : n ≠ 0) :
    solve I o n lags leads (some (.pos s)) (some (.pos e)) w = solveList I o n (periodRange s e) w [] [] := by
  simp [solve, h0, hn, resolveBound]

/-- Defaults: the first period with enough lags through the last with enough leads. -/
theorem solve_default_range (lags leads : Nat) (w : World σ) (h0 : ¬ o.minIter > o.maxIter)
    (hl : lags < n) (hd : leads < n) :
    solve I o n lags leads none none w = solveList I o n (periodRange lags (n - 1 - leads)) w [] [] := by
  have hn : n ≠ 0 := by omega
  simp [solve, h0, hn, resolveBound, hl, hd]

/-- `solve_period(label)` ≡ `solve_t(position of label)`; otherwise KeyError and no change. -/
theorem solvePeriod_spec (l : Loc) (w : World σ) :
    solvePeriod I o n l w =
      match l with
      | .pos i => ((solveT I o n i w).1, some (solveT I o n i w).2)
      | _ => (w, none) := by
  cases l <;> rfl

/-- The keyword defaults of `solve`, `solve_t` and `solve_period` (model and linker) coincide — over the table
    reflected from /repo on this run. -/
theorem defaults_agree :
    Generated.solveDefaults.all (fun e => decide (e.2 = (Generated.solveDefaults.head!).2)) = true := by
  decide

/-! ### Non-vacuity -/

def exI : Interp Nat Nat where
  lags := 0
  leads := 0
  check u _ := u
  allFinite _ := true
  close a b := a == b
  zeroNF v := v
  copyOffset u _ _ := u
  before _ u _ := (u, false)
  eval _ u t _ := (if t = 2 then u + 1 else u, false)   -- period 2 never converges
  after _ u _ _ := (u, false)

/-- Period 1 solves, period 2 fails with NonConvergenceError, period 3 is untouched. -/
example : solve exI { maxIter := 3 } 4 1 0 none none ⟨0, List.replicate 4 .unsolved, List.replicate 4 (-1)⟩
    = (⟨3, [.unsolved, .solved, .failed, .unsolved], [-1, 1, 3, -1]⟩, .err .nonConvergence [1] [true]) := by
  decide

example : AllReturn exI { maxIter := 3, failRaise := false } 4 [1, 2, 3]
    ⟨0, List.replicate 4 .unsolved, List.replicate 4 (-1)⟩ := by
  simp [AllReturn]; decide

/-! ### The record of earlier solves never feeds back into a multi-period solve -/

/-- The period loop of `solve()` from the same values gives the same values and the same result (positions, flags,
    exception) whatever `status` / `iterations` held before: periods solved earlier, failed earlier or never touched
    are treated alike. -/
theorem solveList_history_irrelevant (ps : List Nat) (u : σ) (st st' : List Status) (it it' : List Int)
    (acc : List Nat) (fs : List Bool) :
    (solveList I o n ps ⟨u, st, it⟩ acc fs).1.user = (solveList I o n ps ⟨u, st', it'⟩ acc fs).1.user ∧
    (solveList I o n ps ⟨u, st, it⟩ acc fs).2 = (solveList I o n ps ⟨u, st', it'⟩ acc fs).2 := by
  induction ps generalizing u st st' it it' acc fs with
  | nil => exact ⟨rfl, rfl⟩
  | cons p rest ih =>
    unfold solveList
    have h1 := solveT_eq_outcome I o n (p : Int) ⟨u, st, it⟩
    have h2 := solveT_eq_outcome I o n (p : Int) ⟨u, st', it'⟩
    simp only at h1 h2
    rcases hoc : outcomeOf I o n (p : Int) u with ⟨u', sk, r⟩
    rw [hoc] at h1 h2
    have e1 : solveT I o n (p : Int) ⟨u, st, it⟩ =
        (⟨u', (applyOutcome n p ⟨u, st, it⟩ (u', sk, r)).1.status, (applyOutcome n p ⟨u, st, it⟩ (u', sk, r)).1.iters⟩, r) := by
      rw [h1]
      have hu := applyOutcome_user n p ⟨u, st, it⟩ (u', sk, r)
      have hr := applyOutcome_result n p ⟨u, st, it⟩ (u', sk, r)
      rcases hx : applyOutcome n p ⟨u, st, it⟩ (u', sk, r) with ⟨⟨a, b, c⟩, d⟩
      rw [hx] at hu hr
      simp only at hu hr
      subst hu; subst hr; rfl
    have e2 : solveT I o n (p : Int) ⟨u, st', it'⟩ =
        (⟨u', (applyOutcome n p ⟨u, st', it'⟩ (u', sk, r)).1.status, (applyOutcome n p ⟨u, st', it'⟩ (u', sk, r)).1.iters⟩, r) := by
      rw [h2]
      have hu := applyOutcome_user n p ⟨u, st', it'⟩ (u', sk, r)
      have hr := applyOutcome_result n p ⟨u, st', it'⟩ (u', sk, r)
      rcases hx : applyOutcome n p ⟨u, st', it'⟩ (u', sk, r) with ⟨⟨a, b, c⟩, d⟩
      rw [hx] at hu hr
      simp only at hu hr
      subst hu; subst hr; rfl
    rw [e1, e2]
    cases r with
    | ret b => exact ih u' _ _ _ _ _ _
    | valueError => exact ⟨rfl, rfl⟩
    | indexError => exact ⟨rfl, rfl⟩
    | solutionError c => exact ⟨rfl, rfl⟩
    | nonConvergence => exact ⟨rfl, rfl⟩
    | badErrorsArg => exact ⟨rfl, rfl⟩

/-- `solve(start, end)` likewise: values and result do not depend on the bookkeeping left by earlier calls. -/
theorem solve_history_irrelevant (lags leads : Nat) (start stop : Option Loc) (u : σ)
    (st st' : List Status) (it it' : List Int) :
    (solve I o n lags leads start stop ⟨u, st, it⟩).1.user = (solve I o n lags leads start stop ⟨u, st', it'⟩).1.user ∧
    (solve I o n lags leads start stop ⟨u, st, it⟩).2 = (solve I o n lags leads start stop ⟨u, st', it'⟩).2 := by
  unfold solve
  by_cases h0 : o.minIter > o.maxIter
  · simp only [h0, if_true, and_self]
  · simp only [h0, if_false]
    by_cases h1 : start = some .other ∨ start = some .missing
    · simp only [h1, if_true, and_self]
    · simp only [h1, if_false]
      by_cases h2 : stop = some .other ∨ stop = some .missing
      · simp only [h2, if_true, and_self]
      · simp only [h2, if_false]
        by_cases h3 : n = 0
        · simp only [h3, if_true, and_self]
        · simp only [h3, if_false]
          cases resolveBound start (if lags < n then some lags else none) with
          | error r => exact ⟨rfl, rfl⟩
          | ok s =>
            cases resolveBound stop (if leads < n then some (n - 1 - leads) else none) with
            | error r => exact ⟨rfl, rfl⟩
            | ok e => exact solveList_history_irrelevant I o n _ u st st' it it' [] []

/-! ### Non-vacuity (review): every hypothesis-carrying theorem instantiated on `exI` (4 periods; period 2 fails) -/

private def exW : World Nat := ⟨0, List.replicate 4 .unsolved, List.replicate 4 (-1)⟩
private theorem exAll : AllReturn exI { maxIter := 3, failRaise := false } 4 [1, 2, 3] exW := by
  simp [AllReturn]; decide
private theorem exAll1 : AllReturn exI { maxIter := 3 } 4 [1] exW := by
  simp [AllReturn]; decide

/-- `defaults_agree` is not vacuous: the reflected table has seven entries (so `head!` is a real entry). -/
example : Generated.solveDefaults.length = 7 := by decide

/-- `periodRange_reversed` at the reversed pair (3, 1). -/
example : periodRange 3 1 = [] := periodRange_reversed 3 1 (by decide)

/-- `solveList_eq_seq` over periods 1, 2, 3 under `failures='ignore'` (period 2 fails, nothing raises). -/
example : solveList exI { maxIter := 3, failRaise := false } 4 [1, 2, 3] exW [] [] =
    (seqWorld exI { maxIter := 3, failRaise := false } 4 [1, 2, 3] exW,
     .ok ([].reverse ++ [1, 2, 3]) ([].reverse ++ seqFlags exI { maxIter := 3, failRaise := false } 4 [1, 2, 3] exW)) :=
  solveList_eq_seq exI _ 4 [1, 2, 3] exW [] [] exAll
example : seqFlags exI { maxIter := 3, failRaise := false } 4 [1, 2, 3] exW = [true, false, true] := by decide

/-- `solve_failure_containment`: period 1 completes, period 2 raises NonConvergenceError, period 3 never runs. -/
example : solveList exI { maxIter := 3 } 4 ([1] ++ 2 :: [3]) exW [] [] =
    ((solveT exI { maxIter := 3 } 4 (2 : Nat) (seqWorld exI { maxIter := 3 } 4 [1] exW)).1,
     .err .nonConvergence [1] (seqFlags exI { maxIter := 3 } 4 [1] exW)) :=
  solve_failure_containment exI { maxIter := 3 } 4 [1] [3] 2 exW exAll1 .nonConvergence (by decide)
    (fun b h => nomatch h)

/-- `later_periods_untouched`: after periods 1 and 2, entry 3 of `status` / `iterations` is as before. -/
example : (seqWorld exI { maxIter := 3, failRaise := false } 4 [1, 2] exW).status[3]? = exW.status[3]? ∧
    (seqWorld exI { maxIter := 3, failRaise := false } 4 [1, 2] exW).iters[3]? = exW.iters[3]? :=
  later_periods_untouched exI _ 4 [1, 2] exW 3 (by decide) (by decide) (by decide)

/-- The entry checks of `solve()`. -/
example : solve exI { minIter := 9, maxIter := 3 } 4 1 0 none none exW = (exW, .err .valueError [] []) :=
  solve_min_gt_max exI _ 4 1 0 none none exW (by decide)
example : solve exI {} 4 1 0 (some (.pos 1)) (some .missing) exW = (exW, .keyError) :=
  solve_bad_label exI _ 4 1 0 _ _ exW (by decide) (Or.inr (Or.inr (Or.inr rfl)))
example : solve exI {} 0 1 0 none none exW = (exW, .emptySpan) := solve_empty_span exI _ 1 0 exW (by decide)
example : solve exI { maxIter := 3 } 4 1 0 (some (.pos 1)) (some (.pos 2)) exW =
    solveList exI { maxIter := 3 } 4 (periodRange 1 2) exW [] [] :=
  solve_explicit exI _ 4 1 0 1 2 exW (by decide) (by decide)
example : solve exI { maxIter := 3 } 4 1 0 none none exW =
    solveList exI { maxIter := 3 } 4 (periodRange 1 (4 - 1 - 0)) exW [] [] :=
  solve_default_range exI _ 4 1 0 exW (by decide) (by decide) (by decide)

end Fsic.C05
