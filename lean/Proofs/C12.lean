import Proofs.Lemmas.Reindex
import FsicModel.Generated
/-
C12 — reindex preserves overlapping periods and fills the rest, on a fresh object.

Property theorems over the model of `VectorContainer.reindex` / `BaseModel.reindex` (`FsicModel/Reindex.lean`),
for every object (any number of variables of any dtypes, any values), every old and new span (permuted, disjoint,
shrunk, extended, with repeated labels), every `fill_value` / keyword fills / `strict` combination.

Scope of the statements.  `reindex_spec`, `reindex_succeeds`, `reindex_strict_unknown` were first written for
list-like spans; the section "Every span kind" restates them for every lookup the model has (`reindex_spec_all`,
`reindex_succeeds_all`, `reindex_keyError_cause`, `reindex_lookup_error` for `SpanKind.list` / `.numpy`;
`reindexWith_spec`, `reindexWith_succeeds` relative to a given position map — the pandas case, where `in` /
`get_loc` are inputs).

"The original object is unchanged": `reindex` is a function of the object in this model, so the clause holds by
construction and is not a theorem; what is proved is that the result is built only from the old values and the fill
(`reindex_elements_from_old_or_fill`, `reindex_series_local`, `copy_loop_natural`).  "Shares nothing with the
result" is about object identity: the model has none (heap model: C11), so it is NOT a theorem; both clauses are
checked on the real code by the C12 oracle (state snapshot before/after, `id` / `np.shares_memory` of every
reachable array, list and object-dtype element, mutate-one-side-observe-the-other).
-/
set_option linter.unusedSimpArgs false
namespace Fsic.C12
open Fsic.Reindex

variable {M : Type}

/-- `reindex` for list-like spans, unfolded once: strict check, then `reindexWith` on the `list.index` map. -/
theorem reindex_list_unfold (o : Obj M) (new : List Nat) (fv : PyVal) (sa : Option Bool)
    (fills : List (String × PyVal)) :
    reindex .list o new fv sa fills =
      if effectiveStrict sa o.strict && hasUnknown fills (o.vars.map (·.1)) then .error .keyError
      else finish o new (mapE (reindexVar new.length (new.map fun l => firstIndex l o.span) fills fv) o.vars) := by
  unfold reindex reindexWith
  rw [posmapOf_list]
  by_cases h : (effectiveStrict sa o.strict && hasUnknown fills (o.vars.map (·.1))) = true <;> simp [h]

/-- **reindex_spec.**  If `reindex` returns `r` then the span of `r` is the new span and, for every variable
    (`status` and `iterations` of a model are ordinary variables), in the original order and with the original
    dtype, every new position `i` holds
      * the old value at the FIRST occurrence of the label `new[i]` in the old span, if the label occurs there;
      * otherwise the variable's fill value: `coerce dtype (keyword fill if given, else fill_value)`, where
        `None` coerces to the dtype default (`fill_default_table`). -/
theorem reindex_spec (o : Obj M) (new : List Nat) (fv : PyVal) (sa : Option Bool) (fills : List (String × PyVal))
    (r : Obj M) (h : reindex .list o new fv sa fills = .ok r) :
    r.span = new ∧ r.vars.length = o.vars.length ∧
    ∀ (j : Nat) (name : String) (ser : Series), o.vars[j]? = some (name, ser) →
      ∃ data fill, r.vars[j]? = some (name, ⟨ser.dtype, data⟩) ∧ data.length = new.length ∧
        coerce ser.dtype (chosenFill fills fv name) = .ok fill ∧
        ∀ (i : Nat) (l : Nat), new[i]? = some l →
          data[i]? = match firstIndex l o.span with
                     | some k => ser.data[k]?
                     | none => some fill := by
  rw [reindex_list_unfold] at h
  split at h
  · exact absurd h (by simp)
  · unfold finish at h
    cases hm : mapE (reindexVar new.length (new.map fun l => firstIndex l o.span) fills fv) o.vars with
    | error e => simp [hm] at h
    | ok vs =>
      simp [hm] at h
      subst h
      obtain ⟨hl, hj⟩ := mapE_ok _ _ _ hm
      refine ⟨rfl, hl, ?_⟩
      intro j name ser hjv
      obtain ⟨y, hy, hfy⟩ := hj j (name, ser) hjv
      unfold reindexVar at hfy
      simp only at hfy
      cases hc : coerce ser.dtype (chosenFill fills fv name) with
      | error e => simp [hc] at hfy
      | ok fill =>
        simp only [hc] at hfy
        unfold rebuild at hfy
        cases hw : writeAll ser.data (new.map fun l => firstIndex l o.span) 0 (List.replicate new.length fill) with
        | error e => simp [hw] at hfy
        | ok data =>
          simp [hw] at hfy
          subst hfy
          obtain ⟨hlen, hwr⟩ := writeAll_spec _ _ _ _ _ hw
          refine ⟨data, fill, hy, by simpa using hlen, rfl, ?_⟩
          intro i l hil
          have hi : i < new.length := by
            by_cases hi : i < new.length
            · exact hi
            · rw [List.getElem?_eq_none (by omega)] at hil; exact absurd hil (by simp)
          rw [hwr i (by simpa using hi)]
          unfold written
          simp only [Nat.zero_le, if_true, Nat.sub_zero, List.getElem?_map, hil, Option.map_some]
          cases firstIndex l o.span with
          | none => simp [hi]
          | some k => rfl

example :
    (reindex .list (⟨[10, 11, 12], [("X", ⟨.int (-128) 127, [.i 1, .i 2, .i 3]⟩), ("S", ⟨.str 1, [.s ['.'], .s ['.'], .s ['F']]⟩)],
        false, ()⟩ : Obj Unit) [12, 99, 10, 12] .none none [("S", .s ['-'])]).toOption.map (·.vars) =
    some [("X", ⟨.int (-128) 127, [.i 3, .i 0, .i 1, .i 3]⟩), ("S", ⟨.str 1, [.s ['F'], .s ['-'], .s ['.'], .s ['F']]⟩)] := by
  decide

/-- `firstIndex` is Python's `list.index`: the first position holding the label; `none` iff the label is absent
    (`period in self.span` is False). -/
theorem first_occurrence (l : Nat) (old : List Nat) :
    (∀ k, firstIndex l old = some k → old[k]? = some l ∧ ∀ j, j < k → old[j]? ≠ some l) ∧
    (firstIndex l old = none ↔ l ∉ old) :=
  ⟨fun k h => firstIndex_some l old k h, firstIndex_none l old⟩

example : firstIndex 7 [5, 7, 6, 7] = some 1 := by decide

/-- The dtype defaults: NaN, 0, False, ''. -/
theorem fill_default_table :
    coerce .float .none = .ok (.f nanBits) ∧ (∀ lo hi, coerce (.int lo hi) .none = .ok (.i 0)) ∧
    coerce .bool .none = .ok (.b false) ∧ ∀ w, coerce (.str w) .none = .ok (.s []) :=
  ⟨rfl, fun _ _ => rfl, rfl, fun _ => rfl⟩

/-- The dtype default for EVERY integer-like dtype — every kind that takes the integer arm (`int8 … int64`,
    `uint8 … uint64`), whatever its width — is 0, for bool False, for every `<U` width '', for bytes b''. -/
theorem default_by_kind (kind : Char) (size : Nat) (casts : List (PyVal × Option Val)) :
    (branchOf kind = .int → coerce (mkDType kind size casts) .none = .ok (.i 0)) ∧
    (branchOf kind = .bool → coerce (mkDType kind size casts) .none = .ok (.b false)) ∧
    (branchOf kind = .str → coerce (mkDType kind size casts) .none = .ok (.s [])) ∧
    (branchOf kind = .bytes → coerce (mkDType kind size casts) .none = .ok (.y [])) := by
  refine ⟨?_, ?_, ?_, ?_⟩ <;> intro h <;> simp [mkDType, h, coerce, defaultFill]

/-- **Reflected: the model's branch function is the code's `if/elif` chain.**  For every dtype of the probed
    catalogue (`Generated.reindexProbes`, rewritten from the imported fsic on every run) that the model treats
    itself — bool, every integer width signed and unsigned, timedelta64, every `<U`, bytes, float64 — what the real
    `reindex` put into a new period with no fill value, and with `fill_value=2.9`, is what the model computes. -/
theorem reflected_branches :
    ∀ e ∈ Fsic.Generated.reindexProbes,
      (branchOf e.2.1 ≠ .passthrough ∨ (e.2.1 = 'f' ∧ e.2.2.1 = 8)) →
        encode (coerce (mkDType e.2.1 e.2.2.1 []) .none) = e.2.2.2.1 ∧
        (branchOf e.2.1 ≠ .bytes →     -- (a given fill value of a bytes series is cast by NumPy: an input)
          encode (coerce (mkDType e.2.1 e.2.2.1 []) (.f 4613712638259704627 (some 2) ['2', '.', '9'])) = e.2.2.2.2) := by
  decide

/-- **Reflected: the code's defaults are the property's table** (False, 0, NaN, '') for every probed dtype of a kind
    the table speaks about: bool, all signed and unsigned integer widths, float16/32/64, complex64/128, `<U`, bytes
    ('' ↔ b''). -/
theorem reflected_property_defaults :
    ∀ e ∈ Fsic.Generated.reindexProbes, ∀ d, propertyDefault e.2.1 = some d → e.2.2.2.1 = d := by
  decide

example : ("int32", 'i', 4, ("i", (0 : Int), false, ([] : List Char)), ("i", (2 : Int), false, ([] : List Char))) ∈
    Fsic.Generated.reindexProbes := by decide

/-- **Fill precedence**: the per-variable keyword if given, else `fill_value`; (and `None` — from either place —
    means the dtype default). -/
theorem fill_precedence (fills : List (String × PyVal)) (fv : PyVal) (name : String) :
    (∀ v, fills.lookup name = some v → chosenFill fills fv name = v) ∧
    (fills.lookup name = none → chosenFill fills fv name = fv) := by
  constructor
  · intro v h; simp [chosenFill, h]
  · intro h; simp [chosenFill, h]

/-- **Models**: `status` defaults to '-' and `iterations` to -1 — whatever `fill_value` is — unless overridden
    by keyword; every other keyword fill is passed on unchanged. -/
theorem model_defaults (fills : List (String × PyVal)) (fv : PyVal) :
    chosenFill (modelFills fills) fv "status" = (fills.lookup "status").getD (.s ['-']) ∧
    chosenFill (modelFills fills) fv "iterations" = (fills.lookup "iterations").getD (.i (-1)) ∧
    ∀ name, name ≠ "status" → name ≠ "iterations" →
      chosenFill (modelFills fills) fv name = chosenFill fills fv name := by
  have hsi : ("status" == "iterations") = false := by decide
  have hstep : ∀ (fs : List (String × PyVal)) (k : String) (v : PyVal) (name : String),
      (setDefault fs k v).lookup name = if name = k then some ((fs.lookup k).getD v) else fs.lookup name := by
    intro fs k v name
    unfold setDefault
    cases hk : fs.lookup k with
    | some w =>
      by_cases hn : name = k
      · subst hn; simp [hk]
      · simp [hn]
    | none =>
      by_cases hn : name = k
      · subst hn; simp [List.lookup_append, hk]
      · have : (name == k) = false := by simpa using hn
        simp [List.lookup_append, hn, List.lookup, this]
  refine ⟨?_, ?_, ?_⟩
  · simp [chosenFill, modelFills, hstep]
  · simp [chosenFill, modelFills, hstep]
  · intro name h1 h2
    simp [chosenFill, modelFills, hstep, h1, h2]

example : chosenFill (modelFills [("X", .i 5)]) (.i 7) "status" = .s ['-'] := by decide
example : chosenFill (modelFills [("status", .s ['E'])]) .none "status" = .s ['E'] := by decide

/-- **reindex_preserves_meta.**  Variable names and their order, dtypes, the `strict` flag and everything else the
    object carries (attributes, lag/lead settings, …: `extra`) are those of the original; the span is the new span. -/
theorem reindex_preserves_meta (kind : SpanKind) (o : Obj M) (new : List Nat) (fv : PyVal) (sa : Option Bool)
    (fills : List (String × PyVal)) (r : Obj M) (h : reindex kind o new fv sa fills = .ok r) :
    r.span = new ∧ r.strict = o.strict ∧ r.extra = o.extra ∧
    r.vars.map (fun nv => (nv.1, nv.2.dtype)) = o.vars.map (fun nv => (nv.1, nv.2.dtype)) := by
  unfold reindex at h
  split at h
  · exact absurd h (by simp)
  · cases hp : posmapOf kind o.span new with
    | error e => simp [hp] at h
    | ok pm =>
      simp only [hp] at h
      unfold reindexWith at h
      split at h
      · exact absurd h (by simp)
      · unfold finish at h
        cases hm : mapE (reindexVar new.length pm fills fv) o.vars with
        | error e => simp [hm] at h
        | ok vs =>
          simp [hm] at h
          subst h
          refine ⟨rfl, rfl, rfl, ?_⟩
          obtain ⟨hl, hj⟩ := mapE_ok _ _ _ hm
          apply List.ext_getElem?
          intro j
          simp only [List.getElem?_map]
          cases hv : o.vars[j]? with
          | none =>
            have : vs[j]? = none := by
              rw [List.getElem?_eq_none_iff] at hv ⊢
              omega
            simp [this]
          | some nv =>
            obtain ⟨y, hy, hfy⟩ := hj j nv hv
            simp only [hy, Option.map_some]
            unfold reindexVar at hfy
            cases hc : coerce nv.2.dtype (chosenFill fills fv nv.1) with
            | error e => simp [hc] at hfy
            | ok fill =>
              simp only [hc] at hfy
              unfold rebuild at hfy
              cases hw : writeAll nv.2.data pm 0 (List.replicate new.length fill) with
              | error e => simp [hw] at hfy
              | ok data =>
                simp [hw] at hfy
                subst hfy
                rfl

/-- The coercion of a fill value never raises KeyError. -/
theorem coerce_ne_keyError (d : DType) (v : PyVal) : coerce d v ≠ .error .keyError := by
  have hi : ∀ lo hi n, intVal lo hi n ≠ .error .keyError := by
    intro lo hi n; unfold intVal; split <;> simp
  have ho : ∀ casts w, castOther casts w ≠ .error .keyError := by
    intro casts w
    unfold castOther
    cases casts.lookup w with
    | none => simp
    | some x => cases x <;> simp
  cases d <;> cases v <;> simp [coerce, hi, ho]
  · rename_i lo hi' bits asInt asStr
    cases asInt <;> simp [coerce, hi]
  · rename_i lo hi' t
    cases EvalIdx.parsePyInt t <;> simp [hi]

/-- **reindex_strict_unknown.**  Under effective strictness (`strict=True`, or `strict=None` on a strict object) a
    fill keyword that names no variable is rejected with KeyError before anything else happens; without
    strictness unknown keywords are never a reason for KeyError (list-like spans: the only KeyError there is). -/
theorem reindex_strict_unknown (kind : SpanKind) (o : Obj M) (new : List Nat) (fv : PyVal) (sa : Option Bool)
    (fills : List (String × PyVal)) :
    (effectiveStrict sa o.strict = true → hasUnknown fills (o.vars.map (·.1)) = true →
      reindex kind o new fv sa fills = .error .keyError) ∧
    (effectiveStrict sa o.strict = false → reindex .list o new fv sa fills ≠ .error .keyError) := by
  constructor
  · intro h1 h2
    simp [reindex, h1, h2]
  · intro h1 hk
    rw [reindex_list_unfold] at hk
    simp only [h1, Bool.false_and] at hk
    unfold finish at hk
    cases hm : mapE (reindexVar new.length (new.map fun l => firstIndex l o.span) fills fv) o.vars with
    | ok vs => simp [hm] at hk
    | error e =>
      simp [hm] at hk
      subst hk
      obtain ⟨nv, _, hnv⟩ := mapE_error_of _ _ _ hm
      unfold reindexVar at hnv
      cases hc : coerce nv.2.dtype (chosenFill fills fv nv.1) with
      | error e =>
        simp only [hc] at hnv
        have he : e = .keyError := by injection hnv
        subst he
        exact coerce_ne_keyError _ _ hc
      | ok fill =>
        simp only [hc] at hnv
        unfold rebuild at hnv
        cases hw : writeAll nv.2.data (new.map fun l => firstIndex l o.span) 0 (List.replicate new.length fill) with
        | ok data => simp [hw] at hnv
        | error e =>
          simp [hw] at hnv
          subst hnv
          -- `writeAll` only raises IndexError
          have : ∀ (ps : List (Option Nat)) (i : Nat) (dst : List Val),
              writeAll nv.2.data ps i dst ≠ .error .keyError := by
            intro ps
            induction ps with
            | nil => intro i dst; simp [writeAll]
            | cons p ps ih =>
              intro i dst
              cases p with
              | none => simp only [writeAll]; exact ih _ _
              | some k =>
                simp only [writeAll]
                cases nv.2.data[k]? with
                | none => simp
                | some v => exact ih _ _
          exact this _ _ _ hw

/-- `strict=None` uses the object's flag; an explicit `strict` wins. -/
theorem effective_strict (b : Bool) : effectiveStrict none b = b ∧ ∀ s, effectiveStrict (some s) b = s :=
  ⟨rfl, fun _ => rfl⟩

example : reindex .list (⟨[1, 2], [("X", ⟨.float, [.f 0, .f 0]⟩)], true, ()⟩ : Obj Unit) [2, 3] .none none
    [("Q", .i 1)] = .error .keyError := rfl
example : (reindex .list (⟨[1, 2], [("X", ⟨.int 0 255, [.i 4, .i 5]⟩)], true, ()⟩ : Obj Unit) [2, 3] .none (some false)
    [("Q", .i 1)]).toOption.map (·.vars) = some [("X", ⟨.int 0 255, [.i 5, .i 0]⟩)] := by decide

/-- **Success.**  On a well-formed object (every series as long as the span — C09's invariant) `reindex` returns
    a result whenever the strict check passes and every chosen fill value can be coerced to its dtype. -/
theorem reindex_succeeds (o : Obj M) (new : List Nat) (fv : PyVal) (sa : Option Bool) (fills : List (String × PyVal))
    (hwf : ∀ nv ∈ o.vars, nv.2.data.length = o.span.length)
    (hstrict : (effectiveStrict sa o.strict && hasUnknown fills (o.vars.map (·.1))) = false)
    (hco : ∀ nv ∈ o.vars, ∃ v, coerce nv.2.dtype (chosenFill fills fv nv.1) = .ok v) :
    ∃ r, reindex .list o new fv sa fills = .ok r := by
  rw [reindex_list_unfold]
  simp only [hstrict]
  have : ∀ nv ∈ o.vars, ∃ y, reindexVar new.length (new.map fun l => firstIndex l o.span) fills fv nv = .ok y := by
    intro nv hnv
    obtain ⟨v, hv⟩ := hco nv hnv
    unfold reindexVar
    simp only [hv]
    obtain ⟨out, hout⟩ := writeAll_total nv.2.data (new.map fun l => firstIndex l o.span) 0
      (List.replicate new.length v) (by
        intro k hk
        simp only [List.mem_map] at hk
        obtain ⟨l, _, hl⟩ := hk
        rw [hwf nv hnv]
        exact firstIndex_lt l o.span k hl)
    exact ⟨(nv.1, ⟨nv.2.dtype, out⟩), by simp [hout, rebuild]⟩
  cases hm : mapE (reindexVar new.length (new.map fun l => firstIndex l o.span) fills fv) o.vars with
  | ok vs => exact ⟨_, rfl⟩
  | error e =>
    obtain ⟨nv, hnv, he⟩ := mapE_error_of _ _ _ hm
    obtain ⟨y, hy⟩ := this nv hnv
    rw [hy] at he
    exact absurd he (by simp)

/-! ## Non-vacuity (review): the hypotheses of the theorems above at a concrete reindex

Old span `[10, 11, 12]`, new span `[12, 99, 10, 12]` (permuted, one absent label, one repeated label), an `int8` and a
`<U1` variable, keyword fill for `S`. -/

def exO : Obj Unit :=
  ⟨[10, 11, 12], [("X", ⟨.int (-128) 127, [.i 1, .i 2, .i 3]⟩), ("S", ⟨.str 1, [.s ['.'], .s ['.'], .s ['F']]⟩)], false, ()⟩
def exR : Obj Unit :=
  ⟨[12, 99, 10, 12], [("X", ⟨.int (-128) 127, [.i 3, .i 0, .i 1, .i 3]⟩), ("S", ⟨.str 1, [.s ['F'], .s ['-'], .s ['.'], .s ['F']]⟩)],
   false, ()⟩
theorem exR_eq : reindex .list exO [12, 99, 10, 12] .none none [("S", .s ['-'])] = .ok exR := rfl

/-- **A label-addressed read survives `reindex`.**  For a label present in both spans, reading the result at that label
    (`list.index` on the NEW span) gives what reading the original at that label gives (`list.index` on the OLD span) —
    whatever else the spans contain: permuted, shrunk, extended at either end, with the label repeated in either.
    (Corollary of `reindex_spec` and `first_occurrence`; it is the form in which a stale label→position table or a
    last-occurrence position map shows: the result would answer `obj[name, label]` differently from the original.) -/
theorem reindex_label_read (o : Obj M) (new : List Nat) (fv : PyVal) (sa : Option Bool) (fills : List (String × PyVal))
    (r : Obj M) (h : reindex .list o new fv sa fills = .ok r)
    (j : Nat) (name : String) (ser : Series) (hj : o.vars[j]? = some (name, ser))
    (l k i : Nat) (hk : firstIndex l o.span = some k) (hi : firstIndex l r.span = some i) :
    ∃ data, r.vars[j]? = some (name, ⟨ser.dtype, data⟩) ∧ data[i]? = ser.data[k]? := by
  obtain ⟨hspan, _, hv⟩ := reindex_spec o new fv sa fills r h
  obtain ⟨data, fill, hr, _, _, hd⟩ := hv j name ser hj
  rw [hspan] at hi
  have hil := ((first_occurrence l new).1 i hi).1
  refine ⟨data, hr, ?_⟩
  rw [hd i l hil, hk]

/-- … and a label absent from the old span reads as the variable's fill value in the result. -/
theorem reindex_new_label_read (o : Obj M) (new : List Nat) (fv : PyVal) (sa : Option Bool) (fills : List (String × PyVal))
    (r : Obj M) (h : reindex .list o new fv sa fills = .ok r)
    (j : Nat) (name : String) (ser : Series) (hj : o.vars[j]? = some (name, ser))
    (l i : Nat) (hk : firstIndex l o.span = none) (hi : firstIndex l r.span = some i) :
    ∃ data fill, r.vars[j]? = some (name, ⟨ser.dtype, data⟩) ∧
      coerce ser.dtype (chosenFill fills fv name) = .ok fill ∧ data[i]? = some fill := by
  obtain ⟨hspan, _, hv⟩ := reindex_spec o new fv sa fills r h
  obtain ⟨data, fill, hr, _, hc, hd⟩ := hv j name ser hj
  rw [hspan] at hi
  have hil := ((first_occurrence l new).1 i hi).1
  refine ⟨data, fill, hr, hc, ?_⟩
  rw [hd i l hil, hk]

-- non-vacuity: the label 12 is repeated in the new span and sits at another position than in the old one
example : ∃ data, exR.vars[0]? = some ("X", ⟨.int (-128) 127, data⟩) ∧ data[0]? = some (.i 3) := by
  obtain ⟨data, h1, h2⟩ := reindex_label_read exO [12, 99, 10, 12] .none none [("S", .s ['-'])] exR exR_eq
    0 "X" _ rfl 12 2 0 (by decide) (by decide)
  exact ⟨data, h1, h2.trans (by decide)⟩

-- reindex_spec / reindex_preserves_meta: `h`
example : exR.span = [12, 99, 10, 12] ∧ exR.vars.length = exO.vars.length :=
  ⟨(reindex_spec _ _ _ _ _ _ exR_eq).1, (reindex_spec _ _ _ _ _ _ exR_eq).2.1⟩
example : ∃ data fill, exR.vars[1]? = some ("S", ⟨.str 1, data⟩) ∧ data.length = 4 ∧
    coerce (.str 1) (chosenFill [("S", .s ['-'])] .none "S") = .ok fill ∧
    ∀ (i l : Nat), ([12, 99, 10, 12] : List Nat)[i]? = some l → data[i]? = match firstIndex l [10, 11, 12] with
      | some k => [Val.s ['.'], .s ['.'], .s ['F']][k]?
      | none => some fill :=
  (reindex_spec _ _ _ _ _ _ exR_eq).2.2 1 "S" ⟨.str 1, [.s ['.'], .s ['.'], .s ['F']]⟩ rfl
example : exR.strict = exO.strict ∧ exR.extra = exO.extra :=
  ⟨(reindex_preserves_meta _ _ _ _ _ _ _ exR_eq).2.1, (reindex_preserves_meta _ _ _ _ _ _ _ exR_eq).2.2.1⟩
-- the same for a NumPy span (unique old labels)
example : (reindex .numpy exO [12, 99, 10, 12] .none none [("S", .s ['-'])]).toOption.map (·.vars) = some exR.vars := by
  decide +kernel
-- default_by_kind: each premise holds of a real NumPy kind character
example : branchOf 'u' = .int ∧ branchOf 'b' = .bool ∧ branchOf 'U' = .str ∧ branchOf 'S' = .bytes := by decide
example : coerce (mkDType 'u' 2 []) .none = .ok (.i 0) := (default_by_kind 'u' 2 []).1 (by decide)
-- reflected_branches / reflected_property_defaults: the premises hold of a probed row
example : ∃ e ∈ Fsic.Generated.reindexProbes, branchOf e.2.1 ≠ .passthrough ∧ branchOf e.2.1 ≠ .bytes ∧
    propertyDefault e.2.1 = some ("i", 0, false, []) :=
  ⟨("uint16", 'u', 2, ("i", 0, false, []), ("i", 2, false, [])), by decide, by decide, by decide, by decide⟩
-- fill_precedence: both premises
example : [("S", PyVal.s ['-'])].lookup "S" = some (.s ['-']) ∧ [("S", PyVal.s ['-'])].lookup "X" = none := by decide
-- reindex_strict_unknown: both premises of the first part, the premise of the second
example : effectiveStrict none true = true ∧ hasUnknown [("Q", .i 1)] ["X"] = true ∧
    effectiveStrict (some false) true = false := by decide
example : reindex .list (⟨[1, 2], [("X", ⟨.float, [.f 0, .f 0]⟩)], true, ()⟩ : Obj Unit) [2, 3] .none none
    [("Q", .i 1)] = .error .keyError :=
  (reindex_strict_unknown .list ⟨[1, 2], [("X", ⟨.float, [.f 0, .f 0]⟩)], true, ()⟩ _ _ _ _).1 (by decide) (by decide)
-- reindex_succeeds: hwf, hstrict, hco
example : ∃ r, reindex .list exO [12, 99, 10, 12] .none none [("S", .s ['-'])] = .ok r :=
  reindex_succeeds exO _ _ _ _ (by decide) (by decide) (by
    intro nv h
    simp only [exO, List.mem_cons, List.not_mem_nil, or_false] at h
    rcases h with rfl | rfl <;> exact ⟨_, rfl⟩)
-- … and a fill value that cannot be coerced (hco fails): `reindex` raises, so `hco` is a real restriction
example : reindex .list exO [12, 99] (.i 1000) none [] = .error .coercion := rfl

/-! ## Every span kind (review)

The model has two built-in lookups (`SpanKind.list`: `in` + `.index`; `SpanKind.numpy`: `(arr == p).any()` + the
fallback locator, which raises for duplicate labels) and the table form `reindexWith`, where the position map is
an input (pandas: `in` / `get_loc` answered by pandas itself).  The theorems below are stated relative to the lookup. -/

/-- **reindex_spec relative to a given position map** (`reindexWith`: the pandas case, and the core of every
    other case).  `pm[i] = some k` ⇔ the lookup found the `i`-th new period at old position `k`.  If the call
    returns `r`: every variable keeps its name, order and dtype; a new period found at old position `k` holds the old
    value at `k`; every other new period holds the variable's fill (keyword fill if given, else `fill_value`,
    coerced by dtype). -/
theorem reindexWith_spec (o : Obj M) (new : List Nat) (pm : List (Option Nat)) (fv : PyVal) (sa : Option Bool)
    (fills : List (String × PyVal)) (r : Obj M) (h : reindexWith o new pm fv sa fills = .ok r) :
    r.span = new ∧ r.strict = o.strict ∧ r.extra = o.extra ∧ r.vars.length = o.vars.length ∧
    ∀ (j : Nat) (name : String) (ser : Series), o.vars[j]? = some (name, ser) →
      ∃ data fill, r.vars[j]? = some (name, ⟨ser.dtype, data⟩) ∧ data.length = new.length ∧
        coerce ser.dtype (chosenFill fills fv name) = .ok fill ∧
        ∀ (i : Nat), i < new.length →
          data[i]? = match pm[i]? with
                     | some (some k) => ser.data[k]?
                     | _ => some fill := by
  unfold reindexWith at h
  split at h
  · exact absurd h (by simp)
  · unfold finish at h
    cases hm : mapE (reindexVar new.length pm fills fv) o.vars with
    | error e => simp [hm] at h
    | ok vs =>
      simp [hm] at h
      subst h
      obtain ⟨hl, hj⟩ := mapE_ok _ _ _ hm
      refine ⟨rfl, rfl, rfl, hl, ?_⟩
      intro j name ser hjv
      obtain ⟨y, hy, hfy⟩ := hj j (name, ser) hjv
      unfold reindexVar at hfy
      simp only at hfy
      cases hc : coerce ser.dtype (chosenFill fills fv name) with
      | error e => simp [hc] at hfy
      | ok fill =>
        simp only [hc] at hfy
        unfold rebuild at hfy
        cases hw : writeAll ser.data pm 0 (List.replicate new.length fill) with
        | error e => simp [hw] at hfy
        | ok data =>
          simp [hw] at hfy
          subst hfy
          obtain ⟨hlen, hwr⟩ := writeAll_spec _ _ _ _ _ hw
          refine ⟨data, fill, hy, by simpa using hlen, rfl, ?_⟩
          intro i hi
          rw [hwr i (by simpa using hi)]
          unfold written
          simp only [Nat.zero_le, if_true, Nat.sub_zero]
          cases hp : pm[i]? with
          | none => simp [hi]
          | some q => cases q with
            | none => simp [hi]
            | some k => rfl

example : (reindexWith (⟨[10, 11, 12], [("X", ⟨.int (-128) 127, [.i 1, .i 2, .i 3]⟩)], false, ()⟩ : Obj Unit)
    [12, 99, 10] [some 2, none, some 0] (.i 7) none []).toOption.map (·.vars) =
    some [("X", ⟨.int (-128) 127, [.i 3, .i 7, .i 1]⟩)] := by decide

/-- With the map that a built-in lookup computes, `reindex` IS `reindexWith` on that map; and whenever a lookup
    answers for every new label, its map is the first-index map — so every span kind then agrees with the
    list-like kind. -/
theorem reindex_kind_eq_list (kind : SpanKind) (o : Obj M) (new : List Nat) (fv : PyVal) (sa : Option Bool)
    (fills : List (String × PyVal)) (pm : List (Option Nat)) (hp : posmapOf kind o.span new = .ok pm) :
    reindex kind o new fv sa fills = reindex .list o new fv sa fills ∧
    pm = new.map (fun l => firstIndex l o.span) := by
  have hpm := posmapOf_ok kind o.span new pm hp
  refine ⟨?_, hpm⟩
  unfold reindex
  rw [hp, posmapOf_list, hpm]

/-- **Lookup failures propagate as the model says.**  If the strict check passes and the lookup of the span kind
    raises for some new label, `reindex` raises the same error; for NumPy spans that error is KeyError and the
    label occurs more than once in the old span (the fallback locator's NotImplementedError is re-raised as KeyError
    by `_locate_period_in_span`); list-like lookups never raise. -/
theorem reindex_lookup_error (kind : SpanKind) (o : Obj M) (new : List Nat) (fv : PyVal) (sa : Option Bool)
    (fills : List (String × PyVal)) (e : Err)
    (hc : (effectiveStrict sa o.strict && hasUnknown fills (o.vars.map (·.1))) = false)
    (hp : posmapOf kind o.span new = .error e) :
    reindex kind o new fv sa fills = .error e ∧
    (kind = .numpy → e = .keyError ∧ ∃ l ∈ new, 1 < countEq l o.span) ∧ kind ≠ .list := by
  refine ⟨by simp [reindex, hc, hp], ?_, ?_⟩
  · intro hk
    subst hk
    unfold posmapOf at hp
    obtain ⟨l, hl, hle⟩ := mapE_error_of _ _ _ hp
    obtain ⟨h1, h2⟩ := positionOf_numpy_error o.span l e hle
    exact ⟨h1, l, hl, h2⟩
  · intro hk
    subst hk
    rw [posmapOf_list] at hp
    exact absurd hp (by simp)

example : reindex .numpy (⟨[5, 5, 6], [("X", ⟨.float, [.f 0, .f 0, .f 0]⟩)], false, ()⟩ : Obj Unit) [6, 5] .none none []
    = .error .keyError := rfl
example : posmapOf .numpy [5, 5, 6] [6, 5] = .error .keyError := rfl

/-- **reindex_spec for every span kind.**  If `reindex` returns `r` — for list-like AND NumPy spans — then the
    lookup answered for every new label, with the first index of the label in the old span (`none` = a new period),
    and every variable, in order and with its dtype, holds at every new position the old value at that index, else
    its fill. -/
theorem reindex_spec_all (kind : SpanKind) (o : Obj M) (new : List Nat) (fv : PyVal) (sa : Option Bool)
    (fills : List (String × PyVal)) (r : Obj M) (h : reindex kind o new fv sa fills = .ok r) :
    posmapOf kind o.span new = .ok (new.map fun l => firstIndex l o.span) ∧
    r.span = new ∧ r.vars.length = o.vars.length ∧
    ∀ (j : Nat) (name : String) (ser : Series), o.vars[j]? = some (name, ser) →
      ∃ data fill, r.vars[j]? = some (name, ⟨ser.dtype, data⟩) ∧ data.length = new.length ∧
        coerce ser.dtype (chosenFill fills fv name) = .ok fill ∧
        ∀ (i : Nat) (l : Nat), new[i]? = some l →
          data[i]? = match firstIndex l o.span with
                     | some k => ser.data[k]?
                     | none => some fill := by
  cases hp : posmapOf kind o.span new with
  | error e =>
    have : reindex kind o new fv sa fills = .error e ∨ reindex kind o new fv sa fills = .error .keyError := by
      unfold reindex
      split
      · exact Or.inr rfl
      · rw [hp]; exact Or.inl rfl
    rcases this with h' | h' <;> rw [h'] at h <;> exact absurd h (by simp)
  | ok pm =>
    obtain ⟨heq, hpm⟩ := reindex_kind_eq_list kind o new fv sa fills pm hp
    rw [heq] at h
    exact ⟨by rw [hpm], reindex_spec o new fv sa fills r h⟩

example : (reindex .numpy (⟨[10, 11, 12], [("X", ⟨.int (-128) 127, [.i 1, .i 2, .i 3]⟩)], false, ()⟩ : Obj Unit)
    [12, 99, 10, 12] .none none []).toOption.map (·.vars) = some [("X", ⟨.int (-128) 127, [.i 3, .i 0, .i 1, .i 3]⟩)] := by
  decide

/-- **Success for every span kind**: on a well-formed object, when the strict check passes, every chosen fill can be
    coerced and the lookup answers for every new label (always for list-like spans; for NumPy spans: no new label
    occurs more than once in the old span), `reindex` returns a result. -/
theorem reindex_succeeds_all (kind : SpanKind) (o : Obj M) (new : List Nat) (fv : PyVal) (sa : Option Bool)
    (fills : List (String × PyVal))
    (hwf : ∀ nv ∈ o.vars, nv.2.data.length = o.span.length)
    (hstrict : (effectiveStrict sa o.strict && hasUnknown fills (o.vars.map (·.1))) = false)
    (hco : ∀ nv ∈ o.vars, ∃ v, coerce nv.2.dtype (chosenFill fills fv nv.1) = .ok v)
    (hlook : ∀ l ∈ new, ∃ p, positionOf kind o.span l = .ok p) :
    ∃ r, reindex kind o new fv sa fills = .ok r := by
  have hp : posmapOf kind o.span new = .ok (new.map fun l => firstIndex l o.span) := by
    unfold posmapOf
    apply mapE_total
    intro l hl
    obtain ⟨p, hp⟩ := hlook l hl
    rw [hp, positionOf_ok kind o.span l p hp]
  rw [(reindex_kind_eq_list kind o new fv sa fills _ hp).1]
  exact reindex_succeeds o new fv sa fills hwf hstrict hco

/-- The lookup of a NumPy span answers exactly when the label occurs at most once in the old span. -/
theorem numpy_lookup_answers (old : List Nat) (l : Nat) :
    (∃ p, positionOf .numpy old l = .ok p) ↔ countEq l old ≤ 1 := by
  unfold positionOf
  simp only
  constructor
  · intro ⟨p, hp⟩
    split at hp
    · assumption
    · simp at hp
  · intro h
    exact ⟨firstIndex l old, by simp [h]⟩

/-- **Success relative to a given position map** (the pandas case): every mapped old position must exist. -/
theorem reindexWith_succeeds (o : Obj M) (new : List Nat) (pm : List (Option Nat)) (fv : PyVal) (sa : Option Bool)
    (fills : List (String × PyVal))
    (hwf : ∀ nv ∈ o.vars, nv.2.data.length = o.span.length)
    (hstrict : (effectiveStrict sa o.strict && hasUnknown fills (o.vars.map (·.1))) = false)
    (hco : ∀ nv ∈ o.vars, ∃ v, coerce nv.2.dtype (chosenFill fills fv nv.1) = .ok v)
    (hpm : ∀ k, some k ∈ pm → k < o.span.length) :
    ∃ r, reindexWith o new pm fv sa fills = .ok r := by
  unfold reindexWith
  simp only [hstrict]
  have : ∀ nv ∈ o.vars, ∃ y, reindexVar new.length pm fills fv nv = .ok y := by
    intro nv hnv
    obtain ⟨v, hv⟩ := hco nv hnv
    unfold reindexVar
    simp only [hv]
    obtain ⟨out, hout⟩ := writeAll_total nv.2.data pm 0 (List.replicate new.length v) (by
      intro k hk
      rw [hwf nv hnv]
      exact hpm k hk)
    exact ⟨(nv.1, ⟨nv.2.dtype, out⟩), by simp [hout, rebuild]⟩
  cases hm : mapE (reindexVar new.length pm fills fv) o.vars with
  | ok vs => exact ⟨_, rfl⟩
  | error e =>
    obtain ⟨nv, hnv, he⟩ := mapE_error_of _ _ _ hm
    obtain ⟨y, hy⟩ := this nv hnv
    rw [hy] at he
    exact absurd he (by simp)

/-- When the strict check passes, the list-like `reindex` never raises KeyError (it has no other source). -/
theorem reindex_list_no_keyError (o : Obj M) (new : List Nat) (fv : PyVal) (sa : Option Bool)
    (fills : List (String × PyVal))
    (hc : (effectiveStrict sa o.strict && hasUnknown fills (o.vars.map (·.1))) = false) :
    reindex .list o new fv sa fills ≠ .error .keyError := by
  intro hk
  rw [reindex_list_unfold] at hk
  simp only [hc] at hk
  unfold finish at hk
  cases hm : mapE (reindexVar new.length (new.map fun l => firstIndex l o.span) fills fv) o.vars with
  | ok vs => simp [hm] at hk
  | error e =>
    simp [hm] at hk
    subst hk
    obtain ⟨nv, _, hnv⟩ := mapE_error_of _ _ _ hm
    unfold reindexVar at hnv
    cases hc : coerce nv.2.dtype (chosenFill fills fv nv.1) with
    | error e =>
      simp only [hc] at hnv
      have he : e = .keyError := by injection hnv
      subst he
      exact coerce_ne_keyError _ _ hc
    | ok fill =>
      simp only [hc] at hnv
      unfold rebuild at hnv
      cases hw : writeAll nv.2.data (new.map fun l => firstIndex l o.span) 0 (List.replicate new.length fill) with
      | ok data => simp [hw] at hnv
      | error e =>
        simp [hw] at hnv
        subst hnv
        -- `writeAll` only raises IndexError
        have : ∀ (ps : List (Option Nat)) (i : Nat) (dst : List Val),
            writeAll nv.2.data ps i dst ≠ .error .keyError := by
          intro ps
          induction ps with
          | nil => intro i dst; simp [writeAll]
          | cons p ps ih =>
            intro i dst
            cases p with
            | none => simp only [writeAll]; exact ih _ _
            | some k =>
              simp only [writeAll]
              cases nv.2.data[k]? with
              | none => simp
              | some v => exact ih _ _
        exact this _ _ _ hw

/-- **reindex_strict_unknown for every span kind**: a KeyError has exactly two possible causes — an unknown fill
    keyword under effective strictness, or the span's own lookup raising KeyError (NumPy: duplicate label). -/
theorem reindex_keyError_cause (kind : SpanKind) (o : Obj M) (new : List Nat) (fv : PyVal) (sa : Option Bool)
    (fills : List (String × PyVal)) (h : reindex kind o new fv sa fills = .error .keyError) :
    (effectiveStrict sa o.strict = true ∧ hasUnknown fills (o.vars.map (·.1)) = true) ∨
    posmapOf kind o.span new = .error .keyError := by
  cases hc : (effectiveStrict sa o.strict && hasUnknown fills (o.vars.map (·.1))) with
  | true => left; simpa using hc
  | false =>
    right
    cases hp : posmapOf kind o.span new with
    | error e =>
      have := (reindex_lookup_error kind o new fv sa fills e hc hp).1
      rw [this] at h
      injection h with h
      rw [h]
    | ok pm =>
      rw [(reindex_kind_eq_list kind o new fv sa fills pm hp).1] at h
      exact absurd h (reindex_list_no_keyError o new fv sa fills hc)

/-! ## "The original object is unchanged"; what the result is built from (review)

`reindex` is a FUNCTION of the object: it returns a new value and there is no way for it to modify its argument
— "the original is unchanged" holds by construction of a pure model and is therefore NOT a theorem (nothing to
prove); on the real code it is checked by the oracle (snapshot before/after, identities, `np.shares_memory`,
mutation probes).  What IS proved here is the non-trivial half — that the result is built ONLY from the old
store's values and the fill, variable by variable:

* `reindex_elements_from_old_or_fill` — every element of every result series is an element of the SAME variable's
  old series, or that variable's fill;
* `reindex_series_local` — the result series of a variable depends on nothing but that variable's old series, the
  two spans and the fill arguments (not on the other variables, not on `extra`);
* `copy_loop_natural` — the copy loop commutes with every relabelling of the values: it moves values, it never
  inspects or combines them (the model has no array identities; this is the frame statement it can express). -/

theorem reindex_elements_from_old_or_fill (kind : SpanKind) (o : Obj M) (new : List Nat) (fv : PyVal)
    (sa : Option Bool) (fills : List (String × PyVal)) (r : Obj M) (h : reindex kind o new fv sa fills = .ok r)
    (j : Nat) (name : String) (ser : Series) (hj : o.vars[j]? = some (name, ser)) :
    ∃ data fill, r.vars[j]? = some (name, ⟨ser.dtype, data⟩) ∧
      coerce ser.dtype (chosenFill fills fv name) = .ok fill ∧ ∀ v ∈ data, v ∈ ser.data ∨ v = fill := by
  obtain ⟨_, _, _, hs⟩ := reindex_spec_all kind o new fv sa fills r h
  obtain ⟨data, fill, hr, hlen, hc, hd⟩ := hs j name ser hj
  refine ⟨data, fill, hr, hc, ?_⟩
  intro v hv
  obtain ⟨i, hi, hiv⟩ := List.getElem_of_mem hv
  have hin : i < new.length := by omega
  have hd' := hd i (new[i]'hin) (List.getElem?_eq_getElem hin)
  rw [List.getElem?_eq_getElem hi, hiv] at hd'
  cases hf : firstIndex (new[i]'hin) o.span with
  | none => rw [hf] at hd'; right; exact (Option.some.inj hd')
  | some k =>
    rw [hf] at hd'
    left
    exact List.mem_of_getElem? hd'.symm

theorem reindex_series_local (kind : SpanKind) (o o' : Obj M) (new : List Nat) (fv : PyVal) (sa sa' : Option Bool)
    (fills : List (String × PyVal)) (r r' : Obj M)
    (h : reindex kind o new fv sa fills = .ok r) (h' : reindex kind o' new fv sa' fills = .ok r')
    (hspan : o.span = o'.span) (j : Nat) (hj : o.vars[j]? = o'.vars[j]?) :
    r.vars[j]? = r'.vars[j]? := by
  obtain ⟨_, _, hl, hs⟩ := reindex_spec_all kind o new fv sa fills r h
  obtain ⟨_, _, hl', hs'⟩ := reindex_spec_all kind o' new fv sa' fills r' h'
  cases hv : o.vars[j]? with
  | none =>
    have h1 : r.vars[j]? = none := by rw [List.getElem?_eq_none_iff] at hv ⊢; omega
    have h2 : r'.vars[j]? = none := by rw [hj, List.getElem?_eq_none_iff] at hv; rw [List.getElem?_eq_none_iff]; omega
    rw [h1, h2]
  | some nv =>
    obtain ⟨name, ser⟩ := nv
    obtain ⟨data, fill, hr, hlen, hc, hd⟩ := hs j name ser hv
    obtain ⟨data', fill', hr', hlen', hc', hd'⟩ := hs' j name ser (by rw [← hj]; exact hv)
    have hf : fill = fill' := by rw [hc] at hc'; exact (Except.ok.inj hc')
    have : data = data' := by
      apply List.ext_getElem?
      intro i
      by_cases hi : i < new.length
      · rw [hd i (new[i]'hi) (List.getElem?_eq_getElem hi), hd' i (new[i]'hi) (List.getElem?_eq_getElem hi), hspan, hf]
      · rw [List.getElem?_eq_none (by omega), List.getElem?_eq_none (by omega)]
    rw [hr, hr', this]

theorem copy_loop_natural (g : Val → Val) (src : List Val) (ps : List (Option Nat)) (n : Nat) (fill : Val) :
    writeAll (src.map g) ps 0 (List.replicate n (g fill)) = (writeAll src ps 0 (List.replicate n fill)).map (List.map g) := by
  have := writeAll_map g src ps 0 (List.replicate n fill)
  simpa using this

example : writeAll [.i 1, .i 2, .i 3] [some 2, none, some 0] 0 (List.replicate 3 (.i 7)) = .ok [.i 3, .i 7, .i 1] := rfl

/-! ### Non-vacuity of the generalised theorems (same objects `exO` / `exR` as above) -/

-- reindex_spec_all / reindex_elements_from_old_or_fill: the hypothesis holds for a NumPy span
theorem exR_numpy : reindex .numpy exO [12, 99, 10, 12] .none none [("S", .s ['-'])] = .ok exR := rfl
example : posmapOf .numpy exO.span [12, 99, 10, 12] = .ok [some 2, none, some 0, some 2] :=
  (reindex_spec_all .numpy exO _ _ _ _ exR exR_numpy).1
example : ∃ data fill, exR.vars[0]? = some ("X", ⟨.int (-128) 127, data⟩) ∧
    coerce (.int (-128) 127) (chosenFill [("S", .s ['-'])] .none "X") = .ok fill ∧ ∀ v ∈ data, v ∈ [Val.i 1, .i 2, .i 3] ∨ v = fill :=
  reindex_elements_from_old_or_fill .numpy exO _ _ _ _ exR exR_numpy 0 "X" _ rfl
-- reindex_succeeds_all: all four hypotheses hold (NumPy span without duplicates) …
example : ∃ r, reindex .numpy exO [12, 99, 10, 12] .none none [("S", .s ['-'])] = .ok r :=
  reindex_succeeds_all .numpy exO _ _ _ _ (by decide) (by decide) (by
    intro nv h
    simp only [exO, List.mem_cons, List.not_mem_nil, or_false] at h
    rcases h with rfl | rfl <;> exact ⟨_, rfl⟩) (by
    intro l hl
    exact (numpy_lookup_answers exO.span l).mpr (by
      simp only [List.mem_cons, List.not_mem_nil, or_false] at hl
      rcases hl with rfl | rfl | rfl | rfl <;> decide))
-- … and `hlook` is a real restriction: with a duplicate label in a NumPy old span the lookup, and reindex, raise
example : ¬ ∃ p, positionOf .numpy [5, 5, 6] 5 = .ok p := by
  rw [numpy_lookup_answers]; decide
example : posmapOf .numpy [5, 5, 6] [6, 5] = .error .keyError ∧
    reindex .numpy (⟨[5, 5, 6], [("X", ⟨.float, [.f 0, .f 0, .f 0]⟩)], false, ()⟩ : Obj Unit) [6, 5] .none none [] = .error .keyError :=
  ⟨rfl, rfl⟩
-- reindex_keyError_cause: both causes occur
example : reindex .numpy (⟨[5, 5, 6], [("X", ⟨.float, [.f 0, .f 0, .f 0]⟩)], false, ()⟩ : Obj Unit) [6, 5] .none none [] = .error .keyError ∧
    reindex .numpy (⟨[1, 2], [("X", ⟨.float, [.f 0, .f 0]⟩)], true, ()⟩ : Obj Unit) [2, 3] .none none [("Q", .i 1)] = .error .keyError :=
  ⟨rfl, rfl⟩
-- reindexWith_spec / reindexWith_succeeds: a table (pandas-style) position map
example : ∃ r, reindexWith exO [12, 99, 10, 12] [some 2, none, some 0, some 2] .none none [("S", .s ['-'])] = .ok r :=
  reindexWith_succeeds exO _ _ _ _ _ (by decide) (by decide) (by
    intro nv h
    simp only [exO, List.mem_cons, List.not_mem_nil, or_false] at h
    rcases h with rfl | rfl <;> exact ⟨_, rfl⟩) (by
    intro k hk
    simp only [List.mem_cons, List.not_mem_nil, or_false] at hk
    rcases hk with h | h | h | h <;> simp at h <;> subst h <;> decide)
-- reindex_series_local: two different objects that agree on variable 0 (other variable, strict flag differ)
example : (reindex .list exO [12, 10] .none none []).toOption.map (·.vars[0]?) =
    (reindex .list (⟨[10, 11, 12], [("X", ⟨.int (-128) 127, [.i 1, .i 2, .i 3]⟩), ("Z", ⟨.bool, [.b true, .b true, .b false]⟩)], true, ()⟩ : Obj Unit)
      [12, 10] .none none []).toOption.map (·.vars[0]?) := by decide
-- copy_loop_natural: relabelling i ↦ i + 100
example : writeAll ([Val.i 1, .i 2, .i 3].map fun v => match v with | .i x => .i (x + 100) | w => w) [some 2, none, some 0] 0
    (List.replicate 3 (.i 107)) = .ok [.i 103, .i 107, .i 101] := rfl

end Fsic.C12
