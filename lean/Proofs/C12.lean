import Proofs.Lemmas.Reindex
import FsicModel.Generated
/-
C12 — reindex preserves overlapping periods and fills the rest, on a fresh object.

Property theorems over the model of `VectorContainer.reindex` / `BaseModel.reindex` (`FsicModel/Reindex.lean`),
for every object (any number of variables of any dtypes, any values), every old and new span (permuted, disjoint,
shrunk, extended, with repeated labels), every `fill_value` / keyword fills / `strict` combination.

NOT a theorem here: "the original object is unchanged and shares nothing with the result".  In this functional
model the original is an immutable value and the result is built by `{ o with … }`, so "unchanged" holds by
construction of the model, not by proof; aliasing needs the heap model (C11, `Heap.lean`, built separately).
Both are checked on the real code by the C12 oracle (state snapshot before/after, `id` / `np.shares_memory` of
every reachable array and list, mutate-one-side-observe-the-other).
-/
set_option linter.unusedSimpArgs false
namespace Fsic.C12
open Fsic.Reindex

variable {M : Type}

/-- `reindex` for list-like spans, unfolded once: strict check, then `reindexWith` on the `list.index` map. -/
theorem reindex_list_unfold (o : Obj M) (new : List Nat) (fv : PyVal) (sa : Option Bool)
    (fills : List (String × PyVal)) :
    reindex .list o new fv sa fills =
      if effectiveStrict sa o.strict && hasUnknown fills (o.vars.map (·.1)) then .error .keyError
      else finish o new (mapE (reindexVar new.length (new.map fun l => firstIndex l o.span) fills fv) o.vars) := by
  unfold reindex reindexWith
  rw [posmapOf_list]
  by_cases h : (effectiveStrict sa o.strict && hasUnknown fills (o.vars.map (·.1))) = true <;> simp [h]

/-- **reindex_spec.**  If `reindex` returns `r` then the span of `r` is the new span and, for every variable
    (`status` and `iterations` of a model are ordinary variables), in the original order and with the original
    dtype, every new position `i` holds
      * the old value at the FIRST occurrence of the label `new[i]` in the old span, if the label occurs there;
      * otherwise the variable's fill value: `coerce dtype (keyword fill if given, else fill_value)`, where
        `None` coerces to the dtype default (`fill_default_table`). -/
theorem reindex_spec (o : Obj M) (new : List Nat) (fv : PyVal) (sa : Option Bool) (fills : List (String × PyVal))
    (r : Obj M) (h : reindex .list o new fv sa fills = .ok r) :
    r.span = new ∧ r.vars.length = o.vars.length ∧
    ∀ (j : Nat) (name : String) (ser : Series), o.vars[j]? = some (name, ser) →
      ∃ data fill, r.vars[j]? = some (name, ⟨ser.dtype, data⟩) ∧ data.length = new.length ∧
        coerce ser.dtype (chosenFill fills fv name) = .ok fill ∧
        ∀ (i : Nat) (l : Nat), new[i]? = some l →
          data[i]? = match firstIndex l o.span with
                     | some k => ser.data[k]?
                     | none => some fill := by
  rw [reindex_list_unfold] at h
  split at h
  · exact absurd h (by simp)
  · unfold finish at h
    cases hm : mapE (reindexVar new.length (new.map fun l => firstIndex l o.span) fills fv) o.vars with
    | error e => simp [hm] at h
    | ok vs =>
      simp [hm] at h
      subst h
      obtain ⟨hl, hj⟩ := mapE_ok _ _ _ hm
      refine ⟨rfl, hl, ?_⟩
      intro j name ser hjv
      obtain ⟨y, hy, hfy⟩ := hj j (name, ser) hjv
      unfold reindexVar at hfy
      simp only at hfy
      cases hc : coerce ser.dtype (chosenFill fills fv name) with
      | error e => simp [hc] at hfy
      | ok fill =>
        simp only [hc] at hfy
        unfold rebuild at hfy
        cases hw : writeAll ser.data (new.map fun l => firstIndex l o.span) 0 (List.replicate new.length fill) with
        | error e => simp [hw] at hfy
        | ok data =>
          simp [hw] at hfy
          subst hfy
          obtain ⟨hlen, hwr⟩ := writeAll_spec _ _ _ _ _ hw
          refine ⟨data, fill, hy, by simpa using hlen, rfl, ?_⟩
          intro i l hil
          have hi : i < new.length := by
            by_cases hi : i < new.length
            · exact hi
            · rw [List.getElem?_eq_none (by omega)] at hil; exact absurd hil (by simp)
          rw [hwr i (by simpa using hi)]
          unfold written
          simp only [Nat.zero_le, if_true, Nat.sub_zero, List.getElem?_map, hil, Option.map_some]
          cases firstIndex l o.span with
          | none => simp [hi]
          | some k => rfl

example :
    (reindex .list (⟨[10, 11, 12], [("X", ⟨.int (-128) 127, [.i 1, .i 2, .i 3]⟩), ("S", ⟨.str 1, [.s ['.'], .s ['.'], .s ['F']]⟩)],
        false, ()⟩ : Obj Unit) [12, 99, 10, 12] .none none [("S", .s ['-'])]).toOption.map (·.vars) =
    some [("X", ⟨.int (-128) 127, [.i 3, .i 0, .i 1, .i 3]⟩), ("S", ⟨.str 1, [.s ['F'], .s ['-'], .s ['.'], .s ['F']]⟩)] := by
  decide

/-- `firstIndex` is Python's `list.index`: the first position holding the label; `none` iff the label is absent
    (`period in self.span` is False). -/
theorem first_occurrence (l : Nat) (old : List Nat) :
    (∀ k, firstIndex l old = some k → old[k]? = some l ∧ ∀ j, j < k → old[j]? ≠ some l) ∧
    (firstIndex l old = none ↔ l ∉ old) :=
  ⟨fun k h => firstIndex_some l old k h, firstIndex_none l old⟩

example : firstIndex 7 [5, 7, 6, 7] = some 1 := by decide

/-- The dtype defaults: NaN, 0, False, ''. -/
theorem fill_default_table :
    coerce .float .none = .ok (.f nanBits) ∧ (∀ lo hi, coerce (.int lo hi) .none = .ok (.i 0)) ∧
    coerce .bool .none = .ok (.b false) ∧ ∀ w, coerce (.str w) .none = .ok (.s []) :=
  ⟨rfl, fun _ _ => rfl, rfl, fun _ => rfl⟩

/-- The dtype default for EVERY integer-like dtype — every kind that takes the integer arm (`int8 … int64`,
    `uint8 … uint64`), whatever its width — is 0, for bool False, for every `<U` width '', for bytes b''. -/
theorem default_by_kind (kind : Char) (size : Nat) (casts : List (PyVal × Option Val)) :
    (branchOf kind = .int → coerce (mkDType kind size casts) .none = .ok (.i 0)) ∧
    (branchOf kind = .bool → coerce (mkDType kind size casts) .none = .ok (.b false)) ∧
    (branchOf kind = .str → coerce (mkDType kind size casts) .none = .ok (.s [])) ∧
    (branchOf kind = .bytes → coerce (mkDType kind size casts) .none = .ok (.y [])) := by
  refine ⟨?_, ?_, ?_, ?_⟩ <;> intro h <;> simp [mkDType, h, coerce, defaultFill]

/-- **Reflected: the model's branch function is the code's `if/elif` chain.**  For every dtype of the probed
    catalogue (`Generated.reindexProbes`, rewritten from the imported fsic on every run) that the model treats
    itself — bool, every integer width signed and unsigned, timedelta64, every `<U`, bytes, float64 — what the real
    `reindex` put into a new period with no fill value, and with `fill_value=2.9`, is what the model computes. -/
theorem reflected_branches :
    ∀ e ∈ Fsic.Generated.reindexProbes,
      (branchOf e.2.1 ≠ .passthrough ∨ (e.2.1 = 'f' ∧ e.2.2.1 = 8)) →
        encode (coerce (mkDType e.2.1 e.2.2.1 []) .none) = e.2.2.2.1 ∧
        (branchOf e.2.1 ≠ .bytes →     -- (a given fill value of a bytes series is cast by NumPy: an input)
          encode (coerce (mkDType e.2.1 e.2.2.1 []) (.f 4613712638259704627 (some 2) ['2', '.', '9'])) = e.2.2.2.2) := by
  decide

/-- **Reflected: the code's defaults are the property's table** (False, 0, NaN, '') for every probed dtype of a kind
    the table speaks about: bool, all signed and unsigned integer widths, float16/32/64, complex64/128, `<U`, bytes
    ('' ↔ b''). -/
theorem reflected_property_defaults :
    ∀ e ∈ Fsic.Generated.reindexProbes, ∀ d, propertyDefault e.2.1 = some d → e.2.2.2.1 = d := by
  decide

example : ("int32", 'i', 4, ("i", (0 : Int), false, ([] : List Char)), ("i", (2 : Int), false, ([] : List Char))) ∈
    Fsic.Generated.reindexProbes := by decide

/-- **Fill precedence**: the per-variable keyword if given, else `fill_value`; (and `None` — from either place —
    means the dtype default). -/
theorem fill_precedence (fills : List (String × PyVal)) (fv : PyVal) (name : String) :
    (∀ v, fills.lookup name = some v → chosenFill fills fv name = v) ∧
    (fills.lookup name = none → chosenFill fills fv name = fv) := by
  constructor
  · intro v h; simp [chosenFill, h]
  · intro h; simp [chosenFill, h]

/-- **Models**: `status` defaults to '-' and `iterations` to -1 — whatever `fill_value` is — unless overridden
    by keyword; every other keyword fill is passed on unchanged. -/
theorem model_defaults (fills : List (String × PyVal)) (fv : PyVal) :
    chosenFill (modelFills fills) fv "status" = (fills.lookup "status").getD (.s ['-']) ∧
    chosenFill (modelFills fills) fv "iterations" = (fills.lookup "iterations").getD (.i (-1)) ∧
    ∀ name, name ≠ "status" → name ≠ "iterations" →
      chosenFill (modelFills fills) fv name = chosenFill fills fv name := by
  have hsi : ("status" == "iterations") = false := by decide
  have hstep : ∀ (fs : List (String × PyVal)) (k : String) (v : PyVal) (name : String),
      (setDefault fs k v).lookup name = if name = k then some ((fs.lookup k).getD v) else fs.lookup name := by
    intro fs k v name
    unfold setDefault
    cases hk : fs.lookup k with
    | some w =>
      by_cases hn : name = k
      · subst hn; simp [hk]
      · simp [hn]
    | none =>
      by_cases hn : name = k
      · subst hn; simp [List.lookup_append, hk]
      · have : (name == k) = false := by simpa using hn
        simp [List.lookup_append, hn, List.lookup, this]
  refine ⟨?_, ?_, ?_⟩
  · simp [chosenFill, modelFills, hstep]
  · simp [chosenFill, modelFills, hstep]
  · intro name h1 h2
    simp [chosenFill, modelFills, hstep, h1, h2]

example : chosenFill (modelFills [("X", .i 5)]) (.i 7) "status" = .s ['-'] := by decide
example : chosenFill (modelFills [("status", .s ['E'])]) .none "status" = .s ['E'] := by decide

/-- **reindex_preserves_meta.**  Variable names and their order, dtypes, the `strict` flag and everything else the
    object carries (attributes, lag/lead settings, …: `extra`) are those of the original; the span is the new span. -/
theorem reindex_preserves_meta (kind : SpanKind) (o : Obj M) (new : List Nat) (fv : PyVal) (sa : Option Bool)
    (fills : List (String × PyVal)) (r : Obj M) (h : reindex kind o new fv sa fills = .ok r) :
    r.span = new ∧ r.strict = o.strict ∧ r.extra = o.extra ∧
    r.vars.map (fun nv => (nv.1, nv.2.dtype)) = o.vars.map (fun nv => (nv.1, nv.2.dtype)) := by
  unfold reindex at h
  split at h
  · exact absurd h (by simp)
  · cases hp : posmapOf kind o.span new with
    | error e => simp [hp] at h
    | ok pm =>
      simp only [hp] at h
      unfold reindexWith at h
      split at h
      · exact absurd h (by simp)
      · unfold finish at h
        cases hm : mapE (reindexVar new.length pm fills fv) o.vars with
        | error e => simp [hm] at h
        | ok vs =>
          simp [hm] at h
          subst h
          refine ⟨rfl, rfl, rfl, ?_⟩
          obtain ⟨hl, hj⟩ := mapE_ok _ _ _ hm
          apply List.ext_getElem?
          intro j
          simp only [List.getElem?_map]
          cases hv : o.vars[j]? with
          | none =>
            have : vs[j]? = none := by
              rw [List.getElem?_eq_none_iff] at hv ⊢
              omega
            simp [this]
          | some nv =>
            obtain ⟨y, hy, hfy⟩ := hj j nv hv
            simp only [hy, Option.map_some]
            unfold reindexVar at hfy
            cases hc : coerce nv.2.dtype (chosenFill fills fv nv.1) with
            | error e => simp [hc] at hfy
            | ok fill =>
              simp only [hc] at hfy
              unfold rebuild at hfy
              cases hw : writeAll nv.2.data pm 0 (List.replicate new.length fill) with
              | error e => simp [hw] at hfy
              | ok data =>
                simp [hw] at hfy
                subst hfy
                rfl

/-- The coercion of a fill value never raises KeyError. -/
theorem coerce_ne_keyError (d : DType) (v : PyVal) : coerce d v ≠ .error .keyError := by
  have hi : ∀ lo hi n, intVal lo hi n ≠ .error .keyError := by
    intro lo hi n; unfold intVal; split <;> simp
  have ho : ∀ casts w, castOther casts w ≠ .error .keyError := by
    intro casts w
    unfold castOther
    cases casts.lookup w with
    | none => simp
    | some x => cases x <;> simp
  cases d <;> cases v <;> simp [coerce, hi, ho]
  · rename_i lo hi' bits asInt asStr
    cases asInt <;> simp [coerce, hi]
  · rename_i lo hi' t
    cases EvalIdx.parsePyInt t <;> simp [hi]

/-- **reindex_strict_unknown.**  Under effective strictness (`strict=True`, or `strict=None` on a strict object) a
    fill keyword that names no variable is rejected with KeyError before anything else happens; without
    strictness unknown keywords are never a reason for KeyError (list-like spans: the only KeyError there is). -/
theorem reindex_strict_unknown (kind : SpanKind) (o : Obj M) (new : List Nat) (fv : PyVal) (sa : Option Bool)
    (fills : List (String × PyVal)) :
    (effectiveStrict sa o.strict = true → hasUnknown fills (o.vars.map (·.1)) = true →
      reindex kind o new fv sa fills = .error .keyError) ∧
    (effectiveStrict sa o.strict = false → reindex .list o new fv sa fills ≠ .error .keyError) := by
  constructor
  · intro h1 h2
    simp [reindex, h1, h2]
  · intro h1 hk
    rw [reindex_list_unfold] at hk
    simp only [h1, Bool.false_and] at hk
    unfold finish at hk
    cases hm : mapE (reindexVar new.length (new.map fun l => firstIndex l o.span) fills fv) o.vars with
    | ok vs => simp [hm] at hk
    | error e =>
      simp [hm] at hk
      subst hk
      obtain ⟨nv, _, hnv⟩ := mapE_error_of _ _ _ hm
      unfold reindexVar at hnv
      cases hc : coerce nv.2.dtype (chosenFill fills fv nv.1) with
      | error e =>
        simp only [hc] at hnv
        have he : e = .keyError := by injection hnv
        subst he
        exact coerce_ne_keyError _ _ hc
      | ok fill =>
        simp only [hc] at hnv
        unfold rebuild at hnv
        cases hw : writeAll nv.2.data (new.map fun l => firstIndex l o.span) 0 (List.replicate new.length fill) with
        | ok data => simp [hw] at hnv
        | error e =>
          simp [hw] at hnv
          subst hnv
          -- `writeAll` only raises IndexError
          have : ∀ (ps : List (Option Nat)) (i : Nat) (dst : List Val),
              writeAll nv.2.data ps i dst ≠ .error .keyError := by
            intro ps
            induction ps with
            | nil => intro i dst; simp [writeAll]
            | cons p ps ih =>
              intro i dst
              cases p with
              | none => simp only [writeAll]; exact ih _ _
              | some k =>
                simp only [writeAll]
                cases nv.2.data[k]? with
                | none => simp
                | some v => exact ih _ _
          exact this _ _ _ hw

/-- `strict=None` uses the object's flag; an explicit `strict` wins. -/
theorem effective_strict (b : Bool) : effectiveStrict none b = b ∧ ∀ s, effectiveStrict (some s) b = s :=
  ⟨rfl, fun _ => rfl⟩

example : reindex .list (⟨[1, 2], [("X", ⟨.float, [.f 0, .f 0]⟩)], true, ()⟩ : Obj Unit) [2, 3] .none none
    [("Q", .i 1)] = .error .keyError := rfl
example : (reindex .list (⟨[1, 2], [("X", ⟨.int 0 255, [.i 4, .i 5]⟩)], true, ()⟩ : Obj Unit) [2, 3] .none (some false)
    [("Q", .i 1)]).toOption.map (·.vars) = some [("X", ⟨.int 0 255, [.i 5, .i 0]⟩)] := by decide

/-- **Success.**  On a well-formed object (every series as long as the span — C09's invariant) `reindex` returns
    a result whenever the strict check passes and every chosen fill value can be coerced to its dtype. -/
theorem reindex_succeeds (o : Obj M) (new : List Nat) (fv : PyVal) (sa : Option Bool) (fills : List (String × PyVal))
    (hwf : ∀ nv ∈ o.vars, nv.2.data.length = o.span.length)
    (hstrict : (effectiveStrict sa o.strict && hasUnknown fills (o.vars.map (·.1))) = false)
    (hco : ∀ nv ∈ o.vars, ∃ v, coerce nv.2.dtype (chosenFill fills fv nv.1) = .ok v) :
    ∃ r, reindex .list o new fv sa fills = .ok r := by
  rw [reindex_list_unfold]
  simp only [hstrict]
  have : ∀ nv ∈ o.vars, ∃ y, reindexVar new.length (new.map fun l => firstIndex l o.span) fills fv nv = .ok y := by
    intro nv hnv
    obtain ⟨v, hv⟩ := hco nv hnv
    unfold reindexVar
    simp only [hv]
    obtain ⟨out, hout⟩ := writeAll_total nv.2.data (new.map fun l => firstIndex l o.span) 0
      (List.replicate new.length v) (by
        intro k hk
        simp only [List.mem_map] at hk
        obtain ⟨l, _, hl⟩ := hk
        rw [hwf nv hnv]
        exact firstIndex_lt l o.span k hl)
    exact ⟨(nv.1, ⟨nv.2.dtype, out⟩), by simp [hout, rebuild]⟩
  cases hm : mapE (reindexVar new.length (new.map fun l => firstIndex l o.span) fills fv) o.vars with
  | ok vs => exact ⟨_, rfl⟩
  | error e =>
    obtain ⟨nv, hnv, he⟩ := mapE_error_of _ _ _ hm
    obtain ⟨y, hy⟩ := this nv hnv
    rw [hy] at he
    exact absurd he (by simp)

/-! ## Non-vacuity (review): the hypotheses of the theorems above at a concrete reindex

Old span `[10, 11, 12]`, new span `[12, 99, 10, 12]` (permuted, one absent label, one repeated label), an `int8` and a
`<U1` variable, keyword fill for `S`. -/

def exO : Obj Unit :=
  ⟨[10, 11, 12], [("X", ⟨.int (-128) 127, [.i 1, .i 2, .i 3]⟩), ("S", ⟨.str 1, [.s ['.'], .s ['.'], .s ['F']]⟩)], false, ()⟩
def exR : Obj Unit :=
  ⟨[12, 99, 10, 12], [("X", ⟨.int (-128) 127, [.i 3, .i 0, .i 1, .i 3]⟩), ("S", ⟨.str 1, [.s ['F'], .s ['-'], .s ['.'], .s ['F']]⟩)],
   false, ()⟩
theorem exR_eq : reindex .list exO [12, 99, 10, 12] .none none [("S", .s ['-'])] = .ok exR := rfl

-- reindex_spec / reindex_preserves_meta: `h`
example : exR.span = [12, 99, 10, 12] ∧ exR.vars.length = exO.vars.length :=
  ⟨(reindex_spec _ _ _ _ _ _ exR_eq).1, (reindex_spec _ _ _ _ _ _ exR_eq).2.1⟩
example : ∃ data fill, exR.vars[1]? = some ("S", ⟨.str 1, data⟩) ∧ data.length = 4 ∧
    coerce (.str 1) (chosenFill [("S", .s ['-'])] .none "S") = .ok fill ∧
    ∀ (i l : Nat), ([12, 99, 10, 12] : List Nat)[i]? = some l → data[i]? = match firstIndex l [10, 11, 12] with
      | some k => [Val.s ['.'], .s ['.'], .s ['F']][k]?
      | none => some fill :=
  (reindex_spec _ _ _ _ _ _ exR_eq).2.2 1 "S" ⟨.str 1, [.s ['.'], .s ['.'], .s ['F']]⟩ rfl
example : exR.strict = exO.strict ∧ exR.extra = exO.extra :=
  ⟨(reindex_preserves_meta _ _ _ _ _ _ _ exR_eq).2.1, (reindex_preserves_meta _ _ _ _ _ _ _ exR_eq).2.2.1⟩
-- the same for a NumPy span (unique old labels)
example : (reindex .numpy exO [12, 99, 10, 12] .none none [("S", .s ['-'])]).toOption.map (·.vars) = some exR.vars := by
  decide +kernel
-- default_by_kind: each premise holds of a real NumPy kind character
example : branchOf 'u' = .int ∧ branchOf 'b' = .bool ∧ branchOf 'U' = .str ∧ branchOf 'S' = .bytes := by decide
example : coerce (mkDType 'u' 2 []) .none = .ok (.i 0) := (default_by_kind 'u' 2 []).1 (by decide)
-- reflected_branches / reflected_property_defaults: the premises hold of a probed row
example : ∃ e ∈ Fsic.Generated.reindexProbes, branchOf e.2.1 ≠ .passthrough ∧ branchOf e.2.1 ≠ .bytes ∧
    propertyDefault e.2.1 = some ("i", 0, false, []) :=
  ⟨("uint16", 'u', 2, ("i", 0, false, []), ("i", 2, false, [])), by decide, by decide, by decide, by decide⟩
-- fill_precedence: both premises
example : [("S", PyVal.s ['-'])].lookup "S" = some (.s ['-']) ∧ [("S", PyVal.s ['-'])].lookup "X" = none := by decide
-- reindex_strict_unknown: both premises of the first part, the premise of the second
example : effectiveStrict none true = true ∧ hasUnknown [("Q", .i 1)] ["X"] = true ∧
    effectiveStrict (some false) true = false := by decide
example : reindex .list (⟨[1, 2], [("X", ⟨.float, [.f 0, .f 0]⟩)], true, ()⟩ : Obj Unit) [2, 3] .none none
    [("Q", .i 1)] = .error .keyError :=
  (reindex_strict_unknown .list ⟨[1, 2], [("X", ⟨.float, [.f 0, .f 0]⟩)], true, ()⟩ _ _ _ _).1 (by decide) (by decide)
-- reindex_succeeds: hwf, hstrict, hco
example : ∃ r, reindex .list exO [12, 99, 10, 12] .none none [("S", .s ['-'])] = .ok r :=
  reindex_succeeds exO _ _ _ _ (by decide) (by decide) (by
    intro nv h
    simp only [exO, List.mem_cons, List.not_mem_nil, or_false] at h
    rcases h with rfl | rfl <;> exact ⟨_, rfl⟩)
-- … and a fill value that cannot be coerced (hco fails): `reindex` raises, so `hco` is a real restriction
example : reindex .list exO [12, 99] (.i 1000) none [] = .error .coercion := rfl

end Fsic.C12
