import Proofs.C02
import FsicModel.Linker
import Proofs.Lemmas.LinkerOutcome
import Proofs.Lemmas.LinkerTable
/-
C08 — Linker solves its submodels jointly and consistently.

`lSolveT` (FsicModel/Linker.lean) runs the single-model loop on the composite interpretation `asInterp L sel`
(pre-hook, selected submodels in order, post-hook), so the convergence theorems of C02 apply to it verbatim.
Statements are for every linker interpretation `L`, every selection list, option set, span length and period.
-/
set_option linter.unusedSimpArgs false
set_option linter.unusedVariables false
namespace Fsic.C08
open Fsic

variable {σ V Id : Type} (L : LInterp σ V Id) (o : Opts) (n : Nat) (t : Int)

/-! ### Shape of one linker iteration -/

/-- Logging does not change what the submodel sweep computes … -/
theorem evalSubs_logged_fst (k : Nat) : ∀ (sel : List Id) (u : σ) (l : List (LEvent Id)),
    ((evalSubs (llogged L) o t k sel (u, l)).1.1, (evalSubs (llogged L) o t k sel (u, l)).2)
      = evalSubs L o t k sel u := by
  intro sel
  induction sel with
  | nil => intro u l; rfl
  | cons i rest ih =>
    intro u l
    simp only [evalSubs, llogged]
    rcases h : L.evalSub o u i t k with ⟨u', b⟩
    cases b with
    | true => rfl
    | false => exact ih _ _

theorem llogged_evalSub (u : σ) (l : List (LEvent Id)) (i : Id) (k : Nat) :
    (llogged L).evalSub o (u, l) i t k
      = (((L.evalSub o u i t k).1, l ++ [LEvent.sub i k]), (L.evalSub o u i t k).2) := rfl

theorem llogged_bump (u : σ) (l : List (LEvent Id)) (i : Id) :
    (llogged L).bumpIter (u, l) i t = (L.bumpIter u i t, l) := rfl

/-- … and when no submodel pass raises, exactly one pass of every selected submodel is made, in selection order. -/
theorem evalSubs_logged_events (k : Nat) : ∀ (sel : List Id) (u : σ) (l : List (LEvent Id)),
    (evalSubs L o t k sel u).2 = false →
    (evalSubs (llogged L) o t k sel (u, l)).1.2 = l ++ sel.map (fun i => LEvent.sub i k) := by
  intro sel
  induction sel with
  | nil => intro u l _; simp [evalSubs]
  | cons i rest ih =>
    intro u l h
    simp only [evalSubs, llogged_evalSub] at h ⊢
    rcases hs : L.evalSub o u i t k with ⟨u', b⟩
    rw [hs] at h
    cases b with
    | true => simp at h
    | false =>
      simp only [llogged_bump] at h ⊢
      rw [ih _ _ h]
      simp [List.append_assoc]

/-- **Iteration shape.** One linker iteration that does not raise calls: the linker pre-hook, one evaluation pass
    of every selected submodel in the order selected, then the linker post-hook — nothing else. -/
theorem linker_iteration_shape (sel : List Id) (k : Nat) (u : σ) (l : List (LEvent Id))
    (h1 : (L.evalBefore o u sel t k).2 = false)
    (h2 : (evalSubs L o t k sel (L.evalBefore o u sel t k).1).2 = false) :
    (linkerPass (llogged L) o sel t k (u, l)).1.2
      = l ++ [LEvent.evalBefore k] ++ sel.map (fun i => LEvent.sub i k) ++ [LEvent.evalAfter k] := by
  unfold linkerPass
  have hb : (llogged L).evalBefore o (u, l) sel t k
      = (((L.evalBefore o u sel t k).1, l ++ [LEvent.evalBefore k]), false) := by
    simp only [llogged, h1]
  rw [hb]
  simp only
  have hfst := evalSubs_logged_fst L o t k sel (L.evalBefore o u sel t k).1 (l ++ [LEvent.evalBefore k])
  have hev := evalSubs_logged_events L o t k sel (L.evalBefore o u sel t k).1 (l ++ [LEvent.evalBefore k]) h2
  have h2' : (evalSubs (llogged L) o t k sel ((L.evalBefore o u sel t k).1, l ++ [LEvent.evalBefore k])).2 = false := by
    have := congrArg Prod.snd hfst
    simp only at this
    rw [this]; exact h2
  rcases hx : evalSubs (llogged L) o t k sel ((L.evalBefore o u sel t k).1, l ++ [LEvent.evalBefore k]) with ⟨⟨u2, l2⟩, b⟩
  rw [hx] at hev h2'
  simp only at hev h2'
  subst h2'
  subst hev
  simp [llogged]

/-- Unselected submodels are not evaluated: every submodel pass logged by an iteration is of a selected id. -/
theorem unselected_not_evaluated (sel : List Id) (k : Nat) (u : σ) (l : List (LEvent Id)) (j : Id) (k' : Nat)
    (h1 : (L.evalBefore o u sel t k).2 = false)
    (h2 : (evalSubs L o t k sel (L.evalBefore o u sel t k).1).2 = false)
    (hl : LEvent.sub j k' ∉ l) (hj : j ∉ sel) :
    LEvent.sub j k' ∉ (linkerPass (llogged L) o sel t k (u, l)).1.2 := by
  rw [linker_iteration_shape L o t sel k u l h1 h2]
  simp only [List.mem_append, List.mem_map, List.mem_singleton, not_or]
  refine ⟨⟨⟨hl, by simp⟩, ?_⟩, by simp⟩
  rintro ⟨i, hi, he⟩
  injection he with e1 e2
  exact hj (e1 ▸ hi)

/-! ### Unknown ids, offsets -/

theorem resetAll_keyError (sel : List Id) (u : σ) :
    (resetAll L t sel u).2 = true ↔ sel.any (fun i => !L.known i) = true := by
  induction sel generalizing u with
  | nil => simp [resetAll]
  | cons i rest ih =>
    simp only [resetAll, List.any_cons]
    by_cases hk : L.known i = true
    · simp [hk, ih]
    · simp [hk]

/-- An unknown submodel id raises KeyError (whatever the offset). -/
theorem unknown_id_keyerror (sel : List Id) (w : World σ) (h : sel.any (fun i => !L.known i) = true) :
    (lSolveT L o n t sel w).2 = .keyError := by
  unfold lSolveT
  by_cases ho : o.offset ≠ 0
  · simp [ho, h]
  · simp only [ho, if_false]
    unfold lCore
    have := (resetAll_keyError L t sel w.user).2 h
    rcases hr : resetAll L t sel w.user with ⟨u2, b⟩
    rw [hr] at this
    simp only at this
    subst this
    rfl

/-- A non-zero offset inside the span seeds period `t` from `t + offset` (linker and selected submodels) before
    anything else is read … -/
theorem linker_offset_seeds (sel : List Id) (w : World σ) (hk : sel.any (fun i => !L.known i) = false)
    (ho : o.offset ≠ 0) (h1 : 0 ≤ normT n t + o.offset) (h2 : normT n t + o.offset < n) :
    lSolveT L o n t sel w = lCore L o n t sel w (L.copyOffset w.user sel t o.offset) := by
  have h1' : ¬ normT n t + o.offset < 0 := by omega
  have h2' : ¬ normT n t + o.offset ≥ n := by omega
  simp [lSolveT, ho, hk, h1', h2']

/-- … and one pointing outside the span raises IndexError with no change, as for a single model. -/
theorem linker_offset_oob (sel : List Id) (w : World σ) (hk : sel.any (fun i => !L.known i) = false)
    (ho : o.offset ≠ 0) (h : normT n t + o.offset < 0 ∨ normT n t + o.offset ≥ n) :
    lSolveT L o n t sel w = (w, .indexError) := by
  simp [lSolveT, ho, hk, h]

/-! ### Convergence, statuses and counts -/

/-- The call gets as far as the iteration loop. -/
theorem lSolveT_eq_finish (sel : List Id) (w : World σ) (u1 : σ)
    (hseed : lSolveT L o n t sel w = lCore L o n t sel w u1)
    (hreset : (resetAll L t sel u1).2 = false)
    (hb : (L.solveBefore o (resetAll L t sel u1).1 sel t).2 = false) :
    lSolveT L o n t sel w =
      lfinish L o n t sel w
        (loop (asInterp L sel) o t o.maxIter.toNat 1 (L.solveBefore o (resetAll L t sel u1).1 sel t).1
          (L.check u1 sel t)) := by
  rw [hseed]
  unfold lCore
  have e1 : resetAll L t sel u1 = ((resetAll L t sel u1).1, false) := Prod.ext rfl hreset
  rw [e1]
  simp only
  have e2 : L.solveBefore o (resetAll L t sel u1).1 sel t
      = ((L.solveBefore o (resetAll L t sel u1).1 sel t).1, false) := Prod.ext rfl hb
  rw [e2]

/-- **Solved.** If `k0` is the first iteration with `max(1, min_iter) ≤ k0 ≤ max_iter` at which every check
    variable of the linker and of every selected submodel is `close` to its previous value (and nothing raises),
    the post-hook runs, the SAME status '.' is stamped on the linker and on each selected submodel, the linker's
    iteration count is `k0`, and the call returns True. -/
theorem linker_converges (sel : List Id) (w : World σ) (u1 : σ)
    (hseed : lSolveT L o n t sel w = lCore L o n t sel w u1)
    (hreset : (resetAll L t sel u1).2 = false)
    (hb : (L.solveBefore o (resetAll L t sel u1).1 sel t).2 = false)
    (k0 : Nat) (h1 : 1 ≤ k0) (hk : (k0 : Int) ≤ o.maxIter)
    (hev : ∀ i, i < k0 →
      (linkerPass L o sel t (i + 1)
        (traj (asInterp L sel) o t (L.solveBefore o (resetAll L t sel u1).1 sel t).1 i)).2 = false)
    (hleast : ∀ i, 0 < i → i < k0 →
      ¬ Good (asInterp L sel) o t (L.solveBefore o (resetAll L t sel u1).1 sel t).1 (L.check u1 sel t) i)
    (hgood : Good (asInterp L sel) o t (L.solveBefore o (resetAll L t sel u1).1 sel t).1 (L.check u1 sel t) k0)
    (ha : (L.solveAfter o (traj (asInterp L sel) o t (L.solveBefore o (resetAll L t sel u1).1 sel t).1 k0)
            sel t k0).2 = false) :
    lSolveT L o n t sel w =
      (stamp (withUser w (stampSubs L t .solved sel
          (L.solveAfter o (traj (asInterp L sel) o t (L.solveBefore o (resetAll L t sel u1).1 sel t).1 k0)
            sel t k0).1)) n t .solved k0,
       .ret true) := by
  rw [lSolveT_eq_finish L o n t sel w u1 hseed hreset hb]
  have hl := loop_converges (asInterp L sel) o t (L.solveBefore o (resetAll L t sel u1).1 sel t).1
    (L.check u1 sel t) o.maxIter.toNat 0 k0 (by omega) (by omega) (fun i _ h => hev i h)
    (fun i _ _ => rfl) (fun i h h' => hleast i h h') hgood
  simp only [traj, cv, Nat.zero_add] at hl
  rw [hl]
  unfold afterOut
  have hae : (asInterp L sel).after o
        (traj (asInterp L sel) o t (L.solveBefore o (resetAll L t sel u1).1 sel t).1 k0) t k0
      = ((L.solveAfter o (traj (asInterp L sel) o t (L.solveBefore o (resetAll L t sel u1).1 sel t).1 k0)
            sel t k0).1, false) := Prod.ext rfl ha
  rw [hae]
  simp [lfinish]

/-- **Not solved.** If no iteration up to `max_iter` is accepted, all `max_iter` iterations run, the post-hook
    does not, 'F' is stamped on the linker and on each selected submodel with the linker's count `max_iter`;
    NonConvergenceError iff `failures='raise'`. -/
theorem linker_fails (sel : List Id) (w : World σ) (u1 : σ)
    (hseed : lSolveT L o n t sel w = lCore L o n t sel w u1)
    (hreset : (resetAll L t sel u1).2 = false)
    (hb : (L.solveBefore o (resetAll L t sel u1).1 sel t).2 = false)
    (hev : ∀ i, i < o.maxIter.toNat →
      (linkerPass L o sel t (i + 1)
        (traj (asInterp L sel) o t (L.solveBefore o (resetAll L t sel u1).1 sel t).1 i)).2 = false)
    (hnone : ∀ i, 0 < i → i ≤ o.maxIter.toNat →
      ¬ Good (asInterp L sel) o t (L.solveBefore o (resetAll L t sel u1).1 sel t).1 (L.check u1 sel t) i) :
    lSolveT L o n t sel w =
      (stamp (withUser w (stampSubs L t .failed sel
          (traj (asInterp L sel) o t (L.solveBefore o (resetAll L t sel u1).1 sel t).1 o.maxIter.toNat)))
          n t .failed (o.maxIter.toNat : Nat),
       if o.failRaise = true then .nonConvergence else .ret false) := by
  rw [lSolveT_eq_finish L o n t sel w u1 hseed hreset hb]
  have hl := loop_exhausts (asInterp L sel) o t (L.solveBefore o (resetAll L t sel u1).1 sel t).1
    (L.check u1 sel t) o.maxIter.toNat 0 (fun i _ h => hev i (by omega)) (fun i _ _ => rfl)
    (fun i h h' => hnone i h (by omega))
  simp only [traj, cv, Nat.zero_add] at hl
  rw [hl]
  simp [lfinish]

/-! ### The same status on every selected submodel; unselected ones not re-stamped; iteration counts -/

/-- What can be observed of a submodel's bookkeeping, with the get-after-set laws the stores obey. -/
structure Lawful (subStatus : σ → Id → Status) (subIter : σ → Id → Int) : Prop where
  stamp_same : ∀ u i s, subStatus (L.stampSub u i t s) i = s
  stamp_other : ∀ u i j s, j ≠ i → subStatus (L.stampSub u i t s) j = subStatus u j
  bump_same : ∀ u i, subIter (L.bumpIter u i t) i = subIter u i + 1
  bump_other : ∀ u i j, j ≠ i → subIter (L.bumpIter u i t) j = subIter u j
  /-- a submodel's evaluation pass does not touch iteration counters -/
  eval_iter : ∀ o u i k j, subIter (L.evalSub o u i t k).1 j = subIter u j

theorem stampSubs_selected (subStatus : σ → Id → Status) (subIter : σ → Id → Int)
    (hl : Lawful L t subStatus subIter) [DecidableEq Id] (s : Status) :
    ∀ (sel : List Id) (u : σ) (i : Id), i ∈ sel → subStatus (stampSubs L t s sel u) i = s := by
  intro sel
  induction sel with
  | nil => intro u i h; simp at h
  | cons j rest ih =>
    intro u i h
    simp only [stampSubs]
    by_cases hin : i ∈ rest
    · exact ih _ _ hin
    · have hij : i = j := by
        rcases List.mem_cons.mp h with h | h
        · exact h
        · exact absurd h hin
      subst hij
      have : ∀ (l : List Id) (u' : σ), i ∉ l → subStatus (stampSubs L t s l u') i = subStatus u' i := by
        intro l
        induction l with
        | nil => intro u' _; rfl
        | cons a l ih2 =>
          intro u' hn
          simp only [stampSubs]
          rw [ih2 _ (fun h => hn (List.mem_cons_of_mem _ h))]
          exact hl.stamp_other _ _ _ _ (fun e => hn (e ▸ List.mem_cons_self))
      rw [this rest _ hin]
      exact hl.stamp_same _ _ _

/-- Unselected submodels are not re-stamped. -/
theorem stampSubs_unselected (subStatus : σ → Id → Status) (subIter : σ → Id → Int)
    (hl : Lawful L t subStatus subIter) (s : Status) :
    ∀ (sel : List Id) (u : σ) (j : Id), j ∉ sel → subStatus (stampSubs L t s sel u) j = subStatus u j := by
  intro sel
  induction sel with
  | nil => intro u j _; rfl
  | cons a l ih =>
    intro u j hn
    simp only [stampSubs]
    rw [ih _ _ (fun h => hn (List.mem_cons_of_mem _ h))]
    exact hl.stamp_other _ _ _ _ (fun e => hn (e ▸ List.mem_cons_self))

/-- One sweep adds exactly one to the counter of every selected submodel (selected once) and nothing to the
    others — so after `k` iterations from the reset the selected submodels' counts equal the linker's. -/
theorem evalSubs_counts (subStatus : σ → Id → Status) (subIter : σ → Id → Int)
    (hl : Lawful L t subStatus subIter) (k : Nat) :
    ∀ (sel : List Id) (u : σ), sel.Nodup → (evalSubs L o t k sel u).2 = false →
      (∀ i, i ∈ sel → subIter (evalSubs L o t k sel u).1 i = subIter u i + 1) ∧
      (∀ j, j ∉ sel → subIter (evalSubs L o t k sel u).1 j = subIter u j) := by
  intro sel
  induction sel with
  | nil => intro u _ _; exact ⟨fun i h => by simp at h, fun j _ => rfl⟩
  | cons a rest ih =>
    intro u hnd h
    have hnd' := List.nodup_cons.mp hnd
    simp only [evalSubs] at h ⊢
    rcases hs : L.evalSub o u a t k with ⟨u', b⟩
    rw [hs] at h
    cases b with
    | true => simp at h
    | false =>
      simp only at h ⊢
      have hu' : ∀ j, subIter u' j = subIter u j := by
        intro j; have := hl.eval_iter o u a k j; rw [hs] at this; exact this
      obtain ⟨ih1, ih2⟩ := ih (L.bumpIter u' a t) hnd'.2 h
      constructor
      · intro i hi
        rcases List.mem_cons.mp hi with rfl | hi
        · rw [ih2 _ hnd'.1, hl.bump_same, hu']
        · have hne : i ≠ a := fun e => hnd'.1 (e ▸ hi)
          rw [ih1 _ hi, hl.bump_other _ _ _ hne, hu']
      · intro j hj
        have hne : j ≠ a := fun e => hj (e ▸ List.mem_cons_self)
        rw [ih2 _ (fun h => hj (List.mem_cons_of_mem _ h)), hl.bump_other _ _ _ hne, hu']

/-! ### Iteration counts of the selected submodels equal the linker's -/

/-- The linker's own hooks leave the submodels' iteration counters alone (they are the user's code; the linker's
    bookkeeping of those counters is `resetIter` / `bumpIter` only). -/
structure HooksKeepIter (subIter : σ → Id → Int) (sel : List Id) : Prop where
  evalBefore : ∀ o u k j, subIter (L.evalBefore o u sel t k).1 j = subIter u j
  evalAfter : ∀ o u k j, subIter (L.evalAfter o u sel t k).1 j = subIter u j

/-- One linker iteration that does not raise adds exactly one to the counter of every selected submodel and nothing
    to the others. -/
theorem linkerPass_counts (subStatus : σ → Id → Status) (subIter : σ → Id → Int)
    (hl : Lawful L t subStatus subIter) (sel : List Id) (hk : HooksKeepIter L t subIter sel) (hnd : sel.Nodup)
    (k : Nat) (u : σ) (h : (linkerPass L o sel t k u).2 = false) :
    (∀ i, i ∈ sel → subIter (linkerPass L o sel t k u).1 i = subIter u i + 1) ∧
    (∀ j, j ∉ sel → subIter (linkerPass L o sel t k u).1 j = subIter u j) := by
  unfold linkerPass at h ⊢
  have hb := hk.evalBefore o u k
  rcases hb1 : L.evalBefore o u sel t k with ⟨u1, b1⟩
  rw [hb1] at h hb
  cases b1 with
  | true => simp at h
  | false =>
    simp only at h hb ⊢
    rcases hs : evalSubs L o t k sel u1 with ⟨u2, b2⟩
    rw [hs] at h
    cases b2 with
    | true => simp at h
    | false =>
      simp only at h ⊢
      have hc := evalSubs_counts L o t subStatus subIter hl k sel u1 hnd (by rw [hs])
      rw [hs] at hc
      have ha := hk.evalAfter o u2 k
      constructor
      · intro i hi; rw [ha, hc.1 i hi, hb]
      · intro j hj; rw [ha, hc.2 j hj, hb]

/-- After `k` iterations none of which raised, every selected submodel's counter has advanced by exactly `k` (so, from
    the reset to 0 at the start of `solve_t`, it equals the linker's iteration count), and no other counter moved. -/
theorem linker_counts_after (subStatus : σ → Id → Status) (subIter : σ → Id → Int)
    (hl : Lawful L t subStatus subIter) (sel : List Id) (hk : HooksKeepIter L t subIter sel) (hnd : sel.Nodup)
    (u0 : σ) : ∀ (k : Nat),
      (∀ i, i < k → ((asInterp L sel).eval o (traj (asInterp L sel) o t u0 i) t (i + 1)).2 = false) →
      (∀ i, i ∈ sel → subIter (traj (asInterp L sel) o t u0 k) i = subIter u0 i + k) ∧
      (∀ j, j ∉ sel → subIter (traj (asInterp L sel) o t u0 k) j = subIter u0 j) := by
  intro k
  induction k with
  | zero => intro _; exact ⟨fun i _ => by simp [traj], fun j _ => rfl⟩
  | succ k ih =>
    intro hev
    obtain ⟨ih1, ih2⟩ := ih (fun i hi => hev i (by omega))
    have hstep := linkerPass_counts L o t subStatus subIter hl sel hk hnd (k + 1)
      (traj (asInterp L sel) o t u0 k) (hev k (Nat.lt_succ_self _))
    constructor
    · intro i hi
      show subIter (linkerPass L o sel t (k + 1) (traj (asInterp L sel) o t u0 k)).1 i = _
      rw [hstep.1 i hi, ih1 i hi]; push_cast; omega
    · intro j hj
      show subIter (linkerPass L o sel t (k + 1) (traj (asInterp L sel) o t u0 k)).1 j = _
      rw [hstep.2 j hj, ih2 j hj]

/-- The remaining get/set laws of the submodels' bookkeeping: the reset, and who leaves the counters alone. -/
structure CountLaws (subIter : σ → Id → Int) (sel : List Id) : Prop where
  reset_same : ∀ u i, subIter (L.resetIter u i t) i = 0
  reset_other : ∀ u i j, j ≠ i → subIter (L.resetIter u i t) j = subIter u j
  stamp_iter : ∀ u i s j, subIter (L.stampSub u i t s) j = subIter u j
  solveBefore : ∀ o u j, subIter (L.solveBefore o u sel t).1 j = subIter u j
  solveAfter : ∀ o u k j, subIter (L.solveAfter o u sel t k).1 j = subIter u j

theorem resetAll_zero (subIter : σ → Id → Int) (sel0 : List Id) (hc : CountLaws L t subIter sel0) [DecidableEq Id] :
    ∀ (sel : List Id) (u : σ), (resetAll L t sel u).2 = false →
      ∀ i, i ∈ sel → subIter (resetAll L t sel u).1 i = 0 := by
  intro sel
  induction sel with
  | nil => intro u _ i h; simp at h
  | cons a rest ih =>
    intro u h i hi
    simp only [resetAll] at h ⊢
    by_cases hk : L.known a = true
    · simp only [hk, if_true] at h ⊢
      by_cases hin : i ∈ rest
      · exact ih _ h i hin
      · have hia : i = a := by
          rcases List.mem_cons.mp hi with h' | h'
          · exact h'
          · exact absurd h' hin
        subst hia
        have keep : ∀ (l : List Id) (u' : σ), i ∉ l → (resetAll L t l u').2 = false →
            subIter (resetAll L t l u').1 i = subIter u' i := by
          intro l
          induction l with
          | nil => intro u' _ _; rfl
          | cons b l ih2 =>
            intro u' hn hb
            simp only [resetAll] at hb ⊢
            by_cases hkb : L.known b = true
            · simp only [hkb, if_true] at hb ⊢
              rw [ih2 _ (fun h => hn (List.mem_cons_of_mem _ h)) hb]
              exact hc.reset_other _ _ _ (fun e => hn (e ▸ List.mem_cons_self))
            · simp [hkb] at hb
        rw [keep rest _ hin h]
        exact hc.reset_same _ _
    · simp [hk] at h

theorem stampSubs_iter (subIter : σ → Id → Int) (sel0 : List Id) (hc : CountLaws L t subIter sel0) (s : Status) :
    ∀ (sel : List Id) (u : σ) (j : Id), subIter (stampSubs L t s sel u) j = subIter u j := by
  intro sel
  induction sel with
  | nil => intro u j; rfl
  | cons a rest ih => intro u j; simp only [stampSubs]; rw [ih, hc.stamp_iter]

/-- **A solved period: every selected submodel carries the linker's status and the linker's iteration count.**
    Under the conditions of `linker_converges` (first accepted pass `k0`), after `solve_t` each selected submodel's
    status is '.' and its iteration counter equals `k0` — the count stamped on the linker itself. -/
theorem linker_converged_submodels (subStatus : σ → Id → Status) (subIter : σ → Id → Int)
    (hl : Lawful L t subStatus subIter) [DecidableEq Id] (sel : List Id) (hkp : HooksKeepIter L t subIter sel)
    (hc : CountLaws L t subIter sel) (hnd : sel.Nodup) (w : World σ) (u1 : σ)
    (hseed : lSolveT L o n t sel w = lCore L o n t sel w u1)
    (hreset : (resetAll L t sel u1).2 = false)
    (hb : (L.solveBefore o (resetAll L t sel u1).1 sel t).2 = false)
    (k0 : Nat) (h1 : 1 ≤ k0) (hk : (k0 : Int) ≤ o.maxIter)
    (hev : ∀ i, i < k0 →
      (linkerPass L o sel t (i + 1)
        (traj (asInterp L sel) o t (L.solveBefore o (resetAll L t sel u1).1 sel t).1 i)).2 = false)
    (hleast : ∀ i, 0 < i → i < k0 →
      ¬ Good (asInterp L sel) o t (L.solveBefore o (resetAll L t sel u1).1 sel t).1 (L.check u1 sel t) i)
    (hgood : Good (asInterp L sel) o t (L.solveBefore o (resetAll L t sel u1).1 sel t).1 (L.check u1 sel t) k0)
    (ha : (L.solveAfter o (traj (asInterp L sel) o t (L.solveBefore o (resetAll L t sel u1).1 sel t).1 k0)
            sel t k0).2 = false) :
    ∀ i, i ∈ sel →
      subStatus (lSolveT L o n t sel w).1.user i = .solved ∧ subIter (lSolveT L o n t sel w).1.user i = k0 := by
  intro i hi
  rw [linker_converges L o n t sel w u1 hseed hreset hb k0 h1 hk hev hleast hgood ha]
  simp only [stamp_user]
  show subStatus (stampSubs L t .solved sel _) i = .solved ∧ subIter (stampSubs L t .solved sel _) i = k0
  refine ⟨stampSubs_selected L t subStatus subIter hl .solved sel _ i hi, ?_⟩
  rw [stampSubs_iter L t subIter sel hc, hc.solveAfter]
  have hcnt := (linker_counts_after L o t subStatus subIter hl sel hkp hnd
    (L.solveBefore o (resetAll L t sel u1).1 sel t).1 k0 (fun j hj => hev j hj)).1 i hi
  rw [hcnt, hc.solveBefore, resetAll_zero L t subIter sel hc sel u1 hreset i hi]
  omega

/-! ### Construction -/

theorem foldl_max_ge (l : List Nat) (b : Nat) : b ≤ l.foldl max b ∧ ∀ x ∈ l, x ≤ l.foldl max b := by
  induction l generalizing b with
  | nil => exact ⟨Nat.le_refl _, fun x h => by simp at h⟩
  | cons a l ih =>
    obtain ⟨h1, h2⟩ := ih (max b a)
    simp only [List.foldl_cons]
    refine ⟨Nat.le_trans (Nat.le_max_left _ _) h1, ?_⟩
    intro x hx
    rcases List.mem_cons.mp hx with rfl | hx
    · exact Nat.le_trans (Nat.le_max_right _ _) h1
    · exact h2 x hx

theorem foldl_max_mem (l : List Nat) (b : Nat) : l.foldl max b = b ∨ l.foldl max b ∈ l := by
  induction l generalizing b with
  | nil => left; rfl
  | cons a l ih =>
    simp only [List.foldl_cons]
    rcases ih (max b a) with h | h
    · rw [h]
      rcases Nat.le_total b a with hba | hab
      · right; rw [Nat.max_eq_right hba]; exact List.mem_cons_self
      · left; exact Nat.max_eq_left hab
    · right; exact List.mem_cons_of_mem _ h

/-- The linker's lag (lead) length is the maximum over its submodels': an upper bound that is attained. -/
theorem lags_leads_max (l : List Nat) :
    (∀ x ∈ l, x ≤ linkerExtent l) ∧ (l ≠ [] → linkerExtent l ∈ l) ∧ (l = [] → linkerExtent l = 0) := by
  cases l with
  | nil => exact ⟨fun x h => by simp at h, fun h => absurd rfl h, fun _ => rfl⟩
  | cons b rest =>
    obtain ⟨h1, h2⟩ := foldl_max_ge rest b
    refine ⟨?_, ?_, fun h => by simp at h⟩
    · intro x hx
      rcases List.mem_cons.mp hx with rfl | hx
      · exact h1
      · exact h2 x hx
    · intro _
      rcases foldl_max_mem rest b with h | h
      · simp only [linkerExtent]; rw [h]; exact List.mem_cons_self
      · exact List.mem_cons_of_mem _ h

/-- Submodels with differing spans are rejected at construction: accepted iff every span equals the first. -/
theorem span_mismatch_rejected {Lbl : Type} [DecidableEq Lbl] (b : List Lbl) (rest : List (List Lbl)) :
    spansAgree (b :: rest) = true ↔ ∀ s ∈ rest, s = b := by
  simp [spansAgree]

/-! ### A linker around one model, adding nothing, solves it as the model solves itself -/

/-- The model with non-finite detection switched off (the linker has none). -/
def blind {τ : Type} (M : Interp τ V) : Interp τ V := { M with allFinite := fun _ => true }

theorem traj_blind {τ : Type} (M : Interp τ V) (u0 : τ) (k : Nat) : traj (blind M) o t u0 k = traj M o t u0 k := by
  induction k with
  | zero => rfl
  | succ k ih => simp only [traj, ih]; rfl

theorem cv_blind {τ : Type} (M : Interp τ V) (u0 : τ) (v0 : V) (k : Nat) :
    cv (blind M) o t u0 v0 k = cv M o t u0 v0 k := by
  cases k with
  | zero => rfl
  | succ k => simp only [cv, traj_blind]; rfl

/-- **Single-model linker ≡ model.**  Let the linker (selection `sel`) simulate the model `M` through a projection
    `π` that forgets the linker's own bookkeeping (i.e. the linker adds no equations and its hooks do nothing), and
    let `M` be in the situation of `C02.solveT_converges` (finite check values, nothing raises, least accepted pass
    `k0`).  Then the linker stamps '.', count `k0`, returns True, and its projected state is the model's solution:
    the same statuses, iteration counts and values as solving the model directly. -/
theorem single_model_linker_eq_model {τ : Type} (M : Interp τ V) (π : σ → τ) (sel : List Id) (w : World σ)
    (hsim : Sim (asInterp L sel) (blind M) π)
    (hreset : (resetAll L t sel w.user).2 = false)
    (hπreset : π (resetAll L t sel w.user).1 = π w.user)
    (hπstamp : ∀ u s, π (stampSubs L t s sel u) = π u)
    (h0 : o.offset = 0) (hmm : ¬ o.minIter > o.maxIter) (hfeas : Feasible M n t)
    (hb : (M.before o (π w.user) t).2 = false)
    (k0 : Nat) (h1 : 1 ≤ k0) (hk : (k0 : Int) ≤ o.maxIter)
    (hev : ∀ i, i < k0 → (M.eval o (traj M o t (M.before o (π w.user) t).1 i) t (i + 1)).2 = false)
    (hfin : ∀ i, i ≤ k0 → M.allFinite (cv M o t (M.before o (π w.user) t).1 (M.check (π w.user) t) i) = true)
    (hleast : ∀ i, 0 < i → i < k0 → ¬ Good M o t (M.before o (π w.user) t).1 (M.check (π w.user) t) i)
    (hgood : Good M o t (M.before o (π w.user) t).1 (M.check (π w.user) t) k0)
    (ha : (M.after o (traj M o t (M.before o (π w.user) t).1 k0) t k0).2 = false) :
    ((lSolveT L o n t sel w).1.map π, (lSolveT L o n t sel w).2) =
      ((solveT M o n t (w.map π)).1, LResult.ret true) ∧ (solveT M o n t (w.map π)).2 = .ret true := by
  have hacc : Accepted M o n t := ⟨hmm, hfeas, Or.inl h0⟩
  have hseedM : seed M o t (w.map π).user = π w.user := by simp [seed, h0, World.map]
  have hM := C02.solveT_converges M o n t (w.map π) hacc (by rw [hseedM]; exact hb) k0 h1 hk
    (by rw [hseedM]; exact hev) (by rw [hseedM]; exact hfin) (by rw [hseedM]; exact hleast)
    (by rw [hseedM]; exact hgood) (by rw [hseedM]; exact ha)
  rw [hseedM] at hM
  refine ⟨?_, by rw [hM]⟩
  rw [hM]
  -- the linker side
  have hlseed : lSolveT L o n t sel w = lCore L o n t sel w w.user := by simp [lSolveT, h0]
  have hbS := hsim.before o (resetAll L t sel w.user).1 t
  rw [hπreset] at hbS
  have hbL : (L.solveBefore o (resetAll L t sel w.user).1 sel t).2 = false := by
    have := congrArg Prod.snd hbS
    simp only [asInterp, blind] at this
    rw [this]; exact hb
  have hu0 : π (L.solveBefore o (resetAll L t sel w.user).1 sel t).1 = (M.before o (π w.user) t).1 := by
    have := congrArg Prod.fst hbS
    simpa [asInterp, blind] using this
  rw [lSolveT_eq_finish L o n t sel w w.user hlseed hreset hbL]
  have hls := loop_sim hsim o t o.maxIter.toNat 1 (L.solveBefore o (resetAll L t sel w.user).1 sel t).1
    (L.check w.user sel t)
  rw [hu0] at hls
  have hchk : L.check w.user sel t = M.check (π w.user) t := hsim.check w.user t
  rw [hchk] at hls ⊢
  have hlB := loop_converges (blind M) o t (M.before o (π w.user) t).1 (M.check (π w.user) t)
    o.maxIter.toNat 0 k0 (by omega) (by omega)
    (by intro i _ hi; rw [traj_blind]; exact hev i hi)
    (fun i _ _ => rfl)
    (by intro i h h'; unfold Good; rw [cv_blind, cv_blind]; exact hleast i h h')
    (by unfold Good; rw [cv_blind, cv_blind]; exact hgood)
  simp only [traj, cv, Nat.zero_add] at hlB
  rw [hlB] at hls
  unfold afterOut at hls
  rw [traj_blind] at hls
  have hae : (blind M).after o (traj M o t (M.before o (π w.user) t).1 k0) t k0
      = ((M.after o (traj M o t (M.before o (π w.user) t).1 k0) t k0).1, false) := Prod.ext rfl ha
  rw [hae] at hls
  simp only at hls
  generalize loop (asInterp L sel) o t o.maxIter.toNat 1 (L.solveBefore o (resetAll L t sel w.user).1 sel t).1
    (M.check (π w.user) t) = r at hls ⊢
  cases r with
  | done u s k =>
    simp only [LoopOut.map, LoopOut.done.injEq] at hls
    obtain ⟨e1, e2, e3⟩ := hls
    subst e2; subst e3
    simp only [lfinish]
    rw [stamp_map, withUser_map, hπstamp, e1]
    simp
  | evalRaised u k => simp [LoopOut.map] at hls
  | nonFinite u k => simp [LoopOut.map] at hls
  | afterRaised u k => simp [LoopOut.map] at hls
  | badErrors u k => simp [LoopOut.map] at hls

/-- How a model's result reads at the linker level: a linker propagates exceptions as they are. -/
def toL : Result → LResult
  | .ret b => .ret b
  | .nonConvergence => .nonConvergence
  | _ => .raised

theorem lfinish_vs_finish {τ : Type} (π : σ → τ) (sel : List Id) (w : World σ) (r : LoopOut σ)
    (hπstamp : ∀ u s, π (stampSubs L t s sel u) = π u) :
    π (lfinish L o n t sel w r).1.user = (finish o n t (w.map π) (r.map π)).1.user ∧
    (lfinish L o n t sel w r).2 = toL (finish o n t (w.map π) (r.map π)).2 ∧
    ((∃ u s k, r = .done u s k) → (lfinish L o n t sel w r).1.map π = (finish o n t (w.map π) (r.map π)).1) := by
  cases r with
  | done u s k =>
    refine ⟨?_, ?_, fun _ => ?_⟩
    · simp only [lfinish, finish, LoopOut.map, stamp_user]
      exact hπstamp u s
    · simp only [lfinish, finish, LoopOut.map]
      split <;> rfl
    · simp only [lfinish, finish, LoopOut.map, stamp_map, withUser_map, hπstamp]
  | evalRaised u k =>
    refine ⟨?_, rfl, fun ⟨_, _, _, h⟩ => nomatch h⟩
    simp only [lfinish, finish, LoopOut.map]
    split <;> simp [stamp_user, withUser, World.map]
  | nonFinite u k =>
    exact ⟨by simp [lfinish, finish, LoopOut.map, stamp_user, withUser, World.map], rfl, fun ⟨_, _, _, h⟩ => nomatch h⟩
  | afterRaised u k =>
    exact ⟨by simp [lfinish, finish, LoopOut.map, withUser, World.map], rfl, fun ⟨_, _, _, h⟩ => nomatch h⟩
  | badErrors u k =>
    exact ⟨by simp [lfinish, finish, LoopOut.map, withUser, World.map], rfl, fun ⟨_, _, _, h⟩ => nomatch h⟩

/-- **Single-model linker ≡ model, on every path.**  Under the same simulation hypotheses as
    `single_model_linker_eq_model` but with *no* assumption on how the passes go: the linker's projected values
    always equal the model's, its result is the model's result read at the linker level (`True`/`False`/
    NonConvergenceError the same; any exception propagated), and whenever the model's loop ends without an
    exception (converged, failed, or skipped) the whole projected world — values, statuses, iteration counts — is
    the model's.  The model is taken with non-finite detection off (`blind`): the linker has none. -/
theorem single_model_linker_eq_model_all {τ : Type} (M : Interp τ V) (π : σ → τ) (sel : List Id) (w : World σ)
    (hsim : Sim (asInterp L sel) (blind M) π)
    (hreset : (resetAll L t sel w.user).2 = false)
    (hπreset : π (resetAll L t sel w.user).1 = π w.user)
    (hπstamp : ∀ u s, π (stampSubs L t s sel u) = π u)
    (h0 : o.offset = 0) (hmm : ¬ o.minIter > o.maxIter) (hfeas : Feasible M n t) :
    π (lSolveT L o n t sel w).1.user = (solveT (blind M) o n t (w.map π)).1.user ∧
    (lSolveT L o n t sel w).2 = toL (solveT (blind M) o n t (w.map π)).2 ∧
    (((∃ b, (solveT (blind M) o n t (w.map π)).2 = .ret b) ∨ (solveT (blind M) o n t (w.map π)).2 = .nonConvergence) →
      (lSolveT L o n t sel w).1.map π = (solveT (blind M) o n t (w.map π)).1) := by
  have hacc : Accepted (blind M) o n t := ⟨hmm, hfeas, Or.inl h0⟩
  have hseedM : seed (blind M) o t (w.map π).user = π w.user := by simp [seed, h0, World.map]
  rw [solveT_accepted (blind M) o n t (w.map π) hacc, hseedM]
  have hlseed : lSolveT L o n t sel w = lCore L o n t sel w w.user := by simp [lSolveT, h0]
  rw [hlseed]
  unfold lCore solveCore
  have e1 : resetAll L t sel w.user = ((resetAll L t sel w.user).1, false) := Prod.ext rfl hreset
  rw [e1]
  simp only
  have hbS := hsim.before o (resetAll L t sel w.user).1 t
  rw [hπreset] at hbS
  have hnb : ¬ (o.errors = .raise ∧ (blind M).allFinite ((blind M).check (π w.user) t) = false) := by
    simp [blind]
  rw [if_neg hnb, ← hbS]
  simp only [asInterp]
  rcases hb : L.solveBefore o (resetAll L t sel w.user).1 sel t with ⟨u3, b⟩
  cases b with
  | true =>
    simp only [toL]
    refine ⟨rfl, trivial, ?_⟩
    rintro (⟨b, h⟩ | h) <;> cases h
  | false =>
    simp only
    have hls := loop_sim hsim o t o.maxIter.toNat 1 u3 (L.check w.user sel t)
    have hchk : L.check w.user sel t = (blind M).check (π w.user) t := hsim.check w.user t
    rw [hchk] at hls ⊢
    rw [← hls]
    obtain ⟨a, b, c⟩ := lfinish_vs_finish L o n t π sel w
      (loop (asInterp L sel) o t o.maxIter.toNat 1 u3 ((blind M).check (π w.user) t)) hπstamp
    refine ⟨a, b, ?_⟩
    intro hres
    apply c
    generalize loop (asInterp L sel) o t o.maxIter.toNat 1 u3 ((blind M).check (π w.user) t) = r at hres ⊢
    cases r with
    | done u s k => exact ⟨u, s, k, rfl⟩
    | evalRaised u k => rcases hres with ⟨b, h⟩ | h <;> simp [finish, LoopOut.map] at h
    | nonFinite u k => rcases hres with ⟨b, h⟩ | h <;> simp [finish, LoopOut.map] at h
    | afterRaised u k => rcases hres with ⟨b, h⟩ | h <;> simp [finish, LoopOut.map] at h
    | badErrors u k => rcases hres with ⟨b, h⟩ | h <;> simp [finish, LoopOut.map] at h

/-! ### Converse: the agreement table of the linker -/

/-- **The linker's agreement table.**  Whatever the submodels, hooks, selection, options, span and period, one
    `BaseLinker.solve_t` call is the application of an outcome whose stamp and result are one of the rows of `LAgree`:
    '.' only with `True` and a count in `max(1, min_iter) … max_iter`; 'F' only with `False` (NonConvergenceError exactly
    when `failures='raise'`) and count `max(max_iter, 0)`; no stamp with KeyError (unknown submodel), IndexError (offset
    outside the span) or a propagated exception — and nothing else: in particular never 'S' or 'E'. -/
theorem linker_agreement (sel : List Id) (w : World σ) :
    ∃ oc : LOutcome σ, lSolveT L o n t sel w = applyLOutcome n t w oc ∧ LAgree o oc.2.1 oc.2.2 :=
  ⟨lOutcomeOf L o n t sel w.user, lSolveT_eq_outcome L o n t sel w, lOutcome_agrees L o n t sel w.user⟩

/-- The linker itself never records 'S' or 'E' (it has no numerical-error policy of its own). -/
theorem linker_never_skipped_or_error (sel : List Id) (u : σ) (k : Int) :
    (lOutcomeOf L o n t sel u).2.1 ≠ some (.skipped, k) ∧ (lOutcomeOf L o n t sel u).2.1 ≠ some (.error, k) := by
  have h := lOutcome_agrees L o n t sel u
  generalize lOutcomeOf L o n t sel u = oc at h ⊢
  rcases oc with ⟨u', st, r⟩
  simp only at h ⊢
  constructor <;> intro e <;> subst e <;> cases r <;> simp only [LAgree] at h

/-! ### Non-vacuity -/

/-- Two submodels `0`, `1` (state = their values and counters); the linker itself adds nothing. -/
def exL : LInterp (List Nat × List Int) (List Nat) Nat where
  known i := i < 2
  check u sel _ := sel.map (fun i => u.1.getD i 0)
  close a b := a == b
  copyOffset u _ _ _ := u
  resetIter u i _ := (u.1, setAt u.2 i 0)
  bumpIter u i _ := (u.1, setAt u.2 i (u.2.getD i 0 + 1))
  stampSub u _ _ _ := u
  solveBefore _ u _ _ := (u, false)
  evalBefore _ u _ _ _ := (u, false)
  evalSub _ u i _ _ := ((setAt u.1 i (min (u.1.getD i 0 + 1) (2 + i)), u.2), false)
  evalAfter _ u _ _ _ := (u, false)
  solveAfter _ u _ _ _ := (u, false)

/-- Submodel 0 settles at 2, submodel 1 at 3: solved at iteration 4; both counters equal the linker's 4. -/
example : lSolveT exL { maxIter := 10 } 3 1 [0, 1] ⟨([0, 0], [-1, -1]), List.replicate 3 .unsolved, [-1, -1, -1]⟩
    = (⟨([2, 3], [4, 4]), [.unsolved, .solved, .unsolved], [-1, 4, -1]⟩, .ret true) := by decide

/-- Only submodel 1 selected: submodel 0 is neither evaluated nor counted. -/
example : lSolveT exL { maxIter := 10 } 3 1 [1] ⟨([0, 0], [-1, -1]), List.replicate 3 .unsolved, [-1, -1, -1]⟩
    = (⟨([0, 3], [-1, 4]), [.unsolved, .solved, .unsolved], [-1, 4, -1]⟩, .ret true) := by decide

example : (lSolveT exL {} 3 1 [0, 7] ⟨([0, 0], [-1, -1]), List.replicate 3 .unsolved, [-1, -1, -1]⟩).2 = .keyError := by
  decide

/-! ### The linker's own record never feeds back -/

/-- For given values (the linker's series and its submodels, with their own records) there is one outcome — new
    values, at most one stamp on the linker at the period, result — whatever the linker's `status` / `iterations`
    hold: they are written, never read. -/
theorem linker_outcome_exists (sel : List Id) (u : σ) :
    ∃ oc : LOutcome σ, ∀ (st : List Status) (it : List Int),
      lSolveT L o n t sel ⟨u, st, it⟩ = applyLOutcome n t ⟨u, st, it⟩ oc :=
  ⟨lOutcomeOf L o n t sel u, fun st it => lSolveT_eq_outcome L o n t sel ⟨u, st, it⟩⟩

/-- **History-independence of the linker**: the same call from the same values gives the same values (of the linker
    and of every submodel, including the submodels' statuses and iteration counts) and the same result, whatever record
    earlier calls left on the linker. -/
theorem linker_history_irrelevant (sel : List Id) (u : σ) (st st' : List Status) (it it' : List Int) :
    (lSolveT L o n t sel ⟨u, st, it⟩).1.user = (lSolveT L o n t sel ⟨u, st', it'⟩).1.user ∧
    (lSolveT L o n t sel ⟨u, st, it⟩).2 = (lSolveT L o n t sel ⟨u, st', it'⟩).2 := by
  simp only [lSolveT_eq_outcome, applyLOutcome_user, applyLOutcome_result, and_self]

/-! ### Non-vacuity (review): every hypothesis-carrying theorem instantiated at a concrete non-trivial instance -/

section Review

private abbrev exU : List Nat × List Int := ([0, 0], [-1, -1])
private def exW : World (List Nat × List Int) := ⟨exU, List.replicate 3 .unsolved, [-1, -1, -1]⟩
private theorem swapLt {P : Nat → Prop} (n : Nat) (h : ∀ i, i < n → 0 < i → P i) : ∀ i, 0 < i → i < n → P i :=
  fun i a b => h i b a
private theorem swapLe {P : Nat → Prop} (n : Nat) (h : ∀ i, i ≤ n → 0 < i → P i) : ∀ i, 0 < i → i ≤ n → P i :=
  fun i a b => h i b a

/-- `evalSubs_logged_events`, `linker_iteration_shape`: iteration 1 over the selection `[0, 1]`. -/
example : (evalSubs (llogged exL) {} 1 1 [0, 1] (exU, [])).1.2 = [] ++ [0, 1].map (fun i => LEvent.sub i 1) :=
  evalSubs_logged_events exL {} 1 1 [0, 1] exU [] (by decide)
example : (linkerPass (llogged exL) {} [0, 1] 1 1 (exU, [])).1.2 =
    [.evalBefore 1, .sub 0 1, .sub 1 1, .evalAfter 1] :=
  linker_iteration_shape exL {} 1 [0, 1] 1 exU [] (by decide) (by decide)

/-- `unselected_not_evaluated`: with only submodel 1 selected no pass of submodel 0 is logged. -/
example : LEvent.sub 0 1 ∉ (linkerPass (llogged exL) {} [1] 1 1 (exU, [])).1.2 :=
  unselected_not_evaluated exL {} 1 [1] 1 exU [] 0 1 (by decide) (by decide) (by decide) (by decide)

/-- `unknown_id_keyerror` (with a non-zero offset too), `linker_offset_seeds`, `linker_offset_oob`. -/
example : (lSolveT exL { offset := -1 } 3 1 [0, 7] exW).2 = .keyError :=
  unknown_id_keyerror exL _ 3 1 [0, 7] exW (by decide)
example : lSolveT exL { offset := -1 } 3 1 [0, 1] exW =
    lCore exL { offset := -1 } 3 1 [0, 1] exW (exL.copyOffset exW.user [0, 1] 1 (-1)) :=
  linker_offset_seeds exL _ 3 1 [0, 1] exW (by decide) (by decide) (by decide) (by decide)
example : lSolveT exL { offset := -1 } 3 0 [0, 1] exW = (exW, .indexError) ∧
    lSolveT exL { offset := 1 } 3 (-1) [0, 1] exW = (exW, .indexError) :=
  ⟨linker_offset_oob exL _ 3 0 [0, 1] exW (by decide) (by decide) (by decide),
   linker_offset_oob exL _ 3 (-1) [0, 1] exW (by decide) (by decide) (by decide)⟩

/-- `lSolveT_eq_finish`, `linker_converges` (`k0 = 4`), `linker_fails` (`max_iter = 3`) on the two-submodel linker. -/
example : lSolveT exL { maxIter := 10 } 3 1 [0, 1] exW =
    lfinish exL { maxIter := 10 } 3 1 [0, 1] exW
      (loop (asInterp exL [0, 1]) { maxIter := 10 } 1 ({ maxIter := 10 } : Opts).maxIter.toNat 1
        (exL.solveBefore { maxIter := 10 } (resetAll exL 1 [0, 1] exU).1 [0, 1] 1).1 (exL.check exU [0, 1] 1)) :=
  lSolveT_eq_finish exL { maxIter := 10 } 3 1 [0, 1] exW exU (by decide) (by decide) (by decide)
example : lSolveT exL { maxIter := 10 } 3 1 [0, 1] exW =
    (stamp (withUser exW (stampSubs exL 1 .solved [0, 1] ([2, 3], [4, 4]))) 3 1 .solved ((4 : Nat) : Int), .ret true) :=
  linker_converges exL { maxIter := 10 } 3 1 [0, 1] exW exU (by decide) (by decide) (by decide) 4 (by decide) (by decide)
    (by decide) (swapLt 4 (by unfold Good; decide)) (by unfold Good; decide) (by decide)
example : lSolveT exL { maxIter := 3 } 3 1 [0, 1] exW =
    (stamp (withUser exW (stampSubs exL 1 .failed [0, 1] ([2, 3], [3, 3]))) 3 1 .failed ((3 : Nat) : Int), .nonConvergence) :=
  linker_fails exL { maxIter := 3 } 3 1 [0, 1] exW exU (by decide) (by decide) (by decide) (by decide)
    (swapLe 3 (by unfold Good; decide))

/-- `lags_leads_max` on three submodels. -/
example : linkerExtent [1, 3, 2] ∈ [1, 3, 2] := (lags_leads_max [1, 3, 2]).2.1 (by decide)
example : linkerExtent [1, 3, 2] = 3 := by decide

/-- A linker whose submodel bookkeeping is observable (function-valued state, so the get/set laws hold for every id):
    values, iteration counters, statuses. -/
private def upd {β : Type} (f : Nat → β) (i : Nat) (v : β) : Nat → β := fun j => if j = i then v else f j
private def exLF : LInterp ((Nat → Nat) × (Nat → Int) × (Nat → Status)) (List Nat) Nat where
  known i := i < 2
  check u sel _ := sel.map u.1
  close a b := a == b
  copyOffset u _ _ _ := u
  resetIter u i _ := (u.1, upd u.2.1 i 0, u.2.2)
  bumpIter u i _ := (u.1, upd u.2.1 i (u.2.1 i + 1), u.2.2)
  stampSub u i _ s := (u.1, u.2.1, upd u.2.2 i s)
  solveBefore _ u _ _ := (u, false)
  evalBefore _ u _ _ _ := (u, false)
  evalSub _ u i _ _ := ((upd u.1 i (min (u.1 i + 1) (2 + i)), u.2), false)
  evalAfter _ u _ _ _ := (u, false)
  solveAfter _ u _ _ _ := (u, false)

private theorem exLF_lawful : Lawful exLF 1 (fun u i => u.2.2 i) (fun u i => u.2.1 i) where
  stamp_same := by intro u i s; simp [exLF, upd]
  stamp_other := by intro u i j s h; simp [exLF, upd, h]
  bump_same := by intro u i; simp [exLF, upd]
  bump_other := by intro u i j h; simp [exLF, upd, h]
  eval_iter := by intro o u i k j; simp [exLF]

/-- `stampSubs_selected` / `stampSubs_unselected` / `evalSubs_counts` with selection `[0, 1]` (submodel 5 unselected). -/
example (u : (Nat → Nat) × (Nat → Int) × (Nat → Status)) :
    (stampSubs exLF 1 .solved [0, 1] u).2.2 1 = .solved ∧ (stampSubs exLF 1 .solved [0, 1] u).2.2 5 = u.2.2 5 :=
  ⟨stampSubs_selected exLF 1 _ _ exLF_lawful .solved [0, 1] u 1 (by decide),
   stampSubs_unselected exLF 1 _ _ exLF_lawful .solved [0, 1] u 5 (by decide)⟩
example (u : (Nat → Nat) × (Nat → Int) × (Nat → Status)) :
    (evalSubs exLF {} 1 1 [0, 1] u).1.2.1 1 = u.2.1 1 + 1 ∧ (evalSubs exLF {} 1 1 [0, 1] u).1.2.1 5 = u.2.1 5 :=
  ⟨(evalSubs_counts exLF {} 1 _ _ exLF_lawful 1 [0, 1] u (by decide) rfl).1 1 (by decide),
   (evalSubs_counts exLF {} 1 _ _ exLF_lawful 1 [0, 1] u (by decide) rfl).2 5 (by decide)⟩

private theorem exLF_hooks : HooksKeepIter exLF 1 (fun u i => u.2.1 i) [0, 1] where
  evalBefore := by intro o u k j; rfl
  evalAfter := by intro o u k j; rfl

/-- `linker_counts_after`: three iterations of the two selected submodels advance both counters by exactly 3 and leave
    submodel 5's counter alone. -/
example (u : (Nat → Nat) × (Nat → Int) × (Nat → Status)) :
    (traj (asInterp exLF [0, 1]) {} 1 u 3).2.1 1 = u.2.1 1 + 3 ∧ (traj (asInterp exLF [0, 1]) {} 1 u 3).2.1 5 = u.2.1 5 := by
  have h := linker_counts_after exLF {} 1 _ _ exLF_lawful [0, 1] exLF_hooks (by decide) u 3 (by intro i _; rfl)
  exact ⟨by simpa using h.1 1 (by decide), h.2 5 (by decide)⟩

private theorem exLF_countlaws : CountLaws exLF 1 (fun u i => u.2.1 i) [0, 1] where
  reset_same := by intro u i; simp [exLF, upd]
  reset_other := by intro u i j h; simp [exLF, upd, h]
  stamp_iter := by intro u i s j; rfl
  solveBefore := by intro o u j; rfl
  solveAfter := by intro o u k j; rfl

/-- `resetAll_zero` / `stampSubs_iter` (the laws `linker_converged_submodels` needs are satisfiable): resetting the two
    selected submodels zeroes their counters; stamping leaves counters alone. -/
example (u : (Nat → Nat) × (Nat → Int) × (Nat → Status)) :
    (resetAll exLF 1 [0, 1] u).1.2.1 1 = 0 ∧ (stampSubs exLF 1 .solved [0, 1] u).2.1 1 = u.2.1 1 :=
  ⟨resetAll_zero exLF 1 _ [0, 1] exLF_countlaws [0, 1] u rfl 1 (by decide),
   stampSubs_iter exLF 1 _ [0, 1] exLF_countlaws .solved [0, 1] u 1⟩

/-- `single_model_linker_eq_model`: a linker around the one model `C02.exI` (state = the model's value plus the
    submodel's iteration counter; projection = forget the counter), converging at pass 4. -/
private def exL1 : LInterp (Nat × Int) Nat Nat where
  known i := i == 0
  check u _ _ := u.1
  close a b := a == b
  copyOffset u _ _ _ := u
  resetIter u _ _ := (u.1, 0)
  bumpIter u _ _ := (u.1, u.2 + 1)
  stampSub u _ _ _ := u
  solveBefore _ u _ _ := (u, false)
  evalBefore _ u _ _ _ := (u, false)
  evalSub _ u _ _ _ := ((min (u.1 + 1) 3, u.2), false)
  evalAfter _ u _ _ _ := (u, false)
  solveAfter _ u _ _ _ := (u, false)

private theorem exL1_sim : Sim (asInterp exL1 [0]) (blind C02.exI) Prod.fst where
  lags := rfl
  leads := rfl
  check := fun _ _ => rfl
  allFinite := rfl
  close := rfl
  zeroNF := rfl
  copyOffset := fun _ _ _ => rfl
  before := fun _ _ _ => rfl
  eval := fun _ _ _ _ => rfl
  after := fun _ _ _ _ => rfl

example : ((lSolveT exL1 { maxIter := 10 } 5 2 [0] ⟨(0, -1), List.replicate 5 .unsolved, List.replicate 5 (-1)⟩).1.map Prod.fst,
      (lSolveT exL1 { maxIter := 10 } 5 2 [0] ⟨(0, -1), List.replicate 5 .unsolved, List.replicate 5 (-1)⟩).2) =
    ((solveT C02.exI { maxIter := 10 } 5 2
        ((⟨(0, -1), List.replicate 5 .unsolved, List.replicate 5 (-1)⟩ : World (Nat × Int)).map Prod.fst)).1,
      LResult.ret true) ∧
    (solveT C02.exI { maxIter := 10 } 5 2
        ((⟨(0, -1), List.replicate 5 .unsolved, List.replicate 5 (-1)⟩ : World (Nat × Int)).map Prod.fst)).2 = .ret true :=
  single_model_linker_eq_model exL1 { maxIter := 10 } 5 2 C02.exI Prod.fst [0] _ exL1_sim (by decide) (by decide)
    (fun _ _ => rfl) rfl (by decide) (by unfold Feasible; decide) (by decide) 4 (by decide) (by decide) (by decide)
    (by decide) (swapLt 4 (by unfold Good; decide)) (by unfold Good; decide) (by decide)
example : lSolveT exL1 { maxIter := 10 } 5 2 [0] ⟨(0, -1), List.replicate 5 .unsolved, List.replicate 5 (-1)⟩ =
    (⟨(3, 4), [.unsolved, .unsolved, .solved, .unsolved, .unsolved], [-1, -1, 4, -1, -1]⟩, .ret true) := by decide

/-- `single_model_linker_eq_model_all` on a *failing* run (`max_iter = 3`: 'F', count 3, `False`) — the path the
    converging-only theorem does not cover. -/
example :
    Prod.fst (lSolveT exL1 { maxIter := 3, failRaise := false } 5 2 [0]
        ⟨(0, -1), List.replicate 5 .unsolved, List.replicate 5 (-1)⟩).1.user =
      (solveT (blind C02.exI) { maxIter := 3, failRaise := false } 5 2
        ((⟨(0, -1), List.replicate 5 .unsolved, List.replicate 5 (-1)⟩ : World (Nat × Int)).map Prod.fst)).1.user ∧
    (lSolveT exL1 { maxIter := 3, failRaise := false } 5 2 [0]
        ⟨(0, -1), List.replicate 5 .unsolved, List.replicate 5 (-1)⟩).2 =
      toL (solveT (blind C02.exI) { maxIter := 3, failRaise := false } 5 2
        ((⟨(0, -1), List.replicate 5 .unsolved, List.replicate 5 (-1)⟩ : World (Nat × Int)).map Prod.fst)).2 :=
  let h := single_model_linker_eq_model_all exL1 { maxIter := 3, failRaise := false } 5 2 C02.exI Prod.fst [0]
    ⟨(0, -1), List.replicate 5 .unsolved, List.replicate 5 (-1)⟩ exL1_sim (by decide) (by decide) (fun _ _ => rfl) rfl
    (by decide) (by unfold Feasible; decide)
  ⟨h.1, h.2.1⟩
example : lSolveT exL1 { maxIter := 3, failRaise := false } 5 2 [0]
      ⟨(0, -1), List.replicate 5 .unsolved, List.replicate 5 (-1)⟩ =
    (⟨(3, 3), [.unsolved, .unsolved, .failed, .unsolved, .unsolved], [-1, -1, 3, -1, -1]⟩, .ret false) := by decide

end Review

end Fsic.C08
