import Proofs.Lemmas.TimeSeries
/-
C16 — `eval()` and the time-series helpers compute what their definitions say.

Part 1 (this section): `lag`, `lead`, `diff`, `dlog` of `fsic/functions.py`.  All statements are for arrays of
EVERY length (including 0), EVERY integer shift (zero, negative, `|p| ≥ n`), every fill value and every element
type (subtraction and `log` are parameters).  Part 2 (`Fsic.C16` continued in `Proofs/C16Eval.lean`,
re-exported below) covers `eval()`.
-/
set_option linter.unusedSimpArgs false
namespace Fsic.C16
open Fsic.TS

variable {α : Type}

/-- **lag.**  `lag(x, p)[i] = x[i - p]` where `i - p` lies inside the array and `fill_value` elsewhere —
    through the model of `np.roll` + slice assignment, for every integer `p`. -/
theorem lag_spec (xs : List α) (p : Int) (fill : α) (i : Nat) (hi : i < xs.length) :
    (lag xs p fill)[i]? =
      if 0 ≤ (i : Int) - p ∧ (i : Int) - p < xs.length then xs[((i : Int) - p).toNat]? else some fill :=
  shift_getElem? xs p fill i hi

example : lag [10, 20, 30, 40] 1 0 = [0, 10, 20, 30] := by decide
example : lag [10, 20, 30, 40] (-2) 0 = [30, 40, 0, 0] := by decide
example : lag [10, 20, 30, 40] 7 0 = [0, 0, 0, 0] := by decide
example : lag [10, 20, 30, 40] (-4) 0 = [0, 0, 0, 0] := by decide

/-- **lead.**  `lead(x, p) = lag(x, -p)`. -/
theorem lead_eq_lag_neg (xs : List α) (p : Int) (fill : α) : lead xs p fill = lag xs (-p) fill := rfl

/-- `lead(x, p)[i] = x[i + p]` inside, fill outside. -/
theorem lead_spec (xs : List α) (p : Int) (fill : α) (i : Nat) (hi : i < xs.length) :
    (lead xs p fill)[i]? =
      if 0 ≤ (i : Int) + p ∧ (i : Int) + p < xs.length then xs[((i : Int) + p).toNat]? else some fill := by
  have h := shift_getElem? xs (-p) fill i hi
  have e : (i : Int) - -p = (i : Int) + p := by omega
  rw [e] at h
  exact h

example : lead [10, 20, 30, 40] 1 0 = [20, 30, 40, 0] := by decide

/-- **diff, d ≥ 1.**  `diff(x, d)[i] = x[i] - x[i-d]` for `i ≥ d` and `fill_value` before. -/
theorem diff_spec (sub : α → α → α) (xs : List α) (d : Int) (fill : α) (hd : 1 ≤ d) :
    ∃ r, diff sub xs d fill = some r ∧ r.length = xs.length ∧
      ∀ (i : Nat) (hi : i < xs.length),
        r[i]? = if h : d ≤ (i : Int) then
                  some (sub (xs[i]'hi) (xs[((i : Int) - d).toNat]'(by omega)))
                else some fill := by
  have hd0 : ¬ d = 0 := by omega
  have hdp : d > 0 := by omega
  refine ⟨assignPrefix (List.zipWith sub xs (lag xs d fill)) d fill, ?_, ?_, ?_⟩
  · simp [diff, hd0, hdp]
  · simp [assignPrefix_length, lag, shift_length]
  · intro i hi
    have hlen : (List.zipWith sub xs (lag xs d fill)).length = xs.length := by
      simp [lag, shift_length]
    rw [assignPrefix_getElem? _ _ _ hdp _ (by rw [hlen]; exact hi)]
    by_cases h : d ≤ (i : Int)
    · have hlt : ¬ (i : Int) < d := by omega
      rw [if_neg hlt, dif_pos h]
      have hin : 0 ≤ (i : Int) - d ∧ (i : Int) - d < xs.length := by omega
      have hl := lag_spec xs d fill i hi
      rw [if_pos hin] at hl
      have hk : ((i : Int) - d).toNat < xs.length := by omega
      rw [List.getElem?_eq_getElem hk] at hl
      simp [List.getElem?_zipWith, List.getElem?_eq_getElem hi, hl]
    · have hlt : (i : Int) < d := by omega
      rw [if_pos hlt, dif_neg h]

example : diff (· - ·) [10, 20, 40, 70] 1 (0 : Int) = some [0, 10, 20, 30] := by decide
example : diff (· - ·) [10, 20, 40, 70] 2 (0 : Int) = some [0, 0, 30, 50] := by decide
example : diff (· - ·) [10, 20, 40, 70] 9 (0 : Int) = some [0, 0, 0, 0] := by decide

/-- `d = 0`: the code returns the input itself (`if d == 0: return x`). -/
theorem diff_zero (sub : α → α → α) (xs : List α) (fill : α) : diff sub xs 0 fill = some xs := rfl

/-- `d < 0`: NotImplementedError. -/
theorem diff_neg (sub : α → α → α) (xs : List α) (d : Int) (fill : α) (hd : d < 0) : diff sub xs d fill = none := by
  have h0 : ¬ d = 0 := by omega
  have h1 : ¬ d > 0 := by omega
  simp [diff, h0, h1]

/-- The property's FULL statement for `diff`: `diff(x,d)[i] = x[i] - x[i-d]` for all `i ≥ d ≥ 0`. -/
def DiffFull (sub : Int → Int → Int) : Prop :=
  ∀ (xs : List Int) (d : Int) (fill : Int) (_hd : 0 ≤ d),
    ∃ r, diff sub xs d fill = some r ∧
      ∀ (i : Nat) (hi : i < xs.length) (h : d ≤ (i : Int)),
        r[i]? = some (sub (xs[i]'hi) (xs[((i : Int) - d).toNat]'(by omega)))

/-- The full statement is FALSE of the code: `diff([1, 2], 0) = [1, 2]`, not `[0, 0]` (finding `diff-d0`;
    `tests/test_functions.py` asserts the current behaviour).  What holds is `diff_spec` under the guard `d ≥ 1`
    (the `_partial` theorem for this clause) together with `diff_zero`. -/
theorem diff_full_false_at_witness : ¬ DiffFull (· - ·) := by
  intro h
  obtain ⟨r, hr, hi⟩ := h [1, 2] 0 0 (by decide)
  have hr' : r = [1, 2] := by
    have : diff (· - ·) [1, 2] 0 (0 : Int) = some [1, 2] := rfl
    rw [this] at hr
    exact (Option.some.inj hr).symm
  subst hr'
  have := hi 0 (by decide) (by decide)
  revert this
  decide

/-- The `_partial` form: the full statement restricted to `d ≥ 1`. -/
theorem diff_spec_partial (sub : α → α → α) (xs : List α) (d : Int) (fill : α) (hd : 1 ≤ d)
    (i : Nat) (hi : i < xs.length) (h : d ≤ (i : Int)) :
    ∃ r, diff sub xs d fill = some r ∧
      r[i]? = some (sub (xs[i]'hi) (xs[((i : Int) - d).toNat]'(by omega))) := by
  obtain ⟨r, hr, _, hs⟩ := diff_spec sub xs d fill hd
  refine ⟨r, hr, ?_⟩
  rw [hs i hi, dif_pos h]

/-- **dlog.**  `dlog(x, d) = diff(log x, d)`. -/
theorem dlog_def (sub : α → α → α) (log : α → α) (xs : List α) (d : Int) (fill : α) :
    dlog sub log xs d fill = diff sub (xs.map log) d fill := rfl

/-- **Length.**  Every helper returns an array of the input's length. -/
theorem length_preserved (sub : α → α → α) (log : α → α) (xs : List α) (p : Int) (fill : α) :
    (lag xs p fill).length = xs.length ∧ (lead xs p fill).length = xs.length ∧
    (∀ r, diff sub xs p fill = some r → r.length = xs.length) ∧
    (∀ r, dlog sub log xs p fill = some r → r.length = xs.length) := by
  have hdiff : ∀ (ys : List α) r, diff sub ys p fill = some r → r.length = ys.length := by
    intro ys r h
    unfold diff at h
    split at h
    · exact (Option.some.inj h) ▸ rfl
    · split at h
      · have := Option.some.inj h
        subst this
        simp [assignPrefix_length, lag, shift_length]
      · exact absurd h (by simp)
  refine ⟨shift_length _ _ _, shift_length _ _ _, hdiff xs, ?_⟩
  intro r h
  have := hdiff (xs.map log) r h
  simpa using this

example : (lag ([] : List Int) 3 0).length = 0 := by decide

/-! ### Purity: the input array is never modified (memory layer)

`shiftM`/`diffM`/`dlogM` run the same code over a memory of array cells.  `*_value` ties the memory layer to the
value layer above; `*_frame` says that every array that existed before the call — in particular the input `x` —
reads the same afterwards.  (For `p = 0` / `d = 0` the returned location is the input's own, which the property
allows; nothing is written in that case either.) -/

theorem shiftM_value (m : Mem α) (x : Nat) (p : Int) (fill : α) (_hx : x < m.cells.length) :
    (shiftM m x p fill).1.read (shiftM m x p fill).2 = shift (m.read x) p fill := by
  unfold shiftM shift
  by_cases h0 : p = 0
  · simp [h0]
  · simp only [h0, if_false]
    unfold assignShiftFill
    have hsz := Mem.alloc_size m (roll (m.read x) p)
    have hloc := Mem.alloc_loc m (roll (m.read x) p)
    by_cases hp : p > 0
    · simp only [hp, if_true]
      rw [Mem.read_modify_eq _ _ _ (by rw [hsz, hloc]; omega), Mem.read_alloc_new]
    · simp only [hp, if_false]
      rw [Mem.read_modify_eq _ _ _ (by rw [hsz, hloc]; omega), Mem.read_alloc_new]

theorem shiftM_frame (m : Mem α) (x : Nat) (p : Int) (fill : α) (l : Nat) (hl : l < m.cells.length) :
    (shiftM m x p fill).1.read l = m.read l ∧ m.cells.length ≤ (shiftM m x p fill).1.cells.length := by
  unfold shiftM
  by_cases h0 : p = 0
  · simp [h0]
  · simp only [h0, if_false]
    unfold assignShiftFill
    have hloc := Mem.alloc_loc m (roll (m.read x) p)
    have hsz := Mem.alloc_size m (roll (m.read x) p)
    by_cases hp : p > 0
    · simp only [hp, if_true]
      refine ⟨?_, by rw [Mem.modify_size, hsz]; omega⟩
      rw [Mem.read_modify_ne _ _ _ _ (by rw [hloc]; omega), Mem.read_alloc_old _ _ _ hl]
    · simp only [hp, if_false]
      refine ⟨?_, by rw [Mem.modify_size, hsz]; omega⟩
      rw [Mem.read_modify_ne _ _ _ _ (by rw [hloc]; omega), Mem.read_alloc_old _ _ _ hl]

/-- **lag / lead never modify their input** and return what the value layer says. -/
theorem lag_lead_pure (m : Mem α) (x : Nat) (p : Int) (fill : α) (hx : x < m.cells.length) :
    (lagM m x p fill).1.read x = m.read x ∧
    (lagM m x p fill).1.read (lagM m x p fill).2 = lag (m.read x) p fill ∧
    (leadM m x p fill).1.read x = m.read x ∧
    (leadM m x p fill).1.read (leadM m x p fill).2 = lead (m.read x) p fill :=
  ⟨(shiftM_frame m x p fill x hx).1, shiftM_value m x p fill hx,
   (shiftM_frame m x (-p) fill x hx).1, shiftM_value m x (-p) fill hx⟩

theorem diffAfterLag_frame (sub : α → α → α) (x : Nat) (d : Int) (fill : α) (ml : Mem α × Nat)
    (l : Nat) (hl : l < ml.1.cells.length) :
    (diffAfterLag sub x d fill ml).1.read l = ml.1.read l := by
  unfold diffAfterLag
  have hloc := Mem.alloc_loc ml.1 (List.zipWith sub (ml.1.read x) (ml.1.read ml.2))
  simp only []
  rw [Mem.read_modify_ne _ _ _ _ (by rw [hloc]; omega), Mem.read_alloc_old _ _ _ hl]

theorem diffAfterLag_value (sub : α → α → α) (x : Nat) (d : Int) (fill : α) (ml : Mem α × Nat) :
    (diffAfterLag sub x d fill ml).1.read (diffAfterLag sub x d fill ml).2 =
      assignPrefix (List.zipWith sub (ml.1.read x) (ml.1.read ml.2)) d fill := by
  unfold diffAfterLag
  have hloc := Mem.alloc_loc ml.1 (List.zipWith sub (ml.1.read x) (ml.1.read ml.2))
  have hsz := Mem.alloc_size ml.1 (List.zipWith sub (ml.1.read x) (ml.1.read ml.2))
  simp only []
  rw [Mem.read_modify_eq _ _ _ (by rw [hsz, hloc]; omega), Mem.read_alloc_new]

/-- **diff never modifies its input** (nor any other existing array) and returns what the value layer says. -/
theorem diff_pure (sub : α → α → α) (m : Mem α) (x : Nat) (d : Int) (fill : α) (hx : x < m.cells.length) :
    match diffM sub m x d fill, diff sub (m.read x) d fill with
    | some (m', r), some v => m'.read r = v ∧ ∀ l, l < m.cells.length → m'.read l = m.read l
    | none, none => True
    | _, _ => False := by
  unfold diffM diff
  by_cases h0 : d = 0
  · simp [h0]
  · simp only [h0, if_false]
    by_cases hp : d > 0
    · simp only [hp, if_true]
      have hfr := shiftM_frame m x d fill
      refine ⟨?_, ?_⟩
      · rw [diffAfterLag_value]
        unfold lagM
        rw [(hfr x hx).1, shiftM_value m x d fill hx]
        rfl
      · intro l hl
        rw [diffAfterLag_frame _ _ _ _ _ _ (by unfold lagM; have := (hfr l hl).2; omega)]
        exact (hfr l hl).1
    · simp [hp]

/-- **dlog never modifies its input.** -/
theorem dlog_pure (sub : α → α → α) (log : α → α) (m : Mem α) (x : Nat) (d : Int) (fill : α)
    (_hx : x < m.cells.length) :
    match dlogM sub log m x d fill, dlog sub log (m.read x) d fill with
    | some (m', r), some v => m'.read r = v ∧ ∀ l, l < m.cells.length → m'.read l = m.read l
    | none, none => True
    | _, _ => False := by
  unfold dlogM dlog
  have hsz := Mem.alloc_size m ((m.read x).map log)
  have hloc := Mem.alloc_loc m ((m.read x).map log)
  have h := diff_pure sub (m.alloc ((m.read x).map log)).1 (m.alloc ((m.read x).map log)).2 d fill
    (by rw [hsz, hloc]; omega)
  rw [Mem.read_alloc_new] at h
  revert h
  cases diffM sub (m.alloc ((m.read x).map log)).1 (m.alloc ((m.read x).map log)).2 d fill <;>
    cases diff sub ((m.read x).map log) d fill <;> simp
  intro hv hf
  refine ⟨hv, ?_⟩
  intro l hl
  rw [hf l (by rw [hsz]; omega), Mem.read_alloc_old _ _ _ hl]

example : (diffM (· - ·) (⟨[[10, 20, 40]]⟩ : Mem Int) 0 1 0).map (fun r => (r.1.read 0, r.1.read r.2)) =
    some ([10, 20, 40], [0, 10, 20]) := by decide

end Fsic.C16
