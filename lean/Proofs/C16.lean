import Proofs.Lemmas.TimeSeries
import Proofs.Lemmas.EvalIndex
/-
C16 — `eval()` and the time-series helpers compute what their definitions say.

Part 1 (this section): `lag`, `lead`, `diff`, `dlog` of `fsic/functions.py`.  All statements are for arrays of
EVERY length (including 0), EVERY integer shift (zero, negative, `|p| ≥ n`), every fill value and every element
type (subtraction and `log` are parameters).  Part 2 (further down) covers `eval()`: the index rewriting of
`_resolve_expression_indexes`, and the namespace assembly.

What is NOT here (stated so that the theorem list is not read as more than it is):
* `diff_spec` / `diff_spec_partial` are for `d ≥ 1`.  For `d = 0` the property's formula is FALSE of the code
  (`diff_zero`, `diff_full_false_at_witness`: open known finding `diff-d0`); for `d < 0` the code raises
  NotImplementedError (`diff_neg`) and the property is silent.
* "`eval(expr)` returns what Python/NumPy computes for `expr`" is NOT modelled: CPython's evaluator is outside the
  model.  The theorems cover what fsic itself does around the call — which text is handed to Python (index
  rewriting), which object every name is bound to (namespace precedence, current store after any history), which
  error an undefined name becomes, and that the package helper table is not written.  The value of the evaluated
  expression is compared with NumPy on the stored series by the C16 oracle only (values, dtype, shape, error class).
-/
set_option linter.unusedSimpArgs false
namespace Fsic.C16
open Fsic.TS

variable {α : Type}

/-- **lag.**  `lag(x, p)[i] = x[i - p]` where `i - p` lies inside the array and `fill_value` elsewhere —
    through the model of `np.roll` + slice assignment, for every integer `p`. -/
theorem lag_spec (xs : List α) (p : Int) (fill : α) (i : Nat) (hi : i < xs.length) :
    (lag xs p fill)[i]? =
      if 0 ≤ (i : Int) - p ∧ (i : Int) - p < xs.length then xs[((i : Int) - p).toNat]? else some fill :=
  shift_getElem? xs p fill i hi

example : lag [10, 20, 30, 40] 1 0 = [0, 10, 20, 30] := by decide
example : lag [10, 20, 30, 40] (-2) 0 = [30, 40, 0, 0] := by decide
example : lag [10, 20, 30, 40] 7 0 = [0, 0, 0, 0] := by decide
example : lag [10, 20, 30, 40] (-4) 0 = [0, 0, 0, 0] := by decide

/-- **lead.**  `lead(x, p) = lag(x, -p)`. -/
theorem lead_eq_lag_neg (xs : List α) (p : Int) (fill : α) : lead xs p fill = lag xs (-p) fill := rfl

/-- `lead(x, p)[i] = x[i + p]` inside, fill outside. -/
theorem lead_spec (xs : List α) (p : Int) (fill : α) (i : Nat) (hi : i < xs.length) :
    (lead xs p fill)[i]? =
      if 0 ≤ (i : Int) + p ∧ (i : Int) + p < xs.length then xs[((i : Int) + p).toNat]? else some fill := by
  have h := shift_getElem? xs (-p) fill i hi
  have e : (i : Int) - -p = (i : Int) + p := by omega
  rw [e] at h
  exact h

example : lead [10, 20, 30, 40] 1 0 = [20, 30, 40, 0] := by decide

/-- **diff, d ≥ 1.**  `diff(x, d)[i] = x[i] - x[i-d]` for `i ≥ d` and `fill_value` before. -/
theorem diff_spec (sub : α → α → α) (xs : List α) (d : Int) (fill : α) (hd : 1 ≤ d) :
    ∃ r, diff sub xs d fill = some r ∧ r.length = xs.length ∧
      ∀ (i : Nat) (hi : i < xs.length),
        r[i]? = if h : d ≤ (i : Int) then
                  some (sub (xs[i]'hi) (xs[((i : Int) - d).toNat]'(by omega)))
                else some fill := by
  have hd0 : ¬ d = 0 := by omega
  have hdp : d > 0 := by omega
  refine ⟨assignPrefix (List.zipWith sub xs (lag xs d fill)) d fill, ?_, ?_, ?_⟩
  · simp [diff, hd0, hdp]
  · simp [assignPrefix_length, lag, shift_length]
  · intro i hi
    have hlen : (List.zipWith sub xs (lag xs d fill)).length = xs.length := by
      simp [lag, shift_length]
    rw [assignPrefix_getElem? _ _ _ hdp _ (by rw [hlen]; exact hi)]
    by_cases h : d ≤ (i : Int)
    · have hlt : ¬ (i : Int) < d := by omega
      rw [if_neg hlt, dif_pos h]
      have hin : 0 ≤ (i : Int) - d ∧ (i : Int) - d < xs.length := by omega
      have hl := lag_spec xs d fill i hi
      rw [if_pos hin] at hl
      have hk : ((i : Int) - d).toNat < xs.length := by omega
      rw [List.getElem?_eq_getElem hk] at hl
      simp [List.getElem?_zipWith, List.getElem?_eq_getElem hi, hl]
    · have hlt : (i : Int) < d := by omega
      rw [if_pos hlt, dif_neg h]

example : diff (· - ·) [10, 20, 40, 70] 1 (0 : Int) = some [0, 10, 20, 30] := by decide
example : diff (· - ·) [10, 20, 40, 70] 2 (0 : Int) = some [0, 0, 30, 50] := by decide
example : diff (· - ·) [10, 20, 40, 70] 9 (0 : Int) = some [0, 0, 0, 0] := by decide

/-- `d = 0`: the code returns the input itself (`if d == 0: return x`). -/
theorem diff_zero (sub : α → α → α) (xs : List α) (fill : α) : diff sub xs 0 fill = some xs := rfl

/-- `d < 0`: NotImplementedError. -/
theorem diff_neg (sub : α → α → α) (xs : List α) (d : Int) (fill : α) (hd : d < 0) : diff sub xs d fill = none := by
  have h0 : ¬ d = 0 := by omega
  have h1 : ¬ d > 0 := by omega
  simp [diff, h0, h1]

/-- The property's FULL statement for `diff`: `diff(x,d)[i] = x[i] - x[i-d]` for all `i ≥ d ≥ 0`. -/
def DiffFull (sub : Int → Int → Int) : Prop :=
  ∀ (xs : List Int) (d : Int) (fill : Int) (_hd : 0 ≤ d),
    ∃ r, diff sub xs d fill = some r ∧
      ∀ (i : Nat) (hi : i < xs.length) (h : d ≤ (i : Int)),
        r[i]? = some (sub (xs[i]'hi) (xs[((i : Int) - d).toNat]'(by omega)))

/-- The full statement is FALSE of the code: `diff([1, 2], 0) = [1, 2]`, not `[0, 0]` (finding `diff-d0`;
    `tests/test_functions.py` asserts the current behaviour).  What holds is `diff_spec` under the guard `d ≥ 1`
    (the `_partial` theorem for this clause) together with `diff_zero`. -/
theorem diff_full_false_at_witness : ¬ DiffFull (· - ·) := by
  intro h
  obtain ⟨r, hr, hi⟩ := h [1, 2] 0 0 (by decide)
  have hr' : r = [1, 2] := by
    have : diff (· - ·) [1, 2] 0 (0 : Int) = some [1, 2] := rfl
    rw [this] at hr
    exact (Option.some.inj hr).symm
  subst hr'
  have := hi 0 (by decide) (by decide)
  revert this
  decide

/-- The `_partial` form: the full statement restricted to `d ≥ 1`. -/
theorem diff_spec_partial (sub : α → α → α) (xs : List α) (d : Int) (fill : α) (hd : 1 ≤ d)
    (i : Nat) (hi : i < xs.length) (h : d ≤ (i : Int)) :
    ∃ r, diff sub xs d fill = some r ∧
      r[i]? = some (sub (xs[i]'hi) (xs[((i : Int) - d).toNat]'(by omega))) := by
  obtain ⟨r, hr, _, hs⟩ := diff_spec sub xs d fill hd
  refine ⟨r, hr, ?_⟩
  rw [hs i hi, dif_pos h]

/-- **dlog.**  `dlog(x, d) = diff(log x, d)`. -/
theorem dlog_def (sub : α → α → α) (log : α → α) (xs : List α) (d : Int) (fill : α) :
    dlog sub log xs d fill = diff sub (xs.map log) d fill := rfl

/-- **Length.**  Every helper returns an array of the input's length. -/
theorem length_preserved (sub : α → α → α) (log : α → α) (xs : List α) (p : Int) (fill : α) :
    (lag xs p fill).length = xs.length ∧ (lead xs p fill).length = xs.length ∧
    (∀ r, diff sub xs p fill = some r → r.length = xs.length) ∧
    (∀ r, dlog sub log xs p fill = some r → r.length = xs.length) := by
  have hdiff : ∀ (ys : List α) r, diff sub ys p fill = some r → r.length = ys.length := by
    intro ys r h
    unfold diff at h
    split at h
    · exact (Option.some.inj h) ▸ rfl
    · split at h
      · have := Option.some.inj h
        subst this
        simp [assignPrefix_length, lag, shift_length]
      · exact absurd h (by simp)
  refine ⟨shift_length _ _ _, shift_length _ _ _, hdiff xs, ?_⟩
  intro r h
  have := hdiff (xs.map log) r h
  simpa using this

example : (lag ([] : List Int) 3 0).length = 0 := by decide

/-! ### Closed forms at the boundaries (corollaries of `lag_spec` / `diff_spec`) -/

/-- **Boundary shifts.**  A shift by at least the array's length in either direction leaves nothing of the input:
    every cell is the fill value (the property's `|p| ≥ n` case, stated outright). -/
theorem lag_out_of_range (xs : List α) (p : Int) (fill : α) (hp : (xs.length : Int) ≤ p ∨ p ≤ -(xs.length : Int)) :
    lag xs p fill = List.replicate xs.length fill := by
  apply List.ext_getElem?
  intro i
  by_cases hi : i < xs.length
  · rw [lag_spec xs p fill i hi]
    have : ¬ (0 ≤ (i : Int) - p ∧ (i : Int) - p < xs.length) := by omega
    rw [if_neg this]; simp [hi]
  · have h1 : (lag xs p fill).length ≤ i := by
      have := (length_preserved (fun a _ => a) id xs p fill).1; omega
    simp [List.getElem?_eq_none h1, hi]

/-- `p = 0`: the result is the input itself. -/
theorem lag_zero (xs : List α) (fill : α) : lag xs 0 fill = xs ∧ lead xs 0 fill = xs := ⟨rfl, rfl⟩

/-- **Composition.**  Two lags in the same direction compose to one lag by the sum (same fill value): what was pushed
    out by the first never comes back, and the gap left by the first is filled with the same value as the second's. -/
theorem lag_lag (xs : List α) (p q : Int) (fill : α) (h : (0 ≤ p ∧ 0 ≤ q) ∨ (p ≤ 0 ∧ q ≤ 0)) :
    lag (lag xs p fill) q fill = lag xs (p + q) fill := by
  have hl : ∀ (ys : List α) (r : Int), (lag ys r fill).length = ys.length :=
    fun ys r => (length_preserved (fun a _ => a) id ys r fill).1
  apply List.ext_getElem?
  intro i
  by_cases hi : i < xs.length
  · have hi' : i < (lag xs p fill).length := by rw [hl]; exact hi
    rw [lag_spec _ q fill i hi', lag_spec xs (p + q) fill i hi, hl]
    by_cases hq : 0 ≤ (i : Int) - q ∧ (i : Int) - q < xs.length
    · rw [if_pos hq]
      have hj : ((i : Int) - q).toNat < xs.length := by omega
      rw [lag_spec xs p fill _ hj]
      have e : (((i : Int) - q).toNat : Int) - p = (i : Int) - (p + q) := by omega
      rw [e]
    · rw [if_neg hq]
      have : ¬ (0 ≤ (i : Int) - (p + q) ∧ (i : Int) - (p + q) < xs.length) := by omega
      rw [if_neg this]
  · have h1 : (lag (lag xs p fill) q fill).length ≤ i := by rw [hl, hl]; omega
    have h2 : (lag xs (p + q) fill).length ≤ i := by rw [hl]; omega
    rw [List.getElem?_eq_none h1, List.getElem?_eq_none h2]

/-- Opposite directions do NOT compose (the cells pushed out are lost): a witness, so that `lag_lag`'s hypothesis is
    seen to be needed. -/
theorem lag_lead_not_inverse : lead (lag [1, 2, 3] 1 (0 : Int)) 1 0 = [1, 2, 0] ∧
    lag (lead [1, 2, 3] 1 (0 : Int)) 1 0 = [0, 2, 3] := by decide

/-- **dlog, pointwise** (`d ≥ 1`): `dlog(x, d)[i] = log x[i] − log x[i−d]` for `i ≥ d` and the fill value before. -/
theorem dlog_spec (sub : α → α → α) (log : α → α) (xs : List α) (d : Int) (fill : α) (hd : 1 ≤ d) :
    ∃ r, dlog sub log xs d fill = some r ∧ r.length = xs.length ∧
      ∀ (i : Nat) (hi : i < xs.length),
        r[i]? = if h : d ≤ (i : Int) then
                  some (sub (log (xs[i]'hi)) (log (xs[((i : Int) - d).toNat]'(by omega))))
                else some fill := by
  obtain ⟨r, hr, hlen, hv⟩ := diff_spec sub (xs.map log) d fill hd
  refine ⟨r, hr, by simpa using hlen, ?_⟩
  intro i hi
  have := hv i (by simpa using hi)
  simpa using this

example : lag [10, 20, 30] 3 (0 : Int) = List.replicate 3 0 := lag_out_of_range _ _ _ (by decide)
example : lag [10, 20, 30] (-5) (0 : Int) = List.replicate 3 0 := lag_out_of_range _ _ _ (by decide)
example : lag (lag [10, 20, 30, 40] 1 (0 : Int)) 2 0 = lag [10, 20, 30, 40] 3 0 := lag_lag _ _ _ _ (by decide)
example : ∃ r, dlog (· - ·) (· * 2) [10, 20, 40] 1 (0 : Int) = some r ∧ r[2]? = some (80 - 40) := by
  obtain ⟨r, h, _, hv⟩ := dlog_spec (· - ·) (· * 2) [10, 20, 40] 1 (0 : Int) (by decide)
  exact ⟨r, h, by rw [hv 2 (by decide)]; decide⟩

/-! ### Purity: the input array is never modified (memory layer)

`shiftM`/`diffM`/`dlogM` run the same code over a memory of array cells.  `*_value` ties the memory layer to the
value layer above; `*_frame` says that every array that existed before the call — in particular the input `x` —
reads the same afterwards.  (For `p = 0` / `d = 0` the returned location is the input's own, which the property
allows; nothing is written in that case either.) -/

theorem shiftM_value (m : Mem α) (x : Nat) (p : Int) (fill : α) (_hx : x < m.cells.length) :
    (shiftM m x p fill).1.read (shiftM m x p fill).2 = shift (m.read x) p fill := by
  unfold shiftM shift
  by_cases h0 : p = 0
  · simp [h0]
  · simp only [h0, if_false]
    unfold assignShiftFill
    have hsz := Mem.alloc_size m (roll (m.read x) p)
    have hloc := Mem.alloc_loc m (roll (m.read x) p)
    by_cases hp : p > 0
    · simp only [hp, if_true]
      rw [Mem.read_modify_eq _ _ _ (by rw [hsz, hloc]; omega), Mem.read_alloc_new]
    · simp only [hp, if_false]
      rw [Mem.read_modify_eq _ _ _ (by rw [hsz, hloc]; omega), Mem.read_alloc_new]

theorem shiftM_frame (m : Mem α) (x : Nat) (p : Int) (fill : α) (l : Nat) (hl : l < m.cells.length) :
    (shiftM m x p fill).1.read l = m.read l ∧ m.cells.length ≤ (shiftM m x p fill).1.cells.length := by
  unfold shiftM
  by_cases h0 : p = 0
  · simp [h0]
  · simp only [h0, if_false]
    unfold assignShiftFill
    have hloc := Mem.alloc_loc m (roll (m.read x) p)
    have hsz := Mem.alloc_size m (roll (m.read x) p)
    by_cases hp : p > 0
    · simp only [hp, if_true]
      refine ⟨?_, by rw [Mem.modify_size, hsz]; omega⟩
      rw [Mem.read_modify_ne _ _ _ _ (by rw [hloc]; omega), Mem.read_alloc_old _ _ _ hl]
    · simp only [hp, if_false]
      refine ⟨?_, by rw [Mem.modify_size, hsz]; omega⟩
      rw [Mem.read_modify_ne _ _ _ _ (by rw [hloc]; omega), Mem.read_alloc_old _ _ _ hl]

/-- **lag / lead never modify their input** and return what the value layer says. -/
theorem lag_lead_pure (m : Mem α) (x : Nat) (p : Int) (fill : α) (hx : x < m.cells.length) :
    (lagM m x p fill).1.read x = m.read x ∧
    (lagM m x p fill).1.read (lagM m x p fill).2 = lag (m.read x) p fill ∧
    (leadM m x p fill).1.read x = m.read x ∧
    (leadM m x p fill).1.read (leadM m x p fill).2 = lead (m.read x) p fill :=
  ⟨(shiftM_frame m x p fill x hx).1, shiftM_value m x p fill hx,
   (shiftM_frame m x (-p) fill x hx).1, shiftM_value m x (-p) fill hx⟩

theorem diffAfterLag_frame (sub : α → α → α) (x : Nat) (d : Int) (fill : α) (ml : Mem α × Nat)
    (l : Nat) (hl : l < ml.1.cells.length) :
    (diffAfterLag sub x d fill ml).1.read l = ml.1.read l := by
  unfold diffAfterLag
  have hloc := Mem.alloc_loc ml.1 (List.zipWith sub (ml.1.read x) (ml.1.read ml.2))
  simp only []
  rw [Mem.read_modify_ne _ _ _ _ (by rw [hloc]; omega), Mem.read_alloc_old _ _ _ hl]

theorem diffAfterLag_value (sub : α → α → α) (x : Nat) (d : Int) (fill : α) (ml : Mem α × Nat) :
    (diffAfterLag sub x d fill ml).1.read (diffAfterLag sub x d fill ml).2 =
      assignPrefix (List.zipWith sub (ml.1.read x) (ml.1.read ml.2)) d fill := by
  unfold diffAfterLag
  have hloc := Mem.alloc_loc ml.1 (List.zipWith sub (ml.1.read x) (ml.1.read ml.2))
  have hsz := Mem.alloc_size ml.1 (List.zipWith sub (ml.1.read x) (ml.1.read ml.2))
  simp only []
  rw [Mem.read_modify_eq _ _ _ (by rw [hsz, hloc]; omega), Mem.read_alloc_new]

/-- **diff never modifies its input** (nor any other existing array) and returns what the value layer says. -/
theorem diff_pure (sub : α → α → α) (m : Mem α) (x : Nat) (d : Int) (fill : α) (hx : x < m.cells.length) :
    match diffM sub m x d fill, diff sub (m.read x) d fill with
    | some (m', r), some v => m'.read r = v ∧ ∀ l, l < m.cells.length → m'.read l = m.read l
    | none, none => True
    | _, _ => False := by
  unfold diffM diff
  by_cases h0 : d = 0
  · simp [h0]
  · simp only [h0, if_false]
    by_cases hp : d > 0
    · simp only [hp, if_true]
      have hfr := shiftM_frame m x d fill
      refine ⟨?_, ?_⟩
      · rw [diffAfterLag_value]
        unfold lagM
        rw [(hfr x hx).1, shiftM_value m x d fill hx]
        rfl
      · intro l hl
        rw [diffAfterLag_frame _ _ _ _ _ _ (by unfold lagM; have := (hfr l hl).2; omega)]
        exact (hfr l hl).1
    · simp [hp]

/-- **dlog never modifies its input.** -/
theorem dlog_pure (sub : α → α → α) (log : α → α) (m : Mem α) (x : Nat) (d : Int) (fill : α)
    (_hx : x < m.cells.length) :
    match dlogM sub log m x d fill, dlog sub log (m.read x) d fill with
    | some (m', r), some v => m'.read r = v ∧ ∀ l, l < m.cells.length → m'.read l = m.read l
    | none, none => True
    | _, _ => False := by
  unfold dlogM dlog
  have hsz := Mem.alloc_size m ((m.read x).map log)
  have hloc := Mem.alloc_loc m ((m.read x).map log)
  have h := diff_pure sub (m.alloc ((m.read x).map log)).1 (m.alloc ((m.read x).map log)).2 d fill
    (by rw [hsz, hloc]; omega)
  rw [Mem.read_alloc_new] at h
  revert h
  cases diffM sub (m.alloc ((m.read x).map log)).1 (m.alloc ((m.read x).map log)).2 d fill <;>
    cases diff sub ((m.read x).map log) d fill <;> simp
  intro hv hf
  refine ⟨hv, ?_⟩
  intro l hl
  rw [hf l (by rw [hsz]; omega), Mem.read_alloc_old _ _ _ hl]

example : (diffM (· - ·) (⟨[[10, 20, 40]]⟩ : Mem Int) 0 1 0).map (fun r => (r.1.read 0, r.1.read r.2)) =
    some ([10, 20, 40], [0, 10, 20]) := by decide


/-! ## Part 2 — `eval()`

`_resolve_expression_indexes` = `index_re.sub(resolve_indexes, expression)`.  In the model the expression is cut
into segments (`segments`: literal characters and regex matches with their `group(1)` / `group(0)`), and every
match is replaced by `resolveMatch sp group text`.  Theorems are for every span (`Span` is a parameter:
membership + location) and every expression.  That `segments` is what Python's `re` finds is tied to the code by
the exhaustive correspondence check (all short bracket texts), not proved. -/

open Fsic.EvalIdx

/-- A group is "purely positional" when it is absent or has no backtick. -/
def Positional (g : Option (List Char)) : Prop := ∀ t, g = some t → t.contains '`' = false

/-- **positional_untouched (one match).**  A bracket group without a backtick is returned verbatim — whatever
    it contains (`[0:2]`, `[1+1]`, `[[0, 1]]`, `[ ]`, …) and whatever the span. -/
theorem positional_group_verbatim (sp : Span) (g : Option (List Char)) (text : List Char) (h : Positional g) :
    resolveMatch sp g text = .ok text := by
  have hs : resolveGroupSem sp g = .ok .verbatim := by
    unfold resolveGroupSem
    split
    · rfl
    · rename_i t
      have ht := h t rfl
      have hm : '`' ∉ t := by simpa using ht
      simp [hm]
  unfold resolveMatch
  rw [hs]
  rfl

/-- **positional_untouched (every expression).**  Wherever a purely positional match sits among the segments
    of an expression — before, after or between backticked groups — its text goes to the output unchanged and the
    rest is processed independently.  Together with `segments_cover` (the segments, read back, are the
    expression) this is the property's "purely positional indexes and slices keep their ordinary Python meaning
    wherever they appear". -/
theorem positional_untouched (sp : Span) (pre post : List Seg) (g : Option (List Char)) (text : List Char)
    (h : Positional g) :
    substitute (resolveMatch sp) (pre ++ .grp g text :: post) =
      match substitute (resolveMatch sp) pre, substitute (resolveMatch sp) post with
      | .ok a, .ok b => .ok (a ++ (text ++ b))
      | .error e, _ => .error e
      | .ok _, .error e => .error e := by
  rw [substitute_append]
  simp only [substitute, positional_group_verbatim sp g text h]
  cases substitute (resolveMatch sp) pre with
  | error e => rfl
  | ok a => cases substitute (resolveMatch sp) post <;> simp [Except.map]

theorem segments_cover (e : List Char) : (segments e 0).flatMap Seg.text = e := by
  simpa using segments_text e 0

/-- If every match of an expression is purely positional the expression is returned as it is. -/
theorem positional_expression_identity (sp : Span) (ss : List Seg)
    (h : ∀ g t, Seg.grp g t ∈ ss → Positional g) :
    substitute (resolveMatch sp) ss = .ok (ss.flatMap Seg.text) := by
  induction ss with
  | nil => rfl
  | cons x xs ih =>
    have ih' := ih (fun g t hm => h g t (by simp [hm]))
    cases x with
    | lit c => simp [substitute, ih', Seg.text, Except.map]
    | grp g t =>
      simp [substitute, positional_group_verbatim sp g t (h g t (by simp)), ih', Seg.text, Except.map]

example : segments ['X', '[', '`', '1', '`', ']', '+', 'Y', '[', '0', ':', '2', ']'] 0 =
    [.lit 'X', .grp (some ['`', '1', '`']) ['[', '`', '1', '`', ']'], .lit '+', .lit 'Y',
     .grp (some ['0', ':', '2']) ['[', '0', ':', '2', ']']] := by decide
example : Positional (some ['0', ':', '2']) := by
  intro t h
  cases h
  decide

/-- An expression without any backtick is not rewritten at all (`eval` does not even call the rewriting). -/
theorem no_backtick_identity (sp : Span) (expr : List Char) (h : expr.contains '`' = false) :
    resolveExpression sp expr = .ok expr := by
  have hm : '`' ∉ expr := by simpa using h
  simp [resolveExpression, hm]

/-- **A backticked label is rewritten to the position label indexing uses.**  `txt` is the bracket content
    (blanks around the backticks allowed); `l` is the label object the text denotes (the string if the span has
    it, else the integer it spells); `obj[name, l]` reads `values[sp.locate l]`. -/
theorem resolve_index_label (sp : Span) (txt : List Char) (l : Label) (k : Int) (py : Bool)
    (hbt : txt.contains '`' = true) (hcol : ∀ c ∈ txt, c ≠ ':')
    (hden : denotes sp (periodText txt) = some l) (hloc : sp.locate l = .pos k py) :
    resolveGroupSem sp (some txt) = .ok (.index k) := by
  have hm : '`' ∈ txt := by simpa using hbt
  simp [resolveGroupSem, splitOn_no_sep ':' txt hcol, resolveParts, resolveSingle, resolveIndexInSpan, hm, hden,
    hloc, ixOfLoc]

example : resolveGroupSem (listSpan [.int 2000, .int 2001, .int 2002]) (some [' ', '`', '2', '0', '0', '1', '`', ' '])
    = .ok (.index 1) := rfl
example : resolveGroupSem (listSpan [.str ['2', '0', '0', '1'], .int 2001]) (some ['`', '2', '0', '0', '1', '`'])
    = .ok (.index 0) := rfl
example : periodText ['`', '2', '0', '0', '1', '`'] = ['2', '0', '0', '1'] :=
  periodText_backticked ['2', '0', '0', '1'] (by decide)

/-- Resolution of one backticked slice component to a bound. -/
theorem startBound_label (sp : Span) (a : List Char) (la : Label) (ka : Int) (pa : Bool)
    (ha : a.contains '`' = true) (hda : denotes sp (periodText a) = some la) (hla : sp.locate la = .pos ka pa) :
    startBound sp a = .ok (.val ka) := by
  have hm : '`' ∈ a := by simpa using ha
  simp [startBound, hm, resolveIndexInSpan, hda, hla, ixOfLoc]

theorem stopBound_label (sp : Span) (b : List Char) (lb : Label) (kb : Int) (pb : Bool)
    (hb : b.contains '`' = true) (hdb : denotes sp (periodText b) = some lb) (hlb : sp.locate lb = .pos kb pb) :
    stopBound sp b = .ok (.val (if pb then kb + 1 else kb)) := by
  have hm : '`' ∈ b := by simpa using hb
  simp [stopBound, hm, resolveIndexInSpan, hdb, hlb, ixOfLoc]

/-- A slice component without a backtick keeps its (stripped) text: it is neither parsed nor incremented. -/
theorem bound_positional (sp : Span) (t : List Char) (h : t.contains '`' = false) :
    startBound sp t = .ok (.text t) ∧ stopBound sp t = .ok (.text t) := by
  have hm : '`' ∉ t := by simpa using h
  simp [startBound, stopBound, hm]

/-- **Backticked label slices are inclusive of the stop label** — when the locator returns Python ints
    (list / tuple / range / NumPy spans: `builtin_spans_python_int`; pandas `get_loc`): `` [`a`:`b`] `` becomes
    `[pos a : pos b + 1 :]`, exactly the bounds `_resolve_period_slice` computes for `obj[name, a:b]`.
    (`a`, `b` are the two components as they stand between the brackets; the code strips them first.) -/
theorem resolve_labels_spec (sp : Span) (a b : List Char) (la lb : Label) (ka kb : Int)
    (hca : ∀ c ∈ a, c ≠ ':') (hcb : ∀ c ∈ b, c ≠ ':')
    (ha : (strip a).contains '`' = true) (hb : (strip b).contains '`' = true)
    (hda : denotes sp (periodText (strip a)) = some la) (hdb : denotes sp (periodText (strip b)) = some lb)
    (hla : sp.locate la = .pos ka true) (hlb : sp.locate lb = .pos kb true) :
    resolveGroupSem sp (some (a ++ ':' :: b)) = .ok (.slice (.val ka) (.val (kb + 1)) []) ∧
    labelSliceBounds sp la lb = .ok (ka, kb + 1) := by
  refine ⟨?_, by simp [labelSliceBounds, hla, hlb]⟩
  have hg : (a ++ ':' :: b).contains '`' = true :=
    contains_append_left _ _ _ (contains_of_strip_contains _ _ ha)
  simp only [resolveGroupSem, hg, if_true, splitOn_append_sep ':' a b hca, splitOn_no_sep ':' b hcb, resolveParts]
  rw [startBound_label sp _ la ka true ha hda hla, stopBound_label sp _ lb kb true hb hdb hlb]
  rfl

example : resolveGroupSem (listSpan [.int 2000, .int 2001, .int 2002, .int 2003])
    (some ['`', '2', '0', '0', '1', '`', ':', ' ', '`', '2', '0', '0', '2', '`']) =
    .ok (.slice (.val 1) (.val 3) []) := rfl

/-- With a step: the step text is copied verbatim (stripped). -/
theorem resolve_labels_spec_step (sp : Span) (a b s : List Char) (la lb : Label) (ka kb : Int)
    (hca : ∀ c ∈ a, c ≠ ':') (hcb : ∀ c ∈ b, c ≠ ':') (hcs : ∀ c ∈ s, c ≠ ':')
    (ha : (strip a).contains '`' = true) (hb : (strip b).contains '`' = true)
    (hda : denotes sp (periodText (strip a)) = some la) (hdb : denotes sp (periodText (strip b)) = some lb)
    (hla : sp.locate la = .pos ka true) (hlb : sp.locate lb = .pos kb true) :
    resolveGroupSem sp (some (a ++ ':' :: (b ++ ':' :: s))) = .ok (.slice (.val ka) (.val (kb + 1)) (strip s)) := by
  have hg : (a ++ ':' :: (b ++ ':' :: s)).contains '`' = true :=
    contains_append_left _ _ _ (contains_of_strip_contains _ _ ha)
  simp only [resolveGroupSem, hg, if_true, splitOn_append_sep ':' a _ hca, splitOn_append_sep ':' b s hcb,
    splitOn_no_sep ':' s hcs, resolveParts]
  rw [startBound_label sp _ la ka true ha hda hla, stopBound_label sp _ lb kb true hb hdb hlb]
  rfl

/-- **Mixed slice, positional start:** `` [2:`b`] `` keeps the start text and includes `b`
    (open start `` [:`b`] `` is the case `strip a = []`). -/
theorem mixed_slice_positional_start (sp : Span) (a b : List Char) (lb : Label) (kb : Int)
    (hca : ∀ c ∈ a, c ≠ ':') (hcb : ∀ c ∈ b, c ≠ ':') (ha : (strip a).contains '`' = false)
    (hb : (strip b).contains '`' = true) (hdb : denotes sp (periodText (strip b)) = some lb)
    (hlb : sp.locate lb = .pos kb true) :
    resolveGroupSem sp (some (a ++ ':' :: b)) = .ok (.slice (.text (strip a)) (.val (kb + 1)) []) := by
  have hg : (a ++ ':' :: b).contains '`' = true :=
    contains_append_right _ _ _ (by
      have := contains_of_strip_contains _ _ hb
      have hm : '`' ∈ b := by simpa using this
      simp [hm])
  simp only [resolveGroupSem, hg, if_true, splitOn_append_sep ':' a b hca, splitOn_no_sep ':' b hcb, resolveParts]
  rw [stopBound_label sp _ lb kb true hb hdb hlb, (bound_positional sp _ ha).1]
  rfl

/-- **Mixed slice, positional stop:** `` [`a`:4] `` starts at `a` and keeps the stop text — the `stop += 1` rule
    applies only to a resolved label (open stop `` [`a`:] `` is the case `strip b = []`). -/
theorem mixed_slice_positional_stop (sp : Span) (a b : List Char) (la : Label) (ka : Int) (pa : Bool)
    (hca : ∀ c ∈ a, c ≠ ':') (hcb : ∀ c ∈ b, c ≠ ':') (hb : (strip b).contains '`' = false)
    (ha : (strip a).contains '`' = true) (hda : denotes sp (periodText (strip a)) = some la)
    (hla : sp.locate la = .pos ka pa) :
    resolveGroupSem sp (some (a ++ ':' :: b)) = .ok (.slice (.val ka) (.text (strip b)) []) := by
  have hg : (a ++ ':' :: b).contains '`' = true :=
    contains_append_left _ _ _ (contains_of_strip_contains _ _ ha)
  simp only [resolveGroupSem, hg, if_true, splitOn_append_sep ':' a b hca, splitOn_no_sep ':' b hcb, resolveParts]
  rw [startBound_label sp _ la ka pa ha hda hla, (bound_positional sp _ hb).2]
  rfl

example : resolveGroupSem (listSpan [.int 2000, .int 2001, .int 2002]) (some [':', '`', '2', '0', '0', '1', '`'])
    = .ok (.slice (.text []) (.val 2) []) := rfl
example : resolveGroupSem (listSpan [.int 2000, .int 2001, .int 2002]) (some ['1', ':', '`', '2', '0', '0', '2', '`'])
    = .ok (.slice (.text ['1']) (.val 3) []) := rfl
example : resolveGroupSem (listSpan [.int 2000, .int 2001, .int 2002]) (some ['`', '2', '0', '0', '1', '`', ':', ' ', '3'])
    = .ok (.slice (.val 1) (.text ['3']) []) := rfl

/-- The guard of `resolve_labels_spec` (the locator returns Python ints) holds for the two span models that the
    code itself implements: list-like spans (`.index`) and NumPy-array spans (fallback locator, `int(...)`).
    For pandas spans it is a fact about `get_loc` (an input, recorded by the correspondence check). -/
theorem builtin_spans_python_int (xs : List Label) (l : Label) (k : Int) (py : Bool) :
    ((listSpan xs).locate l = .pos k py → py = true) ∧ ((numpySpan xs).locate l = .pos k py → py = true) := by
  constructor
  · intro h
    simp only [listSpan] at h
    cases hf : firstIndex l xs <;> simp [hf, locOfIndex] at h
    exact h.2
  · intro h
    simp only [numpySpan] at h
    split at h
    · cases hf : firstIndex l xs <;> simp [hf, locOfIndex] at h
      exact h.2
    · exact absurd h (by simp)

example : resolveGroupSem (numpySpan [.int 2000, .int 2001, .int 2002])
    (some ['`', '2', '0', '0', '1', '`', ':', '`', '2', '0', '0', '2', '`']) = .ok (.slice (.val 1) (.val 3) []) := rfl

/-- A label that is neither a string label of the span nor spells an integer label of it: KeyError, never
    another period. -/
theorem missing_label_keyerror (sp : Span) (txt : List Char)
    (hbt : txt.contains '`' = true) (hcol : ∀ c ∈ txt, c ≠ ':') (hden : denotes sp (periodText txt) = none) :
    resolveGroupSem sp (some txt) = .error .keyError := by
  have hm : '`' ∈ txt := by simpa using hbt
  simp [hm, resolveGroupSem, splitOn_no_sep ':' txt hcol, resolveParts, resolveSingle, resolveIndexInSpan, hden]

example : resolveGroupSem (listSpan [.int 2000, .int 2001]) (some ['`', '1', '9', '`']) = .error .keyError := rfl

/-! ### Namespace -/

/-- **Precedence.**  With `builtins=None` a name resolves to the caller's local if there is one, else to the
    container variable, else to the helper of the package table. -/
theorem namespace_precedence {V : Type} (w : NsWorld V) (vars : Dict V) (locals_ : Option (Dict V)) (k : String) :
    ((assemble w none vars locals_).1.read (assemble w none vars locals_).2).get k =
      (((locals_.getD []).get k).or ((vars.get k).or ((w.read 0).get k))) := by
  simp [assemble, nsTarget, NsWorld.read, List.getD, Fsic.setAt_getElem?_eq, Dict.update, Dict.get,
    List.lookup_append, Option.or_assoc]

example : ((assemble (⟨[[("lag", 0), ("log", 1)]]⟩ : NsWorld Nat) none [("X", 10), ("lag", 11)] (some [("X", 20)])).1.read
    (assemble (⟨[[("lag", 0), ("log", 1)]]⟩ : NsWorld Nat) none [("X", 10), ("lag", 11)] (some [("X", 20)])).2).get "lag"
    = some 11 := by decide

/-- **No mutation of the package-level helper table** (nor of any other pre-existing dict) when `builtins` is
    `None`: the updates go to the deep copy.  (The container is not in this world at all: `eval` only reads it to
    build `vars`.  With a caller-supplied `builtins` dict the updates go to THAT dict, as the code does.) -/
theorem eval_no_mutation {V : Type} (w : NsWorld V) (vars : Dict V) (locals_ : Option (Dict V)) (l : Nat)
    (hl : l < w.dicts.length) :
    (assemble w none vars locals_).1.read l = w.read l := by
  have hne : w.dicts.length ≠ l := by omega
  simp [assemble, nsTarget, NsWorld.read, List.getD, Fsic.setAt_getElem?_ne _ _ _ _ hne,
    List.getElem?_append_left hl]

/-- **Undefined names.**  A name bound in no layer (no caller local, no variable, no helper) ends in
    AttributeError naming it — for every list of closest-match suggestions (none, one, several). -/
theorem undefined_name_attributeError {V : Type} (w : NsWorld V) (vars : Dict V) (locals_ : Option (Dict V))
    (suggestions : List String) (name : String)
    (hl : (locals_.getD []).get name = none) (hv : vars.get name = none) (hh : (w.read 0).get name = none) :
    evalName ((assemble w none vars locals_).1.read (assemble w none vars locals_).2) suggestions name =
      .attributeError name := by
  have h := namespace_precedence w vars locals_ name
  rw [hl, hv, hh] at h
  simp only [Option.or] at h
  unfold evalName
  rw [h]
  cases suggestions <;> rfl

example : evalName ([("GDP", 1), ("gdp", 2)] : Dict Nat) ["GDP", "gdp"] "Gdp" = .attributeError "Gdp" := by decide

/-! ### eval inside histories -/

/-- **eval depends only on the final store.**  Two histories (any operations, any earlier `eval` calls) that
    leave the same variable store give the same namespace to the next `eval`. -/
theorem eval_depends_only_on_final_store {V : Type} (w : NsWorld V) (s s' : Dict V) (ops ops' : List (StoreOp V))
    (locals_ : Option (Dict V)) (h : applyOps s ops = applyOps s' ops') :
    namespaceAfter w s ops locals_ = namespaceAfter w s' ops' locals_ := by
  unfold namespaceAfter
  rw [h]

/-- **Earlier eval calls leave no trace**: deleting every `eval` from a history does not change the store the
    next `eval` reads. -/
theorem earlier_evals_do_not_matter {V : Type} (s : Dict V) (ops : List (StoreOp V)) :
    applyOps s (ops.filter fun o => !o.isEval) = applyOps s ops := by
  unfold applyOps
  induction ops generalizing s with
  | nil => rfl
  | cons o os ih =>
    simp only [List.filter_cons]
    cases h : o.isEval
    · simp only [Bool.not_false, if_true, List.foldl_cons]
      exact ih _
    · have hs : applyOp s o = s := by
        cases o <;> simp [StoreOp.isEval] at h
        rfl
      simp only [Bool.not_true, List.foldl_cons, hs]
      exact ih s

/-- **After a whole-series assignment the next eval sees the NEW series** — whatever happened before (including
    `eval` calls that saw the old one), as long as no caller local shadows the name. -/
theorem rebind_then_eval {V : Type} (w : NsWorld V) (s0 : Dict V) (ops : List (StoreOp V)) (x : String) (v : V) :
    (namespaceAfter w s0 (ops ++ [.eval, .rebind x v]) none).get x = some v := by
  unfold namespaceAfter
  rw [namespace_precedence]
  simp [applyOps, List.foldl_append, applyOp, Dict.get, List.lookup]

example : (namespaceAfter (⟨[[("lag", 0)]]⟩ : NsWorld Nat) [("X", 1), ("Y", 2)] [.eval, .rebind "X" 7, .eval] none).get "X"
    = some 7 := by decide

/-! ## Non-vacuity (review): the hypotheses of the theorems above at concrete instances -/

-- lag_spec / lead_spec: `hi`, inside and outside the array
example : (lag [10, 20, 30, 40] 1 (0 : Int))[2]? = some 20 ∧ (lag [10, 20, 30, 40] 1 (0 : Int))[0]? = some 0 :=
  ⟨by rw [lag_spec _ _ _ 2 (by decide)]; decide, by rw [lag_spec _ _ _ 0 (by decide)]; decide⟩
example : (lead [10, 20, 30, 40] 3 (0 : Int))[0]? = some 40 := by rw [lead_spec _ _ _ 0 (by decide)]; decide
-- diff_spec / diff_spec_partial: hd, hi, h at d = 2, i = 3; diff_neg: hd
example : ∃ r, diff (· - ·) [10, 20, 40, 70] 2 (0 : Int) = some r ∧ r[3]? = some (70 - 20) :=
  diff_spec_partial (· - ·) [10, 20, 40, 70] 2 0 (by decide) 3 (by decide) (by decide)
example : diff (· - ·) [10, 20, 40, 70] (-1) (0 : Int) = none := diff_neg _ _ _ _ (by decide)
-- lag_lead_pure / diff_pure / dlog_pure: `hx` in a memory with two arrays (the second is the input)
example : (lagM (⟨[[1, 2], [10, 20, 40]]⟩ : Mem Int) 1 1 0).1.read 1 = [10, 20, 40] ∧
    (lagM (⟨[[1, 2], [10, 20, 40]]⟩ : Mem Int) 1 1 0).1.read (lagM (⟨[[1, 2], [10, 20, 40]]⟩ : Mem Int) 1 1 0).2 =
      [0, 10, 20] := by
  have h := lag_lead_pure (⟨[[1, 2], [10, 20, 40]]⟩ : Mem Int) 1 1 0 (by decide)
  exact ⟨h.1, h.2.1.trans (by decide)⟩
example : (dlogM (· - ·) (· * 2) (⟨[[1, 2], [10, 20, 40]]⟩ : Mem Int) 1 1 0).map (fun r => (r.1.read 1, r.1.read r.2)) =
    some ([10, 20, 40], [0, 20, 40]) := by decide
-- positional_group_verbatim / positional_untouched / positional_expression_identity: `Positional` for a real slice
-- group sitting after a backticked group
theorem exPos : Positional (some ['0', ':', '2']) := by intro t h; cases h; decide
example : substitute (resolveMatch (listSpan [.int 1, .int 2]))
    ([.lit 'X', .grp (some ['`', '1', '`']) ['[', '`', '1', '`', ']'], .lit '+', .lit 'Y'] ++
      .grp (some ['0', ':', '2']) ['[', '0', ':', '2', ']'] :: [.lit '*', .lit '2']) =
    .ok ['X', '[', '0', ']', '+', 'Y', '[', '0', ':', '2', ']', '*', '2'] := by
  rw [positional_untouched _ _ _ _ _ exPos]; rfl
example : substitute (resolveMatch (listSpan [.int 1])) [.lit 'Y', .grp (some ['0', ':', '2']) ['[', '0', ':', '2', ']']] =
    .ok ['Y', '[', '0', ':', '2', ']'] :=
  positional_expression_identity _ _ (by
    intro g t h
    simp only [List.mem_cons, List.not_mem_nil, or_false, reduceCtorEq, false_or, Seg.grp.injEq] at h
    rw [h.1]; exact exPos)
-- no_backtick_identity: `h`
example : resolveExpression (listSpan [.int 1]) ['Y', '[', '0', ':', '2', ']'] = .ok ['Y', '[', '0', ':', '2', ']'] :=
  no_backtick_identity _ _ (by decide)

/-- The span `[2000, 2001, 2002, 2003]`. -/
def exSpan : Span := listSpan [.int 2000, .int 2001, .int 2002, .int 2003]
-- resolve_index_label: hbt, hcol, hden, hloc
example : resolveGroupSem exSpan (some [' ', '`', '2', '0', '0', '1', '`', ' ']) = .ok (.index 1) :=
  resolve_index_label exSpan _ (.int 2001) 1 true (by decide) (by decide) (by decide) (by decide)
-- resolve_labels_spec: all eight hypotheses (`[`2001`: `2002`]`)
example : resolveGroupSem exSpan (some (['`', '2', '0', '0', '1', '`'] ++ ':' :: [' ', '`', '2', '0', '0', '2', '`'])) =
      .ok (.slice (.val 1) (.val (2 + 1)) []) ∧ labelSliceBounds exSpan (.int 2001) (.int 2002) = .ok (1, 2 + 1) :=
  resolve_labels_spec exSpan _ _ (.int 2001) (.int 2002) 1 2 (by decide) (by decide) (by decide) (by decide)
    (by decide) (by decide) (by decide) (by decide)
-- resolve_labels_spec_step: the same with a step `2`
example : resolveGroupSem exSpan
    (some (['`', '2', '0', '0', '0', '`'] ++ ':' :: (['`', '2', '0', '0', '2', '`'] ++ ':' :: [' ', '2']))) =
      .ok (.slice (.val 0) (.val (2 + 1)) (strip [' ', '2'])) :=
  resolve_labels_spec_step exSpan _ _ _ (.int 2000) (.int 2002) 0 2 (by decide) (by decide) (by decide) (by decide)
    (by decide) (by decide) (by decide) (by decide) (by decide)
-- mixed_slice_positional_start / _stop: all hypotheses
example : resolveGroupSem exSpan (some (['1'] ++ ':' :: ['`', '2', '0', '0', '2', '`'])) =
    .ok (.slice (.text (strip ['1'])) (.val (2 + 1)) []) :=
  mixed_slice_positional_start exSpan _ _ (.int 2002) 2 (by decide) (by decide) (by decide) (by decide) (by decide)
    (by decide)
example : resolveGroupSem exSpan (some (['`', '2', '0', '0', '1', '`'] ++ ':' :: [' ', '3'])) =
    .ok (.slice (.val 1) (.text (strip [' ', '3'])) []) :=
  mixed_slice_positional_stop exSpan _ _ (.int 2001) 1 true (by decide) (by decide) (by decide) (by decide) (by decide)
    (by decide)
-- bound_positional: `h`
example : startBound exSpan ['3'] = .ok (.text ['3']) ∧ stopBound exSpan ['3'] = .ok (.text ['3']) :=
  bound_positional exSpan ['3'] (by decide)
-- builtin_spans_python_int: the premise holds with a real position
example : exSpan.locate (.int 2002) = .pos 2 true := by decide
-- missing_label_keyerror: hbt, hcol, hden
example : resolveGroupSem exSpan (some ['`', '1', '9', '`']) = .error .keyError :=
  missing_label_keyerror exSpan _ (by decide) (by decide) (by decide)
-- eval_no_mutation: `hl` (the helper table is dict 0) with real variables and locals
example : (assemble (⟨[[("lag", 0), ("log", 1)]]⟩ : NsWorld Nat) none [("X", 10), ("lag", 11)] (some [("X", 20)])).1.read 0 =
    [("lag", 0), ("log", 1)] :=
  eval_no_mutation _ _ _ 0 (by decide)
-- undefined_name_attributeError: hl, hv, hh with non-empty locals, variables and helper table
example : evalName ((assemble (⟨[[("lag", 0)]]⟩ : NsWorld Nat) none [("GDP", 1)] (some [("k", 2)])).1.read
      (assemble (⟨[[("lag", 0)]]⟩ : NsWorld Nat) none [("GDP", 1)] (some [("k", 2)])).2) ["GDP"] "Gdp" =
    .attributeError "Gdp" :=
  undefined_name_attributeError _ _ _ _ _ (by decide) (by decide) (by decide)
-- eval_depends_only_on_final_store: `h` for two different histories with the same final store
example : applyOps [("X", 1)] [StoreOp.eval, .rebind "Y" 5] = applyOps [("X", 1)] [StoreOp.rebind "Y" (5 : Nat), .eval, .eval] := by
  decide

end Fsic.C16
