import Proofs.Lemmas.Solver
import Proofs.Lemmas.SolverOutcome
import Proofs.Lemmas.SolverSound
import Proofs.Lemmas.SolverTable
/-
C02 — Per-period solve: status, iteration count, result flag and convergence agree.

Property theorems only (helper lemmas are in `Proofs/Lemmas/Solver.lean`).  All statements are for an
arbitrary interpretation `I : Interp σ V` — every model, every hook, every float semantics, every number of
check variables — every option set `o`, every span length `n` and period index `t`.
-/
set_option linter.unusedSimpArgs false
namespace Fsic.C02
open Fsic

variable {σ V : Type} (I : Interp σ V) (o : Opts) (n : Nat) (t : Int) (w : World σ)

/-- `min_iter > max_iter` is rejected with ValueError before anything changes. -/
theorem solveT_min_gt_max (h : o.minIter > o.maxIter) : solveT I o n t w = (w, .valueError) := by
  simp [solveT, h]

/-- A non-zero offset that points outside the span raises IndexError with no change. -/
theorem solveT_offset_oob (h0 : ¬ o.minIter > o.maxIter) (h1 : o.offset ≠ 0)
    (h2 : normT n t + o.offset < 0 ∨ normT n t + o.offset ≥ n) :
    solveT I o n t w = (w, .indexError) := by
  unfold solveT
  by_cases hf : normT n t - ↑I.lags < 0 ∨ normT n t + ↑I.leads ≥ ↑n
  · simp [h0, hf]
  · rcases h2 with h2 | h2
    · simp [h0, hf, h1, h2]
    · by_cases h3 : normT n t + o.offset < 0 <;> simp [h0, hf, h1, h2, h3]

/-- A period that cannot accommodate the model's lags or leads is rejected with IndexError, nothing changes. -/
theorem solveT_infeasible (h0 : ¬ o.minIter > o.maxIter) (hf : ¬ Feasible I n t) :
    solveT I o n t w = (w, .indexError) := by
  have hf' : normT n t - ↑I.lags < 0 ∨ normT n t + ↑I.leads ≥ ↑n := by
    unfold Feasible at hf; omega
  simp [solveT, h0, hf']

/-- Otherwise the solve proceeds from the state with the endogenous values of `t + offset` copied into `t`
    (and from the unchanged state when `offset = 0`). -/
theorem solveT_offset_copy (h0 : ¬ o.minIter > o.maxIter) (hf : Feasible I n t) (h1 : o.offset ≠ 0)
    (h2 : 0 ≤ normT n t + o.offset) (h3 : normT n t + o.offset < n) :
    solveT I o n t w = solveCore I o n t w (I.copyOffset w.user t o.offset) := by
  rw [solveT_accepted I o n t w ⟨h0, hf, Or.inr ⟨h2, h3⟩⟩]
  simp [seed, h1]

theorem solveT_offset_zero (h0 : ¬ o.minIter > o.maxIter) (hf : Feasible I n t) (h1 : o.offset = 0) :
    solveT I o n t w = solveCore I o n t w w.user := by
  rw [solveT_accepted I o n t w ⟨h0, hf, Or.inl h1⟩]
  simp [seed, h1]

/-- The code indexes the source period with the un-normalised sum `t + offset`; whenever the range test
    passes, Python's index normalisation sends that to position `t_check + offset`. -/
theorem pyIndex_offset (off : Int) (_ht : -(n : Int) ≤ t) (_ht' : t < n)
    (h2 : 0 ≤ normT n t + off) (h3 : normT n t + off < n) :
    pyIndex n (t + off) = some (normT n t + off).toNat := by
  unfold normT at *
  unfold pyIndex
  by_cases hneg : t < 0
  · simp only [hneg, if_true] at h2 h3 ⊢
    have : ¬ (0 ≤ t + off) := by omega
    have h4 : 0 ≤ t + off + ↑n := by omega
    simp only [this, if_false, h4, if_true]
    congr 2; omega
  · simp only [hneg, if_false] at h2 h3 ⊢
    simp [h2, h3]

/-! The loop proper.  `u1` is the state after the offset copy, `u0` the state the pre-hook leaves,
    `v0` the check vector read *before* the pre-hook (as the code does). -/

/-- **Convergence.**  If check values stay finite and nothing raises, and `k0` is the first pass with
    `max(1, min_iter) ≤ k0 ≤ max_iter` at which every check variable is `close` to its previous value, then
    `solve_t` runs the post-hook after pass `k0`, records status '.', `iterations[t] = k0`, returns `True`. -/
theorem solveT_converges (hacc : Accepted I o n t)
    (hb : (I.before o (seed I o t w.user) t).2 = false)
    (k0 : Nat) (h1 : 1 ≤ k0) (hk : (k0 : Int) ≤ o.maxIter)
    (hev : ∀ i, i < k0 →
      (I.eval o (traj I o t (I.before o (seed I o t w.user) t).1 i) t (i + 1)).2 = false)
    (hfin : ∀ i, i ≤ k0 →
      I.allFinite (cv I o t (I.before o (seed I o t w.user) t).1 (I.check (seed I o t w.user) t) i) = true)
    (hleast : ∀ i, 0 < i → i < k0 →
      ¬ Good I o t (I.before o (seed I o t w.user) t).1 (I.check (seed I o t w.user) t) i)
    (hgood : Good I o t (I.before o (seed I o t w.user) t).1 (I.check (seed I o t w.user) t) k0)
    (ha : (I.after o (traj I o t (I.before o (seed I o t w.user) t).1 k0) t k0).2 = false) :
    solveT I o n t w =
      (stamp (withUser w (I.after o (traj I o t (I.before o (seed I o t w.user) t).1 k0) t k0).1)
         n t .solved k0, .ret true) := by
  rw [solveT_accepted I o n t w hacc]
  unfold solveCore
  have hf0 := hfin 0 (Nat.zero_le _)
  simp only [cv] at hf0
  have hbe : I.before o (seed I o t w.user) t = ((I.before o (seed I o t w.user) t).1, false) :=
    Prod.ext rfl hb
  rw [hbe]
  simp only [hf0, Bool.true_eq_false, and_false, if_false]
  have hfuel : k0 ≤ 0 + o.maxIter.toNat := by omega
  have hl := loop_converges I o t (I.before o (seed I o t w.user) t).1 (I.check (seed I o t w.user) t)
    o.maxIter.toNat 0 k0 (by omega) hfuel (fun i _ h => hev i h) (fun i _ h => hfin i h)
    (fun i h h' => hleast i h h') hgood
  simp only [traj, cv, Nat.zero_add] at hl
  rw [hl]
  unfold afterOut
  have hae : I.after o (traj I o t (I.before o (seed I o t w.user) t).1 k0) t k0
      = ((I.after o (traj I o t (I.before o (seed I o t w.user) t).1 k0) t k0).1, false) :=
    Prod.ext rfl ha
  rw [hae]
  simp [finish]

/-- **Non-convergence.**  If check values stay finite, nothing raises and no pass `k` with
    `max(1, min_iter) ≤ k ≤ max_iter` is accepted, then all `max_iter` passes run, the post-hook is not run,
    status 'F' and `iterations[t] = max_iter` are recorded, and the call returns `False` — or raises
    NonConvergenceError exactly when `failures='raise'`. -/
theorem solveT_fails (hacc : Accepted I o n t)
    (hb : (I.before o (seed I o t w.user) t).2 = false)
    (hev : ∀ i, i < o.maxIter.toNat →
      (I.eval o (traj I o t (I.before o (seed I o t w.user) t).1 i) t (i + 1)).2 = false)
    (hfin : ∀ i, i ≤ o.maxIter.toNat →
      I.allFinite (cv I o t (I.before o (seed I o t w.user) t).1 (I.check (seed I o t w.user) t) i) = true)
    (hnone : ∀ i, 0 < i → i ≤ o.maxIter.toNat →
      ¬ Good I o t (I.before o (seed I o t w.user) t).1 (I.check (seed I o t w.user) t) i) :
    solveT I o n t w =
      (stamp (withUser w (traj I o t (I.before o (seed I o t w.user) t).1 o.maxIter.toNat))
         n t .failed (o.maxIter.toNat : Nat),
       if o.failRaise = true then .nonConvergence else .ret false) := by
  rw [solveT_accepted I o n t w hacc]
  unfold solveCore
  have hf0 := hfin 0 (Nat.zero_le _)
  simp only [cv] at hf0
  have hbe : I.before o (seed I o t w.user) t = ((I.before o (seed I o t w.user) t).1, false) :=
    Prod.ext rfl hb
  rw [hbe]
  simp only [hf0, Bool.true_eq_false, and_false, if_false]
  have hl := loop_exhausts I o t (I.before o (seed I o t w.user) t).1 (I.check (seed I o t w.user) t)
    o.maxIter.toNat 0 (fun i _ h => hev i (by omega)) (fun i _ h => hfin i (by omega))
    (fun i h h' => hnone i h (by omega))
  simp only [traj, cv, Nat.zero_add] at hl
  rw [hl]
  simp [finish]

/-- With `max_iter ≥ 0` the count recorded on failure is `max_iter` itself. -/
theorem failed_count_is_max_iter (h : 0 ≤ o.maxIter) : ((o.maxIter.toNat : Nat) : Int) = o.maxIter := by
  omega

/-- `Good` written as in the property statement. -/
theorem good_iff (u0 : σ) (v0 : V) (k : Nat) (hk : 1 ≤ k) :
    Good I o t u0 v0 k ↔
      (max 1 o.minIter ≤ (k : Int) ∧ I.close (cv I o t u0 v0 k) (cv I o t u0 v0 (k - 1)) = true) := by
  unfold Good
  constructor
  · rintro ⟨h1, h2⟩; exact ⟨by omega, h2⟩
  · rintro ⟨h1, h2⟩; exact ⟨by omega, h2⟩

/-! ### Hooks run exactly once, passes run exactly `k0` (resp. `max_iter`) times -/

/-- On the converging path the calls made are: pre-hook, passes 1…k0, post-hook — nothing else. -/
theorem converging_calls (l : List Event) (u : σ) (st : List Status) (it : List Int)
    (hacc : Accepted I o n t)
    (hb : (I.before o (seed I o t u) t).2 = false)
    (k0 : Nat) (h1 : 1 ≤ k0) (hk : (k0 : Int) ≤ o.maxIter)
    (hev : ∀ i, i < k0 → (I.eval o (traj I o t (I.before o (seed I o t u) t).1 i) t (i + 1)).2 = false)
    (hfin : ∀ i, i ≤ k0 →
      I.allFinite (cv I o t (I.before o (seed I o t u) t).1 (I.check (seed I o t u) t) i) = true)
    (hleast : ∀ i, 0 < i → i < k0 →
      ¬ Good I o t (I.before o (seed I o t u) t).1 (I.check (seed I o t u) t) i)
    (hgood : Good I o t (I.before o (seed I o t u) t).1 (I.check (seed I o t u) t) k0)
    (ha : (I.after o (traj I o t (I.before o (seed I o t u) t).1 k0) t k0).2 = false) :
    (solveT (logged I) o n t ⟨(u, l), st, it⟩).1.user.2
      = l ++ [Event.before] ++ evalEvents k0 ++ [Event.after k0] := by
  have hseed : seed (logged I) o t (u, l) = (seed I o t u, l) := by
    unfold seed; split <;> rfl
  have hbef : (logged I).before o (seed I o t u, l) t
      = (((I.before o (seed I o t u) t).1, l ++ [Event.before]), (I.before o (seed I o t u) t).2) := rfl
  have hchk : (logged I).check (seed I o t u, l) t = I.check (seed I o t u) t := rfl
  have key := solveT_converges (logged I) o n t ⟨(u, l), st, it⟩ hacc
    (by simp only [hseed, hbef]; exact hb) k0 h1 hk
    (by intro i hi; simp only [hseed, hbef, traj_logged]; exact hev i hi)
    (by intro i hi; simp only [hseed, hbef, hchk, cv_logged]; exact hfin i hi)
    (by intro i h h'; simp only [hseed, hbef, hchk, good_logged]; exact hleast i h h')
    (by simp only [hseed, hbef, hchk, good_logged]; exact hgood)
    (by simp only [hseed, hbef, traj_logged]; exact ha)
  rw [key]
  simp only [hseed, hbef, traj_logged]
  unfold stamp
  cases pyIndex n t <;> simp [withUser, logged]

/-- On the failing path: pre-hook, passes 1…max_iter, and no post-hook. -/
theorem failing_calls (l : List Event) (u : σ) (st : List Status) (it : List Int)
    (hacc : Accepted I o n t)
    (hb : (I.before o (seed I o t u) t).2 = false)
    (hev : ∀ i, i < o.maxIter.toNat →
      (I.eval o (traj I o t (I.before o (seed I o t u) t).1 i) t (i + 1)).2 = false)
    (hfin : ∀ i, i ≤ o.maxIter.toNat →
      I.allFinite (cv I o t (I.before o (seed I o t u) t).1 (I.check (seed I o t u) t) i) = true)
    (hnone : ∀ i, 0 < i → i ≤ o.maxIter.toNat →
      ¬ Good I o t (I.before o (seed I o t u) t).1 (I.check (seed I o t u) t) i) :
    (solveT (logged I) o n t ⟨(u, l), st, it⟩).1.user.2
      = l ++ [Event.before] ++ evalEvents o.maxIter.toNat := by
  have hseed : seed (logged I) o t (u, l) = (seed I o t u, l) := by
    unfold seed; split <;> rfl
  have hbef : (logged I).before o (seed I o t u, l) t
      = (((I.before o (seed I o t u) t).1, l ++ [Event.before]), (I.before o (seed I o t u) t).2) := rfl
  have hchk : (logged I).check (seed I o t u, l) t = I.check (seed I o t u) t := rfl
  have key := solveT_fails (logged I) o n t ⟨(u, l), st, it⟩ hacc
    (by simp only [hseed, hbef]; exact hb)
    (by intro i hi; simp only [hseed, hbef, traj_logged]; exact hev i hi)
    (by intro i hi; simp only [hseed, hbef, hchk, cv_logged]; exact hfin i hi)
    (by intro i h h'; simp only [hseed, hbef, hchk, good_logged]; exact hnone i h h')
  rw [key]
  simp only [hseed, hbef, traj_logged]
  unfold stamp
  cases pyIndex n t <;> simp [withUser]

/-- The logged model computes exactly what the plain one does (logging is an observer only). -/
theorem logged_transparent (w' : World (σ × List Event)) :
    ((solveT (logged I) o n t w').1.map Prod.fst, (solveT (logged I) o n t w').2)
      = solveT I o n t (w'.map Prod.fst) :=
  solveT_sim (logged_sim I) o n t w'

/-- `solve_period(label)` is `solve_t(position of label)`; a label that does not resolve to one plain
    integer position raises KeyError with no change. -/
theorem solvePeriod_eq_solveT (i : Nat) :
    solvePeriod I o n (.pos i) w = ((solveT I o n i w).1, some (solveT I o n i w).2) := rfl

theorem solvePeriod_keyError (l : Loc) (h : ∀ i, l ≠ .pos i) : solvePeriod I o n l w = (w, none) := by
  cases l with
  | pos i => exact absurd rfl (h i)
  | other => rfl
  | missing => rfl

/-! ### Non-vacuity: a concrete model meeting the hypotheses of both main theorems

`σ = V = Nat`; a pass moves the state one step towards 3; two vectors are close when equal. -/

def exI : Interp Nat Nat where
  lags := 0
  leads := 0
  check u _ := u
  allFinite _ := true
  close a b := a == b
  zeroNF v := v
  copyOffset u _ _ := u
  before _ u _ := (u, false)
  eval _ u _ _ := (min (u + 1) 3, false)
  after _ u _ _ := (u, false)

/-- Converges at pass 4 (3 → 3), having moved at passes 1..3. -/
example : solveT exI { maxIter := 10 } 5 2 ⟨0, List.replicate 5 .unsolved, List.replicate 5 (-1)⟩
    = (⟨3, [.unsolved, .unsolved, .solved, .unsolved, .unsolved], [-1, -1, 4, -1, -1]⟩, .ret true) := by
  decide

/-- With `max_iter = 3` no pass is accepted: 'F', iterations 3, NonConvergenceError under `failures='raise'`. -/
example : solveT exI { maxIter := 3 } 5 (-1) ⟨0, List.replicate 5 .unsolved, List.replicate 5 (-1)⟩
    = (⟨3, [.unsolved, .unsolved, .unsolved, .unsolved, .failed], [-1, -1, -1, -1, 3]⟩, .nonConvergence) := by
  decide

/-- `max_iter = 0`: no pass, status 'F', iterations 0 (the behaviour after the `fix:` commit in /repo). -/
example : solveT exI { maxIter := 0, failRaise := false } 5 2
      ⟨0, List.replicate 5 .unsolved, List.replicate 5 (-1)⟩
    = (⟨0, [.unsolved, .unsolved, .failed, .unsolved, .unsolved], [-1, -1, 0, -1, -1]⟩, .ret false) := by
  decide

/-! ### The record of earlier solves never feeds back -/

/-- **Factorisation through the user state.** For given values (user state `u`) there is one outcome — new user
    state, at most one stamp `(status, iterations)` at the period, result — and `solve_t` applies it whatever
    `status` / `iterations` hold: the bookkeeping is written, never read. -/
theorem solveT_outcome_exists (u : σ) :
    ∃ oc : Outcome σ, ∀ (st : List Status) (it : List Int),
      solveT I o n t ⟨u, st, it⟩ = applyOutcome n t ⟨u, st, it⟩ oc :=
  ⟨outcomeOf I o n t u, fun st it => solveT_eq_outcome I o n t ⟨u, st, it⟩⟩

/-- **History-independence.** The same call from the same values gives the same values, the same hook effects and the
    same result (return value or exception), whatever record earlier calls left in `status` and `iterations` —
    a period solved before, failed before or never touched behaves alike. -/
theorem solveT_history_irrelevant (u : σ) (st st' : List Status) (it it' : List Int) :
    (solveT I o n t ⟨u, st, it⟩).1.user = (solveT I o n t ⟨u, st', it'⟩).1.user ∧
    (solveT I o n t ⟨u, st, it⟩).2 = (solveT I o n t ⟨u, st', it'⟩).2 := by
  simp only [solveT_eq_outcome, applyOutcome_user, applyOutcome_result, and_self]

/-- …and it leaves the same record: either the call records nothing (in either history), or it records the same
    status and the same iteration count at the period in both. -/
theorem solveT_stamp_history_irrelevant (u : σ) (st st' : List Status) (it it' : List Int)
    (i : Nat) (hi : pyIndex n t = some i)
    (hs : i < st.length) (hs' : i < st'.length) (hk : i < it.length) (hk' : i < it'.length) :
    ((solveT I o n t ⟨u, st, it⟩).1.status = st ∧ (solveT I o n t ⟨u, st, it⟩).1.iters = it ∧
     (solveT I o n t ⟨u, st', it'⟩).1.status = st' ∧ (solveT I o n t ⟨u, st', it'⟩).1.iters = it') ∨
    ∃ (s : Status) (k : Int),
      (solveT I o n t ⟨u, st, it⟩).1.status[i]? = some s ∧ (solveT I o n t ⟨u, st', it'⟩).1.status[i]? = some s ∧
      (solveT I o n t ⟨u, st, it⟩).1.iters[i]? = some k ∧ (solveT I o n t ⟨u, st', it'⟩).1.iters[i]? = some k := by
  simp only [solveT_eq_outcome]
  rcases outcomeOf I o n t u with ⟨u', _ | ⟨s, k⟩, r⟩
  · left; simp only [applyOutcome, withUser, and_self]
  · right
    refine ⟨s, k, ?_⟩
    simp only [applyOutcome, stamp, withUser, hi]
    exact ⟨setAt_getElem?_eq _ _ _ hs, setAt_getElem?_eq _ _ _ hs', setAt_getElem?_eq _ _ _ hk,
           setAt_getElem?_eq _ _ _ hk'⟩

/-- Non-vacuity: a period already marked 'F' with 7 iterations re-solves exactly like a fresh one. -/
example : (solveT exI { maxIter := 10 } 5 2 ⟨0, [.unsolved, .error, .failed, .solved, .skipped], [-1, 3, 7, 2, 1]⟩)
    = (⟨3, [.unsolved, .error, .solved, .solved, .skipped], [-1, 3, 4, 2, 1]⟩, .ret true) := by
  decide

/-! ### Soundness of the record: what must have happened for a given outcome (the converse direction) -/

/-- **The agreement table.**  Whatever the model, the hooks, the options, the span and the period, one `solve_t` call
    is the application of an outcome whose stamp and result are one of the rows of `Agree`: '.' only with `True` and a
    count in `max(1, min_iter) … max_iter`; 'F' only with `False` (or NonConvergenceError exactly when
    `failures='raise'`) and count `max(max_iter, 0)`; 'S' only with `False` under `errors='skip'`; 'E' only with a
    SolutionError under `errors='raise'`; no stamp with ValueError / IndexError / a hook's SolutionError / the invalid
    `errors` ValueError — and nothing else. -/
theorem solveT_agreement :
    ∃ oc : Outcome σ, solveT I o n t w = applyOutcome n t w oc ∧ Agree o oc.2.1 oc.2.2 :=
  ⟨outcomeOf I o n t w.user, solveT_eq_outcome I o n t w, outcome_agrees I o t n w.user⟩

/-- **Soundness of `True` / status '.'.**  Whenever `solve_t` returns `True`, some pass `k` with
    `max(1, min_iter) ≤ k ≤ max_iter` did not raise, was judged (held values and new values all finite), passed the
    convergence test `close`, and was followed by a post-hook that did not raise; the world is the post-hook's state
    stamped '.' / `k`. -/
theorem solveT_true_sound (w' : World σ) (h : solveT I o n t w = (w', .ret true)) :
    ∃ (k : Nat) (u : σ), 1 ≤ k ∧ (k : Int) ≤ o.maxIter ∧ SolvedAt I o t k u ∧
      w' = stamp (withUser w u) n t .solved k := by
  obtain ⟨u2, _, hf⟩ := solveT_ret I o n t w w' true h
  obtain ⟨u, s, k, hl, hw, hb, _⟩ := finish_ret o n t w _ w' true hf
  have hs : s = .solved := by simpa using hb.symm
  subst hs
  obtain ⟨a, b, c⟩ := loop_solved_sound I o t _ _ _ _ _ _ hl
  refine ⟨k, u, a, ?_, c, hw⟩
  omega

/-- **Soundness of `False`.**  Whenever `solve_t` returns `False`, the recorded status is 'F' with
    `iterations[t] = max(max_iter, 0)` and `failures` is not `'raise'`, or it is 'S' under `errors='skip'` with a
    non-finite check value left in place.  (No other status, and no other count, can accompany `False`.) -/
theorem solveT_false_sound (w' : World σ) (h : solveT I o n t w = (w', .ret false)) :
    ∃ (k : Nat) (u : σ),
      (w' = stamp (withUser w u) n t .failed k ∧ k = o.maxIter.toNat ∧ o.failRaise = false) ∨
      (w' = stamp (withUser w u) n t .skipped k ∧ o.errors = .skip ∧ I.allFinite (I.check u t) = false) := by
  obtain ⟨u2, _, hf⟩ := solveT_ret I o n t w w' false h
  obtain ⟨u, s, k, hl, hw, hb, hn⟩ := finish_ret o n t w _ w' false hf
  have hs : s ≠ .solved := by simpa using hb.symm
  refine ⟨k, u, ?_⟩
  rcases loop_done_status I o t _ _ _ _ _ _ _ hl with rfl | rfl | rfl
  · exact absurd rfl hs
  · left
    refine ⟨hw, ?_, by simpa using hn⟩
    rcases loop_failed_sound I o t _ _ _ _ _ _ hl with a | a
    · omega
    · omega
  · right
    obtain ⟨a, _, c⟩ := loop_skipped_sound I o t _ _ _ _ _ _ hl
    exact ⟨hw, a, c⟩


/-! ### The shipped convergence test is a conjunction over all check variables -/

/-- `closeBy near cur prev` holds iff **every** position (up to the shorter length) is `near` — all, not any. -/
theorem zip_all_iff {α : Type} (near : α → α → Bool) (l1 l2 : List α) :
    ((l1.zip l2).all fun (c, p) => near c p) = true ↔
      ∀ (i : Nat) (h : i < l1.length) (h' : i < l2.length), near l1[i] l2[i] = true := by
  induction l1 generalizing l2 with
  | nil => simp
  | cons a l1 ih =>
    cases l2 with
    | nil => simp
    | cons b l2 =>
      simp only [List.zip_cons_cons, List.all_cons, Bool.and_eq_true, ih, List.length_cons]
      constructor
      · rintro ⟨h0, hs⟩ i h h'
        cases i with
        | zero => simpa using h0
        | succ i => simpa using hs i (by omega) (by omega)
      · intro h
        exact ⟨by simpa using h 0 (by omega) (by omega),
               fun i h1 h2 => by
                 have := h (i + 1) (by omega) (by omega)
                 simpa only [List.getElem_cons_succ] using this⟩

theorem closeBy_iff {α : Type} (near : α → α → Bool) (cur prev : Array α) :
    closeBy near cur prev = true ↔
      ∀ (i : Nat) (h : i < cur.size) (h' : i < prev.size), near cur[i] prev[i] = true := by
  unfold closeBy
  rw [zip_all_iff]
  constructor
  · intro h i h1 h2
    have := h i (by simpa using h1) (by simpa using h2)
    simpa only [Array.getElem_toList] using this
  · intro h i h1 h2
    have := h i (by simpa using h1) (by simpa using h2)
    simpa only [Array.getElem_toList] using this

/-- One check variable that is not `near` its previous value blocks convergence, whatever the others do. -/
theorem closeBy_blocked {α : Type} (near : α → α → Bool) (cur prev : Array α)
    (i : Nat) (h : i < cur.size) (h' : i < prev.size) (hfar : near cur[i] prev[i] = false) :
    closeBy near cur prev = false := by
  cases hc : closeBy near cur prev with
  | false => rfl
  | true => have := (closeBy_iff near cur prev).mp hc i h h'; simp [hfar] at this

/-- A model with no check variables passes the test at once (`np.all` of an empty array). -/
theorem closeBy_empty {α : Type} (near : α → α → Bool) (prev : Array α) : closeBy near #[] prev = true := by
  rw [closeBy_iff]; intro i h; simp at h

/-- A wider notion of `near` (a larger `tol`) accepts whatever a narrower one accepts. -/
theorem closeBy_mono {α : Type} (near near' : α → α → Bool) (hmono : ∀ a b, near a b = true → near' a b = true)
    (cur prev : Array α) (h : closeBy near cur prev = true) : closeBy near' cur prev = true := by
  rw [closeBy_iff] at h ⊢
  exact fun i h1 h2 => hmono _ _ (h i h1 h2)

/-- **`True` means every check variable stopped moving.**  For a model whose convergence test is the shipped one,
    `solve_t` returning `True` implies a pass `k` (with `max(1, min_iter) ≤ k ≤ max_iter`) whose every check value
    is `near` the value held before the pass. -/
theorem converged_all_near {σ α : Type} (I : Interp σ (Array α)) (near : α → α → Bool) (hI : I.close = closeBy near)
    (o : Opts) (n : Nat) (t : Int) (w w' : World σ) (h : solveT I o n t w = (w', .ret true)) :
    ∃ (k : Nat) (u : σ) (prev : Array α), 1 ≤ k ∧ (k : Int) ≤ o.maxIter ∧ o.minIter ≤ k ∧
      ∀ (i : Nat) (h1 : i < (I.check (I.eval o u t k).1 t).size) (h2 : i < prev.size),
        near (I.check (I.eval o u t k).1 t)[i] prev[i] = true := by
  obtain ⟨k, u'', h1, h2, ⟨u, prev, _, _, _, hm, hc, _⟩, _⟩ := solveT_true_sound I o n t w w' h
  rw [hI] at hc
  exact ⟨k, u, prev, h1, h2, by omega, (closeBy_iff near _ _).mp hc⟩

/-! ### Non-vacuity (review): every hypothesis-carrying theorem instantiated on `exI` (5 periods, real passes) -/

private def exW : World Nat := ⟨0, List.replicate 5 .unsolved, List.replicate 5 (-1)⟩
private theorem exAcc10 : Accepted exI { maxIter := 10 } 5 2 := by unfold Accepted Feasible; decide
private theorem swapLt {P : Nat → Prop} (n : Nat) (h : ∀ i, i < n → 0 < i → P i) : ∀ i, 0 < i → i < n → P i :=
  fun i a b => h i b a
private theorem swapLe {P : Nat → Prop} (n : Nat) (h : ∀ i, i ≤ n → 0 < i → P i) : ∀ i, 0 < i → i ≤ n → P i :=
  fun i a b => h i b a
private theorem exAcc3 : Accepted exI { maxIter := 3 } 5 (-1) := by unfold Accepted Feasible; decide

/-- `solveT_min_gt_max` at `min_iter = 10 > max_iter = 5`. -/
example : solveT exI { minIter := 10, maxIter := 5 } 5 2 exW = (exW, .valueError) :=
  solveT_min_gt_max exI _ 5 2 exW (by decide)

/-- `solveT_offset_oob`: period 4 (spelt `-1`) of 5 with `offset = +1`, and period 0 with `offset = -1`. -/
example : solveT exI { offset := 1 } 5 (-1) exW = (exW, .indexError) ∧
    solveT exI { offset := -1 } 5 0 exW = (exW, .indexError) :=
  ⟨solveT_offset_oob exI _ 5 (-1) exW (by decide) (by decide) (by decide),
   solveT_offset_oob exI _ 5 0 exW (by decide) (by decide) (by decide)⟩

/-- `solveT_offset_copy` / `solveT_offset_zero` at period 2 of 5 (`offset = -1`, resp. `0`). -/
example : solveT exI { offset := -1 } 5 2 exW = solveCore exI { offset := -1 } 5 2 exW (exI.copyOffset 0 2 (-1)) :=
  solveT_offset_copy exI _ 5 2 exW (by decide) (by unfold Feasible; decide) (by decide) (by decide) (by decide)
example : solveT exI {} 5 2 exW = solveCore exI {} 5 2 exW 0 :=
  solveT_offset_zero exI _ 5 2 exW (by decide) (by unfold Feasible; decide) rfl

/-- `pyIndex_offset` at a negative spelling: `t = -2` of 5 with offset `+1` is position 4 = index `-1`. -/
example : pyIndex 5 (-2 + 1) = some 4 := pyIndex_offset 5 (-2) 1 (by decide) (by decide) (by decide) (by decide)

/-- `solveT_converges` with `k0 = 4` (three moving passes first), `solveT_fails` with `max_iter = 3`. -/
example : solveT exI { maxIter := 10 } 5 2 exW = (stamp (withUser exW 3) 5 2 .solved ((4 : Nat) : Int), .ret true) :=
  solveT_converges exI { maxIter := 10 } 5 2 exW exAcc10 (by decide) 4 (by decide) (by decide) (by decide) (by decide)
    (swapLt 4 (by unfold Good; decide)) (by unfold Good; decide) (by decide)
example : solveT exI { maxIter := 3 } 5 (-1) exW =
    (stamp (withUser exW 3) 5 (-1) .failed ((3 : Nat) : Int), .nonConvergence) :=
  solveT_fails exI { maxIter := 3 } 5 (-1) exW exAcc3 (by decide) (by decide) (by decide)
    (swapLe 3 (by unfold Good; decide))

/-- `failed_count_is_max_iter`, `good_iff` (pass 4 of the run above is good, pass 3 is not). -/
example : (((3 : Int).toNat : Nat) : Int) = 3 := failed_count_is_max_iter { maxIter := 3 } (by decide)
example : Good exI { maxIter := 10 } 2 0 0 4 ∧ ¬ Good exI { maxIter := 10 } 2 0 0 3 :=
  ⟨(good_iff exI _ 2 0 0 4 (by decide)).mpr (by decide),
   fun h => absurd ((good_iff exI _ 2 0 0 3 (by decide)).mp h) (by decide)⟩

/-- `converging_calls` / `failing_calls`: pre-hook, passes 1…4, post-hook; resp. pre-hook, passes 1…3. -/
example : (solveT (logged exI) { maxIter := 10 } 5 2 ⟨(0, []), exW.status, exW.iters⟩).1.user.2 =
    [.before, .eval 1, .eval 2, .eval 3, .eval 4, .after 4] :=
  converging_calls exI { maxIter := 10 } 5 2 [] 0 _ _ exAcc10 (by decide) 4 (by decide) (by decide) (by decide)
    (by decide) (swapLt 4 (by unfold Good; decide)) (by unfold Good; decide) (by decide)
example : (solveT (logged exI) { maxIter := 3 } 5 (-1) ⟨(0, []), exW.status, exW.iters⟩).1.user.2 =
    [.before, .eval 1, .eval 2, .eval 3] :=
  failing_calls exI { maxIter := 3 } 5 (-1) [] 0 _ _ exAcc3 (by decide) (by decide) (by decide)
    (swapLe 3 (by unfold Good; decide))

/-- `solvePeriod_keyError` at a missing label and at a label resolving to a non-integer position. -/
example : solvePeriod exI {} 5 .missing exW = (exW, none) ∧ solvePeriod exI {} 5 .other exW = (exW, none) :=
  ⟨solvePeriod_keyError exI _ 5 exW .missing (fun _ h => nomatch h),
   solvePeriod_keyError exI _ 5 exW .other (fun _ h => nomatch h)⟩

/-- `solveT_stamp_history_irrelevant` at period 2 of 5, a fresh record against a used one: the second
    disjunct holds (both record '.', 4). -/
example : ∃ (s : Status) (k : Int),
    (solveT exI { maxIter := 10 } 5 2 exW).1.status[2]? = some s ∧
    (solveT exI { maxIter := 10 } 5 2 ⟨0, [.unsolved, .error, .failed, .solved, .skipped], [-1, 3, 7, 2, 1]⟩).1.status[2]?
      = some s ∧
    (solveT exI { maxIter := 10 } 5 2 exW).1.iters[2]? = some k ∧
    (solveT exI { maxIter := 10 } 5 2 ⟨0, [.unsolved, .error, .failed, .solved, .skipped], [-1, 3, 7, 2, 1]⟩).1.iters[2]?
      = some k :=
  (solveT_stamp_history_irrelevant exI { maxIter := 10 } 5 2 0 exW.status
      [.unsolved, .error, .failed, .solved, .skipped] exW.iters [-1, 3, 7, 2, 1] 2 (by decide)
      (by decide) (by decide) (by decide) (by decide)).resolve_left (by decide)

/-- `solveT_true_sound` on the converging run (pass 4 is the accepted one) and `solveT_false_sound` on the
    `max_iter = 0` run (status 'F', count 0). -/
example : ∃ (k : Nat) (u : Nat), 1 ≤ k ∧ (k : Int) ≤ 10 ∧ SolvedAt exI { maxIter := 10 } 2 k u ∧
    (⟨3, [.unsolved, .unsolved, .solved, .unsolved, .unsolved], [-1, -1, 4, -1, -1]⟩ : World Nat)
      = stamp (withUser exW u) 5 2 .solved k :=
  solveT_true_sound exI { maxIter := 10 } 5 2 exW _ (by decide)
example : ∃ (k : Nat) (u : Nat),
    ((⟨0, [.unsolved, .unsolved, .failed, .unsolved, .unsolved], [-1, -1, 0, -1, -1]⟩ : World Nat)
        = stamp (withUser exW u) 5 2 .failed k ∧ k = (0 : Int).toNat ∧ false = false) ∨
    ((⟨0, [.unsolved, .unsolved, .failed, .unsolved, .unsolved], [-1, -1, 0, -1, -1]⟩ : World Nat)
        = stamp (withUser exW u) 5 2 .skipped k ∧ ErrMode.raise = .skip ∧ exI.allFinite (exI.check u 2) = false) :=
  solveT_false_sound exI { maxIter := 0, failRaise := false } 5 2 exW _ (by decide)

/-- Two check variables moving at different speeds: `u` and `u / 2` while `u` climbs to 4. -/
def exA : Interp Nat (Array Nat) where
  lags := 0
  leads := 0
  check u _ := #[u, u / 2]
  allFinite := allFiniteBy fun _ => true
  close := closeBy fun a b => a == b
  zeroNF v := v
  copyOffset u _ _ := u
  before _ u _ := (u, false)
  eval _ u _ _ := (min (u + 1) 4, false)
  after _ u _ _ := (u, false)

/-- `converged_all_near` on `exA` (converges at pass 5, when both `u` and `u / 2` have stopped). -/
example : ∃ (k : Nat) (u : Nat) (prev : Array Nat), 1 ≤ k ∧ (k : Int) ≤ 10 ∧ (0 : Int) ≤ k ∧
    ∀ (i : Nat) (h1 : i < (exA.check (exA.eval { maxIter := 10 } u 2 k).1 2).size) (h2 : i < prev.size),
      ((exA.check (exA.eval { maxIter := 10 } u 2 k).1 2)[i] == prev[i]) = true :=
  converged_all_near exA _ rfl { maxIter := 10 } 5 2 exW
    ⟨4, [.unsolved, .unsolved, .solved, .unsolved, .unsolved], [-1, -1, 5, -1, -1]⟩ (by decide)

/-- `closeBy_blocked`: the second variable still moves (pass 4 → 2 from 1) although the first has stopped moving…
    and `closeBy_mono`: equality implies "within 1". -/
example : closeBy (fun a b => a == b) #[4, 2] #[4, 1] = false :=
  closeBy_blocked _ #[4, 2] #[4, 1] 1 (by decide) (by decide) (by decide)
example : closeBy (fun a b : Nat => decide (a ≤ b + 1 ∧ b ≤ a + 1)) #[4, 2] #[4, 2] = true :=
  closeBy_mono (fun a b => a == b) _ (fun a b h => by simp at h; subst h; simp) #[4, 2] #[4, 2] (by decide)

end Fsic.C02
