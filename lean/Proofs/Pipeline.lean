import Proofs.Lemmas.Pipeline
import Proofs.Lemmas.ParserAccepted
set_option linter.unusedSimpArgs false
set_option linter.unusedVariables false
/-
The composed model `Pipeline.parseModelText` = M2 (`Lx.parseScript`) ∘ conversions ∘ M3 (`Parser.parseModel`),
i.e. `parse_model(text, check_syntax=False)`, and property C13's clause
"raises one of the parser's own errors — never an unrelated internal exception", at full strength (no hypothesis
on the text).

Ingredients: M2 never yields a format failure and every `parsed` result carries two successfully formatted
strings (`format_safe` in `Proofs/C13.lean`); the terms M2 emits obey the index discipline of
`process_term_match`, which is exactly the guard `WellIndexed` under which M3's `parseModel_error_class`
(`Proofs/Lemmas/ParserReject.lean`) shows that only SymbolError / ParserError can come out of the symbol logic
(TypeError and AssertionError need ill-indexed terms).
-/
namespace Fsic.Pipeline
open Fsic

/-- The statements M2 hands to M3 always satisfy M3's guard. -/
theorem stmts_wellIndexed (text : List Char) (S : List Parser.Stmt) (h : stmtsOf (Lx.parseScript text) = .ok S) :
    Parser.WellIndexed S :=
  wellIndexed_of_stmtOk S ((stmtsOf_ok _ (parseScript_ok text)).1 S h)

/-- **parseModelText_never_internal**: for every text, `parse_model` (syntax check aside) returns symbols or raises
    ParserError, IndentationError or SymbolError — never anything else. -/
theorem parseModelText_never_internal (text : List Char) : parseModelText text ≠ .error .internal := by
  unfold parseModelText
  cases hs : stmtsOf (Lx.parseScript text) with
  | error e =>
    simp only
    intro he; simp at he; subst he
    exact (stmtsOf_ok _ (parseScript_ok text)).2 hs
  | ok S =>
    simp only
    cases hp : Parser.parseModel S with
    | ok syms => simp
    | error e =>
      simp only
      rcases Parser.parseModel_error_class hp (stmts_wellIndexed text S hs) with ⟨rfl, _⟩ | ⟨rfl, _⟩ <;>
        simp [ofParser]

/-- Equivalent reading: every failure is one of the three own errors. -/
theorem parseModelText_error_classes (text : List Char) (e : Err) (h : parseModelText text = .error e) :
    e = .parserError ∨ e = .indentationError ∨ e = .symbolError := by
  cases e with
  | internal => exact absurd h (parseModelText_never_internal text)
  | parserError => simp
  | indentationError => simp
  | symbolError => simp

theorem scriptOcc_named {S : List Parser.Stmt} {s : Parser.Symbol} (hs : s ∈ Parser.scriptOcc S) :
    s.name ≠ none ∧ s.type ≠ .verbatim := by
  unfold Parser.scriptOcc at hs
  obtain ⟨st, _, hmem⟩ := List.mem_flatMap.mp hs
  cases st with
  | verb e c => simp [Parser.stmtOcc] at hmem
  | eqn ts e c =>
    simp only [Parser.stmtOcc, Parser.termSyms, List.mem_map, List.mem_filter] at hmem
    obtain ⟨t, ⟨_, hnv⟩, rfl⟩ := hmem
    exact ⟨by simp [Parser.termSymbol], by simpa [Parser.termSymbol] using hnv⟩

/-- **parseModelText_ok_symbols_wellformed**: in an accepted script every symbol has a name exactly when it is not
    a verbatim block, its lags are `None` or an integer ≤ 0, its leads `None` or an integer ≥ 0 (never a string). -/
theorem parseModelText_ok_symbols_wellformed (text : List Char) (syms : List Parser.Symbol)
    (h : parseModelText text = .ok syms) :
    ∀ s ∈ syms, (s.name = none ↔ s.type = .verbatim) ∧
      (s.lags = .none ∨ ∃ m, s.lags = .int m ∧ m ≤ 0) ∧ (s.leads = .none ∨ ∃ m, s.leads = .int m ∧ 0 ≤ m) := by
  unfold parseModelText at h
  cases hs : stmtsOf (Lx.parseScript text) with
  | error e => rw [hs] at h; cases h
  | ok S =>
    rw [hs] at h
    simp only at h
    cases hp : Parser.parseModel S with
    | error e => rw [hp] at h; cases h
    | ok syms' =>
      rw [hp] at h; simp at h; subst h
      obtain ⟨D, V, rfl, hV, _, hS, _, hVdef⟩ := Parser.accepted_char hp (stmts_wellIndexed text S hs)
      intro s hmem
      rcases List.mem_append.mp hmem with hd | hv
      · have hsum := hS s hd
        obtain ⟨o, ho, hot⟩ := hsum.typeAtt
        have ho' := (List.mem_filter.mp ho).1
        have hnm := scriptOcc_named ho'
        have hn : s.name ≠ none := by rw [← hsum.name o ho]; exact hnm.1
        have ht : s.type ≠ .verbatim := by rw [← hot]; exact hnm.2
        refine ⟨⟨fun h' => absurd h' hn, fun h' => absurd h' ht⟩, ?_, ?_⟩
        · rcases hsum.lags with ⟨h1, _⟩ | ⟨m, h1, h2, _⟩
          · exact Or.inl h1
          · exact Or.inr ⟨m, h1, h2⟩
        · rcases hsum.leads with ⟨h1, _⟩ | ⟨m, h1, h2, _⟩
          · exact Or.inl h1
          · exact Or.inr ⟨m, h1, h2⟩
      · have := hV s hv
        refine ⟨⟨fun _ => this.2, fun _ => this.1⟩, ?_, ?_⟩
        · subst hVdef
          obtain ⟨st, _, hst⟩ := List.mem_flatMap.mp hv
          cases st <;> simp [Parser.verbSyms] at hst
          subst hst; exact Or.inl rfl
        · subst hVdef
          obtain ⟨st, _, hst⟩ := List.mem_flatMap.mp hv
          cases st <;> simp [Parser.verbSyms] at hst
          subst hst; exact Or.inl rfl

/-! ## Non-vacuity -/

/-- `Y = {a} * X[-1]` then `X = Y[1]`: accepted, four symbols. -/
def demoText : List Char :=
  ['Y', ' ', '=', ' ', '{', 'a', '}', ' ', '*', ' ', 'X', '[', '-', '1', ']', '\n', 'X', ' ', '=', ' ', 'Y', '[', '1', ']']

example : (match parseModelText demoText with
    | .ok syms => syms.map (fun s => (s.name, s.type, s.lags, s.leads))
    | .error _ => []) =
    [(some "Y", .endogenous, .int 0, .int 1), (some "a", .parameter, .int 0, .int 0),
     (some "X", .endogenous, .int (-1), .int 0)] := by decide

def errOf {α : Type} : Except Err α → Option Err
  | .error e => some e
  | .ok _ => none

/-- `Y = {0}` is a ParserError, `  Y = X` an IndentationError, `Y = {Y}` a SymbolError. -/
example : errOf (parseModelText ['Y', ' ', '=', ' ', '{', '0', '}']) = some .parserError := by decide
example : errOf (parseModelText [' ', ' ', 'Y', ' ', '=', ' ', 'X']) = some .indentationError := by decide
example : errOf (parseModelText ['Y', ' ', '=', ' ', '{', 'Y', '}']) = some .symbolError := by decide

/-! ## Non-vacuity (review): the hypotheses of the theorems above at `demoText` (two statements, three symbols) -/

def demoStmts : List Parser.Stmt := (stmtsOf (Lx.parseScript demoText)).toOption.getD []
def demoSyms : List Parser.Symbol := (parseModelText demoText).toOption.getD []
theorem demoStmts_eq : stmtsOf (Lx.parseScript demoText) = .ok demoStmts := rfl
theorem demoSyms_eq : parseModelText demoText = .ok demoSyms := rfl
-- stmts_wellIndexed: `h`, with two real statements
example : demoStmts.length = 2 ∧ Parser.WellIndexed demoStmts :=
  ⟨by decide +kernel, stmts_wellIndexed demoText demoStmts demoStmts_eq⟩
-- parseModelText_ok_symbols_wellformed: `h`, with three real symbols (one with a lag, one with a lead)
example : demoSyms.length = 3 ∧ ∀ s ∈ demoSyms, (s.name = none ↔ s.type = .verbatim) ∧
    (s.lags = .none ∨ ∃ m, s.lags = .int m ∧ m ≤ 0) ∧ (s.leads = .none ∨ ∃ m, s.leads = .int m ∧ 0 ≤ m) :=
  ⟨by decide +kernel, parseModelText_ok_symbols_wellformed demoText demoSyms demoSyms_eq⟩
-- parseModelText_error_classes: `h` for each class
example : parseModelText ['Y', ' ', '=', ' ', '{', '0', '}'] = .error .parserError ∧
    parseModelText [' ', ' ', 'Y', ' ', '=', ' ', 'X'] = .error .indentationError ∧
    parseModelText ['Y', ' ', '=', ' ', '{', 'Y', '}'] = .error .symbolError := ⟨rfl, rfl, rfl⟩

end Fsic.Pipeline
