import Proofs.Lemmas.Solver
import FsicModel.Generated
import Proofs.Lemmas.SolverTable
/-
C06 — Numerical-error and failure policies follow the documented state machine.

All statements are for an arbitrary interpretation `I` (every model, every hook, every float semantics), every
option set, span length and period.  `u0` = state left by the pre-hook, `v0` = check vector read before it.
A *prefix of continuing passes* `1 … s-1` is described by `Continues` (Lemmas/Solver.lean): each such pass does
not raise and either starts from non-finite held values (never judged), or meets a newly non-finite value under
`ignore`/`replace` before `max_iter`, or is finite but below `min_iter` / not converged.
-/
set_option linter.unusedSimpArgs false
set_option linter.unusedVariables false
namespace Fsic.C06
open Fsic

variable {σ V : Type} (I : Interp σ V) (o : Opts) (n : Nat) (t : Int) (w : World σ)

/-- Loop reached pass `s` (all earlier passes continued), with `s ≤ max_iter`. -/
structure Reaches (u0 : σ) (v0 : V) (s : Nat) : Prop where
  pos : 1 ≤ s
  le : s ≤ o.maxIter.toNat
  pre : ∀ i, 0 < i → i < s → Continues I o t u0 v0 i

theorem loop_at (u0 : σ) (v0 : V) (s : Nat) (h : Reaches I o t u0 v0 s) :
    loop I o t o.maxIter.toNat 1 u0 v0
      = loop I o t (o.maxIter.toNat - s + 1) s (traj I o t u0 (s - 1)) (hv I o t u0 v0 (s - 1)) := by
  obtain ⟨h1, h2, h3⟩ := h
  have hk := loop_skip I o t u0 v0 (s - 1) (o.maxIter.toNat - s + 1) 0
    (fun i hi hi' => h3 i hi (by omega))
  have e1 : o.maxIter.toNat - s + 1 + (s - 1) = o.maxIter.toNat := by omega
  have e2 : 0 + (s - 1) + 1 = s := by omega
  have e3 : 0 + (s - 1) = s - 1 := by omega
  rw [e1, e2, e3] at hk
  exact hk

/-- Pre-existing non-finite check values under `errors='raise'` are rejected before any pass or hook runs;
    with `offset = 0` the world is unchanged. -/
theorem preexisting_nonfinite_rejected (hacc : Accepted I o n t) (he : o.errors = .raise)
    (hnf : I.allFinite (I.check (seed I o t w.user) t) = false) :
    solveT I o n t w = (withUser w (seed I o t w.user), .solutionError false) := by
  rw [solveT_accepted I o n t w hacc]
  simp [solveCore, he, hnf]

theorem preexisting_nonfinite_unchanged (hacc : Accepted I o n t) (he : o.errors = .raise) (h0 : o.offset = 0)
    (hnf : I.allFinite (I.check w.user t) = false) :
    solveT I o n t w = (w, .solutionError false) := by
  have hs : seed I o t w.user = w.user := by simp [seed, h0]
  have := preexisting_nonfinite_rejected I o n t w hacc he (by rw [hs]; exact hnf)
  rw [this, hs]; rfl

/-- `errors='raise'`: the first pass `s` that turns a finite held vector into a non-finite one gives status 'E',
    `iterations[t] = s` and an (unchained) SolutionError. -/
theorem policy_raise (hacc : Accepted I o n t) (he : o.errors = .raise)
    (hb : (I.before o (seed I o t w.user) t).2 = false)
    (hv0 : I.allFinite (I.check (seed I o t w.user) t) = true)
    (s : Nat) (hs : Reaches I o t (I.before o (seed I o t w.user) t).1 (I.check (seed I o t w.user) t) s)
    (hr : (I.eval o (traj I o t (I.before o (seed I o t w.user) t).1 (s - 1)) t s).2 = false)
    (h1 : I.allFinite (hv I o t (I.before o (seed I o t w.user) t).1 (I.check (seed I o t w.user) t) (s - 1)) = true)
    (h2 : I.allFinite (I.check (traj I o t (I.before o (seed I o t w.user) t).1 s) t) = false) :
    solveT I o n t w =
      (stamp (withUser w (traj I o t (I.before o (seed I o t w.user) t).1 s)) n t .error s,
       .solutionError false) := by
  rw [solveT_eq_finish I o n t w hacc (by simp [hv0]) hb, loop_at I o t _ _ s hs]
  obtain ⟨hp, _, _⟩ := hs
  obtain ⟨j, rfl⟩ : ∃ j, s = j + 1 := ⟨s - 1, by omega⟩
  simp only [Nat.add_sub_cancel] at hr h1 ⊢
  rw [loop_stop_fault I o t _ _ _ j hr h1 h2]
  simp [he, finish]

/-- `errors='skip'`: status 'S', `iterations[t] = s`, no exception, result `False`. -/
theorem policy_skip (hacc : Accepted I o n t) (he : o.errors = .skip)
    (hb : (I.before o (seed I o t w.user) t).2 = false)
    (s : Nat) (hs : Reaches I o t (I.before o (seed I o t w.user) t).1 (I.check (seed I o t w.user) t) s)
    (hr : (I.eval o (traj I o t (I.before o (seed I o t w.user) t).1 (s - 1)) t s).2 = false)
    (h1 : I.allFinite (hv I o t (I.before o (seed I o t w.user) t).1 (I.check (seed I o t w.user) t) (s - 1)) = true)
    (h2 : I.allFinite (I.check (traj I o t (I.before o (seed I o t w.user) t).1 s) t) = false) :
    solveT I o n t w =
      (stamp (withUser w (traj I o t (I.before o (seed I o t w.user) t).1 s)) n t .skipped s, .ret false) := by
  rw [solveT_eq_finish I o n t w hacc (by simp [he]) hb, loop_at I o t _ _ s hs]
  obtain ⟨hp, _, _⟩ := hs
  obtain ⟨j, rfl⟩ : ∃ j, s = j + 1 := ⟨s - 1, by omega⟩
  simp only [Nat.add_sub_cancel] at hr h1 ⊢
  rw [loop_stop_fault I o t _ _ _ j hr h1 h2]
  simp [he, finish]

/-- …and a multi-period solve moves on to the next period after a skipped (or any non-raising) one. -/
theorem solve_moves_on (p : Nat) (rest ps : List Nat) (fs : List Bool) (w' : World σ) (b : Bool)
    (h : solveT I o n (p : Int) w = (w', .ret b)) :
    solveList I o n (p :: rest) w ps fs = solveList I o n rest w' (p :: ps) (b :: fs) := by
  simp [solveList, h]

/-- An invalid `errors` argument meeting a newly non-finite value raises ValueError (no status is recorded). -/
theorem policy_invalid (hacc : Accepted I o n t) (he : o.errors = .invalid)
    (hb : (I.before o (seed I o t w.user) t).2 = false)
    (s : Nat) (hs : Reaches I o t (I.before o (seed I o t w.user) t).1 (I.check (seed I o t w.user) t) s)
    (hr : (I.eval o (traj I o t (I.before o (seed I o t w.user) t).1 (s - 1)) t s).2 = false)
    (h1 : I.allFinite (hv I o t (I.before o (seed I o t w.user) t).1 (I.check (seed I o t w.user) t) (s - 1)) = true)
    (h2 : I.allFinite (I.check (traj I o t (I.before o (seed I o t w.user) t).1 s) t) = false) :
    solveT I o n t w =
      (withUser w (traj I o t (I.before o (seed I o t w.user) t).1 s), .badErrorsArg) := by
  rw [solveT_eq_finish I o n t w hacc (by simp [he]) hb, loop_at I o t _ _ s hs]
  obtain ⟨hp, _, _⟩ := hs
  obtain ⟨j, rfl⟩ : ∃ j, s = j + 1 := ⟨s - 1, by omega⟩
  simp only [Nat.add_sub_cancel] at hr h1 ⊢
  rw [loop_stop_fault I o t _ _ _ j hr h1 h2]
  simp [he, finish]

/-- `ignore` / `replace`: a newly non-finite value before `max_iter` does not stop the iteration (it is part of
    `Continues`), and the period ends '.' by the ordinary rule applied to *judged* passes only: pass `s` is
    accepted iff the held previous vector and the new vector are finite, `s ≥ min_iter`, and they are close. -/
theorem policy_continue_solved (hacc : Accepted I o n t)
    (hpre : ¬ (o.errors = .raise ∧ I.allFinite (I.check (seed I o t w.user) t) = false))
    (hb : (I.before o (seed I o t w.user) t).2 = false)
    (s : Nat) (hs : Reaches I o t (I.before o (seed I o t w.user) t).1 (I.check (seed I o t w.user) t) s)
    (hr : (I.eval o (traj I o t (I.before o (seed I o t w.user) t).1 (s - 1)) t s).2 = false)
    (h1 : I.allFinite (hv I o t (I.before o (seed I o t w.user) t).1 (I.check (seed I o t w.user) t) (s - 1)) = true)
    (h2 : I.allFinite (I.check (traj I o t (I.before o (seed I o t w.user) t).1 s) t) = true)
    (h3 : ¬ (s : Int) < o.minIter)
    (h4 : I.close (I.check (traj I o t (I.before o (seed I o t w.user) t).1 s) t)
            (hv I o t (I.before o (seed I o t w.user) t).1 (I.check (seed I o t w.user) t) (s - 1)) = true)
    (ha : (I.after o (traj I o t (I.before o (seed I o t w.user) t).1 s) t s).2 = false) :
    solveT I o n t w =
      (stamp (withUser w (I.after o (traj I o t (I.before o (seed I o t w.user) t).1 s) t s).1) n t .solved s,
       .ret true) := by
  rw [solveT_eq_finish I o n t w hacc hpre hb, loop_at I o t _ _ s hs]
  obtain ⟨hp, _, _⟩ := hs
  obtain ⟨j, rfl⟩ : ∃ j, s = j + 1 := ⟨s - 1, by omega⟩
  simp only [Nat.add_sub_cancel] at hr h1 h4 ⊢
  rw [loop_stop_good I o t _ _ _ j hr h1 h2 h3 h4]
  unfold afterOut
  have hae : I.after o (traj I o t (I.before o (seed I o t w.user) t).1 (j + 1)) t (j + 1)
      = ((I.after o (traj I o t (I.before o (seed I o t w.user) t).1 (j + 1)) t (j + 1)).1, false) :=
    Prod.ext rfl ha
  rw [hae]
  simp [finish]

/-- `ignore` / `replace` (and every other mode): if all `max_iter` passes continue, the period ends 'F' with
    `iterations[t] = max_iter`; NonConvergenceError iff `failures='raise'`. -/
theorem policy_continue_failed (hacc : Accepted I o n t)
    (hpre : ¬ (o.errors = .raise ∧ I.allFinite (I.check (seed I o t w.user) t) = false))
    (hb : (I.before o (seed I o t w.user) t).2 = false)
    (hall : ∀ i, 0 < i → i ≤ o.maxIter.toNat →
      Continues I o t (I.before o (seed I o t w.user) t).1 (I.check (seed I o t w.user) t) i) :
    solveT I o n t w =
      (stamp (withUser w (traj I o t (I.before o (seed I o t w.user) t).1 o.maxIter.toNat)) n t .failed
         (o.maxIter.toNat : Nat),
       if o.failRaise = true then .nonConvergence else .ret false) := by
  rw [solveT_eq_finish I o n t w hacc hpre hb]
  have hk := loop_skip I o t (I.before o (seed I o t w.user) t).1 (I.check (seed I o t w.user) t)
    o.maxIter.toNat 0 0 (fun i hi hi' => hall i hi (by omega))
  simp only [Nat.zero_add] at hk
  change loop I o t o.maxIter.toNat 1 (I.before o (seed I o t w.user) t).1 (I.check (seed I o t w.user) t) = _ at hk
  rw [hk]
  simp [loop, finish]

/-- `ignore` / `replace` at the last allowed pass: a newly non-finite value there ends the period 'F'. -/
theorem policy_continue_failed_at_max (hacc : Accepted I o n t) (he : o.errors = .ignore ∨ o.errors = .replace)
    (hb : (I.before o (seed I o t w.user) t).2 = false)
    (s : Nat) (hs : Reaches I o t (I.before o (seed I o t w.user) t).1 (I.check (seed I o t w.user) t) s)
    (hmax : (s : Int) = o.maxIter)
    (hr : (I.eval o (traj I o t (I.before o (seed I o t w.user) t).1 (s - 1)) t s).2 = false)
    (h1 : I.allFinite (hv I o t (I.before o (seed I o t w.user) t).1 (I.check (seed I o t w.user) t) (s - 1)) = true)
    (h2 : I.allFinite (I.check (traj I o t (I.before o (seed I o t w.user) t).1 s) t) = false) :
    solveT I o n t w =
      (stamp (withUser w (traj I o t (I.before o (seed I o t w.user) t).1 s)) n t .failed s,
       if o.failRaise = true then .nonConvergence else .ret false) := by
  have hpre : ¬ (o.errors = .raise ∧ I.allFinite (I.check (seed I o t w.user) t) = false) := by
    rcases he with he | he <;> simp [he]
  rw [solveT_eq_finish I o n t w hacc hpre hb, loop_at I o t _ _ s hs]
  obtain ⟨hp, _, _⟩ := hs
  obtain ⟨j, rfl⟩ : ∃ j, s = j + 1 := ⟨s - 1, by omega⟩
  simp only [Nat.add_sub_cancel] at hr h1 ⊢
  rw [loop_stop_fault I o t _ _ _ j hr h1 h2]
  rcases he with he | he <;> simp [he, hmax, finish]

/-- A pass that starts from non-finite held values is never judged for convergence. -/
theorem never_judged_from_nonfinite (fuel k : Nat) (u : σ) (prev : V)
    (hr : (I.eval o u t k).2 = false) (hp : I.allFinite prev = false) :
    loop I o t (fuel + 1) k u prev
      = loop I o t fuel (k + 1) (I.eval o u t k).1 (I.check (I.eval o u t k).1 t) :=
  loop_unjudged I o t fuel k u prev hr hp

/-- An exception inside evaluation pass `s` surfaces as a chained SolutionError; under `errors='raise'` it also
    records 'E' and the pass number, otherwise status and iterations are left as they were. -/
theorem eval_exception (hacc : Accepted I o n t)
    (hpre : ¬ (o.errors = .raise ∧ I.allFinite (I.check (seed I o t w.user) t) = false))
    (hb : (I.before o (seed I o t w.user) t).2 = false)
    (s : Nat) (hs : Reaches I o t (I.before o (seed I o t w.user) t).1 (I.check (seed I o t w.user) t) s)
    (hr : (I.eval o (traj I o t (I.before o (seed I o t w.user) t).1 (s - 1)) t s).2 = true) :
    solveT I o n t w =
      (if o.errors = .raise
        then stamp (withUser w (traj I o t (I.before o (seed I o t w.user) t).1 s)) n t .error s
        else withUser w (traj I o t (I.before o (seed I o t w.user) t).1 s),
       .solutionError true) := by
  rw [solveT_eq_finish I o n t w hacc hpre hb, loop_at I o t _ _ s hs]
  obtain ⟨hp, _, _⟩ := hs
  obtain ⟨j, rfl⟩ : ∃ j, s = j + 1 := ⟨s - 1, by omega⟩
  simp only [Nat.add_sub_cancel] at hr ⊢
  rw [loop_stop_raise I o t _ _ _ j hr]
  simp [finish]

/-- An exception in the pre-hook surfaces as a chained SolutionError; status and iterations do not change. -/
theorem before_exception (hacc : Accepted I o n t)
    (hpre : ¬ (o.errors = .raise ∧ I.allFinite (I.check (seed I o t w.user) t) = false))
    (hb : (I.before o (seed I o t w.user) t).2 = true) :
    solveT I o n t w = (withUser w (I.before o (seed I o t w.user) t).1, .solutionError true) := by
  rw [solveT_accepted I o n t w hacc]
  unfold solveCore
  have hbe : I.before o (seed I o t w.user) t = ((I.before o (seed I o t w.user) t).1, true) := Prod.ext rfl hb
  rw [hbe]
  simp only [hpre, if_false]

/-- An exception in the post-hook surfaces as a chained SolutionError; status and iterations do not change. -/
theorem after_exception (hacc : Accepted I o n t)
    (hpre : ¬ (o.errors = .raise ∧ I.allFinite (I.check (seed I o t w.user) t) = false))
    (hb : (I.before o (seed I o t w.user) t).2 = false)
    (s : Nat) (hs : Reaches I o t (I.before o (seed I o t w.user) t).1 (I.check (seed I o t w.user) t) s)
    (hr : (I.eval o (traj I o t (I.before o (seed I o t w.user) t).1 (s - 1)) t s).2 = false)
    (h1 : I.allFinite (hv I o t (I.before o (seed I o t w.user) t).1 (I.check (seed I o t w.user) t) (s - 1)) = true)
    (h2 : I.allFinite (I.check (traj I o t (I.before o (seed I o t w.user) t).1 s) t) = true)
    (h3 : ¬ (s : Int) < o.minIter)
    (h4 : I.close (I.check (traj I o t (I.before o (seed I o t w.user) t).1 s) t)
            (hv I o t (I.before o (seed I o t w.user) t).1 (I.check (seed I o t w.user) t) (s - 1)) = true)
    (ha : (I.after o (traj I o t (I.before o (seed I o t w.user) t).1 s) t s).2 = true) :
    solveT I o n t w =
      (withUser w (I.after o (traj I o t (I.before o (seed I o t w.user) t).1 s) t s).1, .solutionError true) := by
  rw [solveT_eq_finish I o n t w hacc hpre hb, loop_at I o t _ _ s hs]
  obtain ⟨hp, _, _⟩ := hs
  obtain ⟨j, rfl⟩ : ∃ j, s = j + 1 := ⟨s - 1, by omega⟩
  simp only [Nat.add_sub_cancel] at hr h1 h4 ⊢
  rw [loop_stop_good I o t _ _ _ j hr h1 h2 h3 h4]
  unfold afterOut
  have hae : I.after o (traj I o t (I.before o (seed I o t w.user) t).1 (j + 1)) t (j + 1)
      = ((I.after o (traj I o t (I.before o (seed I o t w.user) t).1 (j + 1)) t (j + 1)).1, true) :=
    Prod.ext rfl ha
  rw [hae]
  simp [finish]

/-! ### Status alphabet and the solved flag -/

/-- The model's status alphabet is exactly the reflected `SolutionStatus` enumeration of /repo. -/
theorem status_alphabet :
    Generated.solutionStatus.map (·.2) =
      [Status.unsolved, .solved, .failed, .error, .skipped].map (fun s => String.singleton s.char) := by
  decide

/-- Whatever happens, the flag returned is `True` only when the status just recorded is '.'. -/
theorem solved_iff_dot (r : LoopOut σ) :
    (finish o n t w r).2 = .ret true ↔ ∃ u k, r = .done u .solved k := by
  cases r with
  | done u s k =>
    cases s <;> simp [finish] <;> (try split) <;> simp_all
  | evalRaised u k => simp [finish]
  | nonFinite u k => simp [finish]
  | afterRaised u k => simp [finish]
  | badErrors u k => simp [finish]

/-! ### `catch_first_error`: the statement that warned does not store its result

A pass of a parser-built model is a sequence of statements; each computes a value (possibly emitting a
numerical warning) and then stores it.  Under warnings-as-errors the pass stops *before* the store. -/

/-- One statement: `rhs` returns the value and whether a warning was emitted; `store` writes it. -/
structure Stmt (σ F : Type) where
  rhs : σ → F × Bool
  store : σ → F → σ

/-- Run the statements of a pass; `strict` = warnings are errors (`errors='raise'` and `catch_first_error`). -/
def runStmts {σ F : Type} (strict : Bool) : List (Stmt σ F) → σ → σ × Bool
  | [], u => (u, false)
  | st :: rest, u =>
    if (st.rhs u).2 = true ∧ strict = true then (u, true)
    else runStmts strict rest (st.store u (st.rhs u).1)

theorem runStmts_append {σ F : Type} (strict : Bool) (pre post : List (Stmt σ F)) (u : σ) :
    runStmts strict (pre ++ post) u =
      if (runStmts strict pre u).2 = true then runStmts strict pre u
      else runStmts strict post (runStmts strict pre u).1 := by
  induction pre generalizing u with
  | nil => simp [runStmts]
  | cons p ps ih =>
    simp only [List.cons_append, runStmts]
    by_cases hc : (p.rhs u).2 = true ∧ strict = true
    · simp [hc]
    · simp only [hc, if_false]
      exact ih _

/-- Statements before the warning one are stored, the warning one is not, later ones do not run. -/
theorem catch_first_no_store {σ F : Type} (pre : List (Stmt σ F)) (st : Stmt σ F) (rest : List (Stmt σ F)) (u : σ)
    (hpre : (runStmts true pre u).2 = false)
    (hw : (st.rhs (runStmts true pre u).1).2 = true) :
    runStmts true (pre ++ st :: rest) u = ((runStmts true pre u).1, true) := by
  rw [runStmts_append]
  simp [hpre, runStmts, hw]

/-- Without warnings-as-errors the same statement does store, and the pass goes on. -/
theorem no_catch_stores {σ F : Type} (pre : List (Stmt σ F)) (st : Stmt σ F) (rest : List (Stmt σ F)) (u : σ) :
    runStmts false (pre ++ st :: rest) u =
      runStmts false rest (st.store (runStmts false pre u).1 (st.rhs (runStmts false pre u).1).1) := by
  have hno : ∀ (l : List (Stmt σ F)) (u' : σ), (runStmts false l u').2 = false := by
    intro l
    induction l with
    | nil => intro u'; rfl
    | cons p ps ih => intro u'; simp [runStmts, ih]
  rw [runStmts_append]
  simp [hno, runStmts]

/-! ### The statement-level clause, tied to the solver's options -/

/-- Warnings are errors exactly under `errors='raise'` with `catch_first_error` (the `warnings.simplefilter('error')`
    branch of `solve_t`). -/
def strictOf (o : Opts) : Bool := decide (o.errors = .raise) && o.catchFirst

/-- **The statement that warned does not store; the call raises with 'E' at that pass.**  For any model whose
    evaluation pass runs a list of statements (`heval`), under `errors='raise'` and `catch_first_error`: if pass `s` is
    reached and its statement `st` — after the statements `pre` of that pass, which did not warn — emits a warning, then
    `solve_t` raises a chained SolutionError, records 'E' and `s`, and leaves the values as they were after `pre`:
    `st`'s result is not stored and the statements after it do not run. -/
theorem warning_statement_not_stored {σ V F : Type} (I : Interp σ V) (o : Opts) (n : Nat) (t : Int) (w : World σ)
    (stmts : Int → Nat → List (Stmt σ F))
    (heval : ∀ o' u t' k, I.eval o' u t' k = runStmts (strictOf o') (stmts t' k) u)
    (he : o.errors = .raise) (hc : o.catchFirst = true)
    (hacc : Accepted I o n t)
    (hpre0 : ¬ (o.errors = .raise ∧ I.allFinite (I.check (seed I o t w.user) t) = false))
    (hb : (I.before o (seed I o t w.user) t).2 = false)
    (s : Nat) (hs : Reaches I o t (I.before o (seed I o t w.user) t).1 (I.check (seed I o t w.user) t) s)
    (pre : List (Stmt σ F)) (st : Stmt σ F) (rest : List (Stmt σ F))
    (hsplit : stmts t s = pre ++ st :: rest)
    (hpre : (runStmts true pre (traj I o t (I.before o (seed I o t w.user) t).1 (s - 1))).2 = false)
    (hw : (st.rhs (runStmts true pre (traj I o t (I.before o (seed I o t w.user) t).1 (s - 1))).1).2 = true) :
    solveT I o n t w =
      (stamp (withUser w (runStmts true pre (traj I o t (I.before o (seed I o t w.user) t).1 (s - 1))).1) n t .error s,
       .solutionError true) := by
  have hstrict : strictOf o = true := by simp [strictOf, he, hc]
  have hpass : I.eval o (traj I o t (I.before o (seed I o t w.user) t).1 (s - 1)) t s
      = ((runStmts true pre (traj I o t (I.before o (seed I o t w.user) t).1 (s - 1))).1, true) := by
    rw [heval, hstrict, hsplit]
    exact catch_first_no_store pre st rest _ hpre hw
  have hr : (I.eval o (traj I o t (I.before o (seed I o t w.user) t).1 (s - 1)) t s).2 = true := by rw [hpass]
  rw [eval_exception I o n t w hacc hpre0 hb s hs hr]
  simp only [he, if_true]
  obtain ⟨hp, _, _⟩ := hs
  obtain ⟨j, rfl⟩ : ∃ j, s = j + 1 := ⟨s - 1, by omega⟩
  simp only [Nat.add_sub_cancel] at hpass ⊢
  show (stamp (withUser w (I.eval o (traj I o t _ j) t (j + 1)).1) n t .error _, _) = _
  rw [hpass]

/-- Non-vacuity: pass with three statements, the second warns. -/
example : runStmts true
    [⟨fun u => (u + 1, false), fun _ v => v⟩, ⟨fun u => (u * 100, true), fun _ v => v⟩,
     ⟨fun u => (u + 7, false), fun _ v => v⟩] (0 : Nat) = (1, true) := by decide

/-- Non-vacuity for the policies: a model whose second pass yields a "non-finite" vector (modelled by 99). -/
def exI : Interp Nat Nat where
  lags := 0
  leads := 0
  check u _ := u
  allFinite v := v != 99
  close a b := a == b
  zeroNF _ := 0
  copyOffset u _ _ := u
  before _ u _ := (u, false)
  eval _ u _ k := (if k = 2 then 99 else u + 1, false)
  after _ u _ _ := (u, false)

example : solveT exI { maxIter := 5, errors := .raise } 3 1 ⟨0, List.replicate 3 .unsolved, [-1, -1, -1]⟩
    = (⟨99, [.unsolved, .error, .unsolved], [-1, 2, -1]⟩, .solutionError false) := by decide

example : solveT exI { maxIter := 5, errors := .skip } 3 1 ⟨0, List.replicate 3 .unsolved, [-1, -1, -1]⟩
    = (⟨99, [.unsolved, .skipped, .unsolved], [-1, 2, -1]⟩, .ret false) := by decide

/-- `replace`: pass 2 gives 99 → held 0; pass 3 (never judged against 99) gives 100, pass 4 101 … fails at 5. -/
example : solveT exI { maxIter := 5, errors := .replace, failRaise := false } 3 1
      ⟨0, List.replicate 3 .unsolved, [-1, -1, -1]⟩
    = (⟨102, [.unsolved, .failed, .unsolved], [-1, 5, -1]⟩, .ret false) := by decide

/-! ### Converse: the policies are the only source of their statuses -/

/-- **The policies are the only source of their statuses.**  Whatever the model does: a call leaves 'S' only under
    `errors='skip'`, 'E' only under `errors='raise'`, raises the invalid-`errors` ValueError only when `errors` is not
    one of the four policies, and 'S'/'E' always carry the number of the pass that met the fault
    (`1 ≤ iterations[t] ≤ max_iter`). -/
theorem policy_statuses_sound :
    (∀ k, (outcomeOf I o n t w.user).2.1 = some (.skipped, k) → o.errors = .skip ∧ 1 ≤ k ∧ k ≤ o.maxIter) ∧
    (∀ k, (outcomeOf I o n t w.user).2.1 = some (.error, k) → o.errors = .raise ∧ 1 ≤ k ∧ k ≤ o.maxIter) ∧
    ((outcomeOf I o n t w.user).2.2 = .badErrorsArg → o.errors = .invalid) := by
  have h := outcome_agrees I o t n w.user
  generalize outcomeOf I o n t w.user = oc at h ⊢
  rcases oc with ⟨u', st, r⟩
  simp only at h
  refine ⟨?_, ?_, ?_⟩
  · intro k hk
    simp only at hk; subst hk
    cases r with
    | ret b => cases b <;> simp only [Agree] at h; exact ⟨h.2.2, h.1, h.2.1⟩
    | _ => simp only [Agree] at h
  · intro k hk
    simp only at hk; subst hk
    cases r with
    | solutionError c => simp only [Agree] at h; exact ⟨h.2.2, h.1, h.2.1⟩
    | _ => simp only [Agree] at h
  · intro hr
    simp only at hr; subst hr
    rcases st with _ | ⟨s, k⟩
    · simpa only [Agree] using h
    · cases s <;> simp only [Agree] at h

/-! ### Non-vacuity (review): every hypothesis-carrying theorem instantiated at a concrete run with real passes -/

private def exW : World Nat := ⟨0, List.replicate 3 .unsolved, [-1, -1, -1]⟩
private theorem swapLt {P : Nat → Prop} (n : Nat) (h : ∀ i, i < n → 0 < i → P i) : ∀ i, 0 < i → i < n → P i :=
  fun i a b => h i b a
private theorem swapLe {P : Nat → Prop} (n : Nat) (h : ∀ i, i ≤ n → 0 < i → P i) : ∀ i, 0 < i → i ≤ n → P i :=
  fun i a b => h i b a
private theorem exAcc (I : Interp Nat Nat) (hl : I.lags = 0) (hd : I.leads = 0) (o : Opts) (h0 : ¬ o.minIter > o.maxIter)
    (h1 : o.offset = 0) : Accepted I o 3 1 := by
  unfold Accepted Feasible normT; rw [hl, hd]; exact ⟨h0, by decide, Or.inl h1⟩


example : loop exI { maxIter := 5 } 1 5 1 0 0 =
    loop exI { maxIter := 5 } 1 (5 - 2 + 1) 2 (traj exI { maxIter := 5 } 1 0 (2 - 1)) (hv exI { maxIter := 5 } 1 0 0 (2 - 1)) :=
  loop_at exI { maxIter := 5 } 1 0 0 2 ⟨by decide, by decide, swapLt 2 (by unfold Continues; decide)⟩

/-- Pre-existing non-finite value (99) under `errors='raise'`. -/
example : solveT exI {} 3 1 ⟨99, [.unsolved, .solved, .unsolved], [-1, 4, -1]⟩ =
    (⟨99, [.unsolved, .solved, .unsolved], [-1, 4, -1]⟩, .solutionError false) :=
  preexisting_nonfinite_unchanged exI {} 3 1 _ (exAcc exI rfl rfl _ (by decide) rfl) rfl rfl (by decide)
example : solveT exI { offset := 1 } 3 1 ⟨99, [.unsolved, .solved, .unsolved], [-1, 4, -1]⟩ =
    (withUser ⟨99, [.unsolved, .solved, .unsolved], [-1, 4, -1]⟩ 99, .solutionError false) :=
  preexisting_nonfinite_rejected exI { offset := 1 } 3 1 _ (by unfold Accepted Feasible; decide) rfl (by decide)

/-- `policy_raise`, `policy_skip`, `policy_invalid`: the fault appears at pass `s = 2` (not the first pass). -/
example : solveT exI { maxIter := 5, errors := .raise } 3 1 exW =
    (stamp (withUser exW 99) 3 1 .error ((2 : Nat) : Int), .solutionError false) :=
  policy_raise exI { maxIter := 5, errors := .raise } 3 1 exW (exAcc exI rfl rfl _ (by decide) rfl) rfl rfl (by decide) 2
    ⟨by decide, by decide, swapLt 2 (by unfold Continues; decide)⟩ rfl (by decide) (by decide)
example : solveT exI { maxIter := 5, errors := .skip } 3 1 exW =
    (stamp (withUser exW 99) 3 1 .skipped ((2 : Nat) : Int), .ret false) :=
  policy_skip exI { maxIter := 5, errors := .skip } 3 1 exW (exAcc exI rfl rfl _ (by decide) rfl) rfl rfl 2
    ⟨by decide, by decide, swapLt 2 (by unfold Continues; decide)⟩ rfl (by decide) (by decide)
example : solveT exI { maxIter := 5, errors := .invalid } 3 1 exW = (withUser exW 99, .badErrorsArg) :=
  policy_invalid exI { maxIter := 5, errors := .invalid } 3 1 exW (exAcc exI rfl rfl _ (by decide) rfl) rfl rfl 2
    ⟨by decide, by decide, swapLt 2 (by unfold Continues; decide)⟩ rfl (by decide) (by decide)

/-- `solve_moves_on` after the skipped period 1: the loop continues with period 2. -/
example : solveList exI { maxIter := 5, errors := .skip } 3 (1 :: [2]) exW [] [] =
    solveList exI { maxIter := 5, errors := .skip } 3 [2] ⟨99, [.unsolved, .skipped, .unsolved], [-1, 2, -1]⟩ [1] [false] :=
  solve_moves_on exI _ 3 exW 1 [2] [] [] _ false (by decide)

/-- A model that yields the non-finite 99 at pass 2 only and 5 otherwise: under `ignore` pass 3 starts from the
    non-finite vector (never judged), pass 4 is judged and accepted. -/
private def exJ : Interp Nat Nat :=
  { exI with eval := fun _ _ _ k => (if k = 2 then 99 else 5, false) }

example : solveT exJ { maxIter := 6, errors := .ignore } 3 1 exW =
    (stamp (withUser exW 5) 3 1 .solved ((4 : Nat) : Int), .ret true) :=
  policy_continue_solved exJ { maxIter := 6, errors := .ignore } 3 1 exW (exAcc exJ rfl rfl _ (by decide) rfl)
    (by decide) rfl 4 ⟨by decide, by decide, swapLt 4 (by unfold Continues; decide)⟩ rfl (by decide) (by decide)
    (by decide) (by decide) rfl

/-- `policy_continue_failed`: `replace`, all five passes continue (pass 2 is the fault, replaced by 0). -/
example : solveT exI { maxIter := 5, errors := .replace, failRaise := false } 3 1 exW =
    (stamp (withUser exW 102) 3 1 .failed ((5 : Nat) : Int), .ret false) :=
  policy_continue_failed exI { maxIter := 5, errors := .replace, failRaise := false } 3 1 exW
    (exAcc exI rfl rfl _ (by decide) rfl) (by decide) rfl (swapLe 5 (by unfold Continues; decide))

/-- `policy_continue_failed_at_max`: `ignore`, `max_iter = 2`, the fault falls on the last permitted pass. -/
example : solveT exI { maxIter := 2, errors := .ignore } 3 1 exW =
    (stamp (withUser exW 99) 3 1 .failed ((2 : Nat) : Int), .nonConvergence) :=
  policy_continue_failed_at_max exI { maxIter := 2, errors := .ignore } 3 1 exW (exAcc exI rfl rfl _ (by decide) rfl)
    (Or.inl rfl) rfl 2 ⟨by decide, by decide, swapLt 2 (by unfold Continues; decide)⟩ rfl rfl (by decide) (by decide)

/-- `never_judged_from_nonfinite`: pass 3 entered with the held vector 99. -/
example : loop exI { errors := .ignore } 1 (2 + 1) 3 99 99 =
    loop exI { errors := .ignore } 1 2 (3 + 1) 100 100 :=
  never_judged_from_nonfinite exI { errors := .ignore } 1 2 3 99 99 rfl (by decide)

/-- Hooks / passes that raise: pre-hook (`rb`), pass number `re`, post-hook (`ra`); a pass moves one step towards 2. -/
private def exK (rb ra : Bool) (re : Nat) : Interp Nat Nat :=
  { exI with allFinite := fun _ => true, before := fun _ u _ => (u, rb),
             eval := fun _ u _ k => (min (u + 1) 2, k == re), after := fun _ u _ _ => (u, ra) }

example : solveT (exK false false 2) { maxIter := 5 } 3 1 exW =
    (stamp (withUser exW 2) 3 1 .error ((2 : Nat) : Int), .solutionError true) :=
  eval_exception (exK false false 2) { maxIter := 5 } 3 1 exW (exAcc _ rfl rfl _ (by decide) rfl) (by decide) rfl 2
    ⟨by decide, by decide, swapLt 2 (by unfold Continues; decide)⟩ rfl
example : solveT (exK false false 2) { maxIter := 5, errors := .skip } 3 1 exW = (withUser exW 2, .solutionError true) :=
  eval_exception (exK false false 2) { maxIter := 5, errors := .skip } 3 1 exW (exAcc _ rfl rfl _ (by decide) rfl)
    (by decide) rfl 2 ⟨by decide, by decide, swapLt 2 (by unfold Continues; decide)⟩ rfl
example : solveT (exK true false 0) { maxIter := 5 } 3 1 exW = (withUser exW 0, .solutionError true) :=
  before_exception (exK true false 0) { maxIter := 5 } 3 1 exW (exAcc _ rfl rfl _ (by decide) rfl) (by decide) rfl
example : solveT (exK false true 0) { maxIter := 5 } 3 1 exW = (withUser exW 2, .solutionError true) :=
  after_exception (exK false true 0) { maxIter := 5 } 3 1 exW (exAcc _ rfl rfl _ (by decide) rfl) (by decide) rfl 3
    ⟨by decide, by decide, swapLt 3 (by unfold Continues; decide)⟩ rfl (by decide) (by decide) (by decide) (by decide) rfl

/-- `catch_first_no_store` with a non-empty prefix: the first statement stores 1, the second warns. -/
example : runStmts true ([⟨fun u => (u + 1, false), fun _ v => v⟩] ++
      (⟨fun u => (u * 100, true), fun _ v => v⟩ :: [⟨fun u => (u + 7, false), fun _ v => v⟩])) (0 : Nat) =
    ((runStmts true [⟨fun u => (u + 1, false), fun _ v => v⟩] (0 : Nat)).1, true) :=
  catch_first_no_store [⟨fun u => (u + 1, false), fun _ v => v⟩] ⟨fun u => (u * 100, true), fun _ v => v⟩
    [⟨fun u => (u + 7, false), fun _ v => v⟩] (0 : Nat) (by decide) (by decide)

/-- `warning_statement_not_stored`: a model whose pass is three statements — store `u + 1`; store `u * 2` with a warning;
    store 0 — solved with the default error handling from 1: the first statement's 2 is kept, the warning statement's 4
    is not stored, the third never runs; 'E' at pass 1. -/
private def exStm3 : List (Stmt Nat Nat) :=
  [⟨fun u => (u + 1, false), fun _ v => v⟩, ⟨fun u => (u * 2, true), fun _ v => v⟩, ⟨fun _ => (0, false), fun _ v => v⟩]
private def exIS : Interp Nat Nat :=
  { exI with allFinite := fun _ => true, before := fun _ u _ => (u, false),
             eval := fun o u _ _ => runStmts (strictOf o) exStm3 u, after := fun _ u _ _ => (u, false) }
example : solveT exIS { maxIter := 5 } 3 1 ⟨1, List.replicate 3 .unsolved, List.replicate 3 (-1)⟩ =
    (stamp (withUser ⟨1, List.replicate 3 .unsolved, List.replicate 3 (-1)⟩ 2) 3 1 .error ((1 : Nat) : Int),
     .solutionError true) :=
  warning_statement_not_stored exIS { maxIter := 5 } 3 1 _ (fun _ _ => exStm3) (fun _ _ _ _ => rfl) rfl rfl
    (exAcc _ rfl rfl _ (by decide) rfl) (by decide) rfl 1 ⟨by decide, by decide, swapLt 1 (by unfold Continues; decide)⟩
    [⟨fun u => (u + 1, false), fun _ v => v⟩] ⟨fun u => (u * 2, true), fun _ v => v⟩ [⟨fun _ => (0, false), fun _ v => v⟩]
    rfl rfl rfl

end Fsic.C06
