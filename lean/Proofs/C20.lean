import Proofs.Lemmas.Expr
/-
C20 — the dependency-graph tool reports exactly the dependencies the equations have (token level).

`fsic.tools.symbols_to_graph` re-scans every normalised equation: matches left of the first `=` become nodes
carrying the equation, every match to the right (terms — but also function names, keywords, verbatim fragments)
gets an edge into every left-hand-side node.  `graphEdges` / `graphNodes` is that construction on token lists.

* `graph_edges_spec`, `graph_lhs_nodes`: for statements that parse, the edges among variable-like (term) nodes
  are `x → y` for exactly the terms `x` (with their offsets) of the right-hand side of `y`'s equation, and the
  nodes carrying an equation are exactly the left-hand-side terms;
* `coincidence`, `no_edge_no_influence`: an expression's value depends only on the store cells of its terms, so a
  cell with no edge into `y` cannot influence `y` — every store, every operator interpretation;
* `strict_terms_read`, `eager_terms_read`, `edge_is_read_partial`: without lazily evaluated sub-expressions every
  term (= every edge) is read, for ALL data; in general every term outside a lazy position is;
* `lazy_terms_read_somewhere_partial`: a term in a branch of `if/else`, `and`, `or` is read exactly when the guard
  selects its branch, hence for some data unless the guard is constant;
* `every_edge_is_read_false_at_witness`: the literal sentence "every term with an edge into y is actually read"
  is FALSE for the branch not taken (Python's lazy evaluation; recorded as known finding `lazy-branch-not-read`).
-/
set_option linter.unusedSimpArgs false
namespace Fsic.C20
open Fsic.M4

variable {α β F : Type}

/-- Every statement of the program parses (`lhs = expression`). -/
def WellFormed (eqs : List (List (Tok α))) : Prop := ∀ ts ∈ eqs, ∃ eq, parseStmt ts = some eq

theorem edges_of_stmt {ts : List (Tok α)} {eq : Equation α} (h : parseStmt ts = some eq) (x y : α) :
    (Node.term x, Node.term y) ∈ edgesOfEq ts ↔ y = eq.lhs ∧ x ∈ eq.rhs.terms := by
  obtain ⟨rhs, rfl, hr⟩ := parseStmt_some h
  rw [edgesOfEq_stmt, mem_nodesOf_term, parseExpr_atoms hr]
  constructor
  · rintro ⟨hx, hy⟩; exact ⟨by cases hy; rfl, hx⟩
  · rintro ⟨rfl, hx⟩; exact ⟨hx, rfl⟩

/-- Among term nodes there is an edge `x → y` iff `x` is a term of the right-hand side of an equation whose
    left-hand side is `y` — exactly the variable, parameter and error terms, with their offsets. -/
theorem graph_edges_spec (eqs : List (List (Tok α))) (hwf : WellFormed eqs) (x y : α) :
    (Node.term x, Node.term y) ∈ graphEdges eqs ↔
      ∃ ts ∈ eqs, ∃ eq, parseStmt ts = some eq ∧ eq.lhs = y ∧ x ∈ eq.rhs.terms := by
  simp only [graphEdges, List.mem_flatten, List.mem_map]
  constructor
  · rintro ⟨l, ⟨ts, hts, rfl⟩, hm⟩
    obtain ⟨eq, heq⟩ := hwf ts hts
    exact ⟨ts, hts, eq, heq, ((edges_of_stmt heq x y).1 hm).1.symm, ((edges_of_stmt heq x y).1 hm).2⟩
  · rintro ⟨ts, hts, eq, heq, rfl, hx⟩
    exact ⟨_, ⟨ts, hts, rfl⟩, (edges_of_stmt heq x _).2 ⟨rfl, hx⟩⟩

/-- The nodes carrying an `equation` attribute are exactly the left-hand-side terms, each with its own
    equation. -/
theorem graph_lhs_nodes (eqs : List (List (Tok α))) (hwf : WellFormed eqs) (n : Node α) (e : List (Tok α)) :
    (n, some e) ∈ graphNodes eqs ↔ e ∈ eqs ∧ ∃ eq, parseStmt e = some eq ∧ n = .term eq.lhs := by
  simp only [graphNodes, List.mem_flatten, List.mem_map]
  constructor
  · rintro ⟨l, ⟨ts, hts, rfl⟩, hm⟩
    obtain ⟨eq, heq⟩ := hwf ts hts
    obtain ⟨rhs, rfl, _⟩ := parseStmt_some heq
    simp only [splitEq_stmt, nodesOf, List.map, List.mem_append, List.mem_cons, List.mem_map, Prod.mk.injEq,
      List.not_mem_nil, or_false, reduceCtorEq, and_false, exists_false, Option.some.injEq] at hm
    obtain ⟨rfl, rfl⟩ := hm
    exact ⟨hts, eq, heq, rfl⟩
  · rintro ⟨hts, eq, heq, rfl⟩
    obtain ⟨rhs, rfl, _⟩ := parseStmt_some heq
    exact ⟨_, ⟨_, hts, rfl⟩, by simp [splitEq_stmt, nodesOf]⟩

/-- The graph of the normalised equations of a script: its term edges are the script's terms in standard form. -/
theorem graph_edges_of_script (stmts : List (List (Tok SAtom))) (hwf : WellFormed stmts) (x y : TAtom) :
    (Node.term x, Node.term y) ∈ graphEdges (stmts.map eqForm) ↔
      ∃ ts ∈ stmts, ∃ eq, parseStmt ts = some eq ∧ tAtom eq.lhs = y ∧ ∃ a ∈ eq.rhs.terms, tAtom a = x := by
  have hwf' : WellFormed (stmts.map eqForm) := by
    intro ts hts
    obtain ⟨ts0, h0, rfl⟩ := List.mem_map.1 hts
    obtain ⟨eq, heq⟩ := hwf ts0 h0
    exact ⟨eq.map tAtom id, by simp [eqForm, parseStmt_map', heq]⟩
  rw [graph_edges_spec _ hwf']
  constructor
  · rintro ⟨ts, hts, eq', heq', rfl, hx⟩
    obtain ⟨ts0, h0, rfl⟩ := List.mem_map.1 hts
    obtain ⟨eq, heq⟩ := hwf ts0 h0
    simp only [eqForm, parseStmt_map', heq, Option.map_some, Option.some.injEq] at heq'
    subst heq'
    simp only [Equation.map, Expr.terms_map, List.mem_map] at hx
    exact ⟨ts0, h0, eq, heq, rfl, hx⟩
  · rintro ⟨ts0, h0, eq, heq, rfl, a, ha, rfl⟩
    refine ⟨eqForm ts0, List.mem_map.2 ⟨ts0, h0, rfl⟩, eq.map tAtom id, by simp [eqForm, parseStmt_map', heq], rfl, ?_⟩
    simp only [Equation.map, Expr.terms_map, List.mem_map]
    exact ⟨a, ha, rfl⟩

private def exStmts : List (List (Tok SAtom)) :=
  [[.atom ⟨.var, "Y", .rel 0⟩, .chunk "=", .atom ⟨.var, "C", .rel 0⟩, .chunk "+", .func "exp", .chunk "(",
    .atom ⟨.param, "a", .rel 0⟩, .chunk "*", .atom ⟨.var, "Y", .rel (-1)⟩, .chunk ")"],
   [.atom ⟨.var, "C", .rel 0⟩, .chunk "=", .atom ⟨.var, "Y", .rel 1⟩, .kw "if", .atom ⟨.error, "e", .rel 0⟩,
    .chunk ">", .chunk "0", .kw "else", .atom ⟨.var, "X", .rel (-12)⟩]]

/-- Non-vacuity: a two-equation program (lag, lead, parameter, error, call, conditional) is well formed; its
    graph has the expected term edges and also the function/keyword nodes the real tool adds. -/
example : (∀ ts ∈ exStmts, (parseStmt ts).isSome = true) ∧
    (Node.term (.slot "Y" (.minus 1)), Node.term (.slot "Y" .zero)) ∈ graphEdges (exStmts.map eqForm) ∧
    (Node.term (.slot "X" (.minus 12)), Node.term (.slot "C" .zero)) ∈ graphEdges (exStmts.map eqForm) ∧
    (Node.term (.slot "X" (.minus 12)), Node.term (.slot "Y" .zero)) ∉ graphEdges (exStmts.map eqForm) ∧
    (Node.func "exp", Node.term (.slot "Y" .zero)) ∈ graphEdges (exStmts.map eqForm) ∧
    (Node.kw "if", Node.term (.slot "C" .zero)) ∈ graphEdges (exStmts.map eqForm) := by decide

/-! ### Soundness: no edge, no influence -/

/-- Coincidence: if two environments agree on the term set of an expression, its value is the same — for
    every interpretation of the operators. -/
theorem coincidence (ops : Ops F) (ρ₁ ρ₂ : α → F) (e : Expr α) (h : ∀ a ∈ e.terms, ρ₁ a = ρ₂ a) :
    denote ops ρ₁ e = denote ops ρ₂ e := denote_congr ops ρ₁ ρ₂ e h

/-- A cell `(x, t + k)` whose node `x[t+k]` has no edge into `y` cannot influence `y`: two stores that differ
    only in that cell give `y`'s right-hand side the same value.  (Guard: `x` is not addressed by a *named*
    period on that right-hand side — a named period may denote any position.) -/
theorem no_edge_no_influence (ops : Ops F) (loc : String → Int) (t : Int) (stmts : List (List (Tok SAtom)))
    (hwf : WellFormed stmts) (ts : List (Tok SAtom)) (hts : ts ∈ stmts) (eq : Equation SAtom)
    (heq : parseStmt ts = some eq) (x : String) (k : Int)
    (hrel : ∀ a ∈ eq.rhs.terms, a.name = x → ∃ j, a.idx = .rel j)
    (hne : (Node.term (TAtom.slot x (tidx k)), Node.term (tAtom eq.lhs)) ∉ graphEdges (stmts.map eqForm))
    (s₁ s₂ : Store F) (hs : ∀ y j, ¬ (y = x ∧ j = t + k) → s₁ y j = s₂ y j) :
    denote (scriptOps ops) (readSpec s₁ t loc) eq.rhs = denote (scriptOps ops) (readSpec s₂ t loc) eq.rhs := by
  apply coincidence
  intro a ha
  unfold readSpec
  apply hs
  rintro ⟨hname, hpos⟩
  obtain ⟨j, hj⟩ := hrel a ha hname
  apply hne
  rw [graph_edges_of_script stmts hwf]
  refine ⟨ts, hts, eq, heq, rfl, a, ha, ?_⟩
  obtain ⟨kind, name, idx⟩ := a
  simp only at hname hj
  subst hname hj
  simp only [Idx.pos] at hpos
  have : j = k := by omega
  subst this
  rfl

/-! ### Completeness: edges are read -/

/-- In an expression without lazily evaluated sub-expressions EVERY term is read, in script order, for all data
    and every interpretation of the operators. -/
theorem strict_terms_read (ops : Ops F) (ρ : α → F) (e : Expr α) (h : e.strict = true) :
    reads ops ρ e = e.terms := strict_reads ops ρ e h

/-- In general every term outside a lazily evaluated position is read for all data. -/
theorem eager_terms_read (ops : Ops F) (ρ : α → F) (e : Expr α) : ∀ a ∈ e.eagerTerms, a ∈ reads ops ρ e :=
  eager_subset_reads ops ρ e

/-- "Every term with an edge into y is actually read", under the guard that y's right-hand side has no
    `if/else`, `and`, `or`: every edge `x → y` of the graph is a term that the evaluation of `y` reads. -/
theorem edge_is_read_partial (ops : Ops F) (ρ : SAtom → F) (stmts : List (List (Tok SAtom))) (hwf : WellFormed stmts)
    (hdistinct : ∀ ts ∈ stmts, ∀ ts' ∈ stmts, ∀ eq eq', parseStmt ts = some eq → parseStmt ts' = some eq' →
      tAtom eq.lhs = tAtom eq'.lhs → ts = ts')
    (ts : List (Tok SAtom)) (hts : ts ∈ stmts) (eq : Equation SAtom) (heq : parseStmt ts = some eq)
    (hstrict : eq.rhs.strict = true) (x : TAtom)
    (hedge : (Node.term x, Node.term (tAtom eq.lhs)) ∈ graphEdges (stmts.map eqForm)) :
    ∃ a ∈ reads ops ρ eq.rhs, tAtom a = x := by
  rw [graph_edges_of_script stmts hwf] at hedge
  obtain ⟨ts', hts', eq', heq', hl, a, ha, rfl⟩ := hedge
  have : ts' = ts := hdistinct ts' hts' ts hts eq' eq heq' heq hl
  subst this
  rw [heq] at heq'
  cases heq'
  exact ⟨a, by rw [strict_terms_read ops ρ _ hstrict]; exact ha, rfl⟩

/-- Reads of the three lazy constructs: the guard (condition / left operand) always, then exactly the branch the
    guard selects. -/
theorem lazy_reads (ops : Ops F) (ρ : α → F) (a c b : Expr α) :
    reads ops ρ (.ite a c b) =
      reads ops ρ c ++ (if ops.truthy (denote ops ρ c) then reads ops ρ a else reads ops ρ b) ∧
    reads ops ρ (.and a b) = reads ops ρ a ++ (if ops.truthy (denote ops ρ a) then reads ops ρ b else []) ∧
    reads ops ρ (.or a b) = reads ops ρ a ++ (if ops.truthy (denote ops ρ a) then [] else reads ops ρ b) := by
  refine ⟨?_, ?_, ?_⟩
  · simp only [reads, denoteR, iteR, denoteR_fst]; split <;> rfl
  · simp only [reads, denoteR, andR, denoteR_fst]; split <;> simp
  · simp only [reads, denoteR, orR, denoteR_fst]; split <;> simp

/-- A term in a lazily evaluated branch is read for SOME data unless its guard is constant: if some environment
    makes the guard select the branch, that environment reads every eager term of the branch.
    (Partial: one lazy construct at a time; for nested ones the guards along the path must be simultaneously
    satisfiable, which depends on the operators.) -/
theorem lazy_terms_read_somewhere_partial (ops : Ops F) (a c b : Expr α) :
    ((∃ ρ, ops.truthy (denote ops ρ c) = true) → ∀ x ∈ a.eagerTerms, ∃ ρ, x ∈ reads ops ρ (.ite a c b)) ∧
    ((∃ ρ, ops.truthy (denote ops ρ c) = false) → ∀ x ∈ b.eagerTerms, ∃ ρ, x ∈ reads ops ρ (.ite a c b)) ∧
    ((∃ ρ, ops.truthy (denote ops ρ a) = true) → ∀ x ∈ b.eagerTerms, ∃ ρ, x ∈ reads ops ρ (.and a b)) ∧
    ((∃ ρ, ops.truthy (denote ops ρ a) = false) → ∀ x ∈ b.eagerTerms, ∃ ρ, x ∈ reads ops ρ (.or a b)) := by
  refine ⟨?_, ?_, ?_, ?_⟩
  · rintro ⟨ρ, h⟩ x hx
    exact ⟨ρ, by rw [(lazy_reads ops ρ a c b).1, h]; simp [eager_terms_read ops ρ a x hx]⟩
  · rintro ⟨ρ, h⟩ x hx
    exact ⟨ρ, by rw [(lazy_reads ops ρ a c b).1, h]; simp [eager_terms_read ops ρ b x hx]⟩
  · rintro ⟨ρ, h⟩ x hx
    exact ⟨ρ, by rw [(lazy_reads ops ρ a c b).2.1, h]; simp [eager_terms_read ops ρ b x hx]⟩
  · rintro ⟨ρ, h⟩ x hx
    exact ⟨ρ, by rw [(lazy_reads ops ρ a c b).2.2, h]; simp [eager_terms_read ops ρ b x hx]⟩

/-! ### The literal completeness sentence is false (Python's lazy evaluation)

FULL STATEMENT (as in the property text), kept visible:
  `∀ ops ρ stmts ts eq x, parseStmt ts = some eq → (Node.term (tAtom x), Node.term (tAtom eq.lhs)) ∈ graphEdges … →
     x ∈ reads ops ρ eq.rhs`.
It fails for `Y = A if C else B` when `C` is true: `B[t] → Y[t]` is an edge, `B` is not read. -/

private def wOps : Ops Bool :=
  { lit := fun _ => true, verb := fun _ => true, neg := id, not := fun x => !x, bin := fun _ x y => x && y,
    truthy := id, call := fun _ _ => true }
private def wA : SAtom := ⟨.var, "A", .rel 0⟩
private def wB : SAtom := ⟨.var, "B", .rel 0⟩
private def wC : SAtom := ⟨.var, "C", .rel 0⟩
private def wStmt : List (Tok SAtom) :=
  [.atom ⟨.var, "Y", .rel 0⟩, .chunk "=", .atom wA, .kw "if", .atom wC, .kw "else", .atom wB]

theorem every_edge_is_read_false_at_witness :
    ¬ (∀ (ops : Ops Bool) (ρ : SAtom → Bool) (ts : List (Tok SAtom)) (eq : Equation SAtom) (x : SAtom),
        parseStmt ts = some eq →
        (Node.term (tAtom x), Node.term (tAtom eq.lhs)) ∈ graphEdges ([ts].map eqForm) →
        x ∈ reads ops ρ eq.rhs) := by
  intro h
  have := h wOps (fun _ => true) wStmt ⟨⟨.var, "Y", .rel 0⟩, .ite (.atom wA) (.atom wC) (.atom wB)⟩ wB
    rfl (by decide)
  revert this
  decide

/-! ## Non-vacuity (review): every hypothesis of the theorems above at a two-equation program

`Y = C + exp({a} * Y[-1])` and `C = Y[1] if <e> > 0 else X[-12]` (the statements of `exStmts`). -/

def rvS1 : List (Tok SAtom) :=
  [.atom ⟨.var, "Y", .rel 0⟩, .chunk "=", .atom ⟨.var, "C", .rel 0⟩, .chunk "+", .func "exp", .chunk "(",
   .atom ⟨.param, "a", .rel 0⟩, .chunk "*", .atom ⟨.var, "Y", .rel (-1)⟩, .chunk ")"]
def rvS2 : List (Tok SAtom) :=
  [.atom ⟨.var, "C", .rel 0⟩, .chunk "=", .atom ⟨.var, "Y", .rel 1⟩, .kw "if", .atom ⟨.error, "e", .rel 0⟩,
   .chunk ">", .chunk "0", .kw "else", .atom ⟨.var, "X", .rel (-12)⟩]
def rvStmts : List (List (Tok SAtom)) := [rvS1, rvS2]
def rvEq1 : Equation SAtom :=
  ⟨⟨.var, "Y", .rel 0⟩, .bin .add (.atom ⟨.var, "C", .rel 0⟩)
    (.call "exp" (.cons (.bin .mul (.atom ⟨.param, "a", .rel 0⟩) (.atom ⟨.var, "Y", .rel (-1)⟩)) .nil))⟩
def rvEq2 : Equation SAtom :=
  ⟨⟨.var, "C", .rel 0⟩, .ite (.atom ⟨.var, "Y", .rel 1⟩) (.bin .gt (.atom ⟨.error, "e", .rel 0⟩) (.num "0"))
    (.atom ⟨.var, "X", .rel (-12)⟩)⟩
theorem rvParse1 : parseStmt rvS1 = some rvEq1 := rfl
theorem rvParse2 : parseStmt rvS2 = some rvEq2 := rfl
theorem rvWF : WellFormed rvStmts := by
  intro ts hts
  simp only [rvStmts, List.mem_cons, List.not_mem_nil, or_false] at hts
  rcases hts with rfl | rfl
  · exact ⟨_, rvParse1⟩
  · exact ⟨_, rvParse2⟩

-- edges_of_stmt: `h`; graph_edges_spec / graph_lhs_nodes / graph_edges_of_script: `hwf`
example : (Node.term (⟨.var, "Y", .rel (-1)⟩ : SAtom), Node.term (⟨.var, "Y", .rel 0⟩ : SAtom)) ∈ edgesOfEq rvS1 :=
  (edges_of_stmt rvParse1 _ _).2 ⟨rfl, by decide⟩
example : (Node.term (.slot "X" (.minus 12)), Node.term (.slot "C" .zero)) ∈ graphEdges (rvStmts.map eqForm) :=
  (graph_edges_of_script rvStmts rvWF _ _).2 ⟨rvS2, by simp [rvStmts], rvEq2, rvParse2, rfl, ⟨.var, "X", .rel (-12)⟩, by decide, rfl⟩
example : (Node.term (⟨.var, "C", .rel 0⟩ : SAtom), some rvS2) ∈ graphNodes rvStmts :=
  (graph_lhs_nodes rvStmts rvWF _ _).2 ⟨by simp [rvStmts], rvEq2, rvParse2, rfl⟩

/-- Integer arithmetic as the operator interpretation. -/
def rvOps : Ops Int :=
  { lit := fun _ => 0, verb := fun _ => 0, neg := fun x => -x, not := fun x => if x = 0 then 1 else 0,
    bin := fun op x y => match op with
      | .add => x + y | .sub => x - y | .mul => x * y | .gt => if x > y then 1 else 0 | _ => 0,
    truthy := fun x => x ≠ 0, call := fun _ args => args.foldl (· + ·) 0 }

-- coincidence: `h` (two environments that differ outside the terms of `Y`'s right-hand side)
example : denote rvOps (fun a : SAtom => if a.name = "X" then 7 else 2) rvEq1.rhs =
    denote rvOps (fun a : SAtom => if a.name = "X" then 9 else 2) rvEq1.rhs :=
  coincidence rvOps _ _ _ (by decide)

-- no_edge_no_influence: hwf, hts, heq, hrel, hne, hs — `Y[t+1]` has no edge into `Y` (only `Y[t-1]` has): two stores
-- that differ in the cell (Y, t+1) only give `Y`'s equation the same value
def rvStore1 : Store Int := fun _ j => j
def rvStore2 : Store Int := fun y j => if y = "Y" ∧ j = 5 + 1 then 99 else j
example : rvStore1 "Y" 6 ≠ rvStore2 "Y" 6 := by decide
example : denote (scriptOps rvOps) (readSpec rvStore1 5 (fun _ => 0)) rvEq1.rhs =
    denote (scriptOps rvOps) (readSpec rvStore2 5 (fun _ => 0)) rvEq1.rhs :=
  no_edge_no_influence rvOps (fun _ => 0) 5 rvStmts rvWF rvS1 (by simp [rvStmts]) rvEq1 rvParse1 "Y" 1
    (by
      intro a ha _
      have ht : rvEq1.rhs.terms = [⟨.var, "C", .rel 0⟩, ⟨.param, "a", .rel 0⟩, ⟨.var, "Y", .rel (-1)⟩] := by decide
      rw [ht] at ha
      simp only [List.mem_cons, List.not_mem_nil, or_false] at ha
      rcases ha with rfl | rfl | rfl <;> exact ⟨_, rfl⟩)
    (by decide) rvStore1 rvStore2
    (by intro y j h; simp only [rvStore1, rvStore2]; rw [if_neg h])
-- … whereas the cell (Y, t-1), which HAS an edge, does influence it
example : denote (scriptOps rvOps) (readSpec rvStore1 5 (fun _ => 0)) rvEq1.rhs ≠
    denote (scriptOps rvOps) (readSpec (update rvStore1 "Y" 4 99) 5 (fun _ => 0)) rvEq1.rhs := by decide

-- strict_terms_read: `h`; eager_terms_read at the conditional
example : reads rvOps (fun _ => 1) rvEq1.rhs = rvEq1.rhs.terms ∧ rvEq1.rhs.terms.length = 3 :=
  ⟨strict_terms_read rvOps _ _ (by decide), by decide⟩
example : (⟨.error, "e", .rel 0⟩ : SAtom) ∈ reads rvOps (fun _ => 1) rvEq2.rhs :=
  eager_terms_read rvOps _ _ _ (by decide)

-- edge_is_read_partial: hwf, hdistinct, hts, heq, hstrict, hedge
theorem rvDistinct : ∀ ts ∈ rvStmts, ∀ ts' ∈ rvStmts, ∀ eq eq', parseStmt ts = some eq → parseStmt ts' = some eq' →
    tAtom eq.lhs = tAtom eq'.lhs → ts = ts' := by
  intro ts hts ts' hts' eq eq' h h' hl
  simp only [rvStmts, List.mem_cons, List.not_mem_nil, or_false] at hts hts'
  rcases hts with rfl | rfl <;> rcases hts' with rfl | rfl
  · rfl
  · rw [rvParse1] at h; rw [rvParse2] at h'; cases h; cases h'; exact absurd hl (by decide)
  · rw [rvParse2] at h; rw [rvParse1] at h'; cases h; cases h'; exact absurd hl (by decide)
  · rfl
example : ∃ a ∈ reads rvOps (fun _ => 1) rvEq1.rhs, tAtom a = .slot "Y" (.minus 1) :=
  edge_is_read_partial rvOps _ rvStmts rvWF rvDistinct rvS1 (by simp [rvStmts]) rvEq1 rvParse1 (by decide) _ (by decide)

-- lazy_terms_read_somewhere_partial: both premises for the conditional of `C`'s equation are satisfiable
def rvThen : Expr SAtom := .atom ⟨.var, "Y", .rel 1⟩
def rvCond : Expr SAtom := .bin .gt (.atom ⟨.error, "e", .rel 0⟩) (.num "0")
def rvElse : Expr SAtom := .atom ⟨.var, "X", .rel (-12)⟩
example : rvEq2.rhs = .ite rvThen rvCond rvElse := rfl
example : (∃ ρ : SAtom → Int, rvOps.truthy (denote rvOps ρ rvCond) = true) ∧
    (∃ ρ : SAtom → Int, rvOps.truthy (denote rvOps ρ rvCond) = false) :=
  ⟨⟨fun _ => 1, by decide⟩, ⟨fun _ => 0, by decide⟩⟩
example : ∃ ρ, (⟨.var, "X", .rel (-12)⟩ : SAtom) ∈ reads rvOps ρ (.ite rvThen rvCond rvElse) :=
  (lazy_terms_read_somewhere_partial rvOps rvThen rvCond rvElse).2.1 ⟨fun _ => 0, by decide⟩ _ (by decide)

end Fsic.C20
