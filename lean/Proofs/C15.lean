import Proofs.Lemmas.ParserAccepted
import Proofs.C02
/-
C15 — All ways of building a class from symbols yield the same model.

Property theorems only.  What is *proved* here: the two class templates have the same behaviour-relevant skeleton
(reflected from /repo on every run); which symbols contribute code, how often and in which order; that the
converter's text is inserted verbatim (indentation only prefixes lines); the `pass` fallback; that class lists do
not depend on equations; that a model without check variables solves trivially (corollary of C02).
That `exec` of the text yields a class with those attributes is CPython's business and is compared on the real
code by the check (three build routes × two templates).
-/
set_option linter.unusedSimpArgs false
set_option linter.unusedVariables false
namespace Fsic.C15
open Fsic Fsic.Parser

/-! ### The two templates -/

/-- **template_skeletons_equal.**  `MODEL_TEMPLATE_TYPED` and `MODEL_TEMPLATE_UNTYPED`, filled with the same
    placeholders and stripped of annotations and docstrings, are the same Python AST. -/
theorem template_skeletons_equal :
    Fsic.Generated.templateTypedSkeleton = Fsic.Generated.templateUntypedSkeleton := rfl

theorem template_statements_equal :
    Fsic.Generated.templateTypedStmts = Fsic.Generated.templateUntypedStmts := rfl

/-- Non-vacuity: both templates parsed (an unparseable template is reflected with an empty statement list). -/
theorem templates_parsed : Fsic.Generated.templateTypedStmts ≠ [] ∧ Fsic.Generated.templateUntypedStmts ≠ [] := by
  constructor <;> (intro h; cases h)

/-! ### Which symbols contribute code -/

/-- **expressions_selected.**  The `{equations}` text is the converter applied to the selected symbols — those of type
    ENDOGENOUS or VERBATIM that carry both `equation` and `code` — indented, joined by blank lines (or `pass`). -/
theorem expressions_selected (conv : Symbol → String) (syms : List Symbol) :
    (renderBody conv syms =
      if ("\n\n".intercalate ((selected syms).map (fun s => indent8 (conv s)))).isEmpty then "        pass"
      else "\n\n".intercalate ((selected syms).map (fun s => indent8 (conv s)))) ∧
    (∀ s, s ∈ selected syms ↔
      (s ∈ syms ∧ (s.type = .endogenous ∨ s.type = .verbatim) ∧ s.equation ≠ none ∧ s.code ≠ none)) := by
  refine ⟨rfl, ?_⟩
  intro s
  unfold selected carriesCode
  rw [List.mem_filter]
  simp only [Bool.and_eq_true, Bool.or_eq_true, decide_eq_true_eq, Option.isSome_iff_ne_none, and_assoc]

/-- … in symbol order … -/
theorem selected_in_symbol_order (syms : List Symbol) : (selected syms).Sublist syms :=
  List.filter_sublist

/-- … once for each such symbol (as often as it occurs in the list, never for any other symbol). -/
theorem converter_called_once_each (syms : List Symbol) (s : Symbol) :
    (selected syms).count s = if carriesCode s = true then syms.count s else 0 := by
  unfold selected
  induction syms with
  | nil => simp
  | cons x xs ih =>
    by_cases hx : carriesCode x = true
    · simp only [List.filter_cons, hx, if_true, List.count_cons, ih]
      by_cases hs : carriesCode s = true
      · simp [hs]
      · have : ¬ (x == s) = true := by
          intro e; have := eq_of_beq e; subst this; exact hs hx
        simp [hs, this]
    · simp only [List.filter_cons, hx, if_false, Bool.false_eq_true, List.count_cons, ih]
      by_cases hs : carriesCode s = true
      · have : ¬ (x == s) = true := by
          intro e; have := eq_of_beq e; subst this; exact hx hs
        simp [hs, this]
      · simp [hs]

/-- The statements above hold for ARBITRARY symbol lists (hand-assembled, permuted, concatenated from several
    `parse_model` calls, verbatim symbols anywhere): concatenating lists concatenates their code blocks … -/
theorem selected_append (a b : List Symbol) : selected (a ++ b) = selected a ++ selected b := by
  simp [selected, List.filter_append]

/-- … and two code-carrying symbols keep their relative position whatever their types: nothing is regrouped
    (in particular a VERBATIM block listed before an equation stays before it). -/
theorem selected_keeps_relative_order (l1 l2 l3 : List Symbol) (s1 s2 : Symbol)
    (h1 : carriesCode s1 = true) (h2 : carriesCode s2 = true) :
    selected (l1 ++ s1 :: l2 ++ s2 :: l3) = selected l1 ++ s1 :: selected l2 ++ s2 :: selected l3 := by
  simp [selected, List.filter_append, List.filter_cons, h1, h2]

/-- Non-vacuity: a verbatim symbol listed BEFORE an equation (not what one `parse_model` call returns) comes first in
    the body, and again after it when it is listed again. -/
example : renderBody (fun s => s.code.getD "")
      [⟨none, .verbatim, .none, .none, some "```\nself._X[t] = self._X[t] * 2.0\n```", some "self._X[t] = self._X[t] * 2.0"⟩,
       ⟨some "Y", .endogenous, .int 0, .int 0, some "Y[t] = X[t]", some "self._Y[t] = self._X[t]"⟩,
       ⟨some "X", .exogenous, .int 0, .int 0, none, none⟩,
       ⟨none, .verbatim, .none, .none, some "`pass`", some "pass"⟩,
       ⟨some "Z", .endogenous, .int 0, .int 0, some "Z[t] = Y[t]", some "self._Z[t] = self._Y[t]"⟩]
    = "        self._X[t] = self._X[t] * 2.0\n\n        self._Y[t] = self._X[t]\n\n        pass\n\n        self._Z[t] = self._Y[t]" := by
  rfl

example : (selected
      [⟨none, .verbatim, .none, .none, some "`v`", some "v"⟩,
       ⟨some "Y", .endogenous, .int 0, .int 0, some "e", some "c"⟩]).map (·.type) = [.verbatim, .endogenous] := by rfl

/-- "Carries an equation" means `is not None`, not truthiness: a symbol whose equation/code are EMPTY strings (an empty or
    comment-only fenced block) is selected, the converter is called for it and its output is inserted. -/
example : carriesCode ⟨none, .verbatim, .none, .none, some "", some ""⟩ = true ∧
    renderBody (fun s => "# begin\n" ++ s.code.getD "" ++ "\n# end")
      [⟨none, .verbatim, .none, .none, some "```\n\n```", some ""⟩,
       ⟨some "Y", .endogenous, .int 0, .int 0, some "", some "self._Y[t] = 1"⟩]
    = "        # begin\n\n        # end\n\n        # begin\n        self._Y[t] = 1\n        # end" := by
  constructor <;> rfl

/-- Symbols without an equation (or without code) contribute variables but no code. -/
theorem no_equation_no_code (syms : List Symbol) (s : Symbol) (h : s.equation = none ∨ s.code = none) :
    s ∉ selected syms := by
  intro hs
  have := ((expressions_selected (fun _ => "") syms).2 s).1 hs
  rcases h with h | h
  · exact this.2.2.1 h
  · exact this.2.2.2 h

/-- **no_equation_pass.**  With no code-carrying symbol the body is `pass`. -/
theorem no_equation_pass (conv : Symbol → String) (syms : List Symbol) (h : selected syms = []) :
    renderBody conv syms = "        pass" := by
  unfold renderBody
  rw [h]
  rfl

example : renderBody defaultConverter [⟨some "X", .exogenous, .int 0, .int 0, none, none⟩] = "        pass" := by
  rfl

/-! ### No statement is silently discarded (symbol level of C13, after fix d65c5fa) -/

/-- **statement_defines_one.**  An accepted equation statement yields exactly one endogenous symbol carrying an
    equation; it carries *this* statement's `equation` and `code`, so it is selected for the class body; and the
    statement assigns exactly one name. -/
theorem statement_defines_one {ts : List Parser.Term} {e c : String} {G : List Symbol}
    (w : ∀ t ∈ ts, t.type = .function → t.index = .none) (h : stmtSymbols (.eqn ts e c) = .ok G) :
    (G.filter isDefined).length = 1 ∧ (selected G).length = 1 ∧
    (∀ g ∈ G, isDefined g = true → g.equation = some e ∧ g.code = some c ∧ carriesCode g = true) ∧
    DefinesOne (.eqn ts e c) := by
  have hok : StmtOK (.eqn ts e c) := by
    intro s hs hf
    simp only [stmtOcc, termSyms] at hs
    obtain ⟨t, ht, rfl⟩ := List.mem_map.1 hs
    exact w t (List.mem_filter.1 ht).1 hf
  simp only [stmtSymbols] at h
  obtain ⟨hf, hone⟩ := symbolsOfTerms_ok hok h
  obtain ⟨_, _, hs, _⟩ := fold_from_empty hf
  have hdef : ∀ g ∈ G, isDefined g = true → g.equation = some e ∧ g.code = some c ∧ carriesCode g = true := by
    intro g hg hd
    unfold isDefined at hd
    simp only [Bool.and_eq_true, decide_eq_true_eq, Option.isSome_iff_exists] at hd
    obtain ⟨hgt, q, hq⟩ := hd
    obtain ⟨s, hs', hsq⟩ := (hs g hg).eqAtt q hq
    have hsm := (List.mem_filter.1 hs').1
    have hst : s.type = .endogenous := by
      unfold termSyms at hsm
      obtain ⟨t, _, rfl⟩ := List.mem_map.1 hsm
      by_cases hte : t.type = .endogenous
      · exact hte
      · simp [termSymbol, hte] at hsq
    obtain ⟨h1, h2⟩ := termSyms_endogenous_eq hsm hst
    have e1 := (hs g hg).eqAll s hs' e h1
    have e2 := (hs g hg).codeAll s hs' c h2
    exact ⟨e1, e2, by simp [carriesCode, hgt, e1, e2]⟩
  have hsel : selected G = G.filter isDefined := by
    unfold selected
    apply List.filter_congr
    intro g hg
    by_cases hd : isDefined g = true
    · rw [hd, (hdef g hg hd).2.2]
    · have hd' : isDefined g = false := by simpa using hd
      rw [hd']
      have hnv : g.type ≠ .verbatim := by
        obtain ⟨s, hs', hst⟩ := (hs g hg).typeAtt
        have hsm := (List.mem_filter.1 hs').1
        unfold termSyms at hsm
        obtain ⟨t, ht, rfl⟩ := List.mem_map.1 hsm
        rw [← hst]; simpa [termSymbol_type] using (List.mem_filter.1 ht).2
      unfold isDefined at hd'
      unfold carriesCode
      by_cases hge : g.type = .endogenous
      · simp [hge] at hd'; simp [hge, hd']
      · simp [hge, hnv]
  refine ⟨hone, by rw [hsel]; exact hone, hdef, ?_⟩
  show (definedNames (.eqn ts e c)).length = 1
  rw [← defined_count hf]; exact hone

/-- **every_statement_contributes.**  In an accepted script every equation statement's `equation`/`code` is carried by
    a selected symbol, and every verbatim statement's symbol is selected: each statement reaches the class body. -/
theorem every_statement_contributes {S : List Stmt} {syms : List Symbol} (h : parseModel S = .ok syms)
    (w1 : WellIndexed S) :
    (∀ ts e c, Stmt.eqn ts e c ∈ S →
      ∃ s ∈ selected syms, s.type = .endogenous ∧ s.equation = some e ∧ s.code = some c) ∧
    (∀ e c, Stmt.verb e c ∈ S → (⟨none, .verbatim, .none, .none, some e, some c⟩ : Symbol) ∈ selected syms) := by
  obtain ⟨D, V, rfl, hV, hk, hS, hE, hVS⟩ := accepted_char h w1
  obtain ⟨D', V', hsy, hsel, _, _⟩ := selected_char h w1
  constructor
  · intro ts e c hst
    -- the statement was accepted, so it assigns a variable: an ENDOGENOUS term
    have hone := Fsic.Parser.accepted_iff_definesOne h w1 ts e c hst
    have hne : definedNames (.eqn ts e c) ≠ [] := by
      intro hnil; have : (definedNames (.eqn ts e c)).length = 1 := hone; rw [hnil] at this; cases this
    obtain ⟨k, hkm⟩ := List.exists_mem_of_ne_nil _ hne
    simp only [definedNames, mem_firstApp, List.mem_map, List.mem_filter, stmtOcc] at hkm
    obtain ⟨s, ⟨hs1, hs2⟩, _⟩ := hkm
    have hst' : s.type = .endogenous := by simpa using hs2
    obtain ⟨he, hc⟩ := termSyms_endogenous_eq hs1 hst'
    have hsm : s ∈ scriptOcc S := stmtOcc_subset hst s hs1
    obtain ⟨g, hg, hgn⟩ := hE s hsm
    have hmem : s ∈ (scriptOcc S).filter (fun x => x.name = g.name) := List.mem_filter.2 ⟨hsm, by simp [hgn]⟩
    have hle := (hS g hg).typeLe s hmem
    rw [hst'] at hle
    have hgt := typeLe_of_endogenous hle
    have e1 := (hS g hg).eqAll s hmem e he
    have e2 := (hS g hg).codeAll s hmem c hc
    refine ⟨g, ?_, hgt, e1, e2⟩
    unfold selected
    exact List.mem_filter.2 ⟨List.mem_append_left _ hg, by simp [carriesCode, hgt, e1, e2]⟩
  · intro e c hst
    unfold selected
    refine List.mem_filter.2 ⟨List.mem_append_right _ ?_, rfl⟩
    rw [hVS]; exact List.mem_flatMap.2 ⟨_, hst, by simp [verbSyms]⟩

/-- **body_equation_count.**  The number of code blocks in the class body (= converter calls, by
    `converter_called_once_each`) is the number of distinct assigned names plus the number of verbatim statements. -/
theorem body_equation_count {S : List Stmt} {syms : List Symbol} (h : parseModel S = .ok syms) (w1 : WellIndexed S) :
    (selected syms).length = (scriptDefinedNames S).length + (S.flatMap verbSyms).length := by
  obtain ⟨D, V, _, hsel, hV, hlen⟩ := selected_char h w1
  rw [hsel, List.length_append, hlen, hV]

example : (parseModel [.eqn [⟨"Y", .endogenous, .int 0⟩, ⟨"X", .exogenous, .int 0⟩] "Y[t] = X[t]" "c1",
                       .verb "`z`" "z",
                       .eqn [⟨"Z", .endogenous, .int 0⟩, ⟨"Y", .exogenous, .int (-1)⟩] "Z[t] = Y[t-1]" "c2"]).toOption.map
      (fun syms => (selected syms).map (·.code)) = some [some "c1", some "c2", some "z"] := by rfl

/-! ### The converter's text is inserted verbatim -/

/-- `splitlines(True)` loses nothing: the lines, concatenated, are the text. -/
theorem splitLinesKeep_flatten (text cur : List Char) :
    (splitLinesKeep text cur).flatten = cur.reverse ++ text := by
  induction text, cur using splitLinesKeep.induct with
  | case1 cur h => simp_all [splitLinesKeep]
  | case2 cur h => simp_all [splitLinesKeep]
  | case3 rest cur ih => simp [splitLinesKeep, ih]
  | case4 c rest cur hne hb ih =>
    rw [splitLinesKeep]
    · simp [hb, ih]
    · exact hne
  | case5 c rest cur hne hb ih =>
    rw [splitLinesKeep]
    · simp [hb, ih]
    · exact hne

/-- **indent_only_prefixes.**  `textwrap.indent(text, prefix)` is `text` cut into lines (nothing lost, nothing
    reordered) with `prefix` put in front of the lines that are not blank — and nothing else. -/
theorem indent_only_prefixes (pre text : List Char) :
    ∃ lines : List (List Char), lines.flatten = text ∧
      indentWith pre text = (lines.map (fun l => if l.all isPySpace then l else pre ++ l)).flatten :=
  ⟨splitLinesKeep text [], by simpa using splitLinesKeep_flatten text [], rfl⟩

/-- **converter_verbatim.**  When there is code, the body is exactly the converter outputs (custom or default), each
    indented by the eight-space prefix, separated by one blank line; by `indent_only_prefixes` the indentation adds
    prefixes only. -/
theorem converter_verbatim (conv : Symbol → String) (syms : List Symbol)
    (h : ("\n\n".intercalate ((selected syms).map (fun s => indent8 (conv s)))).isEmpty = false) :
    renderBody conv syms = "\n\n".intercalate ((selected syms).map (fun s => indent8 (conv s))) ∧
    ∀ s, indent8 (conv s) = String.ofList (indentWith (List.replicate 8 ' ') (conv s).toList) := by
  refine ⟨?_, fun _ => rfl⟩
  unfold renderBody
  simp [h]

example : renderBody (fun s => s.code.getD "") [⟨some "Y", .endogenous, .int 0, .int 0, some "Y[t] = X[t]", some "a\n\n  b"⟩,
      ⟨none, .verbatim, .none, .none, some "`z`", some "z"⟩]
    = "        a\n\n          b\n\n        z" := by rfl

example : renderBody defaultConverter [⟨some "Y", .endogenous, .int 0, .int 0, some "Y[t] = X[t]", some "self._Y[t] = self._X[t]"⟩]
    = "        # Y[t] = X[t]\n        self._Y[t] = self._X[t]" := by rfl

/-! ### Class lists do not depend on equations; the empty model -/

/-- Remove `equation` and `code` from a symbol. -/
def stripCode (s : Symbol) : Symbol := { s with equation := none, code := none }

theorem namesOfType_strip (ty : TermType) (syms : List Symbol) :
    namesOfType ty (syms.map stripCode) = namesOfType ty syms := by
  unfold namesOfType
  induction syms with
  | nil => rfl
  | cons x xs ih => by_cases hx : x.type = ty <;> simp_all [List.filter_cons, stripCode]

theorem nonIndexed_strip_lags (syms : List Symbol) :
    (nonIndexed (syms.map stripCode)).map (·.lags) = (nonIndexed syms).map (·.lags) := by
  unfold nonIndexed
  induction syms with
  | nil => rfl
  | cons x xs ih => by_cases hx : isIndexed x.type = true <;> simp_all [List.filter_cons, stripCode]

theorem nonIndexed_strip_leads (syms : List Symbol) :
    (nonIndexed (syms.map stripCode)).map (·.leads) = (nonIndexed syms).map (·.leads) := by
  unfold nonIndexed
  induction syms with
  | nil => rfl
  | cons x xs ih => by_cases hx : isIndexed x.type = true <;> simp_all [List.filter_cons, stripCode]

/-- **lists_ignore_equations.**  Symbols without an equation contribute their variables all the same: the class lists
    and lag/lead lengths are those of the symbols with equations. -/
theorem lists_ignore_equations (syms : List Symbol) (o : BuildOpts) :
    buildLists (syms.map stripCode) o = buildLists syms o := by
  unfold buildLists autoLags autoLeads
  simp only [namesOfType_strip, nonIndexed_strip_lags, nonIndexed_strip_leads]

/-- **empty_lists.**  An empty symbol list gives empty class lists, `LAGS = LEADS = 0` and the body `pass`. -/
theorem empty_lists : buildLists [] {} = .ok ⟨[], [], [], [], [], [], 0, 0⟩ ∧
    ∀ conv, renderBody conv [] = "        pass" := ⟨rfl, fun _ => rfl⟩

/-- **empty_model_solves.**  A model without check variables (`CHECK = []`: every comparison of the empty vectors
    succeeds, nothing is non-finite) whose hooks and passes do not raise converges in every feasible period at pass
    `k = max 1 min_iter`, provided `max_iter ≥ k`: status '.', `iterations[t] = k`, result `True`. -/
theorem empty_model_solves {σ V : Type} (I : Interp σ V) (o : Opts) (n : Nat) (t : Int) (w : World σ)
    (hclose : ∀ a b, I.close a b = true) (hfin : ∀ v, I.allFinite v = true)
    (hb : ∀ u, (I.before o u t).2 = false) (he : ∀ u k, (I.eval o u t k).2 = false)
    (ha : ∀ u k, (I.after o u t k).2 = false)
    (hacc : Accepted I o n t) (hk : max 1 o.minIter ≤ o.maxIter) :
    solveT I o n t w =
      (stamp (withUser w (I.after o (traj I o t (I.before o (seed I o t w.user) t).1 (max 1 o.minIter).toNat) t
          (max 1 o.minIter).toNat).1) n t .solved ((max 1 o.minIter).toNat : Nat), .ret true) := by
  apply C02.solveT_converges I o n t w hacc (hb _) (max 1 o.minIter).toNat (by omega) (by omega)
    (fun i _ => he _ _) (fun i _ => hfin _)
  · intro i h0 hi
    unfold Good
    intro hg
    have := hg.1
    omega
  · unfold Good
    exact ⟨by omega, hclose _ _⟩
  · exact ha _ _

/-- The generated class for an empty symbol list, as an interpretation: no state, no check variables, hooks `pass`. -/
def emptyInterp : Interp Unit Unit where
  lags := 0
  leads := 0
  check _ _ := ()
  allFinite _ := true
  close _ _ := true
  zeroNF v := v
  copyOffset u _ _ := u
  before _ u _ := (u, false)
  eval _ u _ _ := (u, false)
  after _ u _ _ := (u, false)

example : solveT emptyInterp {} 4 2 ⟨(), List.replicate 4 .unsolved, List.replicate 4 (-1)⟩
    = (⟨(), [.unsolved, .unsolved, .solved, .unsolved], [-1, -1, 1, -1]⟩, .ret true) := by decide

example : solveT emptyInterp { minIter := 3, maxIter := 5 } 4 (-1) ⟨(), List.replicate 4 .unsolved, List.replicate 4 (-1)⟩
    = (⟨(), [.unsolved, .unsolved, .unsolved, .solved], [-1, -1, -1, 3]⟩, .ret true) := by decide

/-! ## Non-vacuity (review): the hypotheses of the theorems above at concrete instances -/

/-- `Y = X`, a verbatim block, `Z = Y[-1]`. -/
def exScript : List Stmt :=
  [.eqn [⟨"Y", .endogenous, .int 0⟩, ⟨"X", .exogenous, .int 0⟩] "Y[t] = X[t]" "c1",
   .verb "`z`" "z",
   .eqn [⟨"Z", .endogenous, .int 0⟩, ⟨"Y", .exogenous, .int (-1)⟩] "Z[t] = Y[t-1]" "c2"]
def exSyms : List Symbol := (parseModel exScript).toOption.getD []
theorem exSyms_eq : parseModel exScript = .ok exSyms := rfl
theorem exScript_wi : WellIndexed exScript := by unfold WellIndexed; decide

-- selected_keeps_relative_order: h1, h2 (a verbatim block before an equation)
example : carriesCode ⟨none, .verbatim, .none, .none, some "`v`", some "v"⟩ = true ∧
    carriesCode ⟨some "Y", .endogenous, .int 0, .int 0, some "e", some "c"⟩ = true := by decide
-- no_equation_no_code: `h` for the exogenous symbol `X` of the parsed script, which IS in the symbol list
example : (⟨some "X", .exogenous, .int 0, .int 0, none, none⟩ : Symbol) ∈ exSyms ∧
    (⟨some "X", .exogenous, .int 0, .int 0, none, none⟩ : Symbol) ∉ selected exSyms :=
  ⟨by decide, no_equation_no_code exSyms _ (Or.inl rfl)⟩
-- no_equation_pass: `h` for a non-empty list
example : selected [⟨some "X", .exogenous, .int 0, .int 0, none, none⟩] = [] := by decide
-- statement_defines_one: w, h
def exG : List Symbol :=
  (stmtSymbols (.eqn [⟨"Y", .endogenous, .int 0⟩, ⟨"exp", .function, .none⟩, ⟨"X", .exogenous, .int (-1)⟩] "e" "c")).toOption.getD []
example : exG.length = 3 ∧ (selected exG).length = 1 :=
  ⟨by decide, (statement_defines_one (ts := [⟨"Y", .endogenous, .int 0⟩, ⟨"exp", .function, .none⟩, ⟨"X", .exogenous, .int (-1)⟩])
    (e := "e") (c := "c") (G := exG) (by decide) rfl).2.1⟩
-- every_statement_contributes / body_equation_count: h, w1 (three statements, four symbols, three code blocks)
example : exSyms.length = 4 ∧ (selected exSyms).length = 2 + 1 :=
  ⟨by decide, body_equation_count exSyms_eq exScript_wi⟩
example : ∃ s ∈ selected exSyms, s.type = .endogenous ∧ s.equation = some "Z[t] = Y[t-1]" ∧ s.code = some "c2" :=
  (every_statement_contributes exSyms_eq exScript_wi).1 [⟨"Z", .endogenous, .int 0⟩, ⟨"Y", .exogenous, .int (-1)⟩] _ _ (by simp [exScript])
-- converter_verbatim: `h`
example : ("\n\n".intercalate ((selected exSyms).map (fun s => indent8 (defaultConverter s)))).isEmpty = false := by
  decide +kernel
-- empty_model_solves: every hypothesis, at `emptyInterp`, period 2 of 4
example : solveT emptyInterp {} 4 2 ⟨(), List.replicate 4 .unsolved, List.replicate 4 (-1)⟩ =
    (⟨(), [.unsolved, .unsolved, .solved, .unsolved], [-1, -1, 1, -1]⟩, .ret true) := by
  rw [empty_model_solves emptyInterp {} 4 2 _ (fun _ _ => rfl) (fun _ => rfl) (fun _ => rfl) (fun _ _ => rfl)
    (fun _ _ => rfl) (by unfold Accepted Feasible; decide) (by decide)]
  decide

end Fsic.C15
