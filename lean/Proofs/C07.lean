import FsicModel.Generated
import Proofs.Lemmas.Fortran
import Proofs.Lemmas.FortranKinds
import Proofs.Lemmas.FortranLoop
import Proofs.Lemmas.FortranWrapper
import Proofs.Lemmas.FortranSolve
import Proofs.Lemmas.FortranEval
import Proofs.Lemmas.FortranText
/-
C07 — The Fortran back-end computes what the Python back-end computes.      (PARTIAL — see the end of this comment)

Property theorems only (helper lemmas are in `Proofs/Lemmas/Fortran*.lean`), about the model M5
(`FsicModel/Fortran.lean`) of `fsic/fortran.py` **as repaired by c07-fix1..4** and M1 (`FsicModel/Solver.lean`) of
the Python solver.

  numbering            fortran_numbering, fortran_numbers_distinct
  index rewrite        fortran_index_rewrite, rewrite_expression_text (text), fortran_index_rewrite_cell (same cell),
                       fortran_check_rows_aligned (the convergence rows passed are the variables Python checks)
  expressions          kind_safe_agree, kind_safe_assign_agree, evaluate_agree — every interpretation of the real operators
                       full_agree_false_at_half, full_agree_false_at_tenth — the statement without KindSafe is FALSE
                       (integer division, single-precision literals: open known findings)
  solve_t              fortran_loop_eq_python_loop; fortran_solveT_eq_python (whole wrapper = BaseModel.solve_t)
  solve                fortran_solve_eq_fold; fortran_solve_eq_python_solveList; fortran_solve_eq_python_solve
  codes                error_codes_consistent (decide over tables reflected from /repo on every run)

History: before c07-fix1..4 the solve_t statement needed three guards excluding real inputs (convergence rows passed
0-based, `max_iter ≤ 0` leaving error code −1, infeasible periods raising FortranEngineError) and carried three
`…_false_at_…` witnesses; the repaired code satisfies the unguarded statement and the witnesses became the positive
`example`s after `fortran_solveT_eq_python`.

Outside the model (why the claim is partial): what gfortran's generated code computes in floating point, libm
(`exp`, `log`, `pow`; also `real ** integer`, which Fortran evaluates by repeated multiplication), and the
gfortran+ctypes shim that stands in for f2py.  Those are exercised only by the differential check.
-/
set_option linter.unusedSimpArgs false
set_option linter.unusedVariables false
namespace Fsic.C07
open Fsic Fsic.Fortran

/-! ## Numbering -/

/-- The number of a variable in the Fortran module is 1 + its position in the Python class's
    `NAMES = ENDOGENOUS + EXOGENOUS + PARAMETERS + ERRORS` (`names.index(x)`). -/
theorem fortran_numbering (endo exo par err : List String) (x : String)
    (hnd : (allNames endo exo par err).Nodup) (hx : x ∈ allNames endo exo par err) :
    numberOf (allNames endo exo par err) x = some ((allNames endo exo par err).idxOf x + 1) :=
  lookupLast_enumFrom x _ 1 hnd hx

/-- Distinct variables get distinct numbers. -/
theorem fortran_numbers_distinct (names : List String) (x y : String) (hnd : names.Nodup)
    (hx : x ∈ names) (hy : y ∈ names) (h : numberOf names x = numberOf names y) : x = y := by
  unfold numberOf at h
  rw [lookupLast_enumFrom x names 1 hnd hx, lookupLast_enumFrom y names 1 hnd hy] at h
  have hi : names.idxOf x = names.idxOf y := by simpa using h
  have h1 := List.getElem_idxOf (List.idxOf_lt_length_of_mem hx)
  have h2 := List.getElem_idxOf (List.idxOf_lt_length_of_mem hy)
  rw [← h1, ← h2]
  simp [hi]

example : numberOf (allNames ["Y", "C"] ["X", "Z"] ["a"] ["e"]) "a" = some 5 := by decide
example : numbersOf (allNames ["Y", "C"] ["X", "Z"] ["a"] ["e"]) ["X", "Z"] = some [3, 4] := by decide

/-! ## The index rewrite -/

/-- `NAME[t<k>]` (any identifier, any offset text free of `t`, `]` and newline — e.g. "", "-1", "+12"), met
    anywhere in the text state, becomes `solved_values(<number of NAME>, index<k>)`, and the rest of the
    equation is rewritten independently. -/
theorem fortran_index_rewrite (num : String → Option Nat) (c : Char) (cs k rest : List Char) (i : Nat)
    (h0 : isIdStart c = true) (h1 : ∀ d ∈ cs, isIdChar d = true)
    (hk : ∀ d ∈ k, d ≠ 't' ∧ d ≠ ']' ∧ d ≠ '\n') (hnum : num (String.ofList (c :: cs)) = some i) :
    rewriteEquation num ((c :: cs) ++ '[' :: (('t' :: k) ++ ']' :: rest))
      = (rewriteEquation num rest).map
          (fun r => svOpen ++ natChars i ++ [',', ' ', 'i', 'n', 'd', 'e', 'x'] ++ k ++ [')'] ++ r) := by
  unfold rewriteEquation
  have h2 : ∀ d ∈ 't' :: k, d ≠ ']' ∧ d ≠ '\n' := by
    intro d hd
    rcases List.mem_cons.mp hd with h | h
    · subst h; decide
    · exact (hk d h).2
  rw [scan_reference c cs ('t' :: k) rest h0 h1 h2]
  have hr : replaceT ('t' :: k) = ['i', 'n', 'd', 'e', 'x'] ++ k := by
    rw [replaceT_t, replaceT_noT k (fun d hd => (hk d hd).1)]
  cases hrest : renderPieces num (scan rest .text) with
  | none => simp only [renderPieces, hnum, hrest, Option.map]
  | some r =>
    simp only [renderPieces, hnum, hrest, refText, hr, Option.map]
    simp only [List.append_assoc, List.cons_append, List.nil_append]

/-- `C[t-1]+X[t+12]` with C ↦ 2, X ↦ 3 becomes `solved_values(2, index-1)+solved_values(3, index+12)`. -/
example : rewriteEquation (fun s => if s = "C" then some 2 else some 3)
      ['C', '[', 't', '-', '1', ']', '+', 'X', '[', 't', '+', '1', '2', ']']
    = some (['s','o','l','v','e','d','_','v','a','l','u','e','s','(','2',',',' ','i','n','d','e','x','-','1',')','+'] ++
            ['s','o','l','v','e','d','_','v','a','l','u','e','s','(','3',',',' ','i','n','d','e','x','+','1','2',')']) := by
  decide

theorem renderExpr_map {α β : Type} (f : α → β) (atom : β → Int → List Char) (e : Expr α) :
    renderExpr atom (e.map f) = renderExpr (fun a off => atom (f a) off) e := by
  induction e with
  | int n => rfl
  | dec m e => rfl
  | var a off => rfl
  | neg x ih => simp [Expr.map, renderExpr, ih]
  | bin op x y ihx ihy => simp [Expr.map, renderExpr, ihx, ihy]
  | fn1 g x ih => simp [Expr.map, renderExpr, ih]
  | fn2 g x y ihx ihy => simp [Expr.map, renderExpr, ihx, ihy]

/-- **The rewrite on a whole equation is the renumbering of its tree.**  For an equation `LHS[t] = <rhs>` written in
    the (fully parenthesised) concrete syntax, with every name an identifier known to the numbering `k`: the text the
    regex rewrite produces is the same concrete syntax of the tree with every reference `NAME[t±j]` replaced by
    `solved_values(k NAME, index±j)` — i.e. of `rhs.map k`.  This links the text-level code generator to the
    tree-level statement `kind_safe_agree` is about. -/
theorem rewrite_expression_text (num : String → Option Nat) (k : List Char → Nat)
    (lhs : List Char) (rhs : Expr (List Char))
    (hl : ValidName lhs ∧ num (String.ofList lhs) = some (k lhs))
    (hr : ∀ p ∈ rhs.refs, ValidName p.1 ∧ num (String.ofList p.1) = some (k p.1)) :
    rewriteEquation num (eqAtom lhs 0 ++ ([' ', '=', ' '] ++ renderExpr eqAtom rhs))
      = some (fAtom (k lhs) 0 ++ ([' ', '=', ' '] ++ renderExpr fAtom (rhs.map k))) := by
  rw [renderExpr_map]
  have h1 := seg_expr num k (.var lhs 0) (by intro p hp; simp [Expr.refs] at hp; subst hp; exact hl)
  have h2 := Seg.plain num [' ', '=', ' '] (by decide)
  have h3 := seg_expr num k rhs hr
  exact rewrite_of_seg num _ _ (h1.append (h2.append h3))

/-- `C[t] = (C[t-1] + exp(X[t+2]))` with C ↦ 2, X ↦ 3. -/
example : rewriteEquation (fun s => if s = "C" then some 2 else some 3)
      (eqAtom ['C'] 0 ++ ([' ', '=', ' '] ++
        renderExpr eqAtom (.bin .add (.var ['C'] (-1)) (.fn1 .exp (.var ['X'] 2)))))
    = some (fAtom 2 0 ++ ([' ', '=', ' '] ++
        renderExpr fAtom (.bin .add (.var 2 (-1)) (.fn1 .exp (.var 3 2))))) := by decide

/-- With `index = t + 1` (after the template's normalisation of a non-positive `t`) the rewritten reference
    `solved_values(row0 + 1, index + k)` is the storage cell Python's `self._x[t + k]` denotes, for every offset
    `k` that stays inside the span — for both spellings of `t`. -/
theorem fortran_index_rewrite_cell {F : Type} (s : Mat F) (g : F) (row0 : Nat) (t k : Int)
    (ht : -(s.ncols : Int) ≤ t) (ht' : t < s.ncols)
    (hlo : 1 ≤ indexOf s.ncols (t + 1) + k) (hhi : indexOf s.ncols (t + 1) + k ≤ s.ncols) :
    s.pyGet g row0 (t + k) = some (s.fget g ((row0 : Int) + 1) (indexOf s.ncols (t + 1) + k)) := by
  unfold Mat.pyGet Mat.fget
  rw [pyIndex_of_index s.ncols t k ht ht' hlo hhi]
  obtain ⟨p, hp⟩ : ∃ p : Nat, indexOf s.ncols (t + 1) + k = (p : Int) + 1 :=
    ⟨(indexOf s.ncols (t + 1) + k - 1).toNat, by omega⟩
  rw [hp, offsetOf_pos]
  have h1 : ((p : Int) + 1 - 1).toNat = p := by omega
  have h2 : (0 : Int) ≤ ((p * s.nrows + row0 : Nat) : Int) := Int.natCast_nonneg _
  simp only [h1, h2, if_true, Int.toNat_natCast]

example : (⟨2, 3, [10, 20, 11, 21, 12, 22]⟩ : Mat Nat).pyGet 0 1 (-1 + -1) = some 21 := by decide
example : (⟨2, 3, [10, 20, 11, 21, 12, 22]⟩ : Mat Nat).fget 0 2 (indexOf 3 (-1 + 1) + -1) = 21 := by decide

/-! ## Expressions: the two denotations -/

section Agree
variable {α β F4 F8 : Type}

theorem denF_map (T : Tower F4 F8) (f : α → β) (cell : β → Int → F8) (e : Expr α) :
    denF T cell (e.map f) = denF T (fun a off => cell (f a) off) e := by
  induction e with
  | int n => rfl
  | dec m e => rfl
  | var a off => rfl
  | neg x ih => simp [Expr.map, denF, ih]
  | bin op x y ihx ihy => simp [Expr.map, denF, ihx, ihy]
  | fn1 f x ih => simp [Expr.map, denF, ih]
  | fn2 f x y ihx ihy => simp [Expr.map, denF, ihx, ihy]

/-- **Agreement on the kind-safe fragment.**  For every interpretation of the real operators of both kinds (with
    the two facts about widening collected in `Coherent`), every numbering `num`, every expression satisfying
    `kindSafe`, and stores in which the rewritten references denote the same cells: the Fortran expression
    compiles and its value, read as a Python value, is the value of the Python expression. -/
theorem kind_safe_agree (T : Tower F4 F8) (exact4 : Nat → Nat → Bool) (hc : Coherent T exact4)
    (num : α → β) (cell : β → Int → F8) (ρ : α → Int → F8) (e : Expr α)
    (hs : kindSafe exact4 e = true) (hcell : ∀ p ∈ e.refs, cell (num p.1) p.2 = ρ p.1 p.2) :
    ∃ v, denF T cell (e.map num) = some v ∧ lift T v = denP T.o8 ρ e := by
  obtain ⟨v, h1, _, h3, _⟩ := agree_core T exact4 hc (fun a off => cell (num a) off) ρ e hs hcell
  exact ⟨v, by rw [denF_map]; exact h1, h3⟩

/-- …hence the real(8) number the Fortran assignment stores is the float64 the Python assignment stores. -/
theorem kind_safe_assign_agree (T : Tower F4 F8) (exact4 : Nat → Nat → Bool) (hc : Coherent T exact4)
    (num : α → β) (cell : β → Int → F8) (ρ : α → Int → F8) (e : Expr α)
    (hs : kindSafe exact4 e = true) (hcell : ∀ p ∈ e.refs, cell (num p.1) p.2 = ρ p.1 p.2) :
    (denF T cell (e.map num)).map (fun v => v.to8 T) = some ((denP T.o8 ρ e).toF T.o8) := by
  obtain ⟨v, h1, h2⟩ := kind_safe_agree T exact4 hc num cell ρ e hs hcell
  simp [h1, to8_eq_toF_lift, h2]

/-- The full statement, without `KindSafe`: *every* expression of the common subset means the same number in both
    languages.  It is FALSE — see the two theorems below. -/
def FullAgree (T : Tower F4 F8) (num : α → β) (cell : β → Int → F8) (ρ : α → Int → F8) : Prop :=
  ∀ e : Expr α, (denF T cell (e.map num)).map (fun v => v.to8 T) = some ((denP T.o8 ρ e).toF T.o8)

/-- `1/2`: Fortran divides integers (0), Python divides truly.  False in every interpretation in which the real(8)
    quotient 1/2 is not the real(8) zero. -/
theorem full_agree_false_at_half (T : Tower F4 F8) (num : α → β) (cell : β → Int → F8) (ρ : α → Int → F8)
    (h : T.o8.div (T.o8.ofInt 1) (T.o8.ofInt 2) ≠ T.o8.ofInt 0) : ¬ FullAgree T num cell ρ := by
  intro hall
  have := hall (.bin .div (.int 1) (.int 2))
  simp [Expr.map, denF, bind2, fBin, fIntBin, FVal.to8, denP, pyBin, PVal.toF] at this
  exact h this.symm

/-- `0.1`: a decimal literal is real(4) in Fortran.  False in every interpretation in which the widened real(4)
    literal differs from the real(8) literal. -/
theorem full_agree_false_at_tenth (T : Tower F4 F8) (num : α → β) (cell : β → Int → F8) (ρ : α → Int → F8)
    (h : T.up (T.o4.ofDec 1 1) ≠ T.o8.ofDec 1 1) : ¬ FullAgree T num cell ρ := by
  intro hall
  have := hall (.dec 1 1)
  simp [Expr.map, denF, FVal.to8, denP, PVal.toF] at this
  exact h this

end Agree

/-! ### Non-vacuity: a concrete interpretation (fixed point: real(8) in thousandths, real(4) in eighths) -/

def toy8 : RealOps Int where
  ofInt n := 1000 * n
  ofDec m e := (1000 * m) / 10 ^ e
  add a b := a + b
  sub a b := a - b
  mul a b := a * b / 1000
  div a b := 1000 * a / b
  neg a := -a
  pow a _ := a
  powi a _ := a
  exp a := a
  log a := a
  abs a := Int.ofNat a.natAbs
  max a b := if b > a then b else a
  min a b := if b < a then b else a
  lt a b := decide (a < b)
  isFinite _ := true

def toy4 : RealOps Int := { toy8 with ofInt := fun n => 8 * n, ofDec := fun m e => (8 * m) / 10 ^ e,
                                       mul := fun a b => a * b / 8, div := fun a b => 8 * a / b }

def toyT : Tower Int Int := ⟨toy4, toy8, fun x => 125 * x⟩

/-- literals the toy real(4) holds exactly -/
def toyExact (m e : Nat) : Bool := decide (125 * ((8 * (m : Int)) / 10 ^ e) = (1000 * (m : Int)) / 10 ^ e)

theorem toy_coherent : Coherent toyT toyExact where
  lit m e h := by simpa [toyExact, toyT, toy4, toy8] using h
  neg x := by simp [toyT, toy4, toy8, Int.mul_neg]

/-- `Y = 0.5 * X[t-1] + 3 * (-0.25) ...`: a kind-safe expression with a lag, an exact literal, an integer. -/
def exExpr : Expr String :=
  .bin .add (.bin .mul (.dec 5 1) (.var "X" (-1))) (.bin .mul (.bin .mul (.int 2) (.int 3)) (.neg (.var "Y" 0)))

example : kindSafe toyExact exExpr = true := by decide
example : kindSafe exact4Std exExpr = true := by decide
example : (denF toyT (fun (r : Nat) off => if r = 3 then 4000 else 1000) (exExpr.map (fun x => if x = "X" then 3 else 1))).map
    (fun v => v.to8 toyT) = some (-4000) := by decide
example : (denP toy8 (fun x off => if x = "X" then 4000 else 1000) exExpr).toF toy8 = -4000 := by decide
/-- the two hypotheses of the negative theorems hold in the toy interpretation -/
example : toyT.o8.div (toyT.o8.ofInt 1) (toyT.o8.ofInt 2) ≠ toyT.o8.ofInt 0 := by decide
example : toyT.up (toyT.o4.ofDec 1 1) ≠ toyT.o8.ofDec 1 1 := by decide
example : kindSafe exact4Std (.bin .div (.int 1) (.int 2) : Expr String) = false := by decide
example : kindSafe exact4Std (.dec 1 1 : Expr String) = false := by decide
example : exact4Std 375 3 = true ∧ exact4Std 1 1 = false ∧ exact4Std 314159 5 = false := by decide

/-- `max(X, 0.5, Y[t-1])` (three arguments, read as a fold of the binary call) is kind-safe and means the same in the toy
    interpretation: 4.0 from X = 4.0, Y[t-1] = 1.0. -/
example : kindSafe exact4Std (Expr.fnMany .max (.var "X" 0) (.dec 5 1) [.var "Y" (-1)]) = true := by decide
example : (denF toyT (fun (r : Nat) off => if r = 3 then 4000 else 1000)
      ((Expr.fnMany .max (.var "X" 0) (.dec 5 1) [.var "Y" (-1)]).map (fun x => if x = "X" then 3 else 1))).map
    (fun v => v.to8 toyT) = some 4000 ∧
    (denP toy8 (fun x off => if x = "X" then 4000 else 1000)
      (Expr.fnMany .max (.var "X" 0) (.dec 5 1) [.var "Y" (-1)])).toF toy8 = 4000 := by decide

/-! ## One whole evaluation pass -/

/-- **A whole `evaluate` pass agrees.**  For a numbered program whose equations are kind-safe and whose references
    stay inside the span at period `t` (any spelling, `-n ≤ t < n`), the compiled `{equations}` block run at column
    `index = t + 1` (after the template's normalisation) leaves exactly the storage the generated Python
    `_evaluate(t)` leaves, and Python raises nothing — for every interpretation of the real operators. -/
theorem evaluate_agree {F4 F8 : Type} (T : Tower F4 F8) (exact4 : Nat → Nat → Bool) (hc : Coherent T exact4)
    (prog : Prog) (s : Mat F8) (t : Int) (ht : -(s.ncols : Int) ≤ t) (ht' : t < s.ncols)
    (hok : ∀ re ∈ prog, EqOk exact4 s.ncols (indexOf s.ncols (t + 1)) re) :
    pBody T.o8 prog s t = (fBody T prog s (indexOf s.ncols (t + 1)), false) :=
  pBody_eq_fBody T exact4 hc s.ncols t ht ht' prog s rfl hok

/-- Two equations with a lag and a lead, evaluated at `t = -2` (column 2 of 3) in the toy interpretation. -/
def exProg : Prog :=
  [((1, 0), .bin .add (.bin .mul (.dec 5 1) (.var 1 (-1))) (.var 2 1)),
   ((2, 0), .bin .sub (.var 1 0) (.bin .mul (.int 2) (.var 2 0)))]

def exMat : Mat Int := ⟨2, 3, [1000, 2000, 3000, 4000, 5000, 6000]⟩

example : ∀ re ∈ exProg, EqOk toyExact exMat.ncols (indexOf exMat.ncols (-2 + 1)) re := by
  decide
example : fBody toyT exProg exMat (indexOf 3 (-2 + 1)) = ⟨2, 3, [1000, 2000, 6500, -1500, 5000, 6000]⟩ := by decide
example : pBody toy8 exProg exMat (-2) = (⟨2, 3, [1000, 2000, 6500, -1500, 5000, 6000]⟩, false) := by decide

/-! ## Which cells one period may write, and that the wrapper carries all of them back -/

/-- **Frame of the per-period routine.**  One pass of the compiled `{equations}` block at column `index` writes at
    most the cells `(row of the defined variable, index + its own offset)` — for `H[1] = …` that is period `t + 1`,
    not `t` — and leaves every other cell and the shape of the block alone. -/
theorem evaluate_frame {F4 F8 : Type} (T : Tower F4 F8) (prog : Prog) (s : Mat F8) (index : Int) (q : Nat)
    (h : ∀ re ∈ prog, offsetOf s.nrows (re.1.1 : Nat) (index + re.1.2) ≠ (q : Int)) :
    (fBody T prog s index).mem[q]? = s.mem[q]? ∧ (fBody T prog s index).nrows = s.nrows ∧
      (fBody T prog s index).ncols = s.ncols :=
  fBody_frame T index q prog s h

/-- The offset copy of `solve_t` writes at most the cells `(endogenous row, index)`. -/
theorem offset_copy_frame {F : Type} (g : F) (rows : List Nat) (dst src : Nat) (s : Mat F) (q : Nat)
    (h : ∀ r ∈ rows, offsetOf s.nrows (r : Nat) (dst : Nat) ≠ (q : Int)) :
    (copyRows g rows dst src s).mem[q]? = s.mem[q]? :=
  copyRows_frame g dst src s q rows s rfl h

/-- **The wrappers hand back the whole block the engine returns** (`self.values = solved_values`), not only period
    `t`: after `solve_t` the instance's values are the engine's output state, whatever the error code; after a
    successful `_evaluate` likewise.  (So a cell written at `t ± k` by an indexed left-hand side is kept.) -/
theorem wrapper_returns_engine_block {σ : Type} (o : Opts) (n : Nat) (t : Int) (w : World σ) (r : Out σ) :
    (dispatchT o n t w r).1.user = r.state := by
  unfold dispatchT
  split
  · rw [Fortran.stamp_user]; rfl
  · split
    · rw [Fortran.stamp_user]; rfl
    · split
      · rw [Fortran.stamp_user]; rfl
      · split <;> rfl

theorem wEvaluate_returns_engine_block {σ V : Type} (E : Engine σ V) (u : σ) (t : Int)
    (h : (wEvaluate E u t).2 = .ok) : (wEvaluate E u t).1 = (evaluate E u (t + 1)).1 := by
  unfold wEvaluate at h ⊢
  split
  · rfl
  · rename_i h0
    simp only [h0, if_false] at h
    split at h <;> cases h

/-- `H[t+1] = H[t] + 1000` (toy units) at `t = 0` of three periods: the pass writes period 1 and nothing else. -/
example : fBody toyT [((1, 1), .bin .add (.var 1 0) (.int 1))] ⟨1, 3, [5000, 0, 0]⟩ 1 = ⟨1, 3, [5000, 6000, 0]⟩ := by
  decide
example : pBody toy8 [((1, 1), .bin .add (.var 1 0) (.int 1))] ⟨1, 3, [5000, 0, 0]⟩ 0 = (⟨1, 3, [5000, 6000, 0]⟩, false) := by
  decide

/-! ## The `solve_t` loop and the whole `solve_t` -/

section Loop
variable {σ V : Type}

/-- **The template's loop is the Python loop on finite data.**  At a period that passed the index checks (so
    `evaluate` runs the equations and returns 0), and on any set `Inv` of states closed under one evaluation pass on
    which all check and endogenous values are finite: from every pass number `k ≥ 1`, state and previous check
    vector, the template's `do … end do` (with its `iteration - 1` adjustment on exhaustion) and M1's `loop` deliver
    the same state, the same converged flag (status '.' vs 'F') and the same iteration count; the error code is the
    one held before the loop (0) if no pass runs, and 0 afterwards. -/
theorem fortran_loop_eq_python_loop (W : Wrapped σ V) (c : Cfg) (o : Opts) (t : Int) (index : Nat)
    (Inv : σ → Prop) (R : FiniteRegime W index Inv) (hmin : c.minIter = o.minIter)
    (hidx : index = (normT W.ncols t + 1).toNat)
    (hev : ∀ u, evaluate W u index = (W.body u index, 0))
    (fuel k : Nat) (u : σ) (cur : V) (code : Int) (hk : 1 ≤ k) (hu : Inv u) (hcur : W.allFinite cur = true) :
    asOut (loop (toInterp W) o t fuel k u cur) (if fuel = 0 then code else 0)
      = some (floop W c index fuel k u cur code) :=
  floop_eq_loop W c o t index Inv R hmin hidx hev fuel k u cur code hk hu hcur

/-- **`FortranEngine.solve_t` is `BaseModel.solve_t`.**  For every engine, every option set with a documented
    `errors` string (incl. `max_iter ≤ 0`, `min_iter > max_iter`, offsets in and out of the span), every period
    `-n ≤ t < n` (feasible or not) and every world, on finite data (`R`: a set of states containing the seeded state,
    closed under evaluation passes, on which the period's check and endogenous values are finite): the world
    afterwards (values, status and iterations series) and the result (True / False / exception class) coincide.
    `hcopy` is a law of the storage (copying a column twice is copying it once).  No guard excludes inputs of the
    property any more: the three former exceptions (`max_iter = 0`, infeasible period, shifted convergence rows)
    are repaired in fsic/fortran.py and covered here. -/
theorem fortran_solveT_eq_python (W : Wrapped σ V) (o : Opts) (t : Int) (w : World σ) (Inv : σ → Prop)
    (ht : -(W.ncols : Int) ≤ t) (ht' : t < W.ncols) (herr : o.errors ≠ .invalid)
    (R : FiniteRegime W (normT W.ncols t + 1).toNat Inv)
    (hcopy : ∀ u d s, W.copyEndo (W.copyEndo u d s) d s = W.copyEndo u d s)
    (hseed : Inv (seed (toInterp W) o t w.user)) :
    wSolveT W o t w
      = ((Fsic.solveT (toInterp W) o W.ncols t w).1, ofResult (Fsic.solveT (toInterp W) o W.ncols t w).2) :=
  wSolveT_eq_solveT W o t w Inv ht ht' herr R hcopy hseed

end Loop

/-! ### Instances on a toy model (formerly the three witnesses against the unguarded statement)

Three periods; the state is a pair (Y, C): a pass sets `Y := 1` and moves `C` one step towards 3; two check vectors
are close when equal; everything is finite. -/

def toyW (lags : Nat) : Wrapped (Nat × Nat) (Nat × Nat) where
  ncols := 3
  lags := lags
  leads := 0
  check u _ := u
  allFinite _ := true
  close a b := a == b
  endoFinite _ _ := true
  zeroEndo u _ := u
  copyEndo u _ _ := u
  body u _ := (1, min (u.2 + 1) 3)

def toyWorld : World (Nat × Nat) := ⟨(0, 0), [.unsolved, .unsolved, .unsolved], [-1, -1, -1]⟩

/-- The statement of `fortran_solveT_eq_python` at one call. -/
def SolveTAgree {σ V : Type} (W : Wrapped σ V) (o : Opts) (t : Int) (w : World σ) : Prop :=
  wSolveT W o t w = ((Fsic.solveT (toInterp W) o W.ncols t w).1, ofResult (Fsic.solveT (toInterp W) o W.ncols t w).2)

instance {σ V : Type} [DecidableEq σ] (W : Wrapped σ V) (o : Opts) (t : Int) (w : World σ) :
    Decidable (SolveTAgree W o t w) := by unfold SolveTAgree; infer_instance

/-- convergence at pass 4, status '.' -/
example : SolveTAgree (toyW 0) {} 1 toyWorld ∧
    wSolveT (toyW 0) {} 1 toyWorld = (⟨(1, 3), [.unsolved, .solved, .unsolved], [-1, 4, -1]⟩, .ret true) := by
  decide

/-- `max_iter = 0`: 'F', 0 iterations, False — on both sides. -/
example : SolveTAgree (toyW 0) { maxIter := 0, failRaise := false } 1 toyWorld ∧
    wSolveT (toyW 0) { maxIter := 0, failRaise := false } 1 toyWorld
      = (⟨(0, 0), [.unsolved, .failed, .unsolved], [-1, 0, -1]⟩, .ret false) := by decide

/-- A period without enough lags (`lags = 1`, `t = 0`): IndexError, nothing changes — on both sides. -/
example : SolveTAgree (toyW 1) {} 0 toyWorld ∧ wSolveT (toyW 1) {} 0 toyWorld = (toyWorld, .indexError) := by decide

/-- **The rows the compiled loop reads are the variables Python checks.**  The wrapper passes
    `names.index(x) + 1`; for a variable at 0-based position `r` of `NAMES`, a period `-n ≤ t < n` and
    `index = t + 1` (normalised), `solved_values(r + 1, index)` is the cell `self._x[t]`. -/
theorem fortran_check_rows_aligned {F4 F8 : Type} (T : Tower F4 F8) (S : Spec F8) (u : Mat F8) (t : Int)
    (ht : -(u.ncols : Int) ≤ t) (ht' : t < u.ncols) :
    ((specWrapped T S).check u (indexOf u.ncols (t + 1)).toNat).map some
      = (S.conv.map fun r => u.pyGet (T.o8.ofInt 0) r t) := by
  have hlo : 1 ≤ indexOf u.ncols (t + 1) := by unfold indexOf; split <;> omega
  have hhi : indexOf u.ncols (t + 1) ≤ u.ncols := by unfold indexOf; split <;> omega
  have hcast : (((indexOf u.ncols (t + 1)).toNat : Nat) : Int) = indexOf u.ncols (t + 1) := by omega
  simp only [specWrapped, Spec.passed, List.map_map]
  apply List.map_congr_left
  intro r _
  have := fortran_index_rewrite_cell u (T.o8.ofInt 0) r t 0 ht ht' (by simpa using hlo) (by simpa using hhi)
  simp only [Int.add_zero] at this
  simp only [Function.comp, hcast, this]
  push_cast
  rfl

/-! ## `solve` -/

/-- **`solve` is a fold of `solve_t` over the periods with early exit**: the final block and the per-period result
    arrays of the template's `solve` are those of folding `foldStep` (solve the period from the state the previous
    one left; after a `return` every later entry keeps its initial (false, −1, −1)). -/
theorem fortran_solve_eq_fold {σ V : Type} (E : Engine σ V) (c : Cfg) (ts : List Int) (u : σ) :
    Fortran.solve E c ts u = ((ts.foldl (foldStep E c) (u, [], false)).1, (ts.foldl (foldStep E c) (u, [], false)).2.1) := by
  have := fold_running E c ts u []
  simp only [List.nil_append] at this
  exact this.symm

section Solve
variable {σ V : Type}

/-- **The wrapper's `solve` over resolved positions is M1's period loop.**  The template solves every period first
    and the wrapper stamps statuses afterwards; Python interleaves the two.  On finite data (`G`: a set of states
    closed under evaluation passes and offset copies at every period) the final world and the result coincide:
    the flags for the solved periods, or the exception class of the first period that raises, with every later
    period untouched. -/
theorem fortran_solve_eq_python_solveList (W : Wrapped σ V) (o : Opts) (ps : List Nat) (w : World σ)
    (Inv : σ → Prop) (G : GlobalRegime W Inv) (hu : Inv w.user) (hps : ∀ p ∈ ps, p < W.ncols)
    (herr : o.errors ≠ .invalid) (h0 : ¬ o.minIter > o.maxIter) :
    wSolve W o ps w = ((solveList (toInterp W) o W.ncols ps w [] []).1,
                        ofSolveResult (solveList (toInterp W) o W.ncols ps w [] []).2) := by
  obtain ⟨ec, hec⟩ : ∃ ec, errorOption o.errors = some ec := by
    cases he : o.errors <;> simp [errorOption] <;> exact absurd he herr
  unfold wSolve
  simp only [h0, if_false, hec]
  rw [solveList_core W o ec h0 Inv G ps w [] [] hps hu]
  unfold finishW
  simp only [List.reverse_nil, List.nil_append]
  split <;> simp_all

theorem resolveBound_error (given : Option Loc) (dflt : Option Nat) (r : SolveResult)
    (h : resolveBound given dflt = .error r) (hg : ¬ (given = some .other ∨ given = some .missing)) :
    r = .spanIndexError := by
  unfold resolveBound at h
  cases given with
  | none =>
    cases dflt with
    | none => simp at h; exact h.symm
    | some i => simp at h
  | some l => cases l <;> simp_all

/-- **`FortranEngine.solve(start=, end=, …)` is `SolverMixin.solve`** on a non-empty span, finite data and
    positions that come from the span. -/
theorem fortran_solve_eq_python_solve (W : Wrapped σ V) (o : Opts) (start stop : Option Loc) (w : World σ)
    (Inv : σ → Prop) (G : GlobalRegime W Inv) (hu : Inv w.user) (hn : 0 < W.ncols)
    (hstop : ∀ i, stop = some (.pos i) → i < W.ncols) (herr : o.errors ≠ .invalid) :
    wSolveFull W o start stop w
      = ((Fsic.solve (toInterp W) o W.ncols W.lags W.leads start stop w).1,
         ofSolveResult (Fsic.solve (toInterp W) o W.ncols W.lags W.leads start stop w).2) := by
  unfold wSolveFull Fsic.solve
  by_cases h0 : o.minIter > o.maxIter
  · simp [h0, ofSolveResult, ofResult]
  simp only [h0, if_false]
  by_cases h1 : start = some .other ∨ start = some .missing
  · simp [h1, ofSolveResult]
  simp only [h1, if_false]
  by_cases h2 : stop = some .other ∨ stop = some .missing
  · simp [h2, ofSolveResult]
  have hn' : ¬ W.ncols = 0 := by omega
  simp only [h2, if_false, hn']
  -- the two bounds
  cases hs : resolveBound start (if W.lags < W.ncols then some W.lags else none) with
  | error r =>
    have : r = .spanIndexError := resolveBound_error _ _ r hs h1
    subst this
    cases resolveBound stop (if W.leads < W.ncols then some (W.ncols - 1 - W.leads) else none) <;>
      simp [ofSolveResult]
  | ok s0 =>
    cases he : resolveBound stop (if W.leads < W.ncols then some (W.ncols - 1 - W.leads) else none) with
    | error r =>
      have : r = .spanIndexError := resolveBound_error _ _ r he h2
      subst this
      simp [ofSolveResult]
    | ok e0 =>
      simp only
      have he0 : e0 < W.ncols := by
        unfold resolveBound at he
        cases stop with
        | none =>
          simp only at he
          split at he
          · rename_i i hi
            split at hi <;> simp_all
            omega
          · simp at he
        | some l =>
          cases l with
          | pos i => simp at he; subst he; exact hstop i rfl
          | other => simp at he
          | missing => simp at he
      exact fortran_solve_eq_python_solveList W o (periodRange s0 e0) w Inv G hu
        (by intro p hp; unfold periodRange at hp; simp at hp; obtain ⟨a, ha, rfl⟩ := hp; omega) herr h0

/-- **Periods the wrapper's `solve` is not asked to solve keep their record**: whatever the engine returns and
    whatever exception is raised, `status` / `iterations` change only at the positions handed over — in particular the
    record an earlier call left there survives (the counterpart of `C05.later_periods_untouched`). -/
theorem fortran_solve_frame (W : Wrapped σ V) (o : Opts) (ps : List Nat) (w : World σ) (j : Nat)
    (hj : ∀ p ∈ ps, p ≠ j) (hps : ∀ p ∈ ps, p < W.ncols) :
    (wSolve W o ps w).1.status[j]? = w.status[j]? ∧ (wSolve W o ps w).1.iters[j]? = w.iters[j]? := by
  unfold wSolve
  split
  · exact ⟨rfl, rfl⟩
  · split
    · exact ⟨rfl, rfl⟩
    · rename_i ec _
      have hf := dispatchList_frame o W.ncols j
        (ps.zip (Fortran.solve W (cfgOf o ec) (ps.map fun (p : Nat) => (p : Int) + 1) w.user).2)
        (withUser w (Fortran.solve W (cfgOf o ec) (ps.map fun (p : Nat) => (p : Int) + 1) w.user).1)
        (fun e he => hj e.1 (List.of_mem_zip he).1) (fun e he => hps e.1 (List.of_mem_zip he).1)
      split <;> rename_i heq <;> rw [heq] at hf <;> exact hf

/-- …and so do the periods *after* the one at which the zip loop raises: with `l1` the entries up to and including the
    raising one, the entries `l2` behind it are never looked at, so a position that does not occur in `l1` keeps its
    `status` / `iterations` — a later `solve()` that fails part-way does not reset what an earlier call recorded. -/
theorem fortran_later_periods_untouched (o : Opts) (n : Nat) (l1 l2 : List (Nat × PeriodOut)) (w : World σ)
    (e : WResult) (hraise : (dispatchList o n l1 w).2.1 = some e) (j : Nat)
    (hj : ∀ x ∈ l1, x.1 ≠ j) (hn : ∀ x ∈ l1, x.1 < n) :
    (dispatchList o n (l1 ++ l2) w).1.status[j]? = w.status[j]? ∧
      (dispatchList o n (l1 ++ l2) w).1.iters[j]? = w.iters[j]? := by
  rw [dispatchList_stops o n l2 l1 w e hraise]
  exact dispatchList_frame o n j l1 w hj hn

/-- A world that already carries records: the second period fails under `max_iter = 2`, `failures='raise'`; the
    record of the third period ('.', 7) survives. -/
example : (wSolveFull (toyW 0) { maxIter := 2 } (some (.pos 1)) none
      ⟨(0, 0), [.solved, .solved, .solved], [5, 6, 7]⟩)
    = (⟨(1, 2), [.solved, .failed, .solved], [5, 2, 7]⟩, .err .nonConvergence) := by decide

/-- Two periods of the toy model through `solve`: both converge at pass 4 resp. 1. -/
example : wSolveFull (toyW 0) {} none none toyWorld
    = ((Fsic.solve (toInterp (toyW 0)) {} 3 0 0 none none toyWorld).1,
       ofSolveResult (Fsic.solve (toInterp (toyW 0)) {} 3 0 0 none none toyWorld).2) := by decide

example : wSolveFull (toyW 0) {} none none toyWorld
    = (⟨(1, 3), [.solved, .solved, .solved], [4, 1, 1]⟩, .ok [0, 1, 2] [true, true, true]) := by decide

/-- With `max_iter = 2` and `failures='raise'` the first period fails and the later ones are untouched. -/
example : wSolveFull (toyW 0) { maxIter := 2 } none none toyWorld
    = (⟨(1, 2), [.failed, .unsolved, .unsolved], [2, -1, -1]⟩, .err .nonConvergence) := by decide

end Solve

/-! ## Error codes -/

/-- Value declared for a code name in the template's `failure_codes` / `error_codes` modules, as reflected. -/
def templateCode (name : String) : Option Int :=
  (Generated.fortranTemplateCodes.find? (fun x => x.2.1 == name)).map (fun x => x.2.2)

/-- **The codes are consistent** (checked against what /repo says now):
    1. every code the model of the template emits has the integer declared in the template text;
    2. the template assigns no other code names to `error_code` than the modelled ones;
    3. `_ERROR_OPTIONS` / `_FAILURE_OPTIONS` send each option string to the template's `error_control_*` /
       `failure_control_*` value, and are the tables the model uses;
    4. the literals the three wrapper methods compare `error_code` with (and the `errors ==` test alongside) are
       exactly the dispatch the model implements;
    5. every literal dispatched on is 0 or a declared template code. -/
theorem error_codes_consistent :
    (templateCode "index_error_below" = some cIndexBelow ∧ templateCode "index_error_above" = some cIndexAbove ∧
     templateCode "index_error_lags" = some cIndexLags ∧ templateCode "index_error_leads" = some cIndexLeads ∧
     templateCode "numerical_error_raise" = some cNumRaise ∧ templateCode "numerical_error_skip" = some cNumSkip ∧
     templateCode "pre_existing_non_finite_value" = some cPreExisting ∧
     templateCode "offset_predates_span" = some cOffsetBefore ∧ templateCode "offset_postdates_span" = some cOffsetAfter ∧
     templateCode "error_control_raise" = some ecRaise ∧ templateCode "error_control_skip" = some ecSkip ∧
     templateCode "error_control_ignore" = some ecIgnore ∧ templateCode "error_control_replace" = some ecReplace ∧
     templateCode "failure_control_raise" = some fcRaise ∧ templateCode "failure_control_ignore" = some fcIgnore) ∧
    Generated.fortranTemplateUses = ["index_error_above", "index_error_below", "index_error_lags", "index_error_leads",
      "numerical_error_raise", "numerical_error_skip", "offset_postdates_span", "offset_predates_span",
      "pre_existing_non_finite_value"] ∧
    (∀ kv ∈ Generated.fortranErrorOptions, templateCode ("error_control_" ++ kv.1) = some kv.2) ∧
    (∀ kv ∈ Generated.fortranFailureOptions, templateCode ("failure_control_" ++ kv.1) = some kv.2) ∧
    Generated.fortranErrorOptions = [("raise", 0), ("skip", 1), ("ignore", 2), ("replace", 3)] ∧
    ([ErrMode.raise, .skip, .ignore, .replace].map errorOption = [some 0, some 1, some 2, some 3]) ∧
    Generated.fortranFailureOptions = [("raise", failureOption true), ("ignore", failureOption false)] ∧
    Generated.fortranWrapperDispatch =
      [("_evaluate", 0, ""), ("_evaluate", 11, ""), ("_evaluate", 12, ""), ("_evaluate", 13, ""), ("_evaluate", 14, ""),
       ("solve", 0, ""), ("solve", 11, ""), ("solve", 12, ""), ("solve", 13, ""), ("solve", 14, ""),
       ("solve", 21, "raise"), ("solve", 22, "skip"), ("solve", 31, "raise"), ("solve", 41, ""), ("solve", 42, ""),
       ("solve_t", 0, ""), ("solve_t", 11, ""), ("solve_t", 12, ""), ("solve_t", 13, ""), ("solve_t", 14, ""),
       ("solve_t", 21, "raise"), ("solve_t", 22, "skip")] ∧
    (∀ d ∈ Generated.fortranWrapperDispatch, d.2.1 = 0 ∨ ∃ x ∈ Generated.fortranTemplateCodes, x.2.2 = d.2.1) := by
  decide

/-! ## Non-vacuity (review): every hypothesis-carrying theorem instantiated at a concrete non-trivial instance -/

section Review

private def exNames : List String := allNames ["Y", "C"] ["X", "Z"] ["a"] ["e"]

/-- `fortran_numbering` / `fortran_numbers_distinct` on a six-name class. -/
example : numberOf exNames "a" = some (exNames.idxOf "a" + 1) :=
  fortran_numbering ["Y", "C"] ["X", "Z"] ["a"] ["e"] "a" (by decide) (by decide)
example : numberOf exNames "X" ≠ numberOf exNames "Z" :=
  fun h => absurd (fortran_numbers_distinct exNames "X" "Z" (by decide) (by decide) (by decide) h) (by decide)

private def exNum : String → Option Nat := fun s => if s = "C" then some 2 else some 3

/-- `fortran_index_rewrite`: `Con[t-1]+1` with `Con ↦ 3`. -/
example : rewriteEquation exNum (('C' :: ['o', 'n']) ++ '[' :: (('t' :: ['-', '1']) ++ ']' :: ['+', '1'])) =
    (rewriteEquation exNum ['+', '1']).map
      (fun r => svOpen ++ natChars 3 ++ [',', ' ', 'i', 'n', 'd', 'e', 'x'] ++ ['-', '1'] ++ [')'] ++ r) :=
  fortran_index_rewrite exNum 'C' ['o', 'n'] ['-', '1'] ['+', '1'] 3 (by decide) (by decide) (by decide) (by decide)

private def validNameB : List Char → Bool
  | [] => false
  | c :: cs => isIdStart c && cs.all isIdChar
private theorem validName_of (name : List Char) (h : validNameB name = true) : ValidName name := by
  cases name with
  | nil => cases h
  | cons c cs =>
    simp only [validNameB, Bool.and_eq_true, List.all_eq_true] at h
    exact ⟨c, cs, rfl, h.1, h.2⟩
private def exK : List Char → Nat := fun n => if n = ['C'] then 2 else 3
private def exRhs : Expr (List Char) := .bin .add (.var ['C'] (-1)) (.fn1 .exp (.var ['X', '1'] 2))

/-- `rewrite_expression_text` on `C[t] = (C[t-1] + exp(X1[t+2]))`. -/
example : rewriteEquation exNum (eqAtom ['C'] 0 ++ ([' ', '=', ' '] ++ renderExpr eqAtom exRhs)) =
    some (fAtom (exK ['C']) 0 ++ ([' ', '=', ' '] ++ renderExpr fAtom (exRhs.map exK))) :=
  rewrite_expression_text exNum exK ['C'] exRhs ⟨validName_of _ (by decide), by decide⟩
    (fun p hp => ⟨validName_of _ ((by decide : ∀ p ∈ exRhs.refs, validNameB p.1 = true) p hp),
      (by decide : ∀ p ∈ exRhs.refs, exNum (String.ofList p.1) = some (exK p.1)) p hp⟩)

/-- `fortran_index_rewrite_cell`: row 1, `t = -1` (last of three columns), offset −1. -/
example : (⟨2, 3, [10, 20, 11, 21, 12, 22]⟩ : Mat Nat).pyGet 0 1 (-1 + -1) =
    some ((⟨2, 3, [10, 20, 11, 21, 12, 22]⟩ : Mat Nat).fget 0 (((1 : Nat) : Int) + 1) (indexOf 3 (-1 + 1) + -1)) :=
  fortran_index_rewrite_cell ⟨2, 3, [10, 20, 11, 21, 12, 22]⟩ 0 1 (-1) (-1) (by decide) (by decide) (by decide) (by decide)

private def exNumS : String → Nat := fun x => if x = "X" then 3 else 1
private def exCell : Nat → Int → Int := fun r _ => if r = 3 then 4000 else 1000
private def exRho : String → Int → Int := fun x _ => if x = "X" then 4000 else 1000

/-- `kind_safe_agree` / `kind_safe_assign_agree` on `exExpr` in the toy tower. -/
example : ∃ v, denF toyT exCell (exExpr.map exNumS) = some v ∧ lift toyT v = denP toyT.o8 exRho exExpr :=
  kind_safe_agree toyT toyExact toy_coherent exNumS exCell exRho exExpr (by decide) (by decide)
example : (denF toyT exCell (exExpr.map exNumS)).map (fun v => v.to8 toyT) = some ((denP toyT.o8 exRho exExpr).toF toyT.o8) :=
  kind_safe_assign_agree toyT toyExact toy_coherent exNumS exCell exRho exExpr (by decide) (by decide)

/-- The two negative theorems fire in the toy tower. -/
example : ¬ FullAgree toyT exNumS exCell exRho := full_agree_false_at_half toyT exNumS exCell exRho (by decide)
example : ¬ FullAgree toyT exNumS exCell exRho := full_agree_false_at_tenth toyT exNumS exCell exRho (by decide)

/-- `evaluate_agree` on the two-equation program at `t = -2`. -/
example : pBody toyT.o8 exProg exMat (-2) = (fBody toyT exProg exMat (indexOf exMat.ncols (-2 + 1)), false) :=
  evaluate_agree toyT toyExact toy_coherent exProg exMat (-2) (by decide) (by decide) (by decide)

/-- `evaluate_frame` / `offset_copy_frame`: storage cell 0 (row 1, column 1) is not written at column 2. -/
example : (fBody toyT exProg exMat 2).mem[0]? = exMat.mem[0]? ∧ (fBody toyT exProg exMat 2).nrows = exMat.nrows ∧
    (fBody toyT exProg exMat 2).ncols = exMat.ncols :=
  evaluate_frame toyT exProg exMat 2 0 (by decide)
example : (copyRows (0 : Int) [1, 2] 2 1 exMat).mem[0]? = exMat.mem[0]? :=
  offset_copy_frame 0 [1, 2] 2 1 exMat 0 (by decide)
example : copyRows (0 : Int) [1, 2] 2 1 exMat = ⟨2, 3, [1000, 2000, 1000, 2000, 5000, 6000]⟩ := by decide

/-- `wEvaluate_returns_engine_block` at a feasible period of the toy engine. -/
example : (wEvaluate (toyW 0) (0, 0) 1).1 = (evaluate (toyW 0) (0, 0) (1 + 1)).1 :=
  wEvaluate_returns_engine_block (toyW 0) (0, 0) 1 (by decide)

private theorem toyR (i : Nat) : FiniteRegime (toyW 0) i (fun _ => True) :=
  ⟨fun _ _ => trivial, fun _ _ => rfl, fun _ _ => rfl⟩
private theorem toyG : GlobalRegime (toyW 0) (fun _ => True) :=
  ⟨fun _ _ _ => trivial, fun _ _ _ _ => trivial, fun _ _ _ => rfl, fun _ _ _ => rfl⟩

/-- `fortran_loop_eq_python_loop`: five passes allowed from pass 1 at period 1 (column 2). -/
example : asOut (loop (toInterp (toyW 0)) {} 1 5 1 (0, 0) (0, 0)) (if 5 = 0 then 0 else 0) =
    some (floop (toyW 0) (cfgOf {} 0) 2 5 1 (0, 0) (0, 0) 0) :=
  fortran_loop_eq_python_loop (toyW 0) (cfgOf {} 0) {} 1 2 (fun _ => True) (toyR 2) rfl (by decide)
    (fun _ => rfl) 5 1 (0, 0) (0, 0) 0 (by decide) trivial rfl
example : floop (toyW 0) (cfgOf {} 0) 2 5 1 (0, 0) (0, 0) 0 = ⟨(1, 3), true, 4, 0⟩ := by decide

/-- `fortran_solveT_eq_python` at period 1 of the toy model. -/
example : SolveTAgree (toyW 0) {} 1 toyWorld :=
  fortran_solveT_eq_python (toyW 0) {} 1 toyWorld (fun _ => True) (by decide) (by decide) (by decide) (toyR _)
    (fun _ _ _ => rfl) trivial

/-- `fortran_check_rows_aligned`: two convergence rows of `exMat` at `t = -2`. -/
private def exSpec : Spec Int := ⟨exProg, [0, 1], [0, 1], 3, 1, 1, 1⟩
example : ((specWrapped toyT exSpec).check exMat (indexOf exMat.ncols (-2 + 1)).toNat).map some =
    (exSpec.conv.map fun r => exMat.pyGet (toyT.o8.ofInt 0) r (-2)) :=
  fortran_check_rows_aligned toyT exSpec exMat (-2) (by decide) (by decide)
example : (exSpec.conv.map fun r => exMat.pyGet (toyT.o8.ofInt 0) r (-2)) = [some 3000, some 4000] := by decide

/-- `fortran_solve_eq_python_solveList` / `fortran_solve_eq_python_solve`: three periods, the first fails under
    `max_iter = 2`. -/
example : wSolve (toyW 0) { maxIter := 2 } [0, 1, 2] toyWorld =
    ((solveList (toInterp (toyW 0)) { maxIter := 2 } 3 [0, 1, 2] toyWorld [] []).1,
     ofSolveResult (solveList (toInterp (toyW 0)) { maxIter := 2 } 3 [0, 1, 2] toyWorld [] []).2) :=
  fortran_solve_eq_python_solveList (toyW 0) { maxIter := 2 } [0, 1, 2] toyWorld (fun _ => True) toyG trivial
    (by decide) (by decide) (by decide)
example : wSolveFull (toyW 0) {} (some (.pos 1)) (some (.pos 2)) toyWorld =
    ((Fsic.solve (toInterp (toyW 0)) {} 3 0 0 (some (.pos 1)) (some (.pos 2)) toyWorld).1,
     ofSolveResult (Fsic.solve (toInterp (toyW 0)) {} 3 0 0 (some (.pos 1)) (some (.pos 2)) toyWorld).2) :=
  fortran_solve_eq_python_solve (toyW 0) {} (some (.pos 1)) (some (.pos 2)) toyWorld (fun _ => True) toyG trivial
    (by decide) (fun i h => by cases h; decide) (by decide)

/-- `fortran_solve_frame` / `fortran_later_periods_untouched`: the record of period 2 survives. -/
example : (wSolve (toyW 0) { maxIter := 2 } [0, 1] ⟨(0, 0), [.solved, .solved, .solved], [5, 6, 7]⟩).1.status[2]? =
      some .solved ∧
    (wSolve (toyW 0) { maxIter := 2 } [0, 1] ⟨(0, 0), [.solved, .solved, .solved], [5, 6, 7]⟩).1.iters[2]? = some 7 :=
  fortran_solve_frame (toyW 0) { maxIter := 2 } [0, 1] ⟨(0, 0), [.solved, .solved, .solved], [5, 6, 7]⟩ 2
    (by decide) (by decide)
example : (dispatchList { maxIter := 2 } 3 ([(0, ⟨true, 4, 0⟩), (1, ⟨false, 2, 0⟩)] ++ [(2, ⟨true, 1, 0⟩)])
      (⟨0, [.solved, .solved, .solved], [5, 6, 7]⟩ : World Nat)).1.status[2]? = some .solved ∧
    (dispatchList { maxIter := 2 } 3 ([(0, ⟨true, 4, 0⟩), (1, ⟨false, 2, 0⟩)] ++ [(2, ⟨true, 1, 0⟩)])
      (⟨0, [.solved, .solved, .solved], [5, 6, 7]⟩ : World Nat)).1.iters[2]? = some 7 :=
  fortran_later_periods_untouched { maxIter := 2 } 3 [(0, ⟨true, 4, 0⟩), (1, ⟨false, 2, 0⟩)] [(2, ⟨true, 1, 0⟩)]
    ⟨0, [.solved, .solved, .solved], [5, 6, 7]⟩ .nonConvergence (by decide) 2 (by decide) (by decide)

end Review

end Fsic.C07
