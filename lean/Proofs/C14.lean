import Proofs.Lemmas.Tokens
import Proofs.Lemmas.Split
import Proofs.Lemmas.Normalise
set_option linter.unusedSimpArgs false
set_option linter.unusedVariables false
/-
C14 — Layout of the script does not matter; the normal form is a fixed point.   (TEXT level, model M2)

Property theorems only (helpers: `Proofs/Lemmas/{Lexer,ScanRender,Tokens,Split,Normalise}.lean`).

`scan_render` is proved IN FULL for the token grammar of `Proofs/Lemmas/Tokens.lean`:
chunks of inert characters (everything that is not an identifier start, backtick, `{` or `<`: operators, digits,
brackets, commas, whitespace, newlines), the `<` operator (boundary condition: the ERROR alternative does not
match there, e.g. because no `>` follows — `brAt_lt_none`), variables without / with an adjacent index
`[ w1 text w2 ]`, `{ w1 name w2 }` and `< w1 name w2 >` with optional index, functions `name w (` with look-ahead,
keywords (one generic lemma over the reflected `keyword.kwlist`), verbatim fragments; for EVERY choice of the
whitespace strings w, w1, w2 (any Python whitespace, newlines included).  The scanner returns exactly the tokens'
(kind, name, raw index, span), in order.  The correspondence check confirms on every run (driver kind
`wf_check`) that the statements of the generated grammar scripts, under every layout, are such token lists.
NOT covered by the token grammar (hence only by the correspondence check): a literal `{` that is not part of a
parameter term, identifiers glued to a preceding number such as `1e5`, an index text that is empty or contains `]`.
The step from scanned terms to Symbols (Symbol.combine, merge across statements) is M3 (another work package).
-/
namespace Fsic.C14
open Fsic.Lx

/-- **scan_render**: for every well-formed token list under every layout (the whitespace fields of the tokens are
    universally quantified), scanning the rendered text yields exactly the expected matches — kind, name, raw
    index text and span of every term, function, keyword and verbatim token, in order, and nothing else. -/
theorem scan_render_go : ∀ (ts : List Tok) (pw : Bool) (pos : Nat), Wf pw ts →
    scanGo 0 pw pos (renderAll ts) = expectAll pos ts
  | [], _, _, _ => by simp [renderAll, expectAll, scanGo]
  | t :: ts, pw, pos, ⟨hw, hs, hn, hrest⟩ => by
    simp only [renderAll, expectAll]
    rw [tok_step t _ pw pos hw hs hn, scan_render_go ts _ _ hrest]

theorem scan_render (ts : List Tok) (h : Wf false ts) : scanTerms (renderAll ts) = expectAll 0 ts :=
  scan_render_go ts false 0 h

/-- `Y = { a } * H_d[ -12 ]+exp  (X) if <e> < 2 else 0` -/
def demo : List Tok :=
  [.var ['Y'] none, .chunk [' ', '=', ' '], .param [' '] ['a'] [' '] none, .chunk [' ', '*', ' '],
   .var ['H', '_', 'd'] (some ⟨[' '], ['-', '1', '2'], [' ']⟩), .chunk ['+'], .func ['e', 'x', 'p'] [' ', ' '],
   .chunk ['('], .var ['X'] none, .chunk [')', ' '], .kw ['i', 'f'], .chunk [' '], .err [] ['e'] [] none,
   .chunk [' '], .lt, .chunk [' ', '2', ' '], .kw ['e', 'l', 's', 'e'], .chunk [' ', '0']]

example : Wf false demo := wfB_sound _ _ (by decide)
example : (scanTerms (renderAll demo)).map (fun m => (m.kind, m.start, m.stop)) =
    [(.variable, 0, 1), (.parameter, 4, 9), (.variable, 12, 22), (.function, 23, 28), (.variable, 29, 30),
     (.keyword, 32, 34), (.error, 35, 38), (.keyword, 43, 47)] := by decide

/-- The layout-free content of a match. -/
def strip (m : RawMatch) : Kind × List Char × Option (List Char) := (m.kind, m.name, m.index)

def absAll (ts : List Tok) : List (Kind × List Char × Option (List Char)) := ts.filterMap Tok.abs

theorem expectAll_strip : ∀ (ts : List Tok) (pos : Nat), (expectAll pos ts).map strip = absAll ts
  | [], _ => rfl
  | t :: ts, pos => by
    simp only [expectAll, List.map_append, expectAll_strip ts, absAll, List.filterMap_cons]
    cases h : t.abs with
    | none => simp [Tok.expect, h]
    | some a => obtain ⟨k, n, ix⟩ := a; simp [Tok.expect, h, strip]

/-- **layout_invariance (scanner level)**: two layouts of the same tokens — any whitespace inside braces, angle
    brackets, index brackets, before a call parenthesis, and any inert chunks (spaces, newlines, parentheses,
    operators) between the terms — scan to the same sequence of (kind, name, raw index). -/
theorem layout_invariance_scan (ts₁ ts₂ : List Tok) (h₁ : Wf false ts₁) (h₂ : Wf false ts₂)
    (h : absAll ts₁ = absAll ts₂) :
    (scanTerms (renderAll ts₁)).map strip = (scanTerms (renderAll ts₂)).map strip := by
  rw [scan_render ts₁ h₁, scan_render ts₂ h₂, expectAll_strip, expectAll_strip, h]

/-- `parse_terms` only looks at the layout-free content of the matches … -/
theorem termsOf_congr : ∀ (ms₁ ms₂ : List RawMatch), ms₁.map strip = ms₂.map strip → termsOf ms₁ = termsOf ms₂
  | [], [], _ => rfl
  | [], _ :: _, h => by simp at h
  | _ :: _, [], h => by simp at h
  | a :: as, b :: bs, h => by
    simp only [List.map_cons, List.cons.injEq, strip, Prod.mk.injEq] at h
    obtain ⟨⟨hk, hn, hi⟩, ht⟩ := h
    simp only [termsOf, hk, hn, hi, termsOf_congr as bs ht]

/-- … so the terms (kind, name, parsed index = lag/lead contribution) do not depend on the layout. -/
theorem layout_invariance_terms (ts₁ ts₂ : List Tok) (h₁ : Wf false ts₁) (h₂ : Wf false ts₂)
    (h : absAll ts₁ = absAll ts₂) :
    termsOf (scanTerms (renderAll ts₁)) = termsOf (scanTerms (renderAll ts₂)) :=
  termsOf_congr _ _ (layout_invariance_scan ts₁ ts₂ h₁ h₂ h)

/-- `Y={a}*H_d[-12]+exp(X) if <e> < 2 else 0` vs the spread-out `demo`: same tokens, different layout. -/
def demoTight : List Tok :=
  [.var ['Y'] none, .chunk ['='], .param [] ['a'] [] none, .chunk ['*'],
   .var ['H', '_', 'd'] (some ⟨[], ['-', '1', '2'], []⟩), .chunk ['+'], .func ['e', 'x', 'p'] [],
   .chunk ['('], .var ['X'] none, .chunk [')', '\n', ' '], .kw ['i', 'f'], .chunk ['\t'], .err [' '] ['e'] ['\n'] none,
   .chunk [' '], .lt, .chunk ['2', ' '], .kw ['e', 'l', 's', 'e'], .chunk [' ', '0']]

example : Wf false demoTight ∧ absAll demo = absAll demoTight ∧ renderAll demo ≠ renderAll demoTight :=
  ⟨wfB_sound _ _ (by decide), by decide, by decide⟩

/-- An explicit `[0]` denotes the same term as no index (inner whitespace never reaches the raw index text:
    `scan_render` reports `text`, not `w1 text w2`). -/
theorem explicit_zero (k : Kind) : indexOf k (some ['0']) = indexOf k none := by
  cases k <;> decide

/-! ## Statements are assembled independently -/

/-- A list of lines is *complete* when the line-buffer automaton is back in its initial state after it
    (all parentheses closed, no fence open, nothing buffered, no error). -/
def Complete (l : List (List Char)) : Prop := endState .init l = some .init

/-- **split_concat** (lines): after a complete part the automaton is in its initial state, so the statements of
    `l₁ ++ l₂` are those of `l₁` followed by those of `l₂`, and the outcome is that of `l₂`. -/
theorem split_concat_lines (l₁ l₂ : List (List Char)) (h : Complete l₁) :
    splitGo .init (l₁ ++ l₂) = ((splitGo .init l₁).1 ++ (splitGo .init l₂).1, (splitGo .init l₂).2) ∧
    (splitGo .init l₁).2 = .ok :=
  ⟨splitGo_append l₁ l₂ .init .init h, splitGo_end_init l₁ .init h⟩

/-- An error in the first part is final: nothing after it is looked at. -/
theorem split_concat_error (l₁ l₂ : List (List Char)) (h : endState .init l₁ = none) :
    splitGo .init (l₁ ++ l₂) = splitGo .init l₁ := splitGo_stop l₁ l₂ .init h

/-- **split_concat** (text): `splitStatements (s₁ ++ "\n" ++ s₂) = splitStatements s₁ ++ splitStatements s₂`
    for a complete `s₁` that does not end in a line-break character. -/
theorem split_concat (s₁ s₂ : List Char) (c : Char) (hl : s₁.getLast? = some c) (hc : isLineBreak c = false)
    (h : Complete (splitLines s₁)) :
    splitStatements (s₁ ++ '\n' :: s₂) =
      ((splitStatements s₁).1 ++ (splitStatements s₂).1, (splitStatements s₂).2) := by
  unfold splitStatements
  rw [splitLines_append_nl s₁ s₂ c hl hc]
  exact (split_concat_lines _ _ h).1

example : Complete (splitLines ['Y', '=', '(', 'X', '\n', ')']) := by unfold Complete; decide
example : ¬ Complete (splitLines ['Y', '=', '(', 'X']) := by unfold Complete; decide

/-- Blank lines and comment-only lines between statements change nothing. -/
theorem blank_and_comment_lines_neutral (cs : List Char) (l : List (List Char)) :
    splitGo .init ([] :: l) = splitGo .init l ∧ splitGo .init (('#' :: cs) :: l) = splitGo .init l :=
  ⟨blank_line_neutral l, comment_line_neutral cs l⟩

/-! ## Whitespace normalisation -/

/-- The normalised template is a fixed point of the normalisation (so a normalised equation is not changed by
    being normalised again). -/
theorem normaliseWs_idempotent (s : List Char) : normaliseWs (normaliseWs s) = normaliseWs s := by
  obtain ⟨h1, h2, h3⟩ := normaliseWs_invariants s
  exact normaliseWs_fixed _ h1 h2 h3

example : normaliseWs ['(', ' ', '\n', 'a', ' ', ' ', '+', '\t', 'b', ' ', ')'] = ['(', 'a', ' ', '+', ' ', 'b', ')'] := by
  decide

/-! ## Non-vacuity (review): the hypotheses of the theorems above at concrete inputs -/

-- scan_render / layout_invariance_scan / layout_invariance_terms: h₁, h₂, h at `demo` vs `demoTight` (18 tokens, 8 terms)
example : (scanTerms (renderAll demo)).map strip = (scanTerms (renderAll demoTight)).map strip ∧
    ((scanTerms (renderAll demo)).map strip).length = 8 :=
  ⟨layout_invariance_scan demo demoTight (wfB_sound _ _ (by decide)) (wfB_sound _ _ (by decide)) (by decide), by decide⟩
example : termsOf (scanTerms (renderAll demo)) = termsOf (scanTerms (renderAll demoTight)) ∧
    (termsOf (scanTerms (renderAll demo))).isSome = true :=
  ⟨layout_invariance_terms demo demoTight (wfB_sound _ _ (by decide)) (wfB_sound _ _ (by decide)) (by decide), by decide⟩
-- termsOf_congr: its hypothesis, for the two real scans (which differ: the spans are not the same)
example : (scanTerms (renderAll demo)).map strip = (scanTerms (renderAll demoTight)).map strip ∧
    scanTerms (renderAll demo) ≠ scanTerms (renderAll demoTight) := by decide
-- explicit_zero is not the equation `none = none`: `[0]` and no index both parse to the integer 0; `[-1]` does not
example : indexOf .variable (some ['0']) = some (.int 0) ∧ indexOf .variable none = some (.int 0) ∧
    indexOf .variable (some ['-', '1']) = some (.int (-1)) := by decide
-- split_concat_lines / split_concat: `Complete` for a two-line statement, followed by a second statement
example : splitGo .init (splitLines ['Y', '=', '(', 'X', '\n', ')'] ++ [['Z', '=', '1']]) =
    ([['Y', '=', '(', 'X', '\n', ')'], ['Z', '=', '1']], .ok) := by
  have := (split_concat_lines (splitLines ['Y', '=', '(', 'X', '\n', ')']) [['Z', '=', '1']]
    (by unfold Complete; decide)).1
  rw [this]; decide
example : splitStatements (['Y', '=', '(', 'X', '\n', ')'] ++ '\n' :: ['Z', '=', '1']) =
    ((splitStatements ['Y', '=', '(', 'X', '\n', ')']).1 ++ (splitStatements ['Z', '=', '1']).1,
     (splitStatements ['Z', '=', '1']).2) :=
  split_concat _ _ ')' (by decide) (by decide) (by unfold Complete; decide)
-- split_concat_error: `h` (an indented second line is an IndentationError; what follows is not looked at)
example : endState .init (splitLines ['Y', '=', 'X', '\n', ' ', 'Z', '=', '1']) = none ∧
    splitGo .init (splitLines ['Y', '=', 'X', '\n', ' ', 'Z', '=', '1']) = ([['Y', '=', 'X']], .indentationError) := by
  decide
example : splitGo .init (splitLines ['Y', '=', 'X', '\n', ' ', 'Z', '=', '1'] ++ [['W', '=', '2']]) =
    splitGo .init (splitLines ['Y', '=', 'X', '\n', ' ', 'Z', '=', '1']) :=
  split_concat_error _ _ (by decide)
-- blank_and_comment_lines_neutral at a real statement list
example : splitGo .init ([] :: ['#', 'c'] :: [['Y', '=', 'X']]) = ([['Y', '=', 'X']], .ok) := by decide

end Fsic.C14
