import FsicModel.Lexer
