import Proofs.Lemmas.Tokens
import Proofs.Lemmas.Split
import Proofs.Lemmas.Normalise
import Proofs.Lemmas.NormalForm
set_option linter.unusedSimpArgs false
set_option linter.unusedVariables false
/-
C14 — Layout of the script does not matter; the normal form is a fixed point.   (TEXT level, model M2)

Property theorems only (helpers: `Proofs/Lemmas/{Lexer,ScanRender,Tokens,Split,Normalise}.lean`).

`scan_render` is proved IN FULL for the token grammar of `Proofs/Lemmas/Tokens.lean`:
chunks of inert characters (everything that is not an identifier start, backtick, `{` or `<`: operators, digits,
brackets, commas, whitespace, newlines), the `<` operator (boundary condition: the ERROR alternative does not
match there, e.g. because no `>` follows — `brAt_lt_none`), variables without / with an adjacent index
`[ w1 text w2 ]`, `{ w1 name w2 }` and `< w1 name w2 >` with optional index, functions `name w (` with look-ahead,
keywords (one generic lemma over the reflected `keyword.kwlist`), verbatim fragments; for EVERY choice of the
whitespace strings w, w1, w2 (any Python whitespace, newlines included).  The scanner returns exactly the tokens'
(kind, name, raw index, span), in order.  The correspondence check confirms on every run (driver kind
`wf_check`) that the statements of the generated grammar scripts, under every layout, are such token lists.
NOT covered by the token grammar (hence only by the correspondence check): a literal `{` that is not part of a
parameter term, identifiers glued to a preceding number such as `1e5`, an index text that is empty or contains `]`.
The step from scanned terms to Symbols (Symbol.combine, merge across statements) is M3 (another work package).

"The normal form is a fixed point" (re-parse round trip), on the token grammar:
  `parseBody_render`      — for every well-formed statement token list and every layout, `parse_equation` returns the
                            tokens' terms, and equation / code = the normalised template (terms → `{}`) filled with the
                            terms' standardised texts / code texts (hypotheses: decidable side conditions listed there);
  `nf_reparse`            — if the template is already normalised, the equation IS the token list with every term
                            re-spelled `name[t±k]` (`spellTok tSpell`);
  `normal_form_fixed_point` — parsing the feed-back form `spellTok fbSpell` of the equation tokens reproduces the
                            equation text, provided every index spelling is `Stable`;
  concrete round trips (equation AND code) by evaluation of `parseEquationText ∘ feedbackText`.
NOT proved (stated here, not hidden): (a) that the normalised template of an ARBITRARY well-formed `ts` is again the
template of a token list (`normaliseWs` distributes over the `{}` holes), which would remove hypothesis `hN` and derive
the side conditions of the feed-back form from those of `ts`; (b) `Stable` for every integer index: the core step
`digitsGo_natDigits` (int() reads back the digits Python prints) is proved, the wrapping through `strip`/sign is not;
(c) the general statement for the code text (only `parseBody_render`'s formula and the evaluated examples)."
-/
namespace Fsic.C14
open Fsic.Lx

/-- **scan_render**: for every well-formed token list under every layout (the whitespace fields of the tokens are
    universally quantified), scanning the rendered text yields exactly the expected matches — kind, name, raw
    index text and span of every term, function, keyword and verbatim token, in order, and nothing else. -/
theorem scan_render_go : ∀ (ts : List Tok) (pw : Bool) (pos : Nat), Wf pw ts →
    scanGo 0 pw pos (renderAll ts) = expectAll pos ts
  | [], _, _, _ => by simp [renderAll, expectAll, scanGo]
  | t :: ts, pw, pos, ⟨hw, hs, hn, hrest⟩ => by
    simp only [renderAll, expectAll]
    rw [tok_step t _ pw pos hw hs hn, scan_render_go ts _ _ hrest]

theorem scan_render (ts : List Tok) (h : Wf false ts) : scanTerms (renderAll ts) = expectAll 0 ts :=
  scan_render_go ts false 0 h

/-- `Y = { a } * H_d[ -12 ]+exp  (X) if <e> < 2 else 0` -/
def demo : List Tok :=
  [.var ['Y'] none, .chunk [' ', '=', ' '], .param [' '] ['a'] [' '] none, .chunk [' ', '*', ' '],
   .var ['H', '_', 'd'] (some ⟨[' '], ['-', '1', '2'], [' ']⟩), .chunk ['+'], .func ['e', 'x', 'p'] [' ', ' '],
   .chunk ['('], .var ['X'] none, .chunk [')', ' '], .kw ['i', 'f'], .chunk [' '], .err [] ['e'] [] none,
   .chunk [' '], .lt, .chunk [' ', '2', ' '], .kw ['e', 'l', 's', 'e'], .chunk [' ', '0']]

example : Wf false demo := wfB_sound _ _ (by decide)
example : (scanTerms (renderAll demo)).map (fun m => (m.kind, m.start, m.stop)) =
    [(.variable, 0, 1), (.parameter, 4, 9), (.variable, 12, 22), (.function, 23, 28), (.variable, 29, 30),
     (.keyword, 32, 34), (.error, 35, 38), (.keyword, 43, 47)] := by decide

/-- The layout-free content of a match. -/
def strip (m : RawMatch) : Kind × List Char × Option (List Char) := (m.kind, m.name, m.index)

def absAll (ts : List Tok) : List (Kind × List Char × Option (List Char)) := ts.filterMap Tok.abs

theorem expectAll_strip : ∀ (ts : List Tok) (pos : Nat), (expectAll pos ts).map strip = absAll ts
  | [], _ => rfl
  | t :: ts, pos => by
    simp only [expectAll, List.map_append, expectAll_strip ts, absAll, List.filterMap_cons]
    cases h : t.abs with
    | none => simp [Tok.expect, h]
    | some a => obtain ⟨k, n, ix⟩ := a; simp [Tok.expect, h, strip]

/-- **layout_invariance (scanner level)**: two layouts of the same tokens — any whitespace inside braces, angle
    brackets, index brackets, before a call parenthesis, and any inert chunks (spaces, newlines, parentheses,
    operators) between the terms — scan to the same sequence of (kind, name, raw index). -/
theorem layout_invariance_scan (ts₁ ts₂ : List Tok) (h₁ : Wf false ts₁) (h₂ : Wf false ts₂)
    (h : absAll ts₁ = absAll ts₂) :
    (scanTerms (renderAll ts₁)).map strip = (scanTerms (renderAll ts₂)).map strip := by
  rw [scan_render ts₁ h₁, scan_render ts₂ h₂, expectAll_strip, expectAll_strip, h]

/-- `parse_terms` only looks at the layout-free content of the matches … -/
theorem termsOf_congr : ∀ (ms₁ ms₂ : List RawMatch), ms₁.map strip = ms₂.map strip → termsOf ms₁ = termsOf ms₂
  | [], [], _ => rfl
  | [], _ :: _, h => by simp at h
  | _ :: _, [], h => by simp at h
  | a :: as, b :: bs, h => by
    simp only [List.map_cons, List.cons.injEq, strip, Prod.mk.injEq] at h
    obtain ⟨⟨hk, hn, hi⟩, ht⟩ := h
    simp only [termsOf, hk, hn, hi, termsOf_congr as bs ht]

/-- … so the terms (kind, name, parsed index = lag/lead contribution) do not depend on the layout. -/
theorem layout_invariance_terms (ts₁ ts₂ : List Tok) (h₁ : Wf false ts₁) (h₂ : Wf false ts₂)
    (h : absAll ts₁ = absAll ts₂) :
    termsOf (scanTerms (renderAll ts₁)) = termsOf (scanTerms (renderAll ts₂)) :=
  termsOf_congr _ _ (layout_invariance_scan ts₁ ts₂ h₁ h₂ h)

/-- `Y={a}*H_d[-12]+exp(X) if <e> < 2 else 0` vs the spread-out `demo`: same tokens, different layout. -/
def demoTight : List Tok :=
  [.var ['Y'] none, .chunk ['='], .param [] ['a'] [] none, .chunk ['*'],
   .var ['H', '_', 'd'] (some ⟨[], ['-', '1', '2'], []⟩), .chunk ['+'], .func ['e', 'x', 'p'] [],
   .chunk ['('], .var ['X'] none, .chunk [')', '\n', ' '], .kw ['i', 'f'], .chunk ['\t'], .err [' '] ['e'] ['\n'] none,
   .chunk [' '], .lt, .chunk ['2', ' '], .kw ['e', 'l', 's', 'e'], .chunk [' ', '0']]

example : Wf false demoTight ∧ absAll demo = absAll demoTight ∧ renderAll demo ≠ renderAll demoTight :=
  ⟨wfB_sound _ _ (by decide), by decide, by decide⟩

/-- An explicit `[0]` denotes the same term as no index (inner whitespace never reaches the raw index text:
    `scan_render` reports `text`, not `w1 text w2`). -/
theorem explicit_zero (k : Kind) : indexOf k (some ['0']) = indexOf k none := by
  cases k <;> decide

/-! ## Statements are assembled independently -/

/-- A list of lines is *complete* when the line-buffer automaton is back in its initial state after it
    (all parentheses closed, no fence open, nothing buffered, no error). -/
def Complete (l : List (List Char)) : Prop := endState .init l = some .init

/-- **split_concat** (lines): after a complete part the automaton is in its initial state, so the statements of
    `l₁ ++ l₂` are those of `l₁` followed by those of `l₂`, and the outcome is that of `l₂`. -/
theorem split_concat_lines (l₁ l₂ : List (List Char)) (h : Complete l₁) :
    splitGo .init (l₁ ++ l₂) = ((splitGo .init l₁).1 ++ (splitGo .init l₂).1, (splitGo .init l₂).2) ∧
    (splitGo .init l₁).2 = .ok :=
  ⟨splitGo_append l₁ l₂ .init .init h, splitGo_end_init l₁ .init h⟩

/-- An error in the first part is final: nothing after it is looked at. -/
theorem split_concat_error (l₁ l₂ : List (List Char)) (h : endState .init l₁ = none) :
    splitGo .init (l₁ ++ l₂) = splitGo .init l₁ := splitGo_stop l₁ l₂ .init h

/-- **split_concat** (text): `splitStatements (s₁ ++ "\n" ++ s₂) = splitStatements s₁ ++ splitStatements s₂`
    for a complete `s₁` that does not end in a line-break character. -/
theorem split_concat (s₁ s₂ : List Char) (c : Char) (hl : s₁.getLast? = some c) (hc : isLineBreak c = false)
    (h : Complete (splitLines s₁)) :
    splitStatements (s₁ ++ '\n' :: s₂) =
      ((splitStatements s₁).1 ++ (splitStatements s₂).1, (splitStatements s₂).2) := by
  unfold splitStatements
  rw [splitLines_append_nl s₁ s₂ c hl hc]
  exact (split_concat_lines _ _ h).1

example : Complete (splitLines ['Y', '=', '(', 'X', '\n', ')']) := by unfold Complete; decide
example : ¬ Complete (splitLines ['Y', '=', '(', 'X']) := by unfold Complete; decide

/-- Blank lines and comment-only lines between statements change nothing. -/
theorem blank_and_comment_lines_neutral (cs : List Char) (l : List (List Char)) :
    splitGo .init ([] :: l) = splitGo .init l ∧ splitGo .init (('#' :: cs) :: l) = splitGo .init l :=
  ⟨blank_line_neutral l, comment_line_neutral cs l⟩

/-! ## Whitespace normalisation -/

/-- The normalised template is a fixed point of the normalisation (so a normalised equation is not changed by
    being normalised again). -/
theorem normaliseWs_idempotent (s : List Char) : normaliseWs (normaliseWs s) = normaliseWs s := by
  obtain ⟨h1, h2, h3⟩ := normaliseWs_invariants s
  exact normaliseWs_fixed _ h1 h2 h3

example : normaliseWs ['(', ' ', '\n', 'a', ' ', ' ', '+', '\t', 'b', ' ', ')'] = ['(', 'a', ' ', '+', ' ', 'b', ')'] := by
  decide

/-! ## Non-vacuity (review): the hypotheses of the theorems above at concrete inputs -/

-- scan_render / layout_invariance_scan / layout_invariance_terms: h₁, h₂, h at `demo` vs `demoTight` (18 tokens, 8 terms)
example : (scanTerms (renderAll demo)).map strip = (scanTerms (renderAll demoTight)).map strip ∧
    ((scanTerms (renderAll demo)).map strip).length = 8 :=
  ⟨layout_invariance_scan demo demoTight (wfB_sound _ _ (by decide)) (wfB_sound _ _ (by decide)) (by decide), by decide⟩
example : termsOf (scanTerms (renderAll demo)) = termsOf (scanTerms (renderAll demoTight)) ∧
    (termsOf (scanTerms (renderAll demo))).isSome = true :=
  ⟨layout_invariance_terms demo demoTight (wfB_sound _ _ (by decide)) (wfB_sound _ _ (by decide)) (by decide), by decide⟩
-- termsOf_congr: its hypothesis, for the two real scans (which differ: the spans are not the same)
example : (scanTerms (renderAll demo)).map strip = (scanTerms (renderAll demoTight)).map strip ∧
    scanTerms (renderAll demo) ≠ scanTerms (renderAll demoTight) := by decide
-- explicit_zero is not the equation `none = none`: `[0]` and no index both parse to the integer 0; `[-1]` does not
example : indexOf .variable (some ['0']) = some (.int 0) ∧ indexOf .variable none = some (.int 0) ∧
    indexOf .variable (some ['-', '1']) = some (.int (-1)) := by decide
-- split_concat_lines / split_concat: `Complete` for a two-line statement, followed by a second statement
example : splitGo .init (splitLines ['Y', '=', '(', 'X', '\n', ')'] ++ [['Z', '=', '1']]) =
    ([['Y', '=', '(', 'X', '\n', ')'], ['Z', '=', '1']], .ok) := by
  have := (split_concat_lines (splitLines ['Y', '=', '(', 'X', '\n', ')']) [['Z', '=', '1']]
    (by unfold Complete; decide)).1
  rw [this]; decide
example : splitStatements (['Y', '=', '(', 'X', '\n', ')'] ++ '\n' :: ['Z', '=', '1']) =
    ((splitStatements ['Y', '=', '(', 'X', '\n', ')']).1 ++ (splitStatements ['Z', '=', '1']).1,
     (splitStatements ['Z', '=', '1']).2) :=
  split_concat _ _ ')' (by decide) (by decide) (by unfold Complete; decide)
-- split_concat_error: `h` (an indented second line is an IndentationError; what follows is not looked at)
example : endState .init (splitLines ['Y', '=', 'X', '\n', ' ', 'Z', '=', '1']) = none ∧
    splitGo .init (splitLines ['Y', '=', 'X', '\n', ' ', 'Z', '=', '1']) = ([['Y', '=', 'X']], .indentationError) := by
  decide
example : splitGo .init (splitLines ['Y', '=', 'X', '\n', ' ', 'Z', '=', '1'] ++ [['W', '=', '2']]) =
    splitGo .init (splitLines ['Y', '=', 'X', '\n', ' ', 'Z', '=', '1']) :=
  split_concat_error _ _ (by decide)
-- blank_and_comment_lines_neutral at a real statement list
example : splitGo .init ([] :: ['#', 'c'] :: [['Y', '=', 'X']]) = ([['Y', '=', 'X']], .ok) := by decide

/-! ## The normal form is a fixed point (re-parse round trip on the token grammar) -/

/-- A statement as a token list split at its first `=`: left tokens, a chunk `a = b`, right tokens. -/
def stmtToks (L R : List Tok) (a b : List Char) : List Tok := L ++ [.chunk (a ++ '=' :: b)] ++ R

/-- **parseBody_render**: `parse_equation` on the rendered text of a well-formed statement, for every layout:
    the terms are those of the tokens, the equation and the code are the normalised template (every term token
    replaced by `{}`) filled with the terms' standardised texts resp. code texts, in order.
    Hypotheses (each decidable on a concrete token list): the whole statement and its two sides are well-formed
    (`Wf`, checkable with `wfB`), the first `=` is the one in the middle chunk, the statement is not a fenced block,
    braces are balanced and occur only inside parameter terms, every index parses (`termsOf … = some _`), no keyword
    on the left, and the symbol stage of M2 accepts (`symbolStage = none`: one endogenous variable, no clash). -/
theorem parseBody_render (L R : List Tok) (a b : List Char) (lt rt : List Term)
    (hW : Wf false (stmtToks L R a b)) (hWl : Wf false (L ++ [.chunk a])) (hWr : Wf false (.chunk b :: R))
    (hEq : ∀ c ∈ renderAll (L ++ [.chunk a]), c ≠ '=')
    (hV : (startsWith ['`'] (renderAll (stmtToks L R a b)) && endsWith ['`'] (renderAll (stmtToks L R a b))) = false)
    (hB : braceNet 0 (renderAll (stmtToks L R a b)) = 0)
    (hO : ∀ c ∈ outsideAll (stmtToks L R a b), isBrace c = false)
    (hl : termsOf (expectAll 0 (L ++ [.chunk a])) = some lt) (hr : termsOf (expectAll 0 (.chunk b :: R)) = some rt)
    (hK : (hasKind .keyword lt || hasKind .invalid rt) = false) (hS : symbolStage lt rt = none) :
    parseBody (renderAll (stmtToks L R a b)) =
      .parsed lt rt
        (.ok (renderP (fmtPieces none (normaliseWs (holesAll (stmtToks L R a b)))) ((lt ++ rt).map termStr)))
        (.ok (renderP (fmtPieces none (normaliseWs (holesAll (stmtToks L R a b)))) ((lt ++ rt).map termCode))) ∧
    termsOf (expectAll 0 (stmtToks L R a b)) = some (lt ++ rt) := by
  have hwf := hW.all_wf
  have hscan : scanTerms (renderAll (stmtToks L R a b)) = expectAll 0 (stmtToks L R a b) := scan_render _ hW
  have hout : outside (renderAll (stmtToks L R a b)) = outsideAll (stmtToks L R a b) := by
    have := outsideGo_toks (stmtToks L R a b) 0 [] [] hwf (by simp)
    simp only [List.append_nil, Nat.zero_add] at this
    unfold outside; rw [hscan, this]; simp [outsideGo]
  have htem : template (renderAll (stmtToks L R a b)) = holesAll (stmtToks L R a b) := by
    have := templateGo_toks (stmtToks L R a b) 0 [] [] hwf (by simp)
    simp only [List.append_nil, Nat.zero_add] at this
    unfold template; rw [hscan, this]
    cases h : (renderAll (stmtToks L R a b)).length <;> simp [templateGo]
  have hsplit : renderAll (stmtToks L R a b) = renderAll (L ++ [.chunk a]) ++ '=' :: renderAll (.chunk b :: R) := by
    simp [stmtToks, renderAll_append, renderAll, Tok.render]
  have hsp : splitAtEq (renderAll (stmtToks L R a b)) = some (renderAll (L ++ [.chunk a]), renderAll (.chunk b :: R)) := by
    rw [hsplit]; exact splitAtEq_append _ _ hEq
  have hall : termsOf (expectAll 0 (stmtToks L R a b)) = some (lt ++ rt) := by
    rw [termsOf_congr' (expectAll 0 (stmtToks L R a b)) (expectAll 0 (L ++ [.chunk a]) ++ expectAll 0 (.chunk b :: R))
      (by simp [expectAll_abs, stmtToks, List.filterMap_append, List.filterMap_cons, Tok.abs])]
    exact termsOf_append _ _ lt rt hl hr
  have hlen : (lt ++ rt).length = (scanTerms (renderAll (stmtToks L R a b))).length := by
    rw [hscan]; exact termsOf_length _ _ hall
  have hbr : (outside (renderAll (stmtToks L R a b))).any isBrace = false := by
    rw [hout]
    cases hh : (outsideAll (stmtToks L R a b)).any isBrace with
    | false => rfl
    | true =>
      obtain ⟨c, hc, hcb⟩ := List.any_eq_true.mp hh
      rw [hO c hc] at hcb; cases hcb
  have het : equationTerms (renderAll (stmtToks L R a b)) = .ok (lt, rt) := by
    unfold equationTerms
    rw [hsp]
    simp only [scan_render _ hWl, scan_render _ hWr, hl, hr, hK]
    simp
  have hf1 := pyFormat_template _ ((lt ++ rt).map termStr) hbr (by simpa using hlen)
  have hf2 := pyFormat_template _ ((lt ++ rt).map termCode) hbr (by simpa using hlen)
  rw [htem] at hf1 hf2
  refine ⟨?_, hall⟩
  unfold parseBody
  rw [hV]
  simp only [Bool.false_eq_true, if_false, hB, bne_self_eq_false, hbr, het]
  simp only [hlen, bne_self_eq_false, Bool.false_eq_true, if_false]
  unfold finishEq
  rw [htem, hf1, hf2, hS]

/-- **nf_reparse** (what the parser emits for a statement whose template is already normalised): the equation is the
    token list itself with every term re-spelled `name[t]`, `name[t+k]`, `name[t-k]`, `name['period']` (parameters
    and errors lose their brackets, functions the blank before `(`), nothing else changes. -/
theorem nf_reparse (L R : List Tok) (a b : List Char) (lt rt : List Term)
    (hW : Wf false (stmtToks L R a b)) (hWl : Wf false (L ++ [.chunk a])) (hWr : Wf false (.chunk b :: R))
    (hEq : ∀ c ∈ renderAll (L ++ [.chunk a]), c ≠ '=')
    (hV : (startsWith ['`'] (renderAll (stmtToks L R a b)) && endsWith ['`'] (renderAll (stmtToks L R a b))) = false)
    (hB : braceNet 0 (renderAll (stmtToks L R a b)) = 0)
    (hO : ∀ c ∈ outsideAll (stmtToks L R a b), isBrace c = false)
    (hl : termsOf (expectAll 0 (L ++ [.chunk a])) = some lt) (hr : termsOf (expectAll 0 (.chunk b :: R)) = some rt)
    (hK : (hasKind .keyword lt || hasKind .invalid rt) = false) (hS : symbolStage lt rt = none)
    (hN : normaliseWs (holesAll (stmtToks L R a b)) = holesAll (stmtToks L R a b)) :
    ∃ code, parseBody (renderAll (stmtToks L R a b)) =
      .parsed lt rt (.ok (renderAll ((stmtToks L R a b).map (spellTok tSpell)))) (.ok code) := by
  obtain ⟨h, hall⟩ := parseBody_render L R a b lt rt hW hWl hWr hEq hV hB hO hl hr hK hS
  refine ⟨renderP (fmtPieces none (holesAll (stmtToks L R a b))) ((lt ++ rt).map termCode), ?_⟩
  rw [h, hN, renderP_holes _ _ hO, fill_eq _ 0 _ hall]

/-- The index spelling of a token survives the documented feed-back substitution: re-spelling its feed-back form
    (`[0]`, `[+k]`, `[-k]`) in the `t±k` form gives the same as re-spelling the token itself.  (True for every
    integer index whose feed-back spelling `int()` reads back — `stable_var` below — and for quoted periods; false
    for backticked periods, which the property excludes.) -/
def Stable (t : Tok) : Prop := spellTok tSpell (spellTok fbSpell t) = spellTok tSpell t

theorem stmtToks_map (f : Tok → Tok) (hf : ∀ cs, f (.chunk cs) = .chunk cs) (L R : List Tok) (a b : List Char) :
    (stmtToks L R a b).map f = stmtToks (L.map f) (R.map f) a b := by
  simp [stmtToks, hf]

/-- **normal_form_fixed_point** (clause "feeding a symbol's normalised equation back reproduces it", on the token
    grammar): let `E = ts.map (spellTok tSpell)` be the equation tokens of a statement `ts` (what `nf_reparse` shows
    the parser emits) and `F = ts.map (spellTok fbSpell)` its feed-back form (`[t] → [0]`, `[t+k] → [+k]`,
    `[t-k] → [-k]`).  If `F` meets the hypotheses of `nf_reparse` and every index spelling is `Stable`, parsing the
    text of `F` yields exactly the text of `E` again as its equation. -/
theorem normal_form_fixed_point (L R : List Tok) (a b : List Char) (lt rt : List Term)
    (hSt : ∀ t ∈ stmtToks L R a b, Stable t)
    (hW : Wf false (stmtToks (L.map (spellTok fbSpell)) (R.map (spellTok fbSpell)) a b))
    (hWl : Wf false (L.map (spellTok fbSpell) ++ [.chunk a])) (hWr : Wf false (.chunk b :: R.map (spellTok fbSpell)))
    (hEq : ∀ c ∈ renderAll (L.map (spellTok fbSpell) ++ [.chunk a]), c ≠ '=')
    (hV : (startsWith ['`'] (renderAll (stmtToks (L.map (spellTok fbSpell)) (R.map (spellTok fbSpell)) a b)) &&
           endsWith ['`'] (renderAll (stmtToks (L.map (spellTok fbSpell)) (R.map (spellTok fbSpell)) a b))) = false)
    (hB : braceNet 0 (renderAll (stmtToks (L.map (spellTok fbSpell)) (R.map (spellTok fbSpell)) a b)) = 0)
    (hO : ∀ c ∈ outsideAll (stmtToks (L.map (spellTok fbSpell)) (R.map (spellTok fbSpell)) a b), isBrace c = false)
    (hl : termsOf (expectAll 0 (L.map (spellTok fbSpell) ++ [.chunk a])) = some lt)
    (hr : termsOf (expectAll 0 (.chunk b :: R.map (spellTok fbSpell))) = some rt)
    (hK : (hasKind .keyword lt || hasKind .invalid rt) = false) (hS : symbolStage lt rt = none)
    (hN : normaliseWs (holesAll (stmtToks (L.map (spellTok fbSpell)) (R.map (spellTok fbSpell)) a b)) =
          holesAll (stmtToks (L.map (spellTok fbSpell)) (R.map (spellTok fbSpell)) a b)) :
    ∃ code, parseBody (renderAll ((stmtToks L R a b).map (spellTok fbSpell))) =
      .parsed lt rt (.ok (renderAll ((stmtToks L R a b).map (spellTok tSpell)))) (.ok code) := by
  obtain ⟨code, h⟩ := nf_reparse _ _ a b lt rt hW hWl hWr hEq hV hB hO hl hr hK hS hN
  refine ⟨code, ?_⟩
  rw [stmtToks_map (spellTok fbSpell) (fun _ => rfl), h]
  congr 2
  rw [← stmtToks_map (spellTok fbSpell) (fun _ => rfl), List.map_map]
  congr 1
  apply List.map_congr_left
  intro t ht
  exact hSt t ht

theorem respell_hole (sp : Int → List Char) (kind : Kind) (n : List Char) (ix : Option IdxR) :
    (respell sp kind n ix).hole = ['{', '}'] := by
  unfold respell
  split <;> simp [Tok.hole, Tok.abs]

/-- The template of the feed-back form is the template of the statement (terms are `{}` either way). -/
theorem holes_spell (sp : Int → List Char) : ∀ ts : List Tok, holesAll (ts.map (spellTok sp)) = holesAll ts
  | [] => rfl
  | t :: ts => by
    simp only [List.map_cons, holesAll, holes_spell sp ts]
    congr 1
    cases t with
    | var n ix => simp [spellTok, respell_hole]; simp [Tok.hole, Tok.abs]
    | param w1 n w2 ix => simp [spellTok, respell_hole]; simp [Tok.hole, Tok.abs]
    | err w1 n w2 ix => simp [spellTok, respell_hole]; simp [Tok.hole, Tok.abs]
    | func n w => simp [spellTok, Tok.hole, Tok.abs]
    | chunk cs => rfl
    | lt => rfl
    | kw k => rfl
    | verb c1 body => rfl

/-! ### Concrete round trips at the level of `parseEquationText` (text in, text out), by evaluation -/

/-- `Y = {a} * H_d[ -12 ]+exp  (X[1]) - < e > / Z` (parameter, error, function with blanks, lag, lead, spaces in brackets):
    the equation is `Y[t] = a[t] * H_d[t-12]+exp(X[t+1]) - e[t] / Z[t]`, and parsing its feed-back form reproduces equation and code. -/
example : (eqCode (parseEquationText ['Y', ' ', '=', ' ', '{', 'a', '}', ' ', '*', ' ', 'H', '_', 'd', '[', ' ', '-', '1', '2', ' ', ']', '+', 'e', 'x', 'p', ' ', ' ', '(', 'X', '[', '1', ']', ')', ' ', '-', ' ', '<', ' ', 'e', ' ', '>', ' ', '/', ' ', 'Z'])).map (·.1) = some ['Y', '[', 't', ']', ' ', '=', ' ', 'a', '[', 't', ']', ' ', '*', ' ', 'H', '_', 'd', '[', 't', '-', '1', '2', ']', '+', 'e', 'x', 'p', '(', 'X', '[', 't', '+', '1', ']', ')', ' ', '-', ' ', 'e', '[', 't', ']', ' ', '/', ' ', 'Z', '[', 't', ']'] ∧
    roundTrips ['Y', ' ', '=', ' ', '{', 'a', '}', ' ', '*', ' ', 'H', '_', 'd', '[', ' ', '-', '1', '2', ' ', ']', '+', 'e', 'x', 'p', ' ', ' ', '(', 'X', '[', '1', ']', ')', ' ', '-', ' ', '<', ' ', 'e', ' ', '>', ' ', '/', ' ', 'Z'] = true := by decide

/-- `Y = `len(self.span)` * X[-1] + max(Z, 0)` (a verbatim fragment, a replaced function, a lag). -/
example : (eqCode (parseEquationText ['Y', ' ', '=', ' ', '`', 'l', 'e', 'n', '(', 's', 'e', 'l', 'f', '.', 's', 'p', 'a', 'n', ')', '`', ' ', '*', ' ', 'X', '[', '-', '1', ']', ' ', '+', ' ', 'm', 'a', 'x', '(', 'Z', ',', ' ', '0', ')'])).map (·.1) = some ['Y', '[', 't', ']', ' ', '=', ' ', '`', 'l', 'e', 'n', '(', 's', 'e', 'l', 'f', '.', 's', 'p', 'a', 'n', ')', '`', ' ', '*', ' ', 'X', '[', 't', '-', '1', ']', ' ', '+', ' ', 'm', 'a', 'x', '(', 'Z', '[', 't', ']', ',', ' ', '0', ')'] ∧
    roundTrips ['Y', ' ', '=', ' ', '`', 'l', 'e', 'n', '(', 's', 'e', 'l', 'f', '.', 's', 'p', 'a', 'n', ')', '`', ' ', '*', ' ', 'X', '[', '-', '1', ']', ' ', '+', ' ', 'm', 'a', 'x', '(', 'Z', ',', ' ', '0', ')'] = true := by decide

/-- The excluded case: a backticked period index is not stable (`X[`2000`]` is emitted as `X[2000]`, which reads back
    as a lead of 2000). -/
example : roundTrips ['Y', ' ', '=', ' ', 'X', '[', '`', '2', '0', '0', '0', '`', ']'] = false := by decide

/-! ### The token-level theorems are not vacuous: `Y = { a } * X[ -1 ] + f  (Z)` -/

def nfL : List Tok := [.var ['Y'] none]
def nfR : List Tok := [.param [' '] ['a'] [' '] none, .chunk [' ', '*', ' '], .var ['X'] (some ⟨[' '], ['-', '1'], [' ']⟩),
                       .chunk [' ', '+', ' '], .func ['f'] [' ', ' '], .chunk ['('], .var ['Z'] none, .chunk [')']]
def nfLt : List Term := (termsOf (expectAll 0 (nfL.map (spellTok fbSpell) ++ [.chunk [' ']]))).getD []
def nfRt : List Term := (termsOf (expectAll 0 (.chunk [' '] :: nfR.map (spellTok fbSpell)))).getD []

instance (t : Tok) : Decidable (Stable t) := by unfold Stable; infer_instance

/-- every hypothesis of `normal_form_fixed_point` holds for this statement … -/
example : ∃ code, parseBody (renderAll ((stmtToks nfL nfR [' '] [' ']).map (spellTok fbSpell))) =
    .parsed nfLt nfRt (.ok (renderAll ((stmtToks nfL nfR [' '] [' ']).map (spellTok tSpell)))) (.ok code) :=
  normal_form_fixed_point nfL nfR [' '] [' '] nfLt nfRt (by decide) (wfB_sound _ _ (by decide)) (wfB_sound _ _ (by decide))
    (wfB_sound _ _ (by decide)) (by decide) (by decide) (by decide) (by decide) (by decide) (by decide) (by decide)
    (by decide) (by decide)

/-- … and the texts are what one expects: feed-back form `Y[0] = a[0] * X[-1] + f(Z[0])`, equation
    `Y[t] = a[t] * X[t-1] + f(Z[t])`. -/
example : renderAll ((stmtToks nfL nfR [' '] [' ']).map (spellTok fbSpell)) =
      ['Y', '[', '0', ']', ' ', '=', ' ', 'a', '[', '0', ']', ' ', '*', ' ', 'X', '[', '-', '1', ']', ' ', '+', ' ', 'f', '(',
       'Z', '[', '0', ']', ')'] ∧
    renderAll ((stmtToks nfL nfR [' '] [' ']).map (spellTok tSpell)) =
      ['Y', '[', 't', ']', ' ', '=', ' ', 'a', '[', 't', ']', ' ', '*', ' ', 'X', '[', 't', '-', '1', ']', ' ', '+', ' ', 'f',
       '(', 'Z', '[', 't', ']', ')'] := by decide

end Fsic.C14
