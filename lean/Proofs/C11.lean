import Proofs.Lemmas.HeapSucc
/-
C11 — Copies and sibling instances share no mutable state.

Property theorems only (helpers: `Proofs/Lemmas/Heap*.lean`), about the reference model M7 (`FsicModel/Heap.lean`):
mutable Python objects are heap locations, `copyRoot` is `copy()` = `copy.copy` = `copy.deepcopy` (the code makes
`__copy__ = copy` and `__deepcopy__` return `self.copy()`: one function, three routes), `newInst` is the `__init__`
chain, `run` applies a history of in-place mutations reached from one root.

All statements are for every heap, every class table, every history length.

History: before /repo commits b2c7af0 and cba9d09 the instance attributes `endogenous` / `check` were the
class-level lists themselves and `Trace.names` was the class-level `TRACE_VARIABLES` list, so the sibling /
instance-vs-class statements below were false of the code (`m.check.append('X')` changed `Model.CHECK`,
`Model.ENDOGENOUS` and every sibling) and `trace_t` was not a local step.  The model follows the code as it is now:
the constructors store `list(self.ENDOGENOUS)` / `list(self.CHECK)` and `trace_t` stores `list(names)`.
-/
set_option linter.unusedSimpArgs false
set_option linter.unusedVariables false
namespace Fsic.C11
open Fsic.Heap

/-! ## A concrete world for the non-vacuity examples

A parser-built model class (`CHECK is ENDOGENOUS`: both attributes are location 0) with tracer mixin, two sibling
instances over `range(2)`, one traced period, and a copy. -/

def exHeap : Heap :=
  [strList ["Y", "C"], strList ["Y", "C", "G"],
   ⟨.cls, [("ENDOGENOUS", .ref 0), ("CHECK", .ref 0), ("NAMES", .ref 1), ("TRACE_VARIABLES", .imm .none)]⟩]
def exCls : ClassDesc := ⟨.model, false, true, 2⟩
def exA := newInst 0 exCls exHeap (.imm (.range 2)) (.imm .none)
def exB := newInst 0 exCls exA.1 (.imm (.range 2)) (.imm .none)
/-- `a.trace_t(1, 'start', trace=True)` then `a.add_variable('Q', 0.0)`. -/
def exHist : List Step :=
  opSteps (.traceT 1 .own true (.str "start") 3) ++ opSteps (.addVariable "Q" 2 true)
def exH : Heap := run exB.1 exA.2 exHist

/-! ## Copies -/

/-- **copy_fresh.**  After `c = a.copy()` (any of the three routes) no mutable object is reachable from both `a`
    and `c`; the heap `a` lives in is untouched (only new objects were allocated). -/
theorem copy_fresh {cs : List ClassDesc} {h h1 : Heap} {a c : Nat} (W : WorldOK cs h)
    (ha : a < h.length) (hc : copyRoot cs h a = some (h1, c)) :
    Disjoint h1 a c ∧ (∀ x, x < h.length → h1[x]? = h[x]?) ∧ WF h1 ∧ a < h1.length ∧ c < h1.length := by
  obtain ⟨e, wf1, hc1, fresh⟩ := copyRoot_new W ha hc
  refine ⟨?_, fun x hx => e.get hx, wf1, by have := e.len; omega, hc1⟩
  intro x ra rc
  have := reach_lt W.wf ha ((reach_ext_iff W.wf e ha x).mp ra)
  have := fresh x rc
  omega

/-- **copy_observationally_equal.**  The copy is bisimilar to the original: same kind of object, same keys, equal
    immutable values, and (recursively) bisimilar referents — i.e. equal up to object identity. -/
theorem copy_observationally_equal {cs : List ClassDesc} {h h1 : Heap} {a c : Nat}
    (W : WorldOK2 cs h) (ha : a < h.length) (hc : copyRoot cs h a = some (h1, c)) : ObsEq h1 a c :=
  copyRoot_obsEq W ha hc

/-- The copy has the same class as the original. -/
theorem copy_same_class {cs : List ClassDesc} {h h1 : Heap} {a c : Nat}
    (W : WorldOK2 cs h) (ha : a < h.length) (hc : copyRoot cs h a = some (h1, c)) :
    ∃ o o', h1[a]? = some o ∧ h1[c]? = some o' ∧ o.kind = o'.kind := by
  obtain ⟨R, hR, hac⟩ := copyRoot_obsEq W ha hc
  obtain ⟨o, o', h1', h2, h3, _⟩ := hR a c hac
  exact ⟨o, o', h1', h2, h3⟩

-- the hypotheses hold of the example world, and the copy exists
example : WorldOK2 [exCls] exH := worldOK2_of_check (by decide)
example : exA.2 < exH.length := by decide
example : (copyRoot [exCls] exH exA.2).isSome = true := by decide

/-! ## Frame: disjoint roots do not observe each other -/

/-- **disjoint_frame.**  If two roots have disjoint mutable reach, then after *any* history of mutations
    through the first, every object reachable from the second is unchanged, so is what is reachable from it, every
    observation (`view`, to any depth) and its sharing graph (`paths`); and the two roots are still disjoint. -/
theorem disjoint_frame {h : Heap} {r1 r2 : Nat} (wf : WF h) (h1 : r1 < h.length) (h2 : r2 < h.length)
    (dj : Disjoint h r1 r2) (steps : List Step) :
    (∀ x, Reach h r2 x → (run h r1 steps)[x]? = h[x]?) ∧
    (∀ x, Reach (run h r1 steps) r2 x ↔ Reach h r2 x) ∧
    (∀ n, view (run h r1 steps) n (.ref r2) = view h n (.ref r2)) ∧
    (∀ n p, paths (run h r1 steps) n p (.ref r2) = paths h n p (.ref r2)) ∧
    Disjoint (run h r1 steps) r1 r2 ∧ WF (run h r1 steps) := by
  have F := framed_run steps h wf h1 h2 dj
  exact ⟨F.same, fun x => ⟨reach_of_same' F.same, reach_of_same F.same⟩,
    fun n => view_of_same n r2 F.same, fun n p => paths_of_same n p r2 F.same, F.disj, F.wf⟩

theorem disjoint_symm {h : Heap} {a b : Nat} (d : Disjoint h a b) : Disjoint h b a := fun x rb ra => d x ra rb

/-- A history of public operations is a history of steps. -/
def runOps (h : Heap) (root : Nat) : List Op → Heap
  | [] => h
  | op :: ops => runOps (applyOp h root op) root ops

theorem run_append (h : Heap) (r : Nat) : ∀ (s1 s2 : List Step), run h r (s1 ++ s2) = run (run h r s1) r s2 := by
  intro s1
  induction s1 generalizing h with
  | nil => intro s2; rfl
  | cons s ss ih => intro s2; simp only [List.cons_append, run]; exact ih _ s2

theorem runOps_eq_run (r : Nat) : ∀ (ops : List Op) (h : Heap), runOps h r ops = run h r (ops.flatMap opSteps) := by
  intro ops
  induction ops with
  | nil => intro h; rfl
  | cons op ops ih =>
    intro h
    simp only [runOps, List.flatMap_cons, run_append, applyOp]
    exact ih _

/-- The frame property for histories of the public mutating operations (values, `add_variable`, `add_attribute`,
    list mutations, aliases, lags / leads, traces — with any source of the trace names —, the same through nested
    submodels). -/
theorem disjoint_frame_ops {h : Heap} {r1 r2 : Nat} (wf : WF h) (h1 : r1 < h.length) (h2 : r2 < h.length)
    (dj : Disjoint h r1 r2) (ops : List Op) :
    (∀ n, view (runOps h r1 ops) n (.ref r2) = view h n (.ref r2)) ∧
    (∀ n p, paths (runOps h r1 ops) n p (.ref r2) = paths h n p (.ref r2)) ∧
    Disjoint (runOps h r1 ops) r1 r2 := by
  rw [runOps_eq_run]
  have F := disjoint_frame wf h1 h2 dj (ops.flatMap opSteps)
  exact ⟨F.2.2.1, F.2.2.2.1, F.2.2.2.2.1⟩

/-- **Independence of a copy**, both directions: whatever is done to the copy afterwards is invisible through the
    original, and whatever is done to the original is invisible through the copy. -/
theorem copy_independent {cs : List ClassDesc} {h h1 : Heap} {a c : Nat} (W : WorldOK cs h)
    (ha : a < h.length) (hc : copyRoot cs h a = some (h1, c)) (steps : List Step) :
    (∀ n, view (run h1 c steps) n (.ref a) = view h1 n (.ref a)) ∧
    (∀ n, view (run h1 a steps) n (.ref c) = view h1 n (.ref c)) := by
  obtain ⟨dj, _, wf1, ha1, hc1⟩ := copy_fresh W ha hc
  exact ⟨(disjoint_frame wf1 hc1 ha1 (disjoint_symm dj) steps).2.2.1,
    (disjoint_frame wf1 ha1 hc1 dj steps).2.2.1⟩

-- non-vacuity: the example history changes what is seen through `a`
example : view exH 2 (.ref exA.2) ≠ view exB.1 2 (.ref exA.2) := by decide

/-! ## Interleaved histories with re-synchronisation

After a copy (or between siblings) the two sides may be mutated in any interleaving, and a step through one side may
*read* the other side — `dup.Y = orig.Y`, `dup['Y'] = orig['Y']`, `dup.replace_values(Y=orig.Y)`,
`dup.values = orig.values`, `dup.Y = orig.Y[:]`, `dup.Y = list(orig.Y)` (`Op.assignFrom`: element values are copied
into the existing array, or a new array is built from them; the passed array itself is never stored).  Disjointness
of the two reaches is an invariant of every such history, so at every point a further step through one side is
invisible through the other. -/

/-- `(true, s)`: step `s` through `r1`; `(false, s)`: through `r2`. -/
def runBoth (h : Heap) (r1 r2 : Nat) : List (Bool × Step) → Heap
  | [] => h
  | (true, s) :: rest => runBoth (applyStep h r1 s) r1 r2 rest
  | (false, s) :: rest => runBoth (applyStep h r2 s) r1 r2 rest

/-- **interleaved_disjoint.**  "No shared cell between the two objects" is preserved by every interleaved history,
    cross-assignments included. -/
theorem interleaved_disjoint {r1 r2 : Nat} : ∀ (hist : List (Bool × Step)) (h : Heap), WF h → r1 < h.length →
    r2 < h.length → Disjoint h r1 r2 →
    WF (runBoth h r1 r2 hist) ∧ h.length ≤ (runBoth h r1 r2 hist).length ∧ Disjoint (runBoth h r1 r2 hist) r1 r2 := by
  intro hist
  induction hist with
  | nil => intro h wf _ _ dj; exact ⟨wf, Nat.le_refl _, dj⟩
  | cons bs rest ih =>
    intro h wf h1 h2 dj
    obtain ⟨b, s⟩ := bs
    cases b with
    | true =>
      have F := framed_step wf h1 h2 dj s
      have := F.len
      obtain ⟨w, l, d⟩ := ih (applyStep h r1 s) F.wf (by omega) (by omega) F.disj
      exact ⟨w, by simp only [runBoth]; omega, d⟩
    | false =>
      have F := framed_step wf h2 h1 (disjoint_symm dj) s
      have := F.len
      obtain ⟨w, l, d⟩ := ih (applyStep h r2 s) F.wf (by omega) (by omega) (disjoint_symm F.disj)
      exact ⟨w, by simp only [runBoth]; omega, d⟩

/-- **interleaved_independent.**  After any interleaved history (with cross-assignments), one more step through
    either side leaves every observation through the other side unchanged. -/
theorem interleaved_independent {h : Heap} {r1 r2 : Nat} (wf : WF h) (h1 : r1 < h.length) (h2 : r2 < h.length)
    (dj : Disjoint h r1 r2) (hist : List (Bool × Step)) (s : Step) (n : Nat) :
    view (applyStep (runBoth h r1 r2 hist) r1 s) n (.ref r2) = view (runBoth h r1 r2 hist) n (.ref r2) ∧
    view (applyStep (runBoth h r1 r2 hist) r2 s) n (.ref r1) = view (runBoth h r1 r2 hist) n (.ref r1) := by
  obtain ⟨w, l, d⟩ := interleaved_disjoint hist h wf h1 h2 dj
  exact ⟨view_of_same n r2 (framed_step w (by omega) (by omega) d s).same,
    view_of_same n r1 (framed_step w (by omega) (by omega) (disjoint_symm d) s).same⟩

/-- The same for interleaved histories of public operations. -/
def runBothOps (h : Heap) (r1 r2 : Nat) : List (Bool × Op) → Heap
  | [] => h
  | (true, op) :: rest => runBothOps (applyOp h r1 op) r1 r2 rest
  | (false, op) :: rest => runBothOps (applyOp h r2 op) r1 r2 rest

theorem runBoth_append (r1 r2 : Nat) : ∀ (a b : List (Bool × Step)) (h : Heap),
    runBoth h r1 r2 (a ++ b) = runBoth (runBoth h r1 r2 a) r1 r2 b := by
  intro a
  induction a with
  | nil => intro b h; rfl
  | cons x xs ih =>
    intro b h
    obtain ⟨c, s⟩ := x
    cases c <;> simp only [List.cons_append, runBoth] <;> exact ih b _

theorem runBoth_side (r1 r2 : Nat) (c : Bool) : ∀ (steps : List Step) (h : Heap),
    runBoth h r1 r2 (steps.map fun s => (c, s)) = run h (if c then r1 else r2) steps := by
  intro steps
  induction steps with
  | nil => intro h; rfl
  | cons s ss ih => intro h; cases c <;> simp only [List.map_cons, runBoth, run] <;> exact ih _

theorem runBothOps_eq (r1 r2 : Nat) : ∀ (ops : List (Bool × Op)) (h : Heap),
    runBothOps h r1 r2 ops = runBoth h r1 r2 (ops.flatMap fun bo => (opSteps bo.2).map fun s => (bo.1, s)) := by
  intro ops
  induction ops with
  | nil => intro h; rfl
  | cons x xs ih =>
    intro h
    obtain ⟨c, op⟩ := x
    simp only [List.flatMap_cons, runBoth_append, runBoth_side]
    cases c <;> simp only [runBothOps, applyOp] <;> exact ih _

/-- **interleaved_independent_ops.**  After any interleaving of public operations on the two sides — element
    writes, rebinding, `add_variable`, list mutations, tracing, and whole-variable assignment *from the other side* —
    the two sides are still disjoint and a further operation on one side is invisible through the other. -/
theorem interleaved_independent_ops {h : Heap} {r1 r2 : Nat} (wf : WF h) (h1 : r1 < h.length) (h2 : r2 < h.length)
    (dj : Disjoint h r1 r2) (ops : List (Bool × Op)) :
    Disjoint (runBothOps h r1 r2 ops) r1 r2 ∧
    ∀ (op : Op) (n : Nat),
      view (applyOp (runBothOps h r1 r2 ops) r1 op) n (.ref r2) = view (runBothOps h r1 r2 ops) n (.ref r2) ∧
      view (applyOp (runBothOps h r1 r2 ops) r2 op) n (.ref r1) = view (runBothOps h r1 r2 ops) n (.ref r1) := by
  rw [runBothOps_eq]
  obtain ⟨w, l, d⟩ := interleaved_disjoint _ h wf h1 h2 dj
  refine ⟨d, fun op n => ⟨?_, ?_⟩⟩
  · exact (disjoint_frame w (by omega) (by omega) d (opSteps op)).2.2.1 n
  · exact (disjoint_frame w (by omega) (by omega) (disjoint_symm d) (opSteps op)).2.2.1 n

/-- **copy_resync_independent.**  The statement for a copy: after `c = a.copy()` and any interleaved history,
    including `c.Y = a.Y` in every spelling, the original and the copy still share nothing. -/
theorem copy_resync_independent {cs : List ClassDesc} {h h1 : Heap} {a c : Nat} (W : WorldOK cs h)
    (ha : a < h.length) (hc : copyRoot cs h a = some (h1, c)) (ops : List (Bool × Op)) :
    Disjoint (runBothOps h1 a c ops) a c ∧
    ∀ (op : Op) (n : Nat),
      view (applyOp (runBothOps h1 a c ops) a op) n (.ref c) = view (runBothOps h1 a c ops) n (.ref c) ∧
      view (applyOp (runBothOps h1 a c ops) c op) n (.ref a) = view (runBothOps h1 a c ops) n (.ref a) := by
  obtain ⟨dj, _, wf1, ha1, hc1⟩ := copy_fresh W ha hc
  exact interleaved_independent_ops wf1 ha1 hc1 dj ops

/-- What the cross-assignment stores: the element values of the source, in the target's own array object. -/
theorem assignFrom_inplace_copies_values {h : Heap} {root l src : Nat} {x : String} {o so : Obj}
    (hn : nav h root ["_" ++ x] = some l) (ho : h[l]? = some o) (hs : h[src]? = some so) :
    (applyOp h root (.assignFrom x src true))[l]? = some ⟨o.kind, immSlots so.slots⟩ := by
  obtain ⟨hl, he⟩ := List.getElem?_eq_some_iff.mp ho
  simp [applyOp, opSteps, run, applyStep, hn, applyEdit, ho, listSrcLoc, hs, withSlots, hl, he]

-- non-vacuity: sibling `b` re-synchronises `Y` from `a` (both spellings), then `a` changes `Y[0]`: `b` keeps its value
def exSrc : Nat := (nav exB.1 exA.2 ["_Y"]).getD 0
def exSync : Heap := runBothOps exB.1 exA.2 exB.2
  [(true, .setCell "Y" 0 (.int 7)), (false, .assignFrom "Y" exSrc true), (false, .assignFrom "C" exSrc false)]
set_option maxRecDepth 8000 in
example : (nav exSync exB.2 ["_Y"]).map (fun l => view exSync 1 (.ref l)) =
    (nav exSync exA.2 ["_Y"]).map (fun l => view exSync 1 (.ref l)) := by decide
set_option maxRecDepth 8000 in
example : nav exSync exB.2 ["_Y"] ≠ nav exSync exA.2 ["_Y"] ∧ nav exSync exB.2 ["_C"] ≠ nav exSync exA.2 ["_Y"] := by
  decide
set_option maxRecDepth 8000 in
example : view (applyOp exSync exA.2 (.setCell "Y" 0 (.int 9))) 3 (.ref exB.2) = view exSync 3 (.ref exB.2) := by
  decide

/-! ## Sibling instances and the class -/

/-- **siblings_disjoint.**  Two instances of one class (constructor arguments immutable, i.e. not shared by the
    caller) share no mutable object. -/
theorem siblings_disjoint (ci : Nat) (cd : ClassDesc) (h : Heap) (i1 i2 j1 j2 : Imm) (wf : WF h) (ok : ClassOK h cd) :
    Disjoint (newInst ci cd (newInst ci cd h (.imm i1) (.imm j1)).1 (.imm i2) (.imm j2)).1
      (newInst ci cd h (.imm i1) (.imm j1)).2
      (newInst ci cd (newInst ci cd h (.imm i1) (.imm j1)).1 (.imm i2) (.imm j2)).2 :=
  fun x ra rb => siblings_shared wf ok ⟨i1, rfl⟩ ⟨j1, rfl⟩ ⟨i2, rfl⟩ ⟨j2, rfl⟩ x ra rb

/-- **instance_class_disjoint.**  An instance shares no mutable object with its class (the pseudo-object holding
    `ENDOGENOUS`, `CHECK`, `NAMES`, `ALIASES`, `TRACE_VARIABLES`, …). -/
theorem instance_class_disjoint (ci : Nat) (cd : ClassDesc) (h : Heap) (i1 j1 : Imm) (wf : WF h) (ok : ClassOK h cd) :
    Disjoint (newInst ci cd h (.imm i1) (.imm j1)).1 (newInst ci cd h (.imm i1) (.imm j1)).2 cd.attrs :=
  fun x ra rc => instance_class_shared wf ok ⟨i1, rfl⟩ ⟨j1, rfl⟩ x ra rc

/-- Hence: whatever is done to one sibling — any history of public operations, including list mutations of
    `check` / `endogenous` and tracing — is invisible through the other sibling and through the class. -/
theorem sibling_history_invisible (ci : Nat) (cd : ClassDesc) (h : Heap) (i1 i2 j1 j2 : Imm) (wf : WF h)
    (ok : ClassOK h cd) (ops : List Op) :
    (∀ n, view (runOps (newInst ci cd (newInst ci cd h (.imm i1) (.imm j1)).1 (.imm i2) (.imm j2)).1
        (newInst ci cd h (.imm i1) (.imm j1)).2 ops) n
        (.ref (newInst ci cd (newInst ci cd h (.imm i1) (.imm j1)).1 (.imm i2) (.imm j2)).2) =
      view (newInst ci cd (newInst ci cd h (.imm i1) (.imm j1)).1 (.imm i2) (.imm j2)).1 n
        (.ref (newInst ci cd (newInst ci cd h (.imm i1) (.imm j1)).1 (.imm i2) (.imm j2)).2)) := by
  obtain ⟨eA, wfA, _, hiA, _⟩ := reach_newInst (ci := ci) (span := .imm i1) (sub := .imm j1) wf ok ⟨i1, rfl⟩ ⟨j1, rfl⟩
  obtain ⟨eB, wfB, _, hiB, _⟩ := reach_newInst (ci := ci) (span := .imm i2) (sub := .imm j2) wfA (ok.ext wf eA)
    ⟨i2, rfl⟩ ⟨j2, rfl⟩
  exact (disjoint_frame_ops wfB (by have := eB.len; omega) hiB (siblings_disjoint ci cd h i1 i2 j1 j2 wf ok) ops).1

theorem class_invisible_to_instance_history (ci : Nat) (cd : ClassDesc) (h : Heap) (i1 j1 : Imm) (wf : WF h)
    (ok : ClassOK h cd) (ops : List Op) :
    ∀ n, view (runOps (newInst ci cd h (.imm i1) (.imm j1)).1 (newInst ci cd h (.imm i1) (.imm j1)).2 ops) n
        (.ref cd.attrs) = view (newInst ci cd h (.imm i1) (.imm j1)).1 n (.ref cd.attrs) := by
  obtain ⟨eA, wfA, _, hiA, _⟩ := reach_newInst (ci := ci) (span := .imm i1) (sub := .imm j1) wf ok ⟨i1, rfl⟩ ⟨j1, rfl⟩
  exact (disjoint_frame_ops wfA hiA (by have := eA.len; have := ok.valid; omega)
    (instance_class_disjoint ci cd h i1 j1 wf ok) ops).1

/-- **trace_t is a local step** — also with a class-level `TRACE_VARIABLES` list (`Trace(list(names))`): after any
    history of public operations through a root, everything reachable from the root was reachable before or is
    new; in particular a class-level list that was not reachable from the instance is still not reachable. -/
theorem ops_local {h : Heap} {root : Nat} (wf : WF h) (hr : root < h.length) (ops : List Op) (x : Nat)
    (rx : Reach (runOps h root ops) root x) : Reach h root x ∨ h.length ≤ x := by
  rw [runOps_eq_run] at rx
  exact (run_local _ h wf hr).reach x rx

theorem trace_t_local {h : Heap} {root l : Nat} (wf : WF h) (hr : root < h.length) (hl : l < h.length)
    (t : Nat) (fresh : Bool) (label : Imm) (n : Nat) (hn : ¬ Reach h root l) :
    ¬ Reach (applyOp h root (.traceT t (.classVars l) fresh label n)) root l := by
  intro r
  rcases (run_local (opSteps (.traceT t (.classVars l) fresh label n)) h wf hr).reach l r with h1 | h1
  · exact hn h1
  · omega

-- non-vacuity: a tracer class with a class-level TRACE_VARIABLES list (location 2); tracing through `a` creates a
-- Trace whose names are ['Y'] and the class list is not reachable from `a`
def exHeap2 : Heap :=
  [strList ["Y", "C"], strList ["Y", "C", "G"], strList ["Y"],
   ⟨.cls, [("ENDOGENOUS", .ref 0), ("CHECK", .ref 0), ("NAMES", .ref 1), ("TRACE_VARIABLES", .ref 2)]⟩]
def exCls2 : ClassDesc := ⟨.model, false, true, 3⟩
def exA2 := newInst 0 exCls2 exHeap2 (.imm (.range 2)) (.imm .none)
def exT2 : Heap := applyOp exA2.1 exA2.2 (.traceT 1 (.classVars 2) true (.str "start") 1)
example : wfB exHeap2 = true ∧ classOKB exHeap2 exCls2 = true := by decide
example : (nav exT2 exA2.2 ["_trace", "1", "names"]).map (fun l => valItems exT2 (.ref l)) = some ["Y"] := by decide
example : (nav exT2 exA2.2 ["_trace", "1", "names"]) ≠ some 2 := by decide
-- the siblings of the example world: `a.check.append('X')` is seen through `a` only
example : (nav (applyOp exB.1 exA.2 (.append ["check"] "X")) exA.2 ["check"]).map
    (fun l => valItems (applyOp exB.1 exA.2 (.append ["check"] "X")) (.ref l)) = some ["Y", "C", "X"] := by decide
example : (nav (applyOp exB.1 exA.2 (.append ["check"] "X")) exB.2 ["check"]).map
    (fun l => valItems (applyOp exB.1 exA.2 (.append ["check"] "X")) (.ref l)) = some ["Y", "C"] := by decide
example : valItems (applyOp exB.1 exA.2 (.append ["check"] "X")) (classAttr exB.1 exCls "CHECK") = ["Y", "C"] := by
  decide
example : wfB exHeap = true ∧ classOKB exHeap exCls = true := by decide

/-! ## Nested attribute values and default constructor arguments (non-vacuity)

A tuple is an immutable node with edges to mutable children (`Kind.tuple`): `deepcopy` treats it like any other node,
so `copy_fresh` / `copy_observationally_equal` / the frame theorems cover `m.bounds = ([lo], [hi])`, namedtuples
holding dicts, tuples of arrays.  `Linker()` without `submodels` gets a new dict (`stageLinker`), so
`siblings_disjoint` covers linkers built with default arguments. -/

def exTup : Heap := applyOp exB.1 exA.2 (.buildAttr "bounds"
  [([], "bounds", .tuple, []), (["bounds"], "0", .list, [("0", .str "lo")]), (["bounds"], "1", .list, [("0", .str "hi")])])

set_option maxRecDepth 8000 in
example : (match copyRoot [exCls] exTup exA.2 with
    | some (h1, c) =>
      decide ((nav h1 c ["bounds", "0"]).isSome ∧ nav h1 c ["bounds", "0"] ≠ nav h1 exA.2 ["bounds", "0"] ∧
        nav h1 c ["bounds"] ≠ nav h1 exA.2 ["bounds"] ∧
        (nav h1 c ["bounds", "1"]).map (fun l => valItems h1 (.ref l)) = some ["hi"])
    | none => false) = true := by decide

def exLCls : ClassDesc := ⟨.linker, false, false, 2⟩
def exL1 := newInst 1 exLCls exHeap (.imm (.range 0)) (.imm .none)
def exL2 := newInst 1 exLCls exL1.1 (.imm (.range 0)) (.imm .none)
example : (nav exL2.1 exL1.2 ["submodels"]).isSome ∧ (nav exL2.1 exL2.2 ["submodels"]).isSome ∧
    nav exL2.1 exL1.2 ["submodels"] ≠ nav exL2.1 exL2.2 ["submodels"] := by decide

/-! ## A copy that raises

An attribute `copy.deepcopy` cannot copy (`Kind.uncopyable`: a generator, a `dict.keys()` view, a lock …) makes
`copy()` raise.  The failed copy leaves no trace: the heap is what it was (`copyCmd`), so the original is unchanged
and — once the attribute is replaced — every later copy is again a new, independent, observationally equal object;
two successive copies share nothing with each other either. -/

/-- **failed_copy_is_identity.** -/
theorem failed_copy_is_identity {cs : List ClassDesc} {h : Heap} {a : Nat} (hf : (copyCmd cs h a).2 = none) :
    (copyCmd cs h a).1 = h := by
  unfold copyCmd at *
  cases hc : copyRoot cs h a with
  | none => rfl
  | some r => obtain ⟨h1, c⟩ := r; simp [hc] at hf

/-- Deep-copying an uncopyable object fails, whatever the fuel and the memo (unless it was already copied, which
    cannot be). -/
theorem deepcopy_uncopyable {cs : List ClassDesc} {h : Heap} {m : Memo} {l : Nat} {o : Obj} (n : Nat)
    (ho : h[l]? = some o) (hk : o.kind = .uncopyable) (hm : m.lookup l = none) :
    deepcopy cs n h m (.ref l) = none := by
  cases n with
  | zero => simp [deepcopy]
  | succ n => simp [deepcopy, hm, ho, hk]

/-- A successful copy keeps the assumptions about the world (so the copy theorems apply again afterwards). -/
theorem worldOK_after_copy {cs : List ClassDesc} {h h1 : Heap} {a c : Nat} (W : WorldOK cs h) (ha : a < h.length)
    (hc : copyRoot cs h a = some (h1, c)) : WorldOK cs h1 := by
  obtain ⟨e, wf1, _, _⟩ := copyRoot_new W ha hc
  exact ⟨wf1, fun ci cd hcd => (W.classes ci cd hcd).ext W.wf e⟩

/-- **successive_copies_disjoint.**  Two copies made one after the other are distinct objects that share nothing
    with each other (nor with the original). -/
theorem successive_copies_disjoint {cs : List ClassDesc} {h h1 h2 : Heap} {a c1 c2 : Nat} (W : WorldOK cs h)
    (ha : a < h.length) (hc1 : copyRoot cs h a = some (h1, c1)) (hc2 : copyRoot cs h1 a = some (h2, c2)) :
    c1 ≠ c2 ∧ Disjoint h2 c1 c2 ∧ Disjoint h2 a c1 ∧ Disjoint h2 a c2 := by
  obtain ⟨e1, wf1, hc1', fresh1⟩ := copyRoot_new W ha hc1
  have W1 := worldOK_after_copy W ha hc1
  have ha1 : a < h1.length := by have := e1.len; omega
  obtain ⟨e2, wf2, hc2', fresh2⟩ := copyRoot_new W1 ha1 hc2
  have old1 : ∀ x, Reach h2 c1 x → x < h1.length := fun x r =>
    reach_lt wf1 hc1' ((reach_ext_iff wf1 e2 hc1' x).mp r)
  have olda : ∀ x, Reach h2 a x → x < h.length := fun x r =>
    reach_lt W.wf ha ((reach_ext_iff W.wf (e1.trans e2) ha x).mp r)
  refine ⟨?_, ?_, ?_, ?_⟩
  · intro heq
    have := fresh2 c2 (Reach.refl c2)
    omega
  · intro x r1 r2
    have := old1 x r1; have := fresh2 x r2; omega
  · intro x ra r1
    have := olda x ra
    have := fresh1 x ((reach_ext_iff wf1 e2 hc1' x).mp r1)
    omega
  · intro x ra r2
    have := olda x ra; have := fresh2 x r2; have := e1.len; omega

-- non-vacuity: `a.gen = (i for i in …)` makes the copy fail and leaves the heap alone; after `a.gen = 0` two copies
-- succeed and are distinct
def exUnc : Heap := applyOp exB.1 exA.2 (.buildAttr "gen" [([], "gen", .uncopyable, [])])
set_option maxRecDepth 8000 in
example : (copyCmd [exCls] exUnc exA.2).2 = none ∧ (copyCmd [exCls] exUnc exA.2).1 = exUnc := by decide
def exUncFixed : Heap := applyOp exUnc exA.2 (.setAttrImm "gen" (.int 0))
set_option maxRecDepth 8000 in
example : (match copyRoot [exCls] exUncFixed exA.2 with
    | some (h1, c1) => (match copyRoot [exCls] h1 exA.2 with
      | some (_, c2) => decide (c1 ≠ c2)
      | none => false)
    | none => false) = true := by decide

/-! ## Internal sharing structure

Observational equality includes the *internal* sharing structure: which `__dict__` entries lead to the same object.
A fresh model / linker has `endogenous` and `check` as two different new lists (also when `CHECK is ENDOGENOUS` at
class level).  Since /repo commit 5ca5eb2 `VectorContainer.copy` deep-copies the whole `__dict__` with ONE memo: the
copy is a graph isomorphism (`MemoIso`: the memo is an injective function from old to new objects, every new object's
entries are the images of the old one's), so two entries of the copy share an object **iff** the corresponding
entries of the original do — the copy's entry-aliasing partition equals the original's.  (Before the fix every
entry was copied by a call of its own and an object stored under two attributes was duplicated: finding
`copy-cuts-internal-alias`, fixed.)  `BaseLinker.copy` still copies entry by entry; for linkers the statement is
that the copy's entries are separate. -/

/-- **fresh_check_is_not_endogenous.** -/
theorem fresh_check_is_not_endogenous (ci : Nat) (cd : ClassDesc) (h : Heap) (span sub : Val)
    (hc : cd.base ≠ .container) :
    ∃ L, (construct cd h span sub).2.lookup "endogenous" = some (.ref L) ∧
         (construct cd h span sub).2.lookup "check" = some (.ref (L + 1)) :=
  construct_check_ne_endogenous cd h span sub hc

/-- **copy_entry_aliasing_preserved** (containers and models).  For every two entries of the original and the
    entries of the copy under the same keys: the copy's entries reach a common object iff the original's do.
    Hypotheses beyond `WorldOK2`: the heap is acyclic, and no *instance* is reachable from the entries (a nested
    instance is copied by its own `copy()`, i.e. with a memo of its own). -/
theorem copy_entry_aliasing_preserved {cs : List ClassDesc} {h h1 : Heap} {a c : Nat} {o : Obj} {ci : Nat}
    {cd : ClassDesc} (W : WorldOK2 cs h) (ac : AcyclicH h) (ho : h[a]? = some o) (hk : o.kind = .inst ci)
    (hcd : cs[ci]? = some cd) (hnl : cd.base ≠ .linker) (plain : ∀ k v, (k, v) ∈ o.slots → PlainV h v)
    (hc : copyRoot cs h a = some (h1, c)) :
    ∃ o', h1[c]? = some o' ∧ ∀ k1 k2 v1 v2 w1 w2, o.slots.lookup k1 = some v1 → o.slots.lookup k2 = some v2 →
      o'.slots.lookup k1 = some w1 → o'.slots.lookup k2 = some w2 → (SharedV h1 w1 w2 ↔ SharedV h v1 v2) :=
  copyRoot_aliasing_preserved W ac ho hk hcd hnl plain hc

/-- **copy_entries_separate_linker.**  In the copy of a linker no object is reachable from two different
    `__dict__` entries (the new `submodels` dict with the copied submodels, and every other entry, live in blocks
    of their own). -/
theorem copy_entries_separate_linker {cs : List ClassDesc} {h h1 : Heap} {a c : Nat} {o : Obj} {ci : Nat}
    {cd : ClassDesc} (W : WorldOK2 cs h) (ho : h[a]? = some o) (hk : o.kind = .inst ci) (hcd : cs[ci]? = some cd)
    (hl : cd.base = .linker) (hc : copyRoot cs h a = some (h1, c)) : EntriesSeparate h1 c :=
  copyRoot_entries_separate_linker W ho hk hcd hl hc

/-! ## `copy()` succeeds

Every copy theorem above is conditional on `copyRoot … = some …`.  It does succeed: if every reference goes to an
object of smaller rank (`Ranked`; hence the heap is acyclic), nothing reachable from the root is uncopyable and
every reachable instance has a class (a linker also its `submodels` dict) (`Copyable`), and the rank of the root is
at most the number of objects of the heap — the driver's fuel is `h.length + 1` — then `copyRoot` returns a copy. -/

/-- **copy_succeeds.** -/
theorem copy_succeeds {cs : List ClassDesc} {h : Heap} (W : WorldOK cs h) {rk : Nat → Nat} (R : Ranked h rk)
    {a : Nat} (ha : a < h.length) (hr : rk a ≤ h.length) (C : Copyable cs h a) :
    ∃ h1 c, copyRoot cs h a = some (h1, c) :=
  copyRoot_succeeds W R ha hr C

/-- A ranked heap is acyclic (the hypothesis of `copy_entry_aliasing_preserved`). -/
theorem ranked_acyclic {h : Heap} {rk : Nat → Nat} (R : Ranked h rk) : AcyclicH h := acyclic_of_ranked R

/-- Executable form of `EntriesSeparate` (for the examples and the driver). -/
def entryAliases (h : Heap) (a : Nat) : List (String × String) :=
  match h[a]? with
  | none => []
  | some o =>
    o.slots.flatMap fun p => o.slots.filterMap fun q =>
      if p.1 < q.1 ∧ ((paths h 8 "" p.2).map (·.2)).any (fun x => ((paths h 8 "" q.2).map (·.2)).contains x)
      then some (p.1, q.1) else none

-- a fresh instance and its copy: no entry-level aliases
set_option maxRecDepth 8000 in
example : entryAliases exB.1 exA.2 = [] := by decide
set_option maxRecDepth 8000 in
example : (match copyRoot [exCls] exH exA.2 with
    | some (h1, c) => decide (entryAliases h1 c = [])
    | none => false) = true := by decide
-- the user stores one list under `p` and `q`: the copy keeps exactly that alias (one memo)
def exAliased : Heap :=
  run (applyOp exB.1 exA.2 (.addAttrList "p" ["u"])) exA.2
    [⟨[], .bindNew "q" .tuple [("0", .alias ["p"])]⟩]
set_option maxRecDepth 8000 in
example : entryAliases exAliased exA.2 = [("p", "q")] ∧
    (match copyRoot [exCls] exAliased exA.2 with
      | some (h1, c) => decide (entryAliases h1 c = [("p", "q")])
      | none => false) = true := by decide

/-! ## Non-vacuity (review): every hypothesis of the theorems above, instantiated at the example world

`exH` = two sibling instances `a` (location 22) and `b` (42) of the tracer model class, after the history `exHist`
through `a`; `exC1` / `exC2` are two successive copies of `a`. -/

theorem exW2 : WorldOK2 [exCls] exH := worldOK2_of_check (by decide)
theorem exWF : WF exHeap := wf_of_check (by decide)
theorem exOK : ClassOK exHeap exCls := classOK_of_check (by decide)

def exC1 : Heap × Nat := (copyRoot [exCls] exH exA.2).getD ([], 0)
def exC2 : Heap × Nat := (copyRoot [exCls] exC1.1 exA.2).getD ([], 0)
set_option maxRecDepth 8000 in
theorem exC1_eq : copyRoot [exCls] exH exA.2 = some (exC1.1, exC1.2) := by decide
set_option maxRecDepth 16000 in
theorem exC2_eq : copyRoot [exCls] exC1.1 exA.2 = some (exC2.1, exC2.2) := by decide

-- copy_fresh, copy_observationally_equal, copy_same_class, worldOK_after_copy: W, ha, hc
example : Disjoint exC1.1 exA.2 exC1.2 ∧ ObsEq exC1.1 exA.2 exC1.2 ∧ WorldOK [exCls] exC1.1 :=
  ⟨(copy_fresh exW2.toWorldOK (by decide) exC1_eq).1, copy_observationally_equal exW2 (by decide) exC1_eq,
   worldOK_after_copy exW2.toWorldOK (by decide) exC1_eq⟩
example : ∃ o o', exC1.1[exA.2]? = some o ∧ exC1.1[exC1.2]? = some o' ∧ o.kind = o'.kind :=
  copy_same_class exW2 (by decide) exC1_eq
-- copy_independent (history `exHist` through the copy), copy_resync_independent (a write to the original, then the
-- copy re-reads `Y` from the original's array at location 8)
example : ∀ n, view (run exC1.1 exC1.2 exHist) n (.ref exA.2) = view exC1.1 n (.ref exA.2) :=
  (copy_independent exW2.toWorldOK (by decide) exC1_eq exHist).1
example : Disjoint (runBothOps exC1.1 exA.2 exC1.2
    [(true, .setCell "Y" 0 (.int 7)), (false, .assignFrom "Y" 8 true), (false, .append ["check"] "X")]) exA.2 exC1.2 :=
  (copy_resync_independent exW2.toWorldOK (by decide) exC1_eq _).1
-- successive_copies_disjoint: W, ha, hc1, hc2
example : exC1.2 ≠ exC2.2 ∧ Disjoint exC2.1 exC1.2 exC2.2 ∧ Disjoint exC2.1 exA.2 exC1.2 ∧ Disjoint exC2.1 exA.2 exC2.2 :=
  successive_copies_disjoint exW2.toWorldOK (by decide) exC1_eq exC2_eq
-- copy_succeeds: W, Ranked (rank = depth of the structure), root valid, rank of the root ≤ heap size, Copyable
theorem exRanked : Ranked exH (depth exH exH.length) := ranked_of_check (by decide)
example : ∃ h1 c, copyRoot [exCls] exH exA.2 = some (h1, c) :=
  copy_succeeds exW2.toWorldOK exRanked (by decide) (by decide) (copyable_of_check (by decide) _)
-- copy_entry_aliasing_preserved: on the world where the user stored one list under `p` and inside the tuple `q`
theorem exWA : WorldOK2 [exCls] exAliased := worldOK2_of_check (by decide)
def exCA : Heap × Nat := (copyRoot [exCls] exAliased exA.2).getD ([], 0)
set_option maxRecDepth 8000 in
theorem exCA_eq : copyRoot [exCls] exAliased exA.2 = some (exCA.1, exCA.2) := by decide
example : ∃ o', exCA.1[exCA.2]? = some o' ∧ ∀ k1 k2 v1 v2 w1 w2, (exAliased[exA.2]).slots.lookup k1 = some v1 →
    (exAliased[exA.2]).slots.lookup k2 = some v2 → o'.slots.lookup k1 = some w1 → o'.slots.lookup k2 = some w2 →
    (SharedV exCA.1 w1 w2 ↔ SharedV exAliased v1 v2) :=
  copy_entry_aliasing_preserved (o := exAliased[exA.2]) (ci := 0) (cd := exCls) exWA
    (ranked_acyclic (rk := depth exAliased exAliased.length) (ranked_of_check (by decide)))
    (by decide) (by decide) (by decide) (by decide) (plainEntries_of_check (by decide)) exCA_eq
-- copy_entries_separate_linker: two linkers built with default arguments; a copy of the first
theorem exWL : WorldOK2 [exCls, exLCls] exL2.1 := worldOK2_of_check (by decide)
def exCL : Heap × Nat := (copyRoot [exCls, exLCls] exL2.1 exL1.2).getD ([], 0)
set_option maxRecDepth 8000 in
theorem exCL_eq : copyRoot [exCls, exLCls] exL2.1 exL1.2 = some (exCL.1, exCL.2) := by decide
example : EntriesSeparate exCL.1 exCL.2 :=
  copy_entries_separate_linker (o := exL2.1[exL1.2]) (ci := 1) (cd := exLCls) exWL (by decide) (by decide) (by decide)
    (by decide) exCL_eq

-- siblings: disjoint_frame / disjoint_frame_ops / interleaved_* need WF, both roots valid and `Disjoint`, which is what
-- `siblings_disjoint` gives for `a` and `b` (its own hypotheses: `exWF`, `exOK`)
theorem exSibDisj : Disjoint exB.1 exA.2 exB.2 :=
  siblings_disjoint 0 exCls exHeap (.range 2) (.range 2) .none .none exWF exOK
theorem exWFB : WF exB.1 := wf_of_check (by decide)
example : ∀ n, view exH n (.ref exB.2) = view exB.1 n (.ref exB.2) :=
  (disjoint_frame exWFB (by decide) (by decide) exSibDisj exHist).2.2.1
example : ∀ n, view (runOps exB.1 exA.2 [.append ["check"] "X", .setCell "Y" 1 (.int 3)]) n (.ref exB.2) =
    view exB.1 n (.ref exB.2) :=
  (disjoint_frame_ops exWFB (by decide) (by decide) exSibDisj _).1
example : Disjoint exSync exA.2 exB.2 :=
  (interleaved_independent_ops exWFB (by decide) (by decide) exSibDisj _).1
example : Disjoint (runBoth exB.1 exA.2 exB.2 (exHist.map fun s => (true, s))) exA.2 exB.2 :=
  (interleaved_disjoint _ exB.1 exWFB (by decide) (by decide) exSibDisj).2.2
example : view (applyStep (runBoth exB.1 exA.2 exB.2 (exHist.map fun s => (true, s))) exA.2
      ⟨["check"], .push (.str "X")⟩) 3 (.ref exB.2) =
    view (runBoth exB.1 exA.2 exB.2 (exHist.map fun s => (true, s))) 3 (.ref exB.2) :=
  (interleaved_independent exWFB (by decide) (by decide) exSibDisj _ _ 3).1
example : Disjoint exB.1 exB.2 exCls.attrs := instance_class_disjoint 0 exCls exA.1 (.range 2) .none
  (wf_of_check (by decide)) (classOK_of_check (by decide))

-- assignFrom_inplace_copies_values: hn, ho, hs (b's `_Y` is location 28, a's `_Y` is location 8)
example : nav exB.1 exB.2 ["_" ++ "Y"] = some 28 ∧ exB.1[28]? = some (cellArray 2 (.int 0)) ∧
    exB.1[8]? = some (cellArray 2 (.int 0)) := by decide
example : (applyOp exB.1 exB.2 (.assignFrom "Y" 8 true))[28]? = some ⟨.array, immSlots (cellArray 2 (.int 0)).slots⟩ :=
  assignFrom_inplace_copies_values (o := cellArray 2 (.int 0)) (by decide) (by decide) (by decide)

-- ops_local at a real history: the new `_Q` array (location 47) is reachable from `a` after `exHist`, and is new
example : Reach exB.1 exA.2 47 ∨ exB.1.length ≤ 47 :=
  ops_local (ops := [.traceT 1 .own true (.str "start") 3, .addVariable "Q" 2 true]) exWFB (by decide) 47
    (Reach.step (Reach.refl _) (o := exH[exA.2]) (k := "_Q") (by decide) (by decide))

-- trace_t_local: wf, hr, hl and `¬ Reach` (the class-level TRACE_VARIABLES list, location 2, is reachable from the
-- class object 3, hence not from the instance)
theorem exNoReach2 : ¬ Reach exA2.1 exA2.2 2 := fun r =>
  instance_class_disjoint 0 exCls2 exHeap2 (.range 2) .none (wf_of_check (by decide)) (classOK_of_check (by decide)) 2 r
    (Reach.step (Reach.refl 3) (o := exHeap2[3]) (k := "TRACE_VARIABLES") (by decide) (by decide))
example : ¬ Reach exT2 exA2.2 2 :=
  trace_t_local (wf_of_check (by decide)) (by decide) (by decide) 1 true (.str "start") 1 exNoReach2

-- deepcopy_uncopyable: ho, hk, hm (the generator attribute of `exUnc` is location 43)
example : deepcopy [exCls] 5 exUnc [] (.ref 43) = none :=
  deepcopy_uncopyable (o := ⟨.uncopyable, []⟩) 5 (by decide) rfl rfl
-- failed_copy_is_identity: hf
set_option maxRecDepth 8000 in
example : (copyCmd [exCls] exUnc exA.2).1 = exUnc := failed_copy_is_identity (by decide)
-- fresh_check_is_not_endogenous: hc
example : ∃ L, (construct exCls exHeap (.imm (.range 2)) (.imm .none)).2.lookup "endogenous" = some (.ref L) ∧
    (construct exCls exHeap (.imm (.range 2)) (.imm .none)).2.lookup "check" = some (.ref (L + 1)) :=
  fresh_check_is_not_endogenous 0 exCls exHeap _ _ (by decide)
-- sibling_history_invisible / class_invisible_to_instance_history: wf, ok
example : ∀ n, view (runOps exB.1 exA.2 [.append ["check"] "X"]) n (.ref exB.2) = view exB.1 n (.ref exB.2) :=
  sibling_history_invisible 0 exCls exHeap (.range 2) (.range 2) .none .none exWF exOK _
example : ∀ n, view (runOps exA.1 exA.2 [.append ["check"] "X"]) n (.ref exCls.attrs) =
    view exA.1 n (.ref exCls.attrs) :=
  class_invisible_to_instance_history 0 exCls exHeap (.range 2) .none exWF exOK _

end Fsic.C11
