import Proofs.Lemmas.HeapCheck
/-
C11 — Copies and sibling instances share no mutable state.

Property theorems only (helpers: `Proofs/Lemmas/Heap*.lean`), about the reference model M7 (`FsicModel/Heap.lean`):
mutable Python objects are heap locations, `copyRoot` is `copy()` = `copy.copy` = `copy.deepcopy` (the code makes
`__copy__ = copy` and `__deepcopy__` return `self.copy()`: one function, three routes), `newInst` is the `__init__`
chain, `run` applies a history of in-place mutations reached from one root.

All statements are for every heap, every class table, every fuel-free history length.  `fix = false` is the code
as it is; `fix = true` is the candidate patch (instance attributes `endogenous` / `check` get copies of the
class-level lists).
-/
set_option linter.unusedSimpArgs false
set_option linter.unusedVariables false
namespace Fsic.C11
open Fsic.Heap

/-! ## A concrete world for the non-vacuity examples

A parser-built model class (`CHECK is ENDOGENOUS`: both attributes are location 0) with tracer mixin, two sibling
instances over `range(2)`, one traced period, and a copy. -/

def exHeap : Heap :=
  [strList ["Y", "C"], strList ["Y", "C", "G"],
   ⟨.cls, [("ENDOGENOUS", .ref 0), ("CHECK", .ref 0), ("NAMES", .ref 1), ("TRACE_VARIABLES", .imm .none)]⟩]
def exCls : ClassDesc := ⟨.model, false, true, 2⟩
def exA := newInst false 0 exCls exHeap (.imm (.range 2)) (.imm .none)
def exB := newInst false 0 exCls exA.1 (.imm (.range 2)) (.imm .none)
/-- `a.trace_t(1, 'start', trace=True)` then `a.add_variable('Q', 0.0)`. -/
def exHist : List Step :=
  opSteps (.traceT 1 .own true (.str "start") 3) ++ opSteps (.addVariable "Q" 2 true)
def exH : Heap := run exB.1 exA.2 exHist

/-! ## Copies -/

/-- **copy_fresh.**  After `c = a.copy()` (any of the three routes) no mutable object is reachable from both `a`
    and `c`; the heap `a` lives in is untouched (only new objects were allocated). -/
theorem copy_fresh {fix : Bool} {cs : List ClassDesc} {h h1 : Heap} {a c : Nat} (W : WorldOK cs h)
    (ha : a < h.length) (hc : copyRoot fix cs h a = some (h1, c)) :
    Disjoint h1 a c ∧ (∀ x, x < h.length → h1[x]? = h[x]?) ∧ WF h1 ∧ a < h1.length ∧ c < h1.length := by
  obtain ⟨e, wf1, hc1, fresh⟩ := copyRoot_new W ha hc
  refine ⟨?_, fun x hx => e.get hx, wf1, by have := e.len; omega, hc1⟩
  intro x ra rc
  have := reach_lt W.wf ha ((reach_ext_iff W.wf e ha x).mp ra)
  have := fresh x rc
  omega

/-- **copy_observationally_equal.**  The copy is bisimilar to the original: same kind of object, same keys, equal
    immutable values, and (recursively) bisimilar referents — i.e. equal up to object identity. -/
theorem copy_observationally_equal {fix : Bool} {cs : List ClassDesc} {h h1 : Heap} {a c : Nat}
    (W : WorldOK2 cs h) (ha : a < h.length) (hc : copyRoot fix cs h a = some (h1, c)) : ObsEq h1 a c :=
  copyRoot_obsEq W ha hc

/-- The copy has the same class as the original. -/
theorem copy_same_class {fix : Bool} {cs : List ClassDesc} {h h1 : Heap} {a c : Nat}
    (W : WorldOK2 cs h) (ha : a < h.length) (hc : copyRoot fix cs h a = some (h1, c)) :
    ∃ o o', h1[a]? = some o ∧ h1[c]? = some o' ∧ o.kind = o'.kind := by
  obtain ⟨R, hR, hac⟩ := copyRoot_obsEq W ha hc
  obtain ⟨o, o', h1', h2, h3, _⟩ := hR a c hac
  exact ⟨o, o', h1', h2, h3⟩

-- the hypotheses hold of the example world, and the copy exists
example : WorldOK2 [exCls] exH := worldOK2_of_check (by decide)
example : exA.2 < exH.length := by decide
example : (copyRoot false [exCls] exH exA.2).isSome = true := by decide

/-! ## Frame: disjoint roots do not observe each other -/

/-- **disjoint_frame.**  If two roots have disjoint mutable reach, then after *any* history of (local) mutations
    through the first, every object reachable from the second is unchanged, so is what is reachable from it, every
    observation (`view`, to any depth) and its sharing graph (`paths`); and the two roots are still disjoint. -/
theorem disjoint_frame {h : Heap} {r1 r2 : Nat} (wf : WF h) (h1 : r1 < h.length) (h2 : r2 < h.length)
    (dj : Disjoint h r1 r2) (steps : List Step) (hloc : ∀ s, s ∈ steps → s.isLocal = true) :
    (∀ x, Reach h r2 x → (run h r1 steps)[x]? = h[x]?) ∧
    (∀ x, Reach (run h r1 steps) r2 x ↔ Reach h r2 x) ∧
    (∀ n, view (run h r1 steps) n (.ref r2) = view h n (.ref r2)) ∧
    (∀ n p, paths (run h r1 steps) n p (.ref r2) = paths h n p (.ref r2)) ∧
    Disjoint (run h r1 steps) r1 r2 ∧ WF (run h r1 steps) := by
  have F := framed_run steps h wf h1 h2 dj hloc
  exact ⟨F.same, fun x => ⟨reach_of_same' F.same, reach_of_same F.same⟩,
    fun n => view_of_same n r2 F.same, fun n p => paths_of_same n p r2 F.same, F.disj, F.wf⟩

theorem disjoint_symm {h : Heap} {a b : Nat} (d : Disjoint h a b) : Disjoint h b a := fun x rb ra => d x ra rb

/-- A history of public operations is a history of steps. -/
def runOps (h : Heap) (root : Nat) : List Op → Heap
  | [] => h
  | op :: ops => runOps (applyOp h root op) root ops

theorem run_append (h : Heap) (r : Nat) : ∀ (s1 s2 : List Step), run h r (s1 ++ s2) = run (run h r s1) r s2 := by
  intro s1
  induction s1 generalizing h with
  | nil => intro s2; rfl
  | cons s ss ih => intro s2; simp only [List.cons_append, run]; exact ih _ s2

theorem runOps_eq_run (r : Nat) : ∀ (ops : List Op) (h : Heap), runOps h r ops = run h r (ops.flatMap opSteps) := by
  intro ops
  induction ops with
  | nil => intro h; rfl
  | cons op ops ih =>
    intro h
    simp only [runOps, List.flatMap_cons, run_append, applyOp]
    exact ih _

/-- The frame property for histories of the public mutating operations (values, `add_variable`, `add_attribute`,
    list mutations, aliases, lags / leads, traces, the same through nested submodels), whenever their steps are
    local — every operation except `trace_t` with a *class-level* `TRACE_VARIABLES` list. -/
theorem disjoint_frame_ops {h : Heap} {r1 r2 : Nat} (wf : WF h) (h1 : r1 < h.length) (h2 : r2 < h.length)
    (dj : Disjoint h r1 r2) (ops : List Op) (hloc : ∀ op, op ∈ ops → stepsLocal (opSteps op) = true) :
    (∀ n, view (runOps h r1 ops) n (.ref r2) = view h n (.ref r2)) ∧
    (∀ n p, paths (runOps h r1 ops) n p (.ref r2) = paths h n p (.ref r2)) ∧
    Disjoint (runOps h r1 ops) r1 r2 := by
  rw [runOps_eq_run]
  have hl : ∀ s, s ∈ ops.flatMap opSteps → s.isLocal = true := by
    intro s hs
    obtain ⟨op, hop, hs'⟩ := List.mem_flatMap.mp hs
    exact stepsLocal_sound (hloc op hop) s hs'
  have F := disjoint_frame wf h1 h2 dj _ hl
  exact ⟨F.2.2.1, F.2.2.2.1, F.2.2.2.2.1⟩

/-- **Independence of a copy**, both directions: whatever is done to the copy afterwards is invisible through the
    original, and whatever is done to the original is invisible through the copy. -/
theorem copy_independent {fix : Bool} {cs : List ClassDesc} {h h1 : Heap} {a c : Nat} (W : WorldOK cs h)
    (ha : a < h.length) (hc : copyRoot fix cs h a = some (h1, c)) (steps : List Step)
    (hloc : ∀ s, s ∈ steps → s.isLocal = true) :
    (∀ n, view (run h1 c steps) n (.ref a) = view h1 n (.ref a)) ∧
    (∀ n, view (run h1 a steps) n (.ref c) = view h1 n (.ref c)) := by
  obtain ⟨dj, _, wf1, ha1, hc1⟩ := copy_fresh W ha hc
  exact ⟨(disjoint_frame wf1 hc1 ha1 (disjoint_symm dj) steps hloc).2.2.1,
    (disjoint_frame wf1 ha1 hc1 dj steps hloc).2.2.1⟩

-- non-vacuity: the example history is local and changes what is seen through `a`, not what is seen through the copy
example : stepsLocal exHist = true := by decide
example : view exH 2 (.ref exA.2) ≠ view exB.1 2 (.ref exA.2) := by decide

/-! ## Sibling instances and the class

FULL statements (what the property says):

    siblings_disjoint       : two instances of one class share no mutable object
    instance_class_disjoint : an instance shares no mutable object with its class

Both are **false of the code as it is** (`fix = false`) for models and linkers:
`add_attribute('endogenous', self.ENDOGENOUS)` / `add_attribute('check', self.CHECK)` store the class-level lists
themselves.  The model reproduces it; below: the negation (for every class with an `ENDOGENOUS` list, and at the
concrete witness `a.check.append('X')`), the statements under the exact guard, the exact extent of the sharing, and
the full statements for the candidate patch. -/

/-- The full statement, as a proposition about the constructor with / without the candidate patch. -/
def SiblingsDisjoint (fix : Bool) : Prop :=
  ∀ (ci : Nat) (cd : ClassDesc) (h : Heap) (i1 i2 j1 j2 : Imm), WF h → ClassOK h cd →
    Disjoint (newInst fix ci cd (newInst fix ci cd h (.imm i1) (.imm j1)).1 (.imm i2) (.imm j2)).1
      (newInst fix ci cd h (.imm i1) (.imm j1)).2
      (newInst fix ci cd (newInst fix ci cd h (.imm i1) (.imm j1)).1 (.imm i2) (.imm j2)).2

def InstanceClassDisjoint (fix : Bool) : Prop :=
  ∀ (ci : Nat) (cd : ClassDesc) (h : Heap) (i1 j1 : Imm), WF h → ClassOK h cd →
    Disjoint (newInst fix ci cd h (.imm i1) (.imm j1)).1 (newInst fix ci cd h (.imm i1) (.imm j1)).2 cd.attrs

/-- The exact extent of the sharing: two siblings share *at most* the class-level lists `ENDOGENOUS` / `CHECK`,
    and only for models / linkers of the unpatched code. -/
theorem siblings_share_only_class_lists {fix : Bool} {ci : Nat} {cd : ClassDesc} {h : Heap} {i1 i2 j1 j2 : Imm}
    (wf : WF h) (ok : ClassOK h cd) (x : Nat)
    (ra : Reach (newInst fix ci cd (newInst fix ci cd h (.imm i1) (.imm j1)).1 (.imm i2) (.imm j2)).1
      (newInst fix ci cd h (.imm i1) (.imm j1)).2 x)
    (rb : Reach (newInst fix ci cd (newInst fix ci cd h (.imm i1) (.imm j1)).1 (.imm i2) (.imm j2)).1
      (newInst fix ci cd (newInst fix ci cd h (.imm i1) (.imm j1)).1 (.imm i2) (.imm j2)).2 x) :
    fix = false ∧ cd.base ≠ .container ∧
      (classAttr h cd "ENDOGENOUS" = .ref x ∨ classAttr h cd "CHECK" = .ref x) :=
  siblings_shared wf ok ⟨i1, rfl⟩ ⟨j1, rfl⟩ ⟨i2, rfl⟩ ⟨j2, rfl⟩ x ra rb

/-- **siblings_disjoint_partial** — under the exact guard: plain containers (no class-level lists are referenced),
    or the patched constructor. -/
theorem siblings_disjoint_partial {fix : Bool} {ci : Nat} {cd : ClassDesc} {h : Heap} {i1 i2 j1 j2 : Imm}
    (wf : WF h) (ok : ClassOK h cd) (guard : cd.base = .container ∨ fix = true) :
    Disjoint (newInst fix ci cd (newInst fix ci cd h (.imm i1) (.imm j1)).1 (.imm i2) (.imm j2)).1
      (newInst fix ci cd h (.imm i1) (.imm j1)).2
      (newInst fix ci cd (newInst fix ci cd h (.imm i1) (.imm j1)).1 (.imm i2) (.imm j2)).2 := by
  intro x ra rb
  obtain ⟨hf, hc, _⟩ := siblings_share_only_class_lists wf ok x ra rb
  rcases guard with g | g
  · exact hc g
  · rw [hf] at g; cases g

/-- With the candidate patch the full statement is a theorem. -/
theorem siblings_disjoint_patched : SiblingsDisjoint true :=
  fun ci cd h i1 i2 j1 j2 wf ok => siblings_disjoint_partial wf ok (Or.inr rfl)

/-- Negation for *every* model / linker class that has an `ENDOGENOUS` list: the siblings both reach it. -/
theorem siblings_share_endogenous {ci : Nat} {cd : ClassDesc} {h : Heap} {i1 i2 j1 j2 : Imm} (wf : WF h)
    (ok : ClassOK h cd) (hc : cd.base ≠ .container) {e : Nat} (he : classAttr h cd "ENDOGENOUS" = .ref e) :
    ¬ Disjoint (newInst false ci cd (newInst false ci cd h (.imm i1) (.imm j1)).1 (.imm i2) (.imm j2)).1
      (newInst false ci cd h (.imm i1) (.imm j1)).2
      (newInst false ci cd (newInst false ci cd h (.imm i1) (.imm j1)).1 (.imm i2) (.imm j2)).2 := by
  intro dj
  obtain ⟨eA, wfA, _, hiA, _⟩ := reach_newInst (fix := false) (ci := ci) (span := .imm i1) (sub := .imm j1) wf ok
    ⟨i1, rfl⟩ ⟨j1, rfl⟩
  obtain ⟨eB, _, _, _, _⟩ := reach_newInst (fix := false) (ci := ci) (span := .imm i2) (sub := .imm j2) wfA
    (ok.ext wf eA) ⟨i2, rfl⟩ ⟨j2, rfl⟩
  have ra := newInst_reaches_endogenous (ci := ci) (span := .imm i1) (sub := .imm j1) hc he
  have rb := newInst_reaches_endogenous (ci := ci) (span := .imm i2) (sub := .imm j2)
    (h := (newInst false ci cd h (.imm i1) (.imm j1)).1) hc (by rw [classAttr_ext wf eA ok]; exact he)
  exact dj e ((reach_ext_iff wfA eB hiA e).mpr ra) rb

/-- **siblings_disjoint_false_at_witness.** -/
theorem siblings_disjoint_false_at_witness : ¬ SiblingsDisjoint false := by
  intro full
  exact siblings_share_endogenous (ci := 0) (cd := exCls) (h := exHeap) (i1 := .range 2) (i2 := .range 2)
    (j1 := .none) (j2 := .none) (wf_of_check (by decide)) (classOK_of_check (by decide)) (by decide) (e := 0)
    (by decide) (full 0 exCls exHeap (.range 2) (.range 2) .none .none (wf_of_check (by decide))
      (classOK_of_check (by decide)))

/-- The witness as behaviour: `a.check.append('X')` changes `Model.CHECK`, `Model.ENDOGENOUS`, and `b.check` /
    `b.endogenous` of the sibling `b`. -/
theorem check_append_visible_at_witness :
    valItems (applyOp exB.1 exA.2 (.append ["check"] "X")) (classAttr exB.1 exCls "CHECK") = ["Y", "C", "X"] ∧
    valItems (applyOp exB.1 exA.2 (.append ["check"] "X")) (classAttr exB.1 exCls "ENDOGENOUS") = ["Y", "C", "X"] ∧
    (nav (applyOp exB.1 exA.2 (.append ["check"] "X")) exB.2 ["endogenous"]).map
      (fun l => valItems (applyOp exB.1 exA.2 (.append ["check"] "X")) (.ref l)) = some ["Y", "C", "X"] ∧
    valItems exB.1 (classAttr exB.1 exCls "CHECK") = ["Y", "C"] := by
  decide

theorem instance_class_share_only_class_lists {fix : Bool} {ci : Nat} {cd : ClassDesc} {h : Heap} {i1 j1 : Imm}
    (wf : WF h) (ok : ClassOK h cd) (x : Nat)
    (ra : Reach (newInst fix ci cd h (.imm i1) (.imm j1)).1 (newInst fix ci cd h (.imm i1) (.imm j1)).2 x)
    (rc : Reach (newInst fix ci cd h (.imm i1) (.imm j1)).1 cd.attrs x) :
    fix = false ∧ cd.base ≠ .container ∧
      (classAttr h cd "ENDOGENOUS" = .ref x ∨ classAttr h cd "CHECK" = .ref x) :=
  instance_class_shared wf ok ⟨i1, rfl⟩ ⟨j1, rfl⟩ x ra rc

/-- **instance_class_disjoint_partial** — under the exact guard. -/
theorem instance_class_disjoint_partial {fix : Bool} {ci : Nat} {cd : ClassDesc} {h : Heap} {i1 j1 : Imm}
    (wf : WF h) (ok : ClassOK h cd) (guard : cd.base = .container ∨ fix = true) :
    Disjoint (newInst fix ci cd h (.imm i1) (.imm j1)).1 (newInst fix ci cd h (.imm i1) (.imm j1)).2 cd.attrs := by
  intro x ra rc
  obtain ⟨hf, hc, _⟩ := instance_class_share_only_class_lists wf ok x ra rc
  rcases guard with g | g
  · exact hc g
  · rw [hf] at g; cases g

theorem instance_class_disjoint_patched : InstanceClassDisjoint true :=
  fun ci cd h i1 j1 wf ok => instance_class_disjoint_partial wf ok (Or.inr rfl)

/-- **instance_class_disjoint_false_at_witness.** -/
theorem instance_class_disjoint_false_at_witness : ¬ InstanceClassDisjoint false := by
  intro full
  have wf : WF exHeap := wf_of_check (by decide)
  have ok : ClassOK exHeap exCls := classOK_of_check (by decide)
  have dj := full 0 exCls exHeap (.range 2) .none wf ok
  obtain ⟨eA, _, _, _, _⟩ := reach_newInst (fix := false) (ci := 0) (span := .imm (.range 2)) (sub := .imm .none)
    wf ok ⟨_, rfl⟩ ⟨_, rfl⟩
  have ra := newInst_reaches_endogenous (ci := 0) (cd := exCls) (h := exHeap) (span := .imm (.range 2))
    (sub := .imm .none) (by decide) (e := 0) (by decide)
  have rc : Reach exHeap exCls.attrs 0 :=
    Reach.single (h := exHeap) (a := 2) (k := "ENDOGENOUS")
      (o := ⟨.cls, [("ENDOGENOUS", .ref 0), ("CHECK", .ref 0), ("NAMES", .ref 1), ("TRACE_VARIABLES", .imm .none)]⟩)
      (by decide) (by decide)
  exact dj 0 ra ((reach_ext_iff wf eA (by decide) 0).mpr rc)

/-- `trace_t` with a class-level `TRACE_VARIABLES` list is *not* a local step: the new `Trace` keeps a reference
    to the class-level list (`names = self.TRACE_VARIABLES`), so the frame theorem does not cover it. -/
theorem traceT_classVars_not_local (t : Nat) (l : Nat) (label : Imm) (n : Nat) :
    stepsLocal (opSteps (.traceT t (.classVars l) true label n)) = false := by
  simp [stepsLocal, opSteps, Step.isLocal, srcsLocal]

-- non-vacuity of the guarded statements: the example class meets `WF` / `ClassOK`, and the container version of it
-- meets the guard
example : wfB exHeap = true ∧ classOKB exHeap exCls = true := by decide
example : (⟨.container, false, false, 2⟩ : ClassDesc).base = .container := rfl

end Fsic.C11
