import Driver.Lexer
import Proofs.Lemmas.Tokens
/-
`wf_check`: does a token list (produced by the harness from a rendered script statement) satisfy the executable
well-formedness checker `wfB` (sound for the hypothesis `Wf` of `scan_render`), does it render to the given text,
and does the scanner return the expected matches?  This is how the correspondence check confirms that the
generated scripts fall under the hypotheses of the proved round trip.
-/
open Lean Fsic.Lx

namespace Drv.Tokens
open Drv.Lexer

def optIdxR (j : Json) : R (Option IdxR) :=
  match Drv.optObj j "ix" with
  | none => pure none
  | some i => do
    let w1 ← chars (← Drv.obj i "w1")
    let t ← chars (← Drv.obj i "t")
    let w2 ← chars (← Drv.obj i "w2")
    pure (some ⟨w1, t, w2⟩)

def tok (j : Json) : R Tok := do
  let k ← Drv.str j "k"
  match k with
  | "chunk" => do pure (.chunk (← chars (← Drv.obj j "cs")))
  | "lt" => pure .lt
  | "var" => do pure (.var (← chars (← Drv.obj j "n")) (← optIdxR j))
  | "param" => do pure (.param (← chars (← Drv.obj j "w1")) (← chars (← Drv.obj j "n")) (← chars (← Drv.obj j "w2")) (← optIdxR j))
  | "err" => do pure (.err (← chars (← Drv.obj j "w1")) (← chars (← Drv.obj j "n")) (← chars (← Drv.obj j "w2")) (← optIdxR j))
  | "func" => do pure (.func (← chars (← Drv.obj j "n")) (← chars (← Drv.obj j "w")))
  | "kw" => do pure (.kw (← chars (← Drv.obj j "n")))
  | "verb" => do
    let b ← chars (← Drv.obj j "cs")
    match b with
    | c1 :: body => pure (.verb c1 body)
    | [] => throw "empty verbatim"
  | _ => throw s!"bad token kind {k}"

def hWf (j : Json) : R String := do
  let ts ← (← Drv.arr j "toks").toList.mapM tok
  let text ← chars (← Drv.obj j "text")
  let wf := wfB false ts
  let rd := renderAll ts == text
  let sc := scanTerms text == expectAll 0 ts
  pure s!"wf={b wf} render={b rd} scan={b sc}"

def handlers : List (String × (Json → Except String String)) := [("wf_check", hWf)]

end Drv.Tokens
