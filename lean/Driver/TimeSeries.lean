import Driver.Common
import FsicModel.TimeSeries
/-
Executable instances of the time-series helpers for the correspondence check.  The memory-layer functions are
run on a one-cell memory holding the input, so the reply carries (a) whether the returned array *is* the input,
(b) the input as it reads after the call, (c) the returned values.
Floats cross as IEEE bit patterns; every NaN is printed as `nan` (payloads are not part of the property).
`log` is an input: the harness sends NumPy's own `log(x)` as a table (libm is not modelled).
-/
open Lean Fsic Fsic.TS

namespace Drv.TimeSeries

def fstr (x : Float) : String := if x.isNaN then "nan" else bitsStr x

def outStr {α} (show_ : α → String) (r : Option (Mem α × Nat)) : String :=
  match r with
  | none => "NotImplementedError"
  | some (m, l) =>
    "ok|" ++ (if l == 0 then "same" else "new") ++ "|" ++ joinWith "," ((m.read 0).map show_) ++ "|" ++
      joinWith "," ((m.read l).map show_)

def run {α} (fn : String) (sub : α → α → α) (log : α → α) (xs : List α) (p : Int) (fill : α) :
    R (Option (Mem α × Nat)) :=
  match fn with
  | "lag" => pure (some (lagM ⟨[xs]⟩ 0 p fill))
  | "lead" => pure (some (leadM ⟨[xs]⟩ 0 p fill))
  | "diff" => pure (diffM sub ⟨[xs]⟩ 0 p fill)
  | "dlog" => pure (dlogM sub log ⟨[xs]⟩ 0 p fill)
  | _ => throw s!"bad fn {fn}"

def lookupLog (tbl : List (UInt64 × Float)) (x : Float) : Float :=
  match tbl.lookup x.toBits with
  | some y => y
  | none => 0.0 / 0.0

/-- kind `ts`: `{fn, dtype: "f"|"i", x, p, fill, logx?}`. -/
def handleTs (j : Json) : R String := do
  let fn ← str j "fn"
  let p ← int j "p"
  match (← str j "dtype") with
  | "f" =>
    let xs ← floats (← obj j "x")
    let fill ← floatOfJson (← obj j "fill")
    let logx ← match optObj j "logx" with
      | some v => floats v
      | none => pure #[]
    let tbl := (xs.toList.map Float.toBits).zip logx.toList
    let r ← run fn (· - ·) (lookupLog tbl) xs.toList p fill
    pure (outStr fstr r)
  | "i" =>
    let xs ← (← arr j "x").toList.mapM (·.getInt?)
    let fill ← int j "fill"
    let r ← run fn (· - ·) id xs p fill
    pure (outStr toString r)
  | d => throw s!"bad dtype {d}"

def handlers : List (String × (Lean.Json → Except String String)) :=
  [("ts", handleTs)]

end Drv.TimeSeries
