import Driver.Common
import FsicModel.Lexer
/-
Driver handlers for M2 (text level of the parser).  Strings cross the boundary as JSON arrays of code points;
replies are canonical text in which every string is a `.`-joined list of decimal code points.
-/
open Lean Fsic.Lx

namespace Drv.Lexer

def chars (j : Json) : R (List Char) := do
  let a ← j.getArr?
  let l ← a.toList.mapM fun x => do
    let n ← x.getNat?
    pure (Char.ofNat n)
  pure l

def cps (s : List Char) : String := ".".intercalate (s.map fun c => toString c.toNat)

def kindStr : Kind → String
  | .verbatim => "VERBATIM" | .invalid => "INVALID" | .keyword => "KEYWORD" | .function => "FUNCTION"
  | .parameter => "PARAMETER" | .error => "ERROR" | .variable => "VARIABLE"

def optIdx : Option (List Char) → String
  | none => "-"
  | some s => "i" ++ cps s

def matchStr (m : RawMatch) : String :=
  s!"{kindStr m.kind},{cps m.name},{optIdx m.index},{m.start},{m.stop}"

def endStr : SplitEnd → String
  | .ok => "ok" | .parserError => "ParserError" | .indentationError => "IndentationError"

def fmtStr : Fmt → String
  | .ok s => "ok:" ++ cps s
  | .fail => "fail"
  | .unmodelled => "unmodelled"

def idxStr : Index → String
  | .none => "n"
  | .int i => "i" ++ toString i
  | .str s => "s" ++ cps s

def termS (t : Fsic.Lx.Term) : String := s!"{kindStr t.kind},{cps t.name},{idxStr t.index}"

def perrStr : PErr → String
  | .parserError => "ParserError" | .indentationError => "IndentationError"
  | .symbolError => "SymbolError" | .formatFailure => "FormatFailure"

def eqOutStr : EqOut → String
  | .empty => "empty"
  | .verbatim e c => s!"verbatim|{cps e}|{cps c}"
  | .parsed l r e c => s!"parsed|{";".intercalate (l.map termS)}|{";".intercalate (r.map termS)}|{fmtStr e}|{fmtStr c}"
  | .err e => "err:" ++ perrStr e

def hScan (j : Json) : R String := do
  let s ← chars j
  pure (";".intercalate ((scanTerms s).map matchStr))

def hSplit (j : Json) : R String := do
  let s ← chars j
  let r := splitStatements s
  pure (";".intercalate (r.1.map cps) ++ "|" ++ endStr r.2)

def hNormalise (j : Json) : R String := do
  let s ← chars j
  pure (cps (normaliseWs s))

def hFormat (j : Json) : R String := do
  let t ← chars (← Drv.obj j "t")
  let a ← (← Drv.arr j "a").toList.mapM chars
  pure (fmtStr (pyFormat t a))

def hParseEq (j : Json) : R String := do
  let s ← chars j
  pure (eqOutStr (parseEquationText s))

def hEqTerms (j : Json) : R String := do
  let s ← chars j
  match equationTerms s with
  | .ok (l, r) => pure s!"ok|{";".intercalate (l.map termS)}|{";".intercalate (r.map termS)}"
  | .error e => pure ("err:" ++ perrStr e)

def hTemplate (j : Json) : R String := do
  let s ← chars j
  pure (cps (template s))

def hScript (j : Json) : R String := do
  let s ← chars j
  pure (" / ".intercalate ((parseScript s).map eqOutStr))

def b (x : Bool) : String := if x then "1" else "0"

/-- character classes of one code point: space, linebreak, idstart, idchar, fnchar, word -/
def hClasses (j : Json) : R String := do
  let n ← j.getNat?
  let c := Char.ofNat n
  pure (b (isSpace c) ++ b (isLineBreak c) ++ b (isIdStart c) ++ b (isIdChar c) ++ b (isFnChar c) ++ b (isWordU c))

def hInt (j : Json) : R String := do
  let s ← chars j
  match pyInt s with
  | some i => pure ("i" ++ toString i)
  | none => pure "none"

def hLines (j : Json) : R String := do
  let s ← chars j
  pure (";".intercalate ((splitLines s).map cps))

def hEqSearch (j : Json) : R String := do
  let s ← chars j
  pure (b (eqSearch s))

def handlers : List (String × (Json → Except String String)) :=
  [("scan", hScan), ("split", hSplit), ("normalise", hNormalise), ("format", hFormat),
   ("parse_equation_text", hParseEq), ("equation_terms", hEqTerms), ("template", hTemplate),
   ("parse_script", hScript), ("char_classes", hClasses), ("py_int", hInt), ("splitlines", hLines),
   ("eq_search", hEqSearch)]

end Drv.Lexer
