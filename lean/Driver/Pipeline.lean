import Driver.Parser
import Driver.Lexer
import FsicModel.Pipeline
/-
Driver handler for the composed parser model: kind `parse_model_text`, `{"text": [code points]}` →
`{"ok": [Symbol…]}` | `{"err": "ParserError" | "IndentationError" | "SymbolError" | "Internal"}`
(Symbols encoded as in Driver/Parser.lean).
-/
open Lean Fsic

namespace Drv.Pipeline

def errName : Pipeline.Err → String
  | .parserError => "ParserError"
  | .indentationError => "IndentationError"
  | .symbolError => "SymbolError"
  | .internal => "Internal"

def handle (j : Json) : R String := do
  let text ← Drv.Lexer.chars (← obj j "text")
  match Pipeline.parseModelText text with
  | .ok syms => pure (Json.mkObj [("ok", Drv.Parser.symsJson syms)]).compress
  | .error e => pure (Json.mkObj [("err", .str (errName e))]).compress

def handlers : List (String × (Lean.Json → Except String String)) := [("parse_model_text", handle)]

end Drv.Pipeline
