import Driver.Common
import FsicModel.Alias
import FsicModel.AliasClass
import FsicModel.AliasFail
import FsicModel.AliasCtor
import FsicModel.AliasLabel
/-
Executable instance of M8 (alias part) for the correspondence check.  Names are strings; a stored series is an
array of integers (the harness writes distinct integers, so a cell identifies the write that produced it);
labels are passed as positions (label → position is C10's subject, not C18's).
-/
open Lean Fsic.Alias

namespace Drv.Alias

def strLe (x y : String) : Bool := decide (x ≤ y)

def parsePairs (j : Json) : R (List (String × String)) := do
  (← j.getArr?).toList.mapM fun p => do
    let a ← p.getArr?
    match a.toList with
    | [k, v] => pure (← k.getStr?, ← v.getStr?)
    | _ => throw "pair expected"

def parseNames (j : Json) : R (List String) := do (← j.getArr?).toList.mapM (·.getStr?)

def pairsStr (m : List (String × String)) : String := joinWith "," (m.map fun p => p.1 ++ ">" ++ p.2)

/-- kind `alias_shorten`: `{m, names}` → `rounds|items of self.aliases|resolution of every name`, or `ValueError`
    (the `else` clause of the shortening loop). -/
def handleShorten (j : Json) : R String := do
  let m ← parsePairs (← obj j "m")
  let names ← parseNames (← obj j "names")
  match instanceAliases m with
  | .valueError => pure "ValueError"
  | .returned a =>
    let r := match shortenLoop ((dropSelf m).length + 1) 0 (dropSelf m) with
      | .exited r _ => toString r
      | .exhausted => "-"
    pure (r ++ "|" ++ pairsStr a ++ "|" ++ pairsStr (names.map fun n => (n, resolve a n)))

/-- kind `alias_prefcheck`: `{m, pref}` → `ok` | `ValueError` (cycle in `ALIASES`, or duplicate reference in the
    class-level `PREFERRED_NAMES`). -/
def handlePrefCheck (j : Json) : R String := do
  let m ← parsePairs (← obj j "m")
  let pref ← parseNames (← obj j "pref")
  match instanceAliases m with
  | .valueError => pure "ValueError"
  | .returned a => pure (if prefCheck a pref then "ok" else "ValueError")

/-- kind `alias_rename`: `{m, pref, cols}` → new column labels | `ValueError` | `ctor:ValueError`
    (`pref` = the instance's `preferred_names` at the time of the export). -/
def handleRename (j : Json) : R String := do
  let m ← parsePairs (← obj j "m")
  let pref ← parseNames (← obj j "pref")
  let cols ← parseNames (← obj j "cols")
  match instanceAliases m with
  | .valueError => pure "ctor:ValueError"
  | .returned a =>
    match exportCols strLe a pref (cols.map fun c => (c, ())) with
    | none => pure "ValueError"
    | some out => pure (joinWith "," (out.map Prod.fst))

/-! histories -/

inductive Pay where
  | int (i : Int) | list (l : List Int) | pos (i : Nat) | slice (a b : Nat)
  | bad (code : Nat)   -- 1: a value of the wrong shape; 2: a value NumPy cannot cast; 3: a label that is not in the span
  deriving Repr

def dimErr : Err := .value 1
def numpyErr : Err := .value 2

def sliceIdx (a b : Nat) : List Nat := (List.range (b + 1 - a)).map (· + a)

def E : ValOps String (Array Int) Pay where
  assign v p := match p with
    | .int c => .ok (v.map fun _ => c)
    | .list l => if l.length = v.size then .ok l.toArray else .error dimErr
    | _ => .error numpyErr
  readAt v ix := match ix with
    | .pos i => match v[i]? with | some x => .ok (.int x) | none => .error numpyErr
    | .slice a b => .ok (.list ((sliceIdx a b).filterMap fun i => v[i]?))
    | .bad 3 => .error .keyError
    | _ => .error numpyErr
  writeAt v ix p := match ix, p with
    | .pos i, .int c => if i < v.size then .ok (v.set! i c) else .error numpyErr
    | .slice a b, .int c => .ok ((sliceIdx a b).foldl (fun acc i => acc.set! i c) v)
    | .slice a b, .list l =>
      if l.length = (sliceIdx a b).length then .ok (((sliceIdx a b).zip l).foldl (fun acc il => acc.set! il.1 il.2) v)
      else .error numpyErr
    | .bad 3, _ => .error .keyError
    | _, _ => .error numpyErr
  raw _ _ _ v := v

def parsePay (j : Json) : R Pay :=
  match j with
  | .arr a => do pure (.list (← a.toList.mapM (·.getInt?)))
  | .obj _ => do pure (.bad (← nat j "bad"))
  | v => do pure (.int (← v.getInt?))

def parseIx (j : Json) : R Pay :=
  match j with
  | .arr a => match a.toList with
    | [x, y] => do pure (.slice (← x.getNat?) (← y.getNat?))
    | _ => throw "slice = [a, b]"
  | .obj _ => do pure (.bad (← nat j "bad"))
  | v => do pure (.pos (← v.getNat?))

def parseOp (j : Json) : R (Op String Pay) := do
  let k ← str j "op"
  match k with
  | "getattr" => pure (.getAttr (← str j "n"))
  | "setattr" => pure (.setAttr (← str j "n") (← parsePay (← obj j "v")))
  | "getitem" => pure (.getItem (← str j "n"))
  | "setitem" => pure (.setItem (← str j "n") (← parsePay (← obj j "v")))
  | "getat" => pure (.getAt (← str j "n") (← parseIx (← obj j "ix")))
  | "setat" => pure (.setAt (← str j "n") (← parseIx (← obj j "ix")) (← parsePay (← obj j "v")))
  | "replace" => do
    let kvs ← (← arr j "kvs").toList.mapM fun kv => do
      match (← kv.getArr?).toList with
      | [n, v] => pure (← n.getStr?, ← parsePay v)
      | _ => throw "kv expected"
    pure (.replaceValues kvs)
  | _ => throw s!"bad op {k}"

def intsStr (l : List Int) : String := joinWith "," (l.map toString)

def payStr : Pay → String
  | .int i => "i:" ++ toString i
  | .list l => "l:" ++ intsStr l
  | .pos i => "p:" ++ toString i
  | .slice a b => "sl:" ++ toString a ++ ":" ++ toString b
  | .bad c => "bad:" ++ toString c

def errStr : Err → String
  | .attributeError => "AttributeError"
  | .keyError => "KeyError"
  | .initialisationError => "InitialisationError"
  | .value 1 => "DimensionError"
  | .value _ => "ValueError"

def resStr : Res (Array Int) Pay → String
  | .done => "ok"
  | .series v => "l:" ++ intsStr v.toList
  | .value p => payStr p
  | .err e => errStr e

def storeStr (s : Store String (Array Int) Pay) : String :=
  joinWith ";" (s.vars.map fun nv => nv.1 ++ "=" ++ intsStr nv.2.toList) ++ "|" ++
  joinWith ";" (s.attrs.map fun na => na.1 ++ "=" ++ payStr na.2)

/-- kind `alias_history`: `{m, n, names, strict, kwargs, ops}` →
    `results…|series|attributes` or `ctor:<error>`. -/
def handleHistory (j : Json) : R String := do
  let m ← parsePairs (← obj j "m")
  let n ← nat j "n"
  let names ← parseNames (← obj j "names")
  let strict ← bool j "strict"
  let kwargs ← (← arr j "kwargs").toList.mapM fun kv => do
    match (← kv.getArr?).toList with
    | [k, v] => pure (← k.getStr?, ← parsePay v)
    | _ => throw "kwarg expected"
  let ops ← (← arr j "ops").toList.mapM parseOp
  match instanceAliases m with
  | .valueError => pure "ctor:ValueError"
  | .returned a =>
    match ctorAliased a strict names (Pay.int 0) kwargs with
    | .error e => pure ("ctor:" ++ errStr e)
    | .ok init =>
      let zero : Array Int := Array.replicate n 0
      let vars : Except Err (List (String × Array Int)) := init.mapM fun nv => do
        pure (nv.1, ← E.assign zero nv.2)
      match vars with
      | .error e => pure ("ctor:" ++ errStr e)
      | .ok vars =>
        let (s', rs) := run (aliased E a) ⟨strict, vars, []⟩ ops
        pure (joinWith " " (rs.map resStr) ++ "|" ++ storeStr s')


/-! histories with failing operations on the whole instance (`FsicModel/AliasFail.lean`) -/

def xerrStr : XErr → String
  | .attributeError => "AttributeError"
  | .notImplementedError => "NotImplementedError"
  | .duplicateNameError => "DuplicateNameError"
  | .dimensionError => "DimensionError"
  | .valueError => "ValueError"

def xresStr : XRes String (Array Int) Pay → String
  | .acc r => resStr r
  | .ok => "ok"
  | .labels l => "L:" ++ joinWith "," l
  | .fail e => xerrStr e

/-- `closest` is `difflib`'s business: the harness passes, with every operation, what `get_closest_match` has to
    return for the name that operation can be rejected for (`alts`). -/
def xenv (n : Nat) (container : Bool) (tail alts : List String) : Env String (Array Int) Pay where
  E := E
  closest := fun _ _ => alts
  us := fun x => "_" ++ x
  newSeries := fun p => match p with
    | .int c => .ok (Array.replicate n c)
    | .list l => if l.length = n then .ok l.toArray else .error .dimensionError
    | .bad 1 => .error .dimensionError
    | _ => .error .valueError
  le := strLe
  internal := fun x => !container && x.startsWith "_"
  tail := tail
  prefName := "preferred_names"

def parseXOp (j : Json) : R (XOp String Pay × List String) := do
  let k ← str j "op"
  let alts ← match optObj j "alts" with
    | some a => parseNames a
    | none => pure []
  match k with
  | "eval" => pure (.eval (← parseNames (← obj j "free")), alts)
  | "addvar" => pure (.addVariable (← str j "n") (← parsePay (← obj j "v")), alts)
  | "setpref" => pure (.setPref (← parseNames (← obj j "l")), alts)
  | "export" => pure (.export (← bool j "ua"), alts)
  | "closest" => pure (.closestMatch (← str j "n"), alts)
  | _ => pure (.acc (← parseOp j), alts)

/-- What the harness compares after every operation: `names | index | series of the names | attributes | aliases |
    preferred_names`. -/
def objStr (o : Obj String (Array Int) Pay) : String :=
  joinWith "," o.names ++ "|" ++ joinWith "," o.store.index ++ "|" ++
  joinWith ";" ((o.store.vars.filter fun nv => nv.1 ∈ o.names).map fun nv => nv.1 ++ "=" ++ intsStr nv.2.toList) ++ "|" ++
  joinWith "," o.store.attrNames ++ "|" ++ pairsStr o.aliases ++ "|" ++ joinWith "," o.pref

/-- kind `alias_xhistory`: `{m, pref, names, tail, attrs, container, strict, n, kwargs, ops}` → per operation
    `result @ state`, joined by ` ## `, or `ctor:<error>`. -/
def handleXHistory (j : Json) : R String := do
  let m ← parsePairs (← obj j "m")
  let pref ← parseNames (← obj j "pref")
  let n ← nat j "n"
  let names ← parseNames (← obj j "names")
  let tail ← parseNames (← obj j "tail")
  let attrs ← parseNames (← obj j "attrs")
  let container ← bool j "container"
  let strict ← bool j "strict"
  let kwargs ← (← arr j "kwargs").toList.mapM fun kv => do
    match (← kv.getArr?).toList with
    | [k, v] => pure (← k.getStr?, ← parsePay v)
    | _ => throw "kwarg expected"
  let ops ← (← arr j "ops").toList.mapM parseXOp
  match instanceAliases m with
  | .valueError => pure "ctor:ValueError"
  | .returned a =>
    if !prefCheck a pref then pure "ctor:ValueError" else
    match ctorAliased a strict names (Pay.int 0) kwargs with
    | .error e => pure ("ctor:" ++ errStr e)
    | .ok init =>
      let zero : Array Int := Array.replicate n 0
      let vars : Except Err (List (String × Array Int)) := init.mapM fun nv => do
        pure (nv.1, ← E.assign zero nv.2)
      match vars with
      | .error e => pure ("ctor:" ++ errStr e)
      | .ok vars =>
        let o0 : Obj String (Array Int) Pay :=
          ⟨⟨strict, tail.map (fun t => (t, zero)) ++ vars, attrs.map fun x => (x, Pay.int 0)⟩, names, a, pref, false⟩
        let (_, outs) := ops.foldl (fun (acc : Obj String (Array Int) Pay × List String) oa =>
          let (o', r) := xstep (xenv n container tail oa.2) acc.1 oa.1
          (o', acc.2 ++ [xresStr r ++ " @ " ++ objStr o'])) (o0, [])
        pure (joinWith " ## " (objStr o0 :: outs))

/-! export with options -/

def isInternal (s : String) : Bool := s.startsWith "_"

/-- kind `alias_rename_opts`: `{m, pref, names, status, iterations, include_internal}` → the labels of
    `to_dataframe(use_aliases=True, status=, iterations=, include_internal=)` for an object whose `names` are
    `names` | `ValueError` | `ctor:ValueError`.  (A plain container: status = iterations = false,
    include_internal = true.) -/
def handleRenameOpts (j : Json) : R String := do
  let m ← parsePairs (← obj j "m")
  let pref ← parseNames (← obj j "pref")
  let names ← parseNames (← obj j "names")
  let o : ExportOpts := ⟨← bool j "status", ← bool j "iterations", ← bool j "include_internal"⟩
  match instanceAliases m with
  | .valueError => pure "ctor:ValueError"
  | .returned a =>
    match exportOpts strLe a pref isInternal o (names.map fun c => (c, ())) ("status", ()) ("iterations", ()) with
    | none => pure "ValueError"
    | some out => pure (joinWith "," (out.map Prod.fst))

/-! class hierarchies -/

def optPairs (j : Json) (k : String) : R (Option (List (String × String))) :=
  match optObj j k with
  | none => pure none
  | some v => do pure (some (← parsePairs v))

def optNames (j : Json) (k : String) : R (Option (List String)) :=
  match optObj j k with
  | none => pure none
  | some v => do pure (some (← parseNames v))

def optNat (j : Json) (k : String) : R (Option Nat) :=
  match optObj j k with
  | none => pure none
  | some v => do pure (some (← v.getNat?))

def parseEvent (j : Json) : R (Event String) := do
  let k ← str j "e"
  match k with
  | "class" => pure (.defClass (← optNat j "parent") (← optPairs j "aliases") (← optNames j "pref"))
  | "new" => pure (.new (← nat j "cls"))
  | "set" => pure (.setAliases (← nat j "cls") (← parsePairs (← obj j "aliases")))
  | "setpref" => pure (.setPref (← nat j "cls") (← parseNames (← obj j "pref")))
  | "put" => pure (.putAlias (← nat j "cls") (← str j "k") (← str j "v"))
  | "del" => pure (.delAliases (← nat j "cls"))
  | _ => throw s!"bad event {k}"

def instStr (names cols : List String) : Inst String → String
  | .valueError _ => "ValueError"
  | .ok c a pref =>
    toString c ++ "|" ++ pairsStr a ++ "|" ++ joinWith "," pref ++ "|" ++
    pairsStr (names.map fun n => (n, resolve a n)) ++ "|" ++
    (match exportCols strLe a pref (cols.map fun c => (c, ())) with
     | none => "ValueError"
     | some out => joinWith "," (out.map Prod.fst))

/-- kind `alias_hier`: `{events, names, cols}` → one entry per constructor call, in order, joined by ` ; `:
    `cls|items of self.aliases|preferred_names|resolution of every name|export labels` or `ValueError`. -/
def handleHier (j : Json) : R String := do
  let evs ← (← arr j "events").toList.mapM parseEvent
  let names ← parseNames (← obj j "names")
  let cols ← parseNames (← obj j "cols")
  let w := runEvents (World.init : World String) evs
  pure (joinWith " ; " (w.insts.map (instStr names cols)))

/-! constructor routes (`FsicModel/AliasCtor.lean`) -/

def parseKvs (j : Json) (k : String) : R (List (String × Pay)) := do
  (← arr j k).toList.mapM fun kv => do
    match (← kv.getArr?).toList with
    | [n, v] => pure (← n.getStr?, ← parsePay v)
    | _ => throw "label/value pair expected"

def routeErrStr : Err → String
  | .value 3 => "TypeError"
  | e => errStr e

/-- The series the constructor builds from what it handed to `add_variable` (`n` periods, default 0). -/
def initStr (n : Nat) (r : Except Err (List (String × Pay))) : String :=
  match r with
  | .error e => "ctor:" ++ routeErrStr e
  | .ok init =>
    let zero : Array Int := Array.replicate n 0
    let vars : Except Err (List (String × Array Int)) := init.mapM fun nv => do pure (nv.1, ← E.assign zero nv.2)
    match vars with
    | .error e => "ctor:" ++ routeErrStr e
    | .ok vars => joinWith ";" (vars.map fun nv => nv.1 ++ "=" ++ intsStr nv.2.toList)

/-- kind `alias_ctor_route`: `{route, m, pref, names, strict, n, cols, extra}` → `Y=…;C=…` | `ctor:<error>` |
    `export:ValueError`.  `route`: `kwargs` (`cols` are the keywords), `from_dataframe` (`cols` = the frame's columns,
    `extra` = the extra keywords), `linker`, `roundtrip` (`cols` = the plain export: one column per variable). -/
def handleCtorRoute (j : Json) : R String := do
  let m ← parsePairs (← obj j "m")
  let pref ← parseNames (← obj j "pref")
  let names ← parseNames (← obj j "names")
  let strict ← bool j "strict"
  let n ← nat j "n"
  let cols ← parseKvs j "cols"
  let extra ← parseKvs j "extra"
  let route ← str j "route"
  match instanceAliases m with
  | .valueError => pure "ctor:ValueError"
  | .returned a =>
    if !prefCheck a pref then pure "ctor:ValueError" else
    match route with
    | "kwargs" => pure (initStr n (ctorAliased a strict names (Pay.int 0) cols))
    | "from_dataframe" => pure (initStr n (fromDataframeAliased a strict names (Pay.int 0) cols extra))
    | "linker" => pure (initStr n (linkerCtorAliased a names (Pay.int 0) cols))
    | "roundtrip" =>
      match roundTrip strLe a pref strict names (Pay.int 0) cols with
      | none => pure "export:ValueError"
      | some r => pure (initStr n r)
    | _ => throw s!"bad route {route}"

/-! label-indexed access on a span of names (`FsicModel/AliasLabel.lean`) -/

abbrev LP := LPay String Int

def optLabel (j : Json) (k : String) : R (Option String) :=
  match optObj j k with
  | none => pure none
  | some .null => pure none
  | some v => do pure (some (← v.getStr?))

def parseLIx (j : Json) : R LP :=
  match optObj j "l" with
  | some l => do pure (.ix (.label (← l.getStr?)))
  | none => do
    let st := match optObj j "st" with
      | some v => v.getNat?.toOption.getD 1
      | none => 1
    pure (.ix (.slice (← optLabel j "a") (← optLabel j "b") st))

def parseLVal (j : Json) : R LP :=
  match j with
  | .arr a => do pure (.list (← a.toList.mapM (·.getInt?)))
  | v => do pure (.scalar (← v.getInt?))

def parseLOp (j : Json) : R (Op String LP) := do
  let k ← str j "op"
  match k with
  | "getitem" => pure (.getItem (← str j "n"))
  | "setitem" => pure (.setItem (← str j "n") (← parseLVal (← obj j "v")))
  | "getattr" => pure (.getAttr (← str j "n"))
  | "setattr" => pure (.setAttr (← str j "n") (← parseLVal (← obj j "v")))
  | "getat" => pure (.getAt (← str j "n") (← parseLIx (← obj j "ix")))
  | "setat" => pure (.setAt (← str j "n") (← parseLIx (← obj j "ix")) (← parseLVal (← obj j "v")))
  | _ => throw s!"bad op {k}"

def lpStr : LP → String
  | .scalar i => "i:" ++ toString i
  | .list l => "l:" ++ intsStr l
  | .ix _ => "ix"

def lresStr : Res (List Int) LP → String
  | .done => "ok"
  | .series v => "l:" ++ intsStr v
  | .value p => lpStr p
  | .err e => errStr e

/-- kind `alias_label_history`: `{m, span, vars: [[name, [ints]]], strict, all, ops}` → `results…|series`
    (`all` = run the variant that resolves every `str` of the key, which is NOT the code). -/
def handleLabelHistory (j : Json) : R String := do
  let m ← parsePairs (← obj j "m")
  let span ← parseNames (← obj j "span")
  let strict ← bool j "strict"
  let all := match optObj j "all" with
    | some (.bool b) => b
    | _ => false
  let vars ← (← arr j "vars").toList.mapM fun nv => do
    match (← nv.getArr?).toList with
    | [n, v] => pure (← n.getStr?, ← (← v.getArr?).toList.mapM (·.getInt?))
    | _ => throw "name/series pair expected"
  let ops ← (← arr j "ops").toList.mapM parseLOp
  match instanceAliases m with
  | .valueError => pure "ctor:ValueError"
  | .returned a =>
    let step := if all then aliasedAll span a else aliased (labelOps span) a
    let (s', rs) := run step ⟨strict, vars, []⟩ ops
    pure (joinWith " " (rs.map lresStr) ++ "|" ++ joinWith ";" (s'.vars.map fun nv => nv.1 ++ "=" ++ intsStr nv.2))

end Drv.Alias

namespace Drv.Alias
def handlers : List (String × (Lean.Json → Except String String)) :=
  [("alias_shorten", handleShorten), ("alias_prefcheck", handlePrefCheck), ("alias_rename", handleRename),
   ("alias_history", handleHistory), ("alias_xhistory", handleXHistory), ("alias_rename_opts", handleRenameOpts), ("alias_hier", handleHier),
   ("alias_ctor_route", handleCtorRoute), ("alias_label_history", handleLabelHistory)]
end Drv.Alias
