import Driver.Common
import FsicModel.Reindex
/-
Driver handler for the reindex model.
  reindex : {"kind": "list"|"numpy"|"table", "model": bool, "old": [label ids], "new": [label ids],
             "posmap": [int|null, …]   (kind = table: pandas `in` / `get_loc` answered by the harness),
             "strict": bool, "strict_arg": null|bool, "fill_value": pv, "fills": [[name, pv], …],
             "vars": [[name, dtype, [values]], …]}
    dtype: {"k": kind, "n": itemsize, "name": str(dtype), "casts": [[pv, text|null], …]}
    values: float64 → IEEE bits, integer-like → int, bool → bool, <U → string, anything else → canonical text
    pv: null | {"b": bool} | {"i": int} | {"f": bits, "int": int|null, "str": text} | {"s": text}
  reply: `ok:` + JSON [[name, dtype, [values]], …] (floats: "nan" or bits) | `err:<KeyError|coercion|IndexError|unmodelled>`
-/
open Lean Fsic.Reindex

namespace Drv.Reindex

def parsePyVal (j : Json) : R PyVal :=
  match j with
  | .null => pure .none
  | _ =>
    match j.getObjVal? "b" with
    | .ok v => do pure (.b (← v.getBool?))
    | .error _ => match j.getObjVal? "i" with
      | .ok v => do pure (.i (← v.getInt?))
      | .error _ => match j.getObjVal? "f" with
        | .ok v => do
          let asInt ← match optObj j "int" with
            | some x => do pure (some (← x.getInt?))
            | none => pure none
          pure (.f (← v.getNat?) asInt (← str j "str").toList)
        | .error _ => do pure (.s (← str j "s").toList)

/-- Bytes elements cross as "y:" + latin-1 text. -/
def castVal (kind : Char) (t : String) : Val :=
  if kind == 'S' then .y (t.toList.drop 2) else .o t.toList

/-- `{"k": kind char, "n": item size, "name": str(dtype), "casts": [[pv, text|null], …]}` — the model decides the
    branch (`mkDType`); `casts` (NumPy's own cast of each candidate fill value) is used by pass-through dtypes only. -/
def parseDType (j : Json) : R DType := do
  let k ← str j "k"
  let kind := k.toList.headD ' '
  let casts ← (← arr j "casts").toList.mapM fun row => do
    match (← row.getArr?).toList with
    | [pv, v] =>
      let x ← match v with
        | .null => pure none
        | t => do pure (some (castVal kind (← t.getStr?)))
      pure ((← parsePyVal pv), x)
    | _ => throw "bad cast row"
  pure (mkDType kind (← nat j "n") casts)

def parseVal (d : DType) (j : Json) : R Val :=
  match d with
  | .float => do pure (.f (← j.getNat?))
  | .int _ _ => do pure (.i (← j.getInt?))
  | .bool => do pure (.b (← j.getBool?))
  | .str _ => do pure (.s (← j.getStr?).toList)
  | .other _ => do pure (.o (← j.getStr?).toList)
  | .bytes _ => do pure (.y ((← j.getStr?).toList.drop 2))

def parseVar (j : Json) : R ((String × Series) × String) := do
  match (← j.getArr?).toList with
  | [n, d, vs] =>
    let dt ← parseDType d
    pure (((← n.getStr?), ⟨dt, ← (← vs.getArr?).toList.mapM (parseVal dt)⟩), (← str d "name"))
  | _ => throw "bad var"

def isNaNBits (b : Nat) : Bool := (b >>> 52) % 2048 == 2047 && b % (2 ^ 52) != 0

def valJson : Val → Json
  | .f b => if isNaNBits b then "nan" else Json.num b
  | .i v => Json.num v
  | .b v => Json.bool v
  | .s v => Json.str (String.ofList v)
  | .o t => Json.str (String.ofList t)
  | .y v => Json.str ("y:" ++ String.ofList v)

def errStr : Err → String
  | .keyError => "KeyError" | .coercion => "coercion" | .indexError => "IndexError" | .unmodelled => "unmodelled"

def handleReindex (j : Json) : R String := do
  let old ← (← arr j "old").toList.mapM (·.getNat?)
  let new ← (← arr j "new").toList.mapM (·.getNat?)
  let pvars ← (← arr j "vars").toList.mapM parseVar
  let vars := pvars.map (·.1)
  let dnames := pvars.map (·.2)
  let o : Obj Unit := ⟨old, vars, ← bool j "strict", ()⟩
  let sa ← match optObj j "strict_arg" with
    | some v => do pure (some (← v.getBool?))
    | none => pure none
  let fv ← parsePyVal (← obj j "fill_value")
  let fills ← (← arr j "fills").toList.mapM fun kv => do
    match (← kv.getArr?).toList with
    | [k, v] => pure ((← k.getStr?), (← parsePyVal v))
    | _ => throw "bad fill"
  let isModel ← bool j "model"
  let r ← match (← str j "kind") with
    | "list" => pure ((if isModel then reindexModel else reindex) SpanKind.list o new fv sa fills)
    | "numpy" => pure ((if isModel then reindexModel else reindex) SpanKind.numpy o new fv sa fills)
    | "table" => do
      let pm ← (← arr j "posmap").toList.mapM fun x => match x with
        | .null => pure none
        | v => do pure (some (← v.getNat?))
      pure ((if isModel then reindexModelWith else reindexWith) o new pm fv sa fills)
    | k => throw s!"bad kind {k}"
  match r with
  | .error e => pure ("err:" ++ errStr e)
  | .ok r =>
    pure ("ok:" ++ Json.compress (Json.arr ((r.vars.zip dnames).map fun (nv, dn) =>
      Json.arr #[Json.str nv.1, Json.str dn, Json.arr (nv.2.data.map valJson).toArray]).toArray))

def handlers : List (String × (Lean.Json → Except String String)) :=
  [("reindex", handleReindex)]

end Drv.Reindex
