import Driver.Common
import FsicModel.Expr
/-
Executable instance of M4 for the correspondence checks of C01 / C20.

Tokens cross as JSON arrays: ["a", kind, name, k] (k an integer offset, or a string = named period text),
["f", name], ["k", keyword], ["v", verbatim text], ["c", lexeme].

kind `expr_forms`  {"stmts": [[token…]…]}  →  JSON
   {"eq": [[lexeme…]…], "code": [[lexeme…]…], "tree": [tree|null…], "eqtree": [tree|null…], "order": [stmt index…],
    "terms": [[[name, offset|label]…]|null…], "strict": [bool|null…],
    "nodes": [[label, stmt index|null]…], "edges": [[label, label]…]}
kind `eval_pass`   {"stmts": …, "data": {name: [bits…]}, "t": int, "lits": {text: bits}, "labels": {label: pos}}
   →  {"ok": true, "data": {name: [bits…]}, "reads": [[name,pos]…], "writes": [[name,pos]…]} | {"ok": false, "why": …}
   over IEEE doubles for + − × ÷, unary minus, comparisons, and/or/not, if/else, max/min/abs (libm functions and
   `**` stay on the Python side).
-/
open Lean Fsic.M4

namespace Drv.Expr

def parseKind (s : String) : R Kind :=
  match s with
  | "var" => pure .var | "param" => pure .param | "error" => pure .error
  | _ => throw s!"bad kind {s}"

def parseTok (j : Json) : R (Tok SAtom) := do
  let a ← j.getArr?
  let tag ← (a[0]?.getD Json.null).getStr?
  match tag with
  | "a" =>
    let kind ← parseKind (← (a[1]?.getD Json.null).getStr?)
    let name ← (a[2]?.getD Json.null).getStr?
    let ix : Json := a[3]?.getD Json.null
    match ix with
    | Json.str l => pure (.atom ⟨kind, name, .named l⟩)
    | _ => pure (.atom ⟨kind, name, .rel (← ix.getInt?)⟩)
  | "f" => pure (.func (← (a[1]?.getD Json.null).getStr?))
  | "k" => pure (.kw (← (a[1]?.getD Json.null).getStr?))
  | "v" => pure (.verb (← (a[1]?.getD Json.null).getStr?))
  | "c" => pure (.chunk (← (a[1]?.getD Json.null).getStr?))
  | _ => throw s!"bad token tag {tag}"

def parseStmts (j : Json) : R (List (List (Tok SAtom))) := do
  (← arr j "stmts").toList.mapM fun s => do (← s.getArr?).toList.mapM parseTok

def jstrs (xs : List String) : Json := Json.arr (xs.map Json.str).toArray

def binName : BinOp → String
  | .add => "add" | .sub => "sub" | .mul => "mul" | .div => "div" | .pow => "pow"
  | .lt => "lt" | .gt => "gt" | .le => "le" | .ge => "ge" | .eq => "eq" | .ne => "ne"

def tidxInt : TIdx → Int
  | .zero => 0
  | .plus n => n
  | .minus n => -(n : Int)

def atomJson : TAtom → Json
  | .slot x ix => Json.arr #["slot", x, Json.num (JsonNumber.fromInt (tidxInt ix))]
  | .item x l => Json.arr #["item", x, l]

mutual
def treeJson : Expr TAtom → Json
  | .num s => Json.arr #["num", s]
  | .atom a => atomJson a
  | .verb t => Json.arr #["verb", t]
  | .neg e => Json.arr #["neg", treeJson e]
  | .not e => Json.arr #["not", treeJson e]
  | .bin op l r => Json.arr #[Json.str (binName op), treeJson l, treeJson r]
  | .and l r => Json.arr #["and", treeJson l, treeJson r]
  | .or l r => Json.arr #["or", treeJson l, treeJson r]
  | .call f args => Json.arr #["call", f, Json.arr (argsJson args).toArray]
  | .ite a c b => Json.arr #["ite", treeJson a, treeJson c, treeJson b]
def argsJson : Args TAtom → List Json
  | .nil => []
  | .cons e rest => treeJson e :: argsJson rest
end

def stmtTreeJson (ts : List (Tok TAtom)) : Json :=
  match parseStmt ts with
  | some eq => Json.arr #["assign", atomJson eq.lhs, treeJson eq.rhs]
  | none => Json.null

def idxJson : Idx → Json
  | .rel k => Json.num (JsonNumber.fromInt k)
  | .named l => Json.str l

def nodeLabel : Node TAtom → String
  | .term a => String.join a.eqLexemes
  | .func n => n
  | .kw n => n
  | .verb t => "`" ++ t ++ "`"

def indexOf? {γ : Type} [BEq γ] (xs : List γ) (x : γ) : Option Nat :=
  (xs.zipIdx.find? fun p => p.1 == x).map (·.2)

def handleForms (j : Json) : R String := do
  let stmts ← parseStmts j
  let eqs := stmts.map eqForm
  let order := (orderStmts stmts).filterMap fun ts => indexOf? stmts ts
  let terms := stmts.map fun ts =>
    match parseStmt ts with
    | some eq => Json.arr ((eq.rhs.terms.map fun a => Json.arr #[a.name, idxJson a.idx]).toArray)
    | none => Json.null
  let strict := stmts.map fun ts =>
    match parseStmt ts with
    | some eq => Json.bool eq.rhs.strict
    | none => Json.null
  let nodes := (graphNodes eqs).map fun (n, e) =>
    Json.arr #[nodeLabel n, match e with
      | some ts => (match indexOf? eqs ts with | some i => Json.num (JsonNumber.fromNat i) | none => Json.null)
      | none => Json.null]
  let edges := (graphEdges eqs).map fun (x, y) => Json.arr #[nodeLabel x, nodeLabel y]
  let out := Json.mkObj [
    ("eq", Json.arr (stmts.map fun ts => jstrs (eqLexemes ts)).toArray),
    ("code", Json.arr (stmts.map fun ts => jstrs (codeLexemes ts)).toArray),
    ("tree", Json.arr (stmts.map fun ts => stmtTreeJson (codeForm ts)).toArray),
    ("eqtree", Json.arr (stmts.map fun ts => stmtTreeJson (eqForm ts)).toArray),
    ("order", Json.arr (order.map fun i => Json.num (JsonNumber.fromNat i)).toArray),
    ("terms", Json.arr terms.toArray),
    ("strict", Json.arr strict.toArray),
    ("nodes", Json.arr nodes.toArray),
    ("edges", Json.arr edges.toArray)]
  pure out.compress

/-! IEEE-double instance -/

def b2f (b : Bool) : Float := if b then 1.0 else 0.0

def truthyF (x : Float) : Bool := x != 0.0

def pyMax : List Float → Float
  | [] => 0.0
  | x :: xs => xs.foldl (fun acc y => if y > acc then y else acc) x
def pyMin : List Float → Float
  | [] => 0.0
  | x :: xs => xs.foldl (fun acc y => if y < acc then y else acc) x

def floatOps (lits : List (String × Float)) : Ops Float where
  lit s := (lits.lookup s).getD 0.0
  verb _ := 0.0
  neg x := -x
  not x := b2f (!truthyF x)
  bin op x y := match op with
    | .add => x + y | .sub => x - y | .mul => x * y | .div => x / y | .pow => 0.0
    | .lt => b2f (x < y) | .gt => b2f (x > y) | .le => b2f (x ≤ y) | .ge => b2f (x ≥ y)
    | .eq => b2f (x == y) | .ne => b2f (x != y)
  truthy := truthyF
  call f args := match f with
    | "max" => pyMax args
    | "min" => pyMin args
    | "abs" => (args.headD 0.0).abs
    | _ => 0.0

/-- Python evaluates an operator on integer literals in integer arithmetic (no negative zero, no rounding); the
    float instance does not model that, so such statements are left to the Python-side oracle. -/
def isIntLit (s : String) : Bool := s.toList.all Char.isDigit

def intTyped : Expr SAtom → Bool
  | .num s => isIntLit s
  | .neg e => intTyped e
  | .bin op l r => (op == .add || op == .sub || op == .mul) && intTyped l && intTyped r
  | _ => false

mutual
def supported (lits : List (String × Float)) : Expr SAtom → Bool
  | .num s => (lits.lookup s).isSome
  | .atom _ => true
  | .verb _ => false
  | .neg e => !intTyped e && supported lits e
  | .not e => supported lits e
  | .bin op l r => op != .pow && !(intTyped l && intTyped r) && supported lits l && supported lits r
  | .and l r => supported lits l && supported lits r
  | .or l r => supported lits l && supported lits r
  | .call f args => (replaceFn f == "max" || replaceFn f == "min" || (replaceFn f == "abs" && nargs args == 1)) && supportedA lits args
  | .ite a c b => supported lits a && supported lits c && supported lits b
def supportedA (lits : List (String × Float)) : Args SAtom → Bool
  | .nil => true
  | .cons e rest => supported lits e && supportedA lits rest
def nargs : Args SAtom → Nat
  | .nil => 0
  | .cons _ rest => nargs rest + 1
end

def cellsJson (cs : List (String × Int)) : Json :=
  Json.arr (cs.map fun (x, i) => Json.arr #[x, Json.num (JsonNumber.fromInt i)]).toArray

def handleEvalPass (j : Json) : R String := do
  let stmts ← parseStmts j
  let t ← int j "t"
  let dataJ ← (← obj j "data").getObj?
  let data ← dataJ.toList.mapM fun (k, v) => do pure (k, ← floats v)
  let litsJ ← (← obj j "lits").getObj?
  let lits ← litsJ.toList.mapM fun (k, v) => do pure (k, ← floatOfJson v)
  let labelsJ ← (← obj j "labels").getObj?
  let labels ← labelsJ.toList.mapM fun (k, v) => do pure (k, ← v.getInt?)
  let loc : String → Int := fun l => (labels.lookup l).getD 0
  let eqs := (orderStmts stmts).filterMap parseStmt
  if eqs.length != stmts.length then
    return (Json.mkObj [("ok", false), ("why", "parse")]).compress
  if !(eqs.all fun e => supported lits e.rhs) then
    return (Json.mkObj [("ok", false), ("why", "unsupported")]).compress
  let s0 : Store Float := fun x i => ((data.lookup x).getD #[])[i.toNat]?.getD 0.0
  -- The model's store is a function: after k dependent assignments a lookup re-evaluates the whole chain, which is
  -- exponential in k.  The driver therefore MATERIALISES every written cell (same `denoteR`, `scriptOps`, `readSpec`,
  -- `Idx.pos` as `assign` / `evalPassR`; last write wins) and cross-checks against `evalPassR` itself on short programs.
  let ops := floatOps lits
  let step := fun (acc : List ((String × Int) × Float) × List (String × Int) × List (String × Int)) (e : Equation SAtom) =>
    let s : Store Float := fun x i => match acc.1.lookup (x, i) with | some v => v | none => s0 x i
    let r := denoteR (scriptOps ops) (readSpec s t loc) e.rhs
    let cell := (e.lhs.name, e.lhs.idx.pos t loc)
    ((cell, r.1) :: acc.1, acc.2.1 ++ r.2.map (fun a => (a.name, a.idx.pos t loc)), acc.2.2 ++ [cell])
  let (written, reads, writes) := eqs.foldl step ([], [], [])
  let s1 : Store Float := fun x i => match written.lookup (x, i) with | some v => v | none => s0 x i
  if eqs.length ≤ 5 then
    let (m1, mreads, mwrites) := evalPassR ops loc t eqs s0
    let same := mreads == reads && mwrites == writes &&
      data.all fun (x, row) => (List.range row.size).all fun i =>
        (m1 x (Int.ofNat i)).toBits == (s1 x (Int.ofNat i)).toBits
    if !same then throw "materialised pass differs from the model's evalPassR"
  let outData := data.map fun (x, row) =>
    (x, Json.arr ((List.range row.size).map fun i => Json.num (JsonNumber.fromNat (s1 x (Int.ofNat i)).toBits.toNat)).toArray)
  pure (Json.mkObj [("ok", true), ("data", Json.mkObj outData), ("reads", cellsJson reads),
                    ("writes", cellsJson writes)]).compress

def handlers : List (String × (Lean.Json → Except String String)) :=
  [("expr_forms", handleForms), ("eval_pass", handleEvalPass)]

end Drv.Expr
