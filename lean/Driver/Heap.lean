import Driver.Common
import FsicModel.Heap
/-
Executable instance of M7 for the correspondence check of C11.  A request is a *program*: class definitions (which
class attributes are the same object), constructor calls, the three copy routes, mutating operations through a
root, and `snap` commands.  A snapshot prints the sharing graph (access paths grouped by the object they lead to)
and the contents of every list / dict of strings, for the listed roots.  The Python harness runs the same program
on real fsic objects and extracts the same two things with `id()` / `np.shares_memory`.
-/
open Lean Fsic.Heap

namespace Drv.Heap

structure St where
  heap : Heap := []
  classes : List (String × ClassDesc) := []
  roots : List (String × Loc) := []
  groups : List (String × Loc) := []
  out : List String := []
  copyHyps : String := ""    -- per `copy`: do the hypotheses of copy_fresh / copy_observationally_equal hold? (T/F)

def classDescs (st : St) : List ClassDesc := st.classes.map (·.2)

def classIndex (st : St) (name : String) : Option Nat := st.classes.findIdx? (·.1 == name)

def strs (j : Json) : R (List String) := do (← j.getArr?).toList.mapM (·.getStr?)

def parseImm (j : Json) : R Imm :=
  match j with
  | .str s => pure (.str s)
  | .null => pure .none
  | .num _ => do pure (.int (← j.getInt?))
  | _ => do
    match j.getObjVal? "tag" with
    | .ok t => pure (.tag (← t.getStr?))
    | .error _ => throw "bad immutable value"

/-- Allocate the objects of a class definition; attributes with the same group label are the same object. -/
def defClass (st : St) (j : Json) : R St := do
  let name ← str j "name"
  let base ← match (← str j "base") with
    | "container" => pure Base.container
    | "model" => pure Base.model
    | "linker" => pure Base.linker
    | b => throw s!"bad base {b}"
  let mut heap := st.heap
  let mut groups := st.groups
  let mut slots : List (String × Val) := []
  for a in (← arr j "attrs") do
    let k ← str a "k"
    let kind ← str a "kind"
    if kind == "none" then
      slots := slots ++ [(k, .imm .none)]
    else
      let g ← str a "g"
      match groups.lookup g with
      | some l => slots := slots ++ [(k, .ref l)]
      | none =>
        let o ← if kind == "list" then do pure (strList (← strs (← obj a "items")))
          else do
            let es ← (← arr a "entries").toList.mapM fun e => do
              let kv ← strs e
              match kv with
              | [x, y] => pure (x, Val.imm (.str y))
              | _ => throw "bad entry"
            pure (Obj.mk .dict es)
        groups := groups ++ [(g, heap.length)]
        slots := slots ++ [(k, .ref heap.length)]
        heap := heap ++ [o]
  let cd : ClassDesc := ⟨base, ← bool j "alias", ← bool j "tracer", heap.length⟩
  pure { st with heap := heap ++ [⟨.cls, slots⟩], groups := groups, classes := st.classes ++ [(name, cd)],
                 roots := st.roots ++ [(name, heap.length)] }

def rootLoc (st : St) (r : String) : R Loc :=
  match st.roots.lookup r with
  | some l => pure l
  | none => throw s!"unknown root {r}"

def setRoot (st : St) (r : String) (l : Loc) : St :=
  { st with roots := (st.roots.filter (·.1 != r)) ++ [(r, l)] }

def parseOp (st : St) : Nat → Json → R Op
  | 0, _ => throw "op nesting too deep"
  | fuel + 1, j => do
  let k ← str j "o"
  match k with
  | "setCell" => pure (.setCell (← str j "x") (← nat j "i") (← parseImm (← obj j "v")))
  | "rebind" => pure (.rebind (← str j "x") (← nat j "n"))
  | "setAt" => pure (.setAt (← strs (← obj j "f")) (← str j "k") (← parseImm (← obj j "v")))
  | "buildAttr" =>
    let nodes ← (← arr j "nodes").toList.mapM fun nd => do
      let kind ← match (← str nd "kind") with
        | "list" => pure Kind.list
        | "dict" => pure Kind.dict
        | "tuple" => pure Kind.tuple
        | "array" => pure Kind.array
        | "uncopyable" => pure Kind.uncopyable
        | k => throw s!"bad node kind {k}"
      let imms ← (← arr nd "imm").toList.mapM fun kv => do
        match (← kv.getArr?).toList with
        | [k, v] => do pure ((← k.getStr?), (← parseImm v))
        | _ => throw "bad imm slot"
      pure ((← strs (← obj nd "path")), (← str nd "key"), kind, imms)
    pure (.buildAttr (← str j "x") nodes)
  | "assignFrom" =>
    -- the source array is the other root's variable *now* (the real call evaluates `other.Y` at call time)
    match nav st.heap (← rootLoc st (← str j "from")) ["_" ++ (← str j "fx")] with
    | some l => pure (.assignFrom (← str j "x") l (← bool j "inplace"))
    | none => throw "assignFrom: no such source variable"
  | "addVariable" => pure (.addVariable (← str j "x") (← nat j "n") (← bool j "model"))
  | "addAttrImm" => pure (.addAttrImm (← str j "x") (← parseImm (← obj j "v")))
  | "addAttrList" => pure (.addAttrList (← str j "x") (← strs (← obj j "items")))
  | "setAttrImm" => pure (.setAttrImm (← str j "x") (← parseImm (← obj j "v")))
  | "append" => pure (.append (← strs (← obj j "f")) (← str j "s"))
  | "popLast" => pure (.popLast (← strs (← obj j "f")))
  | "dictDel" => pure (.dictDel (← strs (← obj j "f")) (← str j "k"))
  | "useName" => pure .useName
  | "dictSet" => pure (.dictSet (← strs (← obj j "f")) (← str j "k") (← str j "v"))
  | "traceT" =>
    let src ← match (← str j "src") with
      | "own" => pure TraceNames.own
      | "user" => do pure (TraceNames.user (← strs (← obj j "items")))
      | "class" => do
        let cname ← str j "cls"
        match classIndex st cname with
        | none => throw s!"unknown class {cname}"
        | some ci =>
          match (classDescs st)[ci]? with
          | none => throw "class index"
          | some cd =>
            match classAttr st.heap cd "TRACE_VARIABLES" with
            | .ref l => pure (TraceNames.classVars l)
            | .imm _ => throw "TRACE_VARIABLES is not a list"
      | s => throw s!"bad trace source {s}"
    pure (.traceT (← nat j "t") src (← bool j "fresh") (← parseImm (← obj j "label")) (← nat j "n"))
  | "inSub" => pure (.inSub (← str j "key") (← parseOp st fuel (← obj j "op")))
  | _ => throw s!"bad op {k}"

def groupBy (ps : List (String × Loc)) : List (Loc × List String) :=
  ps.foldl (fun acc (p, l) =>
    match acc.lookup l with
    | some _ => acc.map fun (l', xs) => if l' = l then (l', xs ++ [p]) else (l', xs)
    | none => acc ++ [(l, [p])]) []

def allStr : List (String × Val) → Bool
  | [] => true
  | (_, .imm (.str _)) :: ss => allStr ss
  | _ => false

def contentOf (h : Heap) (p : String) (l : Loc) : Option String :=
  match h[l]? with
  | some o =>
    match o.kind with
    | .list => if allStr o.slots then some (p ++ "=[" ++ joinWith " " (strItems o.slots) ++ "]") else none
    | .dict =>
      if allStr o.slots then
        some (p ++ "={" ++ joinWith " " (o.slots.map fun (k, v) => k ++ ":" ++ (match v with
          | .imm (.str s) => s | _ => "?")) ++ "}")
      else none
    | .array => some (p ++ "=@" ++ toString o.slots.length)
    | _ => none
  | none => none

def snap (st : St) (rs : List String) : R String := do
  let mut ps : List (String × Loc) := []
  for r in rs do
    ps := ps ++ paths st.heap 12 r (.ref (← rootLoc st r))
  let groups := (groupBy ps).map fun (_, xs) => joinWith "," xs
  let contents := ps.filterMap fun (p, l) => contentOf st.heap p l
  pure (joinWith ";" groups ++ "|" ++ joinWith ";" contents)

def parseSpan (st : St) (j : Json) : R (St × Val) := do
  match j.getObjVal? "range" with
  | .ok n => pure (st, .imm (.range (← n.getNat?)))
  | .error _ =>
    let xs ← strs (← obj j "list")
    pure ({ st with heap := st.heap ++ [strList xs] }, .ref st.heap.length)

def exec (st : St) (j : Json) : R St := do
  let c ← str j "c"
  match c with
  | "class" => defClass st j
  | "new" =>
    let cname ← str j "cls"
    match classIndex st cname with
    | none => throw s!"unknown class {cname}"
    | some ci =>
      match (classDescs st)[ci]? with
      | none => throw "class index"
      | some cd =>
        let (st1, span) ← parseSpan st (← obj j "span")
        let sub ← match optObj j "sub" with
          | some s => do pure (Val.ref (← rootLoc st1 (← s.getStr?)))
          | none => pure (Val.imm .none)
        let (h, l) := newInst ci cd st1.heap span sub
        pure (setRoot { st1 with heap := h } (← str j "r") l)
  | "dict" =>
    let es ← (← arr j "entries").toList.mapM fun e => do
      let kv ← strs e
      match kv with
      | [k, r] => do pure (k, Val.ref (← rootLoc st r))
      | _ => throw "bad entry"
    pure (setRoot { st with heap := st.heap ++ [⟨.dict, es⟩] } (← str j "r") st.heap.length)
  | "copy" =>
    match copyRoot (classDescs st) st.heap (← rootLoc st (← str j "of")) with
    | some (h, l) =>
      let flag := if worldOK2B (classDescs st) st.heap then "T" else "F"
      pure (setRoot { st with heap := h, copyHyps := st.copyHyps ++ flag } (← str j "r") l)
    | none => throw "copy: out of fuel or dangling reference"
  | "copyfail" =>   -- a copy that must raise: the model's `copyCmd` keeps the heap
    match copyCmd (classDescs st) st.heap (← rootLoc st (← str j "of")) with
    | (h, none) => pure { st with heap := h, copyHyps := st.copyHyps ++ "X" }
    | (_, some _) => throw "copyfail: the model copies this object"
  | "op" =>
    let op ← parseOp st 4 (← obj j "op")
    pure { st with heap := applyOp st.heap (← rootLoc st (← str j "r")) op }
  | "subadd" =>   -- `linker.submodels[key] = <other root>`: the caller stores a reference (caller-made sharing,
                 -- not one of the modelled API operations)
    let target ← rootLoc st (← str j "of")
    match nav st.heap (← rootLoc st (← str j "r")) ["submodels"] with
    | some d =>
      match st.heap[d]? with
      | some o => pure { st with heap := st.heap.set d ⟨o.kind, slotSet o.slots (← str j "key") (.ref target)⟩ }
      | none => throw "subadd: dangling"
    | none => throw "subadd: no submodels dict"
  | "sub" =>   -- bind a root name to linker.submodels[key]
    match nav st.heap (← rootLoc st (← str j "of")) ["submodels", ← str j "key"] with
    | some l => pure (setRoot st (← str j "r") l)
    | none => throw "no such submodel"
  | "snap" =>
    let s ← snap st (← strs (← obj j "roots"))
    pure { st with out := st.out ++ [s] }
  | _ => throw s!"bad command {c}"

/-- kind `heap_prog`: `{prog: [...]}` → snapshots joined by `#`, then `%` and the per-copy hypothesis flags. -/
def handleProg (j : Json) : R String := do
  let mut st : St := {}
  for c in (← arr j "prog") do
    st ← exec st c
  pure (joinWith "#" st.out ++ "%" ++ st.copyHyps)

def handlers : List (String × (Lean.Json → Except String String)) :=
  [("heap_prog", handleProg)]

end Drv.Heap
