import Driver.Common
import FsicModel.Container
import FsicModel.ContainerAlias
/-
Driver for M6 (Container).  Kind `hist`: `{store, ops}` → one reply line, one tab-separated field per item of
`ops` (operation: `outcome|state dump`; query: read result).  Values cross as tagged pairs
`["f", bits] | ["i", int] | ["b", bool] | ["s", text]`; strings are printed as hex of their UTF-8 bytes.
-/
open Lean Fsic Fsic.Container

namespace Drv.Container

def parseVal (j : Json) : R Val := do
  let a ← j.getArr?
  match a[0]?, a[1]? with
  | some (.str "f"), some v => do pure (.f (← v.getNat?).toUInt64)
  | some (.str "i"), some v => do pure (.i (← v.getInt?))
  | some (.str "b"), some v => do pure (.b (← v.getBool?))
  | some (.str "s"), some v => do pure (.s (← v.getStr?))
  | _, _ => throw "bad value"

def parseKind (s : String) : R Kind :=
  match s with
  | "f" => pure .float | "i" => pure .int | "b" => pure .bool | "U" => pure .str | "O" => pure .obj
  | _ => throw s!"bad kind {s}"

def parseOptKind (j : Json) (k : String) : R (Option Kind) :=
  match optObj j k with
  | none => pure none
  | some v => do pure (some (← parseKind (← v.getStr?)))

def nats (j : Json) : R (List Nat) := do (← j.getArr?).toList.mapM (·.getNat?)

def parseSeries (j : Json) : R Series := do
  let k ← parseKind (← str j "k")
  let w ← nat j "w"
  let shape ← nats (← obj j "shape")
  let data ← (← arr j "data").toList.mapM parseVal
  pure ⟨⟨k, w⟩, shape, data⟩

def parseOperand (j : Json) : R Operand := do
  match ← str j "t" with
  | "scalar" => do pure (.scalar (← parseVal (← obj j "v")))
  | "list" => do pure (.list (← (← arr j "xs").toList.mapM parseVal))
  | "nested" => do
    pure (.nested (← (← arr j "rows").toList.mapM fun r => do (← r.getArr?).toList.mapM parseVal))
  | "nd" => do pure (.ndarray (← parseSeries j))
  | t => throw s!"bad operand {t}"

def parseLoc (j : Json) : R Loc := do
  let a ← j.getArr?
  match a[0]?, a[1]?, a[2]? with
  | some (.str "pos"), some i, _ => do pure (.pos (← i.getNat?))
  | some (.str "npos"), some i, _ => do pure (.nonIntPos (← i.getNat?))
  | some (.str "slice"), some x, some y => do pure (.slice (← x.getNat?) (← y.getNat?))
  | some (.str "missing"), _, _ => pure .missing
  | _, _, _ => throw "bad loc"

def parseSpanKind (s : String) : R SpanKind :=
  match s with
  | "seq" => pure .seq | "numpy" => pure .numpy | "pandas" => pure .pandas
  | _ => throw s!"bad span kind {s}"

def parseStore (j : Json) : R Store := do
  let span ← nats (← obj j "span")
  let kind ← parseSpanKind (← str j "kind")
  let getLoc ← (← arr j "getLoc").toList.mapM fun p => do
    let a ← p.getArr?
    match a[0]?, a[1]? with
    | some k, some l => do pure ((← k.getNat?), (← parseLoc l))
    | _, _ => throw "bad getLoc entry"
  let vars ← (← arr j "vars").toList.mapM fun p => do
    let a ← p.getArr?
    match a[0]?, a[1]? with
    | some n, some sr => do pure ((← n.getStr?), (← parseSeries sr))
    | _, _ => throw "bad var entry"
  let attrs ← (← arr j "attrs").toList.mapM (·.getStr?)
  pure { span := span, spanKind := kind, getLoc := getLoc, vars := vars, nonNames := ← (← arr j "nonNames").toList.mapM (·.getStr?),
         attrs := attrs, strict := ← bool j "strict", defaultKind := ← parseOptKind j "defaultKind",
         extraSize := ← nat j "extraSize", extraBytes := ← nat j "extraBytes",
         extraKeys := ← (match optObj j "extraKeys" with
           | none => pure []
           | some v => do (← v.getArr?).toList.mapM (·.getStr?)) }

def optNat (j : Json) (k : String) : R (Option Nat) :=
  match optObj j k with
  | none => pure none
  | some v => do pure (some (← v.getNat?))

def optInt (j : Json) (k : String) : R (Option Int) :=
  match optObj j k with
  | none => pure none
  | some v => do pure (some (← v.getInt?))

inductive Item where
  | op (o : Op)
  | getItem (name : String)
  | getAttr (name : String)
  | contains (name : String)
  | getPos (name : String) (i : Int)
  | getLabel (name : String) (label : Nat)
  | getLabelSlice (name : String) (a b : Option Nat) (step : Option Int)

def parseItem (j : Json) : R Item := do
  match ← str j "op" with
  | "addVariable" => do
    pure (.op (.addVariable (← str j "name") (← parseOperand (← obj j "v")) (← parseOptKind j "dtype")))
  | "addAttribute" => do pure (.op (.addAttribute (← str j "name")))
  | "setAttr" => do
    pure (.op (.setAttr (← str j "name") (← parseOperand (← obj j "v")) (← (← arr j "alts").toList.mapM (·.getStr?))))
  | "setItem" => do pure (.op (.setItem (← str j "name") (← parseOperand (← obj j "v"))))
  | "setPos" => do pure (.op (.setPos (← str j "name") (← int j "i") (← parseOperand (← obj j "v"))))
  | "setPosSlice" => do
    pure (.op (.setPosSlice (← str j "name") (← optInt j "a") (← optInt j "b") (← optInt j "step")
      (← parseOperand (← obj j "v"))))
  | "setLabel" => do pure (.op (.setLabel (← str j "name") (← nat j "label") (← parseOperand (← obj j "v"))))
  | "setLabelSlice" => do
    pure (.op (.setLabelSlice (← str j "name") (← optNat j "a") (← optNat j "b") (← optInt j "step")
      (← parseOperand (← obj j "v"))))
  | "replaceValues" => do
    let kvs ← (← arr j "kvs").toList.mapM fun p => do
      let a ← p.getArr?
      match a[0]?, a[1]? with
      | some n, some v => do pure ((← n.getStr?), (← parseOperand v))
      | _, _ => throw "bad kv"
    pure (.op (.replaceValues kvs))
  | "setValues" => do
    pure (.op (.setValues (← parseOperand (← obj j "v")) (← (← arr j "alts").toList.mapM (·.getStr?))))
  | "setStrict" => do pure (.op (.setStrict (← bool j "b") (← (← arr j "alts").toList.mapM (·.getStr?))))
  | "badKey" => do pure (.op (.badKey (← bool j "tuple")))
  | "getItem" => do pure (.getItem (← str j "name"))
  | "getAttr" => do pure (.getAttr (← str j "name"))
  | "contains" => do pure (.contains (← str j "name"))
  | "getPos" => do pure (.getPos (← str j "name") (← int j "i"))
  | "getLabel" => do pure (.getLabel (← str j "name") (← nat j "label"))
  | "getLabelSlice" => do
    pure (.getLabelSlice (← str j "name") (← optNat j "a") (← optNat j "b") (← optInt j "step"))
  | o => throw s!"bad op {o}"

def hexDigit (n : Nat) : Char := if n < 10 then Char.ofNat (48 + n) else Char.ofNat (87 + n)

def hexOf (s : String) : String :=
  String.ofList (s.toUTF8.toList.flatMap fun b => [hexDigit (b.toNat / 16), hexDigit (b.toNat % 16)])

def valStr : Val → String
  | .f x => "f" ++ toString x.toNat
  | .i v => "i" ++ toString v
  | .b v => if v then "bT" else "bF"
  | .s v => "s" ++ hexOf v

def kindStr : Kind → String
  | .float => "f" | .int => "i" | .bool => "b" | .str => "U" | .obj => "O"

def dtypeStr (d : Dtype) : String := kindStr d.kind ++ toString d.width

def shapeStr (shp : List Nat) : String := joinWith "," (shp.map toString)

def excStr : Exc → String
  | .duplicateName => "DuplicateNameError"
  | .dimension => "DimensionError"
  | .valueShape => "ValueError"
  | .valueConv => "ValueError"
  | .key => "KeyError"
  | .index => "IndexError"
  | .type => "TypeError"
  | .attribute _ => "AttributeError"
  | .notImplemented => "NotImplementedError"

def outcomeStr : Outcome → String
  | .ok => "ok"
  | .raised e => excStr e

def seriesStr (p : String × Series) : String :=
  p.1 ++ ":" ++ dtypeStr p.2.dtype ++ ":" ++ shapeStr p.2.shape ++ ":" ++ joinWith "," (p.2.data.map valStr)

def stateStr (s : Store) : String :=
  "index=" ++ joinWith "," s.index ++ "|names=" ++ joinWith "," s.names ++ "|attrs=" ++ joinWith "," s.attrs ++
  "|strict=" ++ (if s.strict then "T" else "F") ++ "|size=" ++ toString (size s) ++
  "|nbytes=" ++ toString (nbytes s) ++
  "|vshape=" ++ (match valuesShape s with
    | .ok shp => shapeStr shp ++ "/" ++ dtypeStr (valuesDtype s)
    | .error e => "!" ++ excStr e) ++
  "|" ++ joinWith ";" (s.vars.map seriesStr)

def readStr : ReadResult → String
  | .raised e => "!" ++ excStr e
  | .elem v => "e:" ++ valStr v
  | .array shp data => "a:" ++ shapeStr shp ++ ":" ++ joinWith "," (data.map valStr)
  | .other => "other"

def runItems (al : Alias.AMap String) : Store → List Item → List String → List String
  | _, [], acc => acc.reverse
  | s, .op o :: rest, acc =>
    runItems al (aStep Cfg.current al s o).1 rest
      ((outcomeStr (aStep Cfg.current al s o).2 ++ "|" ++ stateStr (aStep Cfg.current al s o).1) :: acc)
  | s, .getItem n :: rest, acc => runItems al s rest (readStr (aGetItem al s n) :: acc)
  | s, .getAttr n :: rest, acc => runItems al s rest (readStr (aGetAttr al s n) :: acc)
  | s, .contains n :: rest, acc => runItems al s rest ((if contains s n then "c:T" else "c:F") :: acc)
  | s, .getPos n i :: rest, acc => runItems al s rest (readStr (aGetPos al s n i) :: acc)
  | s, .getLabel n l :: rest, acc => runItems al s rest (readStr (aGetLabel al s n l) :: acc)
  | s, .getLabelSlice n a b st :: rest, acc => runItems al s rest (readStr (aGetLabelSlice al s n a b st) :: acc)

def parseAliases (j : Json) : R (List (String × String)) :=
  match optObj j "aliases" with
  | none => pure []
  | some v => do
    (← v.getArr?).toList.mapM fun p => do
      let a ← p.getArr?
      match a[0]?, a[1]? with
      | some k, some t => do pure ((← k.getStr?), (← t.getStr?))
      | _, _ => throw "bad alias entry"

/-- kind `hist`: `{store, ops, aliases?}` → tab-separated results, one per item.  `aliases` is the class's raw
    `ALIASES` (items in order); the model shortens chains itself (`Alias.instanceAliases`). -/
def handleHist (j : Json) : R String := do
  let s ← parseStore (← obj j "store")
  let items ← (← arr j "ops").toList.mapM parseItem
  let raw ← parseAliases j
  pure (joinWith "\t" (runItems (aliasesOf raw) s items []))

/-- kind `pyslice`: `{n, a, b, step}` → positions (or `!ValueError`). -/
def handlePySlice (j : Json) : R String := do
  match pySliceAny (← nat j "n") (← optInt j "a") (← optInt j "b") (← optInt j "step") with
  | none => pure "!ValueError"
  | some ps => pure (shapeStr ps)

def handlers : List (String × (Lean.Json → Except String String)) :=
  [("hist", handleHist), ("pyslice", handlePySlice)]

end Drv.Container
