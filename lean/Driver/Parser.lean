import Driver.Common
import FsicModel.Parser
/-
Driver handlers for M3 (symbol logic of the parser).  Requests and replies are JSON; the Python side
(`harness/parser_common.py`) encodes the real fsic objects the same way and compares the decoded values.

  Idx     : null | <int> | {"s": <str>}
  Term    : {"name", "type", "index"}
  Symbol  : {"name", "type", "lags", "leads", "equation", "code"}
  replies : {"ok": …} | {"err": "SymbolError" | "ParserError" | "TypeError" | "AssertionError"}
-/
open Lean Fsic.Parser

namespace Drv.Parser

def parseIdx (j : Json) : R Idx :=
  match j with
  | .null => pure .none
  | .num _ => do pure (.int (← j.getInt?))
  | _ => do pure (.str (← str j "s"))

def idxJson : Idx → Json
  | .none => .null
  | .int i => toJson i
  | .str s => Json.mkObj [("s", .str s)]

def parseType (s : String) : R TermType :=
  match TermType.ofName? s with
  | some t => pure t
  | none => throw s!"unknown Type member {s}"

def optStr (j : Json) (k : String) : R (Option String) :=
  match j.getObjVal? k with
  | .ok .null => pure none
  | .ok v => do pure (some (← v.getStr?))
  | .error _ => pure none

def optInt (j : Json) (k : String) : R (Option Int) :=
  match j.getObjVal? k with
  | .ok .null => pure none
  | .ok v => do pure (some (← v.getInt?))
  | .error _ => pure none

def parseTerm (j : Json) : R Fsic.Parser.Term := do
  pure ⟨← str j "name", ← parseType (← str j "type"), ← parseIdx (← obj j "index")⟩

def parseSymbol (j : Json) : R Symbol := do
  pure ⟨← optStr j "name", ← parseType (← str j "type"), ← parseIdx (← obj j "lags"),
        ← parseIdx (← obj j "leads"), ← optStr j "equation", ← optStr j "code"⟩

def optStrJson : Option String → Json
  | none => .null
  | some s => .str s

def termJson (t : Fsic.Parser.Term) : Json :=
  Json.mkObj [("name", .str t.name), ("type", .str t.type.pyName), ("index", idxJson t.index)]

def symbolJson (s : Symbol) : Json :=
  Json.mkObj [("name", optStrJson s.name), ("type", .str s.type.pyName), ("lags", idxJson s.lags),
              ("leads", idxJson s.leads), ("equation", optStrJson s.equation), ("code", optStrJson s.code)]

def errName : Err → String
  | .symbolError => "SymbolError"
  | .parserError => "ParserError"
  | .typeError => "TypeError"
  | .assertionError => "AssertionError"

def reply {α} (f : α → Json) : Except Err α → String
  | .ok a => (Json.mkObj [("ok", f a)]).compress
  | .error e => (Json.mkObj [("err", .str (errName e))]).compress

def symsJson (xs : List Symbol) : Json := .arr (xs.map symbolJson).toArray
def namesJson (xs : List (Option String)) : Json := .arr (xs.map optStrJson).toArray

def parseTerms (j : Json) (k : String) : R (List Fsic.Parser.Term) := do (← arr j k).toList.mapM parseTerm
def parseSymbols (j : Json) (k : String) : R (List Symbol) := do (← arr j k).toList.mapM parseSymbol

def parseStmt (j : Json) : R Stmt := do
  let eq ← str j "equation"
  let code ← str j "code"
  match optObj j "terms" with
  | some _ => pure (.eqn (← parseTerms j "terms") eq code)
  | none => pure (.verb eq code)

def handleCombine (j : Json) : R String := do
  pure (reply symbolJson (combine (← parseSymbol (← obj j "a")) (← parseSymbol (← obj j "b"))))

def handleEqTerms (j : Json) : R String := do
  pure (reply (fun ts => Json.arr (ts.map termJson).toArray) (equationTerms (← parseTerms j "lhs") (← parseTerms j "rhs")))

def handleSymbolsOfTerms (j : Json) : R String := do
  pure (reply symsJson (symbolsOfTerms (← str j "equation") (← str j "code") (← parseTerms j "terms")))

def handleMerge (j : Json) : R String := do
  let groups ← (← arr j "groups").toList.mapM fun g => do (← g.getArr?).toList.mapM parseSymbol
  pure (reply symsJson (mergeModel groups))

def handleParseModel (j : Json) : R String := do
  let stmts ← (← arr j "stmts").toList.mapM parseStmt
  pure (reply symsJson (parseModel stmts))

def listsJson (l : Lists) : Json :=
  Json.mkObj [("ENDOGENOUS", namesJson l.endogenous), ("EXOGENOUS", namesJson l.exogenous),
              ("PARAMETERS", namesJson l.parameters), ("ERRORS", namesJson l.errors),
              ("NAMES", namesJson l.names), ("CHECK", namesJson l.check),
              ("LAGS", toJson l.lags), ("LEADS", toJson l.leads)]

def parseOpts (j : Json) : R BuildOpts := do
  pure { lags := ← optInt j "lags", leads := ← optInt j "leads",
         minLags := (← optInt j "min_lags").getD 0, minLeads := (← optInt j "min_leads").getD 0 }

def handleBuildLists (j : Json) : R String := do
  pure (reply listsJson (buildLists (← parseSymbols j "symbols") (← parseOpts j)))

/-- The converters the correspondence check uses on both sides. -/
def converterOf (name : String) : R (Symbol → String) :=
  match name with
  | "default" => pure defaultConverter
  | "code" => pure (fun s => s.code.getD "")
  | "wrap" => pure (fun s => "if True:\n\n    " ++ (s.code.getD "").replace "\n" "\n    " ++ "\n  \n# " ++
                             ((s.name.getD "<verbatim>")))
  | "mark" => pure (fun s => "# begin " ++ (s.name.getD "<verbatim>") ++ "\n" ++ (s.code.getD "") ++ "\n# end")
  | "empty" => pure (fun _ => "")
  | _ => throw s!"unknown converter {name}"

def handleRenderBody (j : Json) : R String := do
  let conv ← converterOf (← str j "converter")
  pure (Json.mkObj [("ok", .str (renderBody conv (← parseSymbols j "symbols")))]).compress

def handleIndent (j : Json) : R String := do
  pure (Json.mkObj [("ok", .str (indent8 (← str j "text")))]).compress

def handleSplitLines (j : Json) : R String := do
  pure (Json.mkObj [("ok", .arr ((splitLines (← str j "text").toList).map (fun l => Json.str (String.ofList l))).toArray)]).compress

def handleSelected (j : Json) : R String := do
  pure (Json.mkObj [("ok", symsJson (selected (← parseSymbols j "symbols")))]).compress

def handlers : List (String × (Lean.Json → Except String String)) :=
  [("p_combine", handleCombine), ("p_eq_terms", handleEqTerms), ("p_symbols_of_terms", handleSymbolsOfTerms),
   ("p_merge", handleMerge), ("p_parse_model", handleParseModel), ("p_build_lists", handleBuildLists),
   ("p_render_body", handleRenderBody), ("p_indent", handleIndent), ("p_splitlines", handleSplitLines),
   ("p_selected", handleSelected)]

end Drv.Parser
