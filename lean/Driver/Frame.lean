import Driver.Common
import FsicModel.Frame
/- Driver handlers for C04: feasibility of a period and the cells its solve may write. -/
open Lean Fsic

namespace Drv.Frame

/-- kind `frame`: `{n, lags, leads, t, offset, lhs: [[var, k]…], endo: [var…]}` →
    `feasible|default range|allowed writes (var:pos sorted)`. -/
def handle (j : Json) : R String := do
  let n ← nat j "n"
  let lags ← nat j "lags"
  let leads ← nat j "leads"
  let t ← int j "t"
  let offset ← int j "offset"
  let lhs ← (← arr j "lhs").toList.mapM fun p => do
    let a ← p.getArr?
    pure ((← (a[0]?.getD Json.null).getNat?), (← (a[1]?.getD Json.null).getInt?))
  let endo ← (← arr j "endo").toList.mapM (·.getNat?)
  let ws := writeSet n t lhs endo offset
  let sorted := (ws.map fun (v, p) => (v, p)).toArray.qsort (fun a b => a.1 < b.1 || (a.1 == b.1 && a.2 < b.2))
  let dedup := sorted.foldl (fun (acc : Array (Nat × Int)) x => if acc.back? == some x then acc else acc.push x) #[]
  let rangeStr := if leads < n then joinWith "," ((periodRange lags (n - 1 - leads)).map toString) else "!"
  pure ((if feasibleB n lags leads t then "T" else "F") ++ "|" ++ rangeStr ++ "|" ++
    joinWith "," (dedup.toList.map fun (v, p) => s!"{v}:{p}"))

def handlers : List (String × (Lean.Json → Except String String)) := [("frame", handle)]

end Drv.Frame
