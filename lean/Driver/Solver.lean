import Driver.Common
import FsicModel.Solver
/-
Executable instance of M1 for the correspondence check: a *scripted* model whose every pass / hook plays a
prescribed action, over IEEE doubles.  The Python harness runs the same script through the real
`BaseModel.solve_t` / `solve` / `solve_period`.
-/
open Lean Fsic

namespace Drv.Solver

inductive Kind | keep | set | raise | warn
  deriving DecidableEq, Repr

/-- One scripted action: store `vals` (one per endogenous variable) at period `t`.
    `raise` stores only the first `m` then raises; `warn` issues a warning before storing anything beyond the
    first `m` (so under warnings-as-errors only the first `m` are stored and the call raises). -/
structure Act where
  kind : Kind
  vals : Array Float
  m : Nat

structure SModel where
  lags : Nat
  leads : Nat
  nE : Nat
  n : Nat
  check : List Nat
  tol : Float
  script : Array (Array Act)   -- [position][pass-1]
  beforeS : Array Act          -- [position]
  afterS : Array Act

abbrev SState := Array (Array Float)  -- [variable][position]

def pos (n : Nat) (t : Int) : Nat := (pyIndex n t).getD 0

def store (u : SState) (p : Nat) (vals : Array Float) (upto : Nat) : SState :=
  (List.range (min upto u.size)).foldl (fun acc i =>
    match vals[i]? with
    | some v => acc.modify i (fun row => row.set! p v)
    | none => acc) u

def play (M : SModel) (o : Opts) (u : SState) (t : Int) (a : Act) : SState × Bool :=
  match a.kind with
  | .keep => (u, false)
  | .set => (store u (pos M.n t) a.vals M.nE, false)
  | .raise => (store u (pos M.n t) a.vals a.m, true)
  | .warn =>
    if o.errors = .raise ∧ o.catchFirst = true then (store u (pos M.n t) a.vals a.m, true)
    else (store u (pos M.n t) a.vals M.nE, false)

def keepAct : Act := ⟨.keep, #[], 0⟩

def interp (M : SModel) : Interp SState (Array Float) where
  lags := M.lags
  leads := M.leads
  check u t := (M.check.map fun i => (u[i]?.getD #[])[pos M.n t]?.getD 0.0).toArray
  allFinite := allFiniteBy Float.isFinite
  close := closeBy fun c p => Float.abs (c - p) < M.tol
  zeroNF v := v.map fun x => if x.isFinite then x else 0.0
  copyOffset u t off :=
    u.map fun row => row.set! (pos M.n t) (row[pos M.n (t + off)]?.getD 0.0)
  before o u t := play M o u t (M.beforeS[pos M.n t]?.getD keepAct)
  eval o u t k := play M o u t ((M.script[pos M.n t]?.getD #[])[k - 1]?.getD keepAct)
  after o u t _ := play M o u t (M.afterS[pos M.n t]?.getD keepAct)

def parseAct (j : Json) : R Act := do
  let k ← str j "k"
  let kind ← match k with
    | "keep" => pure Kind.keep
    | "set" => pure Kind.set
    | "raise" => pure Kind.raise
    | "warn" => pure Kind.warn
    | _ => throw s!"bad act {k}"
  let vals ← match optObj j "v" with
    | some v => floats v
    | none => pure #[]
  let m := match j.getObjVal? "m" with
    | .ok v => v.getNat?.toOption.getD 0
    | .error _ => 0
  pure ⟨kind, vals, m⟩

def parseErr (s : String) : ErrMode :=
  match s with
  | "raise" => .raise | "skip" => .skip | "ignore" => .ignore | "replace" => .replace | _ => .invalid

def parseOpts (j : Json) : R Opts := do
  pure { minIter := ← int j "min_iter", maxIter := ← int j "max_iter", offset := ← int j "offset",
         failRaise := (← str j "failures") == "raise", errors := parseErr (← str j "errors"),
         catchFirst := ← bool j "catch_first_error" }

def parseModel (j : Json) : R (SModel × World SState) := do
  let n ← nat j "n"
  let nE ← nat j "nE"
  let check ← (← arr j "check").toList.mapM (·.getNat?)
  let tol ← floatOfJson (← obj j "tol")
  let script ← (← arr j "script").mapM fun row => do (← row.getArr?).mapM parseAct
  let beforeS ← (← arr j "before").mapM parseAct
  let afterS ← (← arr j "after").mapM parseAct
  let vals ← (← arr j "vals").mapM floats
  let status ← parseStatus (← str j "status")
  let iters ← (← arr j "iters").toList.mapM (·.getInt?)
  let optNat := fun (key : String) => match j.getObjVal? key with
    | .ok v => v.getNat?.toOption.getD 0
    | .error _ => 0
  pure (⟨optNat "lags", optNat "leads", nE, n, check, tol, script, beforeS, afterS⟩, ⟨vals, status, iters⟩)

def resultStr : Result → String
  | .ret true => "ret:T"
  | .ret false => "ret:F"
  | .valueError => "ValueError"
  | .indexError => "IndexError"
  | .solutionError true => "SolutionError:chained"
  | .solutionError false => "SolutionError:plain"
  | .nonConvergence => "NonConvergenceError"
  | .badErrorsArg => "ValueError"

def eventStr : Event → String
  | .before => "b"
  | .eval k => s!"e{k}"
  | .after k => s!"a{k}"

def worldStr (w : World (SState × List Event)) : String :=
  statusStr w.status ++ "|" ++ joinWith "," (w.iters.map toString) ++ "|" ++
  joinWith "," (w.user.2.map eventStr) ++ "|" ++
  joinWith ";" (w.user.1.toList.map fun row => joinWith "," (row.toList.map bitsStr))

def parseLoc (j : Option Json) : R (Option Loc) :=
  match j with
  | none => pure none
  | some (.str "other") => pure (some .other)
  | some (.str "missing") => pure (some .missing)
  | some v => do pure (some (.pos (← v.getNat?)))

def boolStr (b : Bool) : String := if b then "T" else "F"

def solveResultStr : SolveResult → String
  | .ok ps fs => "ok:" ++ joinWith "," (ps.map toString) ++ ":" ++ String.join (fs.map boolStr)
  | .err r _ _ => "err:" ++ resultStr r
  | .keyError => "err:KeyError"
  | .emptySpan => "err:SolutionError:plain"
  | .spanIndexError => "err:IndexError"

/-- kind `solve_t`: `{model…, opts, t}` → `result|status|iters|events|values`. -/
def handleSolveT (j : Json) : R String := do
  let (M, w) ← parseModel j
  let o ← parseOpts (← obj j "opts")
  let t ← int j "t"
  let (w', r) := solveT (logged (interp M)) o M.n t ⟨(w.user, []), w.status, w.iters⟩
  pure (resultStr r ++ "|" ++ worldStr w')

def handleSolve (j : Json) : R String := do
  let (M, w) ← parseModel j
  let o ← parseOpts (← obj j "opts")
  let lags ← nat j "lags"
  let leads ← nat j "leads"
  let start ← parseLoc (optObj j "start")
  let stop ← parseLoc (optObj j "end")
  let (w', r) := solve (logged (interp M)) o M.n lags leads start stop ⟨(w.user, []), w.status, w.iters⟩
  pure (solveResultStr r ++ "|" ++ worldStr w')

def handleSolvePeriod (j : Json) : R String := do
  let (M, w) ← parseModel j
  let o ← parseOpts (← obj j "opts")
  let l ← parseLoc (optObj j "loc")
  let (w', r) := solvePeriod (logged (interp M)) o M.n (l.getD .missing) ⟨(w.user, []), w.status, w.iters⟩
  pure ((match r with | some r => resultStr r | none => "KeyError") ++ "|" ++ worldStr w')

end Drv.Solver

namespace Drv.Solver
def handlers : List (String × (Lean.Json → Except String String)) :=
  [("solve_t", handleSolveT), ("solve", handleSolve), ("solve_period", handleSolvePeriod)]
end Drv.Solver

namespace Drv.Solver

def labelStr : TraceLabel → String
  | .start => "start"
  | .before => "before"
  | .iter k => toString k
  | .«end» => "end"

def traceStr (l : List (TraceLabel × Array Float)) : String :=
  joinWith ";" (l.map fun (lab, v) => labelStr lab ++ ":" ++ joinWith "," (v.toList.map bitsStr))

/-- kind `traced_solve_t`: `{model…, opts, t, traced: [var indices], on: bool, repeat: n}`
    → `result|status|iters|values|trace` after `repeat` consecutive traced solves of the same period. -/
def handleTraced (j : Json) : R String := do
  let (M, w) ← parseModel j
  let o ← parseOpts (← obj j "opts")
  let t ← int j "t"
  let tv ← (← arr j "traced").toList.mapM (·.getNat?)
  let on ← bool j "on"
  let reset := match j.getObjVal? "reset" with
    | .ok v => v.getBool?.toOption.getD false
    | .error _ => false
  let rep ← nat j "repeat"
  let snap : SState → Int → Array Float := fun u t =>
    (tv.map fun i => (u[i]?.getD #[])[pos M.n t]?.getD 0.0).toArray
  let step := fun (acc : World (SState × List (TraceLabel × Array Float)) × List String) (_ : Nat) =>
    let (w', r) := tracedSolveT (interp M) snap on reset o M.n t acc.1
    (w', acc.2 ++ [resultStr r])
  let (w', rs) := (List.range rep).foldl step (⟨(w.user, []), w.status, w.iters⟩, [])
  pure (joinWith "," rs ++ "|" ++ statusStr w'.status ++ "|" ++ joinWith "," (w'.iters.map toString) ++ "|" ++
    joinWith ";" (w'.user.1.toList.map fun row => joinWith "," (row.toList.map bitsStr)) ++ "|" ++ traceStr w'.user.2)

def handlers2 : List (String × (Lean.Json → Except String String)) :=
  handlers ++ [("traced_solve_t", handleTraced)]

end Drv.Solver
