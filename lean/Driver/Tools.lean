import Driver.Common
import FsicModel.Tools
/-
Executable instance of the Tools model (M8, C19) for the correspondence check.

Cells and span labels are opaque tokens (strings built by the harness: `f:<IEEE bits>`, `i:<int>`, `b:0|1`,
`s:<text>` …): the export only moves them.  The only place the model looks inside a token is the float cast of
`from_dataframe` (`castFloat`).  Replies are compact JSON; the harness compares parsed JSON, never text.
-/
open Lean Fsic Fsic.Tools

namespace Drv.Tools

abbrev Tok := String

def strList (j : Json) : R (List String) := do
  (← j.getArr?).toList.mapM (·.getStr?)

def parsePairs (j : Json) : R (List (String × List Tok)) := do
  (← j.getArr?).toList.mapM fun p => do
    let a ← p.getArr?
    match a.toList with
    | [k, v] => pure (← k.getStr?, ← strList v)
    | _ => throw "pair expected"

def lookupD (d : List (String × List Tok)) (k : String) : List Tok := (dictGet d k).getD []

/-- A store comes either by name (`data`: `[[name, cells]…]`) or as it is in memory (`dict`: `[[storage key,
    cells]…]`, the ndarray entries of the instance `__dict__` in insertion order): then the model reads every series
    through `getItem` (`index` membership, `storageKey`). -/
def parseStore (j : Json) : R (Store Tok Tok) := do
  let span ← strList (← obj j "span")
  let index ← strList (← obj j "index")
  let names ← strList (← obj j "names")
  match j.getObjVal? "dict" with
  | .ok d =>
    let dict ← parsePairs d
    pure (Obj.toStore ⟨span, index, names, dict⟩)
  | .error _ =>
    let data ← parsePairs (← obj j "data")
    pure ⟨span, index, names, lookupD data⟩

def jStrs (xs : List String) : Json := Json.arr (xs.map Json.str).toArray

def jTable (t : Table Tok Tok) : Json :=
  Json.mkObj [("index", jStrs t.index),
              ("cols", Json.arr (t.cols.map fun c => Json.arr #[Json.str c.1, jStrs c.2]).toArray)]

/-- A flag as the caller wrote it: a JSON bool (`True` / `False`) or `{"form": …, "value" | "bits": …}` with form
    `bool`, `np.bool_`, `int`, `np.int64`, `float`, `np.float64` (IEEE bits), `str`, `none`, `omitted` (keyword not
    passed: `none`). -/
def parseFlagForm (j : Json) : R (Option FlagForm) :=
  match j with
  | .bool b => pure (some (.bool b))
  | _ => do
    let form ← str j "form"
    if form == "bool" then pure (some (.bool (← bool j "value")))
    else if form == "np.bool_" then pure (some (.npbool (← bool j "value")))
    else if form == "int" || form == "np.int64" then pure (some (.int (← int j "value")))
    else if form == "float" || form == "np.float64" then pure (some (.float (← nat j "bits")))
    else if form == "str" then pure (some (.str (← str j "value")))
    else if form == "none" then pure (some .none)
    else if form == "omitted" then pure none
    else throw s!"unknown flag form {form}"

structure FlagsIn where
  status : Option FlagForm
  iterations : Option FlagForm
  internal : Option FlagForm

def flagOr (j : Json) (k : String) : R (Option FlagForm) :=
  match j.getObjVal? k with
  | .ok v => parseFlagForm v
  | .error _ => pure none

def parseFlags (j : Json) : R FlagsIn := do
  pure ⟨← flagOr j "status", ← flagOr j "iterations", ← flagOr j "include_internal"⟩

def parseMixin (s : String) : R Mixin :=
  if s == "alias" then pure .alias else if s == "tracer" then pure .tracer
  else if s == "pandasindex" then pure .pandasIndex else if s == "progress" then pure .progressBar
  else throw s!"unknown mixin {s}"

def FlagsIn.flags3 (f : FlagsIn) : Flags3 :=
  ⟨argValue Fsic.Generated.exportDefaultStatus f.status, argValue Fsic.Generated.exportDefaultIterations f.iterations,
   argValue Fsic.Generated.exportDefaultInternal f.internal⟩

/-- kind `tools_columns`: `{store, status, iterations, include_internal[, mro: [mixin…], use_aliases]}` → the exported
    table.  Flags in any form (`parseFlagForm`); with `mro` the export goes through the wrappers of the class. -/
def handleColumns (j : Json) : R String := do
  let m ← parseStore (← obj j "store")
  let f ← parseFlags j
  match j.getObjVal? "mro" with
  | .ok mj =>
    let mro ← (← strList mj).mapM parseMixin
    let ua ← flagOr j "use_aliases"
    pure (jTable (classExport mro (argValue false ua) [] m f.flags3)).compress
  | .error _ => pure (jTable (modelTableA m f.status f.iterations f.internal)).compress

/-- kind `tools_container`: `{store}` → `VectorContainer.to_dataframe`. -/
def handleContainer (j : Json) : R String := do
  let m ← parseStore (← obj j "store")
  pure (jTable (containerTable m)).compress

/-- kind `tools_linker`: `{name, linker, subs: [[key, store]…], flags…}` → `[[key, table]…]` in dict order. -/
def handleLinker (j : Json) : R String := do
  let name ← str j "name"
  let l ← parseStore (← obj j "linker")
  let subs ← (← arr j "subs").toList.mapM fun p => do
    let a ← p.getArr?
    match a.toList with
    | [k, v] => pure (← k.getStr?, ← parseStore v)
    | _ => throw "pair expected"
  let f ← parseFlags j
  let out := linkerTablesA name l subs f.status f.iterations f.internal
  pure (Json.arr (out.map fun p => Json.arr #[Json.str p.1, jTable p.2]).toArray).compress

/-- `astype(float)` on a token: floats stay, ints and bools become the float of that value; anything else is
    outside the model (`?`, which the harness treats as a wildcard). -/
def castFloat (t : Tok) : Tok :=
  match t.toList with
  | 'f' :: ':' :: _ => t
  | 'i' :: ':' :: rest =>
    match (String.ofList rest).toInt? with
    | some i => "f:" ++ toString (Float.ofInt i).toBits.toNat
    | none => "?"
  | 'b' :: ':' :: rest => if rest == ['1'] then "f:" ++ toString (1.0 : Float).toBits.toNat
                          else "f:" ++ toString (0.0 : Float).toBits.toNat
  | _ => "?"

/-- kind `tools_from_table`: `{table: {index, cols}, NAMES, default}` → the constructed store (series in `index`
    order) or `"raises"`. -/
def handleFromTable (j : Json) : R String := do
  let tj ← obj j "table"
  let t : Table Tok Tok := ⟨← strList (← obj tj "index"), ← parsePairs (← obj tj "cols")⟩
  let NAMES ← strList (← obj j "NAMES")
  let dflt ← str j "default"
  let strict ← flagOr j "strict"
  match fromTableStrict castFloat ⟨dflt, "s:-", "i:-1"⟩ NAMES strict t with
  | none => pure "\"raises\""
  | some m =>
    pure (Json.mkObj [("span", jStrs m.span), ("names", jStrs m.names),
                      ("data", Json.arr (m.index.map fun k => Json.arr #[Json.str k, jStrs (m.data k)]).toArray),
                      ("dict", Json.arr (m.toObj.dict.map fun p => Json.arr #[Json.str p.1, jStrs p.2]).toArray)]).compress

def optStr (j : Json) : R (Option String) :=
  match j with
  | .null => pure none
  | v => do pure (some (← v.getStr?))

def optInt (j : Json) : R (Option Int) :=
  match j with
  | .null => pure none
  | v => do pure (some (← v.getInt?))

def parseSymbol (j : Json) : R Symbol := do
  match (← j.getArr?).toList with
  | [n, t, l, d, e, c] => pure ⟨← optStr n, ← t.getNat?, ← optInt l, ← optInt d, ← optStr e, ← optStr c⟩
  | _ => throw "symbol = 6 fields"

def jCell : Cell → Json
  | .str s => Json.str ("s:" ++ s)
  | .int i => Json.str ("i:" ++ toString i)
  | .flt i => Json.str ("f:" ++ toString i)
  | .nan => Json.str "nan"
  | .none => Json.str "none"
  | .other t => Json.str ("o:" ++ t)

def jPy (s : PySymbol) : Json :=
  Json.arr #[jCell s.name, Json.str ("t:" ++ toString s.type), jCell s.lags, jCell s.leads, jCell s.equation, jCell s.code]

/-- kind `tools_symbols`: `{symbols: [[name, type, lags, leads, equation, code]…]}` →
    `{"table": rows as read back from the DataFrame, "decoded": rows | "raises"}` under the installed coercion. -/
def handleSymbols (j : Json) : R String := do
  let ss ← (← arr j "symbols").toList.mapM parseSymbol
  let tbl := symbolsToTable installed ss
  let decoded := match tableToSymbols codeDecoder tbl with
    | some out => Json.arr (out.map jPy).toArray
    | none => Json.str "raises"
  pure (Json.mkObj [("table", Json.arr (tbl.map jPy).toArray), ("decoded", decoded)]).compress

def handlers : List (String × (Lean.Json → Except String String)) :=
  [("tools_columns", handleColumns), ("tools_container", handleContainer), ("tools_linker", handleLinker),
   ("tools_from_table", handleFromTable), ("tools_symbols", handleSymbols)]

end Drv.Tools
