import Driver.Common
import FsicModel.EvalIndex
/-
Driver handlers for the eval-index model.
  evalidx : {"span": {"kind": "list"|"numpy"|"table", "labels": [...], "table": [[label, contains, loc], ...]},
             "expr": "<text>", "direct": bool}
            → `ok:<rewritten text>` | `err:<KeyError|ValueError|unmodelled>`
            (`direct` = call `_resolve_expression_indexes` itself, without eval's "contains a backtick" test)
  evalns  : {"helpers": [...], "vars": [...], "locals": [...]|null, "builtins": [...]|null, "names": [...]}
            → for every queried name the layer that wins, then whether the package table is unchanged
Labels: {"s": text} | {"i": int} | {"o": id}.  Locations: {"pos": i, "py": bool} | {"slice": [a, b], "py": bool} |
"keyError" | "opaque".
-/
open Lean Fsic.EvalIdx

namespace Drv.EvalIndex

def parseLabel (j : Json) : R Label :=
  match j.getObjVal? "s" with
  | .ok v => do pure (.str (← v.getStr?).toList)
  | .error _ => match j.getObjVal? "i" with
    | .ok v => do pure (.int (← v.getInt?))
    | .error _ => do pure (.other (← nat j "o"))

def parseLoc (j : Json) : R Loc :=
  match j with
  | .str "keyError" => pure .keyError
  | .str "opaque" => pure .opaque
  | _ => match j.getObjVal? "pos" with
    | .ok v => do pure (.pos (← v.getInt?) (← bool j "py"))
    | .error _ => do
      let ab ← arr j "slice"
      match ab.toList with
      | [a, b] => pure (.slice (← a.getInt?) (← b.getInt?) (← bool j "py"))
      | _ => throw "bad slice"

def parseSpan (j : Json) : R Span := do
  match (← str j "kind") with
  | "list" => pure (listSpan (← (← arr j "labels").toList.mapM parseLabel))
  | "numpy" => pure (numpySpan (← (← arr j "labels").toList.mapM parseLabel))
  | "table" =>
    let rows ← (← arr j "table").toList.mapM fun row => do
      match (← row.getArr?).toList with
      | [l, c, loc] => pure ((← parseLabel l), (← c.getBool?), (← parseLoc loc))
      | _ => throw "bad table row"
    pure (tableSpan rows)
  | k => throw s!"bad span kind {k}"

def errStr : Err → String
  | .keyError => "KeyError"
  | .valueError => "ValueError"
  | .unmodelled => "unmodelled"

def handleEvalIdx (j : Json) : R String := do
  let sp ← parseSpan (← obj j "span")
  let expr := (← str j "expr").toList
  let direct := (bool j "direct").toOption.getD false
  let r := if direct then subAll (resolveMatch sp) expr else resolveExpression sp expr
  match r with
  | .ok t => pure ("ok:" ++ Json.compress (Json.str (String.ofList t)))
  | .error e => pure ("err:" ++ errStr e)

def names (j : Json) (k : String) : R (List String) := do (← arr j k).toList.mapM (·.getStr?)

def tagged (tag : String) (ns : List String) : Dict String := ns.map fun n => (n, tag)

def handleEvalNs (j : Json) : R String := do
  let helpers := tagged "helper" (← names j "helpers")
  let vars := tagged "var" (← names j "vars")
  let locals_ ← match optObj j "locals" with
    | some _ => do pure (some (tagged "local" (← names j "locals")))
    | none => pure none
  let (w, arg) ← match optObj j "builtins" with
    | some _ => do pure ((⟨[helpers, tagged "given" (← names j "builtins")]⟩ : NsWorld String), some 1)
    | none => pure (⟨[helpers]⟩, none)
  let (w', l) := assemble w arg vars locals_
  let ns := w'.read l
  let ans := (← names j "names").map fun n => (ns.get n).getD "undefined"
  pure (joinWith "," ans ++ "|" ++ (if w'.read 0 == helpers then "pkg-unchanged" else "pkg-changed"))

/-- kind `evalname`: `{helpers, vars, locals|null, name, suggestions: [...]}` → `bound:<layer>` | `AttributeError:<name>`. -/
def handleEvalName (j : Json) : R String := do
  let helpers := tagged "helper" (← names j "helpers")
  let vars := tagged "var" (← names j "vars")
  let locals_ ← match optObj j "locals" with
    | some _ => do pure (some (tagged "local" (← names j "locals")))
    | none => pure none
  let (w', l) := assemble (⟨[helpers]⟩ : NsWorld String) none vars locals_
  match evalName (w'.read l) (← names j "suggestions") (← str j "name") with
  | .bound v => pure ("bound:" ++ v)
  | .attributeError n => pure ("AttributeError:" ++ n)

/-- kind `evalhist`: `{helpers, vars, ops: [["rebind", name] | ["inplace", name] | ["add", name] | ["eval"]], name}` —
    every series carries a version number (0 initially; a rebinding at step k makes it k); the reply is the version
    of the series that `eval(name)` is bound to after the history, or `undefined`. -/
def handleEvalHist (j : Json) : R String := do
  let helpers : Dict Nat := (← names j "helpers").map fun n => (n, 1000000)
  let vars : Dict Nat := (← names j "vars").map fun n => (n, 0)
  let opsJ ← arr j "ops"
  let ops ← opsJ.toList.zipIdx.mapM fun (o, k) => do
    match (← o.getArr?).toList with
    | [Json.str "rebind", n] => pure (StoreOp.rebind (← n.getStr?) (k + 1))
    | [Json.str "inplace", n] => pure (StoreOp.inplace (← n.getStr?) id)
    | [Json.str "add", n] => pure (StoreOp.add (← n.getStr?) (k + 1))
    | [Json.str "eval"] => pure StoreOp.eval
    | _ => throw "bad op"
  match (namespaceAfter (⟨[helpers]⟩ : NsWorld Nat) vars ops none).get (← str j "name") with
  | some v => pure (toString v)
  | none => pure "undefined"

def handlers : List (String × (Lean.Json → Except String String)) :=
  [("evalidx", handleEvalIdx), ("evalns", handleEvalNs), ("evalname", handleEvalName), ("evalhist", handleEvalHist)]

end Drv.EvalIndex
