import Driver.Common
import FsicModel.Fortran
/-
Executable instance of M5 for the correspondence check of C07.
  f_text : name lists + equation texts  → the model's rewritten code lines, index-array declarations, lags/leads line
  f_run  : a numbered program, data (IEEE bit patterns) and one call → what the model of the FortranEngine wrapper
           over the compiled template does, and what M1 over the generated Python class does
The real kinds are Lean `Float` (binary64) and `Float32` (binary32); decimal literals arrive as bit patterns.
-/
open Lean Fsic Fsic.Fortran

namespace Drv.Fortran

def strList (j : Json) (k : String) : R (List String) := do
  (← arr j k).toList.mapM (·.getStr?)

def intList (j : Json) (k : String) : R (List Int) := do
  (← arr j k).toList.mapM (·.getInt?)

/-! ### f_text -/

def handleText (j : Json) : R String := do
  let endo ← strList j "endo"
  let exo ← strList j "exo"
  let par ← strList j "par"
  let err ← strList j "err"
  let eqs ← strList j "equations"
  let symlags ← intList j "symlags"
  let symleads ← intList j "symleads"
  let names := allNames endo exo par err
  let codes := eqs.map fun e =>
    match rewriteEquation (numberOf names) e.toList with
    | some cs => String.ofList cs
    | none => "<KeyError>"
  let decl (nm : String) (xs : List String) : String :=
    match numbersOf names xs with
    | some is => arrayDecl nm is
    | none => "<KeyError>"
  let decls := [decl "endogenous" endo, decl "exogenous" exo, decl "parameters" par, decl "errors" err]
  let ll := s!"integer :: lags = {lagsOf symlags 0}, leads = {leadsOf symleads 0}"
  pure (Json.mkObj [("codes", Json.arr (codes.map Json.str).toArray),
                    ("decls", Json.arr (decls.map Json.str).toArray),
                    ("lagsleads", Json.str ll)]).compress

/-! ### Operators -/

abbrev LitTable := List ((Nat × Nat) × (Float32 × Float))

def pyMax (a b : Float) : Float := if b > a then b else a
def pyMin (a b : Float) : Float := if b < a then b else a

def ops8 (lits : LitTable) : RealOps Float where
  ofInt := Float.ofInt
  ofDec m e := match lits.lookup (m, e) with
    | some p => p.2
    | none => Float.ofScientific m true e
  add := (· + ·)
  sub := (· - ·)
  mul := (· * ·)
  div := (· / ·)
  neg := fun x => -x
  pow := Float.pow
  powi x n := Float.pow x (Float.ofInt n)
  exp := Float.exp
  log := Float.log
  abs := Float.abs
  max := pyMax
  min := pyMin
  lt a b := a < b
  isFinite := Float.isFinite

def ops4 (lits : LitTable) : RealOps Float32 where
  ofInt := Float32.ofInt
  ofDec m e := match lits.lookup (m, e) with
    | some p => p.1
    | none => Float32.ofScientific m true e
  add := (· + ·)
  sub := (· - ·)
  mul := (· * ·)
  div := (· / ·)
  neg := fun x => -x
  pow := Float32.pow
  powi x n := Float32.pow x (Float32.ofInt n)
  exp := Float32.exp
  log := Float32.log
  abs := Float32.abs
  max a b := if b > a then b else a
  min a b := if b < a then b else a
  lt a b := a < b
  isFinite := Float32.isFinite

def tower (lits : LitTable) : Tower Float32 Float := ⟨ops4 lits, ops8 lits, Float32.toFloat⟩

/-! ### Parsing a program -/

def parseBin (s : String) : R BinOp :=
  match s with
  | "add" => pure .add | "sub" => pure .sub | "mul" => pure .mul | "div" => pure .div | "pow" => pure .pow
  | _ => throw s!"bad op {s}"

/-- digits and number of digits after the point of a decimal literal text -/
def decParts (s : String) : Nat × Nat :=
  match s.splitOn "." with
  | [w, f] => ((w ++ f).toNat!, f.length)
  | _ => (s.toNat!, 0)

partial def parseExpr (j : Json) : R (Expr String) := do
  let a ← j.getArr?
  let tag ← (a[0]?.getD Json.null).getStr?
  let at' (i : Nat) : Json := a[i]?.getD Json.null
  match tag with
  | "int" => pure (.int (← (at' 1).getNat?))
  | "dec" => let p := decParts (← (at' 1).getStr?); pure (.dec p.1 p.2)
  | "var" => pure (.var (← (at' 1).getStr?) (← (at' 2).getInt?))
  | "neg" => pure (.neg (← parseExpr (at' 1)))
  | "bin" => pure (.bin (← parseBin (← (at' 1).getStr?)) (← parseExpr (at' 2)) (← parseExpr (at' 3)))
  | "fn1" =>
    let f ← match (← (at' 1).getStr?) with
      | "exp" => pure Fn1.exp | "log" => pure Fn1.log | "abs" => pure Fn1.abs
      | s => throw s!"bad fn1 {s}"
    pure (.fn1 f (← parseExpr (at' 2)))
  | "fn2" =>
    let f ← match (← (at' 1).getStr?) with
      | "max" => pure Fn2.max | "min" => pure Fn2.min
      | s => throw s!"bad fn2 {s}"
    pure (.fn2 f (← parseExpr (at' 2)) (← parseExpr (at' 3)))
  | _ => throw s!"bad expr tag {tag}"

def parseLits (j : Json) : R LitTable := do
  (← arr j "lits").toList.mapM fun l => do
    let m ← nat l "m"
    let e ← nat l "e"
    let r4 ← nat l "r4"
    let r8 ← nat l "r8"
    pure ((m, e), (Float32.ofBits r4.toUInt32, Float.ofBits r8.toUInt64))

def parseErr (s : String) : ErrMode :=
  match s with
  | "raise" => .raise | "skip" => .skip | "ignore" => .ignore | "replace" => .replace | _ => .invalid

def parseOpts (j : Json) : R (Opts × Float) := do
  let tol ← floatOfJson (← obj j "tol")
  pure ({ minIter := ← int j "min_iter", maxIter := ← int j "max_iter", offset := ← int j "offset",
          failRaise := (← str j "failures") == "raise", errors := parseErr (← str j "errors"),
          catchFirst := true }, tol)

/-! ### Output -/

def wTag : WResult → String
  | .ret true => "ret:T"
  | .ret false => "ret:F"
  | .valueError => "ValueError"
  | .indexError => "IndexError"
  | .solutionError => "SolutionError"
  | .nonConvergence => "NonConvergenceError"
  | .fortranEngineError => "FortranEngineError"
  | .keyError => "KeyError"

def boolStr (b : Bool) : String := if b then "T" else "F"

def okTag (ps : List Nat) (fs : List Bool) : String :=
  "ok:" ++ joinWith "," (ps.map toString) ++ ":" ++ String.join (fs.map boolStr)

def rowsStr (s : Mat Float) : String :=
  joinWith ";" ((List.range s.nrows).map fun r =>
    joinWith "," ((List.range s.ncols).map fun p => bitsStr (s.mem.getD (p * s.nrows + r) 0.0)))

def worldStr (tag : String) (w : World (Mat Float)) : String :=
  tag ++ "|" ++ statusStr w.status ++ "|" ++ joinWith "," (w.iters.map toString) ++ "|" ++ rowsStr w.user

def optLoc (n : Nat) (j : Json) (k : String) : Option Loc :=
  match optObj j k with
  | none => none
  | some v => match v.getInt? with
    | .ok i => if 0 ≤ i ∧ i < n then some (.pos i.toNat) else some .missing
    | .error _ => some .missing

def solveResultTag : SolveResult → String
  | .ok ps fs => okTag ps fs
  | .err r _ _ => wTag (ofResult r)
  | .keyError => "KeyError"
  | .emptySpan => "SolutionError"
  | .spanIndexError => "IndexError"

/-! ### f_run -/

def handleRun (j : Json) : R String := do
  let endo ← strList j "endo"
  let exo ← strList j "exo"
  let par ← strList j "par"
  let err ← strList j "err"
  let check ← strList j "check"
  let names := allNames endo exo par err
  let num (x : String) : Nat := (numberOf names x).getD 0
  let lits ← parseLits j
  let eqs ← (← arr j "eqs").toList.mapM fun e => do
    let lhs ← str e "lhs"
    let off := match e.getObjVal? "off" with
      | .ok v => v.getInt?.toOption.getD 0
      | .error _ => 0
    let rhs ← parseExpr (← obj e "rhs")
    pure (lhs, off, rhs)
  let prog : Prog := eqs.map fun (lhs, off, rhs) => ((num lhs, off), rhs.map num)
  let n ← nat j "n"
  let rows ← (← arr j "vals").toList.mapM fun r => floats r
  let nrows := names.length
  let mem : List Float := (List.range (n * nrows)).map fun i => ((rows[i % nrows]?).getD #[])[i / nrows]?.getD 0.0
  let u0 : Mat Float := ⟨nrows, n, mem⟩
  let lags := (lagsOf (← intList j "symlags") 0).toNat
  let leads := (leadsOf (← intList j "symleads") 0).toNat
  let call ← obj j "call"
  let kind ← str call "call"
  let T := tower lits
  let safe := eqs.all fun (_, _, rhs) => kindSafe exact4Std rhs
  let safeStr := if safe then "safe" else "unsafe"
  -- optional record left by earlier calls on the same instance (operation histories)
  let st0 ← match optObj j "status" with
    | some v => do parseStatus (← v.getStr?)
    | none => pure (List.replicate n Status.unsolved)
  let it0 ← match optObj j "iters" with
    | some v => do (← v.getArr?).toList.mapM (·.getInt?)
    | none => pure (List.replicate n (-1 : Int))
  let w0 : World (Mat Float) := ⟨u0, st0, it0⟩
  let mkSpec (tol : Float) : Spec Float :=
    ⟨prog, endo.map num, check.map (fun x => names.idxOf x), n, lags, leads, tol⟩
  match kind with
  | "evaluate" =>
    let t ← int call "t"
    let W := specWrapped T (mkSpec 0.0)
    let (uf, rf) := wEvaluate W u0 t
    let ftag := match rf with
      | .ok => "ok" | .indexError => "IndexError" | .solutionError => "SolutionError"
    let (up, raised) := pBody (ops8 lits) prog u0 t
    let ptag := if raised then "IndexError" else "ok"
    pure (worldStr ftag (withUser w0 uf) ++ " ## " ++ worldStr ptag (withUser w0 up) ++ " ## " ++ safeStr)
  | "solve_t" =>
    let t ← int call "t"
    let (o, tol) ← parseOpts (← obj call "opts")
    let S := mkSpec tol
    let (wf, rf) := wSolveT (specWrapped T S) o t w0
    let (wp, rp) := Fsic.solveT (pyInterp (ops8 lits) S) o n t w0
    pure (worldStr (wTag rf) wf ++ " ## " ++ worldStr (wTag (ofResult rp)) wp ++ " ## " ++ safeStr)
  | "solve_period" =>
    let t ← int call "t"
    -- `solve_period(label)`: the span is 0..n-1, so a label is its position; an unknown label is KeyError on both sides
    if t < 0 ∨ t ≥ n then
      return (worldStr "KeyError" w0 ++ " ## " ++ worldStr "KeyError" w0 ++ " ## " ++ safeStr)
    let (o, tol) ← parseOpts (← obj call "opts")
    let S := mkSpec tol
    let (wf, rf) := wSolveT (specWrapped T S) o t w0
    let (wp, rp) := Fsic.solveT (pyInterp (ops8 lits) S) o n t w0
    pure (worldStr (wTag rf) wf ++ " ## " ++ worldStr (wTag (ofResult rp)) wp ++ " ## " ++ safeStr)
  | "solve" =>
    let (o, tol) ← parseOpts (← obj call "opts")
    let S := mkSpec tol
    let start := optLoc n call "start"
    let stop := optLoc n call "end"
    let (wf, rf) := wSolveFull (specWrapped T S) o start stop w0
    let ftag := match rf with
      | .ok ps fs => okTag ps fs
      | .err r => wTag r
    let (wp, rp) := Fsic.solve (pyInterp (ops8 lits) S) o n lags leads start stop w0
    pure (worldStr ftag wf ++ " ## " ++ worldStr (solveResultTag rp) wp ++ " ## " ++ safeStr)
  | _ => throw s!"unknown call {kind}"

def handlers : List (String × (Lean.Json → Except String String)) :=
  [("f_text", handleText), ("f_run", handleRun)]

end Drv.Fortran
