import Driver.Solver
import FsicModel.Linker
/-
Executable instance of the linker model for the correspondence check: scripted submodels (as in Driver/Solver.lean)
under a linker whose hooks play scripted actions (set the linker's own variables, raise, or copy a cell from one
submodel to another — a cross-link).
-/
open Lean Fsic

namespace Drv.Linker
open Drv Drv.Solver

inductive LKind | keep | set | raise | link
  deriving DecidableEq

structure LAct where
  kind : LKind
  vals : Array Float      -- set / raise: linker variables
  m : Nat                 -- raise: how many are stored first
  a : Nat := 0            -- link: from submodel a, variable i …
  i : Nat := 0
  b : Nat := 0            -- … to submodel b, variable j (same period)
  j : Nat := 0

structure LState where
  lvals : SState
  subs : Array SState
  subIters : Array (Array Int)
  subStatus : Array (Array Status)

structure LModel where
  n : Nat
  nSubs : Nat
  tol : Float
  lcheck : List Nat
  subCheck : Array (List Nat)
  subNE : Array Nat
  subScript : Array (Array (Array Act))    -- [sub][pos][pass-1]
  solveBeforeS : Array LAct                -- [pos]
  solveAfterS : Array LAct
  evalBeforeS : Array (Array LAct)         -- [pos][pass-1]
  evalAfterS : Array (Array LAct)

def keepL : LAct := { kind := .keep, vals := #[], m := 0 }

def playL (M : LModel) (u : LState) (t : Int) (a : LAct) : LState × Bool :=
  match a.kind with
  | .keep => (u, false)
  | .set => ({ u with lvals := store u.lvals (pos M.n t) a.vals u.lvals.size }, false)
  | .raise => ({ u with lvals := store u.lvals (pos M.n t) a.vals a.m }, true)
  | .link =>
    let v := (((u.subs[a.a]?.getD #[])[a.i]?.getD #[])[pos M.n t]?).getD 0.0
    ({ u with subs := u.subs.modify a.b (fun s => s.modify a.j (fun row => row.set! (pos M.n t) v)) }, false)

def playSub (M : LModel) (u : LState) (i : Nat) (t : Int) (k : Nat) : LState × Bool :=
  let act := (((M.subScript[i]?.getD #[])[pos M.n t]?.getD #[])[k - 1]?).getD Drv.Solver.keepAct
  let s := u.subs[i]?.getD #[]
  let nE := M.subNE[i]?.getD 0
  match act.kind with
  | .keep => (u, false)
  | .set => ({ u with subs := u.subs.set! i (store s (pos M.n t) act.vals nE) }, false)
  | .raise => ({ u with subs := u.subs.set! i (store s (pos M.n t) act.vals act.m) }, true)
  | .warn => ({ u with subs := u.subs.set! i (store s (pos M.n t) act.vals nE) }, false)  -- filter is 'always': never an error

def vecOf (s : SState) (check : List Nat) (p : Nat) : List Float :=
  check.map fun i => (s[i]?.getD #[])[p]?.getD 0.0

def linterp (M : LModel) : LInterp LState (List (List Float)) Nat where
  known i := i < M.nSubs
  check u sel t :=
    vecOf u.lvals M.lcheck (pos M.n t) ::
      ((List.range M.nSubs).filter (fun i => sel.contains i)).map
        (fun i => vecOf (u.subs[i]?.getD #[]) (M.subCheck[i]?.getD []) (pos M.n t))
  close cur prev :=
    (cur.zip prev).all fun (c, p) => (c.zip p).all fun (x, y) => Float.abs (x - y) < M.tol
  copyOffset u sel t off :=
    let cp := fun (s : SState) => s.map fun row => row.set! (pos M.n t) (row[pos M.n (t + off)]?.getD 0.0)
    { u with lvals := cp u.lvals,
             subs := sel.foldl (fun acc i => acc.modify i cp) u.subs }
  resetIter u i t := { u with subIters := u.subIters.modify i (fun r => r.set! (pos M.n t) 0) }
  bumpIter u i t := { u with subIters := u.subIters.modify i (fun r => r.set! (pos M.n t) (r[pos M.n t]?.getD 0 + 1)) }
  stampSub u i t s := { u with subStatus := u.subStatus.modify i (fun r => r.set! (pos M.n t) s) }
  solveBefore _ u _ t := playL M u t (M.solveBeforeS[pos M.n t]?.getD keepL)
  evalBefore _ u _ t k := playL M u t ((M.evalBeforeS[pos M.n t]?.getD #[])[k - 1]?.getD keepL)
  evalSub _ u i t k := playSub M u i t k
  evalAfter _ u _ t k := playL M u t ((M.evalAfterS[pos M.n t]?.getD #[])[k - 1]?.getD keepL)
  solveAfter _ u _ t _ := playL M u t (M.solveAfterS[pos M.n t]?.getD keepL)

def parseLAct (j : Json) : R LAct := do
  let k ← str j "k"
  let getN := fun (key : String) => match j.getObjVal? key with
    | .ok v => v.getNat?.toOption.getD 0
    | .error _ => 0
  let vals ← match optObj j "v" with
    | some v => floats v
    | none => pure #[]
  match k with
  | "keep" => pure keepL
  | "set" => pure { kind := .set, vals := vals, m := 0 }
  | "raise" => pure { kind := .raise, vals := vals, m := getN "m" }
  | "link" => pure { kind := .link, vals := #[], m := 0, a := getN "a", i := getN "i", b := getN "b", j := getN "j" }
  | _ => throw s!"bad linker act {k}"

def resStr : LResult → String
  | .ret true => "ret:T"
  | .ret false => "ret:F"
  | .keyError => "KeyError"
  | .indexError => "IndexError"
  | .nonConvergence => "NonConvergenceError"
  | .raised => "Raised"

def evStr : LEvent Nat → String
  | .solveBefore => "sb"
  | .evalBefore k => s!"eb{k}"
  | .sub i k => s!"s{i}:{k}"
  | .evalAfter k => s!"ea{k}"
  | .solveAfter k => s!"sa{k}"

def sstateStr (s : SState) : String :=
  joinWith ";" (s.toList.map fun row => joinWith "," (row.toList.map bitsStr))

/-- kind `linker_solve_t` -/
def handle (j : Json) : R String := do
  let n ← nat j "n"
  let tol ← floatOfJson (← obj j "tol")
  let lcheck ← (← arr j "lcheck").toList.mapM (·.getNat?)
  let lvals ← (← arr j "lvals").mapM floats
  let subsJ ← arr j "subs"
  let subVals ← subsJ.mapM fun s => do (← arr s "vals").mapM floats
  let subCheck ← subsJ.mapM fun s => do (← arr s "check").toList.mapM (·.getNat?)
  let subNE ← subsJ.mapM fun s => nat s "nE"
  let subScript ← subsJ.mapM fun s => do (← arr s "script").mapM fun row => do (← row.getArr?).mapM parseAct
  let subIters ← subsJ.mapM fun s => do (← arr s "iters").mapM (·.getInt?)
  let subStatus ← subsJ.mapM fun s => do pure (← parseStatus (← str s "status")).toArray
  let sb ← (← arr j "solve_before").mapM parseLAct
  let sa ← (← arr j "solve_after").mapM parseLAct
  let eb ← (← arr j "eval_before").mapM fun row => do (← row.getArr?).mapM parseLAct
  let ea ← (← arr j "eval_after").mapM fun row => do (← row.getArr?).mapM parseLAct
  let status ← parseStatus (← str j "status")
  let iters ← (← arr j "iters").toList.mapM (·.getInt?)
  let o ← parseOpts (← obj j "opts")
  let t ← int j "t"
  let sel ← (← arr j "sel").toList.mapM (·.getNat?)
  let M : LModel := { n := n, nSubs := subsJ.size, tol := tol, lcheck := lcheck, subCheck := subCheck, subNE := subNE,
                      subScript := subScript, solveBeforeS := sb, solveAfterS := sa, evalBeforeS := eb, evalAfterS := ea }
  let u0 : LState := { lvals := lvals, subs := subVals, subIters := subIters, subStatus := subStatus }
  let (w', r) := lSolveT (llogged (linterp M)) o n t sel ⟨(u0, []), status, iters⟩
  let u := w'.user.1
  let subsStr := joinWith "/" ((List.range subsJ.size).map fun i =>
    statusStr ((u.subStatus[i]?.getD #[]).toList) ++ "~" ++
    joinWith "," (((u.subIters[i]?.getD #[]).toList).map toString) ++ "~" ++ sstateStr (u.subs[i]?.getD #[]))
  pure (resStr r ++ "|" ++ statusStr w'.status ++ "|" ++ joinWith "," (w'.iters.map toString) ++ "|" ++
    joinWith "," (w'.user.2.map evStr) ++ "|" ++ sstateStr u.lvals ++ "|" ++ subsStr)

def handlers : List (String × (Lean.Json → Except String String)) := [("linker_solve_t", handle)]

end Drv.Linker
