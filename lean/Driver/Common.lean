import Lean.Data.Json
import FsicModel.Basic
/-
Line-protocol plumbing shared by all driver handlers.  One request per line: `<kind>\t<json>`; one reply line.
Floats cross the boundary as IEEE-754 bit patterns (natural numbers), never as decimal text.
-/
open Lean

namespace Drv

abbrev R := Except String

def obj (j : Json) (k : String) : R Json := j.getObjVal? k
def optObj (j : Json) (k : String) : Option Json :=
  match j.getObjVal? k with
  | .ok .null => none
  | .ok v => some v
  | .error _ => none
def nat (j : Json) (k : String) : R Nat := do (← obj j k).getNat?
def int (j : Json) (k : String) : R Int := do (← obj j k).getInt?
def str (j : Json) (k : String) : R String := do (← obj j k).getStr?
def bool (j : Json) (k : String) : R Bool := do (← obj j k).getBool?
def arr (j : Json) (k : String) : R (Array Json) := do (← obj j k).getArr?

def floatOfJson (j : Json) : R Float := do
  let n ← j.getNat?
  pure (Float.ofBits n.toUInt64)

def floats (j : Json) : R (Array Float) := do
  (← j.getArr?).mapM floatOfJson

def bitsStr (x : Float) : String := toString x.toBits.toNat

def joinWith (sep : String) (xs : List String) : String := sep.intercalate xs

def statusStr (xs : List Fsic.Status) : String := String.ofList (xs.map Fsic.Status.char)

def parseStatus (s : String) : R (List Fsic.Status) :=
  s.toList.mapM fun c => match Fsic.Status.ofChar? c with
    | some x => pure x
    | none => throw s!"bad status char {c}"

end Drv
