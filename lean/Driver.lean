import Driver.Common
import Driver.Solver
