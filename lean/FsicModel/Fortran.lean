import FsicModel.Solver
/-
M5 — the Fortran back-end of `fsic/fortran.py`.

(a) `build_fortran_definition`: the 1-based numbering over `endogenous ++ exogenous ++ parameters ++ errors`, the
    regex rewrite `NAME[idx]` → `solved_values(<number>, <idx with every 't' replaced by 'index'>)` at the
    character level (a functional reading of `([_A-Za-z][_A-Za-z0-9]*)\[(.*?)\]` under `finditer`), the index-array
    declarations and the `lags`/`leads` line.
(b) an expression language for the subset common to both back-ends, with two denotations: Python's (ints and
    float64; `int / int` is true division) and Fortran's (integer, real(4), real(8) with the standard's promotion
    rules; `integer / integer` truncates, `real ** integer` keeps the integer exponent, decimal literals are
    default real = real(4)).  Both are parametric in the real operators (`RealOps`).
(c) FORTRAN_TEMPLATE's `evaluate`, `solve_t`, `solve` subroutines over an abstract engine, and the
    `FortranEngine` wrapper methods' pre-checks and error-code dispatch.

Core Lean only; every definition is total and executable.
-/
namespace Fsic.Fortran

/-! ## (a) Numbering -/

/-- `itertools.chain(endogenous, exogenous, parameters, errors)` = the Python class's `NAMES`. -/
def allNames (endo exo par err : List String) : List String := endo ++ exo ++ par ++ err

/-- `enumerate(xs, start=i)`. -/
def enumFrom : List String → Nat → List (String × Nat)
  | [], _ => []
  | x :: xs, i => (x, i) :: enumFrom xs (i + 1)

/-- Lookup in a dict built by a comprehension over `(key, value)` pairs: a later binding replaces an earlier one. -/
def lookupLast (x : String) : List (String × Nat) → Option Nat
  | [] => none
  | (k, v) :: rest =>
    match lookupLast x rest with
    | some w => some w
    | none => if k = x then some v else none

/-- `variables_to_numbers[x]` (`none` = KeyError). -/
def numberOf (names : List String) (x : String) : Option Nat := lookupLast x (enumFrom names 1)

/-- `[variables_to_numbers[k] for k in variable_names]`. -/
def numbersOf (names : List String) : List String → Option (List Nat)
  | [] => some []
  | x :: xs =>
    match numberOf names x, numbersOf names xs with
    | some i, some is => some (i :: is)
    | _, _ => none

/-- `abs(min(s.lags …))` then `max(·, min_lags)`; an empty symbol list gives 0. -/
def lagsOf (lags : List Int) (minLags : Int) : Int :=
  max (match lags with
       | [] => 0
       | l :: ls => (ls.foldl min l).natAbs) minLags

/-- `abs(max(s.leads …))` then `max(·, min_leads)`. -/
def leadsOf (leads : List Int) (minLeads : Int) : Int :=
  max (match leads with
       | [] => 0
       | l :: ls => (ls.foldl max l).natAbs) minLeads

/-! ## (a) The `NAME[...]` rewrite, character level -/

def isIdStart (c : Char) : Bool :=
  c = '_' || ('a' ≤ c && c ≤ 'z') || ('A' ≤ c && c ≤ 'Z')

def isIdChar (c : Char) : Bool := isIdStart c || ('0' ≤ c && c ≤ '9')

/-- `str.replace('t', 'index')`. -/
def replaceT : List Char → List Char
  | [] => []
  | c :: cs => if c = 't' then 'i' :: 'n' :: 'd' :: 'e' :: 'x' :: replaceT cs else c :: replaceT cs

inductive Piece where
  | lit (cs : List Char)
  | ref (name idx : List Char)
  deriving DecidableEq, Repr

/-- Scanner state: outside any candidate / inside an identifier run that started at an identifier-start
    character (accumulated reversed) / after `name[` (both accumulated reversed). -/
inductive St where
  | text
  | ident (cur : List Char)
  | index (name idx : List Char)
  deriving DecidableEq, Repr

/-- What is emitted when the input ends in a state: an unfinished candidate is ordinary text. -/
def flush : St → List Piece
  | .text => []
  | .ident cur => [.lit cur.reverse]
  | .index name idx => [.lit (name.reverse ++ '[' :: idx.reverse)]

/-- One step of the scanner: pieces emitted and next state.  A candidate `name[` fails at a newline (`.` does not
    match it) or at the end of the text; nothing inside a failed candidate can match either, because every match
    needs a `]` before the next newline. -/
def step (c : Char) : St → List Piece × St
  | .text => if isIdStart c then ([], .ident [c]) else ([.lit [c]], .text)
  | .ident cur =>
    if isIdChar c then ([], .ident (c :: cur))
    else if c = '[' then ([], .index cur [])
    else ([.lit (cur.reverse ++ [c])], .text)
  | .index name idx =>
    if c = ']' then ([.ref name.reverse idx.reverse], .text)
    else if c = '\n' then ([.lit (name.reverse ++ '[' :: (idx.reverse ++ ['\n']))], .text)
    else ([], .index name (c :: idx))

/-- The matches of `pattern.finditer(equation)` interleaved with the text between them. -/
def scan : List Char → St → List Piece
  | [], st => flush st
  | c :: cs, st => (step c st).1 ++ scan cs (step c st).2

def digitChar (d : Nat) : Char :=
  match d with
  | 0 => '0' | 1 => '1' | 2 => '2' | 3 => '3' | 4 => '4' | 5 => '5' | 6 => '6' | 7 => '7' | 8 => '8' | _ => '9'

/-- digits of `n` in front of `acc`, most significant first (`fuel > number of digits`). -/
def digitsFuel : Nat → Nat → List Char → List Char
  | 0, _, acc => acc
  | fuel + 1, n, acc =>
    if n < 10 then digitChar n :: acc else digitsFuel fuel (n / 10) (digitChar (n % 10) :: acc)

/-- decimal digits of `n` (`str(n)`) -/
def natChars (n : Nat) : List Char := digitsFuel (n + 1) n []

/-- the characters of `solved_values(` -/
def svOpen : List Char := ['s', 'o', 'l', 'v', 'e', 'd', '_', 'v', 'a', 'l', 'u', 'e', 's', '(']

/-- `f"solved_values({number}, {idx.replace('t', 'index')})"`. -/
def refText (n : Nat) (idx : List Char) : List Char :=
  svOpen ++ natChars n ++ [',', ' '] ++ replaceT idx ++ [')']

/-- Replace every match by its `solved_values(…)` text (`none` = KeyError on an unknown name). -/
def renderPieces (num : String → Option Nat) : List Piece → Option (List Char)
  | [] => some []
  | .lit cs :: rest =>
    match renderPieces num rest with
    | some r => some (cs ++ r)
    | none => none
  | .ref name idx :: rest =>
    match num (String.ofList name), renderPieces num rest with
    | some n, some r => some (refText n idx ++ r)
    | _, _ => none

/-- `code` of one equation in `build_fortran_definition` (before line wrapping). -/
def rewriteEquation (num : String → Option Nat) (equation : List Char) : Option (List Char) :=
  renderPieces num (scan equation .text)

def joinComma : List Nat → String
  | [] => ""
  | [x] => toString x
  | x :: xs => toString x ++ ", " ++ joinComma xs

/-- `create_integer_array_definition` (before line wrapping and indentation). -/
def arrayDecl (name : String) (idxs : List Nat) : String :=
  "integer, dimension(" ++ toString idxs.length ++ ") :: " ++ name ++
    (if idxs.length > 0 then " = (/ " ++ joinComma idxs ++ " /)" else "")

/-! ## (b) Expressions of the common subset -/

inductive BinOp where
  | add | sub | mul | div | pow
  deriving DecidableEq, Repr

inductive Fn1 where
  | exp | log | abs
  deriving DecidableEq, Repr

inductive Fn2 where
  | max | min
  deriving DecidableEq, Repr

/-- `α` = what a variable reference carries: a name (the equation as written) or a row number (after the rewrite).
    `dec m e` is the decimal literal with digits `m` and `e` digits after the point (value m·10⁻ᵉ). -/
inductive Expr (α : Type) where
  | int (n : Nat)
  | dec (m e : Nat)
  | var (a : α) (off : Int)
  | neg (x : Expr α)
  | bin (op : BinOp) (x y : Expr α)
  | fn1 (f : Fn1) (x : Expr α)
  | fn2 (f : Fn2) (x y : Expr α)
  deriving Repr

def Expr.map {α β : Type} (f : α → β) : Expr α → Expr β
  | .int n => .int n
  | .dec m e => .dec m e
  | .var a off => .var (f a) off
  | .neg x => .neg (x.map f)
  | .bin op x y => .bin op (x.map f) (y.map f)
  | .fn1 g x => .fn1 g (x.map f)
  | .fn2 g x y => .fn2 g (x.map f) (y.map f)

/-! ### Concrete syntax shared by both back-ends (fully parenthesised) -/

/-- `""`, `"+k"` or `"-k"`: how an offset is written after `t` inside the brackets. -/
def offChars (off : Int) : List Char :=
  if off = 0 then [] else if off > 0 then '+' :: natChars off.toNat else '-' :: natChars (-off).toNat

def opChars : BinOp → List Char
  | .add => ['+'] | .sub => ['-'] | .mul => ['*'] | .div => ['/'] | .pow => ['*', '*']

def fn1Chars : Fn1 → List Char
  | .exp => ['e', 'x', 'p'] | .log => ['l', 'o', 'g'] | .abs => ['a', 'b', 's']

def fn2Chars : Fn2 → List Char
  | .max => ['m', 'a', 'x'] | .min => ['m', 'i', 'n']

/-- `e` digits of `r`, zero-padded on the left. -/
def padDigits : Nat → Nat → List Char
  | 0, _ => []
  | e + 1, r => padDigits e (r / 10) ++ [digitChar (r % 10)]

/-- The decimal literal `m·10⁻ᵉ` written out: integer part, point, `e` fractional digits. -/
def decChars (m e : Nat) : List Char := natChars (m / 10 ^ e) ++ '.' :: padDigits e (m % 10 ^ e)

/-- Text of an expression; `atom` writes a variable reference. -/
def renderExpr {α} (atom : α → Int → List Char) : Expr α → List Char
  | .int n => natChars n
  | .dec m e => decChars m e
  | .var a off => atom a off
  | .neg x => '(' :: '-' :: (renderExpr atom x ++ [')'])
  | .bin op x y => '(' :: (renderExpr atom x ++ ' ' :: (opChars op ++ ' ' :: (renderExpr atom y ++ [')'])))
  | .fn1 f x => fn1Chars f ++ '(' :: (renderExpr atom x ++ [')'])
  | .fn2 f x y => fn2Chars f ++ '(' :: (renderExpr atom x ++ ',' :: ' ' :: (renderExpr atom y ++ [')']))

/-- `NAME[t]`, `NAME[t-1]`, `NAME[t+2]`: a reference as the parser writes it into `Symbol.equation`. -/
def eqAtom (name : List Char) (off : Int) : List Char := name ++ '[' :: 't' :: (offChars off ++ [']'])

/-- `solved_values(n, index)`, `solved_values(n, index-1)`, … -/
def fAtom (n : Nat) (off : Int) : List Char := refText n ('t' :: offChars off)

/-- `max(x₁, x₂, x₃, …)` / `min(…)` with more than two arguments (any number ≥ 2 is allowed in Python and in Fortran)
    is read as the left fold of the binary call: the same value on finite numbers in both languages, and the same
    typing verdict in Fortran (all arguments of one type). -/
def Expr.fnMany {α} (f : Fn2) (x y : Expr α) (rest : List (Expr α)) : Expr α :=
  rest.foldl (fun acc z => .fn2 f acc z) (.fn2 f x y)

/-- The real operators of one floating-point kind.  Theorems quantify over every instance. -/
structure RealOps (F : Type) where
  ofInt : Int → F
  /-- the literal `m·10⁻ᵉ` converted to this kind -/
  ofDec : Nat → Nat → F
  add : F → F → F
  sub : F → F → F
  mul : F → F → F
  div : F → F → F
  neg : F → F
  pow : F → F → F
  /-- Fortran `real ** integer` -/
  powi : F → Int → F
  exp : F → F
  log : F → F
  abs : F → F
  max : F → F → F
  min : F → F → F
  lt : F → F → Bool
  isFinite : F → Bool

def RealOps.bin {F} (o : RealOps F) : BinOp → F → F → F
  | .add => o.add | .sub => o.sub | .mul => o.mul | .div => o.div | .pow => o.pow

def RealOps.fn1 {F} (o : RealOps F) : Fn1 → F → F
  | .exp => o.exp | .log => o.log | .abs => o.abs

def RealOps.fn2 {F} (o : RealOps F) : Fn2 → F → F → F
  | .max => o.max | .min => o.min

/-! ### Python denotation: `int` and `float` (float64) -/

inductive PVal (F : Type) where
  | int (v : Int)
  | flt (x : F)
  deriving Repr

def PVal.toF {F} (o : RealOps F) : PVal F → F
  | .int v => o.ofInt v
  | .flt x => x

/-- Python `a ** b` on ints: an int for a non-negative exponent, a float otherwise. -/
def pyIntPow {F} (o : RealOps F) (a b : Int) : PVal F :=
  if 0 ≤ b then .int (a ^ b.toNat) else .flt (o.pow (o.ofInt a) (o.ofInt b))

def pyBin {F} (o : RealOps F) (op : BinOp) : PVal F → PVal F → PVal F
  | .int a, .int b =>
    match op with
    | .add => .int (a + b)
    | .sub => .int (a - b)
    | .mul => .int (a * b)
    | .div => .flt (o.div (o.ofInt a) (o.ofInt b))   -- true division
    | .pow => pyIntPow o a b
  | x, y => .flt (o.bin op (x.toF o) (y.toF o))

def pyNeg {F} (o : RealOps F) : PVal F → PVal F
  | .int a => .int (-a)
  | .flt x => .flt (o.neg x)

/-- `np.exp` / `np.log` always give a float; builtin `abs` keeps an int an int. -/
def pyFn1 {F} (o : RealOps F) (f : Fn1) : PVal F → PVal F
  | .int a =>
    match f with
    | .abs => .int (Int.ofNat a.natAbs)
    | g => .flt (o.fn1 g (o.ofInt a))
  | .flt x => .flt (o.fn1 f x)

/-- Builtin `max` / `min`: one of the two arguments.  Two ints give an int; a mixed pair is compared by value and the
    result is used only through `toF` by every consumer in this language, so it is modelled as a float. -/
def pyFn2 {F} (o : RealOps F) (f : Fn2) : PVal F → PVal F → PVal F
  | .int a, .int b =>
    match f with
    | .max => .int (if b > a then b else a)
    | .min => .int (if b < a then b else a)
  | x, y => .flt (o.fn2 f (x.toF o) (y.toF o))

/-- Value of the Python expression; `ρ a off` is `self._<a>[t + off]`. -/
def denP {α F} (o : RealOps F) (ρ : α → Int → F) : Expr α → PVal F
  | .int n => .int n
  | .dec m e => .flt (o.ofDec m e)
  | .var a off => .flt (ρ a off)
  | .neg x => pyNeg o (denP o ρ x)
  | .bin op x y => pyBin o op (denP o ρ x) (denP o ρ y)
  | .fn1 f x => pyFn1 o f (denP o ρ x)
  | .fn2 f x y => pyFn2 o f (denP o ρ x) (denP o ρ y)

/-! ### Fortran denotation: integer, real(4), real(8) -/

inductive Kind where
  | int | r4 | r8
  deriving DecidableEq, Repr

inductive FVal (F4 F8 : Type) where
  | int (v : Int)
  | r4 (x : F4)
  | r8 (x : F8)
  deriving Repr

/-- The two real kinds and the (exact) widening between them. -/
structure Tower (F4 F8 : Type) where
  o4 : RealOps F4
  o8 : RealOps F8
  up : F4 → F8

def FVal.to8 {F4 F8} (T : Tower F4 F8) : FVal F4 F8 → F8
  | .int v => T.o8.ofInt v
  | .r4 x => T.up x
  | .r8 x => x

def FVal.to4 {F4 F8} (T : Tower F4 F8) : FVal F4 F8 → F4
  | .int v => T.o4.ofInt v
  | .r4 x => x
  | .r8 _ => T.o4.ofInt 0   -- never used: a real(8) operand promotes the operation to real(8)

/-- Fortran integer power: a negative exponent is `1 / a**|b|` in integer arithmetic. -/
def fIntPow (a b : Int) : Int :=
  if 0 ≤ b then a ^ b.toNat else Int.tdiv 1 (a ^ (-b).toNat)

def fIntBin : BinOp → Int → Int → Int
  | .add, a, b => a + b
  | .sub, a, b => a - b
  | .mul, a, b => a * b
  | .div, a, b => Int.tdiv a b     -- truncation toward zero
  | .pow, a, b => fIntPow a b

/-- Binary operation with Fortran's promotion: both integer → integer; otherwise the wider real kind of the two,
    except that `real ** integer` keeps the integer exponent. -/
def fBin {F4 F8} (T : Tower F4 F8) (op : BinOp) : FVal F4 F8 → FVal F4 F8 → FVal F4 F8
  | .int a, .int b => .int (fIntBin op a b)
  | .r8 x, .int b =>
    match op with
    | .pow => .r8 (T.o8.powi x b)
    | g => .r8 (T.o8.bin g x (T.o8.ofInt b))
  | .r4 x, .int b =>
    match op with
    | .pow => .r4 (T.o4.powi x b)
    | g => .r4 (T.o4.bin g x (T.o4.ofInt b))
  | .r8 x, y => .r8 (T.o8.bin op x (y.to8 T))
  | x, .r8 y => .r8 (T.o8.bin op (x.to8 T) y)
  | x, y => .r4 (T.o4.bin op (x.to4 T) (y.to4 T))

def fNeg {F4 F8} (T : Tower F4 F8) : FVal F4 F8 → FVal F4 F8
  | .int a => .int (-a)
  | .r4 x => .r4 (T.o4.neg x)
  | .r8 x => .r8 (T.o8.neg x)

/-- Generic intrinsics keep the kind of their argument.  `exp`/`log` of an integer do not compile (`none`). -/
def fFn1 {F4 F8} (T : Tower F4 F8) (f : Fn1) : FVal F4 F8 → Option (FVal F4 F8)
  | .int a =>
    match f with
    | .abs => some (.int (Int.ofNat a.natAbs))
    | _ => none
  | .r4 x => some (.r4 (T.o4.fn1 f x))
  | .r8 x => some (.r8 (T.o8.fn1 f x))

/-- `max`/`min`: same type required; gfortran accepts real(4) beside real(8) (promoting), rejects integer beside
    real (`none`). -/
def fFn2 {F4 F8} (T : Tower F4 F8) (f : Fn2) : FVal F4 F8 → FVal F4 F8 → Option (FVal F4 F8)
  | .int a, .int b =>
    match f with
    | .max => some (.int (if b > a then b else a))
    | .min => some (.int (if b < a then b else a))
  | .int _, _ => none
  | _, .int _ => none
  | .r4 x, .r4 y => some (.r4 (T.o4.fn2 f x y))
  | x, y => some (.r8 (T.o8.fn2 f (x.to8 T) (y.to8 T)))

def bind2 {α β} (f : α → α → Option β) : Option α → Option α → Option β
  | some a, some b => f a b
  | _, _ => none

/-- Value of the Fortran expression (`none` = the source does not compile); `cell r off` is
    `solved_values(r, index + off)`. -/
def denF {α F4 F8} (T : Tower F4 F8) (cell : α → Int → F8) : Expr α → Option (FVal F4 F8)
  | .int n => some (.int n)
  | .dec m e => some (.r4 (T.o4.ofDec m e))
  | .var a off => some (.r8 (cell a off))
  | .neg x => (denF T cell x).map (fNeg T)
  | .bin op x y => bind2 (fun a b => some (fBin T op a b)) (denF T cell x) (denF T cell y)
  | .fn1 f x => (denF T cell x).bind (fFn1 T f)
  | .fn2 f x y => bind2 (fFn2 T f) (denF T cell x) (denF T cell y)

def FVal.kind {F4 F8} : FVal F4 F8 → Kind
  | .int _ => .int
  | .r4 _ => .r4
  | .r8 _ => .r8

/-- A Fortran value read as the Python value it should equal: integers as ints, reals widened to float64. -/
def lift {F4 F8} (T : Tower F4 F8) : FVal F4 F8 → PVal F8
  | .int v => .int v
  | .r4 x => .flt (T.up x)
  | .r8 x => .flt x

/-- The variable references of an expression. -/
def Expr.refs {α} : Expr α → List (α × Int)
  | .int _ => []
  | .dec _ _ => []
  | .var a off => [(a, off)]
  | .neg x => x.refs
  | .bin _ x y => x.refs ++ y.refs
  | .fn1 _ x => x.refs
  | .fn2 _ x y => x.refs ++ y.refs

/-! ### `KindSafe`: the fragment on which the two languages provably agree -/

/-- Static Fortran kind of an expression. -/
def kindOf {α} : Expr α → Kind
  | .int _ => .int
  | .dec _ _ => .r4
  | .var _ _ => .r8
  | .neg x => kindOf x
  | .bin _ x y =>
    match kindOf x, kindOf y with
    | .int, .int => .int
    | .r8, _ => .r8
    | _, .r8 => .r8
    | _, _ => .r4
  | .fn1 _ x => kindOf x
  | .fn2 _ x y =>
    match kindOf x, kindOf y with
    | .int, .int => .int
    | .r4, .r4 => .r4
    | _, _ => .r8

/-- Value of an integer-kind (hence constant) expression in unbounded integers. -/
def intVal {α} : Expr α → Option Int
  | .int n => some n
  | .neg x => (intVal x).map (fun v => -v)
  | .bin op x y => bind2 (fun a b => some (fIntBin op a b)) (intVal x) (intVal y)
  | .fn1 .abs x => (intVal x).map (fun v => Int.ofNat v.natAbs)
  | .fn2 .max x y => bind2 (fun a b => some (if b > a then b else a)) (intVal x) (intVal y)
  | .fn2 .min x y => bind2 (fun a b => some (if b < a then b else a)) (intVal x) (intVal y)
  | _ => none

/-- default integer is 32-bit -/
def inInt32 (v : Int) : Bool := decide (-2147483648 ≤ v) && decide (v ≤ 2147483647)

def intOk {α} (e : Expr α) : Bool :=
  match intVal e with
  | some v => inInt32 v
  | none => false

def nonNegConst {α} (e : Expr α) : Bool :=
  match intVal e with
  | some v => decide (0 ≤ v)
  | none => false

/-- `exact4 m e` says the literal `m·10⁻ᵉ` is exactly representable in real(4); it is a parameter tied to the
    operators by the hypothesis `up (o4.ofDec m e) = o8.ofDec m e` of the agreement theorem.
    * integer-kind subexpressions: only `+ - *`, `**` with a non-negative constant exponent, unary minus, `abs`,
      `max`/`min`, and every value within 32 bits — so **no `int / int`**;
    * a decimal literal must be exact in real(4) and may only be negated or meet a real(8) operand — no real(4)
      arithmetic, no real(4) or integer argument to `exp`/`log`, no integer beside a real in `max`/`min`;
    * `real(8) ** integer` is excluded (Fortran multiplies repeatedly, Python calls `pow` with a float exponent). -/
def kindSafe {α} (exact4 : Nat → Nat → Bool) : Expr α → Bool
  | .int n => inInt32 n
  | .dec m e => exact4 m e
  | .var _ _ => true
  | .neg x => kindSafe exact4 x && (kindOf x != .int || intOk (.neg x))
  | .bin op x y =>
    kindSafe exact4 x && kindSafe exact4 y &&
    (match kindOf x, kindOf y with
     | .int, .int =>
       (match op with
        | .div => false
        | .pow => nonNegConst y
        | _ => true) && intOk (.bin op x y)
     | .r8, .int => op != .pow
     | .r8, _ => true
     | _, .r8 => true
     | _, _ => false)
  | .fn1 f x =>
    kindSafe exact4 x &&
    (match kindOf x with
     | .r8 => true
     | .int => f == .abs && intOk (.fn1 f x)
     | .r4 => false)
  | .fn2 _ x y =>
    kindSafe exact4 x && kindSafe exact4 y &&
    (match kindOf x, kindOf y with
     | .int, .int => true
     | .int, _ => false
     | _, .int => false
     | .r4, .r4 => false
     | _, _ => true)

/-- `n` is a power of two. -/
def isPow2 (n : Nat) : Bool := n != 0 && Nat.land n (n - 1) == 0

/-- `n` with its factors of two removed (for `n < 2^200`). -/
def oddPart (n : Nat) : Nat := n / Nat.gcd n (2 ^ 200)

def decNum (m e : Nat) : Nat := m / Nat.gcd m (10 ^ e)
def decDen (m e : Nat) : Nat := 10 ^ e / Nat.gcd m (10 ^ e)

/-- The decimal literal `m·10⁻ᵉ` is a binary32 number: in lowest terms the denominator is a power of two, the
    numerator has at most 24 significant bits, and both are small enough for the normal exponent range. -/
def exact4Std (m e : Nat) : Bool :=
  m == 0 || (isPow2 (decDen m e) && decide (oddPart (decNum m e) < 2 ^ 24) &&
             decide (decDen m e ≤ 2 ^ 64) && decide (decNum m e < 2 ^ 64))

/-! ### Storage shared by both engines: `self.values` as a column-major `nrows × ncols` block -/

structure Mat (F : Type) where
  nrows : Nat
  ncols : Nat
  mem : List F
  deriving DecidableEq, Repr

/-- Offset of `solved_values(r, c)` (1-based) in column-major storage. -/
def offsetOf (nrows : Nat) (r c : Int) : Int := (c - 1) * nrows + (r - 1)

/-- `solved_values(r, c)`: no bounds check, as compiled; `guard` is what lies outside the block. -/
def Mat.fget {F} (s : Mat F) (guard : F) (r c : Int) : F :=
  if 0 ≤ offsetOf s.nrows r c then s.mem.getD (offsetOf s.nrows r c).toNat guard else guard

def Mat.fset {F} (s : Mat F) (r c : Int) (v : F) : Mat F :=
  if 0 ≤ offsetOf s.nrows r c then { s with mem := setAt s.mem (offsetOf s.nrows r c).toNat v } else s

/-- `self._<name>[i]` where `name` is at 0-based position `row0` of `NAMES` (`none` = IndexError). -/
def Mat.pyGet {F} (s : Mat F) (guard : F) (row0 : Nat) (i : Int) : Option F :=
  match pyIndex s.ncols i with
  | some p => some (s.mem.getD (p * s.nrows + row0) guard)
  | none => none

def Mat.pySet {F} (s : Mat F) (row0 : Nat) (i : Int) (v : F) : Option (Mat F) :=
  match pyIndex s.ncols i with
  | some p => some { s with mem := setAt s.mem (p * s.nrows + row0) v }
  | none => none

/-- A program after numbering: `((row of the left-hand side, its own offset), right-hand side)` in evaluation order.
    The defined variable may carry a lag or lead of its own (`H[1] = H + YD - C` assigns period `t + 1`). -/
abbrev Prog := List ((Nat × Int) × Expr Nat)

/-- The `{equations}` block of `evaluate` at column `index`: assignments in order, the right-hand side converted to
    real(8) on assignment.  An equation that does not compile leaves the store unchanged (never run in practice:
    such a module cannot be built). -/
def fBody {F4 F8} (T : Tower F4 F8) : Prog → Mat F8 → Int → Mat F8
  | [], s, _ => s
  | ((r, k), e) :: rest, s, index =>
    match denF T (fun a off => s.fget (T.o8.ofInt 0) (a : Nat) (index + off)) e with
    | some v => fBody T rest (s.fset r (index + k) (v.to8 T)) index
    | none => fBody T rest s index

/-- Every `self._x[t + off]` read by the expression is inside the span (otherwise NumPy raises IndexError). -/
def refsOk {α} (n : Nat) (t : Int) : Expr α → Bool
  | .int _ => true
  | .dec _ _ => true
  | .var _ off => (pyIndex n (t + off)).isSome
  | .neg x => refsOk n t x
  | .bin _ x y => refsOk n t x && refsOk n t y
  | .fn1 _ x => refsOk n t x
  | .fn2 _ x y => refsOk n t x && refsOk n t y

def Mat.pySetD {F} (s : Mat F) (row0 : Nat) (i : Int) (v : F) : Mat F :=
  match s.pySet row0 i v with
  | some s' => s'
  | none => s

/-- Value stored by one generated Python statement. -/
def pRhs {F} (o : RealOps F) (s : Mat F) (t : Int) (e : Expr Nat) : F :=
  (denP o (fun a off => (s.pyGet (o.ofInt 0) (a - 1) (t + off)).getD (o.ofInt 0)) e).toF o

/-- The generated Python `_evaluate(t)`: `self._<lhs>[t + k] = <rhs>` in order; rows are 1-based numbers here, so the
    Python row is `r - 1`.  Returns the store and whether IndexError was raised (stores made before it survive). -/
def pBody {F} (o : RealOps F) : Prog → Mat F → Int → Mat F × Bool
  | [], s, _ => (s, false)
  | ((r, k), e) :: rest, s, t =>
    if refsOk s.ncols t e && (pyIndex s.ncols (t + k)).isSome then
      pBody o rest (s.pySetD (r - 1) (t + k) (pRhs o s t e)) t
    else (s, true)

/-! ## (c) FORTRAN_TEMPLATE: `evaluate`, `solve_t`, `solve` -/

/-- Integer codes as declared in the template's `error_codes` / `failure_codes` modules (checked against the
    reflected template text by `error_codes_consistent`). -/
def cIndexBelow : Int := 11
def cIndexAbove : Int := 12
def cIndexLags : Int := 13
def cIndexLeads : Int := 14
def cNumRaise : Int := 21
def cNumSkip : Int := 22
def cPreExisting : Int := 31
def cOffsetBefore : Int := 41
def cOffsetAfter : Int := 42
def ecRaise : Int := 0
def ecSkip : Int := 1
def ecIgnore : Int := 2
def ecReplace : Int := 3
def fcRaise : Int := 0
def fcIgnore : Int := 2

/-- What the subroutines need from a compiled module, for one instance size.  `σ` = the `solved_values` block.
    Columns are 1-based positions that have passed the range checks. -/
structure Engine (σ V : Type) where
  ncols : Nat
  lags : Nat
  leads : Nat
  /-- `solved_values(convergence_variables, index)` -/
  check : σ → Nat → V
  /-- `.not. any(.not. ieee_is_finite(v))` -/
  allFinite : V → Bool
  /-- `all(abs(current_check - previous_check) < tol)` as `close current previous` -/
  close : V → V → Bool
  /-- `.not. any(.not. ieee_is_finite(solved_values(endogenous, index)))` -/
  endoFinite : σ → Nat → Bool
  /-- the `replace` loop: non-finite endogenous values of the column set to 0 -/
  zeroEndo : σ → Nat → σ
  /-- `solved_values(endogenous, dst) = solved_values(endogenous, src)` -/
  copyEndo : σ → Nat → Nat → σ
  /-- the `{equations}` block at a column -/
  body : σ → Nat → σ

structure Cfg where
  minIter : Int
  maxIter : Int
  offset : Int
  errorControl : Int
  failureControl : Int
  deriving DecidableEq, Repr

/-- `index = t; if(index < 1) index = index + ncols`. -/
def indexOf (ncols : Nat) (t : Int) : Int := if t < 1 then t + ncols else t

/-- The range and lag/lead checks shared by `evaluate` and `solve_t` (0 = passed). -/
def indexCode {σ V} (E : Engine σ V) (index : Int) : Int :=
  if index < 1 then cIndexBelow
  else if index > E.ncols then cIndexAbove
  else if index ≤ E.lags then cIndexLags
  else if index > (E.ncols : Int) - E.leads then cIndexLeads
  else 0

/-- `subroutine evaluate`: (solved_values, error_code). -/
def evaluate {σ V} (E : Engine σ V) (u : σ) (t : Int) : σ × Int :=
  if indexCode E (indexOf E.ncols t) ≠ 0 then (u, indexCode E (indexOf E.ncols t))
  else (E.body u (indexOf E.ncols t).toNat, 0)

/-- Outputs of `solve_t`. -/
structure Out (σ : Type) where
  state : σ
  converged : Bool
  iteration : Int
  code : Int
  deriving DecidableEq, Repr

/-- The non-finite branch of the loop body: `some out` = `return`, `none` = `cycle` with the given state. -/
def onNonFinite {σ V} (E : Engine σ V) (c : Cfg) (u : σ) (index k : Nat) : Option (Out σ) × σ :=
  if c.errorControl = ecRaise then (some ⟨u, false, k, cNumRaise⟩, u)
  else if c.errorControl = ecSkip then (some ⟨u, false, k, cNumSkip⟩, u)
  else if c.errorControl = ecIgnore then (none, u)
  else (none, if (k : Int) < c.maxIter then E.zeroEndo u index else u)

/-- `do iteration = 1, max_iter … end do; if(.not. converged) iteration = iteration - 1`.
    `fuel` = trips left, `k` = value of `iteration` for the next trip, `cur` = `current_check`, `code` = the value
    `error_code` holds (0 before the first trip: the template sets it just before the loop).  An `error_control` outside the four declared values falls
    through the `if` chain to the convergence test, as in the source. -/
def floop {σ V} (E : Engine σ V) (c : Cfg) (index : Nat) : Nat → Nat → σ → V → Int → Out σ
  | 0, k, u, _, code => ⟨u, false, (k : Int) - 1, code⟩
  | fuel + 1, k, u, cur, _ =>
    if (evaluate E u index).2 ≠ 0 then ⟨(evaluate E u index).1, false, k, (evaluate E u index).2⟩
    else if E.endoFinite (evaluate E u index).1 index = false ∧
        (c.errorControl = ecRaise ∨ c.errorControl = ecSkip ∨ c.errorControl = ecIgnore ∨
         c.errorControl = ecReplace) then
      match (onNonFinite E c (evaluate E u index).1 index k).1 with
      | some out => out
      | none => floop E c index fuel (k + 1) (onNonFinite E c (evaluate E u index).1 index k).2
                  (E.check (evaluate E u index).1 index) 0
    else if (k : Int) < c.minIter then
      floop E c index fuel (k + 1) (evaluate E u index).1 (E.check (evaluate E u index).1 index) 0
    else if E.close (E.check (evaluate E u index).1 index) cur = true then
      ⟨(evaluate E u index).1, true, k, 0⟩
    else floop E c index fuel (k + 1) (evaluate E u index).1 (E.check (evaluate E u index).1 index) 0

/-- After the index checks: offset copy, pre-existing non-finite test, loop.  An early `return` leaves
    `iteration` unset (reported as 0; the wrapper never stores it on those paths). -/
def solveTCore {σ V} (E : Engine σ V) (c : Cfg) (u : σ) (index : Nat) : Out σ :=
  if c.offset ≠ 0 ∧ (index : Int) + c.offset < 1 then ⟨u, false, 0, cOffsetBefore⟩
  else if c.offset ≠ 0 ∧ (index : Int) + c.offset > E.ncols then ⟨u, false, 0, cOffsetAfter⟩
  else if c.errorControl = ecRaise ∧
      E.allFinite (E.check (if c.offset ≠ 0 then E.copyEndo u index ((index : Int) + c.offset).toNat else u)
        index) = false then
    ⟨if c.offset ≠ 0 then E.copyEndo u index ((index : Int) + c.offset).toNat else u, false, 0, cPreExisting⟩
  else floop E c index c.maxIter.toNat 1
    (if c.offset ≠ 0 then E.copyEndo u index ((index : Int) + c.offset).toNat else u)
    (E.check (if c.offset ≠ 0 then E.copyEndo u index ((index : Int) + c.offset).toNat else u) index) 0

/-- `subroutine solve_t`. -/
def solveT {σ V} (E : Engine σ V) (c : Cfg) (u : σ) (t : Int) : Out σ :=
  if indexCode E (indexOf E.ncols t) ≠ 0 then ⟨u, false, 0, indexCode E (indexOf E.ncols t)⟩
  else solveTCore E c u (indexOf E.ncols t).toNat

/-- Per-period results of `solve`: (convergence_results(i), iterations(i), solution_error_codes(i)). -/
structure PeriodOut where
  converged : Bool
  iteration : Int
  code : Int
  deriving DecidableEq, Repr

def unresolved : PeriodOut := ⟨false, -1, -1⟩

/-- The two `return` statements inside the period loop of `solve`: a failure to converge under
    `failure_control_raise`, and any non-zero error code except a numerical error the caller asked to skip. -/
def stops {σ} (c : Cfg) (r : Out σ) : Bool :=
  if r.code = 0 then (!r.converged && decide (c.failureControl = fcRaise))
  else !(decide (r.code = cNumSkip) && decide (c.errorControl = ecSkip))

def periodOut {σ} (r : Out σ) : PeriodOut := ⟨r.code = 0 && r.converged, r.iteration, r.code⟩

/-- `subroutine solve`: periods in order, each from the state the previous one left; after a `return` the remaining
    entries keep their initial values (false, −1, −1). -/
def solve {σ V} (E : Engine σ V) (c : Cfg) : List Int → σ → σ × List PeriodOut
  | [], u => (u, [])
  | t :: rest, u =>
    if stops c (solveT E c u t) = true then
      ((solveT E c u t).state, periodOut (solveT E c u t) :: rest.map (fun _ => unresolved))
    else
      ((solve E c rest (solveT E c u t).state).1,
       periodOut (solveT E c u t) :: (solve E c rest (solveT E c u t).state).2)

/-! ## (c) The `FortranEngine` wrapper -/

/-- `_ERROR_OPTIONS[errors]` (`none` = KeyError / rejected earlier). -/
def errorOption : ErrMode → Option Int
  | .raise => some 0
  | .skip => some 1
  | .ignore => some 2
  | .replace => some 3
  | .invalid => none

/-- `_FAILURE_OPTIONS[failures]` for the two documented strings. -/
def failureOption (failRaise : Bool) : Int := if failRaise then 0 else 2

/-- Exceptions and returns of the wrapper methods. -/
inductive WResult where
  | ret (solved : Bool)
  | valueError
  | indexError
  | solutionError
  | nonConvergence
  | fortranEngineError
  | keyError
  deriving DecidableEq, Repr

/-- The engine as the wrapper drives it.  The wrapper's own Python-side read of the check variables
    (`get_check_values()`) and the compiled loop's `solved_values(convergence_variables, index)` are the same
    function `check`: the wrapper passes `names.index(x) + 1`, the 1-based row of the variable itself
    (`fortran_check_rows_aligned` in `Proofs/C07.lean` for the concrete storage). -/
abbrev Wrapped (σ V : Type) := Engine σ V

def cfgOf (o : Opts) (ec : Int) : Cfg :=
  ⟨o.minIter, o.maxIter, o.offset, ec, failureOption o.failRaise⟩

/-- Error-code dispatch of `FortranEngine.solve_t` once the engine has returned. -/
def dispatchT {σ} (o : Opts) (n : Nat) (t : Int) (w : World σ) (r : Out σ) : World σ × WResult :=
  if r.code = 0 then
    (stamp (withUser w r.state) n t (if r.converged then .solved else .failed) r.iteration,
     if r.converged = false ∧ o.failRaise = true then .nonConvergence else .ret r.converged)
  else if r.code = 21 ∧ o.errors = .raise then
    (stamp (withUser w r.state) n t .error r.iteration, .solutionError)
  else if r.code = 22 ∧ o.errors = .skip then
    (stamp (withUser w r.state) n t .skipped r.iteration, .ret false)
  else if r.code = 11 ∨ r.code = 12 ∨ r.code = 13 ∨ r.code = 14 then (withUser w r.state, .indexError)
  else (withUser w r.state, .fortranEngineError)

/-- `FortranEngine.solve_t(t, **opts)` for `-n ≤ t < n` (`n = ncols`). -/
def wSolveT {σ V} (W : Wrapped σ V) (o : Opts) (t : Int) (w : World σ) : World σ × WResult :=
  if o.minIter > o.maxIter then (w, .valueError)
  else if normT W.ncols t - W.lags < 0 ∨ normT W.ncols t + W.leads ≥ W.ncols then (w, .indexError)
  else match errorOption o.errors with
  | none => (w, .valueError)
  | some ec =>
    if o.offset ≠ 0 ∧ normT W.ncols t + o.offset < 0 then (w, .indexError)
    else if o.offset ≠ 0 ∧ normT W.ncols t + o.offset ≥ W.ncols then (w, .indexError)
    else if o.errors = .raise ∧
        W.allFinite (W.check
          (if o.offset ≠ 0 then
             W.copyEndo w.user (normT W.ncols t + 1).toNat (normT W.ncols t + o.offset + 1).toNat
           else w.user) (normT W.ncols t + 1).toNat) = false then
      (withUser w
         (if o.offset ≠ 0 then
            W.copyEndo w.user (normT W.ncols t + 1).toNat (normT W.ncols t + o.offset + 1).toNat
          else w.user), .solutionError)
    else
      dispatchT o W.ncols t w
        (solveT W (cfgOf o ec)
          (if o.offset ≠ 0 then
             W.copyEndo w.user (normT W.ncols t + 1).toNat (normT W.ncols t + o.offset + 1).toNat
           else w.user) (t + 1))

/-- `FortranEngine._evaluate(t)`: (state, raised?) with the exception class. -/
inductive EvalResult where
  | ok | indexError | solutionError
  deriving DecidableEq, Repr

def wEvaluate {σ V} (E : Engine σ V) (u : σ) (t : Int) : σ × EvalResult :=
  if (evaluate E u (t + 1)).2 = 0 then ((evaluate E u (t + 1)).1, .ok)
  else if (evaluate E u (t + 1)).2 = 11 ∨ (evaluate E u (t + 1)).2 = 12 ∨ (evaluate E u (t + 1)).2 = 13 ∨
      (evaluate E u (t + 1)).2 = 14 then (u, .indexError)
  else (u, .solutionError)

/-- Results of the wrapper's `solve`. -/
inductive WSolveResult where
  | ok (positions : List Nat) (flags : List Bool)
  | err (r : WResult)
  deriving DecidableEq, Repr

/-- Prepend a flag to the result of the rest of the zip loop. -/
def consFlag {σ} (b : Bool) (x : World σ × Option WResult × List Bool) : World σ × Option WResult × List Bool :=
  (x.1, x.2.1, b :: x.2.2)

/-- The loop over `zip(indexes, labels, convergences, iterations, error_codes)` in `FortranEngine.solve`:
    (world, exception raised if any, the `solved` flags assigned so far). -/
def dispatchList {σ} (o : Opts) (n : Nat) : List (Nat × PeriodOut) → World σ → World σ × Option WResult × List Bool
  | [], w => (w, none, [])
  | (p, r) :: rest, w =>
    if r.converged = true then consFlag true (dispatchList o n rest (stamp w n p .solved r.iteration))
    else if r.code = 0 then
      if o.failRaise = true then (stamp w n p .failed r.iteration, some .nonConvergence, [])
      else consFlag false (dispatchList o n rest (stamp w n p .failed r.iteration))
    else if r.code = 21 ∧ o.errors = .raise then (stamp w n p .error r.iteration, some .solutionError, [])
    else if r.code = 31 ∧ o.errors = .raise then (w, some .solutionError, [])
    else if r.code = 41 then (w, some .indexError, [])
    else if r.code = 42 then (w, some .indexError, [])
    else if r.code = 22 ∧ o.errors = .skip then
      consFlag false (dispatchList o n rest (stamp w n p .skipped r.iteration))
    else if r.code = 11 ∨ r.code = 12 ∨ r.code = 13 ∨ r.code = 14 then (w, some .indexError, [])
    else (w, some .fortranEngineError, [])

/-- `FortranEngine.solve` over the positions `ps` (already resolved from `start`/`end`). -/
def wSolve {σ V} (W : Wrapped σ V) (o : Opts) (ps : List Nat) (w : World σ) : World σ × WSolveResult :=
  if o.minIter > o.maxIter then (w, .err .valueError)
  else match errorOption o.errors with
  | none => (w, .err .valueError)   -- KeyError in the code; outside the option lattice
  | some ec =>
    match dispatchList o W.ncols
        (ps.zip (solve W (cfgOf o ec) (ps.map fun (p : Nat) => (p : Int) + 1) w.user).2)
        (withUser w (solve W (cfgOf o ec) (ps.map fun (p : Nat) => (p : Int) + 1) w.user).1) with
    | (w', none, fs) => (w', .ok ps fs)
    | (w', some r, _) => (w', .err r)

/-- `FortranEngine.solve(start=, end=, **opts)`: the checks and period resolution before the engine call. -/
def wSolveFull {σ V} (W : Wrapped σ V) (o : Opts) (start stop : Option Loc) (w : World σ) :
    World σ × WSolveResult :=
  if o.minIter > o.maxIter then (w, .err .valueError)
  else if start = some .other ∨ start = some .missing then (w, .err .keyError)
  else if stop = some .other ∨ stop = some .missing then (w, .err .keyError)
  else
    match resolveBound start (if W.lags < W.ncols then some W.lags else none),
          resolveBound stop (if W.leads < W.ncols then some (W.ncols - 1 - W.leads) else none) with
    | .ok s, .ok e => wSolve W o (periodRange s e) w
    | _, _ => (w, .err .indexError)

/-! ### The Python class seen through M1, for comparison -/

/-- The generated Python class over the same storage: passes never raise, hooks are `pass`. -/
def toInterp {σ V} (W : Wrapped σ V) : Interp σ V where
  lags := W.lags
  leads := W.leads
  check u t := W.check u (normT W.ncols t + 1).toNat
  allFinite := W.allFinite
  close := W.close
  zeroNF v := v
  copyOffset u t off := W.copyEndo u (normT W.ncols t + 1).toNat (normT W.ncols t + off + 1).toNat
  before _ u _ := (u, false)
  eval _ u t _ := (W.body u (normT W.ncols t + 1).toNat, false)
  after _ u _ _ := (u, false)

/-- M1's results as wrapper results (chained or not, a SolutionError is a SolutionError). -/
def ofResult : Result → WResult
  | .ret b => .ret b
  | .valueError => .valueError
  | .indexError => .indexError
  | .solutionError _ => .solutionError
  | .nonConvergence => .nonConvergence
  | .badErrorsArg => .valueError

/-! ## The engines of one numbered program over the shared storage -/

def closeVec {F} (o : RealOps F) (tol : F) (cur prev : List F) : Bool :=
  (cur.zip prev).all fun cp => o.lt (o.abs (o.sub cp.1 cp.2)) tol

def finiteVec {F} (o : RealOps F) (v : List F) : Bool := v.all o.isFinite

/-- One model instance: the numbered equations, the `endogenous` array, the positions of the check variables in
    `NAMES` (`self.names.index(x)`, 0-based — the wrapper passes these **plus one** as `convergence_variables`), and
    the sizes. -/
structure Spec (F : Type) where
  prog : Prog
  endo : List Nat
  conv : List Nat
  ncols : Nat
  lags : Nat
  leads : Nat
  tol : F

/-- `[self.names.index(x) + 1 for x in self.check]`. -/
def Spec.passed {F} (S : Spec F) : List Nat := S.conv.map (· + 1)

def zeroRows {F} (o : RealOps F) (rows : List Nat) (index : Nat) (s : Mat F) : Mat F :=
  rows.foldl (fun acc (r : Nat) =>
    if o.isFinite (acc.fget (o.ofInt 0) r index) then acc else acc.fset r index (o.ofInt 0)) s

def copyRows {F} (g : F) (rows : List Nat) (dst src : Nat) (s : Mat F) : Mat F :=
  rows.foldl (fun acc (r : Nat) => acc.fset r dst (s.fget g r src)) s

/-- The compiled module driven by the wrapper: `check` reads the passed row numbers 1-based, exactly as
    `solved_values(convergence_variables, index)` does. -/
def specWrapped {F4 F8} (T : Tower F4 F8) (S : Spec F8) : Wrapped (Mat F8) (List F8) where
  ncols := S.ncols
  lags := S.lags
  leads := S.leads
  check u index := S.passed.map fun r => u.fget (T.o8.ofInt 0) (r : Nat) index
  allFinite := finiteVec T.o8
  close := closeVec T.o8 S.tol
  endoFinite u index := (S.endo.map fun r => u.fget (T.o8.ofInt 0) (r : Nat) index).all T.o8.isFinite
  zeroEndo u index := zeroRows T.o8 S.endo index u
  copyEndo u dst src := copyRows (T.o8.ofInt 0) S.endo dst src u
  body u index := fBody T S.prog u index

/-- `self._x[t] = self._x[t + offset]` for the endogenous rows, with Python's index semantics. -/
def pyCopy {F} (g : F) (rows : List Nat) (t off : Int) (s : Mat F) : Mat F :=
  rows.foldl (fun acc r => acc.pySetD (r - 1) t ((s.pyGet g (r - 1) (t + off)).getD g)) s

/-- The generated Python class as an M1 interpretation (periods addressed with Python's index semantics, so an
    infeasible period wraps around or raises IndexError as NumPy does). -/
def pyInterp {F} (o : RealOps F) (S : Spec F) : Interp (Mat F) (List F) where
  lags := S.lags
  leads := S.leads
  check u t := S.conv.map fun r => (u.pyGet (o.ofInt 0) r t).getD (o.ofInt 0)
  allFinite := finiteVec o
  close := closeVec o S.tol
  zeroNF v := v.map fun x => if o.isFinite x then x else o.ofInt 0
  copyOffset u t off := pyCopy (o.ofInt 0) S.endo t off u
  before _ u _ := (u, false)
  eval _ u t _ := pBody o S.prog u t
  after _ u _ _ := (u, false)

end Fsic.Fortran
