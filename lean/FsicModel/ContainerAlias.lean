import FsicModel.Container
import FsicModel.Alias
/-
M6 + M8 — the container seen through `fsic.extensions.common.AliasMixin`.

The mixin wraps `__getattr__`, `__setattr__`, `__getitem__`, `__setitem__` and resolves an alias in the *name*
position only: `obj[alias, label]` is `obj[resolve alias, label]` — the label (or the label slice) is handed on
as it is, whether or not it happens to be spelled like an alias or like a variable.  In the model names are strings
and labels are label classes, and `Op.resolveNames` rewrites names only.

`add_variable` / `add_attribute` are not wrapped by the mixin (names are taken literally); `replace_values` goes
through `__setitem__` and therefore resolves its keys.
-/
namespace Fsic.Container
open Fsic

/-- `self.aliases` of an instance whose class declares `ALIASES = raw` (chains shortened, self-maps dropped). -/
def aliasesOf (raw : Alias.AMap Name) : Alias.AMap Name :=
  match Alias.instanceAliases raw with
  | .returned m => m
  | .valueError => []

/-- `_resolve_alias` -/
def resolveName (al : Alias.AMap Name) (name : Name) : Name := Alias.resolve al name

/-- The operation the base container receives from the mixin. -/
def Op.resolveNames (al : Alias.AMap Name) : Op → Op
  | .setAttr name v alts => .setAttr (resolveName al name) v alts
  | .setItem name v => .setItem (resolveName al name) v
  | .setPos name i v => .setPos (resolveName al name) i v
  | .setPosSlice name a b st v => .setPosSlice (resolveName al name) a b st v
  | .setLabel name l v => .setLabel (resolveName al name) l v
  | .setLabelSlice name a b st v => .setLabelSlice (resolveName al name) a b st v
  | .replaceValues kvs => .replaceValues (kvs.map fun p => (resolveName al p.1, p.2))
  | op => op

/-- Label arguments of an operation (what is looked up in the span). -/
def Op.labelArgs : Op → List (Option Nat)
  | .setLabel _ l _ => [some l]
  | .setLabelSlice _ a b _ _ => [a, b]
  | _ => []

/-- One public operation on an alias-enabled object. -/
def aStep (cfg : Cfg) (al : Alias.AMap Name) (s : Store) (op : Op) : Store × Outcome :=
  step cfg s (op.resolveNames al)

def aRun (cfg : Cfg) (al : Alias.AMap Name) (s : Store) : List Op → Store
  | [] => s
  | op :: ops => aRun cfg al (aStep cfg al s op).1 ops

def aGetItem (al : Alias.AMap Name) (s : Store) (name : Name) : ReadResult := getItem s (resolveName al name)
def aGetPos (al : Alias.AMap Name) (s : Store) (name : Name) (i : Int) : ReadResult := getPos s (resolveName al name) i
def aGetLabel (al : Alias.AMap Name) (s : Store) (name : Name) (label : Nat) : ReadResult :=
  getLabel s (resolveName al name) label
def aGetLabelSlice (al : Alias.AMap Name) (s : Store) (name : Name) (a b : Option Nat) (st : Option Int) : ReadResult :=
  getLabelSlice s (resolveName al name) a b st

/-- `obj.name`: ordinary lookup of the name as written comes first; only then `__getattr__` with the resolved name,
    which returns the series if that is a variable. -/
def aGetAttr (al : Alias.AMap Name) (s : Store) (name : Name) : ReadResult :=
  if s.attrs.contains name then .other
  else match s.get (resolveName al name) with
    | none => .raised (.attribute none)
    | some ser => .array ser.shape ser.data

end Fsic.Container
