import FsicModel.Basic
import FsicModel.Generated
/-
M6 — Container.  Model of `fsic.core.containers.VectorContainer` (and of the parts of
`fsic.core.interfaces.ModelInterface` / `fsic.core.linkers.BaseLinker` that change how it stores data):
a store of named series (dtype tag, shape, row-major element list), the span as a list of label classes,
the attribute list and the `strict` flag; the operand language of C09's alphabet with the NumPy
shape / cast behaviour *as the code exhibits it*; every public operation as
`step : Store → Op → Store × Outcome`; label location, Python slices and `_resolve_period_slice`.

Core Lean only, total, executable.  External services are inputs, not modelled:
* pandas `get_loc` — the table `Store.getLoc` (label class ↦ what the installed pandas returned);
* `difflib.get_close_matches` — the `alts` field of `Op.setAttr`;
* Python `==`/`hash` on labels — labels arrive as class numbers (`1`, `1.0`, `True` are one class).
-/
namespace Fsic.Container
open Fsic

abbrev Name := String

/-! ## Values, dtypes, element conversion (NumPy casting `unsafe`, as used by assignment / `astype`) -/

inductive Kind where
  | float | int | bool | str
  | obj     -- dtype `object` (a model's `trace` series): elements are opaque tokens, stored as they are
  deriving DecidableEq, Repr, Inhabited

/-- NumPy dtype restricted to the four kinds of the property; `width` is the `<U…` width (0 otherwise). -/
structure Dtype where
  kind : Kind
  width : Nat
  deriving DecidableEq, Repr, Inhabited

/-- A scalar as it crosses the API: float64 (IEEE bits), int64, bool, str. -/
inductive Val where
  | f (bits : UInt64)
  | i (v : Int)
  | b (v : Bool)
  | s (v : String)
  deriving DecidableEq, Repr, Inhabited

/-- Exception classes the container (or NumPy underneath it) raises. -/
inductive Exc where
  | duplicateName            -- fsic.exceptions.DuplicateNameError
  | dimension                -- fsic.exceptions.DimensionError
  | valueShape               -- ValueError: operand cannot be broadcast / ragged / too deep / zero step
  | valueConv                -- ValueError: an element cannot be converted (e.g. 'a' -> float)
  | key                      -- KeyError
  | index                    -- IndexError
  | type                     -- TypeError
  | attribute (hint : Option Name)  -- AttributeError under strict (+ "Did you mean" suggestion)
  | notImplemented           -- NotImplementedError (several equally close names)
  deriving DecidableEq, Repr, Inhabited

inductive Outcome where
  | ok
  | raised (e : Exc)
  deriving DecidableEq, Repr, Inhabited

def Val.kind : Val → Kind
  | .f _ => .float | .i _ => .int | .b _ => .bool | .s _ => .str

def isWs (c : Char) : Bool := c == ' ' || c == '\t' || c == '\n' || c == '\r'

def stripWs (cs : List Char) : List Char :=
  ((cs.dropWhile isWs).reverse.dropWhile isWs).reverse

def digitsVal : List Char → Nat → Option Nat
  | [], acc => some acc
  | c :: cs, acc => if c.isDigit then digitsVal cs (acc * 10 + (c.toNat - '0'.toNat)) else none

def splitSign : List Char → Bool × List Char
  | '-' :: cs => (true, cs)
  | '+' :: cs => (false, cs)
  | cs => (false, cs)

def signed (neg : Bool) (n : Nat) : Int := if neg then -(n : Int) else (n : Int)

/-- Python `int(str)` for plain decimal literals (`'12'`, `' -3 '`); anything else is a ValueError. -/
def parseInt (s : String) : Option Int :=
  match splitSign (stripWs s.toList) with
  | (_, []) => none
  | (neg, ds) => (digitsVal ds 0).map (signed neg)

def splitDot : List Char → List Char → List Char × Option (List Char)
  | [], acc => (acc.reverse, none)
  | '.' :: cs, acc => (acc.reverse, some cs)
  | c :: cs, acc => splitDot cs (c :: acc)

def pow10 (k : Nat) : Float := Float.ofNat (10 ^ k)

def mkFloat (neg : Bool) (m : Nat) (k : Nat) : Float :=
  (if neg then -(Float.ofNat m) else Float.ofNat m) / pow10 k

def parseFloatParts (neg : Bool) (ip : List Char) (fp : Option (List Char)) : Option Float :=
  match fp with
  | none => if ip.isEmpty then none else (digitsVal ip 0).map fun m => mkFloat neg m 0
  | some fr =>
    if ip.isEmpty && fr.isEmpty then none
    else match digitsVal (ip ++ fr) 0 with
      | some m => some (mkFloat neg m fr.length)
      | none => none

/-- Python `float(str)` for plain decimal literals (`'12'`, `'1.5'`, `'-3.'`, `'.5'`); exponent forms, `nan`,
    `inf` and underscores are outside the operand alphabet and are reported as not convertible. -/
def parseFloat (s : String) : Option Float :=
  match splitSign (stripWs s.toList) with
  | (neg, cs) => parseFloatParts neg (splitDot cs []).1 (splitDot cs []).2

def quarterFrac : Nat → String
  | 0 => ".0" | 1 => ".25" | 2 => ".5" | _ => ".75"

/-- `repr(float)` for the floats of the operand alphabet: NaN, ±inf and multiples of 1/4 below 1e16. -/
def reprFloat (x : Float) : String :=
  if x.isNaN then "nan"
  else if x.isInf then (if x < 0 then "-inf" else "inf")
  else if (x * 4).floor == x * 4 && (x * 4).abs < 1.0e16 then
    (if x < 0 || (x == 0 && x.toBits != 0) then "-" else "") ++
      toString ((x * 4).abs.toUInt64.toNat / 4) ++ quarterFrac ((x * 4).abs.toUInt64.toNat % 4)
  else toString x

def intRepr (i : Int) : String := toString i

def boolRepr (b : Bool) : String := if b then "True" else "False"

def truncStr (w : Nat) (s : String) : String := String.ofList (s.toList.take w)

/-- float64 -> int64 as NumPy does it for finite in-range values (truncation towards zero); the value NumPy
    stores for NaN/±inf (with a RuntimeWarning) is `INT64_MIN`. -/
def floatToInt (x : Float) : Int :=
  if x.isNaN || x.isInf then -9223372036854775808 else x.toInt64.toInt

def convFloat : Val → Except Exc Val
  | .f x => .ok (.f x)
  | .i v => .ok (.f (Float.ofInt v).toBits)
  | .b v => .ok (.f (if v then (1.0 : Float) else 0.0).toBits)
  | .s v => match parseFloat v with
    | some x => .ok (.f x.toBits)
    | none => .error .valueConv

def convInt : Val → Except Exc Val
  | .f x => .ok (.i (floatToInt (Float.ofBits x)))
  | .i v => .ok (.i v)
  | .b v => .ok (.i (if v then 1 else 0))
  | .s v => match parseInt v with
    | some n => .ok (.i n)
    | none => .error .valueConv

def convBool : Val → Val
  | .f x => .b (!(Float.ofBits x == 0.0))
  | .i v => .b (v != 0)
  | .b v => .b v
  | .s v => .b (!v.isEmpty)

def strOf : Val → String
  | .f x => reprFloat (Float.ofBits x)
  | .i v => intRepr v
  | .b v => boolRepr v
  | .s v => v

/-- Conversion of one element to a dtype: what `np.array(x, dtype=d)`, `arr[...] = x` and `.astype(d)` store. -/
def conv (d : Dtype) (v : Val) : Except Exc Val :=
  match d.kind with
  | .float => convFloat v
  | .int => convInt v
  | .bool => .ok (convBool v)
  | .str => .ok (.s (truncStr d.width (strOf v)))
  | .obj => .ok v

/-- Width NumPy reserves when something of this kind becomes a string. -/
def strWidthOfKind : Kind → Nat
  | .float => 32 | .int => 21 | .bool => 5 | .str => 0 | .obj => 0

def valStrWidth : Val → Nat
  | .s v => v.length
  | v => strWidthOfKind v.kind

def f8 : Dtype := ⟨.float, 0⟩
def i8 : Dtype := ⟨.int, 0⟩
def b1 : Dtype := ⟨.bool, 0⟩
def uN (w : Nat) : Dtype := ⟨.str, max w 1⟩

def hasKind (k : Kind) (xs : List Val) : Bool := xs.any fun v => v.kind == k

def maxList : List Nat → Nat
  | [] => 0
  | x :: xs => max x (maxList xs)

/-- dtype NumPy discovers for `np.array([...])` without a dtype. -/
def discover (xs : List Val) : Dtype :=
  if hasKind .str xs then uN (maxList (xs.map valStrWidth))
  else if hasKind .float xs then f8
  else if hasKind .int xs then i8
  else if hasKind .bool xs then b1
  else f8

/-- Result dtype of `astype(<python type>)` from a given dtype. -/
def astypeDtype (k : Kind) (src : Dtype) : Dtype :=
  match k with
  | .float => f8
  | .int => i8
  | .bool => b1
  | .obj => ⟨.obj, 0⟩
  | .str => match src.kind with
    | .str => src
    | sk => uN (strWidthOfKind sk)

/-- Common dtype of stacked arrays (`np.array([a, b, …])`). -/
def dtypeStrWidth (d : Dtype) : Nat :=
  match d.kind with
  | .str => d.width
  | k => strWidthOfKind k

def promote (ds : List Dtype) : Dtype :=
  if ds.any (fun d => d.kind == .str) then uN (maxList (ds.map dtypeStrWidth))
  else if ds.any (fun d => d.kind == .float) then f8
  else if ds.any (fun d => d.kind == .int) then i8
  else if ds.any (fun d => d.kind == .bool) then b1
  else f8

/-- Convert every element; the first failure aborts (a *fresh* array is being built, so nothing is stored). -/
def convAll (d : Dtype) : List Val → Except Exc (List Val)
  | [] => .ok []
  | v :: vs =>
    match conv d v with
    | .error e => .error e
    | .ok w =>
      match convAll d vs with
      | .error e => .error e
      | .ok ws => .ok (w :: ws)

/-! ## Arrays and operands -/

def prod : List Nat → Nat
  | [] => 1
  | x :: xs => x * prod xs

/-- A series / an ndarray: dtype tag, shape, row-major elements. -/
structure Series where
  dtype : Dtype
  shape : List Nat
  data : List Val
  deriving DecidableEq, Repr, Inhabited

/-- What the user passes as a value. -/
inductive Operand where
  | scalar (v : Val)                                   -- Python / NumPy scalar (a `str` is a scalar)
  | list (xs : List Val)                               -- flat list / tuple / range (a `Sequence`)
  | nested (rows : List (List Val))                    -- list of lists (a `Sequence`)
  | ndarray (a : Series)                               -- NumPy array of rank 0, 1 or 2 (not a `Sequence`)
  deriving Repr, Inhabited

def rect : List (List Val) → Bool
  | [] => true
  | r :: rs => rs.all fun x => x.length == r.length

def rowLen : List (List Val) → Nat
  | [] => 0
  | r :: _ => r.length

/-- `isinstance(value, Sequence) and not isinstance(value, str)` -/
def Operand.isSequence : Operand → Bool
  | .list _ => true
  | .nested _ => true
  | _ => false

/-- Nested Python list as (shape, flat leaves); `none` when ragged. -/
def listShape : Operand → Option (List Nat × List Val)
  | .list xs => some ([xs.length], xs)
  | .nested rows => if rect rows then some ([rows.length, rowLen rows], rows.flatten) else none
  | _ => none

/-- `np.asarray(value)`: dtype discovery for lists, identity for arrays, 0-d array for scalars. -/
def asArray : Operand → Except Exc Series
  | .scalar v => .ok ⟨discover [v], [], (convAll (discover [v]) [v]).toOption.getD [v]⟩
  | .ndarray a => .ok a
  | o => match listShape o with
    | none => .error .valueShape
    | some (shp, leaves) =>
      match convAll (discover leaves) leaves with
      | .ok ws => .ok ⟨discover leaves, shp, ws⟩
      | .error e => .error e

/-! ## Broadcasting into a view (`arr[key] = value`, `np.copyto`) -/

/-- For every position of a view of shape `S` (row-major) the flat position in a source of shape `T`
    (rank T ≤ rank S ≤ 2); `none` when NumPy cannot broadcast. -/
def bcast : List Nat → List Nat → Option (List Nat)
  | [], [] => some [0]
  | [], [n] => some (List.replicate n 0)
  | [], [n, m] => some (List.replicate (n * m) 0)
  | [t], [n] =>
    if t = n then some (List.range n) else if t = 1 then some (List.replicate n 0) else none
  | [t], [n, m] =>
    if t = m then some ((List.range (n * m)).map (· % m))
    else if t = 1 then some (List.replicate (n * m) 0) else none
  | [t1, t2], [n, m] =>
    if (t1 = n ∨ t1 = 1) ∧ (t2 = m ∨ t2 = 1) then
      some ((List.range (n * m)).map fun k =>
        (if t1 = 1 then 0 else k / m) * t2 + (if t2 = 1 then 0 else k % m))
    else none
  | _, _ => none

/-- ndarray sources lose leading unit dimensions while their rank exceeds the target's. -/
def stripTo (r : Nat) : List Nat → List Nat
  | 1 :: rest => if rest.length + 1 > r then stripTo r rest else 1 :: rest
  | shp => shp

/-- Source of an assignment after NumPy has looked at it. -/
inductive Src where
  | fill (v : Val)                                 -- Python scalar: converted once, up front
  | cast (shape : List Nat) (data : List Val)      -- ndarray: elements are cast while they are copied
  | pylist (shape : List Nat) (data : List Val)    -- (nested) Python list, rectangular
  | bad                                            -- ragged list, list deeper than the target, non-0-d into an element
  | badType                                        -- `int(list)`: TypeError
  deriving Repr, Inhabited

/-- `arr[i] = value` on a 1-D array with a value that is not 0-d: the element type's own constructor is applied to
    the Python object — `float(list)` / `str` → ValueError, `int(list)` → TypeError (ValueError for an ndarray),
    `bool(list)` = non-empty, `bool(ndarray)` = truth of its only element (ValueError otherwise). -/
def elemOfNonScalar (k : Kind) : Operand → Src
  | .ndarray a =>
    match k, a.data with
    | .bool, [x] => .fill (convBool x)
    | _, _ => .bad
  | .list xs => (match k with | .bool => .fill (.b (!xs.isEmpty)) | .int => .badType | _ => .bad)
  | .nested rows => (match k with | .bool => .fill (.b (!rows.isEmpty)) | .int => .badType | _ => .bad)
  | .scalar v => .fill v

/-- `arr[key] = value` with a view of rank `r` into an array of kind `k`: lists are converted leaf by leaf with
    `ndmax = r`; arrays drop leading unit dimensions; a single element (r = 0) takes 0-d values (see above
    for the rest). -/
def srcOfAssign (r : Nat) (k : Kind) : Operand → Src
  | .scalar v => .fill v
  | .ndarray ⟨_, [], data⟩ => .cast [] data
  | .ndarray a => if r = 0 then elemOfNonScalar k (.ndarray a) else .cast (stripTo r a.shape) a.data
  | o =>
    if r = 0 then elemOfNonScalar k o
    else match listShape o with
      | none => .bad
      | some (shp, leaves) => if shp.length > r then .bad else .pylist shp leaves

/-- Write converted elements one after the other; a conversion failure stops the loop and keeps what was
    already stored (this is what NumPy does on small arrays). -/
def writeSeq (d : Dtype) : List Val → List (Nat × Val) → List Val × Outcome
  | data, [] => (data, .ok)
  | data, (k, v) :: rest =>
    match conv d v with
    | .error e => (data, .raised e)
    | .ok w => writeSeq d (setAt data k w) rest

/-- Store already converted elements. -/
def writeRaw : List Val → List (Nat × Val) → List Val
  | data, [] => data
  | data, (k, w) :: rest => writeRaw (setAt data k w) rest

def pick (data : List Val) (j : Nat) : Val := data.getD j (.i 0)

/-- Assign `src` into the view (`idxs`, `vshape`) of `ser`.
    * Python scalar: converted first (a failure stores nothing), then stored everywhere;
    * ndarray: broadcast, then cast element by element while copying;
    * list of exactly the view's shape: leaf by leaf, in place; any other list is first turned into a temporary
      array of the target dtype (a failure stores nothing) and then broadcast. -/
def assignView (ser : Series) (idxs : List Nat) (vshape : List Nat) (src : Src) : Series × Outcome :=
  match src with
  | .bad => (ser, .raised .valueShape)
  | .badType => (ser, .raised .type)
  | .fill v =>
    match conv ser.dtype v with
    | .error e => (ser, .raised e)
    | .ok w => ({ ser with data := writeRaw ser.data (idxs.map fun k => (k, w)) }, .ok)
  | .cast T data =>
    match bcast T vshape with
    | none => (ser, .raised .valueShape)
    | some js =>
      ({ ser with data := (writeSeq ser.dtype ser.data (idxs.zip (js.map (pick data)))).1 },
       (writeSeq ser.dtype ser.data (idxs.zip (js.map (pick data)))).2)
  | .pylist T data =>
    if T = vshape then
      ({ ser with data := (writeSeq ser.dtype ser.data (idxs.zip data)).1 },
       (writeSeq ser.dtype ser.data (idxs.zip data)).2)
    else
      match convAll ser.dtype data with
      | .error e => (ser, .raised e)
      | .ok ws =>
        match bcast T vshape with
        | none => (ser, .raised .valueShape)
        | some js => ({ ser with data := writeRaw ser.data (idxs.zip (js.map (pick ws))) }, .ok)

def rowWidth (ser : Series) : Option Nat :=
  match ser.shape with
  | [_] => none
  | [_, m] => some m
  | _ => none

def rowIdxs (m : Nat) (p : Nat) : List Nat := (List.range m).map (p * m + ·)

def firstDim (ser : Series) : Nat := ser.shape.headD 0

/-- The whole array `arr[:]`. -/
def viewAll (ser : Series) : List Nat × List Nat := (List.range ser.data.length, ser.shape)

/-- `arr[p]` for a position `p < shape[0]`. -/
def viewPos (ser : Series) (p : Nat) : List Nat × List Nat :=
  match rowWidth ser with
  | none => ([p], [])
  | some m => (rowIdxs m p, [m])

/-- `arr[a:b:s]` given the selected first-axis positions. -/
def viewSlice (ser : Series) (ps : List Nat) : List Nat × List Nat :=
  match rowWidth ser with
  | none => (ps, [ps.length])
  | some m => (ps.flatMap (rowIdxs m), [ps.length, m])

/-! ## Python slices -/

/-- Clamp a slice bound as `slice.indices(n)` does (positive step). -/
def clampPos (n : Nat) (x : Int) : Nat :=
  if x < 0 then (if x + n < 0 then 0 else (x + n).toNat) else (if x > n then n else x.toNat)

def sliceLo (n : Nat) (a : Option Int) : Nat := match a with | none => 0 | some x => clampPos n x
def sliceHi (n : Nat) (b : Option Int) : Nat := match b with | none => n | some x => clampPos n x

/-- Number of indices in `range(lo, hi, s)`, s > 0. -/
def sliceCount (lo hi s : Nat) : Nat := (hi - lo + s - 1) / s

/-- Positions addressed by `xs[a:b:s]` on a sequence of length `n`, `s > 0`, in order. -/
def pySlice (n : Nat) (a b : Option Int) (s : Nat) : List Nat :=
  (List.range (sliceCount (sliceLo n a) (sliceHi n b) s)).map fun k => sliceLo n a + k * s

/-- Clamp for a negative step. -/
def clampNeg (n : Nat) (x : Int) : Int :=
  if x < 0 then (if x + n < 0 then -1 else x + n) else (if x ≥ n then (n : Int) - 1 else x)

def downFrom (fuel : Nat) (cur stop : Int) (s : Nat) : List Nat :=
  match fuel with
  | 0 => []
  | fuel + 1 => if cur > stop ∧ cur ≥ 0 then cur.toNat :: downFrom fuel (cur - s) stop s else []

/-- `xs[a:b:step]` for any step: `none` = ValueError (zero step). -/
def pySliceAny (n : Nat) (a b : Option Int) (step : Option Int) : Option (List Nat) :=
  match step with
  | none => some (pySlice n a b 1)
  | some st =>
    if st = 0 then none
    else if st > 0 then some (pySlice n a b st.toNat)
    else some (downFrom n
      (match a with | none => (n : Int) - 1 | some x => clampNeg n x)
      (match b with | none => -1 | some x => clampNeg n x) (-st).toNat)

/-! ## The store -/

/-- What `_locate_period_in_span` returns. -/
inductive Loc where
  | pos (i : Nat)          -- a Python int
  | nonIntPos (i : Nat)    -- a NumPy integer (indexes like an int, fails `isinstance(·, int)`); only reachable
                           -- through a recorded `get_loc` result — the NumPy-span fallback returns `int(...)`
  | slice (a b : Nat)      -- pandas: several periods (a year in a quarterly index, duplicate labels)
  | missing                -- KeyError
  deriving DecidableEq, Repr, Inhabited

/-- Which of `_VALID_INDEX_METHODS` applies to the span object. -/
inductive SpanKind where
  | seq      -- list / tuple / range: `.index(label)` (first occurrence)
  | numpy    -- ndarray: the fallback (`== label`, exactly one match, returned as a Python int)
  | pandas   -- pandas Index: `.get_loc(label)` (results supplied in `Store.getLoc`)
  deriving DecidableEq, Repr, Inhabited

structure Store where
  span : List Nat                    -- label class of every period
  spanKind : SpanKind
  getLoc : List (Nat × Loc)          -- pandas only: recorded `get_loc` per label class
  vars : List (Name × Series)        -- `index` order; `__dict__['_' + name]`
  nonNames : List Name               -- container variables that are not model variables: in `index`, not in `names`
                                     -- (ModelInterface: status, iterations; TracerMixin: trace — wherever they sit)
  attrs : List Name                  -- `_attributes`
  strict : Bool
  defaultKind : Option Kind          -- ModelInterface.add_variable: `dtype=None` means `self.dtype`
  extraSize : Nat                    -- BaseLinker: Σ submodel.size
  extraBytes : Nat                   -- BaseLinker: Σ submodel.nbytes
  extraKeys : List Name := []        -- further `__dict__` keys that are neither a variable's storage nor listed in
                                     -- `_attributes` (BaseLinker: submodels, name, _LAGS, _LEADS; AliasMixin: aliases, …)
  deriving Repr, Inhabited

def Store.n (s : Store) : Nat := s.span.length
def Store.index (s : Store) : List Name := s.vars.map (·.1)
def Store.names (s : Store) : List Name := s.index.filter (fun x => !s.nonNames.contains x)
def Store.get (s : Store) (name : Name) : Option Series := s.vars.lookup name

def setVar : List (Name × Series) → Name → Series → List (Name × Series)
  | [], _, _ => []
  | (m, x) :: rest, name, ser => if m == name then (m, ser) :: rest else (m, x) :: setVar rest name ser

def Store.put (s : Store) (name : Name) (ser : Series) : Store := { s with vars := setVar s.vars name ser }

/-- The keys of the instance `__dict__`: a variable `X` is stored under `_X`; every entry of the attribute list is
    stored under its own name (this includes the container's own `span`, `index`, `_attributes`, `_strict`) except
    the class properties `strict` / `values`, whose first use is only recorded in the list; plus `extraKeys`. -/
def Store.varKeys (s : Store) : List Name := s.index.map ("_" ++ ·)

def Store.attrKeys (s : Store) : List Name :=
  s.attrs.filter (fun a => a != "strict" && a != "values") ++ s.extraKeys

def Store.dictKeys (s : Store) : List Name := s.varKeys ++ s.attrKeys

def firstIdx : List Nat → Nat → Option Nat
  | [], _ => none
  | x :: xs, k => if x = k then some 0 else (firstIdx xs k).map (· + 1)

def countOcc (xs : List Nat) (k : Nat) : Nat := (xs.filter (· = k)).length

/-- `_locate_period_in_span(label)`. -/
def locate (s : Store) (k : Nat) : Loc :=
  match s.spanKind with
  | .seq => match firstIdx s.span k with
    | some i => .pos i
    | none => .missing
  | .numpy => if countOcc s.span k = 1 then
      (match firstIdx s.span k with
       | some i => .pos i
       | none => .missing)
    else .missing
  | .pandas => (s.getLoc.lookup k).getD .missing

/-- Start position of a label-slice end. -/
def Loc.start? : Loc → Option Nat
  | .pos i => some i | .nonIntPos i => some i | .slice a _ => some a | .missing => none

/-- Exclusive stop position: `+ 1` for a single position, the slice's own stop otherwise. -/
def Loc.stop? : Loc → Option Nat
  | .pos i => some (i + 1) | .nonIntPos i => some (i + 1) | .slice _ b => some b | .missing => none

/-- `_resolve_period_slice`: (start, stop, step) to apply to the array, or the exception.
    `None` ends are replaced by the first / last *label*, which is then located like any other. -/
def resolveSlice (s : Store) (a b : Option Nat) (step : Option Int) : Except Exc (Nat × Nat × Int) :=
  match (match a with | some k => some k | none => s.span.head?),
        (match b with | some k => some k | none => s.span.getLast?) with
  | none, _ => .error .index
  | _, none => .error .index
  | some ka, some kb =>
    match (locate s ka).start? with
    | none => .error .key
    | some lo =>
      match (locate s kb).stop? with
      | none => .error .key
      | some hi => .ok (lo, hi, step.getD 1)

/-- First-axis positions addressed by `obj[name, a:b:step]`. -/
def labelSlicePositions (s : Store) (a b : Option Nat) (step : Option Int) : Except Exc (List Nat) :=
  match resolveSlice s a b step with
  | .error e => .error e
  | .ok (lo, hi, st) =>
    match pySliceAny s.n (some lo) (some hi) (some st) with
    | none => .error .valueShape
    | some ps => .ok ps

/-! ## Operations -/

/-- Three behaviours of the container that its maintainers may change (each is a candidate fix of a finding) are
    parameters of the model.  Their values for the tree under test are *read off the code on every run* by
    `harness/reflect_container.py` (behavioural probes) and arrive as `Cfg.current`; the theorems are stated for
    every configuration, with a hypothesis on the field they depend on. -/
structure Cfg where
  /-- `__setattr__` rejects a sequence unless its whole shape is `(len(span),)` (as shipped: only `shape[0]` is compared). -/
  fullShape : Bool
  /-- Names the strict guard of `__setattr__` lets through (as shipped: `'strict'` only). -/
  strictExempt : List Name
  /-- `add_variable` refuses the name of an existing attribute (as shipped: only `index` is checked). -/
  addVarChecksAttrs : Bool
  /-- `add_variable(name)` refuses a name whose storage key `'_' + name` is already in `__dict__` (as shipped: it
      overwrites that entry — `attributes` / `strict` clobber the container's own `_attributes` / `_strict`). -/
  addVarChecksKeys : Bool
  /-- `add_attribute(name)` — hence `obj.name = v` for a new name — refuses the storage key of a variable
      (`name = '_' + X` for a variable `X`; as shipped: `obj._A = v` replaced the array of variable `A`).  Any other
      existing `__dict__` key (a linker's `name`, `_LAGS`, a mixin's `aliases`, …) is rebound and registered. -/
  addAttrChecksKeys : Bool
  deriving Repr, DecidableEq, Inhabited

/-- The code at the pinned commit. -/
def Cfg.shipped : Cfg := ⟨false, ["strict"], false, false, false⟩

/-- The code with the three candidate fixes applied. -/
def Cfg.fixed : Cfg := ⟨true, ["strict", "values"], true, true, true⟩

/-- What the tree under test does now (reflected). -/
def Cfg.current : Cfg :=
  ⟨Generated.containerSetattrFullShape, Generated.containerStrictExempt, Generated.containerAddVariableChecksAttrs,
   Generated.containerAddVariableChecksKeys, Generated.containerAddAttributeChecksKeys⟩

inductive Op where
  | addVariable (name : Name) (v : Operand) (dtype : Option Kind)
  | addAttribute (name : Name)
  | setAttr (name : Name) (v : Operand) (alts : List Name)   -- `obj.name = v`; alts = get_closest_match(name)
  | setItem (name : Name) (v : Operand)                      -- `obj[name] = v`
  | setPos (name : Name) (i : Int) (v : Operand)             -- `obj[name][i] = v`
  | setPosSlice (name : Name) (a b : Option Int) (step : Option Int) (v : Operand)   -- `obj[name][a:b:s] = v`
  | setLabel (name : Name) (label : Nat) (v : Operand)       -- `obj[name, label] = v`
  | setLabelSlice (name : Name) (a b : Option Nat) (step : Option Int) (v : Operand)
  | replaceValues (kvs : List (Name × Operand))
  | setValues (v : Operand) (alts : List Name)               -- `obj.values = v` (goes through `__setattr__`)
  | setStrict (b : Bool) (alts : List Name)                  -- `obj.strict = b` (also through `__setattr__`)
  | badKey (tuple : Bool)     -- `obj[k] = v` with a tuple of length ≠ 2 (IndexError) / a non-str non-tuple (TypeError)
  deriving Repr, Inhabited

def appendNew (xs : List Name) (x : Name) : List Name := if xs.contains x then xs else xs ++ [x]

/-- `np.full(n, value)` for a non-sequence `value`: the dtype comes from the value, the shape is `(n,)`. -/
def fullOf (n : Nat) (v : Operand) : Except Exc Series :=
  match asArray v with
  | .error e => .error e
  | .ok a =>
    match assignView ⟨a.dtype, [n], List.replicate n (.i 0)⟩ (List.range n) [n]
        (srcOfAssign 1 a.dtype.kind (.ndarray a)) with
    | (ser, .ok) => .ok ser
    | (_, .raised e) => .error e

/-- The 1-D array `add_variable` builds before the dtype / length tests. -/
def newArray (n : Nat) (v : Operand) : Except Exc Series :=
  if v.isSequence then
    match asArray v with
    | .error e => .error e
    | .ok a => .ok ⟨a.dtype, [a.data.length], a.data⟩     -- `.flatten()`
  else fullOf n v

def astype (k : Option Kind) (a : Series) : Except Exc Series :=
  match k with
  | none => .ok a
  | some k =>
    match convAll (astypeDtype k a.dtype) a.data with
    | .error e => .error e
    | .ok ws => .ok ⟨astypeDtype k a.dtype, a.shape, ws⟩

def effKind (s : Store) (dtype : Option Kind) : Option Kind :=
  match dtype with
  | some k => some k
  | none => s.defaultKind

def addVariable (cfg : Cfg) (s : Store) (name : Name) (v : Operand) (dtype : Option Kind) : Store × Outcome :=
  if s.index.contains name then (s, .raised .duplicateName)
  else if cfg.addVarChecksAttrs && s.attrs.contains name then (s, .raised .duplicateName)
  else if cfg.addVarChecksKeys && s.dictKeys.contains ("_" ++ name) then (s, .raised .duplicateName)
  else
    match newArray s.n v with
    | .error e => (s, .raised e)
    | .ok a =>
      match astype (effKind s dtype) a with
      | .error e => (s, .raised e)
      | .ok a' =>
        if firstDim a' ≠ s.n then (s, .raised .dimension)
        else ({ s with vars := s.vars ++ [(name, a')] }, .ok)

def addAttribute (cfg : Cfg) (s : Store) (name : Name) : Store × Outcome :=
  if s.index.contains name then (s, .raised .duplicateName)
  else if s.attrs.contains name then (s, .raised .duplicateName)
  else if cfg.addAttrChecksKeys && s.varKeys.contains name then (s, .raised .duplicateName)
  else ({ s with attrs := s.attrs ++ [name] }, .ok)

/-- The length test of `__setattr__` on the array built from a sequence. -/
def shapeRejected (cfg : Cfg) (n : Nat) (shp : List Nat) : Bool :=
  if cfg.fullShape then shp != [n] else shp.headD 0 != n

/-- `__setattr__` on a container variable (the part after the strict / attribute tests). -/
def assignWhole (cfg : Cfg) (s : Store) (name : Name) (ser : Series) (v : Operand) : Store × Outcome :=
  if v.isSequence then
    match listShape v with
    | none => (s, .raised .valueShape)
    | some (shp, leaves) =>
      match convAll ser.dtype leaves with        -- `np.array(value, dtype=old.dtype)`
      | .error e => (s, .raised e)
      | .ok ws =>
        if shapeRejected cfg s.n shp then (s, .raised .dimension)
        else (s.put name ⟨ser.dtype, shp, ws⟩, .ok)
  else
    match assignView ser (viewAll ser).1 (viewAll ser).2 (srcOfAssign ser.shape.length ser.dtype.kind v) with
    | (ser', o) => (s.put name ser', o)

def truthy : Operand → Bool
  | .scalar v => (match convBool v with | .b x => x | _ => true)
  | .list xs => !xs.isEmpty
  | .nested rows => !rows.isEmpty
  | .ndarray _ => true

/-- The strict guard at the top of `__setattr__`. -/
def strictBlocks (cfg : Cfg) (s : Store) (name : Name) : Bool :=
  !cfg.strictExempt.contains name && s.strict && !s.index.contains name && !s.attrs.contains name

/-- What the guard raises: AttributeError (with the single closest name, if any) or NotImplementedError. -/
def strictError (alts : List Name) : Exc :=
  match alts with
  | [] => .attribute none
  | [c] => .attribute (some c)
  | _ => .notImplemented

def setAttr (cfg : Cfg) (s : Store) (name : Name) (v : Operand) (alts : List Name) : Store × Outcome :=
  if strictBlocks cfg s name then (s, .raised (strictError alts))
  else
    match s.get name with
    | none =>
      if name == "strict" then ({ s with strict := truthy v, attrs := appendNew s.attrs name }, .ok)
      else if s.attrs.contains name then (s, .ok)
      else addAttribute cfg s name          -- `self.add_attribute(name, value)`
    | some ser => assignWhole cfg s name ser v

def setItem (cfg : Cfg) (s : Store) (name : Name) (v : Operand) : Store × Outcome :=
  match s.get name with
  | none => (s, .raised .key)
  | some ser => assignWhole cfg s name ser v

def assignAt (s : Store) (name : Name) (ser : Series) (view : List Nat × List Nat) (v : Operand) :
    Store × Outcome :=
  match assignView ser view.1 view.2 (srcOfAssign view.2.length ser.dtype.kind v) with
  | (ser', o) => (s.put name ser', o)

def setPos (s : Store) (name : Name) (i : Int) (v : Operand) : Store × Outcome :=
  match s.get name with
  | none => (s, .raised .key)
  | some ser =>
    match pyIndex (firstDim ser) i with
    | none => (s, .raised .index)
    | some p => assignAt s name ser (viewPos ser p) v

def setPosSlice (s : Store) (name : Name) (a b : Option Int) (step : Option Int) (v : Operand) :
    Store × Outcome :=
  match s.get name with
  | none => (s, .raised .key)
  | some ser =>
    match pySliceAny (firstDim ser) a b step with
    | none => (s, .raised .valueShape)
    | some ps => assignAt s name ser (viewSlice ser ps) v

/-- `arr[location] = value` for what `_locate_period_in_span` returned. -/
def assignLoc (s : Store) (name : Name) (ser : Series) (l : Loc) (v : Operand) : Store × Outcome :=
  match l with
  | .missing => (s, .raised .key)
  | .pos p => if p < firstDim ser then assignAt s name ser (viewPos ser p) v else (s, .raised .index)
  | .nonIntPos p => if p < firstDim ser then assignAt s name ser (viewPos ser p) v else (s, .raised .index)
  | .slice a b => assignAt s name ser (viewSlice ser (pySlice (firstDim ser) (some a) (some b) 1)) v

/-- `obj[name, label] = v`.  The name is checked against the index first (as in `__getitem__`), then the label
    is located. -/
def setLabel (s : Store) (name : Name) (label : Nat) (v : Operand) : Store × Outcome :=
  match s.get name with
  | none => (s, .raised .key)
  | some ser =>
    match locate s label with
    | .missing => (s, .raised .key)
    | l => assignLoc s name ser l v

def setLabelSlice (s : Store) (name : Name) (a b : Option Nat) (step : Option Int) (v : Operand) :
    Store × Outcome :=
  match s.get name with
  | none => (s, .raised .key)
  | some ser =>
    match resolveSlice s a b step with
    | .error e => (s, .raised e)
    | .ok (lo, hi, st) =>
      match pySliceAny (firstDim ser) (some lo) (some hi) (some st) with
      | none => (s, .raised .valueShape)
      | some ps => assignAt s name ser (viewSlice ser ps) v

def replaceValues (cfg : Cfg) (s : Store) : List (Name × Operand) → Store × Outcome
  | [] => (s, .ok)
  | (k, v) :: rest =>
    match setItem cfg s k v with
    | (s', .ok) => replaceValues cfg s' rest
    | (s', .raised e) => (s', .raised e)

/-- Shape of `obj.values` (`np.array([...series of names...])`); ValueError when the series disagree. -/
def valuesShape (s : Store) : Except Exc (List Nat) :=
  match s.names.filterMap s.get with
  | [] => .ok [0]
  | ser :: rest =>
    if rest.all (fun x => x.shape == ser.shape) then .ok ((rest.length + 1) :: ser.shape)
    else .error .valueShape

def valuesDtype (s : Store) : Dtype := promote ((s.names.filterMap s.get).map (·.dtype))

/-- `obj.values` row by row (declaration order). -/
def valuesRows (s : Store) : List (List Val) := (s.names.filterMap s.get).map (·.data)

def size (s : Store) : Nat := s.names.length * s.n + s.extraSize

def itemSize (d : Dtype) : Nat :=
  match d.kind with
  | .float => 8 | .int => 8 | .bool => 1 | .str => 4 * d.width | .obj => 8

def nbytes (s : Store) : Nat :=
  ((s.vars.map fun p => itemSize p.2.dtype * p.2.data.length).foldl (· + ·) 0) + s.extraBytes

def chunks (m : Nat) : Nat → List Val → List (List Val)
  | 0, _ => []
  | k + 1, xs => xs.take m :: chunks m k (xs.drop m)

/-- One row of the values setter: `self.__setattr__(name, row)` with an ndarray `row` (broadcast path). -/
def setRowArray (cfg : Cfg) (s : Store) (name : Name) (row : Series) : Store × Outcome :=
  match s.get name with
  | none => (s, .raised (.attribute none))
  | some ser => assignWhole cfg s name ser (.ndarray row)

/-- ndarray branch of the values setter: per row `series.astype(old dtype)` then `__setattr__`. -/
def setValuesRows (cfg : Cfg) (s : Store) (rowShape : List Nat) (dt : Dtype) : List Name → List (List Val) → Store × Outcome
  | name :: names, row :: rows =>
    match s.get name with
    | none => (s, .raised (.attribute none))
    | some ser =>
      match convAll ser.dtype row with
      | .error e => (s, .raised e)
      | .ok ws =>
        match setRowArray cfg s name ⟨ser.dtype, rowShape, ws⟩ with
        | (s', .ok) => setValuesRows cfg s' rowShape dt names rows
        | (s', .raised e) => (s', .raised e)
  | _, _ => (s, .ok)

/-- Scalar branch: per name `np.full(series.shape, v, dtype=series.dtype)` then `__setattr__`. -/
def setValuesFill (cfg : Cfg) (s : Store) (v : Operand) : List Name → Store × Outcome
  | [] => (s, .ok)
  | name :: names =>
    match s.get name with
    | none => (s, .raised (.attribute none))
    | some ser =>
      match asArray v with
      | .error e => (s, .raised e)
      | .ok a =>
        match assignView ⟨ser.dtype, ser.shape, ser.data⟩ (viewAll ser).1 (viewAll ser).2
            (Src.cast (stripTo ser.shape.length a.shape) a.data) with
        | (_, .raised e) => (s, .raised e)
        | (full, .ok) =>
          match setRowArray cfg s name full with
          | (s', .ok) => setValuesFill cfg s' v names
          | (s', .raised e) => (s', .raised e)

def setValuesCore (cfg : Cfg) (s : Store) (v : Operand) : Store × Outcome :=
  match v with
  | .ndarray a =>
    match valuesShape s with
    | .error e => (s, .raised e)
    | .ok vs =>
      if a.shape ≠ vs then (s, .raised .dimension)
      else setValuesRows cfg s a.shape.tail a.dtype s.names (chunks (prod a.shape.tail) s.names.length a.data)
  | v => setValuesFill cfg s v s.names

/-- `obj.values = v`: `values` is a class property, so the assignment passes through `__setattr__` first — the
    strict guard applies to the *name* `values`, and a successful first use records it in `_attributes`. -/
def setValues (cfg : Cfg) (s : Store) (v : Operand) (alts : List Name) : Store × Outcome :=
  if strictBlocks cfg s "values" then (s, .raised (strictError alts))
  else
    match s.get "values" with
    | some ser => assignWhole cfg s "values" ser v      -- a *variable* called `values` wins over the property
    | none =>
      match setValuesCore cfg s v with
      | (s', .ok) => ({ s' with attrs := appendNew s'.attrs "values" }, .ok)
      | (s', .raised e) => (s', .raised e)

def setStrict (cfg : Cfg) (s : Store) (b : Bool) (alts : List Name) : Store × Outcome :=
  if strictBlocks cfg s "strict" then (s, .raised (strictError alts))
  else match s.get "strict" with
  | some ser => assignWhole cfg s "strict" ser (.scalar (.b b))   -- a *variable* called `strict` wins over the property
  | none => ({ s with strict := b, attrs := appendNew s.attrs "strict" }, .ok)

/-- One public operation. -/
def step (cfg : Cfg) (s : Store) : Op → Store × Outcome
  | .addVariable name v dtype => addVariable cfg s name v dtype
  | .addAttribute name => addAttribute cfg s name
  | .setAttr name v alts => setAttr cfg s name v alts
  | .setItem name v => setItem cfg s name v
  | .setPos name i v => setPos s name i v
  | .setPosSlice name a b st v => setPosSlice s name a b st v
  | .setLabel name l v => setLabel s name l v
  | .setLabelSlice name a b st v => setLabelSlice s name a b st v
  | .replaceValues kvs => replaceValues cfg s kvs
  | .setValues v alts => setValues cfg s v alts
  | .setStrict b alts => setStrict cfg s b alts
  | .badKey tuple => (s, .raised (if tuple then .index else .type))

/-- A history: every operation is attempted, whatever the previous ones did. -/
def run (cfg : Cfg) (s : Store) : List Op → Store
  | [] => s
  | op :: ops => run cfg (step cfg s op).1 ops

/-! ## Reads -/

/-- Result of a read: the exception, a single element, or an array (shape + elements). -/
inductive ReadResult where
  | raised (e : Exc)
  | elem (v : Val)
  | array (shape : List Nat) (data : List Val)
  | other                        -- some object that is not a series (an instance attribute, a property, the span, …)
  deriving DecidableEq, Repr, Inhabited

def gather (data : List Val) (idxs : List Nat) : List Val := idxs.map (pick data)

def readView (ser : Series) (view : List Nat × List Nat) : ReadResult :=
  match view.2, view.1 with
  | [], [k] => .elem (pick ser.data k)
  | shp, idxs => .array shp (gather ser.data idxs)

/-- `obj[name]` (and `obj.name` when no instance attribute shadows the variable). -/
def getItem (s : Store) (name : Name) : ReadResult :=
  match s.get name with
  | none => .raised .key
  | some ser => .array ser.shape ser.data

/-- `obj.name`: ordinary attribute lookup comes first — an instance attribute or class property recorded in
    `_attributes` wins; `__getattr__` (the variable) is only consulted when that fails. -/
def getAttr (s : Store) (name : Name) : ReadResult :=
  if s.attrs.contains name then .other
  else match s.get name with
    | none => .raised (.attribute none)
    | some ser => .array ser.shape ser.data

/-- `name in obj`: membership of the *model variables* `names` (for a plain container `names = index`; a model's
    `status` / `iterations` / `trace` are container variables — in `index`, addressable by every access path — but
    not in `names`). -/
def contains (s : Store) (name : Name) : Bool := s.names.contains name

/-- `obj[name][i]` -/
def getPos (s : Store) (name : Name) (i : Int) : ReadResult :=
  match s.get name with
  | none => .raised .key
  | some ser =>
    match pyIndex (firstDim ser) i with
    | none => .raised .index
    | some p => readView ser (viewPos ser p)

def readLoc (ser : Series) : Loc → ReadResult
  | .missing => .raised .key
  | .pos p => if p < firstDim ser then readView ser (viewPos ser p) else .raised .index
  | .nonIntPos p => if p < firstDim ser then readView ser (viewPos ser p) else .raised .index
  | .slice a b => readView ser (viewSlice ser (pySlice (firstDim ser) (some a) (some b) 1))

/-- `obj[name, label]` — the name is checked first. -/
def getLabel (s : Store) (name : Name) (label : Nat) : ReadResult :=
  match s.get name with
  | none => .raised .key
  | some ser => readLoc ser (locate s label)

/-- `obj[name, a:b:step]` -/
def getLabelSlice (s : Store) (name : Name) (a b : Option Nat) (step : Option Int) : ReadResult :=
  match s.get name with
  | none => .raised .key
  | some ser =>
    match resolveSlice s a b step with
    | .error e => .raised e
    | .ok (lo, hi, st) =>
      match pySliceAny (firstDim ser) (some lo) (some hi) (some st) with
      | none => .raised .valueShape
      | some ps => readView ser (viewSlice ser ps)

/-- A fresh `VectorContainer(span, strict=…)`. -/
def init (span : List Nat) (kind : SpanKind) (strict : Bool) : Store :=
  { span := span, spanKind := kind, getLoc := [], vars := [], nonNames := [],
    attrs := ["_attributes", "span", "index", "_strict"], strict := strict, defaultKind := none,
    extraSize := 0, extraBytes := 0 }

end Fsic.Container
