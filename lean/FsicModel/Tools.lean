import FsicModel.Basic
import FsicModel.Generated
/-
M8 (Tools part) — tabular export / import of models, linkers and symbol lists.

Models `fsic/tools.py` (`model_to_dataframe`, `linker_to_dataframes`, `symbols_to_dataframe`,
`dataframe_to_symbols`), `VectorContainer.to_dataframe` (fsic/core/containers.py), `BaseModel.from_dataframe`
(fsic/core/models.py) together with the part of `ModelInterface.__init__` it runs (fsic/core/interfaces.py).

pandas is NOT modelled: a DataFrame is the triple (index, ordered column labels, one cell list per column) that the
code hands to / reads from pandas.  What pandas itself does to cells (dtype inference, `None` -> `NaN`) enters only
as the parameter `Coercion`, instantiated from the reflected table `Fsic.Generated.pandasCoercion`.

Core Lean only; every definition is total and executable.
-/
namespace Fsic.Tools

/-! ## Python `dict` as an insertion-ordered association list -/

/-- `d[k] = v`: an existing key keeps its position (and its original key object), a new key goes last. -/
def dictSet {K V : Type} [DecidableEq K] : List (K × V) → K → V → List (K × V)
  | [], k, v => [(k, v)]
  | (k', v') :: rest, k, v => if k' = k then (k', v) :: rest else (k', v') :: dictSet rest k v

/-- `{k: f(k) for k in ks}` continued from the dict `d` (the comprehension inserts left to right). -/
def dictOf {K V : Type} [DecidableEq K] (f : K → V) : List K → List (K × V) → List (K × V)
  | [], d => d
  | k :: ks, d => dictOf f ks (dictSet d k (f k))

/-- `dict(pairs)` / `{k: v for k, v in pairs}` continued from `d`. -/
def dictFromPairs {K V : Type} [DecidableEq K] : List (K × V) → List (K × V) → List (K × V)
  | [], d => d
  | (k, v) :: ps, d => dictFromPairs ps (dictSet d k v)

/-- `d.get(k)`. -/
def dictGet {K V : Type} [DecidableEq K] : List (K × V) → K → Option V
  | [], _ => none
  | (k', v) :: rest, k => if k' = k then some v else dictGet rest k

/-! ## Store model of a model / linker / container instance -/

/-- The part of an instance the export reads.  `index` is `VectorContainer.index` (every series, for a model
    `status`, `iterations`, then the variables); `names` is `ModelInterface.names` (the variables only, model
    order; extended by `add_variable`); `data k` is `obj[k]` (`__dict__['_' + k]`), one cell per period. -/
structure Store (L α : Type) where
  span : List L
  index : List String
  names : List String
  data : String → List α

/-- A DataFrame as the code sees it. -/
structure Table (L α : Type) where
  index : List L
  cols : List (String × List α)
  deriving DecidableEq, Repr

/-- `x.startswith('_')`. -/
def isInternal (s : String) : Bool :=
  match s.toList with
  | c :: _ => c == '_'
  | [] => false

/-- `names = model.names; if not include_internal: names = [x for x in model.names if not x.startswith('_')]`. -/
def exportNames (names : List String) (includeInternal : Bool) : List String :=
  if includeInternal then names else names.filter (fun x => !isInternal x)

/-- `if flag: df[k] = v` (column assignment: an existing label is overwritten in place, a new one is appended). -/
def addCol {α : Type} (flag : Bool) (k : String) (v : List α) (d : List (String × List α)) : List (String × List α) :=
  if flag then dictSet d k v else d

/-- `model_to_dataframe(model, status=, iterations=, include_internal=)`. -/
def modelTable {L α : Type} (m : Store L α) (status iterations includeInternal : Bool) : Table L α :=
  { index := m.span
    cols := addCol iterations "iterations" (m.data "iterations")
              (addCol status "status" (m.data "status")
                (dictOf m.data (exportNames m.names includeInternal) [])) }

/-- The column labels the property promises. -/
def modelColumns (names : List String) (includeInternal status iterations : Bool) : List String :=
  exportNames names includeInternal ++ (if status then ["status"] else []) ++ (if iterations then ["iterations"] else [])

/-- `VectorContainer.to_dataframe`: `DataFrame({k: self[k] for k in self.index}, index=self.span)`. -/
def containerTable {L α : Type} (m : Store L α) : Table L α :=
  { index := m.span, cols := dictOf m.data m.index [] }

/-- The data columns of a table (`df.drop(columns=['status', 'iterations'])`, not fsic code: used to state the
    import round trip "from the data columns"). -/
def dataColumns {L α : Type} (t : Table L α) : Table L α :=
  { index := t.index, cols := t.cols.filter (fun c => !(c.1 == "status" || c.1 == "iterations")) }

/-- `linker_to_dataframes`: `results = {linker.name: linker.to_dataframe(..)}` then
    `for name, model in linker.submodels.items(): results[name] = model.to_dataframe(..)`. -/
def linkerTables {K L α : Type} [DecidableEq K] (name : K) (linker : Store L α) (subs : List (K × Store L α))
    (status iterations includeInternal : Bool) : List (K × Table L α) :=
  dictFromPairs (subs.map fun p => (p.1, modelTable p.2 status iterations includeInternal))
    [(name, modelTable linker status iterations includeInternal)]

/-! ## The FORM of a flag argument, and extension mixins

The export tests its flags with `if status:` / `if iterations:` / `if not include_internal:` — Python TRUTHINESS, not
identity with `True`.  A caller hands over whatever a comparison or a mask gave it (`np.True_`, `1`, …); the label of
the extra columns is the string constant `'status'` / `'iterations'` whatever the flag looked like. -/

/-- A value passed for `status=` / `iterations=` / `include_internal=` (and `use_aliases=`, `strict=`). -/
inductive FlagForm where
  /-- `True` / `False` -/
  | bool (b : Bool)
  /-- `np.True_` / `np.False_` (what a NumPy comparison / mask yields) -/
  | npbool (b : Bool)
  /-- a Python int or NumPy integer -/
  | int (i : Int)
  /-- a Python / NumPy float, as its IEEE-754 binary64 bit pattern -/
  | float (bits : Nat)
  | str (s : String)
  | none
  deriving DecidableEq, Repr

/-- `bool(x)`, what `if x:` tests: a float is falsy only as `+0.0` / `-0.0` (all bits but the sign zero; NaN is
    truthy), an int only as 0, a str only as `''`; `None` is falsy. -/
def truthy : FlagForm → Bool
  | .bool b => b
  | .npbool b => b
  | .int i => i != 0
  | .float bits => bits % 9223372036854775808 != 0
  | .str s => s != ""
  | .none => false

/-- A keyword argument as the callee sees it: passed in some form, or omitted (the default of the signature). -/
def argValue (dflt : Bool) : Option FlagForm → Bool
  | some f => truthy f
  | Option.none => dflt

/-- `model_to_dataframe(model, status=s, iterations=i, include_internal=n)` for flags of any form. -/
def modelTableF {L α : Type} (m : Store L α) (s i n : FlagForm) : Table L α :=
  modelTable m (truthy s) (truthy i) (truthy n)

/-- … with any of the three omitted (defaults of the signature, reflected). -/
def modelTableA {L α : Type} (m : Store L α) (s i n : Option FlagForm) : Table L α :=
  modelTable m (argValue Fsic.Generated.exportDefaultStatus s) (argValue Fsic.Generated.exportDefaultIterations i)
    (argValue Fsic.Generated.exportDefaultInternal n)

/-- `linker_to_dataframes(linker, …)` for flags of any form / omitted: the SAME three values go to the linker's own
    table and to every submodel's. -/
def linkerTablesA {K L α : Type} [DecidableEq K] (name : K) (linker : Store L α) (subs : List (K × Store L α))
    (s i n : Option FlagForm) : List (K × Table L α) :=
  linkerTables name linker subs (argValue Fsic.Generated.exportDefaultStatus s)
    (argValue Fsic.Generated.exportDefaultIterations i) (argValue Fsic.Generated.exportDefaultInternal n)

/-- NOT what the code does: an export that tests `flag is True` and otherwise takes a truthy flag for a column LABEL
    (`df[flag] = …`; `labelOf` = the label such a flag turns into).  Kept to state that it differs from the code on
    every truthy flag that is not the object `True`. -/
def identityAddCol {α : Type} (labelOf : FlagForm → String) (f : FlagForm) (k : String) (v : List α)
    (d : List (String × List α)) : List (String × List α) :=
  match f with
  | .bool true => dictSet d k v
  | f => if truthy f then dictSet d (labelOf f) v else d

def identityTable {L α : Type} (labelOf : FlagForm → String) (m : Store L α) (s i n : FlagForm) : Table L α :=
  { index := m.span
    cols := identityAddCol labelOf i "iterations" (m.data "iterations")
              (identityAddCol labelOf s "status" (m.data "status")
                (dictOf m.data (exportNames m.names (truthy n)) [])) }

/-- The three flags as one value (what travels down a chain of `super().to_dataframe(...)` calls). -/
structure Flags3 where
  status : Bool
  iterations : Bool
  includeInternal : Bool
  deriving DecidableEq, Repr

/-- The export of an instance as a function of the flags alone: there is no class in it. -/
def modelExport {L α : Type} (m : Store L α) : Flags3 → Table L α :=
  fun f => modelTable m f.status f.iterations f.includeInternal

/-- A `to_dataframe` defined by an extension mixin: what it hands on to `super().to_dataframe(...)` given what it
    received (`fwd`), and what it does to the table that comes back (`post`). -/
structure Wrapper (L α : Type) where
  fwd : Flags3 → Flags3
  post : Table L α → Table L α

def wrapExport {L α : Type} (w : Wrapper L α) (base : Flags3 → Table L α) : Flags3 → Table L α :=
  fun f => w.post (base (w.fwd f))

/-- The wrappers of a class in MRO order (outermost first) around the base export. -/
def wrapChain {L α : Type} : List (Wrapper L α) → (Flags3 → Table L α) → Flags3 → Table L α
  | [], base => base
  | w :: ws, base => wrapExport w (wrapChain ws base)

/-- A wrapper that passes the three flags on unchanged and returns the table as it comes. -/
def Wrapper.Forwards {L α : Type} (w : Wrapper L α) : Prop := (∀ f, w.fwd f = f) ∧ (∀ t, w.post t = t)

/-- `df.rename(columns=repl)`: labels only. -/
def renameCols {L α : Type} (repl : List (String × String)) (t : Table L α) : Table L α :=
  { index := t.index, cols := t.cols.map fun c => ((dictGet repl c.1).getD c.1, c.2) }

/-- The extension mixins of fsic. -/
inductive Mixin where
  | alias | tracer | pandasIndex | progressBar
  deriving DecidableEq, Repr

/-- What each mixin's class contributes to `to_dataframe` (the code that exists): `AliasMixin.to_dataframe(self, *,
    use_aliases=False, **kwargs)` calls `super().to_dataframe(**kwargs)` — every flag the caller gave goes on as it is —
    and renames labels iff `use_aliases` is truthy; `TracerMixin` (adds the series `trace` to `index`, NOT to `names`),
    `PandasIndexFeaturesMixin` and `ProgressBarMixin` do not define `to_dataframe`. -/
def mixinWrapper {L α : Type} (useAliases : Bool) (repl : List (String × String)) : Mixin → Wrapper L α
  | .alias => ⟨fun f => f, fun t => if useAliases then renameCols repl t else t⟩
  | .tracer => ⟨fun f => f, fun t => t⟩
  | .pandasIndex => ⟨fun f => f, fun t => t⟩
  | .progressBar => ⟨fun f => f, fun t => t⟩

/-- `obj.to_dataframe(status=, iterations=, include_internal=, [use_aliases=])` of an instance of a class
    `class C(*mro, Base)`. -/
def classExport {L α : Type} (mro : List Mixin) (useAliases : Bool) (repl : List (String × String)) (m : Store L α) :
    Flags3 → Table L α :=
  wrapChain (mro.map (mixinWrapper useAliases repl)) (modelExport m)

/-- NOT what the code does: a wrapper that spells its signature out and forgets to pass `include_internal` on (the base
    then uses its default `dflt`). -/
def dropsInternal {L α : Type} (dflt : Bool) : Wrapper L α :=
  ⟨fun f => { f with includeInternal := dflt }, fun t => t⟩

/-! ## Name-dependent access: variable name vs. storage key

`Store.data` is the series BY NAME.  In the code the name is not where the series lives: `add_variable(name, v)` does
`self.__dict__['_' + name] = v` and `obj[name]` reads `self.__dict__['_' + name]` after checking `name in index`
(`__getitem__` -> `self.__getattr__(key)`, the class's own `__getattr__`, NOT Python's attribute lookup).  `Obj` makes
that map explicit so that names which look like storage keys (`_Y` next to `Y`) or like members of the class
(`size`, `copy`, `values` …) are inside the model: a name is an opaque string, the only place it is rewritten is
`storageKey`. -/

/-- `'_' + name`: the `__dict__` key under which the series of variable `name` is stored. -/
def storageKey (name : String) : String := "_" ++ name

/-- An instance as it is in memory: `dict` is the part of `__dict__` that holds series (storage key ↦ cells, in
    insertion order); `index` / `names` as in `Store`. -/
structure Obj (L α : Type) where
  span : List L
  index : List String
  names : List String
  dict : List (String × List α)

/-- `obj[key]` for a str key (`VectorContainer.__getitem__`): `KeyError` (`none`) unless `key in index`, otherwise
    `self.__getattr__(key)` = `self.__dict__['_' + key]`. -/
def getItem {L α : Type} (o : Obj L α) (key : String) : Option (List α) :=
  if key ∈ o.index then dictGet o.dict (storageKey key) else none

/-- NOT what the code does — what `getattr(self, key)` would do (Python's normal lookup: the instance `__dict__`
    under `key` ITSELF first, `__getattr__` only when that fails; class members left out).  Kept to state that the
    two differ exactly on names that are the storage key of another variable. -/
def attrLookup {L α : Type} (o : Obj L α) (key : String) : Option (List α) :=
  match dictGet o.dict key with
  | some v => some v
  | none => getItem o key

/-- The by-name view the exports read (`model[k]` for every `k` they ask for). -/
def Obj.toStore {L α : Type} (o : Obj L α) : Store L α :=
  { span := o.span, index := o.index, names := o.names, data := fun k => (getItem o k).getD [] }

/-- The `__dict__` a constructor builds from by-name series: `add_variable` is called once per name in `index`
    order, each doing `self.__dict__['_' + name] = series`. -/
def Store.toObj {L α : Type} (m : Store L α) : Obj L α :=
  { span := m.span, index := m.index, names := m.names,
    dict := dictFromPairs (m.index.map fun k => (storageKey k, m.data k)) [] }

/-! ## `from_dataframe` -/

/-- The defaults `ModelInterface.__init__` fills in: `default_value` (before the cast), `'-'`, `-1`. -/
structure Defaults (α : Type) where
  value : α
  status : α
  iterations : α

/-- The keyword-only parameter of `ModelInterface.__init__` that a column of the same label is taken for. -/
def defaultValueParam : String := "default_value"

/-- `initial_values.get(name, default_value)` broadcast to the span and cast:
    `np.array(col).astype(dtype)` resp. `np.full(len(span), default_value).astype(dtype)`.
    `kwargs` are the columns as `cls(index, **columns)` receives them: a column labelled `default_value` does not
    reach `initial_values`, it BINDS THE PARAMETER `default_value` — so it is that column (one cell per period,
    `np.full` broadcasts it as it is) which fills every variable without a column of its own, the variable called
    `default_value` included (which therefore still receives its own series). -/
def initialSeries {α : Type} (cast : α → α) (dflt : α) (n : Nat) (kwargs : List (String × List α)) (k : String) : List α :=
  match dictGet kwargs k with
  | some col => col.map cast
  | none =>
    match dictGet kwargs defaultValueParam with
    | some col => col.map cast
    | none => List.replicate n (cast dflt)

/-- A column labelled like a positional parameter of `__init__` (`self`, `span`; reflected): `cls(index, **columns)`
    raises `TypeError: got multiple values for argument`. -/
def kwargsClash {α : Type} (cols : List (String × List α)) : Bool :=
  cols.any (fun c => Fsic.Generated.modelCtorPositional.contains c.1)

/-- `cls.from_dataframe(data)` for a class with `NAMES`, non-strict: `cls(index, **{k: v.values for k, v in
    data.items()})`.  `none` = the call raises: `DuplicateNameError` (duplicates in `NAMES`, or a variable
    called `status` / `iterations`, which `add_variable` has already defined) or `TypeError` (`kwargsClash`: a column
    called `self` / `span`).  Columns that are not in `NAMES` are ignored (columns labelled `engine` / `strict` /
    `dtype` are outside the model: they would bind those parameters; no model variable can have such a name);
    variables without a column get the default.  The index becomes the span (`list(index)`; the four
    pandas index classes are passed through as they are — either way the same sequence of labels). -/
def fromTable {L α : Type} (cast : α → α) (dflt : Defaults α) (NAMES : List String) (t : Table L α) :
    Option (Store L α) :=
  if NAMES.Nodup ∧ "status" ∉ NAMES ∧ "iterations" ∉ NAMES ∧ kwargsClash t.cols = false then
    some { span := t.index
           index := "status" :: "iterations" :: NAMES
           names := NAMES
           data := fun k =>
             if k = "status" then List.replicate t.index.length dflt.status
             else if k = "iterations" then List.replicate t.index.length dflt.iterations
             else if k ∈ NAMES then initialSeries cast dflt.value t.index.length (dictFromPairs t.cols []) k
             else [] }
  else none

/-- `cls.from_dataframe(data, strict=s)`: `strict` goes to `__init__` as it is and is tested with `if strict:` — when
    truthy, a column that is not a variable of the class (nor binds a parameter) makes the constructor raise
    `InitialisationError`; otherwise as `fromTable`. -/
def fromTableStrict {L α : Type} (cast : α → α) (dflt : Defaults α) (NAMES : List String) (strict : Option FlagForm)
    (t : Table L α) : Option (Store L α) :=
  if argValue false strict && t.cols.any (fun c => !(NAMES.contains c.1 || c.1 == defaultValueParam)) then Option.none
  else fromTable cast dflt NAMES t

/-! ## Symbol tables -/

/-- A Python value as it sits in a DataFrame cell / a `Symbol` field after decoding.  `flt i` is the float that
    holds the integer `i` (an int column that also has a missing entry becomes float64). -/
inductive Cell where
  | str (s : String)
  | int (i : Int)
  | flt (i : Int)
  | nan
  | none
  | other (tag : String)
  deriving DecidableEq, Repr

/-- `fsic.parser.Symbol`; `type` is the integer value of the `Type` enum member. -/
structure Symbol where
  name : Option String
  type : Nat
  lags : Option Int
  leads : Option Int
  equation : Option String
  code : Option String
  deriving DecidableEq, Repr

/-- What `dataframe_to_symbols` passes to `Symbol(**entry)`: whatever Python values the cells decode to.
    Also used for a table row (`dict(row)`). -/
structure PySymbol where
  name : Cell
  type : Nat
  lags : Cell
  leads : Cell
  equation : Cell
  code : Cell
  deriving DecidableEq, Repr

def ofStr : Option String → Cell
  | some s => .str s
  | none => .none

def ofInt : Option Int → Cell
  | some i => .int i
  | none => .none

/-- The original symbol as a tuple of Python values (the round trip must return exactly this). -/
def Symbol.toPy (s : Symbol) : PySymbol :=
  ⟨ofStr s.name, s.type, ofInt s.lags, ofInt s.leads, ofStr s.equation, ofStr s.code⟩

/-- What the DataFrame does to the optional entries of a column (observed, not modelled):
    `strMixed` / `intMixed`: a missing entry in a column that also holds a str / an int;
    `strAll` / `intAll`: a missing entry in a column with no str / int at all;
    `intPresent i`: the int `i` in a column that also has a missing entry. -/
structure Coercion where
  strMixed : Cell
  strAll : Cell
  intMixed : Cell
  intAll : Cell
  intPresent : Int → Cell

def encodeStr (c : Coercion) (hasSome : Bool) : Option String → Cell
  | some s => .str s
  | none => if hasSome then c.strMixed else c.strAll

def encodeInt (c : Coercion) (hasSome hasNone : Bool) : Option Int → Cell
  | some i => if hasNone then c.intPresent i else .int i
  | none => if hasSome then c.intMixed else c.intAll

/-- Column-wide facts pandas' inference depends on. -/
structure Flags where
  nameSome : Bool
  lagsSome : Bool
  lagsNone : Bool
  leadsSome : Bool
  leadsNone : Bool
  equationSome : Bool
  codeSome : Bool
  deriving DecidableEq, Repr

def flagsOf (ss : List Symbol) : Flags :=
  { nameSome := ss.any (fun s => s.name.isSome)
    lagsSome := ss.any (fun s => s.lags.isSome)
    lagsNone := ss.any (fun s => s.lags.isNone)
    leadsSome := ss.any (fun s => s.leads.isSome)
    leadsNone := ss.any (fun s => s.leads.isNone)
    equationSome := ss.any (fun s => s.equation.isSome)
    codeSome := ss.any (fun s => s.code.isSome) }

def encodeRow (c : Coercion) (f : Flags) (s : Symbol) : PySymbol :=
  ⟨encodeStr c f.nameSome s.name, s.type, encodeInt c f.lagsSome f.lagsNone s.lags,
   encodeInt c f.leadsSome f.leadsNone s.leads, encodeStr c f.equationSome s.equation, encodeStr c f.codeSome s.code⟩

/-- `symbols_to_dataframe`: `DataFrame([s._asdict() for s in symbols])`, read row by row (`iterrows`), each cell
    after the column-wide coercion. -/
def symbolsToTable (c : Coercion) (ss : List Symbol) : List PySymbol :=
  ss.map (encodeRow c (flagsOf ss))

/-- Per-field behaviour of a decoder; `none` = raises. -/
structure Decoder where
  name : Cell → Option Cell
  lags : Cell → Option Cell
  leads : Cell → Option Cell
  equation : Cell → Option Cell
  code : Cell → Option Cell

/-- `Type(x)` succeeds exactly on the values of the enum (reflected). -/
def typeOk (t : Nat) : Bool := (Fsic.Generated.typeValues.map Prod.snd).contains t

def decodeRow (dec : Decoder) (r : PySymbol) : Option PySymbol :=
  match dec.name r.name, dec.lags r.lags, dec.leads r.leads, dec.equation r.equation, dec.code r.code with
  | some n, some l, some d, some e, some c => if typeOk r.type then some ⟨n, r.type, l, d, e, c⟩ else none
  | _, _, _, _, _ => none

/-- `dataframe_to_symbols`: rows in order; any raising row makes the call raise (`none`). -/
def tableToSymbols (dec : Decoder) : List PySymbol → Option (List PySymbol)
  | [] => some []
  | r :: rs =>
    match decodeRow dec r, tableToSymbols dec rs with
    | some s, some ss => some (s :: ss)
    | _, _ => none

/-- `is_missing(field)`: `field is None or (isinstance(field, float) and np.isnan(field))` — `None` or a float NaN
    (`numpy.float64` is a `float`); every other value (str, int, a float that holds a number, anything else) is
    present. -/
def isMissing : Cell → Bool
  | .none => true
  | .nan => true
  | .str _ => false
  | .int _ => false
  | .flt _ => false
  | .other _ => false

/-- `int(field)` on a present cell: an int stays, the float that holds `i` becomes `i`.  `none` = raises.
    (`int(None)` / `int(nan)` raise TypeError / ValueError but are never reached: `is_missing` is tested first.
    A str / any other object in a `lags` / `leads` cell is outside the domain of the model — `int('x')` raises
    ValueError, `int('12')` would parse; `symbols_to_dataframe` never produces such a cell and no theorem or
    comparison depends on this branch — and is modelled as a raise.) -/
def pyInt : Cell → Option Cell
  | .int i => some (.int i)
  | .flt i => some (.int i)
  | .nan => none
  | .none => none
  | .str _ => none
  | .other _ => none

/-- `convert_to_int_or_none`: `None if is_missing(field) else int(field)`. -/
def convertToIntOrNone (c : Cell) : Option Cell :=
  if isMissing c then some .none else pyInt c

/-- `convert_to_str_or_none`: `None if is_missing(field) else field` (never raises; a present value of any type is
    passed on as it comes). -/
def convertToStrOrNone (c : Cell) : Option Cell :=
  if isMissing c then some .none else some c

/-- The decoder of the code: `lags` / `leads` through `convert_to_int_or_none`, `name` / `equation` / `code`
    through `convert_to_str_or_none`.
    (Before 56f842e `name` / `equation` / `code` were passed on as they came and `convert_to_int_or_none` tested
    `np.isnan(field)`, which raises TypeError on `None`: a missing str came back as NaN and an all-missing
    `lags` / `leads` column made the call raise.) -/
def codeDecoder : Decoder :=
  { name := convertToStrOrNone, lags := convertToIntOrNone, leads := convertToIntOrNone,
    equation := convertToStrOrNone, code := convertToStrOrNone }

/-! ### The installed pandas (reflected) -/

def cellOfTag (tag : String) : Cell :=
  if tag = "nan" then .nan else if tag = "none" then .none else .other tag

def presentOfTag (tag : String) (i : Int) : Cell :=
  if tag = "float" then .flt i else if tag = "int" then .int i else .other tag

def tagOf (tbl : List (String × String)) (k : String) : String := (dictGet tbl k).getD "?"

def coercionOfTable (tbl : List (String × String)) : Coercion :=
  { strMixed := cellOfTag (tagOf tbl "str_mixed_missing")
    strAll := cellOfTag (tagOf tbl "str_all_missing")
    intMixed := cellOfTag (tagOf tbl "int_mixed_missing")
    intAll := cellOfTag (tagOf tbl "int_all_missing")
    intPresent := presentOfTag (tagOf tbl "int_mixed_present") }

/-- The coercion of the pandas that is installed now. -/
def installed : Coercion := coercionOfTable Fsic.Generated.pandasCoercion

/-- Probes of string IDENTITY through the DataFrame (harness/reflect_tools.py): the empty string and strings with
    leading / trailing / only whitespace, next to another str (`full`), next to a missing entry (`mixed`), and in a
    column that holds nothing else (`alone`); `"same"` = the very same str came back. -/
def edgeStringProbes : List String :=
  ["empty", "space", "trail", "lead", "tabnl", "nl", "crlf", "both"].flatMap
    (fun k => ["str_" ++ k ++ "_full", "str_" ++ k ++ "_mixed", "str_" ++ k ++ "_alone"])

/-- Every edge-whitespace probe came back unchanged, and a `None` next to `''` / next to whitespace-only strings
    is coerced exactly like a `None` next to any other str (pandas does not take `''` or blanks for missing). -/
def edgeStringsAsModelled (tbl : List (String × String)) : Bool :=
  edgeStringProbes.all (fun k => tagOf tbl k == "same") &&
  tagOf tbl "str_empty_mixed_missing" == tagOf tbl "str_mixed_missing" &&
  tagOf tbl "str_space_mixed_missing" == tagOf tbl "str_mixed_missing"

/-- The model's reading of present entries (`str s` stays `str s` — for `''` and strings with edge whitespace too;
    an int in a column without missing entries stays an int) is what the reflected table says. -/
def presentAsModelled (tbl : List (String × String)) : Bool :=
  tagOf tbl "str_mixed_present" == "str" && tagOf tbl "str_full_present" == "str" && tagOf tbl "int_full_present" == "int" &&
  edgeStringsAsModelled tbl

end Fsic.Tools
