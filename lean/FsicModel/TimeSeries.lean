import FsicModel.Basic
/-
The time-series helpers of `fsic/functions.py` — `shift`, `lag`, `lead`, `diff`, `dlog` — written as the code
composes them: `np.roll` followed by a Python slice assignment of the fill value, the `p == 0` / `d == 0` early
returns of the *input itself*, `NotImplementedError` for `d < 0`.

Two layers:
* pure functions on lists (any element type `α`; subtraction and `log` are parameters, so the theorems hold for
  every dtype and every float semantics);
* the same functions over a small memory of array cells (`Mem`), where `np.roll` and `x - lag(..)` allocate a
  new cell, the slice assignment writes into that cell, and `p == 0` returns the location of the input — this
  is the layer that can say "the input array is never modified".
-/
namespace Fsic.TS

variable {α : Type}

/-! ### NumPy / Python primitives -/

/-- `shift %= n` inside `np.roll` (Python's non-negative remainder). -/
def rollAmount (n : Nat) (p : Int) : Nat := (p % (n : Int)).toNat

/-- `np.roll(x, p)` for a 1-D array: `res[k:] = x[:n-k]; res[:k] = x[n-k:]` with `k = p mod n`. -/
def roll (xs : List α) (p : Int) : List α :=
  if xs.length = 0 then xs
  else xs.drop (xs.length - rollAmount xs.length p) ++ xs.take (xs.length - rollAmount xs.length p)

/-- Python's clamping of a slice bound `b` (step 1) for a sequence of length `n`:
    negative bounds count from the end, everything is clipped to `[0, n]`. -/
def clampBound (n : Nat) (b : Int) : Nat :=
  if b < 0 then (b + (n : Int)).toNat else min b.toNat n

/-- `xs[lo:hi] = v` (scalar broadcast) for bounds already clamped. -/
def fillSlice (xs : List α) (lo hi : Nat) (v : α) : List α :=
  xs.mapIdx fun i x => if lo ≤ i ∧ i < hi then v else x

/-- `xs[:p] = v`. -/
def assignPrefix (xs : List α) (p : Int) (v : α) : List α :=
  fillSlice xs 0 (clampBound xs.length p) v

/-- `xs[p:] = v`. -/
def assignSuffix (xs : List α) (p : Int) (v : α) : List α :=
  fillSlice xs (clampBound xs.length p) xs.length v

/-! ### `fsic.functions` (value layer) -/

/-- `shift(x, p, fill_value=fill)`. -/
def shift (xs : List α) (p : Int) (fill : α) : List α :=
  if p = 0 then xs
  else if p > 0 then assignPrefix (roll xs p) p fill
  else assignSuffix (roll xs p) p fill

/-- `lag(x, p, fill_value=fill)`. -/
def lag (xs : List α) (p : Int) (fill : α) : List α := shift xs p fill

/-- `lead(x, p, fill_value=fill)`. -/
def lead (xs : List α) (p : Int) (fill : α) : List α := shift xs (-p) fill

/-- `diff(x, d, fill_value=fill)`; `none` = NotImplementedError (`d < 0`). -/
def diff (sub : α → α → α) (xs : List α) (d : Int) (fill : α) : Option (List α) :=
  if d = 0 then some xs
  else if d > 0 then some (assignPrefix (List.zipWith sub xs (lag xs d fill)) d fill)
  else none

/-- `dlog(x, d, fill_value=fill)` = `diff(log(x), d=d, fill_value=fill)`. -/
def dlog (sub : α → α → α) (log : α → α) (xs : List α) (d : Int) (fill : α) : Option (List α) :=
  diff sub (xs.map log) d fill

/-! ### The same code over a memory of array cells (who allocates, who writes) -/

/-- A memory of 1-D arrays; a location is an index into `cells`. -/
structure Mem (α : Type) where
  cells : List (List α)

def Mem.read (m : Mem α) (l : Nat) : List α := m.cells.getD l []

/-- Allocate a new array; returns the memory and the new location. -/
def Mem.alloc (m : Mem α) (xs : List α) : Mem α × Nat := (⟨m.cells ++ [xs]⟩, m.cells.length)

/-- In-place update of the array at `l`. -/
def Mem.modify (m : Mem α) (l : Nat) (f : List α → List α) : Mem α := ⟨Fsic.setAt m.cells l (f (m.read l))⟩

/-- `shifted[:p] = fill` / `shifted[p:] = fill` on the cell `l`. -/
def assignShiftFill (m : Mem α) (l : Nat) (p : Int) (fill : α) : Mem α :=
  if p > 0 then m.modify l (fun xs => assignPrefix xs p fill)
  else m.modify l (fun xs => assignSuffix xs p fill)

/-- `shift` over memory: `p == 0` returns the input's own location, otherwise `np.roll` allocates and the slice
    assignment writes into the new cell. -/
def shiftM (m : Mem α) (x : Nat) (p : Int) (fill : α) : Mem α × Nat :=
  if p = 0 then (m, x)
  else (assignShiftFill (m.alloc (roll (m.read x) p)).1 (m.alloc (roll (m.read x) p)).2 p fill,
        (m.alloc (roll (m.read x) p)).2)

def lagM (m : Mem α) (x : Nat) (p : Int) (fill : α) : Mem α × Nat := shiftM m x p fill
def leadM (m : Mem α) (x : Nat) (p : Int) (fill : α) : Mem α × Nat := shiftM m x (-p) fill

/-- `differenced = x - lag(x, d); differenced[:d] = fill` once `lag` has returned location `l` in memory `m`. -/
def diffAfterLag (sub : α → α → α) (x : Nat) (d : Int) (fill : α) (ml : Mem α × Nat) : Mem α × Nat :=
  ((ml.1.alloc (List.zipWith sub (ml.1.read x) (ml.1.read ml.2))).1.modify
      (ml.1.alloc (List.zipWith sub (ml.1.read x) (ml.1.read ml.2))).2 (fun xs => assignPrefix xs d fill),
   (ml.1.alloc (List.zipWith sub (ml.1.read x) (ml.1.read ml.2))).2)

/-- `diff` over memory; `none` = NotImplementedError. -/
def diffM (sub : α → α → α) (m : Mem α) (x : Nat) (d : Int) (fill : α) : Option (Mem α × Nat) :=
  if d = 0 then some (m, x)
  else if d > 0 then some (diffAfterLag sub x d fill (lagM m x d fill))
  else none

/-- `dlog` over memory: `log(x)` allocates, then `diff`. -/
def dlogM (sub : α → α → α) (log : α → α) (m : Mem α) (x : Nat) (d : Int) (fill : α) : Option (Mem α × Nat) :=
  diffM sub (m.alloc ((m.read x).map log)).1 (m.alloc ((m.read x).map log)).2 d fill

end Fsic.TS
