import FsicModel.Basic
/-
M7 — reference / sharing model for `copy()`, `copy.copy`, `copy.deepcopy` and for sibling instances
(`fsic.core.containers.VectorContainer.copy`, `fsic.core.linkers.BaseLinker.copy`, the `__init__` chain
`VectorContainer` → `ModelInterface` → `BaseModel` / `BaseLinker`, `AliasMixin.__init__`, `TracerMixin.__init__`).

Only *mutable* Python objects live in the heap (lists, ndarrays, dicts, `Trace` objects, instance `__dict__`s,
and one pseudo-object per class holding its class-level attributes).  Immutable values (str, numbers, bool, None,
dtype, `range`, enum members …) are inline `Imm` values: sharing them is unobservable.
A location is a position in the heap; allocation appends.  Core Lean only; everything is total and executable.
-/
namespace Fsic.Heap

/-- A location is a position in the heap (written `Loc` for readability; it *is* `Nat`). -/
scoped notation "Loc" => Nat

/-- Immutable Python values (identity irrelevant). -/
inductive Imm where
  | str (s : String)
  | int (i : Int)
  | none
  | range (n : Nat)      -- `range(n)` used as a span
  | tag (s : String)     -- any other immutable value (dtype, bool, enum member, tuple of immutables …)
  deriving DecidableEq, Repr, Inhabited

/-- What a slot of an object holds: an immutable value or a reference to a mutable object. -/
inductive Val where
  | imm (v : Imm)
  | ref (l : Loc)
  deriving DecidableEq, Repr, Inhabited

inductive Kind where
  | list                 -- Python list
  | array                -- ndarray (cells immutable) or object ndarray (cells are references: `Trace` objects)
  | dict                 -- dict (aliases, submodels)
  | tuple                -- tuple / namedtuple that (transitively) holds a mutable object: itself immutable, but a node
                         --   with edges to mutable children, so `copy.deepcopy` must build a new one around copied children
  | uncopyable           -- an object `copy.deepcopy` cannot copy (generator, `dict.keys()` view, lock, open file …):
                         --   deep-copying it raises TypeError
  | trace                -- `fsic.extensions.model.Trace` instance (attributes names / index / values)
  | inst (cls : Nat)     -- `__dict__` of a container / model / linker instance of class number `cls`
  | cls                  -- class-level attributes of a class (ENDOGENOUS, CHECK, NAMES, ALIASES, …)
  deriving DecidableEq, Repr, Inhabited

/-- A mutable object: list items / array cells are keyed "0","1",…; dict entries and attributes by name. -/
structure Obj where
  kind : Kind
  slots : List (String × Val)
  deriving DecidableEq, Repr, Inhabited

abbrev Heap := List Obj

inductive Base where
  | container | model | linker
  deriving DecidableEq, Repr, Inhabited

/-- What the constructors need to know about a class: its bases (MRO flags) and the location of the pseudo-object
    holding its class-level attributes.  Two class attributes that are the *same* Python object (in parser-built
    classes `CHECK is ENDOGENOUS`) are two slots holding the same reference. -/
structure ClassDesc where
  base : Base
  alias : Bool
  tracer : Bool
  attrs : Loc
  deriving DecidableEq, Repr, Inhabited

/-! ## Slots -/

def immSlots : List (String × Val) → List (String × Val)
  | [] => []
  | (k, .imm v) :: ss => (k, .imm v) :: immSlots ss
  | (_, .ref _) :: ss => immSlots ss

def refsOf : List (String × Val) → List Loc
  | [] => []
  | (_, .ref l) :: ss => l :: refsOf ss
  | (_, .imm _) :: ss => refsOf ss

def dropKey (k : String) : List (String × Val) → List (String × Val)
  | [] => []
  | (k', v) :: ss => if k' = k then dropKey k ss else (k', v) :: dropKey k ss

/-- `d[k] = v` on a dict-like slot list: overwrite in place (keys are unique), else append. -/
def slotSet : List (String × Val) → String → Val → List (String × Val)
  | [], k, v => [(k, v)]
  | (k', v') :: ss, k, v => if k' = k then (k', v) :: dropKey k ss else (k', v') :: slotSet ss k v

/-- `d.update(new)`. -/
def slotUpdate (init : List (String × Val)) : List (String × Val) → List (String × Val)
  | [] => init
  | (k, v) :: ss => slotUpdate (slotSet init k v) ss

def keyOf (i : Nat) : String := toString i

/-- Items as list / array slots keyed by position. -/
def seqSlotsFrom (i : Nat) : List Val → List (String × Val)
  | [] => []
  | v :: vs => (keyOf i, v) :: seqSlotsFrom (i + 1) vs

def seqSlots (vs : List Val) : List (String × Val) := seqSlotsFrom 0 vs

def strList (xs : List String) : Obj := ⟨.list, seqSlots (xs.map fun s => .imm (.str s))⟩
def cellArray (n : Nat) (v : Imm) : Obj := ⟨.array, seqSlots (List.replicate n (.imm v))⟩

/-- The strings held by a list object (non-string items are skipped). -/
def strItems : List (String × Val) → List String
  | [] => []
  | (_, .imm (.str s)) :: ss => s :: strItems ss
  | _ :: ss => strItems ss

def getObj (h : Heap) (v : Val) : Option Obj :=
  match v with
  | .ref l => h[l]?
  | .imm _ => none

def valItems (h : Heap) (v : Val) : List String :=
  match getObj h v with
  | some o => strItems o.slots
  | none => []

/-- `len(span)`. -/
def spanLen (h : Heap) : Val → Nat
  | .imm (.range n) => n
  | .imm _ => 0
  | .ref l => match h[l]? with
    | some o => o.slots.length
    | none => 0

/-! ## Reachability and paths -/

/-- `Reach h a x`: the mutable object `x` is reachable from `a` by following references. -/
inductive Reach (h : Heap) : Loc → Loc → Prop where
  | refl (a : Loc) : Reach h a a
  | step {a b c : Loc} {o : Obj} {k : String} :
      Reach h a b → h[b]? = some o → (k, Val.ref c) ∈ o.slots → Reach h a c

/-- No mutable object is reachable from both roots. -/
def Disjoint (h : Heap) (a b : Loc) : Prop := ∀ x, Reach h a x → Reach h b x → False

/-- No dangling references. -/
def WF (h : Heap) : Prop :=
  ∀ (l : Loc) (o : Obj) (k : String) (c : Loc), h[l]? = some o → (k, Val.ref c) ∈ o.slots → c < h.length

def pathsWith (f : String → Val → List (String × Loc)) (pre : String) :
    List (String × Val) → List (String × Loc)
  | [] => []
  | (k, v) :: ss => f (pre ++ "/" ++ k) v ++ pathsWith f pre ss

/-- Every access path (tree unfolding, bounded by `fuel`) from `v` to a mutable object, with that object's
    location.  Two paths with the same location are aliases. -/
def paths (h : Heap) : Nat → String → Val → List (String × Loc)
  | _, _, .imm _ => []
  | 0, p, .ref l => [(p, l)]
  | n + 1, p, .ref l =>
    (p, l) :: match h[l]? with
      | none => []
      | some o => pathsWith (paths h n) p o.slots

/-- Follow attribute / key / position names from a root. -/
def nav (h : Heap) : Loc → List String → Option Loc
  | l, [] => some l
  | l, k :: ks =>
    match h[l]? with
    | none => none
    | some o =>
      match o.slots.lookup k with
      | some (.ref l') => nav h l' ks
      | _ => none

/-! ## Mutation through a root

Every mutating operation of the API is a short sequence of `Step`s: navigate from the root to an object, then edit
that object in place.  New objects are always freshly allocated; they may hold references to objects already
reachable *from the same root* (`Src.alias`), never to anything else.  A list may be *copied* from anywhere
(`Edit.copyList`: `Trace(list(names))` copies the model's own `names` or the class-level `TRACE_VARIABLES`): the copy
is a new object, so no sharing arises. -/

inductive Src where
  | imm (v : Imm)
  | alias (path : List String)   -- an object already reachable from the same root
  deriving DecidableEq, Repr

/-- Where `list(...)` takes its items from. -/
inductive ListSrc where
  | own (path : List String)     -- a list reachable from the same root
  | ext (l : Loc)                -- a list named from outside the root (a class-level list)
  deriving DecidableEq, Repr

inductive Edit where
  | setImm (k : String) (v : Imm)          -- `obj[k] = <immutable>` / attribute rebinding to an immutable value
  | push (v : Imm)                          -- `list.append(<immutable>)`
  | pop                                     -- `list.pop()`
  | delKey (k : String)                     -- `del d[k]`
  | bindNew (k : String) (kind : Kind) (slots : List (String × Src))   -- `obj[k] = <newly created object>`
  | copyList (k : String) (src : ListSrc)   -- `obj[k] = list(<existing list>)`: a new list with the same items
  | copyArray (k : String) (src : ListSrc)  -- `obj[k] = np.array(<values of an existing array>)`: a new array
  | copyCells (src : ListSrc)               -- `arr[:] = <existing array>`: element values copied into the object
  deriving DecidableEq, Repr

structure Step where
  path : List String
  edit : Edit
  deriving DecidableEq, Repr

def resolveSrcs (h : Heap) (root : Loc) : List (String × Src) → Option (List (String × Val))
  | [] => some []
  | (k, .imm v) :: ss =>
    match resolveSrcs h root ss with
    | some r => some ((k, .imm v) :: r)
    | none => none
  | (k, .alias p) :: ss =>
    match nav h root p, resolveSrcs h root ss with
    | some l, some r => some ((k, .ref l) :: r)
    | _, _ => none

def listSrcLoc (h : Heap) (root : Loc) : ListSrc → Option Loc
  | .own p => nav h root p
  | .ext l => some l

def withSlots (o : Obj) (ss : List (String × Val)) : Obj := ⟨o.kind, ss⟩

/-- Edit the object at `l` (reached from `root`).  An edit that cannot be carried out (the Python call raises)
    leaves the heap as it is. -/
def applyEdit (h : Heap) (root l : Loc) : Edit → Heap
  | .setImm k v =>
    match h[l]? with
    | some o => h.set l (withSlots o (slotSet o.slots k (.imm v)))
    | none => h
  | .push v =>
    match h[l]? with
    | some o => h.set l (withSlots o (o.slots ++ [(keyOf o.slots.length, .imm v)]))
    | none => h
  | .pop =>
    match h[l]? with
    | some o => h.set l (withSlots o o.slots.dropLast)
    | none => h
  | .delKey k =>
    match h[l]? with
    | some o => h.set l (withSlots o (dropKey k o.slots))
    | none => h
  | .bindNew k kind srcs =>
    match h[l]?, resolveSrcs h root srcs with
    | some o, some ss => (h ++ [Obj.mk kind ss]).set l (withSlots o (slotSet o.slots k (.ref h.length)))
    | _, _ => h
  | .copyList k src =>
    match h[l]?, (listSrcLoc h root src).bind (fun sl => h[sl]?) with
    | some o, some so =>
      (h ++ [Obj.mk .list (immSlots so.slots)]).set l (withSlots o (slotSet o.slots k (.ref h.length)))
    | _, _ => h
  | .copyArray k src =>
    match h[l]?, (listSrcLoc h root src).bind (fun sl => h[sl]?) with
    | some o, some so =>
      (h ++ [Obj.mk .array (immSlots so.slots)]).set l (withSlots o (slotSet o.slots k (.ref h.length)))
    | _, _ => h
  | .copyCells src =>
    match h[l]?, (listSrcLoc h root src).bind (fun sl => h[sl]?) with
    | some o, some so => h.set l (withSlots o (immSlots so.slots))
    | _, _ => h

def applyStep (h : Heap) (root : Loc) (s : Step) : Heap :=
  match nav h root s.path with
  | some l => applyEdit h root l s.edit
  | none => h

/-- A history of mutations through one root. -/
def run (h : Heap) (root : Loc) : List Step → Heap
  | [] => h
  | s :: ss => run (applyStep h root s) root ss

/-! ## The public mutating operations as step sequences -/

/-- Where `trace_t` takes the variable names of a new `Trace` from. -/
inductive TraceNames where
  | own                          -- `TRACE_VARIABLES is None`: `names = self.names` (the instance's own list)
  | classVars (l : Loc)          -- `names = self.TRACE_VARIABLES` (the class-level list)
  | user (items : List String)   -- `trace=[...]`: the caller's list   (in every case the `Trace` gets `list(names)`)
  deriving DecidableEq, Repr

inductive Op where
  | setCell (var : String) (i : Nat) (v : Imm)            -- `m.X[i] = v`, `m['X', label] = v`, solving a period
  | rebind (var : String) (n : Nat)                        -- `m.X = [...]`: a new array is bound to `_X`
  | addVariable (name : String) (n : Nat) (model : Bool)   -- `add_variable` (models also append to `names`)
  | addAttrImm (name : String) (v : Imm)                   -- `add_attribute(name, <immutable>)`, `m.LAGS = 2`
  | addAttrList (name : String) (items : List String)      -- `add_attribute(name, [..])`
  | setAttrImm (name : String) (v : Imm)                   -- rebinding an existing attribute to an immutable value
  | append (field : List String) (s : String)              -- `<list at field>.append(s)`
  | popLast (field : List String)                          -- `<list at field>.pop()`
  | dictSet (field : List String) (k v : String)           -- `<dict at field>[k] = v`
  | dictDel (field : List String) (k : String)             -- `del <dict at field>[k]` (e.g. an alias removed at run time)
  | useName                                                -- reading through a name (`m[x]`, `m.x`, `x in m`, failed
      -- look-ups included): no effect on the heap — what a name means is a function of the *current* `aliases` dict
  | traceT (t : Nat) (src : TraceNames) (fresh : Bool) (label : Imm) (n : Nat)   -- `trace_t(t, label, trace=…)`
  | assignFrom (x : String) (src : Loc) (inplace : Bool)   -- whole-variable assignment from ANOTHER object's
      -- variable (the array at `src`): `m.X = other.Y`, `m['X'] = other['Y']`, `m.replace_values(X=other.Y)`,
      -- `m.values = other.values`, `m.X = other.Y[:]` store element values into the existing array (`inplace`);
      -- `m.X = list(other.Y)` binds a new array built from the values.  Never the passed object itself.
  | setAt (f : List String) (k : String) (v : Imm)         -- `<object at f>[k] = <immutable>` (inner list / dict / array)
  | buildAttr (x : String) (nodes : List (List String × String × Kind × List (String × Imm)))
      -- `add_attribute(x, <nested value>)`: lists, dicts, nested lists, tuples of lists, namedtuples holding dicts,
      -- tuples of arrays …  The value is built node by node, outermost first: `(path, key, kind, immutable slots)`
      -- creates a new object under `key` of the object at `path`.
  | inSub (key : String) (op : Op)                         -- the same through `linker.submodels[key]`
  deriving Repr

def strSrcs (xs : List String) : List (String × Src) := (seqSlots (xs.map fun s => .imm (.str s))).map fun
  | (k, .imm v) => (k, Src.imm v)
  | (k, .ref _) => (k, Src.imm .none)

def cellSrcs (n : Nat) : List (String × Src) := (List.range n).map fun i => (keyOf i, Src.imm (.int 0))

def prefixSrc (pre : List String) : String × Src → String × Src
  | (k, .alias p) => (k, .alias (pre ++ p))
  | kv => kv

def prefixStep (pre : List String) (s : Step) : Step :=
  match s.edit with
  | .bindNew k kind srcs => ⟨pre ++ s.path, .bindNew k kind (srcs.map (prefixSrc pre))⟩
  | .copyList k (.own p) => ⟨pre ++ s.path, .copyList k (.own (pre ++ p))⟩
  | .copyArray k (.own p) => ⟨pre ++ s.path, .copyArray k (.own (pre ++ p))⟩
  | .copyCells (.own p) => ⟨pre ++ s.path, .copyCells (.own (pre ++ p))⟩
  | e => ⟨pre ++ s.path, e⟩

def opSteps : Op → List Step
  | .setCell x i v => [⟨["_" ++ x], .setImm (keyOf i) v⟩]
  | .setAt f k v => [⟨f, .setImm k v⟩]
  | .buildAttr x nodes =>
    nodes.map (fun nd => ⟨nd.1, .bindNew nd.2.1 nd.2.2.1 (nd.2.2.2.map fun kv => (kv.1, Src.imm kv.2))⟩) ++
      [⟨["_attributes"], .push (.str x)⟩]
  | .assignFrom x src inplace =>
    if inplace then [⟨["_" ++ x], .copyCells (.ext src)⟩] else [⟨[], .copyArray ("_" ++ x) (.ext src)⟩]
  | .rebind x n => [⟨[], .bindNew ("_" ++ x) .array (cellSrcs n)⟩]
  | .addVariable x n model =>
    [⟨[], .bindNew ("_" ++ x) .array (cellSrcs n)⟩, ⟨["index"], .push (.str x)⟩] ++
      (if model then [⟨["names"], .push (.str x)⟩] else [])
  | .addAttrImm x v => [⟨[], .setImm x v⟩, ⟨["_attributes"], .push (.str x)⟩]
  | .addAttrList x items => [⟨[], .bindNew x .list (strSrcs items)⟩, ⟨["_attributes"], .push (.str x)⟩]
  | .setAttrImm x v => [⟨[], .setImm x v⟩]
  | .append f s => [⟨f, .push (.str s)⟩]
  | .popLast f => [⟨f, .pop⟩]
  | .dictSet f k v => [⟨f, .setImm k (.str v)⟩]
  | .dictDel f k => [⟨f, .delKey k⟩]
  | .useName => []
  | .traceT t src fresh label n =>
    -- `self[TRACE][t] = Trace(list(names))` with `names` = `self.names` / `self.TRACE_VARIABLES` / the caller's list
    (if fresh then
      [⟨["_trace"], .bindNew (keyOf t) .trace [("names", .imm .none), ("index", .imm .none), ("values", .imm .none)]⟩,
       (match src with
        | .own => ⟨["_trace", keyOf t], .copyList "names" (.own ["names"])⟩
        | .classVars l => ⟨["_trace", keyOf t], .copyList "names" (.ext l)⟩
        | .user items => ⟨["_trace", keyOf t], .bindNew "names" .list (strSrcs items)⟩),
       ⟨["_trace", keyOf t], .bindNew "index" .list []⟩]
     else []) ++
    [⟨["_trace", keyOf t, "index"], .push label⟩,
     ⟨["_trace", keyOf t], .bindNew "values" .array (cellSrcs n)⟩]
  | .inSub key op => (opSteps op).map (prefixStep ["submodels", key])

def applyOp (h : Heap) (root : Loc) (op : Op) : Heap := run h root (opSteps op)

/-! ## Constructors, as in the code

`construct` returns the heap after allocating everything `__init__` creates, and the `__dict__` of the new
instance.  Which entries are *fresh* objects and which are *references to class-level objects* is the point:

  VectorContainer.__init__   span := the argument (by reference);  index := [];  _attributes := [...]
  ModelInterface.__init__    _status, _iterations, one array per name: fresh;  names := copy.deepcopy(self.NAMES)
  BaseModel / BaseLinker     endogenous := list(self.ENDOGENOUS),  check := list(self.CHECK)   (fresh copies)
  AliasMixin.__init__        aliases := fresh dict,  preferred_names := copy.deepcopy(self.PREFERRED_NAMES)
  TracerMixin.__init__       _trace := object array of fresh `Trace([])`
  BaseLinker.__init__        submodels := the argument (by reference)
 -/

def classAttr (h : Heap) (cd : ClassDesc) (k : String) : Val :=
  match h[cd.attrs]? with
  | some o => (o.slots.lookup k).getD (.imm .none)
  | none => .imm .none

/-- `copy.deepcopy` / `list(...)` of a class-level list of strings, or of a dict of strings: a fresh object with
    the same (immutable) entries. -/
def freshCopyOf (h : Heap) (v : Val) (dflt : Kind) : Obj :=
  match getObj h v with
  | some o => ⟨o.kind, o.slots⟩
  | none => ⟨dflt, []⟩

/-- One `Trace([])` per period: three fresh objects plus the `Trace` itself; returns the references to the traces. -/
def allocTraces : Nat → Heap → Heap × List Val
  | 0, h => (h, [])
  | n + 1, h =>
    match allocTraces n h with
    | (h1, vs) =>
      (h1 ++ [⟨.list, []⟩, ⟨.list, []⟩, ⟨.array, []⟩,
              ⟨.trace, [("names", .ref h1.length), ("index", .ref (h1.length + 1)),
                        ("values", .ref (h1.length + 2))]⟩],
       vs ++ [.ref (h1.length + 3)])

/-- One fresh array per variable name, bound to `_<name>`. -/
def allocVars (n : Nat) : List String → Heap → Heap × List (String × Val)
  | [], h => (h, [])
  | x :: xs, h =>
    match allocVars n xs (h ++ [cellArray n (.int 0)]) with
    | (h1, ss) => (h1, ("_" ++ x, .ref h.length) :: ss)

def baseAttributes : Base → List String
  | .container => ["_attributes", "span", "index", "_strict"]
  | .model => ["_attributes", "span", "index", "_strict", "dtype", "names", "lags", "leads", "endogenous",
              "check", "engine"]
  | .linker => ["_attributes", "span", "index", "_strict", "dtype", "names", "lags", "leads", "endogenous",
               "check"]

/-- Stage 1: `AliasMixin.__init__` (runs before `super().__init__`). -/
def stageAlias (cd : ClassDesc) (h : Heap) : Heap × List (String × Val) :=
  if cd.alias then
    (h ++ [freshCopyOf h (classAttr h cd "ALIASES") .dict, freshCopyOf h (classAttr h cd "PREFERRED_NAMES") .list],
     [("aliases", .ref h.length), ("preferred_names", .ref (h.length + 1))])
  else (h, [])

/-- Stage 2: linker-only entries set before `ModelInterface.__init__`.  `submodels=None` (the default) becomes a
    NEW empty dict (`if submodels is None or len(submodels) == 0: submodels = {}`); a dict passed by the caller is
    stored by reference.  (The code also replaces an *empty* dict argument by a new `{}`; the model keeps the
    reference in that case — no program of the correspondence check passes an empty dict.) -/
def stageLinker (cd : ClassDesc) (sub : Val) (h : Heap) : Heap × List (String × Val) :=
  if cd.base = .linker then
    match sub with
    | .imm _ =>
      (h ++ [⟨.dict, []⟩],
       [("submodels", .ref h.length), ("name", .imm (.str "_")), ("_LAGS", .imm (.int 0)), ("_LEADS", .imm (.int 0))])
    | .ref _ =>
      (h, [("submodels", sub), ("name", .imm (.str "_")), ("_LAGS", .imm (.int 0)), ("_LEADS", .imm (.int 0))])
  else (h, [])

/-- Stage 3: `VectorContainer.__init__`. -/
def stageContainer (cd : ClassDesc) (names : List String) (span : Val) (h : Heap) : Heap × List (String × Val) :=
  (h ++ [strList ((if cd.base = .container then [] else ["status", "iterations"]) ++ names ++
                  (if cd.tracer then ["trace"] else [])),
         strList (baseAttributes cd.base)],
   [("span", span), ("index", .ref h.length), ("_strict", .imm (.tag "False")), ("_attributes", .ref (h.length + 1))])

/-- Stage 4: `ModelInterface.__init__` followed by `SolverMixin.__init__` (`lags`, `leads`: immutable copies of
    the class-level integers) — models and linkers. -/
def stageInterface (cd : ClassDesc) (names : List String) (n : Nat) (h : Heap) : Heap × List (String × Val) :=
  if cd.base = .container then (h, [])
  else
    match allocVars n names (h ++ [cellArray n (.str "-"), cellArray n (.int (-1)), strList names]) with
    | (h1, vars) =>
      (h1, [("dtype", .imm (.tag "float")), ("_status", .ref h.length), ("_iterations", .ref (h.length + 1)),
            ("names", .ref (h.length + 2))] ++ vars ++
           [("lags", .imm (.tag "LAGS")), ("leads", .imm (.tag "LEADS"))])

/-- Stage 5: `BaseModel.__init__` / `BaseLinker.__init__`: `add_attribute('endogenous', list(self.ENDOGENOUS))`,
    `add_attribute('check', list(self.CHECK))`: new lists with the items of the class-level lists; `ve` / `vc` are
    the values of `self.ENDOGENOUS` / `self.CHECK`. -/
def stageModel (cd : ClassDesc) (ve vc : Val) (h : Heap) : Heap × List (String × Val) :=
  if cd.base = .container then (h, [])
  else
    (h ++ [freshCopyOf h ve .list, freshCopyOf h vc .list],
     [("endogenous", .ref h.length), ("check", .ref (h.length + 1))] ++
       (if cd.base = .model then [("engine", .imm (.str "python"))] else []))

/-- Stage 6: `TracerMixin.__init__` (after `super().__init__`). -/
def stageTracer (cd : ClassDesc) (n : Nat) (h : Heap) : Heap × List (String × Val) :=
  if cd.tracer then
    match allocTraces n h with
    | (h1, ts) => (h1 ++ [⟨.array, seqSlots ts⟩], [("_trace", .ref h1.length)])
  else (h, [])

def thread (f : Heap → Heap × List (String × Val)) (acc : Heap × List (String × Val)) :
    Heap × List (String × Val) :=
  match f acc.1 with
  | (h1, ss) => (h1, acc.2 ++ ss)

def modelNames (h : Heap) (cd : ClassDesc) : List String :=
  if cd.base = .container then [] else valItems h (classAttr h cd "NAMES")

/-- `cls(span, …)` up to (not including) the allocation of the instance `__dict__` itself. -/
def construct (cd : ClassDesc) (h : Heap) (span sub : Val) : Heap × List (String × Val) :=
  thread (stageTracer cd (spanLen h span))
    (thread (stageModel cd (classAttr h cd "ENDOGENOUS") (classAttr h cd "CHECK"))
      (thread (stageInterface cd (modelNames h cd) (spanLen h span))
        (thread (stageContainer cd (modelNames h cd) span)
          (thread (stageLinker cd sub)
            (thread (stageAlias cd) (h, []))))))

/-- `cls(span)` / `cls(submodels)`: a new instance of class number `ci`; returns its location. -/
def newInst (ci : Nat) (cd : ClassDesc) (h : Heap) (span sub : Val) : Heap × Loc :=
  match construct cd h span sub with
  | (h1, ss) => (h1 ++ [⟨.inst ci, ss⟩], h1.length)

/-! ## `copy.deepcopy` and the `copy()` methods -/

abbrev Memo := List (Loc × Loc)
abbrev Copier := Heap → Memo → Val → Option (Heap × Memo × Val)

/-- Deep-copy the values of a slot list left to right, threading heap and memo. -/
def copySlotsWith (dc : Copier) : Heap → Memo → List (String × Val) → Option (Heap × Memo × List (String × Val))
  | h, m, [] => some (h, m, [])
  | h, m, (k, v) :: ss =>
    match dc h m v with
    | none => none
    | some (h1, m1, v') =>
      match copySlotsWith dc h1 m1 ss with
      | none => none
      | some (h2, m2, ss') => some (h2, m2, (k, v') :: ss')

/-- `{k: copy.deepcopy(v) for k, v in d.items()}`: every value is deep-copied by a *separate* `deepcopy` call,
    i.e. with a fresh memo — sharing between two entries is not preserved. -/
def copyEachWith (dc : Copier) : Heap → List (String × Val) → Option (Heap × List (String × Val))
  | h, [] => some (h, [])
  | h, (k, v) :: ss =>
    match dc h [] v with
    | none => none
    | some (h1, _, v') =>
      match copyEachWith dc h1 ss with
      | none => none
      | some (h2, ss') => some (h2, (k, v') :: ss')

/-- The span handed to the constructor by `BaseLinker.copy` → `__init__`: `copy.deepcopy(base.span)` of the first
    (already copied) submodel, `[]` without submodels.  Span labels are hashable, i.e. immutable values, so the deep
    copy of a list span is a new list with the same labels.  (The entry is overwritten by the `__dict__.update`
    that follows.) -/
def linkerSpan (h : Heap) (subs : List (String × Val)) : Heap × Val :=
  match subs with
  | [] => (h ++ [⟨.list, []⟩], .ref h.length)
  | (_, v) :: _ =>
    match getObj h v with
    | none => (h, .imm .none)
    | some o =>
      match getObj h ((o.slots.lookup "span").getD (.imm .none)) with
      | some s => (h ++ [⟨s.kind, immSlots s.slots⟩], .ref h.length)
      | none =>
        match (o.slots.lookup "span").getD (.imm .none) with
        | .imm i => (h, .imm i)
        | .ref _ => (h, .imm .none)

/-- `VectorContainer.copy` / `BaseLinker.copy` of the instance object `o` of class `cd`; returns the heap and the
    new `__dict__` (not yet allocated). -/
def copyInstWith (dc : Copier) (cd : ClassDesc) (h : Heap) (o : Obj) :
    Option (Heap × List (String × Val)) :=
  if cd.base = .linker then
    -- copied = self.__class__(submodels={deepcopy(k): deepcopy(v) …}); copied.__dict__.update({k: deepcopy(v) … if k != 'submodels'})
    match getObj h ((o.slots.lookup "submodels").getD (.imm .none)) with
    | none => none
    | some d =>
      match copyEachWith dc h d.slots with
      | none => none
      | some (h1, subs) =>
        match linkerSpan (h1 ++ [⟨.dict, subs⟩]) subs with
        | (h2, sp) =>
          match construct cd h2 sp (.ref h1.length) with
          | (h3, init) =>
            match copyEachWith dc h3 (dropKey "submodels" o.slots) with
            | none => none
            | some (h4, ss) => some (h4, slotUpdate init ss)
  else
    -- copied = self.__class__(span=deepcopy(span)); copied.__dict__.update(copy.deepcopy(self.__dict__))
    match dc h [] ((o.slots.lookup "span").getD (.imm .none)) with
    | none => none
    | some (h1, _, sp) =>
      match construct cd h1 sp (.imm .none) with
      | (h2, init) =>
        -- ONE deep copy (one memo) of the whole `__dict__`: an object stored under two attributes stays one object
        match copySlotsWith dc h2 [] o.slots with
        | none => none
        | some (h3, _, ss) => some (h3, slotUpdate init ss)

/-- `copy.deepcopy(v, memo)`.  Instances define `__deepcopy__` = `self.copy()` (the memo is not passed on).
    `none` = out of fuel (cyclic heap) or dangling reference. -/
def deepcopy (cs : List ClassDesc) : Nat → Copier
  | _, h, m, .imm v => some (h, m, .imm v)
  | 0, _, _, .ref _ => none
  | n + 1, h, m, .ref l =>
    match m.lookup l with
    | some l' => some (h, m, .ref l')
    | none =>
      match h[l]? with
      | none => none
      | some o =>
        match o.kind with
        | .uncopyable => none   -- TypeError: cannot pickle / copy
        | .inst ci =>
          match cs[ci]? with
          | none => none
          | some cd =>
            match copyInstWith (deepcopy cs n) cd h o with
            | none => none
            | some (h1, ss) => some (h1 ++ [⟨.inst ci, ss⟩], (l, h1.length) :: m, .ref h1.length)
        | _ =>
          match copySlotsWith (deepcopy cs n) h m o.slots with
          | none => none
          | some (h1, m1, ss) => some (h1 ++ [⟨o.kind, ss⟩], (l, h1.length) :: m1, .ref h1.length)

/-- `a.copy()`, `copy.copy(a)` (`__copy__ = copy`) and `copy.deepcopy(a)` (`__deepcopy__` returns `self.copy()`):
    the same function.  Fuel: the heap size bounds the depth of any acyclic structure. -/
def copyRoot (cs : List ClassDesc) (h : Heap) (a : Loc) : Option (Heap × Loc) :=
  match deepcopy cs (h.length + 1) h [] (.ref a) with
  | some (h1, _, .ref c) => some (h1, c)
  | _ => none

/-- The statement `c = copy(a)` as a command: on failure (an uncopyable attribute; `none`) the exception propagates
    and the heap is what it was — nothing of the half-built copy is kept anywhere. -/
def copyCmd (cs : List ClassDesc) (h : Heap) (a : Loc) : Heap × Option Loc :=
  match copyRoot cs h a with
  | some (h1, c) => (h1, some c)
  | none => (h, none)

/-! ## Observation -/

def viewWith (f : Val → List String) : List (String × Val) → List String
  | [] => []
  | (k, v) :: ss => (k ++ "=") :: f v ++ viewWith f ss

def immStr : Imm → String
  | .str s => "'" ++ s ++ "'"
  | .int i => toString i
  | .none => "None"
  | .range n => "range(" ++ toString n ++ ")"
  | .tag s => "<" ++ s ++ ">"

def kindStr : Kind → String
  | .list => "list" | .array => "array" | .dict => "dict" | .trace => "trace" | .tuple => "tuple"
  | .uncopyable => "uncopyable"
  | .inst c => "inst" ++ toString c | .cls => "class"

/-- The value seen through `v` with all locations abstracted away (tree unfolding to depth `fuel`). -/
def view (h : Heap) : Nat → Val → List String
  | _, .imm v => [immStr v]
  | 0, .ref _ => ["…"]
  | n + 1, .ref l =>
    match h[l]? with
    | none => ["?"]
    | some o => (kindStr o.kind ++ "{") :: viewWith (view h n) o.slots ++ ["}"]

/-! ## Checkable forms of the hypotheses of the C11 theorems

Executable so that the driver can evaluate them on the heaps of the correspondence programs and the proofs can
discharge them by `decide` on concrete worlds; their soundness lemmas are in `Proofs/Lemmas/HeapCheck.lean`. -/

def ctorKeys (cd : ClassDesc) (names : List String) : List String :=
  (if cd.alias then ["aliases", "preferred_names"] else []) ++
  (if cd.base = .linker then ["submodels", "name", "_LAGS", "_LEADS"] else []) ++
  ["span", "index", "_strict", "_attributes"] ++
  (if cd.base = .container then []
   else ["dtype", "_status", "_iterations", "names"] ++ names.map (fun x => "_" ++ x) ++ ["lags", "leads"]) ++
  (if cd.base = .container then [] else ["endogenous", "check"] ++ (if cd.base = .model then ["engine"] else [])) ++
  (if cd.tracer then ["_trace"] else [])

def refsBelow (n : Nat) : List (String × Val) → Bool
  | [] => true
  | (_, .ref c) :: ss => decide (c < n) && refsBelow n ss
  | (_, .imm _) :: ss => refsBelow n ss

def wfB (h : Heap) : Bool := h.all fun o => refsBelow h.length o.slots

def noRefs (ss : List (String × Val)) : Bool := refsBelow 0 ss

/-- Every class-level attribute that is an object holds immutable entries only. -/
def classOKB (h : Heap) (cd : ClassDesc) : Bool :=
  decide (cd.attrs < h.length) &&
  match h[cd.attrs]? with
  | none => true
  | some a => a.slots.all fun kv =>
    match getObj h kv.2 with
    | none => true
    | some o => noRefs o.slots

def keysOf (o : Obj) : List String := o.slots.map Prod.fst

/-- The per-instance conditions of `WorldOK2`. -/
def instOKB (cs : List ClassDesc) (h : Heap) (o : Obj) : Bool :=
  match o.kind with
  | .inst ci =>
    decide (keysOf o).Nodup &&
    (match getObj h ((o.slots.lookup "submodels").getD (.imm .none)) with
      | none => true
      | some d => decide (d.kind = .dict)) &&
    (match cs[ci]? with
      | none => true
      | some cd =>
        (ctorKeys cd (modelNames h cd)).all fun k => decide (k ∈ keysOf o))
  | _ => true

def worldOK2B (cs : List ClassDesc) (h : Heap) : Bool :=
  wfB h && cs.all (classOKB h) && h.all (instOKB cs h)

end Fsic.Heap
