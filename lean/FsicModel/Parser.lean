import FsicModel.Generated
/-
M3 — the SYMBOL logic of `fsic/parser.py`, at the level of term lists.

The model starts where the regular expressions stop: a statement is the list of `Term`s that
`parse_equation_terms` returns plus the two strings `equation` / `code` (opaque here).  From there on it follows
the code that exists, statement for statement:

  `equationTerms`   — `parse_equation_terms` after `parse_terms`: LHS VARIABLE → ENDOGENOUS, RHS VARIABLE →
                      EXOGENOUS, the keyword / invalid check
  `combine`         — `Symbol.combine` incl. its AssertionError / SymbolError / TypeError / ParserError outcomes
  `symbolsOfTerms`  — the per-term fold at the end of `parse_equation` (Python `dict` = association list with
                      in-place re-assignment; function/variable clash = ParserError; verbatim skipped; exactly one
                      endogenous symbol with an equation, else ParserError)
  `mergeModel`      — the fold at the end of `parse_model` (`list(symbols.values()) + verbatim`)
  `buildLists`      — the four class lists, `abs(min(lags))` / `abs(max(leads))`, `lags=` / `min_lags=`
  `renderBody`      — expression selection, converter, `textwrap.indent`, `'\n\n'.join`, the `pass` fallback

Core Lean only; every definition is total and executable (the correspondence driver runs exactly these).
-/
namespace Fsic.Parser

/-! ### `Type`, `Term`, `Symbol` -/

/-- `fsic.parser.Type` (an `IntEnum`). -/
inductive TermType where
  | variable | exogenous | endogenous | parameter | error | function | keyword | verbatim | invalid
  deriving DecidableEq, Repr, Inhabited

def TermType.pyName : TermType → String
  | .variable => "VARIABLE"
  | .exogenous => "EXOGENOUS"
  | .endogenous => "ENDOGENOUS"
  | .parameter => "PARAMETER"
  | .error => "ERROR"
  | .function => "FUNCTION"
  | .keyword => "KEYWORD"
  | .verbatim => "VERBATIM"
  | .invalid => "INVALID"

def TermType.all : List TermType :=
  [.variable, .exogenous, .endogenous, .parameter, .error, .function, .keyword, .verbatim, .invalid]

def TermType.ofName? (s : String) : Option TermType := TermType.all.find? (fun t => t.pyName == s)

/-- The integer value of the enum member **as /repo declares it now** (reflected table). -/
def TermType.value (t : TermType) : Nat := (Fsic.Generated.typeValues.lookup t.pyName).getD 0

/-- `Term.index_` / `Symbol.lags` / `Symbol.leads`: `None`, an `int`, or a `str` (named period). -/
inductive Idx where
  | none | int (i : Int) | str (s : String)
  deriving DecidableEq, Repr, Inhabited

structure Term where
  name : String
  type : TermType
  index : Idx
  deriving DecidableEq, Repr

structure Symbol where
  name : Option String
  type : TermType
  lags : Idx
  leads : Idx
  equation : Option String
  code : Option String
  deriving DecidableEq, Repr

/-- Exception classes the symbol logic can raise. -/
inductive Err where
  | symbolError | parserError | typeError | assertionError
  deriving DecidableEq, Repr

/-! ### `parse_equation_terms` (after the two `parse_terms` calls) -/

/-- `replace_type`. -/
def retype (new : TermType) (t : Term) : Term :=
  if t.type = .variable then { t with type := new } else t

/-- `lhs_terms + rhs_terms`, or ParserError when the LHS holds a keyword or the RHS an INVALID term. -/
def equationTerms (lhs rhs : List Term) : Except Err (List Term) :=
  if (lhs.map (retype .endogenous)).any (fun t => t.type = .keyword)
      || (rhs.map (retype .exogenous)).any (fun t => t.type = .invalid) then .error .parserError
  else .ok (lhs.map (retype .endogenous) ++ rhs.map (retype .exogenous))

/-! ### `Symbol.combine` -/

/-- `type in (Type.VARIABLE, Type.EXOGENOUS, Type.ENDOGENOUS)`. -/
def isVarKind (t : TermType) : Bool :=
  t = .variable || t = .exogenous || t = .endogenous

/-- `max(self.type, other.type)` on the `IntEnum`: the first argument unless the second is strictly greater. -/
def promote (a b : TermType) : TermType := if a.value < b.value then b else a

def combineType (a b : TermType) : Except Err TermType :=
  if a = b then .ok a
  else if isVarKind a && isVarKind b then .ok (promote a b)
  else .error .symbolError

/-- `resolve_by_type_pair(this, that, min)`. -/
def resolveLag : Idx → Idx → Except Err Idx
  | .none, .none => .ok .none
  | .int x, .int y => .ok (.int (min (min x y) 0))
  | .str _, .str _ => .ok (.int 0)
  | .int x, .str _ => .ok (.int x)
  | .str _, .int y => .ok (.int y)
  | _, _ => .error .typeError

/-- `resolve_by_type_pair(this, that, max)`. -/
def resolveLead : Idx → Idx → Except Err Idx
  | .none, .none => .ok .none
  | .int x, .int y => .ok (.int (max (max x y) 0))
  | .str _, .str _ => .ok (.int 0)
  | .int x, .str _ => .ok (.int x)
  | .str _, .int y => .ok (.int y)
  | _, _ => .error .typeError

/-- `resolve_strings(old, new)`. -/
def resolveStr : Option String → Option String → Except Err (Option String)
  | some o, some n => if o = n then .ok (some o) else .error .parserError
  | none, some n => .ok (some n)
  | o, none => .ok o

/-- `self.combine(other)`: the checks run in the order of the code (assert, type, lags, leads, equation, code). -/
def combine (a b : Symbol) : Except Err Symbol :=
  if a.name = b.name then
    match combineType a.type b.type with
    | .error e => .error e
    | .ok t =>
      match resolveLag a.lags b.lags with
      | .error e => .error e
      | .ok l =>
        match resolveLead a.leads b.leads with
        | .error e => .error e
        | .ok d =>
          match resolveStr a.equation b.equation with
          | .error e => .error e
          | .ok q =>
            match resolveStr a.code b.code with
            | .error e => .error e
            | .ok c => .ok ⟨a.name, t, l, d, q, c⟩
  else .error .assertionError

/-! ### Python `dict` keyed by the symbol's own name, as an association list in insertion order -/

/-- `symbols.get(name)`. -/
def findSym (k : Option String) : List Symbol → Option Symbol
  | [] => none
  | x :: xs => if x.name = k then some x else findSym k xs

/-- `symbols[s.name] = s`: an existing key keeps its slot, a new key goes last. -/
def setSym (s : Symbol) : List Symbol → List Symbol
  | [] => [s]
  | x :: xs => if x.name = s.name then s :: xs else x :: setSym s xs

/-- `symbols[name] = symbols.get(name, symbol).combine(symbol)` — note that a first occurrence is combined
    with itself (which is what turns an index into `min(i, 0)` / `max(i, 0)`, and a string index into 0). -/
def addSym (d : List Symbol) (s : Symbol) : Except Err (List Symbol) :=
  match combine ((findSym s.name d).getD s) s with
  | .ok c => .ok (setSym c d)
  | .error e => .error e

/-- Left fold that stops at the first exception. -/
def foldE {σ α ε} (f : σ → α → Except ε σ) : σ → List α → Except ε σ
  | s, [] => .ok s
  | s, x :: xs =>
    match f s x with
    | .ok s' => foldE f s' xs
    | .error e => .error e

def mapE {α β ε} (f : α → Except ε β) : List α → Except ε (List β)
  | [] => .ok []
  | x :: xs =>
    match f x with
    | .error e => .error e
    | .ok y =>
      match mapE f xs with
      | .error e => .error e
      | .ok ys => .ok (y :: ys)

/-! ### The symbol fold at the end of `parse_equation` -/

/-- The `Symbol(...)` built for one term (with `equation`/`code` attached iff the term is ENDOGENOUS). -/
def termSymbol (equation code : String) (t : Term) : Symbol :=
  ⟨some t.name, t.type, t.index, t.index,
   if t.type = .endogenous then some equation else none,
   if t.type = .endogenous then some code else none⟩

structure EqState where
  symbols : List Symbol
  functions : List Symbol
  deriving Repr

def stepTerm (equation code : String) (st : EqState) (t : Term) : Except Err EqState :=
  if t.type = .verbatim then .ok st
  else if t.type = .function then
    match findSym (some t.name) st.functions with
    | some f =>
      -- `assert symbol == functions[name]`  (the bare function symbol never carries equation/code)
      if f = ⟨some t.name, t.type, t.index, t.index, none, none⟩ then .ok st else .error .assertionError
    | none =>
      match findSym (some t.name) st.symbols with
      -- `elif name in symbols`: a variable of the same name would be overwritten — ParserError
      | some _ => .error .parserError
      | none =>
        .ok ⟨setSym ⟨some t.name, t.type, t.index, t.index, none, none⟩ st.symbols,
             st.functions ++ [⟨some t.name, t.type, t.index, t.index, none, none⟩]⟩
  else
    match findSym (some t.name) st.functions with
    -- `if name in functions`: a variable named like a function called in the same statement — ParserError
    | some _ => .error .parserError
    | none =>
      match addSym st.symbols (termSymbol equation code t) with
      | .ok d => .ok ⟨d, st.functions⟩
      | .error e => .error e

/-- `s.type == Type.ENDOGENOUS and s.equation is not None`. -/
def isDefined (s : Symbol) : Bool := s.type = .endogenous && s.equation.isSome

/-- `list(symbols.values())` of `parse_equation` for a non-verbatim statement; ParserError unless exactly one
    symbol is an endogenous variable carrying the equation. -/
def symbolsOfTerms (equation code : String) (terms : List Term) : Except Err (List Symbol) :=
  match foldE (stepTerm equation code) ⟨[], []⟩ terms with
  | .ok st => if (st.symbols.filter isDefined).length = 1 then .ok st.symbols else .error .parserError
  | .error e => .error e

/-! ### The merge at the end of `parse_model` -/

structure MState where
  symbols : List Symbol
  verbatim : List Symbol
  deriving Repr

def stepMerge (st : MState) (s : Symbol) : Except Err MState :=
  match s.name with
  | none => .ok ⟨st.symbols, st.verbatim ++ [s]⟩
  | some _ =>
    match addSym st.symbols s with
    | .ok d => .ok ⟨d, st.verbatim⟩
    | .error e => .error e

/-- `list(symbols.values()) + verbatim` from `itertools.chain(*symbols_by_equation)`. -/
def mergeModel (groups : List (List Symbol)) : Except Err (List Symbol) :=
  match foldE stepMerge ⟨[], []⟩ groups.flatten with
  | .ok st => .ok (st.symbols ++ st.verbatim)
  | .error e => .error e

/-- A statement as the symbol logic sees it. -/
inductive Stmt where
  /-- an equation: its terms (from `parse_equation_terms`) and the normalised `equation` / `code` strings -/
  | eqn (terms : List Term) (equation code : String)
  /-- a verbatim statement (starts and ends with a backtick): one nameless VERBATIM symbol -/
  | verb (equation code : String)
  deriving Repr

def stmtSymbols : Stmt → Except Err (List Symbol)
  | .eqn ts e c => symbolsOfTerms e c ts
  | .verb e c => .ok [⟨none, .verbatim, .none, .none, some e, some c⟩]

/-- `parse_model` from the statement list on (syntax check aside). -/
def parseModel (script : List Stmt) : Except Err (List Symbol) :=
  match mapE stmtSymbols script with
  | .ok groups => mergeModel groups
  | .error e => .error e

/-! ### `build_model_definition`: lists and lag/lead lengths -/

def namesOfType (ty : TermType) (syms : List Symbol) : List (Option String) :=
  (syms.filter (fun s => s.type = ty)).map (·.name)

/-- `s.type not in (Type.FUNCTION, Type.KEYWORD, Type.VERBATIM)`. -/
def isIndexed (ty : TermType) : Bool := !(ty = .function || ty = .keyword || ty = .verbatim)

def nonIndexed (syms : List Symbol) : List Symbol := syms.filter (fun s => isIndexed s.type)

/-- The integers of a list of lags/leads; `none` if one of them is `None` or a `str`
    (then `min`/`max`/`abs` raise TypeError). -/
def allInts : List Idx → Option (List Int)
  | [] => some []
  | .int i :: xs => (allInts xs).map (i :: ·)
  | _ :: _ => none

def minList : Int → List Int → Int
  | m, [] => m
  | m, x :: xs => minList (min m x) xs

def maxList : Int → List Int → Int
  | m, [] => m
  | m, x :: xs => maxList (max m x) xs

def absInt (i : Int) : Int := if i < 0 then -i else i

/-- `abs(min(s.lags for s in non_indexed_symbols))`, 0 when there is none. -/
def autoLags (syms : List Symbol) : Except Err Int :=
  match allInts ((nonIndexed syms).map (·.lags)) with
  | none => .error .typeError
  | some [] => .ok 0
  | some (x :: xs) => .ok (absInt (minList x xs))

/-- `abs(max(s.leads for s in non_indexed_symbols))`, 0 when there is none. -/
def autoLeads (syms : List Symbol) : Except Err Int :=
  match allInts ((nonIndexed syms).map (·.leads)) with
  | none => .error .typeError
  | some [] => .ok 0
  | some (x :: xs) => .ok (absInt (maxList x xs))

/-- `lags=`: given → used as is; `None` → `max(auto, min_lags)`. -/
def finalLen (explicit : Option Int) (auto : Except Err Int) (minimum : Int) : Except Err Int :=
  match explicit with
  | some l => .ok l
  | none =>
    match auto with
    | .ok a => .ok (max a minimum)
    | .error e => .error e

structure BuildOpts where
  lags : Option Int := none
  leads : Option Int := none
  minLags : Int := 0
  minLeads : Int := 0
  deriving Repr

structure Lists where
  endogenous : List (Option String)
  exogenous : List (Option String)
  parameters : List (Option String)
  errors : List (Option String)
  /-- `NAMES = ENDOGENOUS + EXOGENOUS + PARAMETERS + ERRORS` (class body of the template). -/
  names : List (Option String)
  /-- `CHECK = ENDOGENOUS`. -/
  check : List (Option String)
  lags : Int
  leads : Int
  deriving DecidableEq, Repr

def buildLists (syms : List Symbol) (o : BuildOpts) : Except Err Lists :=
  match finalLen o.lags (autoLags syms) o.minLags with
  | .error e => .error e
  | .ok lags =>
    match finalLen o.leads (autoLeads syms) o.minLeads with
    | .error e => .error e
    | .ok leads =>
      .ok { endogenous := namesOfType .endogenous syms, exogenous := namesOfType .exogenous syms,
            parameters := namesOfType .parameter syms, errors := namesOfType .error syms,
            names := namesOfType .endogenous syms ++ namesOfType .exogenous syms
                      ++ namesOfType .parameter syms ++ namesOfType .error syms,
            check := namesOfType .endogenous syms, lags := lags, leads := leads }

/-! ### `build_model_definition`: the body of `_evaluate` -/

/-- Symbols that contribute code: ENDOGENOUS or VERBATIM with both `equation` and `code`. -/
def carriesCode (s : Symbol) : Bool :=
  (s.type = .endogenous || s.type = .verbatim) && s.equation.isSome && s.code.isSome

def selected (syms : List Symbol) : List Symbol := syms.filter carriesCode

/-- Characters at which `str.splitlines` breaks a line (besides the pair `\r\n`). -/
def isLineBreak (c : Char) : Bool :=
  c = '\n' || c = '\r' || c = '\x0b' || c = '\x0c' || c = '\x1c' || c = '\x1d' || c = '\x1e'
    || c = '\u0085' || c = '\u2028' || c = '\u2029'

/-- `str.isspace` for one character (what `line.strip()` removes). -/
def isPySpace (c : Char) : Bool :=
  (9 ≤ c.toNat && c.toNat ≤ 13) || (28 ≤ c.toNat && c.toNat ≤ 32) || c.toNat = 0x85 || c.toNat = 0xa0
    || c.toNat = 0x1680 || (0x2000 ≤ c.toNat && c.toNat ≤ 0x200a) || c.toNat = 0x2028 || c.toNat = 0x2029
    || c.toNat = 0x202f || c.toNat = 0x205f || c.toNat = 0x3000

/-- `text.splitlines(True)`; `cur` is the current line, reversed. -/
def splitLinesKeep : List Char → List Char → List (List Char)
  | [], cur => if cur.isEmpty then [] else [cur.reverse]
  | '\r' :: '\n' :: rest, cur => ('\n' :: '\r' :: cur).reverse :: splitLinesKeep rest []
  | c :: rest, cur =>
    if isLineBreak c then (c :: cur).reverse :: splitLinesKeep rest [] else splitLinesKeep rest (c :: cur)

/-- `text.splitlines()`. -/
def splitLines (text : List Char) : List (List Char) :=
  (splitLinesKeep text []).map (fun l => l.filter (fun c => !isLineBreak c))

/-- `textwrap.indent(text, prefix)`: lines consisting solely of whitespace are left alone. -/
def indentWith (pre : List Char) (text : List Char) : List Char :=
  ((splitLinesKeep text []).map (fun l => if l.all isPySpace then l else pre ++ l)).flatten

def indent8 (text : String) : String := String.ofList (indentWith (List.replicate 8 ' ') text.toList)

/-- `default_converter`: the equation as comment lines, then the code. -/
def defaultConverter (s : Symbol) : String :=
  "\n".intercalate ((splitLines (s.equation.getD "").toList).map (fun l => "# " ++ String.ofList l))
    ++ "\n" ++ s.code.getD ""

/-- The text substituted for `{equations}`. -/
def renderBody (converter : Symbol → String) (syms : List Symbol) : String :=
  if ("\n\n".intercalate ((selected syms).map (fun s => indent8 (converter s)))).isEmpty then "        pass"
  else "\n\n".intercalate ((selected syms).map (fun s => indent8 (converter s)))

end Fsic.Parser
