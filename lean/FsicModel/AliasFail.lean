import FsicModel.Alias
/-
M8 (alias part), error paths — the whole instance behind `AliasMixin` and the operations that can FAIL.

`FsicModel/Alias.lean` models the four wrapped accessors on a `Store` with the alias map as a parameter.  Here the
alias map, the preferred names and the name list are *fields of the state* (`Obj`), so that "a failed operation
leaves them alone" is a statement about the model and not a consequence of how it is typed, and the operations
outside the four accessors that have an error path through the public API are added, branch for branch:

* `obj.name = v` with `strict=True` and an unknown name (`VectorContainer.__setattr__`): the error path calls
  `self.get_closest_match(name)`, which READS `self.names` (`ModelInterface.get_closest_match`: `possibilities =
  self.names`) and raises `AttributeError` — `NotImplementedError` when several names tie;
* `obj.eval(expr)` (`VectorContainer.eval`): `locals` are the builtins and `{x: self[x] for x in self.index}`; an
  undefined name is a `NameError`, whose handler again calls `self.get_closest_match(name)` and raises
  `AttributeError`.  `eval` is not alias-aware: an alias spelled in the expression is an undefined name;
* `obj.add_variable(n, v)` (`ModelInterface.add_variable` → `VectorContainer.add_variable`): refused with
  `DuplicateNameError` if `n` is a variable, an attribute, or if `'_' + n` is a key of `__dict__` (63202e2); the
  value is cast and length-checked *before* anything is stored; only then `__dict__['_' + n]`, `index.append`,
  `names.append`.  The mixin does not wrap it: the name is taken literally;
* `obj.preferred_names = l` at run time: through `AliasMixin.__setattr__` → `VectorContainer.__setattr__`; the mixin
  put `preferred_names` into `__dict__` directly, so it is not in `_attributes` and `strict=True` rejects the
  assignment (until a non-strict assignment has listed it);
* `obj.to_dataframe(use_aliases=…)`: the labels; `ValueError` on ambiguous preferences (`exportCols`);
* `obj.get_closest_match(n)`.

What NumPy does with a value, `difflib`, `'_' + name` and the string order are parameters (`Env`).
Core Lean only, total, executable.
-/
namespace Fsic.Alias

variable {α : Type} [DecidableEq α] {V P : Type}

/-- Exception classes of the paths added here (the accessors keep their `Err`). -/
inductive XErr where
  | attributeError        -- strict rejection, undefined name in `eval`
  | notImplementedError   -- strict rejection, several closest matches
  | duplicateNameError    -- `add_variable`
  | dimensionError        -- `add_variable`: wrong length
  | valueError            -- `add_variable`: NumPy could not cast; export: ambiguous preferences
  deriving DecidableEq, Repr

/-- The instance: container state, `self.names`, and what the mixin keeps. -/
structure Obj (α V P : Type) where
  store : Store α V P        -- `_strict`; `index` + series; `_attributes` with their values
  names : List α             -- `self.names`
  aliases : AMap α           -- `self.aliases`
  pref : List α              -- `self.preferred_names`
  prefListed : Bool          -- `'preferred_names' in self._attributes`

structure Env (α V P : Type) where
  E : ValOps α V P
  /-- `get_closest_match(name, possibilities=…)`: `difflib` on the lower-cased names, all spellings of the winner. -/
  closest : List α → α → List α
  /-- `'_' + name`. -/
  us : α → α
  /-- `np.array(value).flatten()` / `np.full(len(span), value)`, `.astype(dtype)`, length check. -/
  newSeries : P → Except XErr V
  le : α → α → Bool
  /-- `name.startswith('_')` (columns left out of the default export of a model; a plain container: nothing). -/
  internal : α → Bool
  /-- `status`, `iterations` (a model) / nothing (a plain container). -/
  tail : List α
  /-- the name `preferred_names` -/
  prefName : α

inductive XOp (α P : Type) where
  | acc (op : Op α P)                    -- one of the four wrapped accessors, `replace_values`, raw storage code
  | eval (free : List α)                 -- `obj.eval(expr)`; `free` = the names the expression loads, in order
  | addVariable (n : α) (v : P)          -- `obj.add_variable(n, v)`
  | setPref (l : List α)                 -- `obj.preferred_names = l`
  | export (useAliases : Bool)           -- `obj.to_dataframe(use_aliases=…)`: the labels
  | closestMatch (n : α)                 -- `obj.get_closest_match(n)`

inductive XRes (α V P : Type) where
  | acc (r : Res V P)
  | ok
  | labels (l : List α)
  | fail (e : XErr)

def XRes.failed : XRes α V P → Bool
  | .acc (.err _) => true
  | .fail _ => true
  | _ => false

/-- `replace_values` is a loop of assignments: the ones before the failing key survive. -/
def XOp.isBulk : XOp α P → Bool
  | .acc (.replaceValues _) => true
  | _ => false

/-- Operations that only look. -/
def XOp.isRead : XOp α P → Bool
  | .acc (.getAttr _) => true
  | .acc (.getItem _) => true
  | .acc (.getAt _ _) => true
  | .eval _ => true
  | .export _ => true
  | .closestMatch _ => true
  | _ => false

def XOp.mapName (f : α → α) : XOp α P → XOp α P
  | .acc op => .acc (op.mapName f)
  | other => other

/-- `self.get_closest_match(name)` with the default `possibilities = self.names`: a function of the name list. -/
def suggest (env : Env α V P) (o : Obj α V P) (n : α) : List α := env.closest o.names n

/-- The guard of the error branch of `VectorContainer.__setattr__`:
    `self._strict and name not in index and name not in _attributes`. -/
def strictRejects (s : Store α V P) (n : α) : Bool :=
  s.strict && (lookup s.vars n).isNone && decide (n ∉ s.attrNames)

/-- `len(alternatives) > 1` ⇒ `NotImplementedError`, else `AttributeError` (with or without a suggestion). -/
def strictError (env : Env α V P) (o : Obj α V P) (n : α) : XErr :=
  if (suggest env o n).length > 1 then .notImplementedError else .attributeError

/-- The keys of `__dict__` that matter for `'_' + name in self.__dict__`: attributes and the storage of variables. -/
def dictKeys (env : Env α V P) (s : Store α V P) : List α := s.attrNames ++ s.index.map env.us

def accStep (env : Env α V P) (o : Obj α V P) (op : Op α P) : Obj α V P × XRes α V P :=
  ({ o with store := (aliased env.E o.aliases o.store op).1 }, .acc (aliased env.E o.aliases o.store op).2)

/-- Labels of `to_dataframe()`: the names (internal ones left out), then the solution columns. -/
def frameLabels (env : Env α V P) (o : Obj α V P) : List α :=
  (o.names.filter fun x => !env.internal x) ++ env.tail

/-- The checks and the cast of `add_variable`, all of which come before the first store. -/
def addVariableCheck (env : Env α V P) (s : Store α V P) (n : α) (v : P) : Except XErr V :=
  if n ∈ s.index ∨ n ∈ s.attrNames ∨ env.us n ∈ dictKeys env s then .error .duplicateNameError
  else env.newSeries v

def addVariableStep (env : Env α V P) (o : Obj α V P) (n : α) (v : P) : Obj α V P × XRes α V P :=
  match addVariableCheck env o.store n v with
  | .error e => (o, .fail e)
  | .ok ser =>
    ({ o with store := { o.store with vars := o.store.vars ++ [(n, ser)] }, names := o.names ++ [n] }, .ok)

/-- `eval`: the first name that is neither a builtin nor in `index` is a `NameError`; its handler calls
    `self.get_closest_match(name)` (for the message only) and raises `AttributeError`. -/
def evalRes (s : Store α V P) (free : List α) : XRes α V P :=
  match free.find? fun x => decide (x ∉ s.index) with
  | some _ => .fail .attributeError
  | none => .ok

/-- Labels of `to_dataframe(use_aliases=…)` or the `ValueError`. -/
def exportRes (env : Env α V P) (o : Obj α V P) (useAliases : Bool) : XRes α V P :=
  if useAliases then
    match exportCols env.le o.aliases o.pref ((frameLabels env o).map fun c => (c, ())) with
    | none => .fail .valueError
    | some out => .labels (out.map Prod.fst)
  else .labels (frameLabels env o)

def xstep (env : Env α V P) (o : Obj α V P) : XOp α P → Obj α V P × XRes α V P
  | .acc (.setAttr n p) =>
    if strictRejects o.store (resolve o.aliases n) then (o, .fail (strictError env o (resolve o.aliases n)))
    else accStep env o (.setAttr n p)
  | .acc op => accStep env o op
  | .eval free => (o, evalRes o.store free)
  | .addVariable n v => addVariableStep env o n v
  | .setPref l =>
    if o.store.strict && !o.prefListed then (o, .fail (strictError env o env.prefName))
    else ({ o with pref := l, prefListed := true }, .ok)
  | .export ua => (o, exportRes env o ua)
  | .closestMatch n => (o, .labels (suggest env o n))

/-- A history: the final instance and every result, in order. -/
def xrun (env : Env α V P) : Obj α V P → List (XOp α P) → Obj α V P × List (XRes α V P)
  | o, [] => (o, [])
  | o, op :: ops => ((xrun env (xstep env o op).1 ops).1, (xstep env o op).2 :: (xrun env (xstep env o op).1 ops).2)

/-- The same instance without the mixin: no alias, no preferred names. -/
def Obj.plain (o : Obj α V P) : Obj α V P := { o with aliases := [], pref := [], prefListed := false }

/-- `self._resolve_alias(n)`. -/
def Obj.resolve (o : Obj α V P) (n : α) : α := Alias.resolve o.aliases n

end Fsic.Alias
