import FsicModel.Basic
/-
M1 — the per-period solver of `fsic.core.models.BaseModel.solve_t`, the multi-period driver
`SolverMixin.solve` / `solve_period` of `fsic.core.interfaces`, written branch for branch.

Everything the solver does *to the model* goes through an interpretation `Interp σ V`:
  σ  — whatever the model instance holds (its series, hook counters, a trace, …)
  V  — the vector of convergence-check values of one period
so the theorems in `Proofs/` hold for every model, every hook behaviour and every float semantics.
A pass or hook that raises returns `(state after, true)`: stores made before the raise survive.
-/
namespace Fsic

structure Opts where
  minIter : Int := 0
  maxIter : Int := 100
  offset : Int := 0
  /-- `failures == 'raise'` (the code tests only this; every other string behaves like 'ignore'). -/
  failRaise : Bool := true
  errors : ErrMode := .raise
  catchFirst : Bool := true
  deriving Repr, DecidableEq

structure Interp (σ V : Type) where
  /-- the instance's `lags` / `leads` attributes (copied from `LAGS` / `LEADS` at construction). -/
  lags : Nat
  leads : Nat
  /-- `get_check_values()` at period index `t`. -/
  check : σ → Int → V
  /-- `not np.any(~np.isfinite(v))`. -/
  allFinite : V → Bool
  /-- `np.all(np.abs(cur - prev) < tol)` as `close cur prev`. -/
  close : V → V → Bool
  /-- `v[~np.isfinite(v)] = 0.0` on the solver's local copy. -/
  zeroNF : V → V
  /-- `for name in self.endogenous: self._name[t] = self._name[t + offset]`. -/
  copyOffset : σ → Int → Int → σ
  before : Opts → σ → Int → σ × Bool
  eval : Opts → σ → Int → Nat → σ × Bool
  after : Opts → σ → Int → Nat → σ × Bool

/-- The shipped convergence test over an array of check values, `np.all(near(cur, prev))`: *every* position is
    `near` its previous value (the driver instantiates `near c p := |c - p| < tol`). -/
def closeBy {α : Type} (near : α → α → Bool) (cur prev : Array α) : Bool :=
  (cur.toList.zip prev.toList).all fun (c, p) => near c p

/-- `not np.any(~np.isfinite(v))` over an array of check values. -/
def allFiniteBy {α : Type} (fin : α → Bool) (v : Array α) : Bool := v.toList.all fin

structure World (σ : Type) where
  user : σ
  status : List Status
  iters : List Int
  deriving DecidableEq, Repr

inductive Result where
  | ret (solved : Bool)
  | valueError                      -- min_iter > max_iter
  | indexError                      -- period without room for the lags/leads, or offset outside the span
  | solutionError (chained : Bool)  -- chained = raised `from` another exception
  | nonConvergence
  | badErrorsArg                    -- ValueError: invalid `errors` argument met a non-finite value
  deriving DecidableEq, Repr

/-- How the `for iteration in range(1, max_iter + 1)` loop ends. `k` is always the value of `iteration`. -/
inductive LoopOut (σ : Type) where
  | done (u : σ) (s : Status) (k : Nat)   -- `break`, or the `else` clause (s = failed)
  | evalRaised (u : σ) (k : Nat)
  | nonFinite (u : σ) (k : Nat)           -- errors = 'raise' met a newly non-finite check value
  | afterRaised (u : σ) (k : Nat)
  | badErrors (u : σ) (k : Nat)

/-- The iteration loop.  `fuel` = iterations still allowed, `k` = value of `iteration` for the next pass,
    `prev` = `current_values` on entry to the pass (it becomes `previous_values`). -/
def loop {σ V} (I : Interp σ V) (o : Opts) (t : Int) : Nat → Nat → σ → V → LoopOut σ
  | 0, k, u, _ => .done u .failed (k - 1)
  | fuel + 1, k, u, prev =>
    match I.eval o u t k with
    | (u', true) => .evalRaised u' k
    | (u', false) =>
      if I.allFinite prev = false then loop I o t fuel (k + 1) u' (I.check u' t)
      else if I.allFinite (I.check u' t) = false then
        match o.errors with
        | .raise => .nonFinite u' k
        | .skip => .done u' .skipped k
        | .ignore =>
          if (k : Int) = o.maxIter then .done u' .failed k
          else loop I o t fuel (k + 1) u' (I.check u' t)
        | .replace =>
          if (k : Int) = o.maxIter then .done u' .failed k
          else loop I o t fuel (k + 1) u' (I.zeroNF (I.check u' t))
        | .invalid => .badErrors u' k
      else if (k : Int) < o.minIter then loop I o t fuel (k + 1) u' (I.check u' t)
      else if I.close (I.check u' t) prev = true then
        match I.after o u' t k with
        | (u'', true) => .afterRaised u'' k
        | (u'', false) => .done u'' .solved k
      else loop I o t fuel (k + 1) u' (I.check u' t)

/-- `t_check`: the period position used for the offset range test. -/
def normT (n : Nat) (t : Int) : Int := if t < 0 then t + n else t

/-- `self.status[t] = s; self.iterations[t] = k`. -/
def stamp {σ} (w : World σ) (n : Nat) (t : Int) (s : Status) (k : Int) : World σ :=
  match pyIndex n t with
  | some i => { w with status := setAt w.status i s, iters := setAt w.iters i k }
  | none => w

def withUser {σ} (w : World σ) (u : σ) : World σ := { w with user := u }

/-- Bookkeeping after the loop. -/
def finish {σ} (o : Opts) (n : Nat) (t : Int) (w : World σ) : LoopOut σ → World σ × Result
  | .done u s k =>
    (stamp (withUser w u) n t s k,
     if s = .failed ∧ o.failRaise = true then .nonConvergence else .ret (decide (s = .solved)))
  | .evalRaised u k =>
    (if o.errors = .raise then stamp (withUser w u) n t .error k else withUser w u, .solutionError true)
  | .nonFinite u k => (stamp (withUser w u) n t .error k, .solutionError false)
  | .afterRaised u _ => (withUser w u, .solutionError true)
  | .badErrors u _ => (withUser w u, .badErrorsArg)

/-- State handed to `solve_t_before`: the offset copy applied when `offset` is non-zero. -/
def seed {σ V} (I : Interp σ V) (o : Opts) (t : Int) (u : σ) : σ :=
  if o.offset ≠ 0 then I.copyOffset u t o.offset else u

/-- After the up-front checks: pre-existing non-finite test, pre-hook, loop, bookkeeping. -/
def solveCore {σ V} (I : Interp σ V) (o : Opts) (n : Nat) (t : Int) (w : World σ) (u1 : σ) :
    World σ × Result :=
  if o.errors = .raise ∧ I.allFinite (I.check u1 t) = false then (withUser w u1, .solutionError false)
  else
    match I.before o u1 t with
    | (u2, true) => (withUser w u2, .solutionError true)
    | (u2, false) => finish o n t w (loop I o t o.maxIter.toNat 1 u2 (I.check u1 t))

/-- `BaseModel.solve_t(t, **opts)` for `-n ≤ t < n`. -/
def solveT {σ V} (I : Interp σ V) (o : Opts) (n : Nat) (t : Int) (w : World σ) : World σ × Result :=
  if o.minIter > o.maxIter then (w, .valueError)
  else if normT n t - I.lags < 0 ∨ normT n t + I.leads ≥ n then (w, .indexError)
  else if o.offset ≠ 0 ∧ normT n t + o.offset < 0 then (w, .indexError)
  else if o.offset ≠ 0 ∧ normT n t + o.offset ≥ n then (w, .indexError)
  else solveCore I o n t w (seed I o t w.user)

/-! ### `solve()` and `solve_period()` -/

/-- What `_locate_period_in_span(label)` can give: a plain `int` position, something else
    (slice, NumPy integer, …), or KeyError. -/
inductive Loc where
  | pos (i : Nat) | other | missing
  deriving DecidableEq, Repr

inductive SolveResult where
  | ok (positions : List Nat) (flags : List Bool)
  | err (r : Result) (donePositions : List Nat) (doneFlags : List Bool)
  | keyError
  | emptySpan          -- SolutionError: no periods to solve
  | spanIndexError     -- span[lags] / span[-1 - leads] outside the span
  deriving DecidableEq, Repr

/-- The period loop of `solve()`: solve each position in turn; the first exception stops it. -/
def solveList {σ V} (I : Interp σ V) (o : Opts) (n : Nat) :
    List Nat → World σ → List Nat → List Bool → World σ × SolveResult
  | [], w, ps, fs => (w, .ok ps.reverse fs.reverse)
  | p :: rest, w, ps, fs =>
    match solveT I o n (p : Int) w with
    | (w', .ret b) => solveList I o n rest w' (p :: ps) (b :: fs)
    | (w', r) => (w', .err r ps.reverse fs.reverse)

/-- `range(start, end + 1)` as a list of positions. -/
def periodRange (s e : Nat) : List Nat := (List.range (e + 1 - s)).map (· + s)

/-- Resolve an optional start/end: `none` = argument not given. -/
def resolveBound (given : Option Loc) (dflt : Option Nat) : Except SolveResult Nat :=
  match given with
  | some (.pos i) => .ok i
  | some .other => .error .keyError
  | some .missing => .error .keyError
  | none => match dflt with
    | some i => .ok i
    | none => .error .spanIndexError

/-- `SolverMixin.solve(start=, end=, **opts)` at the level of positions (labels are resolved by `Loc`). -/
def solve {σ V} (I : Interp σ V) (o : Opts) (n lags leads : Nat) (start stop : Option Loc)
    (w : World σ) : World σ × SolveResult :=
  if o.minIter > o.maxIter then (w, .err .valueError [] [])
  else if start = some .other ∨ start = some .missing then (w, .keyError)
  else if stop = some .other ∨ stop = some .missing then (w, .keyError)
  else if n = 0 then (w, .emptySpan)
  else
    match resolveBound start (if lags < n then some lags else none),
          resolveBound stop (if leads < n then some (n - 1 - leads) else none) with
    | .ok s, .ok e => solveList I o n (periodRange s e) w [] []
    | .error r, _ => (w, r)
    | _, .error r => (w, r)

/-- `solve_period(label)`. -/
def solvePeriod {σ V} (I : Interp σ V) (o : Opts) (n : Nat) (l : Loc) (w : World σ) :
    World σ × Option Result :=
  match l with
  | .pos i => ((solveT I o n i w).1, some (solveT I o n i w).2)
  | _ => (w, none)   -- KeyError

/-! ### Call logging and projections between interpretations -/

inductive Event where
  | before | eval (k : Nat) | after (k : Nat)
  deriving DecidableEq, Repr

/-- The same model with every solver-initiated call recorded. -/
def logged {σ V} (I : Interp σ V) : Interp (σ × List Event) V where
  lags := I.lags
  leads := I.leads
  check u t := I.check u.1 t
  allFinite := I.allFinite
  close := I.close
  zeroNF := I.zeroNF
  copyOffset u t off := (I.copyOffset u.1 t off, u.2)
  before o u t := (((I.before o u.1 t).1, u.2 ++ [.before]), (I.before o u.1 t).2)
  eval o u t k := (((I.eval o u.1 t k).1, u.2 ++ [.eval k]), (I.eval o u.1 t k).2)
  after o u t k := (((I.after o u.1 t k).1, u.2 ++ [.after k]), (I.after o u.1 t k).2)

def LoopOut.map {σ τ} (f : σ → τ) : LoopOut σ → LoopOut τ
  | .done u s k => .done (f u) s k
  | .evalRaised u k => .evalRaised (f u) k
  | .nonFinite u k => .nonFinite (f u) k
  | .afterRaised u k => .afterRaised (f u) k
  | .badErrors u k => .badErrors (f u) k

def World.map {σ τ} (f : σ → τ) (w : World σ) : World τ :=
  { user := f w.user, status := w.status, iters := w.iters }

/-! ### Tracing (`fsic.extensions.model.TracerMixin`) -/

inductive TraceLabel where
  | start | before | iter (k : Nat) | «end»
  deriving DecidableEq, Repr

/-- `trace_t`: append the labelled snapshot, or — with `reset=True` — replace the period's trace by it. -/
def recordSnap {S} (reset : Bool) (l : List (TraceLabel × S)) (x : TraceLabel × S) : List (TraceLabel × S) :=
  if reset then [x] else l ++ [x]

/-- A tracer-extended model: the state gains the trace of the period being solved (a list of labelled
    snapshots); `snap u t` is the column `trace_t` extracts.  With `on = false` nothing is recorded. -/
def traced {σ V S} (I : Interp σ V) (snap : σ → Int → S) (on reset : Bool) :
    Interp (σ × List (TraceLabel × S)) V where
  lags := I.lags
  leads := I.leads
  check u t := I.check u.1 t
  allFinite := I.allFinite
  close := I.close
  zeroNF := I.zeroNF
  copyOffset u t off := (I.copyOffset u.1 t off, u.2)
  before o u t :=
    match I.before o u.1 t with
    | (u', true) => ((u', if on then recordSnap reset u.2 (.before, snap u.1 t) else u.2), true)
    | (u', false) =>
      ((u', if on then recordSnap reset (recordSnap reset u.2 (.before, snap u.1 t)) (.iter 0, snap u' t) else u.2),
       false)
  eval o u t k :=
    match I.eval o u.1 t k with
    | (u', true) => ((u', u.2), true)
    | (u', false) => ((u', if on then recordSnap reset u.2 (.iter k, snap u' t) else u.2), false)
  after o u t k :=
    match I.after o u.1 t k with
    | (u', true) => ((u', u.2), true)
    | (u', false) => ((u', if on then recordSnap reset u.2 (.«end», snap u' t) else u.2), false)

/-- `TracerMixin.solve_t`: the `start` snapshot, then the parent's `solve_t`. -/
def tracedSolveT {σ V S} (I : Interp σ V) (snap : σ → Int → S) (on reset : Bool) (o : Opts) (n : Nat) (t : Int)
    (w : World (σ × List (TraceLabel × S))) : World (σ × List (TraceLabel × S)) × Result :=
  solveT (traced I snap on reset) o n t
    (if on then withUser w (w.user.1, recordSnap reset w.user.2 (.start, snap w.user.1 t)) else w)

end Fsic
