import FsicModel.Solver
/-
M1b — `fsic.core.linkers.BaseLinker.solve_t`, written branch for branch.

The linker's iteration loop is the single-model `loop` (FsicModel/Solver.lean) run on the composite
interpretation `asInterp`: one "evaluation pass" = linker pre-hook, one pass of every *selected* submodel in
selection order (each followed by `submodel.iterations[t] += 1`), linker post-hook.  What differs from a model:
no non-finite handling at all (`allFinite ≡ true`), exceptions propagate unwrapped and stamp nothing, no
`min_iter > max_iter` test in `solve_t` itself, an unknown submodel id raises KeyError, and the final status is
stamped on the linker and on every selected submodel.
-/
namespace Fsic

structure LInterp (σ V Id : Type) where
  /-- `id in self.submodels`. -/
  known : Id → Bool
  /-- `get_check_values()`: the linker's own check vector and those of the selected submodels. -/
  check : σ → List Id → Int → V
  /-- every `|current - previous| < tol` (all linker and selected-submodel check variables). -/
  close : V → V → Bool
  /-- seed the linker's and the selected submodels' endogenous variables at `t` from `t + offset`. -/
  copyOffset : σ → List Id → Int → Int → σ
  /-- `submodel.iterations[t] = 0`. -/
  resetIter : σ → Id → Int → σ
  /-- `submodel.iterations[t] += 1`. -/
  bumpIter : σ → Id → Int → σ
  /-- `submodel.status[t] = status`. -/
  stampSub : σ → Id → Int → Status → σ
  solveBefore : Opts → σ → List Id → Int → σ × Bool
  evalBefore : Opts → σ → List Id → Int → Nat → σ × Bool
  /-- `submodel._evaluate(t, …)` of one submodel. -/
  evalSub : Opts → σ → Id → Int → Nat → σ × Bool
  evalAfter : Opts → σ → List Id → Int → Nat → σ × Bool
  solveAfter : Opts → σ → List Id → Int → Nat → σ × Bool

variable {σ V Id : Type}

/-- `evaluate_t`: the selected submodels, in selection order; an exception stops the sweep. -/
def evalSubs (L : LInterp σ V Id) (o : Opts) (t : Int) (k : Nat) : List Id → σ → σ × Bool
  | [], u => (u, false)
  | i :: rest, u =>
    match L.evalSub o u i t k with
    | (u', true) => (u', true)
    | (u', false) => evalSubs L o t k rest (L.bumpIter u' i t)

/-- One linker iteration: pre-hook, submodels, post-hook. -/
def linkerPass (L : LInterp σ V Id) (o : Opts) (sel : List Id) (t : Int) (k : Nat) (u : σ) : σ × Bool :=
  match L.evalBefore o u sel t k with
  | (u1, true) => (u1, true)
  | (u1, false) =>
    match evalSubs L o t k sel u1 with
    | (u2, true) => (u2, true)
    | (u2, false) => L.evalAfter o u2 sel t k

/-- The linker seen as a single model whose "evaluation pass" is `linkerPass`. -/
def asInterp (L : LInterp σ V Id) (sel : List Id) : Interp σ V where
  lags := 0     -- the linker's solve_t has no feasibility test; only `loop` is run on this interpretation
  leads := 0
  check u t := L.check u sel t
  allFinite _ := true
  close := L.close
  zeroNF v := v
  copyOffset u t off := L.copyOffset u sel t off
  before o u t := L.solveBefore o u sel t
  eval o u t k := linkerPass L o sel t k u
  after o u t k := L.solveAfter o u sel t k

/-- The loop that zeroes the selected submodels' iteration counters; `true` = an unknown id was met (KeyError),
    the counters of the ids before it having been reset already. -/
def resetAll (L : LInterp σ V Id) (t : Int) : List Id → σ → σ × Bool
  | [], u => (u, false)
  | i :: rest, u => if L.known i = true then resetAll L t rest (L.resetIter u i t) else (u, true)

def stampSubs (L : LInterp σ V Id) (t : Int) (s : Status) : List Id → σ → σ
  | [], u => u
  | i :: rest, u => stampSubs L t s rest (L.stampSub u i t s)

inductive LResult where
  | ret (solved : Bool)
  | keyError
  | indexError
  | nonConvergence
  | raised            -- an exception from a hook or a submodel pass, propagated as it is
  deriving DecidableEq, Repr

def lfinish (L : LInterp σ V Id) (o : Opts) (n : Nat) (t : Int) (sel : List Id) (w : World σ) :
    LoopOut σ → World σ × LResult
  | .done u s k =>
    (stamp (withUser w (stampSubs L t s sel u)) n t s k,
     if s = .failed ∧ o.failRaise = true then .nonConvergence else .ret (decide (s = .solved)))
  | .evalRaised u _ => (withUser w u, .raised)
  | .afterRaised u _ => (withUser w u, .raised)
  | .nonFinite u _ => (withUser w u, .raised)   -- unreachable: `allFinite ≡ true`
  | .badErrors u _ => (withUser w u, .raised)   -- unreachable

/-- After the offset block: read the starting check values, reset counters, pre-hook, loop, stamps. -/
def lCore (L : LInterp σ V Id) (o : Opts) (n : Nat) (t : Int) (sel : List Id) (w : World σ) (u1 : σ) :
    World σ × LResult :=
  match resetAll L t sel u1 with
  | (u2, true) => (withUser w u2, .keyError)
  | (u2, false) =>
    match L.solveBefore o u2 sel t with
    | (u3, true) => (withUser w u3, .raised)
    | (u3, false) =>
      lfinish L o n t sel w (loop (asInterp L sel) o t o.maxIter.toNat 1 u3 (L.check u1 sel t))

/-- `BaseLinker.solve_t(t, submodels=sel, **opts)` for `-n ≤ t < n` (`sel` = all ids in insertion order when the
    argument is None). -/
def lSolveT (L : LInterp σ V Id) (o : Opts) (n : Nat) (t : Int) (sel : List Id) (w : World σ) :
    World σ × LResult :=
  if o.offset ≠ 0 then
    if sel.any (fun i => !L.known i) = true then (w, .keyError)
    else if normT n t + o.offset < 0 ∨ normT n t + o.offset ≥ n then (w, .indexError)
    else lCore L o n t sel w (L.copyOffset w.user sel t o.offset)
  else lCore L o n t sel w w.user

/-! ### Construction: lags/leads and span agreement -/

/-- `lags = base.LAGS; for each other: lags = max(lags, other.LAGS)`; 0 without submodels. -/
def linkerExtent : List Nat → Nat
  | [] => 0
  | b :: rest => rest.foldl max b

/-- `comparator.span != base.span` for any submodel ⇒ InitialisationError. -/
def spansAgree {Lbl : Type} [DecidableEq Lbl] : List (List Lbl) → Bool
  | [] => true
  | b :: rest => rest.all (fun s => decide (s = b))

/-- Every linker-initiated call, for the iteration-shape statements. -/
inductive LEvent (Id : Type) where
  | solveBefore | evalBefore (k : Nat) | sub (i : Id) (k : Nat) | evalAfter (k : Nat) | solveAfter (k : Nat)
  deriving DecidableEq, Repr

def llogged (L : LInterp σ V Id) : LInterp (σ × List (LEvent Id)) V Id where
  known := L.known
  check u sel t := L.check u.1 sel t
  close := L.close
  copyOffset u sel t off := (L.copyOffset u.1 sel t off, u.2)
  resetIter u i t := (L.resetIter u.1 i t, u.2)
  bumpIter u i t := (L.bumpIter u.1 i t, u.2)
  stampSub u i t s := (L.stampSub u.1 i t s, u.2)
  solveBefore o u sel t := (((L.solveBefore o u.1 sel t).1, u.2 ++ [.solveBefore]), (L.solveBefore o u.1 sel t).2)
  evalBefore o u sel t k := (((L.evalBefore o u.1 sel t k).1, u.2 ++ [.evalBefore k]), (L.evalBefore o u.1 sel t k).2)
  evalSub o u i t k := (((L.evalSub o u.1 i t k).1, u.2 ++ [.sub i k]), (L.evalSub o u.1 i t k).2)
  evalAfter o u sel t k := (((L.evalAfter o u.1 sel t k).1, u.2 ++ [.evalAfter k]), (L.evalAfter o u.1 sel t k).2)
  solveAfter o u sel t k := (((L.solveAfter o u.1 sel t k).1, u.2 ++ [.solveAfter k]), (L.solveAfter o u.1 sel t k).2)

end Fsic
