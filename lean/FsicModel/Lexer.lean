import FsicModel.Generated
/-
M2 — the TEXT level of `fsic/parser.py`.  Core Lean only, total, executable, structural recursion everywhere
(no well-founded recursion: a scanner position that is inside a match is skipped by a counter, so every
definition reduces under `decide`/`rfl`).

  `scanTerms`        = `term_re.finditer` (leftmost-first alternation at each position)
  `splitStatements`  = `split_equations_iter` (comment strip, fence state, parenthesis counter, `equation_re`)
  `normaliseWs`      = the three `re.sub` whitespace normalisations of `parse_equation`
  `pyInt`, `indexOf` = the four index cases of `process_term_match`
  `termStr`/`termCode` = `Term.__str__` / `Term.code`
  `pyFormat`         = `str.format` with automatic / manual positional fields (anything fancier = `unmodelled`)
  `parseEquationText`= `parse_equation` up to `(terms, equation, code)` or an error class
  `parseScript`      = the statement loop of `parse_model` (without the syntax check and the symbol merge)

Domain: strings of code points ≤ U+00FF for `\w`/`\b` (`isWordU` is Python's `\w` on Latin-1; above U+00FF the
model says "not a word character", which is wrong for letters there — recorded as an assumption and excluded
from the correspondence alphabet).  `isSpace`, `isLineBreak` are complete for all of Unicode.
-/
namespace Fsic.Lx
open Fsic.Generated

/-! ## Character classes -/

def inR (c : Char) (lo hi : Nat) : Bool := decide (lo ≤ c.toNat) && decide (c.toNat ≤ hi)

/-- Python `str.isspace` = `\s` of `re` on `str` = what `str.strip()` removes. -/
def isSpace (c : Char) : Bool :=
  inR c 9 13 || inR c 28 32 || c.toNat == 133 || c.toNat == 160 || c.toNat == 5760 || inR c 8192 8202
  || c.toNat == 8232 || c.toNat == 8233 || c.toNat == 8239 || c.toNat == 8287 || c.toNat == 12288

/-- Line boundaries of `str.splitlines()` (`\r\n` is handled as a pair by `splitLines`). -/
def isLineBreak (c : Char) : Bool :=
  inR c 10 13 || inR c 28 30 || c.toNat == 133 || c.toNat == 8232 || c.toNat == 8233

/-- `[_A-Za-z]` -/
def isIdStart (c : Char) : Bool := c.toNat == 95 || inR c 65 90 || inR c 97 122
/-- `[_A-Za-z0-9]` -/
def isIdChar (c : Char) : Bool := isIdStart c || inR c 48 57
/-- `[_A-Za-z0-9.]` -/
def isFnChar (c : Char) : Bool := isIdChar c || c.toNat == 46
/-- `\w` of `re` on `str`, for code points ≤ U+00FF (see the file header). -/
def isWordU (c : Char) : Bool :=
  isIdChar c || c.toNat == 170 || c.toNat == 178 || c.toNat == 179 || c.toNat == 181 || c.toNat == 185
  || c.toNat == 186 || inR c 188 190 || inR c 192 214 || inR c 216 246 || inR c 248 255

/-! ## List helpers -/

def consFst {α β : Type} (x : α) (p : List α × β) : List α × β := (x :: p.1, p.2)

def spanP (p : Char → Bool) : List Char → List Char × List Char
  | [] => ([], [])
  | c :: cs => if p c then consFst c (spanP p cs) else ([], c :: cs)

def stripPrefix : List Char → List Char → Option (List Char)
  | [], s => some s
  | _ :: _, [] => none
  | k :: ks, c :: cs => if k == c then stripPrefix ks cs else none

def lstrip (s : List Char) : List Char := s.dropWhile isSpace
def rstrip (s : List Char) : List Char := (s.reverse.dropWhile isSpace).reverse
def strip (s : List Char) : List Char := rstrip (lstrip s)

def startsWith (p s : List Char) : Bool := (stripPrefix p s).isSome
def endsWith (p s : List Char) : Bool := startsWith p.reverse s.reverse

/-! ## `term_re` -/

inductive Kind where
  | verbatim | invalid | keyword | function | parameter | error | variable
  deriving DecidableEq, Repr, Inhabited

/-- One alternative's result at a position: kind, name group, raw INDEX group, length consumed. -/
structure M where
  kind : Kind
  name : List Char
  index : Option (List Char)
  len : Nat
  deriving DecidableEq, Repr

/-- A match of `term_re.finditer`: group that matched, its text, raw INDEX text, span. -/
structure RawMatch where
  kind : Kind
  name : List Char
  index : Option (List Char)
  start : Nat
  stop : Nat
  deriving DecidableEq, Repr

def notTickNl (c : Char) : Bool := c != '`' && c != '\n'
def notRBr (c : Char) : Bool := c != ']'
def notRBrNl (c : Char) : Bool := c != ']' && c != '\n'

/-- `` [`] (.+?) [`] ``: the first inner character may be anything but a newline (also a backtick). -/
def verbClose (c1 : Char) : List Char × List Char → Option M
  | (body, '`' :: _) => some ⟨.verbatim, '`' :: c1 :: (body ++ ['`']), none, body.length + 3⟩
  | _ => none

def verbAt : List Char → Option M
  | '`' :: c1 :: r => if c1 == '\n' then none else verbClose c1 (spanP notTickNl r)
  | _ => none

/-- After a keyword: `\s* \[ .*? \]` (first `]`, no newline before it). Returns the length consumed. -/
def invalidClose (n : Nat) : List Char × List Char → Option Nat
  | (body, ']' :: _) => some (n + body.length + 2)
  | _ => none

def invalidOpen (n : Nat) : List Char × List Char → Option Nat
  | (ws, '[' :: r2) => invalidClose (n + ws.length) (spanP notRBrNl r2)
  | _ => none

def invalidTail (kwLen : Nat) (rest : List Char) : Option Nat := invalidOpen kwLen (spanP isSpace rest)

def invalidLen : List (List Char) → List Char → Option Nat
  | [], _ => none
  | kw :: kws, s =>
    match stripPrefix kw s with
    | some rest =>
      match invalidTail kw.length rest with
      | some n => some n
      | none => invalidLen kws s
    | none => invalidLen kws s

def invalidAt (kws : List (List Char)) (s : List Char) : Option M :=
  match invalidLen kws s with
  | some n => some ⟨.invalid, s.take n, none, n⟩
  | none => none

/-- `\b` after a keyword: end of string or a non-word character. -/
def kwBoundary : List Char → Bool
  | [] => true
  | c :: _ => !isWordU c

def keywordName : List (List Char) → List Char → Option (List Char)
  | [], _ => none
  | kw :: kws, s =>
    match stripPrefix kw s with
    | some rest => if kwBoundary rest then some kw else keywordName kws s
    | none => keywordName kws s

/-- `\b kw \b`; `prevWord` = the character before this position is a word character. -/
def keywordAt (kws : List (List Char)) (prevWord : Bool) (s : List Char) : Option M :=
  if prevWord then none else
  match keywordName kws s with
  | some kw => some ⟨.keyword, kw, none, kw.length⟩
  | none => none

/-- `[_A-Za-z][_A-Za-z0-9.]* \s* (?= \( )` -/
def fnLook (name : List Char) : List Char × List Char → Option M
  | (ws, '(' :: _) => some ⟨.function, name, none, name.length + ws.length⟩
  | _ => none

def fnRun (p : List Char × List Char) : Option M := fnLook p.1 (spanP isSpace p.2)

def functionAt : List Char → Option M
  | c :: cs => if isIdStart c then fnRun (spanP isFnChar (c :: cs)) else none
  | [] => none

/-- `\[ \s* (?P<INDEX> .*? ) \s* \]`: closes at the first `]`; the index text is what lies between the leading
    whitespace and that `]`, right-stripped, and must not contain a newline. -/
def idxClose (n : Nat) : List Char × List Char → Option (List Char × Nat)
  | (t, ']' :: _) => if (rstrip t).elem '\n' then none else some (rstrip t, n + t.length + 2)
  | _ => none

def idxOpen (p : List Char × List Char) : Option (List Char × Nat) := idxClose p.1.length (spanP notRBr p.2)

def indexPart : List Char → Option (List Char × Nat)
  | '[' :: r => idxOpen (spanP isSpace r)
  | _ => none

def withIndexR (kind : Kind) (name : List Char) (base : Nat) : Option (List Char × Nat) → M
  | some (ix, n) => ⟨kind, name, some ix, base + n⟩
  | none => ⟨kind, name, none, base⟩

def withIndex (kind : Kind) (name : List Char) (base : Nat) (rest : List Char) : M :=
  withIndexR kind name base (indexPart rest)

/-- `o \s* name \s* c` + optional index, for `{ }` and `< >`. -/
def brFin (c : Char) (kind : Kind) (name : List Char) (n : Nat) : List Char × List Char → Option M
  | (ws, x :: r4) => if x == c then some (withIndex kind name (n + ws.length + 1) r4) else none
  | (_, []) => none

def brClose (c : Char) (kind : Kind) (n : Nat) (q : List Char × List Char) : Option M :=
  brFin c kind q.1 (n + q.1.length) (spanP isSpace q.2)

def brName (c : Char) (kind : Kind) : List Char × List Char → Option M
  | (ws, x :: r) => if isIdStart x then brClose c kind (1 + ws.length) (spanP isIdChar (x :: r)) else none
  | (_, []) => none

def brAt (o c : Char) (kind : Kind) : List Char → Option M
  | d :: r => if d == o then brName c kind (spanP isSpace r) else none
  | [] => none

def varRun (p : List Char × List Char) : M := withIndex .variable p.1 p.1.length p.2

def variableAt : List Char → Option M
  | c :: cs => if isIdStart c then some (varRun (spanP isIdChar (c :: cs))) else none
  | [] => none

/-- The alternation of `term_re` at one position, in pattern order. -/
def matchAtK (kws : List (List Char)) (prevWord : Bool) (s : List Char) : Option M :=
  (verbAt s).or <| (invalidAt kws s).or <| (keywordAt kws prevWord s).or <| (functionAt s).or <|
  (brAt '{' '}' .parameter s).or <| (brAt '<' '>' .error s).or <| variableAt s

def matchAt (prevWord : Bool) (s : List Char) : Option M := matchAtK keywordChars prevWord s

def M.at (m : M) (pos : Nat) : RawMatch := ⟨m.kind, m.name, m.index, pos, pos + m.len⟩

/-- `finditer`: `skip` = characters still inside the previous match. -/
def scanGo : Nat → Bool → Nat → List Char → List RawMatch
  | _, _, _, [] => []
  | skip + 1, _, pos, c :: cs => scanGo skip (isWordU c) (pos + 1) cs
  | 0, pw, pos, c :: cs =>
    match matchAt pw (c :: cs) with
    | some m => m.at pos :: scanGo (m.len - 1) (isWordU c) (pos + 1) cs
    | none => scanGo 0 (isWordU c) (pos + 1) cs

def scanTerms (s : List Char) : List RawMatch := scanGo 0 false 0 s

/-! ## `split_equations_iter` -/

def consHead (c : Char) : List (List Char) → List (List Char)
  | [] => [[c]]
  | l :: ls => (c :: l) :: ls

/-- `str.splitlines()` -/
def splitLines : List Char → List (List Char)
  | [] => []
  | '\r' :: '\n' :: cs => [] :: splitLines cs
  | c :: cs => if isLineBreak c then [] :: splitLines cs else consHead c (splitLines cs)

/-- `line[:line.find('#')].rstrip()` when there is a `#`, else the line unchanged. -/
def stripComment (line : List Char) : List Char :=
  if line.elem '#' then rstrip (spanP (· != '#') line).1 else line

/-- Parenthesis counter over one line; `none` = the count went negative (ParserError at once). -/
def parenCount : Nat → List Char → Option Nat
  | d, [] => some d
  | d, '(' :: cs => parenCount (d + 1) cs
  | 0, ')' :: _ => none
  | d + 1, ')' :: cs => parenCount d cs
  | d, _ :: cs => parenCount d cs

/-- `$` under MULTILINE. -/
def atEol : List Char → Bool
  | [] => true
  | c :: _ => c == '\n'

/-- some `)` followed by end-of-line -/
def hasCloseEol : List Char → Bool
  | [] => false
  | c :: cs => (c == ')' && atEol cs) || hasCloseEol cs

/-- three backticks followed by end-of-line, somewhere -/
def hasFenceEol : List Char → Bool
  | [] => false
  | c :: cs => (startsWith ['`', '`', '`'] (c :: cs) && atEol (cs.drop 2)) || hasFenceEol cs

/-- alternative 1 at a line start: ``^ [`]{3,} \n .*? [`]{3,} $`` -/
def alt1Tail : List Char × List Char → Bool
  | (ticks, '\n' :: r) => decide (3 ≤ ticks.length) && hasFenceEol r
  | _ => false
def alt1 (s : List Char) : Bool := alt1Tail (spanP (· == '`') s)

/-- text after the first `=` -/
def afterEq : List Char → Option (List Char)
  | [] => none
  | c :: cs => if c == '=' then some cs else afterEq cs

/-- alternative 2: `^ \( .*? [=] .*? \) $` -/
def alt2 : List Char → Bool
  | '(' :: r => match afterEq r with
    | some t => hasCloseEol t
    | none => false
  | _ => false

/-- `\s* =` then `post` -/
def eqThen (post : List Char → Bool) : List Char × List Char → Bool
  | (_, '=' :: r) => post r
  | _ => false

/-- `\S+? \s* [=]` then `post`, the position being after at least one non-space character. -/
def lhsGo (post : List Char → Bool) : List Char → Bool
  | [] => false
  | c :: cs =>
    if isSpace c then eqThen post (spanP isSpace (c :: cs))
    else (c == '=' && post cs) || lhsGo post cs

def lhsThen (post : List Char → Bool) : List Char → Bool
  | [] => false
  | c :: cs => !isSpace c && lhsGo post cs

def parenPost (r : List Char) : Bool :=
  match (spanP isSpace r).2 with
  | '(' :: t => hasCloseEol t
  | _ => false

/-- alternative 3: `^ \S+? \s* [=] \s* \( .*? \) $` -/
def alt3 (s : List Char) : Bool := lhsThen parenPost s
/-- alternative 4: `^ \S+? \s* [=] \s* .*? $` -/
def alt4 (s : List Char) : Bool := lhsThen (fun _ => true) s

def eqAlt (s : List Char) : Bool := alt1 s || alt2 s || alt3 s || alt4 s

/-- `equation_re.search(s) is not None` (MULTILINE: every line start is tried). -/
def eqSearchGo : Bool → List Char → Bool
  | _, [] => false
  | ls, c :: cs => (ls && eqAlt (c :: cs)) || eqSearchGo (c == '\n') cs

def eqSearch (s : List Char) : Bool := eqSearchGo true s

def joinLines (ls : List (List Char)) : List Char := List.intercalate ['\n'] ls

inductive SplitEnd where
  | ok | parserError | indentationError
  deriving DecidableEq, Repr, Inhabited

/-- Line-buffer automaton: unmatched parentheses, inside an open fence, buffered lines. -/
structure SplitState where
  depth : Nat
  inFence : Bool
  buf : List (List Char)
  deriving DecidableEq, Repr

def SplitState.init : SplitState := ⟨0, false, []⟩

def isFenceLine (line : List Char) : Bool := startsWith ['`', '`', '`'] line

/-- What a complete buffer yields: `none` = blank (skipped), `some (ok stmt)` or an error. -/
def completeStmt (eq : List Char) : Option (Except SplitEnd (List Char)) :=
  if strip eq == [] then none
  else if eqSearch eq then some (.ok eq)
  else if eqSearch (strip eq) then some (.error .indentationError)
  else some (.error .parserError)

/-- What one (raw) line does to the automaton. -/
inductive LineOut where
  | next (st : SplitState)        -- keep buffering (or: a blank buffer was dropped and the automaton reset)
  | emit (eq : List Char)         -- a complete statement is yielded, the automaton resets
  | stop (e : SplitEnd)           -- an error is raised
  deriving DecidableEq, Repr

def finishLine (eq : List Char) : LineOut :=
  match completeStmt eq with
  | none => .next .init
  | some (.ok e) => .emit e
  | some (.error e) => .stop e

def countLine (st : SplitState) (line : List Char) : LineOut :=
  match parenCount st.depth line with
  | none => .stop .parserError
  | some d =>
    if d == 0 && !(st.inFence && !isFenceLine line) then finishLine (joinLines (st.buf ++ [line]))
    else .next ⟨d, st.inFence && !isFenceLine line, st.buf ++ [line]⟩

/-- `line` is already comment-stripped. An opening fence (first line of the buffer) skips the parenthesis count. -/
def lineStepS (st : SplitState) (line : List Char) : LineOut :=
  if isFenceLine line && st.buf.isEmpty then .next ⟨st.depth, true, [line]⟩ else countLine st line

def lineStep (st : SplitState) (raw : List Char) : LineOut := lineStepS st (stripComment raw)

def splitGo : SplitState → List (List Char) → List (List Char) × SplitEnd
  | st, [] => ([], if st.inFence then .parserError else if st.depth != 0 then .parserError else .ok)
  | st, raw :: rest =>
    match lineStep st raw with
    | .next st' => splitGo st' rest
    | .emit eq => consFst eq (splitGo .init rest)
    | .stop e => ([], e)

/-- Statements yielded by `split_equations_iter` before it stops, and how it stops. -/
def splitStatements (s : List Char) : List (List Char) × SplitEnd := splitGo .init (splitLines s)

/-! ## Whitespace normalisation -/

/-- `re.sub(r'\s+', ' ', ·)` -/
def collapseWs : List Char → List Char
  | [] => []
  | c :: cs =>
    if isSpace c then
      match cs with
      | d :: _ => if isSpace d then collapseWs cs else ' ' :: collapseWs cs
      | [] => [' ']
    else c :: collapseWs cs

/-- `re.sub(r'\(\s+', '(', ·)`; `drop` = the previous character was `(` or dropped whitespace after one. -/
def afterOpenGo : Bool → List Char → List Char
  | _, [] => []
  | drop, c :: cs =>
    if drop && isSpace c then afterOpenGo true cs
    else c :: afterOpenGo (c == '(') cs

def afterOpen (s : List Char) : List Char := afterOpenGo false s

/-- `re.sub(r'\s+\)', ')', ·)`, from the right: `drop` = the next kept character is `)`. -/
def bcStep (c : Char) (r : List Char × Bool) : List Char × Bool :=
  if isSpace c && r.2 then r else (c :: r.1, c == ')')

def beforeCloseGo : List Char → List Char × Bool
  | [] => ([], false)
  | c :: cs => bcStep c (beforeCloseGo cs)

def beforeClose (s : List Char) : List Char := (beforeCloseGo s).1

def normaliseWs (s : List Char) : List Char := beforeClose (afterOpen (collapseWs s))

/-! ## Index, `Term.__str__`, `Term.code` -/

def digitVal (c : Char) : Nat := c.toNat - 48
def isDigit (c : Char) : Bool := inR c 48 57

/-- digits with single underscores between digits; `prevDigit` = an underscore is allowed here. -/
def digitsGo : Bool → Nat → List Char → Option Nat
  | pd, acc, [] => if pd then some acc else none
  | pd, acc, c :: cs =>
    if isDigit c then digitsGo true (acc * 10 + digitVal c) cs
    else if c == '_' && pd then
      match cs with
      | d :: _ => if isDigit d then digitsGo false acc cs else none
      | [] => none
    else none

def pyIntBody : List Char → Option Int
  | '-' :: cs => (digitsGo false 0 cs).map fun n => -(n : Int)
  | '+' :: cs => (digitsGo false 0 cs).map fun n => (n : Int)
  | cs => (digitsGo false 0 cs).map fun n => (n : Int)

/-- CPython's guard against quadratic conversions: more than `sys.get_int_max_str_digits()` digit characters
    (underscores and the sign do not count) is a ValueError. -/
def tooManyDigits (s : List Char) : Bool :=
  intMaxStrDigits != 0 && decide (intMaxStrDigits < (s.filter isDigit).length)

/-- Python `int(str)` in base 10 (ASCII digits). -/
def pyInt (s : List Char) : Option Int := if tooManyDigits (strip s) then none else pyIntBody (strip s)

inductive Index where
  | int (i : Int)
  | str (s : List Char)
  | none          -- functions and keywords carry no index
  deriving DecidableEq, Repr

structure Term where
  kind : Kind
  name : List Char
  index : Index
  deriving DecidableEq, Repr

def quoted (q : Char) (s : List Char) : Bool := startsWith [q] s && endsWith [q] s

/-- The four index cases of `process_term_match`; outer `none` = ParserError. -/
def indexOf (kind : Kind) (raw : Option (List Char)) : Option Index :=
  if kind == .function || kind == .keyword then some .none else
  match raw with
  | none => some (.int 0)
  | some ix =>
    if quoted '\'' ix || quoted '"' ix then some (.str ix)
    else if quoted '`' ix then some (.str ((ix.drop 1).take (ix.length - 2)))
    else match pyInt ix with
      | some i => some (.int i)
      | none => none

def natDigits (n : Nat) : List Char := (Nat.toDigits 10 n)

def termStr (t : Term) : List Char :=
  match t.index with
  | .none => t.name
  | .int i =>
    if t.kind == .function || t.kind == .keyword || t.kind == .verbatim then t.name
    else if i > 0 then t.name ++ ['[', 't', '+'] ++ natDigits i.toNat ++ [']']
    else if i == 0 then t.name ++ ['[', 't', ']']
    else t.name ++ ['[', 't', '-'] ++ natDigits (-i).toNat ++ [']']
  | .str s =>
    if t.kind == .function || t.kind == .keyword || t.kind == .verbatim then t.name
    else t.name ++ ['['] ++ s ++ [']']

def lookupRepl : List (List Char × List Char) → List Char → List Char
  | [], n => n
  | (k, v) :: kvs, n => if k == n then v else lookupRepl kvs n

def stripTicks (s : List Char) : List Char :=
  ((s.dropWhile (· == '`')).reverse.dropWhile (· == '`')).reverse

def termCodeK (repl : List (List Char × List Char)) (t : Term) : List Char :=
  if t.kind == .function || t.kind == .keyword then lookupRepl repl (termStr t)
  else if t.kind == .verbatim then stripTicks (termStr t)
  else match t.index with
    | .str s => ['s', 'e', 'l', 'f', '[', '\''] ++ t.name ++ ['\'', ',', ' '] ++ s ++ [']']
    | _ => ['s', 'e', 'l', 'f', '.', '_'] ++ termStr t

def termCode (t : Term) : List Char := termCodeK replacementChars t

/-! ## `str.format` -/

inductive Piece where
  | lit (c : Char)
  | field (name : List Char)   -- `{name}`; the empty name is the automatic field `{}`
  | bad                         -- ValueError of the template parser
  | unmodelled                  -- attribute / item access, conversion or format spec
  deriving DecidableEq, Repr

/-- Template parser; `fld = some acc` while inside a replacement field (name so far, reversed). -/
def fmtPieces : Option (List Char) → List Char → List Piece
  | none, [] => []
  | none, '{' :: '{' :: cs => .lit '{' :: fmtPieces none cs
  | none, '{' :: cs => fmtPieces (some []) cs
  | none, '}' :: '}' :: cs => .lit '}' :: fmtPieces none cs
  | none, '}' :: _ => [.bad]
  | none, c :: cs => .lit c :: fmtPieces none cs
  | some _, [] => [.bad]
  | some acc, c :: cs =>
    if c == '}' then .field acc.reverse :: fmtPieces none cs
    else if c == '{' then [.bad]
    else if c == '[' || c == '.' || c == ':' || c == '!' then [.unmodelled]
    else fmtPieces (some (c :: acc)) cs

inductive Numbering where
  | unset | auto (next : Nat) | manual
  deriving DecidableEq, Repr

inductive Fmt where
  | ok (s : List Char)
  | fail          -- ValueError / IndexError / KeyError
  | unmodelled
  deriving DecidableEq, Repr

def Fmt.prepend (p : List Char) : Fmt → Fmt
  | .ok s => .ok (p ++ s)
  | f => f

def allDigits (s : List Char) : Bool := !s.isEmpty && s.all isDigit
def decVal (s : List Char) : Nat := s.foldl (fun a c => a * 10 + digitVal c) 0

def fmtRun (args : List (List Char)) : Numbering → List Piece → Fmt
  | _, [] => .ok []
  | nb, .lit c :: ps => (fmtRun args nb ps).prepend [c]
  | _, .bad :: _ => .fail
  | _, .unmodelled :: _ => .unmodelled
  | nb, .field name :: ps =>
    if name.isEmpty then
      match nb with
      | .manual => .fail
      | .unset => match args[0]? with
        | some a => (fmtRun args (.auto 1) ps).prepend a
        | none => .fail
      | .auto k => match args[k]? with
        | some a => (fmtRun args (.auto (k + 1)) ps).prepend a
        | none => .fail
    else if allDigits name then
      match nb with
      | .auto _ => .fail
      | _ => match args[decVal name]? with
        | some a => (fmtRun args .manual ps).prepend a
        | none => .fail
    else .fail

/-- `template.format(*args)` for string arguments. -/
def pyFormat (template : List Char) (args : List (List Char)) : Fmt :=
  fmtRun args .unset (fmtPieces none template)

/-! ## `parse_equation` up to (terms, equation, code) -/

/-- Replace every match span by `{}` (the reversed-order replacement of the code, done in one forward pass). -/
def templateGo : Nat → Nat → List RawMatch → List Char → List Char
  | _, _, _, [] => []
  | skip + 1, pos, ms, _ :: cs => templateGo skip (pos + 1) ms cs
  | 0, pos, [], c :: cs => c :: templateGo 0 (pos + 1) [] cs
  | 0, pos, m :: ms, c :: cs =>
    if pos == m.start then '{' :: '}' :: templateGo (m.stop - m.start - 1) (pos + 1) ms cs
    else c :: templateGo 0 (pos + 1) (m :: ms) cs

def template (s : List Char) : List Char := templateGo 0 0 (scanTerms s) s

inductive PErr where
  | parserError | indentationError | symbolError
  | formatFailure     -- ValueError / IndexError / KeyError out of `str.format` (unreachable: `Proofs.C13`)
  deriving DecidableEq, Repr, Inhabited

/-- `parse_terms`: every match becomes a term; a bad index is a ParserError. -/
def termsOf : List RawMatch → Option (List Term)
  | [] => some []
  | m :: ms =>
    match indexOf m.kind m.index with
    | some ix => (termsOf ms).map fun ts => ⟨m.kind, m.name, ix⟩ :: ts
    | none => none

def splitAtEq : List Char → Option (List Char × List Char)
  | [] => none
  | c :: cs =>
    if c == '=' then some ([], cs)
    else (splitAtEq cs).map fun p => (c :: p.1, p.2)

def hasKind (k : Kind) (ts : List Term) : Bool := ts.any fun t => t.kind == k

/-- `parse_equation_terms`: (lhs terms, rhs terms); a missing `=` is a ParserError (checked first). -/
def equationTerms (s : List Char) : Except PErr (List Term × List Term) :=
  match splitAtEq s with
  | none => .error .parserError
  | some (l, r) =>
    match termsOf (scanTerms l) with
    | none => .error .parserError
    | some lt =>
      match termsOf (scanTerms r) with
      | none => .error .parserError
      | some rt =>
        if hasKind .keyword lt || hasKind .invalid rt then .error .parserError
        else .ok (lt, rt)

def braceNet : Int → List Char → Int
  | n, [] => n
  | n, c :: cs => braceNet (if c == '{' then n + 1 else if c == '}' then n - 1 else n) cs

/-- The statement with every match span removed (`outside` in `parse_equation`). -/
def outsideGo : Nat → Nat → List RawMatch → List Char → List Char
  | _, _, _, [] => []
  | skip + 1, pos, ms, _ :: cs => outsideGo skip (pos + 1) ms cs
  | 0, pos, [], c :: cs => c :: outsideGo 0 (pos + 1) [] cs
  | 0, pos, m :: ms, c :: cs =>
    if pos == m.start then outsideGo (m.stop - m.start - 1) (pos + 1) ms cs
    else c :: outsideGo 0 (pos + 1) (m :: ms) cs

def outside (s : List Char) : List Char := outsideGo 0 0 (scanTerms s) s

def isBrace (c : Char) : Bool := c == '{' || c == '}'

def stripFence (s : List Char) : List Char :=
  ((s.dropWhile fun c => c == '`' || c == '\r' || c == '\n').reverse.dropWhile
    fun c => c == '`' || c == '\r' || c == '\n').reverse

/-! ### The symbol loop of `parse_equation`, as far as its outcome class goes
    (the symbols themselves are M3, `FsicModel/Parser.lean`). -/

/-- `Type` of the symbol a term gives rise to (functions are kept apart, verbatim terms are skipped). -/
inductive SymT where
  | endo | exo | param | error | keyword | invalid
  deriving DecidableEq, Repr

def SymT.varLike : SymT → Bool
  | .endo | .exo => true
  | _ => false

/-- `Symbol.combine` on the types: equal types stay; endogenous/exogenous promote to endogenous (`max`);
    anything else is a SymbolError (`none`). -/
def SymT.combine (a b : SymT) : Option SymT :=
  if a == b then some a else if a.varLike && b.varLike then some .endo else none

def symTOf (lhs : Bool) : Kind → SymT
  | .variable => if lhs then .endo else .exo
  | .parameter => .param
  | .error => .error
  | .keyword => .keyword
  | _ => .invalid

def lookupSym : List (List Char × SymT) → List Char → Option SymT
  | [], _ => none
  | (k, v) :: kvs, n => if k == n then some v else lookupSym kvs n

def setSym : List (List Char × SymT) → List Char → SymT → List (List Char × SymT)
  | [], n, v => [(n, v)]
  | (k, w) :: kvs, n, v => if k == n then (k, v) :: kvs else (k, w) :: setSym kvs n v

/-- The loop over the terms: `syms` = the non-function entries of `symbols`, `funcs` = `functions`. -/
def symLoop : List (List Char × SymT) → List (List Char) → List (Bool × Term) → Except PErr (List (List Char × SymT))
  | syms, _, [] => .ok syms
  | syms, funcs, (lhs, t) :: ts =>
    if t.kind == .verbatim then symLoop syms funcs ts
    else if t.kind == .function then
      (if funcs.elem t.name then symLoop syms funcs ts
       else if (lookupSym syms t.name).isSome then .error .parserError
       else symLoop syms (t.name :: funcs) ts)
    else if funcs.elem t.name then .error .parserError
    else match lookupSym syms t.name with
      | none => symLoop (setSym syms t.name (symTOf lhs t.kind)) funcs ts
      | some old =>
        match old.combine (symTOf lhs t.kind) with
        | some new => symLoop (setSym syms t.name new) funcs ts
        | none => .error .symbolError

def tagSide (lhs : Bool) (ts : List Term) : List (Bool × Term) := ts.map fun t => (lhs, t)

/-- Outcome class of the symbol loop followed by the "exactly one endogenous variable" check. -/
def symbolStage (lt rt : List Term) : Option PErr :=
  match symLoop [] [] (tagSide true lt ++ tagSide false rt) with
  | .error e => some e
  | .ok syms => if (syms.filter fun p => p.2 == .endo).length == 1 then none else some .parserError

inductive EqOut where
  | empty
  | verbatim (equation code : List Char)
  | parsed (lhs rhs : List Term) (equation code : Fmt)
  | err (e : PErr)
  deriving DecidableEq, Repr

def finishEq (s : List Char) (lt rt : List Term) : EqOut :=
  match pyFormat (normaliseWs (template s)) ((lt ++ rt).map termStr) with
  | .fail => .err .formatFailure
  | eq =>
    match symbolStage lt rt with
    | some e => .err e
    | none => .parsed lt rt eq (pyFormat (normaliseWs (template s)) ((lt ++ rt).map termCode))

/-- `parse_equation` after the single-statement check, in the order of the code: verbatim block, brace count,
    braces outside matched terms, `parse_equation_terms`, a term spanning the `=`, template and `str.format`,
    symbol loop, one-endogenous check. -/
def parseBody (s : List Char) : EqOut :=
  if startsWith ['`'] s && endsWith ['`'] s then .verbatim s (stripFence s)
  else if braceNet 0 s != 0 then .err .parserError
  else if (outside s).any isBrace then .err .parserError
  else match equationTerms s with
    | .error e => .err e
    | .ok (lt, rt) =>
      if (lt ++ rt).length != (scanTerms s).length then .err .parserError
      else finishEq s lt rt

def parseEquationText (s : List Char) : EqOut :=
  if strip s == [] then .empty
  else match splitStatements s with
    | (_, .parserError) => .err .parserError
    | (_, .indentationError) => .err .indentationError
    | ([_], .ok) => parseBody s
    | (_, .ok) => .err .parserError

/-- The statement loop of `parse_model`: per-statement results up to and including the first error
    (errors surface in the lazy order of the generator: a statement's own error before a later split error). -/
def scriptGo : List (List Char) → SplitEnd → List EqOut
  | [], .ok => []
  | [], .parserError => [.err .parserError]
  | [], .indentationError => [.err .indentationError]
  | s :: ss, e =>
    match parseEquationText s with
    | .err x => [.err x]
    | r => r :: scriptGo ss e

def parseScript (s : List Char) : List EqOut := scriptGo (splitStatements s).1 (splitStatements s).2

end Fsic.Lx
