/-
Shared vocabulary of the fsic models.  Core Lean only (no Mathlib): every definition here is total and
executable, so the same text serves the proofs (`Proofs/`) and the correspondence driver (`Main.lean`).
-/
namespace Fsic

/-- `fsic.core.interfaces.SolutionStatus` ('-', '.', 'F', 'E', 'S'). -/
inductive Status where
  | unsolved | solved | failed | error | skipped
  deriving DecidableEq, Repr, Inhabited

def Status.char : Status → Char
  | .unsolved => '-'
  | .solved => '.'
  | .failed => 'F'
  | .error => 'E'
  | .skipped => 'S'

def Status.ofChar? : Char → Option Status
  | '-' => some .unsolved
  | '.' => some .solved
  | 'F' => some .failed
  | 'E' => some .error
  | 'S' => some .skipped
  | _ => none

/-- The `errors=` keyword of the solve methods.  Any string outside the four documented ones is `invalid`. -/
inductive ErrMode where
  | raise | skip | ignore | replace | invalid
  deriving DecidableEq, Repr, Inhabited

/-- Python's list index normalisation: position denoted by index `i` in a sequence of length `n`
    (`none` = IndexError). -/
def pyIndex (n : Nat) (i : Int) : Option Nat :=
  if 0 ≤ i then (if i < n then some i.toNat else none)
  else (if 0 ≤ i + n then some (i + n).toNat else none)

/-- `xs[i] = v` for a position already normalised. -/
def setAt {α} : List α → Nat → α → List α
  | [], _, _ => []
  | _ :: xs, 0, v => v :: xs
  | x :: xs, i + 1, v => x :: setAt xs i v

theorem setAt_length {α} (xs : List α) (i : Nat) (v : α) : (setAt xs i v).length = xs.length := by
  induction xs generalizing i with
  | nil => rfl
  | cons x xs ih => cases i <;> simp [setAt, ih]

theorem setAt_getElem?_ne {α} (xs : List α) (i j : Nat) (v : α) (h : i ≠ j) :
    (setAt xs i v)[j]? = xs[j]? := by
  induction xs generalizing i j with
  | nil => rfl
  | cons x xs ih =>
    cases i with
    | zero => cases j with
      | zero => exact absurd rfl h
      | succ j => simp [setAt]
    | succ i => cases j with
      | zero => simp [setAt]
      | succ j => simp [setAt]; exact ih i j (by omega)

theorem setAt_getElem?_eq {α} (xs : List α) (i : Nat) (v : α) (h : i < xs.length) :
    (setAt xs i v)[i]? = some v := by
  induction xs generalizing i with
  | nil => simp at h
  | cons x xs ih =>
    cases i with
    | zero => simp [setAt]
    | succ i => simp [setAt]; exact ih i (by simpa using h)

end Fsic
