import FsicModel.Alias
/-
M8 (alias part) — label-indexed access when the span is labelled with *names*.

In `FsicModel/Alias.lean` the second component of a tuple key (`model[name, label]`, `model[name, a:b:c]`) is a
value of the opaque type `P`, and what the period index does with it is a parameter (`ValOps.readAt / writeAt`).
Labels and names are different types there, so "a label that is spelt like an alias" cannot even be said.  This
file supplies the instance in which it can: the labels of the span ARE names (`Label := α`, a span of `str`), a key
is `(name, label)` or `(name, slice(label?, label?, step?))`, and `labelOps span` is the value semantics of
`VectorContainer` on such a span:

* `locate` is `_locate_period_in_span` (`span.index(l)` / `get_loc` / the `==` fallback): the first position whose
  label equals `l`, `KeyError` when there is none;
* `locStart` / `locStop` / `slicePositions` are `_resolve_period_slice`: a missing bound is `span[0]` / `span[-1]`,
  both bounds are located as labels, the interval is closed on the right (`values[a : b + 1 : step]`);
* a read hands out the element / the elements, a write stores a scalar in every selected cell or a sequence of the
  right length cell by cell (NumPy's `ValueError` otherwise).

`AliasMixin.__getitem__` / `__setitem__` (HEAD) do `name, *index = key; key = (resolve(name), *index)`: the FIRST
component is resolved, the rest of the key is passed on as it is.  That is `aliased (labelOps span)`: `aliased`
never looks inside the `P` it is handed.  `aliasedAll` is the variant that resolves every `str` of the key (labels
and slice bounds too) — what the code must NOT do; `Proofs/C18.lean` proves the two differ.
-/
namespace Fsic.Alias

variable {α : Type} [DecidableEq α]

/-- The second component of a tuple key on a span of names. -/
inductive LIx (α : Type) where
  | label (l : α)                                   -- model[name, l]
  | slice (start stop : Option α) (step : Nat)      -- model[name, a:b:step]  (`step` omitted = 1)
  deriving DecidableEq, Repr

def LIx.map (f : α → α) : LIx α → LIx α
  | .label l => .label (f l)
  | .slice a b st => .slice (a.map f) (b.map f) st

/-- Everything that is passed in or handed out: an index, one number, a sequence of numbers. -/
inductive LPay (α β : Type) where
  | ix (i : LIx α)
  | scalar (b : β)
  | list (l : List β)
  deriving DecidableEq, Repr

def LPay.mapIx {β : Type} (f : α → α) : LPay α β → LPay α β
  | .ix i => .ix (i.map f)
  | .scalar b => .scalar b
  | .list l => .list l

/-- `_locate_period_in_span(l)`: position of the first label equal to `l` (`none` = `KeyError`). -/
def locate : List α → α → Option Nat
  | [], _ => none
  | x :: xs, l => if x = l then some 0 else (locate xs l).map (· + 1)

/-- `start = span[0] if index.start is None else index.start`, then located. -/
def locStart (span : List α) : Option α → Option Nat
  | some l => locate span l
  | none => span.head?.bind (locate span)

/-- `stop = span[-1] if index.stop is None else index.stop`, then located. -/
def locStop (span : List α) : Option α → Option Nat
  | some l => locate span l
  | none => span.getLast?.bind (locate span)

/-- The positions `range(a, b + 1, step)` of `values[a : b + 1 : step]` (`b` is a position of the span, so the
    slice never runs past the end). -/
def slicePositions (a b step : Nat) : List Nat :=
  (List.range (b + 1 - a)).filterMap fun k => if k % step = 0 then some (a + k) else none

def setAll {β : Type} (v : List β) (ps : List Nat) (c : β) : List β := ps.foldl (fun acc i => acc.set i c) v

def setEach {β : Type} (v : List β) (pcs : List (Nat × β)) : List β := pcs.foldl (fun acc pc => acc.set pc.1 pc.2) v

def numpyError : Err := .value 2

/-- `values[location]`. -/
def readCell {β : Type} (v : List β) (i : Nat) : Except Err (LPay α β) :=
  match v[i]? with
  | some x => .ok (.scalar x)
  | none => .error numpyError

/-- `values[start_location:stop_location:step]`. -/
def readSlice {β : Type} (v : List β) (i j st : Nat) : Except Err (LPay α β) :=
  if st = 0 then .error numpyError else .ok (.list ((slicePositions i j st).filterMap fun k => v[k]?))

def labelRead {β : Type} (span : List α) (v : List β) : LPay α β → Except Err (LPay α β)
  | .ix (.label l) =>
    match locate span l with
    | none => .error .keyError
    | some i => readCell v i
  | .ix (.slice a b st) =>
    match locStart span a, locStop span b with
    | some i, some j => readSlice v i j st
    | _, _ => .error .keyError
  | _ => .error numpyError

/-- `self.__dict__['_' + name][location] = value`. -/
def writeCell {β : Type} (v : List β) (i : Nat) : LPay α β → Except Err (List β)
  | .scalar c => if i < v.length then .ok (v.set i c) else .error numpyError
  | _ => .error numpyError

/-- `self.__dict__['_' + name][start_location:stop_location:step] = value`. -/
def writeSlice {β : Type} (v : List β) (i j st : Nat) : LPay α β → Except Err (List β)
  | .scalar c => if st = 0 then .error numpyError else .ok (setAll v (slicePositions i j st) c)
  | .list l =>
    if st = 0 then .error numpyError
    else if l.length = (slicePositions i j st).length then .ok (setEach v ((slicePositions i j st).zip l))
    else .error numpyError
  | .ix _ => .error numpyError

def labelWrite {β : Type} (span : List α) (v : List β) (ix p : LPay α β) : Except Err (List β) :=
  match ix with
  | .ix (.label l) =>
    match locate span l with
    | none => .error .keyError
    | some i => writeCell v i p
  | .ix (.slice a b st) =>
    match locStart span a, locStop span b with
    | some i, some j => writeSlice v i j st p
    | _, _ => .error .keyError
  | _ => .error numpyError

/-- `obj.X = value`: a scalar is broadcast, a sequence must have the length of the span. -/
def labelAssign {β : Type} (v : List β) : LPay α β → Except Err (List β)
  | .scalar c => .ok (v.map fun _ => c)
  | .list l => if l.length = v.length then .ok l else .error (.value 1)
  | .ix _ => .error numpyError

/-- The value semantics of a container whose span is `span`, a list of names. -/
def labelOps {β : Type} (span : List α) : ValOps α (List β) (LPay α β) where
  assign := labelAssign
  readAt := labelRead span
  writeAt := labelWrite span
  raw _ _ _ v := v

/-- Apply `f` to the second component of a tuple key. -/
def Op.mapIx {P : Type} (f : P → P) : Op α P → Op α P
  | .getAt n ix => .getAt n (f ix)
  | .setAt n ix v => .setAt n (f ix) v
  | other => other

/-- NOT the code: a mixin that resolves *every* `str` element of a tuple key — the name, the label, the slice
    bounds. -/
def aliasedAll {β : Type} (span : List α) (m : AMap α) (s : Store α (List β) (LPay α β))
    (op : Op α (LPay α β)) : Store α (List β) (LPay α β) × Res (List β) (LPay α β) :=
  aliased (labelOps span) m s (op.mapIx (LPay.mapIx (resolve m)))

end Fsic.Alias
