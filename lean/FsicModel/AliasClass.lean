import FsicModel.Alias
/-
M8 (alias part, continued) — what lies around `AliasMixin.__init__` / `AliasMixin.to_dataframe`:

* **export with options.**  `AliasMixin.to_dataframe(use_aliases=True, **kwargs)` first calls
  `super().to_dataframe(**kwargs)` — for models and linkers `fsic.tools.model_to_dataframe(status=, iterations=,
  include_internal=)`, for a plain `VectorContainer` the option-less `to_dataframe()` — and renames the labels of
  *that* frame.  `baseFrame` is the frame the base class hands over (names filtered by `include_internal`, then the
  `status` column, then the `iterations` column, each iff requested); `renamer` is the label map of the mixin, which
  depends on the instance (`aliases`, `preferred_names`) only — never on the frame or the options.
* **class hierarchies.**  `copy.deepcopy(self.ALIASES)` / `copy.deepcopy(self.PREFERRED_NAMES)` are ordinary Python
  attribute look-ups: instance `__dict__` (never holds them), then the classes along the MRO.  Below the mixin the
  hierarchies are single-inheritance chains (`class P(AliasMixin, Base)`, `class C(P)`, `class G(C)`, `class S(P)`),
  so the MRO look-up is "nearest own declaration, walking up the parents; `AliasMixin`'s own `{}` / `[]` at the
  end".  `Classes` is the class-level state (every class's own `__dict__` entries), `Event` what a program can do
  to it (`class` statement, `Cls.ALIASES = …`, `Cls.ALIASES[k] = v`, `del Cls.ALIASES`, `Cls.PREFERRED_NAMES = …`)
  and `new`: the constructor, which reads the class-level state and never writes it.

Core Lean only, total, executable.
-/
namespace Fsic.Alias

variable {α : Type} [DecidableEq α]

/-! ### Export with options -/

/-- The label map of `to_dataframe(use_aliases=True)` (`none` = `ValueError`): branch 2 (`rename(columns={v: k …})`)
    or branch 3 (`rename(columns=replacements)`) of the method.  No frame in sight. -/
def renamer (le : α → α → Bool) (m : AMap α) (pref : List α) : Option (α → α) :=
  if pref.isEmpty then some fun c => (invGet m c).getD c
  else (replacements pref (groups (sortByVal le m))).map fun r c => (getLast r c).getD c

/-- The keyword arguments of `BaseModel.to_dataframe` / `BaseLinker.to_dataframe` (defaults as in the code). -/
structure ExportOpts where
  status : Bool := true
  iterations : Bool := true
  includeInternal : Bool := false
  deriving DecidableEq, Repr

/-- `names` / `[x for x in model.names if not x.startswith('_')]`. -/
def selectVars {δ : Type} (internal : α → Bool) (o : ExportOpts) (vars : List (α × δ)) : List (α × δ) :=
  if o.includeInternal then vars else vars.filter fun c => !internal c.1

def optCol {δ : Type} (b : Bool) (c : α × δ) : List (α × δ) := if b then [c] else []

/-- `fsic.tools.model_to_dataframe(model, status=, iterations=, include_internal=)`: one column per selected
    name, then `df['status']`, then `df['iterations']`.  (A `VectorContainer` has no options: its frame is
    `baseFrame internal ⟨false, false, true⟩ vars _ _ = vars`.) -/
def baseFrame {δ : Type} (internal : α → Bool) (o : ExportOpts) (vars : List (α × δ)) (status iterations : α × δ) :
    List (α × δ) :=
  selectVars internal o vars ++ optCol o.status status ++ optCol o.iterations iterations

/-- `AliasMixin.to_dataframe(use_aliases=True, **kwargs)`: `df = super().to_dataframe(**kwargs)`, then rename. -/
def exportOpts {δ : Type} (le : α → α → Bool) (m : AMap α) (pref : List α) (internal : α → Bool) (o : ExportOpts)
    (vars : List (α × δ)) (status iterations : α × δ) : Option (List (α × δ)) :=
  exportCols le m pref (baseFrame internal o vars status iterations)

/-! ### Classes -/

/-- The own `__dict__` entries of one class statement below the mixin. -/
structure ClassDecl (α : Type) where
  /-- index of the direct base class; `none`: the direct base is `AliasMixin` (+ the model base class) -/
  parent : Option Nat
  /-- own `ALIASES`, if the class body (or a later `Cls.ALIASES = …`) put one there -/
  aliases : Option (AMap α)
  /-- own `PREFERRED_NAMES` -/
  pref : Option (List α)
  deriving DecidableEq, Repr

/-- Class-level state: `AliasMixin.ALIASES` / `AliasMixin.PREFERRED_NAMES` (`{}` / `[]` in the source) and the
    classes defined so far, in order of definition. -/
structure Classes (α : Type) where
  mixinAliases : AMap α
  mixinPref : List α
  tbl : List (ClassDecl α)
  deriving DecidableEq, Repr

/-- Attribute look-up along the MRO of class `c`: the class in whose `__dict__` the attribute is found and the
    value; `none` = not found below the mixin.  `fuel` bounds the walk (a parent is always defined before its
    child, so `c + 1` steps suffice). -/
def lookupAttr {β : Type} (sel : ClassDecl α → Option β) (tbl : List (ClassDecl α)) : Nat → Nat → Option (Nat × β)
  | 0, _ => none
  | fuel + 1, c =>
    match tbl[c]? with
    | none => none
    | some d =>
      match sel d with
      | some x => some (c, x)
      | none =>
        match d.parent with
        | none => none
        | some p => lookupAttr sel tbl fuel p

/-- `Cls.ALIASES`. -/
def classAliases (cs : Classes α) (c : Nat) : AMap α :=
  match lookupAttr (·.aliases) cs.tbl (c + 1) c with
  | some r => r.2
  | none => cs.mixinAliases

/-- `Cls.PREFERRED_NAMES`. -/
def classPref (cs : Classes α) (c : Nat) : List α :=
  match lookupAttr (·.pref) cs.tbl (c + 1) c with
  | some r => r.2
  | none => cs.mixinPref

/-- What `Cls(...)` leaves behind as far as the mixin is concerned. -/
inductive Inst (α : Type) where
  | ok (cls : Nat) (aliases : AMap α) (pref : List α)     -- `self.aliases`, `self.preferred_names`
  | valueError (cls : Nat)                                 -- cycle, or duplicate reference in PREFERRED_NAMES
  deriving DecidableEq, Repr

def constructChecked (c : Nat) (a : AMap α) (pref : List α) : Inst α :=
  if prefCheck a pref then .ok c a pref else .valueError c

/-- `AliasMixin.__init__` of an instance of class `c`, given what the two attribute look-ups returned. -/
def construct (c : Nat) (m : AMap α) (pref : List α) : Inst α :=
  match instanceAliases m with
  | .valueError => .valueError c
  | .returned a => constructChecked c a pref

def setAt {β : Type} : List β → Nat → (β → β) → List β
  | [], _, _ => []
  | x :: l, 0, f => f x :: l
  | x :: l, i + 1, f => x :: setAt l i f

inductive Event (α : Type) where
  /-- `class C(<parent>): ALIASES = …; PREFERRED_NAMES = …` (either may be absent) -/
  | defClass (parent : Option Nat) (aliases : Option (AMap α)) (pref : Option (List α))
  /-- `Cls(...)` -/
  | new (c : Nat)
  /-- `Cls.ALIASES = {…}` (a new dict in `Cls.__dict__`, whether or not it had one) -/
  | setAliases (c : Nat) (m : AMap α)
  /-- `Cls.PREFERRED_NAMES = […]` -/
  | setPref (c : Nat) (p : List α)
  /-- `Cls.ALIASES[k] = v`: in-place change of the dict object the look-up finds — the owner's -/
  | putAlias (c : Nat) (k v : α)
  /-- `del Cls.ALIASES` (own entry; a class without own entry is left alone — Python raises) -/
  | delAliases (c : Nat)
  deriving DecidableEq, Repr

def Event.isNew : Event α → Bool
  | .new _ => true
  | _ => false

/-- `Cls.ALIASES[k] = v`. -/
def putAliasIn (cs : Classes α) (c : Nat) (k v : α) : Classes α :=
  match lookupAttr (·.aliases) cs.tbl (c + 1) c with
  | some r => { cs with tbl := setAt cs.tbl r.1 fun d => { d with aliases := some (upsert r.2 k v) } }
  | none => { cs with mixinAliases := upsert cs.mixinAliases k v }

/-- The class-level effect of an event (`new` has none). -/
def stepClasses (cs : Classes α) : Event α → Classes α
  | .defClass p a pr => { cs with tbl := cs.tbl ++ [⟨p, a, pr⟩] }
  | .new _ => cs
  | .setAliases c m => { cs with tbl := setAt cs.tbl c fun d => { d with aliases := some m } }
  | .setPref c p => { cs with tbl := setAt cs.tbl c fun d => { d with pref := some p } }
  | .putAlias c k v => putAliasIn cs c k v
  | .delAliases c => { cs with tbl := setAt cs.tbl c fun d => { d with aliases := none } }

/-- Class-level state + every constructor outcome so far, in order. -/
structure World (α : Type) where
  cls : Classes α
  insts : List (Inst α)
  deriving DecidableEq, Repr

def stepInsts (w : World α) : Event α → List (Inst α)
  | .new c => w.insts ++ [construct c (classAliases w.cls c) (classPref w.cls c)]
  | _ => w.insts

def step (w : World α) (e : Event α) : World α := ⟨stepClasses w.cls e, stepInsts w e⟩

def runEvents : World α → List (Event α) → World α
  | w, [] => w
  | w, e :: es => runEvents (step w e) es

/-- The interpreter state at start-up: the mixin as written, no subclass yet, no instance. -/
def World.init : World α := ⟨⟨[], [], []⟩, []⟩

end Fsic.Alias
