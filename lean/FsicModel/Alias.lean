/-
M8 (alias part) — `fsic.extensions.common.AliasMixin`, written branch for branch.

* alias maps are Python dicts: association lists in insertion order whose keys are unique (`WF`);
* `dropSelf` / `shortenStep` / `chained` / `shortenLoop` / `instanceAliases` are the two `k != v` filters, the
  body, the exit test and the `for _ in range(len(aliases) + 1): … else: raise ValueError` loop of
  `AliasMixin.__init__` (the bound is the code's own: the length of the map *after* the first filter, plus one);
  before commit ca9bf22 the loop was `while True` with no filter in front and never ended on a self-map or cycle;
* `resolve` is `_resolve_alias`; `aliased` wraps the container operations of `base` exactly where the four
  wrapped accessors of the mixin resolve a name (some paths resolve twice, as the code does);
* `exportCols` is `to_dataframe(use_aliases=True)` on the column labels: pandas' `rename(columns=d)` maps every
  label through `d` and leaves labels that are not keys of `d` alone; it never touches the data.

Core Lean only, total, executable.  `α` = names, `V` = a stored series, `P` = any Python value that is passed
in or handed out (scalars, sequences, labels, slices).  What NumPy / the period index do with a value is a
parameter (`ValOps`), so the theorems hold for every dtype, span and index type.
-/
namespace Fsic.Alias

variable {α : Type} [DecidableEq α]

/-- A Python `dict[str, str]` as its `items()` list. -/
abbrev AMap (α : Type) := List (α × α)

def keys (m : AMap α) : List α := m.map Prod.fst
def vals (m : AMap α) : List α := m.map Prod.snd

/-- The dict invariant: keys are unique. -/
def WF (m : AMap α) : Prop := (keys m).Nodup

/-- `aliases.get(x)`. -/
def get : AMap α → α → Option α
  | [], _ => none
  | p :: m, x => if p.1 = x then some p.2 else get m x

/-- `aliases.get(x, x)`  (`_resolve_alias`, and the substitution inside the shortening loop). -/
def resolve (m : AMap α) (x : α) : α := (get m x).getD x

/-- `{k: aliases.get(v, v) for k, v in aliases.items()}` — the look-up is in the *current* map. -/
def shortenStep (m : AMap α) : AMap α := m.map fun p => (p.1, resolve m p.2)

/-- Negation of the exit test `len(set(aliases.keys()) & set(aliases.values())) == 0`. -/
def chained (m : AMap α) : Bool := (keys m).any fun k => decide (k ∈ vals m)

inductive Shortened (α : Type) where
  | exited (rounds : Nat) (m : AMap α)   -- `break` after `rounds` substitutions
  | exhausted                             -- the `for` ran through its whole range: the `else` clause is next
  deriving DecidableEq, Repr

/-- `for _ in range(n): if <exit test>: break; aliases = <substitution>` — `n` passes are left, `r` counts the
    substitutions done so far.  Every pass makes the exit test first; a pass that does not `break` substitutes. -/
def shortenLoop : Nat → Nat → AMap α → Shortened α
  | 0, _, _ => .exhausted
  | n + 1, r, m => if chained m then shortenLoop n (r + 1) (shortenStep m) else .exited r m

/-- `{k: v for k, v in aliases.items() if k != v}` (before the loop, and once more after it). -/
def dropSelf (m : AMap α) : AMap α := m.filter fun p => decide (p.1 ≠ p.2)

/-- What the alias stage of `AliasMixin.__init__` does for a class that declares `ALIASES = m`. -/
inductive Outcome (α : Type) where
  | returned (aliases : AMap α)   -- `self.aliases`
  | valueError                    -- the `else` clause of the loop
  deriving DecidableEq, Repr

/-- The loop on the pre-filtered map, bounded by the code's own `range(len(aliases) + 1)`, then `else: raise
    ValueError` / the second filter. -/
def shortenAll (m0 : AMap α) : Outcome α :=
  match shortenLoop (m0.length + 1) 0 m0 with
  | .exited _ m' => .returned (dropSelf m')
  | .exhausted => .valueError

/-- `self.aliases` of an instance whose class declares `ALIASES = m`, or the `ValueError`. -/
def instanceAliases (m : AMap α) : Outcome α := shortenAll (dropSelf m)

/-- `n`-fold `aliases.get(x, x)`: the node `n` steps along the chain of `x` (it stops at the first name that
    is not a key). -/
def follow (m : AMap α) : Nat → α → α
  | 0, x => x
  | n + 1, x => follow m n (resolve m x)

/-! ### `PREFERRED_NAMES` validation in `__init__` -/

/-- The `for name in preferred_names` loop; `false` = `ValueError` (duplicate reference). -/
def prefCheckLoop (m : AMap α) : List α → List α → Bool
  | _, [] => true
  | seen, n :: rest =>
    if resolve m n ∈ seen then false else prefCheckLoop m (seen ++ [resolve m n]) rest

def prefCheck (m : AMap α) (pref : List α) : Bool := prefCheckLoop m [] pref

/-! ### `to_dataframe(use_aliases=True)` -/

/-- Look-up in the inverted dict `{v: k for k, v in aliases.items()}`: the *last* alias of `x` wins. -/
def invGet : AMap α → α → Option α
  | [], _ => none
  | p :: m, x =>
    match invGet m x with
    | some k => some k
    | none => if p.2 = x then some p.1 else none

/-- pandas `df.rename(columns=f)`: labels only; `δ` is whatever a column holds. -/
def renameDf {δ : Type} (f : α → α) (cols : List (α × δ)) : List (α × δ) := cols.map fun c => (f c.1, c.2)

def exportNoPref {δ : Type} (m : AMap α) (cols : List (α × δ)) : List (α × δ) :=
  renameDf (fun c => (invGet m c).getD c) cols

/-- Stable insertion into a list sorted by value (`sorted(items, key=lambda x: x[1])`). -/
def insertByVal (le : α → α → Bool) (p : α × α) : AMap α → AMap α
  | [] => [p]
  | q :: l => if le p.2 q.2 then p :: q :: l else q :: insertByVal le p l

def sortByVal (le : α → α → Bool) (m : AMap α) : AMap α := m.foldr (insertByVal le) []

/-- `itertools.groupby(sorted_by_value, key=lambda x: x[1])` as (target, aliases-in-order). -/
def groups : AMap α → List (α × List α)
  | [] => []
  | p :: rest =>
    match groups rest with
    | [] => [(p.2, [p.1])]
    | g :: gs => if p.2 = g.1 then (g.1, p.1 :: g.2) :: gs else (p.2, [p.1]) :: g :: gs

/-- Python `set(xs)` as a duplicate-free list (iteration order plays no role below). -/
def dedup : List α → List α
  | [] => []
  | a :: l => if a ∈ l then dedup l else a :: dedup l

inductive Choice (α : Type) where
  | keep | rename (to : α) | ambiguous
  deriving DecidableEq, Repr

/-- `set(aliases + [target]) & set(self.preferred_names)`. -/
def prefInter (pref : List α) (t : α) (as : List α) : List α :=
  (dedup (as ++ [t])).filter fun x => decide (x ∈ pref)

/-- Body of the loop over the groups. -/
def choose (pref : List α) (t : α) (as : List α) : Choice α :=
  match as with
  | [a] => if t ∈ pref then .keep else .rename a
  | _ =>
    match prefInter pref t as with
    | [] => .keep
    | [x] => .rename x
    | _ => .ambiguous

/-- The `replacements` dict as the list of its assignments in order (`none` = `ValueError`). -/
def replacements (pref : List α) : List (α × List α) → Option (AMap α)
  | [] => some []
  | g :: gs =>
    match choose pref g.1 g.2 with
    | .ambiguous => none
    | .keep => replacements pref gs
    | .rename x => (replacements pref gs).map fun r => (g.1, x) :: r

/-- `d.get(x)` for a dict built by successive assignments `d[k] = v` (the last assignment to `k` wins). -/
def getLast : AMap α → α → Option α
  | [], _ => none
  | p :: m, x =>
    match getLast m x with
    | some v => some v
    | none => if p.1 = x then some p.2 else none

def exportPref {δ : Type} (le : α → α → Bool) (m : AMap α) (pref : List α) (cols : List (α × δ)) :
    Option (List (α × δ)) :=
  (replacements pref (groups (sortByVal le m))).map fun r => renameDf (fun c => (getLast r c).getD c) cols

/-- `AliasMixin.to_dataframe(use_aliases=True)` applied to the frame `cols` that `super().to_dataframe()`
    returned (`none` = `ValueError`). -/
def exportCols {δ : Type} (le : α → α → Bool) (m : AMap α) (pref : List α) (cols : List (α × δ)) :
    Option (List (α × δ)) :=
  if pref.isEmpty then some (exportNoPref m cols) else exportPref le m pref cols

/-! ### The container behind the mixin and the four wrapped accessors -/

inductive Err where
  | attributeError | keyError | initialisationError
  | value (code : Nat)     -- whatever NumPy / the period index raised (opaque)
  deriving DecidableEq, Repr

/-- What NumPy and the period index do; parameters of the model. -/
structure ValOps (α V P : Type) where
  /-- `obj.X = value` on an existing series (whole-series assignment / broadcast). -/
  assign : V → P → Except Err V
  /-- `values[locate(ix)]` — `ix` is a label or a slice of labels. -/
  readAt : V → P → Except Err P
  /-- `values[locate(ix)] = value`. -/
  writeAt : V → P → P → Except Err V
  /-- one pass of code that works on the raw storage (`self._Y[t] = self._C[t] + …`): new value of the series
      called `name`, given read access to every stored series. -/
  raw : Nat → (α → Option V) → α → V → V

/-- `index` + `_<name>` arrays (`vars`, in index order) and the ad-hoc attributes of the instance. -/
structure Store (α V P : Type) where
  strict : Bool
  vars : List (α × V)
  attrs : List (α × P)

inductive Op (α P : Type) where
  | getAttr (n : α)                       -- obj.n
  | setAttr (n : α) (v : P)               -- obj.n = v
  | getItem (n : α)                       -- obj['n']
  | setItem (n : α) (v : P)               -- obj['n'] = v
  | getAt (n : α) (ix : P)                -- obj['n', label] / obj['n', a:b]
  | setAt (n : α) (ix : P) (v : P)        -- obj['n', label] = v / obj['n', a:b] = v
  | replaceValues (kvs : List (α × P))    -- obj.replace_values(**kvs)
  | raw (id : Nat)                        -- generated / hand-written code on the raw storage

def Op.mapName {P : Type} (f : α → α) : Op α P → Op α P
  | .getAttr n => .getAttr (f n)
  | .setAttr n v => .setAttr (f n) v
  | .getItem n => .getItem (f n)
  | .setItem n v => .setItem (f n) v
  | .getAt n ix => .getAt (f n) ix
  | .setAt n ix v => .setAt (f n) ix v
  | .replaceValues kvs => .replaceValues (kvs.map fun kv => (f kv.1, kv.2))
  | .raw id => .raw id

inductive Res (V P : Type) where
  | done | series (v : V) | value (p : P) | err (e : Err)

variable {V P : Type}

def lookup {β : Type} : List (α × β) → α → Option β
  | [], _ => none
  | p :: l, x => if p.1 = x then some p.2 else lookup l x

def update {β : Type} : List (α × β) → α → β → List (α × β)
  | [], _, _ => []
  | p :: l, x, b => if p.1 = x then (p.1, b) :: l else p :: update l x b

/-- `d[x] = b` on the attribute dict: overwrite in place or append. -/
def upsert {β : Type} : List (α × β) → α → β → List (α × β)
  | [], x, b => [(x, b)]
  | p :: l, x, b => if p.1 = x then (p.1, b) :: l else p :: upsert l x b

def Store.index (s : Store α V P) : List α := s.vars.map Prod.fst
def Store.attrNames (s : Store α V P) : List α := s.attrs.map Prod.fst

/-- `VectorContainer.__getattr__(n)` (called after normal look-up failed): series, else
    `object.__getattribute__`. -/
def containerGetattr (s : Store α V P) (n : α) : Res V P :=
  match lookup s.vars n with
  | some v => .series v
  | none =>
    match lookup s.attrs n with
    | some a => .value a
    | none => .err .attributeError

/-- `VectorContainer.__setattr__(n, p)`. -/
def containerSetattr (E : ValOps α V P) (s : Store α V P) (n : α) (p : P) : Store α V P × Res V P :=
  match lookup s.vars n with
  | some v =>
    match E.assign v p with
    | .ok v' => ({ s with vars := update s.vars n v' }, .done)
    | .error e => (s, .err e)
  | none =>
    if s.strict ∧ n ∉ s.attrNames then (s, .err .attributeError)
    else ({ s with attrs := upsert s.attrs n p }, .done)

/-- `self.__dict__['_' + n][locate(ix)] = p`. -/
def containerWriteAt (E : ValOps α V P) (s : Store α V P) (n : α) (ix p : P) : Store α V P × Res V P :=
  match lookup s.vars n with
  | none => (s, .err .keyError)
  | some v =>
    match E.writeAt v ix p with
    | .ok v' => ({ s with vars := update s.vars n v' }, .done)
    | .error e => (s, .err e)

def readAtRes (E : ValOps α V P) (r : Res V P) (ix : P) : Res V P :=
  match r with
  | .series v =>
    match E.readAt v ix with
    | .ok p => .value p
    | .error e => .err e
  | other => other

def rawPass (E : ValOps α V P) (s : Store α V P) (id : Nat) : Store α V P :=
  { s with vars := s.vars.map fun nv => (nv.1, E.raw id (lookup s.vars) nv.1 nv.2) }

/-- `for k, v in new_values.items(): setitem(k, v)`; an exception ends the loop (earlier stores survive). -/
def replaceLoop (setitem : Store α V P → α → P → Store α V P × Res V P) :
    Store α V P → List (α × P) → Store α V P × Res V P
  | s, [] => (s, .done)
  | s, kv :: rest =>
    match setitem s kv.1 kv.2 with
    | (s', .err e) => (s', .err e)
    | (s', _) => replaceLoop setitem s' rest

/-- The container *without* the mixin (`VectorContainer` / `BaseModel`). -/
def baseGetAttr (s : Store α V P) (n : α) : Res V P :=
  match lookup s.attrs n with          -- normal attribute look-up finds instance attributes first
  | some a => .value a
  | none => containerGetattr s n

/-- `VectorContainer.__getitem__(n)` for a `str` key: membership test, then `self.__getattr__(n)`. -/
def baseGetItem (s : Store α V P) (n : α) : Res V P :=
  if n ∈ s.index then containerGetattr s n else .err .keyError

def baseSetItem (E : ValOps α V P) (s : Store α V P) (n : α) (p : P) : Store α V P × Res V P :=
  if n ∈ s.index then containerSetattr E s n p else (s, .err .keyError)

def base (E : ValOps α V P) (s : Store α V P) : Op α P → Store α V P × Res V P
  | .getAttr n => (s, baseGetAttr s n)
  | .setAttr n p => containerSetattr E s n p
  | .getItem n => (s, baseGetItem s n)
  | .setItem n p => baseSetItem E s n p
  | .getAt n ix => (s, readAtRes E (baseGetItem s n) ix)
  | .setAt n ix p => containerWriteAt E s n ix p
  | .replaceValues kvs => replaceLoop (baseSetItem E) s kvs
  | .raw id => (rawPass E s id, .done)

/-! The same container *with* `AliasMixin` in front.  `self.__getattr__` / `self.__setattr__` inside
    `VectorContainer.__getitem__` / `__setitem__` dispatch to the mixin again, so those paths resolve twice. -/

/-- `AliasMixin.__getattr__(n)`. -/
def mixinGetattr (m : AMap α) (s : Store α V P) (n : α) : Res V P := containerGetattr s (resolve m n)

/-- `AliasMixin.__setattr__(n, p)`. -/
def mixinSetattr (E : ValOps α V P) (m : AMap α) (s : Store α V P) (n : α) (p : P) :=
  containerSetattr E s (resolve m n) p

/-- `obj.n`. -/
def aliasedGetAttr (m : AMap α) (s : Store α V P) (n : α) : Res V P :=
  match lookup s.attrs n with          -- found by normal look-up: `__getattr__` is never called
  | some a => .value a
  | none => mixinGetattr m s n

/-- `VectorContainer.__getitem__(key)` for a `str` key that the mixin already resolved. -/
def aliasedGetItem (m : AMap α) (s : Store α V P) (n : α) : Res V P :=
  if resolve m n ∈ s.index then mixinGetattr m s (resolve m n) else .err .keyError

def aliasedSetItem (E : ValOps α V P) (m : AMap α) (s : Store α V P) (n : α) (p : P) :
    Store α V P × Res V P :=
  if resolve m n ∈ s.index then mixinSetattr E m s (resolve m n) p else (s, .err .keyError)

def aliased (E : ValOps α V P) (m : AMap α) (s : Store α V P) : Op α P → Store α V P × Res V P
  | .getAttr n => (s, aliasedGetAttr m s n)
  | .setAttr n p => mixinSetattr E m s n p
  | .getItem n => (s, aliasedGetItem m s n)
  | .setItem n p => aliasedSetItem E m s n p
  | .getAt n ix => (s, readAtRes E (aliasedGetItem m s n) ix)
  | .setAt n ix p => containerWriteAt E s (resolve m n) ix p
  | .replaceValues kvs => replaceLoop (aliasedSetItem E m) s kvs
  | .raw id => (rawPass E s id, .done)

/-- A history: the final store and every result, in order. -/
def run (step : Store α V P → Op α P → Store α V P × Res V P) :
    Store α V P → List (Op α P) → Store α V P × List (Res V P)
  | s, [] => (s, [])
  | s, op :: ops => ((run step (step s op).1 ops).1, (step s op).2 :: (run step (step s op).1 ops).2)

/-! ### Constructor keywords -/

/-- `{self._resolve_alias(k): v for k, v in kwargs.items()}` then, in `ModelInterface.__init__`,
    `initial_values.get(name, default_value)` for every name of the model (`strict=True` rejects a keyword
    that is not a model variable). -/
def ctorBase (strict : Bool) (names : List α) (dflt : P) (kwargs : List (α × P)) : Except Err (List (α × P)) :=
  if strict ∧ (kwargs.any fun kv => decide (kv.1 ∉ names)) then .error .initialisationError
  else .ok (names.map fun n => (n, (lookupLast kwargs n).getD dflt))
where
  lookupLast : List (α × P) → α → Option P
    | [], _ => none
    | p :: l, x =>
      match lookupLast l x with
      | some v => some v
      | none => if p.1 = x then some p.2 else none

def ctorAliased (m : AMap α) (strict : Bool) (names : List α) (dflt : P) (kwargs : List (α × P)) :
    Except Err (List (α × P)) :=
  ctorBase strict names dflt (kwargs.map fun kv => (resolve m kv.1, kv.2))

end Fsic.Alias
