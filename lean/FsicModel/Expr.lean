import FsicModel.Generated
/-
M4 — expression level of generated models (token level; core Lean only, total, executable).

A statement of a model script is a list of tokens `Tok α`: *atoms* (variable / {parameter} / <error> terms with
their index), function names (an identifier followed by `(`), Python keywords, verbatim fragments, and *chunks*
(one Python lexeme each: operator, number, parenthesis, comma, `=`).  The tie between script TEXT and tokens is
the text-level model (`Lexer.lean`, `scan_render`); everything here is independent of the regex scanner.

`fsic.parser.parse_equation` produces the normalised equation and the code by replacing every term by
`str(term)` / `term.code` and leaving everything else in place: at token level that is `List.map (Tok.map f g)`
with `f` on atoms and `g` on function names.  `parseExpr` is Python's expression grammar (the part the model
grammar uses) as a precedence-climbing parser, polymorphic in the atom type, so that the parse tree of the
generated statement can be related to the parse tree of the script (`Proofs/C01.lean`).

The semantics `denote` is parametric in the value type and in ALL operators (`Ops F`): theorems proved about it
hold for Python/NumPy float arithmetic whatever that does.
-/
namespace Fsic.M4

/-! ## Tokens -/

inductive Tok (α : Type) where
  | atom (a : α)
  | func (name : String)     -- identifier (possibly dotted) directly followed by `(`
  | kw (name : String)       -- Python keyword (`if`, `else`, `and`, `or`, `not`, …)
  | verb (text : String)     -- partial verbatim fragment, text between the backticks
  | chunk (s : String)       -- any other single lexeme: operator, number, `(`, `)`, `,`, `=`
  deriving Repr, DecidableEq

/-- What `parse_equation` does to a statement: atoms through `f`, function names through `g`, rest in place. -/
def Tok.map {α β : Type} (f : α → β) (g : String → String) : Tok α → Tok β
  | .atom a => .atom (f a)
  | .func n => .func (g n)
  | .kw n => .kw n
  | .verb t => .verb t
  | .chunk s => .chunk s

def Tok.isChunk {α : Type} (s : String) : Tok α → Bool
  | .chunk c => c == s
  | _ => false

def Tok.isKw {α : Type} (s : String) : Tok α → Bool
  | .kw c => c == s
  | _ => false

/-- Atoms of a token list, in order. -/
def atomsOf {α : Type} : List (Tok α) → List α
  | [] => []
  | .atom a :: ts => a :: atomsOf ts
  | _ :: ts => atomsOf ts

/-! ## Expressions -/

/-- Strict binary operators (both operands always evaluated, left then right). -/
inductive BinOp where
  | add | sub | mul | div | pow | lt | gt | le | ge | eq | ne
  deriving Repr, DecidableEq

mutual
inductive Expr (α : Type) where
  | num (s : String)
  | atom (a : α)
  | verb (text : String)
  | neg (e : Expr α)
  | not (e : Expr α)
  | bin (op : BinOp) (l r : Expr α)
  | and (l r : Expr α)
  | or (l r : Expr α)
  | call (f : String) (args : Args α)
  | ite (a c b : Expr α)        -- `a if c else b`
inductive Args (α : Type) where
  | nil
  | cons (e : Expr α) (rest : Args α)
end

mutual
def Expr.map {α β : Type} (f : α → β) (g : String → String) : Expr α → Expr β
  | .num s => .num s
  | .atom a => .atom (f a)
  | .verb t => .verb t
  | .neg e => .neg (e.map f g)
  | .not e => .not (e.map f g)
  | .bin op l r => .bin op (l.map f g) (r.map f g)
  | .and l r => .and (l.map f g) (r.map f g)
  | .or l r => .or (l.map f g) (r.map f g)
  | .call fn args => .call (g fn) (args.map f g)
  | .ite a c b => .ite (a.map f g) (c.map f g) (b.map f g)
def Args.map {α β : Type} (f : α → β) (g : String → String) : Args α → Args β
  | .nil => .nil
  | .cons e rest => .cons (e.map f g) (rest.map f g)
end

mutual
/-- All atoms of an expression in script (left-to-right) order: its *term set*. -/
def Expr.terms {α : Type} : Expr α → List α
  | .num _ => []
  | .atom a => [a]
  | .verb _ => []
  | .neg e => e.terms
  | .not e => e.terms
  | .bin _ l r => l.terms ++ r.terms
  | .and l r => l.terms ++ r.terms
  | .or l r => l.terms ++ r.terms
  | .call _ args => args.terms
  | .ite a c b => a.terms ++ (c.terms ++ b.terms)
def Args.terms {α : Type} : Args α → List α
  | .nil => []
  | .cons e rest => e.terms ++ rest.terms
end

mutual
/-- No lazily evaluated sub-expression (`if/else`, `and`, `or`) anywhere. -/
def Expr.strict {α : Type} : Expr α → Bool
  | .num _ => true
  | .atom _ => true
  | .verb _ => true
  | .neg e => e.strict
  | .not e => e.strict
  | .bin _ l r => l.strict && r.strict
  | .and _ _ => false
  | .or _ _ => false
  | .call _ args => args.strict
  | .ite _ _ _ => false
def Args.strict {α : Type} : Args α → Bool
  | .nil => true
  | .cons e rest => e.strict && rest.strict
end

mutual
/-- Atoms that are not underneath a lazily evaluated position (branches of `if/else`, right operand of
    `and`/`or`).  The condition of `if/else` and the left operand of `and`/`or` are always evaluated. -/
def Expr.eagerTerms {α : Type} : Expr α → List α
  | .num _ => []
  | .atom a => [a]
  | .verb _ => []
  | .neg e => e.eagerTerms
  | .not e => e.eagerTerms
  | .bin _ l r => l.eagerTerms ++ r.eagerTerms
  | .and l _ => l.eagerTerms
  | .or l _ => l.eagerTerms
  | .call _ args => args.eagerTerms
  | .ite _ c _ => c.eagerTerms
def Args.eagerTerms {α : Type} : Args α → List α
  | .nil => []
  | .cons e rest => e.eagerTerms ++ rest.eagerTerms
end

/-! ## Parser (Python's expression grammar by precedence climbing)

Binding powers: `if/else` 1 < `or` 2 < `and` 3 < `not` 4 < comparison 5 < `+ -` 6 < `* /` 7 < unary `-` 8 < `**` 9.
`infixOf` gives (operator, left bp, bp for the right operand, highest left bp still allowed afterwards in the same
loop).  Comparisons are non-associative here (a chain `a < b < c` is not parsed: leftover tokens ⇒ `none`). -/

inductive Infix where
  | bin (op : BinOp)
  | and
  | or
  deriving Repr, DecidableEq

def chunkInfix (s : String) : Option (Infix × Nat × Nat × Nat) :=
  if s == "+" then some (.bin .add, 6, 7, 6)
  else if s == "-" then some (.bin .sub, 6, 7, 6)
  else if s == "*" then some (.bin .mul, 7, 8, 7)
  else if s == "/" then some (.bin .div, 7, 8, 7)
  else if s == "**" then some (.bin .pow, 9, 8, 9)
  else if s == "<" then some (.bin .lt, 5, 6, 4)
  else if s == ">" then some (.bin .gt, 5, 6, 4)
  else if s == "<=" then some (.bin .le, 5, 6, 4)
  else if s == ">=" then some (.bin .ge, 5, 6, 4)
  else if s == "==" then some (.bin .eq, 5, 6, 4)
  else if s == "!=" then some (.bin .ne, 5, 6, 4)
  else none

def kwInfix (s : String) : Option (Infix × Nat × Nat × Nat) :=
  if s == "or" then some (.or, 2, 3, 2)
  else if s == "and" then some (.and, 3, 4, 3)
  else none

def infixOf {α : Type} : Tok α → Option (Infix × Nat × Nat × Nat)
  | .chunk s => chunkInfix s
  | .kw s => kwInfix s
  | _ => none

def mkInfix {α : Type} : Infix → Expr α → Expr α → Expr α
  | .bin op, l, r => .bin op l r
  | .and, l, r => .and l r
  | .or, l, r => .or l r

/-- A number literal starts with a digit or a dot. -/
def isNumChunk (s : String) : Bool :=
  match s.toList with
  | c :: _ => c.isDigit || c == '.'
  | [] => false

def expectChunk {α : Type} (s : String) : List (Tok α) → Option (List (Tok α))
  | t :: rest => if t.isChunk s then some rest else none
  | [] => none

def expectKw {α : Type} (s : String) : List (Tok α) → Option (List (Tok α))
  | t :: rest => if t.isKw s then some rest else none
  | [] => none

mutual
/-- `parseE fuel minbp ts`: one operand (prefix part), then the operator loop with left bp ≥ `minbp`. -/
def parseE {α : Type} : Nat → Nat → List (Tok α) → Option (Expr α × List (Tok α))
  | 0, _, _ => none
  | _ + 1, _, [] => none
  | f + 1, minbp, .atom a :: rest => loop f minbp 100 (.atom a) rest
  | f + 1, minbp, .verb v :: rest => loop f minbp 100 (.verb v) rest
  | f + 1, minbp, .func name :: rest =>
    match expectChunk "(" rest with
    | none => none
    | some rest1 =>
      match parseArgs f rest1 with
      | none => none
      | some (args, rest2) => loop f minbp 100 (.call name args) rest2
  | f + 1, minbp, .kw k :: rest =>
    if k == "not" && decide (minbp ≤ 4) then
      match parseE f 4 rest with
      | none => none
      | some (e, rest1) => loop f minbp 4 (.not e) rest1
    else none
  | f + 1, minbp, .chunk s :: rest =>
    if s == "(" then
      match parseE f 1 rest with
      | none => none
      | some (e, rest1) =>
        match expectChunk ")" rest1 with
        | none => none
        | some rest2 => loop f minbp 100 e rest2
    else if s == "-" then
      match parseE f 8 rest with
      | none => none
      | some (e, rest1) => loop f minbp 8 (.neg e) rest1
    else if isNumChunk s then loop f minbp 100 (.num s) rest
    else none
/-- `loop fuel minbp maxbp lhs ts`: extend `lhs` by infix operators whose left bp lies in `[minbp, maxbp]`. -/
def loop {α : Type} : Nat → Nat → Nat → Expr α → List (Tok α) → Option (Expr α × List (Tok α))
  | 0, _, _, _, _ => none
  | _ + 1, _, _, lhs, [] => some (lhs, [])
  | f + 1, minbp, maxbp, lhs, tk :: rest =>
    if tk.isKw "if" && decide (minbp ≤ 1) && decide (1 ≤ maxbp) then
      match parseE f 2 rest with
      | none => none
      | some (c, rest1) =>
        match expectKw "else" rest1 with
        | none => none
        | some rest2 =>
          match parseE f 1 rest2 with
          | none => none
          | some (b, rest3) => some (.ite lhs c b, rest3)
    else
      match infixOf tk with
      | none => some (lhs, tk :: rest)
      | some (op, lbp, rbp, mx) =>
        if decide (minbp ≤ lbp) && decide (lbp ≤ maxbp) then
          match parseE f rbp rest with
          | none => none
          | some (rhs, rest1) => loop f minbp mx (mkInfix op lhs rhs) rest1
        else some (lhs, tk :: rest)
/-- Arguments of a call after the opening parenthesis, up to and including the closing one (≥ 1 argument). -/
def parseArgs {α : Type} : Nat → List (Tok α) → Option (Args α × List (Tok α))
  | 0, _ => none
  | f + 1, ts =>
    match parseE f 1 ts with
    | none => none
    | some (_, []) => none
    | some (e, tk :: rest1) =>
      if tk.isChunk ")" then some (.cons e .nil, rest1)
      else if tk.isChunk "," then
        match parseArgs f rest1 with
        | none => none
        | some (as, rest2) => some (.cons e as, rest2)
      else none
end

def finish {α : Type} : Option (Expr α × List (Tok α)) → Option (Expr α)
  | some (e, []) => some e
  | _ => none

/-- The expression denoted by a token list (fuel = token count + 1 is enough: every recursive call follows the
    consumption of a token). -/
def parseExpr {α : Type} (ts : List (Tok α)) : Option (Expr α) :=
  finish (parseE (ts.length + 1) 1 ts)

/-- An equation: a left-hand-side atom and a right-hand-side expression. -/
structure Equation (α : Type) where
  lhs : α
  rhs : Expr α

/-- `lhs = rhs` at token level. -/
def splitStmt {α : Type} : List (Tok α) → Option (α × List (Tok α))
  | .atom a :: t :: rest => if t.isChunk "=" then some (a, rest) else none
  | _ => none

def parseStmt {α : Type} (ts : List (Tok α)) : Option (Equation α) :=
  match splitStmt ts with
  | none => none
  | some (a, rhs) =>
    match parseExpr rhs with
    | none => none
    | some e => some ⟨a, e⟩

def Equation.map {α β : Type} (f : α → β) (g : String → String) (e : Equation α) : Equation β :=
  ⟨f e.lhs, e.rhs.map f g⟩

/-! ## Script atoms, and what `Term.__str__` / `Term.code` make of them -/

inductive Kind where
  | var | param | error
  deriving Repr, DecidableEq

/-- Index of a term after `parse_terms`: an integer offset (no index = 0) or the text of a named period
    (quotes kept, backticks stripped). -/
inductive Idx where
  | rel (k : Int)
  | named (label : String)
  deriving Repr, DecidableEq

structure SAtom where
  kind : Kind
  name : String
  idx : Idx
  deriving Repr, DecidableEq

/-- The index expression written by `Term.__str__`: `t`, `t+n` (n > 0), `t-n` (n > 0). -/
inductive TIdx where
  | zero
  | plus (n : Nat)
  | minus (n : Nat)
  deriving Repr, DecidableEq

/-- `if index_ > 0: '[t+{index_}]' elif index_ == 0: '[t]' else: '[t{index_}]'`. -/
def tidx (k : Int) : TIdx :=
  if 0 < k then .plus k.toNat else if k = 0 then .zero else .minus (-k).toNat

/-- Value of the index expression when the variable `t` holds `t`. -/
def TIdx.eval (t : Int) : TIdx → Int
  | .zero => t
  | .plus n => t + n
  | .minus n => t - n

/-- A term as it appears in the normalised equation (`x[t+1]`, `x['2001']`) and in the code
    (`self._x[t+1]`, `self['x', '2001']`): the two differ only in how they are spelled (`eqLexemes`,
    `codeLexemes`), both spell this structure. -/
inductive TAtom where
  | slot (name : String) (ix : TIdx)
  | item (name : String) (label : String)
  deriving Repr, DecidableEq

/-- `str(term)` / `term.code` for variable, parameter and error terms (braces and angle brackets are dropped). -/
def tAtom (a : SAtom) : TAtom :=
  match a.idx with
  | .rel k => .slot a.name (tidx k)
  | .named l => .item a.name l

def TIdx.lexemes : TIdx → List String
  | .zero => ["t"]
  | .plus n => ["t", "+", toString n]
  | .minus n => ["t", "-", toString n]

/-- Lexemes of `str(term)`. -/
def TAtom.eqLexemes : TAtom → List String
  | .slot x ix => [x, "["] ++ ix.lexemes ++ ["]"]
  | .item x l => [x, "[", l, "]"]

/-- Lexemes of `term.code`. -/
def TAtom.codeLexemes : TAtom → List String
  | .slot x ix => ["self", ".", "_" ++ x, "["] ++ ix.lexemes ++ ["]"]
  | .item x l => ["self", "[", "'" ++ x ++ "'", ",", l, "]"]

/-- `replacement_function_names.get(name, name)`: the WHOLE (dotted) name is looked up. -/
def replaceFn (name : String) : String :=
  (Fsic.Generated.replacementNames.lookup name).getD name

/-- The normalised equation (`str(t)` for every term; function names untouched). -/
def eqForm (ts : List (Tok SAtom)) : List (Tok TAtom) := ts.map (Tok.map tAtom id)

/-- The generated code (`t.code` for every term; function names through the replacement table). -/
def codeForm (ts : List (Tok SAtom)) : List (Tok TAtom) := ts.map (Tok.map tAtom replaceFn)

def Tok.lexemes (atomLex : TAtom → List String) (tick : Bool) : Tok TAtom → List String
  | .atom a => atomLex a
  | .func n => [n]
  | .kw n => [n]
  | .verb t => if tick then ["`" ++ t ++ "`"] else [t]
  | .chunk s => [s]

/-- Lexemes of `Symbol.equation` (verbatim fragments keep their backticks). -/
def eqLexemes (ts : List (Tok SAtom)) : List String :=
  ((eqForm ts).map (Tok.lexemes TAtom.eqLexemes true)).flatten

/-- Lexemes of `Symbol.code` (verbatim fragments lose their backticks). -/
def codeLexemes (ts : List (Tok SAtom)) : List String :=
  ((codeForm ts).map (Tok.lexemes TAtom.codeLexemes false)).flatten

/-! ## Semantics -/

/-- Interpretation of everything that is not a term.  Nothing is assumed about any field. -/
structure Ops (F : Type) where
  lit : String → F                  -- number literal
  verb : String → F                 -- verbatim fragment (opaque)
  neg : F → F
  not : F → F
  bin : BinOp → F → F → F
  truthy : F → Bool                 -- `bool(x)`: drives `if/else`, `and`, `or`
  call : String → List F → F

mutual
/-- Python evaluation of an expression: `and`/`or` return an operand, `if/else` evaluates one branch. -/
def denote {α F : Type} (ops : Ops F) (ρ : α → F) : Expr α → F
  | .num s => ops.lit s
  | .atom a => ρ a
  | .verb t => ops.verb t
  | .neg e => ops.neg (denote ops ρ e)
  | .not e => ops.not (denote ops ρ e)
  | .bin op l r => ops.bin op (denote ops ρ l) (denote ops ρ r)
  | .and l r => if ops.truthy (denote ops ρ l) then denote ops ρ r else denote ops ρ l
  | .or l r => if ops.truthy (denote ops ρ l) then denote ops ρ l else denote ops ρ r
  | .call f args => ops.call f (denoteArgs ops ρ args)
  | .ite a c b => if ops.truthy (denote ops ρ c) then denote ops ρ a else denote ops ρ b
def denoteArgs {α F : Type} (ops : Ops F) (ρ : α → F) : Args α → List F
  | .nil => []
  | .cons e rest => denote ops ρ e :: denoteArgs ops ρ rest
end

/-! Instrumented semantics: value and the atoms READ, in evaluation order. -/

def andR {α F : Type} (ops : Ops F) (l r : F × List α) : F × List α :=
  if ops.truthy l.1 then (r.1, l.2 ++ r.2) else (l.1, l.2)
def orR {α F : Type} (ops : Ops F) (l r : F × List α) : F × List α :=
  if ops.truthy l.1 then (l.1, l.2) else (r.1, l.2 ++ r.2)
def iteR {α F : Type} (ops : Ops F) (a c b : F × List α) : F × List α :=
  if ops.truthy c.1 then (a.1, c.2 ++ a.2) else (b.1, c.2 ++ b.2)

mutual
def denoteR {α F : Type} (ops : Ops F) (ρ : α → F) : Expr α → F × List α
  | .num s => (ops.lit s, [])
  | .atom a => (ρ a, [a])
  | .verb t => (ops.verb t, [])
  | .neg e => (ops.neg (denoteR ops ρ e).1, (denoteR ops ρ e).2)
  | .not e => (ops.not (denoteR ops ρ e).1, (denoteR ops ρ e).2)
  | .bin op l r => (ops.bin op (denoteR ops ρ l).1 (denoteR ops ρ r).1, (denoteR ops ρ l).2 ++ (denoteR ops ρ r).2)
  | .and l r => andR ops (denoteR ops ρ l) (denoteR ops ρ r)
  | .or l r => orR ops (denoteR ops ρ l) (denoteR ops ρ r)
  | .call f args => (ops.call f (denoteArgsR ops ρ args).1, (denoteArgsR ops ρ args).2)
  | .ite a c b => iteR ops (denoteR ops ρ a) (denoteR ops ρ c) (denoteR ops ρ b)
def denoteArgsR {α F : Type} (ops : Ops F) (ρ : α → F) : Args α → List F × List α
  | .nil => ([], [])
  | .cons e rest => ((denoteR ops ρ e).1 :: (denoteArgsR ops ρ rest).1, (denoteR ops ρ e).2 ++ (denoteArgsR ops ρ rest).2)
end

/-- Atoms read when the expression is evaluated (in order). -/
def reads {α F : Type} (ops : Ops F) (ρ : α → F) (e : Expr α) : List α := (denoteR ops ρ e).2

/-! ## Stores and one evaluation pass -/

/-- Series name → position → value. -/
abbrev Store (F : Type) := String → Int → F

def update {F : Type} (s : Store F) (x : String) (i : Int) (v : F) : Store F :=
  fun y j => if y = x ∧ j = i then v else s y j

/-- Position addressed by an index at period `t` (`loc` = position of a named period in the span). -/
def Idx.pos (t : Int) (loc : String → Int) : Idx → Int
  | .rel k => t + k
  | .named l => loc l

/-- What the script means by a term: the series at exactly the lag/lead written. -/
def readSpec {F : Type} (s : Store F) (t : Int) (loc : String → Int) (a : SAtom) : F :=
  s a.name (a.idx.pos t loc)

/-- What the normalised equation / the code reads: `x[<index expression>]` with `t` bound to the period. -/
def readCode {F : Type} (s : Store F) (t : Int) (loc : String → Int) : TAtom → F
  | .slot x ix => s x (ix.eval t)
  | .item x l => s x (loc l)

/-- The script's reading of function names: `exp`, `log`, `max`, `min` mean their replacements, every other
    name means itself. -/
def scriptOps {F : Type} (ops : Ops F) : Ops F :=
  { ops with call := fun f => ops.call (replaceFn f) }

/-- `lhs = rhs` executed on store `s` at period `t`. -/
def assign {F : Type} (ops : Ops F) (loc : String → Int) (e : Equation SAtom) (s : Store F) (t : Int) : Store F :=
  update s e.lhs.name (e.lhs.idx.pos t loc) (denote (scriptOps ops) (readSpec s t loc) e.rhs)

/-- One pass of `_evaluate(t)`: the equations in list order, each on the store left by the previous one. -/
def evalPass {F : Type} (ops : Ops F) (loc : String → Int) (es : List (Equation SAtom)) (s : Store F) (t : Int) :
    Store F :=
  es.foldl (fun s e => assign ops loc e s t) s

/-- The same statement as generated: code tree over the code's own reading of its atoms. -/
def assignCode {F : Type} (ops : Ops F) (loc : String → Int) (lhs : TAtom) (rhs : Expr TAtom) (s : Store F)
    (t : Int) : Store F :=
  match lhs with
  | .slot x ix => update s x (ix.eval t) (denote ops (readCode s t loc) rhs)
  | .item x l => update s x (loc l) (denote ops (readCode s t loc) rhs)

/-- Cells (series, position) read by one assignment, in order. -/
def assignReads {F : Type} (ops : Ops F) (loc : String → Int) (e : Equation SAtom) (s : Store F) (t : Int) :
    List (String × Int) :=
  (reads (scriptOps ops) (readSpec s t loc) e.rhs).map fun a => (a.name, a.idx.pos t loc)

/-- Instrumented pass: final store, cells read (in order), cells written (in order). -/
def evalPassR {F : Type} (ops : Ops F) (loc : String → Int) (t : Int) :
    List (Equation SAtom) → Store F → Store F × List (String × Int) × List (String × Int)
  | [], s => (s, [], [])
  | e :: es, s =>
    ((evalPassR ops loc t es (assign ops loc e s t)).1,
     assignReads ops loc e s t ++ (evalPassR ops loc t es (assign ops loc e s t)).2.1,
     (e.lhs.name, e.lhs.idx.pos t loc) :: (evalPassR ops loc t es (assign ops loc e s t)).2.2)

/-! ## Symbol-list order

`parse_model` keeps one symbol per name in order of first appearance (functions included); the equations of
`_evaluate` are the endogenous symbols in that order. -/

def namesOfTok : Tok SAtom → List String
  | .atom a => [a.name]
  | .func n => [n]
  | _ => []

def dedup : List String → List String → List String
  | seen, [] => seen.reverse
  | seen, x :: xs => if seen.contains x then dedup seen xs else dedup (x :: seen) xs

/-- Names in order of first appearance over all statements. -/
def symbolOrder (stmts : List (List (Tok SAtom))) : List String :=
  dedup [] ((stmts.map fun ts => (ts.map namesOfTok).flatten).flatten)

def lhsName (ts : List (Tok SAtom)) : Option String :=
  match splitStmt ts with
  | some (a, _) => some a.name
  | none => none

/-- Statements in symbol-list order of their left-hand-side names. -/
def orderStmts (stmts : List (List (Tok SAtom))) : List (List (Tok SAtom)) :=
  (symbolOrder stmts).filterMap fun n => stmts.find? fun ts => lhsName ts == some n

/-! ## Dependency graph (`fsic.tools.symbols_to_graph` at token level)

The tool re-scans each normalised equation: every match left of the first `=` is a node carrying the equation,
every match right of it — terms, but also function names, keywords and verbatim fragments — gets an edge into
every left-hand-side node. -/

inductive Node (α : Type) where
  | term (a : α)
  | func (name : String)
  | kw (name : String)
  | verb (text : String)
  deriving Repr, DecidableEq

def nodesOf {α : Type} : List (Tok α) → List (Node α)
  | [] => []
  | .atom a :: ts => .term a :: nodesOf ts
  | .func n :: ts => .func n :: nodesOf ts
  | .kw n :: ts => .kw n :: nodesOf ts
  | .verb t :: ts => .verb t :: nodesOf ts
  | .chunk _ :: ts => nodesOf ts

/-- Tokens before / after the first `=`. -/
def splitEq {α : Type} : List (Tok α) → List (Tok α) × List (Tok α)
  | [] => ([], [])
  | t :: ts => if t.isChunk "=" then ([], ts) else ((t :: (splitEq ts).1), (splitEq ts).2)

def pairs {α β : Type} (xs : List α) (ys : List β) : List (α × β) :=
  (ys.map fun y => xs.map fun x => (x, y)).flatten

/-- Edges `x → n` contributed by one normalised equation. -/
def edgesOfEq {α : Type} (ts : List (Tok α)) : List (Node α × Node α) :=
  pairs (nodesOf (splitEq ts).2) (nodesOf (splitEq ts).1)

def graphEdges {α : Type} (eqs : List (List (Tok α))) : List (Node α × Node α) :=
  (eqs.map edgesOfEq).flatten

/-- Nodes with the `equation` attribute (left-hand sides, the equation's tokens attached) and without. -/
def graphNodes {α : Type} (eqs : List (List (Tok α))) : List (Node α × Option (List (Tok α))) :=
  (eqs.map fun ts => (nodesOf (splitEq ts).1).map (fun n => (n, some ts)) ++
                     (nodesOf (splitEq ts).2).map (fun n => (n, none))).flatten

end Fsic.M4
