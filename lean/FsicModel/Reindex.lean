import FsicModel.Basic
import FsicModel.EvalIndex
/-
`VectorContainer.reindex` (fsic/core/containers.py) and `BaseModel.reindex` (fsic/core/models.py), as the code is:

  strict check → position map `{new position ↦ old position}` for every new label that is `in` the old span →
  `copy()` with the span replaced → for every variable, in order: fill value = `fill_values.get(name, fill_value)`,
  coerced by dtype (`None` ↦ False / 0 / '' / NaN; otherwise `bool()` / `int()` / `str()` / NumPy's cast; the
  `if/elif` chain is `branchOf`, tied to the code by the reflected probe table `Generated.reindexProbes`),
  `np.full(len(span), value, dtype=old dtype)`, then one assignment `new[name][i] = old[name][k]` per map entry.
  `BaseModel.reindex` first puts `status='-'` and `iterations=-1` into the keyword fills unless they are given.

Labels cross as equivalence classes under Python `==` (natural numbers).  Floats are carried as IEEE bit patterns:
reindex copies and fills, it never computes.  `int(float)` / `str(float)` of a float fill value are inputs.
`(import of EvalIndex is for `parsePyInt` only: `int('12')`.)`
-/
namespace Fsic.Reindex

/-- One array element. -/
inductive Val where
  | f (bits : Nat)
  | i (v : Int)
  | b (v : Bool)
  | s (v : List Char)
  /-- an element of a dtype the code does not treat specially (float16/32, complex, bytes, object, datetime64):
      carried as canonical text. -/
  | o (t : List Char)
  /-- an element of a bytes series (`S<n>`), as latin-1 text. -/
  | y (v : List Char)
  deriving DecidableEq, Repr

/-- A fill value as the caller passes it. -/
inductive PyVal where
  | none
  | b (v : Bool)
  | i (v : Int)
  /-- a Python float: its bits, `int(x)` (`none` = raises: NaN / ±inf) and `str(x)`. -/
  | f (bits : Nat) (asInt : Option Int) (asStr : List Char)
  | s (v : List Char)
  deriving DecidableEq, Repr

/-- The dtype of a series, as far as `reindex` distinguishes dtypes.  `int lo hi`: any integer-like dtype
    (`np.issubdtype(dtype, np.integer)`: int8…int64, uint8…uint64, timedelta64) with its value range;
    `other casts`: every dtype that falls through the `if/elif` chain — the fill value goes to `np.full` as it is,
    and NumPy's cast of each candidate fill value is an input (`casts`; `none` = NumPy raises). -/
inductive DType where
  | float                      -- float64 (falls through as well, but its cast is modelled)
  | int (lo hi : Int)
  | bool
  | str (width : Nat)          -- NumPy '<U{width}'
  | other (casts : List (PyVal × Option Val))
  /-- bytes (`np.issubdtype(dtype, np.bytes_)`): `None` ↦ b''; any other fill value goes to `np.full` as it is
      (NumPy's cast is an input, as for `other`). -/
  | bytes (casts : List (PyVal × Option Val))
  deriving DecidableEq, Repr

/-- Which arm of the `if / elif` chain of `reindex` a dtype takes, by NumPy kind character, in the code's order:
    `issubdtype(dtype, bool)`, `issubdtype(dtype, np.integer)`, `issubdtype(dtype, str)`,
    `issubdtype(dtype, np.bytes_)`, else nothing. -/
inductive Branch where
  | bool | int | str | bytes | passthrough
  deriving DecidableEq, Repr

def branchOf (kind : Char) : Branch :=
  if kind == 'b' then .bool
  else if kind == 'i' || kind == 'u' || kind == 'm' then .int
  else if kind == 'U' then .str
  else if kind == 'S' then .bytes
  else .passthrough

/-- Value range of an integer-like dtype of `size` bytes. -/
def intRange (kind : Char) (size : Nat) : Int × Int :=
  if kind == 'u' then (0, (2 : Int) ^ (8 * size) - 1)
  else (-((2 : Int) ^ (8 * size - 1)), (2 : Int) ^ (8 * size - 1) - 1)

/-- The model dtype of a NumPy dtype given by kind character and item size. -/
def mkDType (kind : Char) (size : Nat) (casts : List (PyVal × Option Val)) : DType :=
  match branchOf kind with
  | .bool => .bool
  | .int => .int (intRange kind size).1 (intRange kind size).2
  | .str => .str (size / 4)
  | .bytes => .bytes casts
  | .passthrough => if kind == 'f' && size == 8 then .float else .other casts

inductive Err where
  | keyError          -- strict: unknown variable in the fill keywords; or the NumPy fallback locator refusing duplicates
  | coercion          -- bool()/int()/str()/cast of the fill value raised (ValueError / OverflowError / TypeError)
  | indexError
  | unmodelled
  deriving DecidableEq, Repr

def nanBits : Nat := 0x7FF8000000000000
def zeroBits : Nat := 0
def negZeroBits : Nat := 0x8000000000000000
def oneBits : Nat := 0x3FF0000000000000

/-- The dtype defaults of the property: NaN, 0, False, ''. -/
def defaultFill : DType → Val
  | .float => .f nanBits
  | .int _ _ => .i 0
  | .bool => .b false
  | .str _ => .s []
  | .other _ => .o []           -- not used: `coerce` asks the cast table
  | .bytes _ => .y []

def boolText (b : Bool) : List Char := if b then ['T', 'r', 'u', 'e'] else ['F', 'a', 'l', 's', 'e']

/-- `np.full(n, <Python int>, dtype=<integer dtype>)`: OverflowError outside the dtype's range. -/
def intVal (lo hi v : Int) : Except Err Val :=
  if decide (lo ≤ v) && decide (v ≤ hi) then .ok (.i v) else .error .coercion

def castOther (casts : List (PyVal × Option Val)) (v : PyVal) : Except Err Val :=
  match casts.lookup v with
  | some (some x) => .ok x
  | some .none => .error .coercion
  | .none => .error .unmodelled

def floatOfInt (v : Int) : Nat := (Float.ofInt v).toBits.toNat

/-- The special handling in `reindex` plus `np.full(.., value, dtype=dtype)`. -/
def coerce : DType → PyVal → Except Err Val
  | .other casts, v => castOther casts v
  | d, .none => .ok (defaultFill d)
  | .bytes casts, v => castOther casts v
  -- bool(value)
  | .bool, .b v => .ok (.b v)
  | .bool, .i v => .ok (.b (v != 0))
  | .bool, .f bits _ _ => .ok (.b (bits != zeroBits && bits != negZeroBits))
  | .bool, .s v => .ok (.b (!v.isEmpty))
  -- int(value)
  | .int lo hi, .b v => intVal lo hi (if v then 1 else 0)
  | .int lo hi, .i v => intVal lo hi v
  | .int lo hi, .f _ (some v) _ => intVal lo hi v
  | .int _ _, .f _ .none _ => .error .coercion
  | .int lo hi, .s v => match Fsic.EvalIdx.parsePyInt v with
    | some n => intVal lo hi n
    | .none => .error .coercion
  -- str(value), truncated to the width of the dtype by np.full
  | .str w, .b v => .ok (.s ((boolText v).take w))
  | .str w, .i v => .ok (.s ((toString v).toList.take w))
  | .str w, .f _ _ t => .ok (.s (t.take w))
  | .str w, .s v => .ok (.s (v.take w))
  -- float: NumPy's own cast
  | .float, .b v => .ok (.f (if v then oneBits else zeroBits))
  | .float, .i v => .ok (.f (floatOfInt v))
  | .float, .f bits _ _ => .ok (.f bits)
  | .float, .s _ => .error .unmodelled

/-- Encoding of an outcome of `coerce` with basic types only — the format of the reflected probe table
    `Generated.reindexProbes` (tag, int, bool, chars). -/
def encode : Except Err Val → String × Int × Bool × List Char
  | .ok (.b v) => ("b", 0, v, [])
  | .ok (.i v) => ("i", v, false, [])
  | .ok (.f bits) => if bits = nanBits then ("nan", 0, false, []) else ("f", bits, false, [])
  | .ok (.s v) => ("s", 0, false, v)
  | .ok (.o t) => ("o", 0, false, t)
  | .ok (.y v) => ("y", 0, false, v)
  | .error _ => ("err", 0, false, [])

/-- The property's default table by NumPy kind: False, 0, NaN (float and complex), '' (`<U`: '', bytes: b''). -/
def propertyDefault (kind : Char) : Option (String × Int × Bool × List Char) :=
  if kind == 'b' then some ("b", 0, false, [])
  else if kind == 'i' || kind == 'u' then some ("i", 0, false, [])
  else if kind == 'f' || kind == 'c' then some ("nan", 0, false, [])
  else if kind == 'U' then some ("s", 0, false, [])
  else if kind == 'S' then some ("y", 0, false, [])     -- the empty string of a bytes series: b''
  else none          -- object, datetime64, timedelta64: not in the property's table

structure Series where
  dtype : DType
  data : List Val
  deriving DecidableEq, Repr

/-- A container / model.  `extra` is everything else `copy()` carries over untouched (attribute list and values,
    lags/leads, the class, …). -/
structure Obj (M : Type) where
  span : List Nat
  vars : List (String × Series)
  strict : Bool
  extra : M

/-! ### Position map -/

def firstIndex (l : Nat) : List Nat → Option Nat
  | [] => none
  | x :: xs => if x = l then some 0 else (firstIndex l xs).map (· + 1)

def countEq (l : Nat) (xs : List Nat) : Nat := (xs.filter (· = l)).length

/-- How `period in self.span` / `_locate_period_in_span` behave. -/
inductive SpanKind where
  | list      -- list / tuple / range: `in`, `.index` (first occurrence)
  | numpy     -- ndarray: `(arr == period).any()`, fallback locator (exactly one match, else KeyError)
  deriving DecidableEq, Repr

/-- Old position of one new label: `none` = a new period. -/
def positionOf (kind : SpanKind) (old : List Nat) (l : Nat) : Except Err (Option Nat) :=
  match kind with
  | .list => .ok (firstIndex l old)
  | .numpy => if countEq l old ≤ 1 then .ok (firstIndex l old) else .error .keyError

/-- `mapM` over `Except`, written out (first error wins, left to right). -/
def mapE {α β ε : Type} (f : α → Except ε β) : List α → Except ε (List β)
  | [] => .ok []
  | x :: xs => match f x with
    | .error e => .error e
    | .ok y => match mapE f xs with
      | .error e => .error e
      | .ok ys => .ok (y :: ys)

def posmapOf (kind : SpanKind) (old new : List Nat) : Except Err (List (Option Nat)) :=
  mapE (positionOf kind old) new

/-! ### The copy loop -/

/-- `for new, old in positions.items(): reindexed[name][new] = self[name][old]`, with the map laid out along the
    new span (`posmap[i] = some k` ⇔ `positions[i] == k`); `i` is the new position of the head of the list. -/
def writeAll (src : List Val) : List (Option Nat) → Nat → List Val → Except Err (List Val)
  | [], _, dst => .ok dst
  | none :: ps, i, dst => writeAll src ps (i + 1) dst
  | some k :: ps, i, dst =>
    match src[k]? with
    | some v => writeAll src ps (i + 1) (Fsic.setAt dst i v)
    | none => .error .indexError

/-- `value = fill_values.get(name, fill_value)`. -/
def chosenFill (fills : List (String × PyVal)) (fillValue : PyVal) (name : String) : PyVal :=
  (fills.lookup name).getD fillValue

def rebuild (name : String) (d : DType) (r : Except Err (List Val)) : Except Err (String × Series) :=
  match r with
  | .ok data => .ok (name, ⟨d, data⟩)
  | .error e => .error e

def reindexVar (newLen : Nat) (posmap : List (Option Nat)) (fills : List (String × PyVal)) (fillValue : PyVal)
    (nv : String × Series) : Except Err (String × Series) :=
  match coerce nv.2.dtype (chosenFill fills fillValue nv.1) with
  | .error e => .error e
  | .ok v => rebuild nv.1 nv.2.dtype (writeAll nv.2.data posmap 0 (List.replicate newLen v))

/-- `set(fill_values.keys()) - set(self.index)` is non-empty. -/
def hasUnknown (fills : List (String × PyVal)) (names : List String) : Bool :=
  fills.any fun kv => !names.contains kv.1

/-- `strict = self.strict if strict is None else strict`. -/
def effectiveStrict (strictArg : Option Bool) (objStrict : Bool) : Bool := strictArg.getD objStrict

def finish {M : Type} (o : Obj M) (newSpan : List Nat) (r : Except Err (List (String × Series))) : Except Err (Obj M) :=
  match r with
  | .ok vs => .ok { o with span := newSpan, vars := vs }
  | .error e => .error e

/-- `VectorContainer.reindex` given the position map. -/
def reindexWith {M : Type} (o : Obj M) (newSpan : List Nat) (posmap : List (Option Nat)) (fillValue : PyVal)
    (strictArg : Option Bool) (fills : List (String × PyVal)) : Except Err (Obj M) :=
  if effectiveStrict strictArg o.strict && hasUnknown fills (o.vars.map (·.1)) then .error .keyError
  else finish o newSpan (mapE (reindexVar newSpan.length posmap fills fillValue) o.vars)

/-- `VectorContainer.reindex(span, fill_value=…, strict=…, **fill_values)`. -/
def reindex {M : Type} (kind : SpanKind) (o : Obj M) (newSpan : List Nat) (fillValue : PyVal)
    (strictArg : Option Bool) (fills : List (String × PyVal)) : Except Err (Obj M) :=
  if effectiveStrict strictArg o.strict && hasUnknown fills (o.vars.map (·.1)) then .error .keyError
  else match posmapOf kind o.span newSpan with
    | .error e => .error e
    | .ok pm => reindexWith o newSpan pm fillValue strictArg fills

/-- `fill_values[k] = fill_values.get(k, default)`. -/
def setDefault (fills : List (String × PyVal)) (k : String) (v : PyVal) : List (String × PyVal) :=
  match fills.lookup k with
  | some _ => fills
  | none => fills ++ [(k, v)]

/-- `BaseModel.reindex`: status '-' and iterations -1 unless given. -/
def modelFills (fills : List (String × PyVal)) : List (String × PyVal) :=
  setDefault (setDefault fills "status" (.s ['-'])) "iterations" (.i (-1))

def reindexModel {M : Type} (kind : SpanKind) (o : Obj M) (newSpan : List Nat) (fillValue : PyVal)
    (strictArg : Option Bool) (fills : List (String × PyVal)) : Except Err (Obj M) :=
  reindex kind o newSpan fillValue strictArg (modelFills fills)

def reindexModelWith {M : Type} (o : Obj M) (newSpan : List Nat) (posmap : List (Option Nat)) (fillValue : PyVal)
    (strictArg : Option Bool) (fills : List (String × PyVal)) : Except Err (Obj M) :=
  reindexWith o newSpan posmap fillValue strictArg (modelFills fills)

end Fsic.Reindex
