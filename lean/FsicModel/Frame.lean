import FsicModel.Solver
/-
M1c — which cells a period's solve may touch, for a parser-built model (no verbatim code).

A generated `_evaluate` is a sequence of assignments `self._Y[t + k] = <expression>`; the hooks are `pass`.
`Cells` are (variable, position) pairs.  The model is parametric in the state: all that is used of it are a
`get`/`set` pair obeying the usual laws.
-/
namespace Fsic

/-- A store with addressable cells. -/
structure Cells (σ C X : Type) where
  get : σ → C → X
  set : σ → C → X → σ
  get_set_same : ∀ u c x, get (set u c x) c = x
  get_set_other : ∀ u c c' x, c' ≠ c → get (set u c x) c' = get u c'

/-- One generated statement at period `t`: the cell it assigns and the value it computes from the current state
    (so later statements see earlier assignments: Gauss-Seidel). `none` = the statement raised (or warned under
    warnings-as-errors) before storing. -/
structure Assign (σ C X : Type) where
  target : Int → C
  value : σ → Int → Option X

/-- A pass: the statements in order; a raising statement stops the pass with the stores made so far. -/
def runPass {σ C X : Type} (S : Cells σ C X) (t : Int) : List (Assign σ C X) → σ → σ × Bool
  | [], u => (u, false)
  | a :: rest, u =>
    match a.value u t with
    | none => (u, true)
    | some x => runPass S t rest (S.set u (a.target t) x)

/-- `t` normalised, then shifted: the position a cell at offset `k` of period `t` has. -/
def cellPos (n : Nat) (t k : Int) : Int := normT n t + k

/-- `solve_t` accepts the period iff it can accommodate the lags and leads (executable form of `Feasible`). -/
def feasibleB (n lags leads : Nat) (t : Int) : Bool :=
  decide (0 ≤ normT n t - lags ∧ normT n t + leads < n)

/-- Positions (variable index, position) that solving period `t` is allowed to change: the left-hand-side cells
    `(lhs_i, t + k_i)` and, with a non-zero offset, every endogenous variable at `t`. -/
def writeSet (n : Nat) (t : Int) (lhs : List (Nat × Int)) (endo : List Nat) (offset : Int) : List (Nat × Int) :=
  lhs.map (fun (v, k) => (v, cellPos n t k)) ++ (if offset ≠ 0 then endo.map (fun v => (v, cellPos n t 0)) else [])

end Fsic
