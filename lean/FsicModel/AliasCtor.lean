import FsicModel.Alias
/-
M8 (alias part) — the routes that BUILD an instance of a class with `AliasMixin` in front.

Every route ends in `AliasMixin.__init__(*args, **kwargs)`, which forwards
`{self._resolve_alias(k): v for k, v in kwargs.items()}` to the class behind it (`ctorAliased`):

* `Model(span, **kw)`                      — `ctorAliased` itself;
* `Model.from_dataframe(df, **kw)`         — `BaseModel.from_dataframe`:
  `cls(index, *args, **{k: v.values for k, v in data.items()}, **kwargs)`: the column labels become keywords
  (a label that occurs twice: the later column wins, as in any dict display), the extra keywords follow; a
  keyword that is spelled exactly like a column label is Python's `TypeError: got multiple values for keyword
  argument` before any constructor runs.  The classmethod knows nothing about aliases: every label reaches
  `AliasMixin.__init__` as it is spelled (`fromDataframeAliased`);
* `Linker(submodels, **kw)`                — `AliasMixin.__init__` passes `submodels` on untouched and resolves
  the keywords: the same `ctorAliased` (a linker has no `strict` keyword);
* `Model.from_dataframe(m.to_dataframe(use_aliases=True, status=False, iterations=False))` — `exportCols` on
  the (name, series) columns, then the route above (`roundTrip`);
* `copy()` / `copy.copy` / `copy.deepcopy`  — `self.__class__(span=…)` (no keywords: nothing to resolve) followed
  by `__dict__.update(deepcopy of the original's __dict__)`: the state, the instance's `aliases` and
  `preferred_names` are the original's.  Nothing of the alias logic is involved beyond the constructor running
  once more on the class-level declaration; that route is covered by the oracle only.

Names are abstract here (`α` with decidable equality): a Python name is identified with its `==`/`hash` class,
so `'GDP'`, `numpy.str_('GDP')`, a member of `class Name(str, Enum)` whose value is `'GDP'` and an instance of a
user subclass of `str` are ONE element of `α` - exactly what `dict.get` / `in list` do with them.  That the
code treats all these forms alike is therefore an assumption of the model, checked by the harness (part K:
every str form through every path that takes a name, against the plain-`str` spelling and against the same
class without the mixin); `Proofs/C18.lean` (`resolve_reencode` …) shows the other half: nothing in the model
depends on what a name *is*, only on which names are equal.
-/
namespace Fsic.Alias

variable {α : Type} [DecidableEq α] {P : Type}

/-- `TypeError: … got multiple values for keyword argument …` (raised by the call itself). -/
def typeError : Err := .value 3

/-- A keyword of `**kwargs` is spelled exactly like a column label of the frame. -/
def clash (cols extra : List (α × P)) : Bool := extra.any fun kv => decide (kv.1 ∈ cols.map Prod.fst)

/-- Relabelling a table / renaming keywords (data untouched). -/
def relabel (f : α → α) (cols : List (α × P)) : List (α × P) := cols.map fun c => (f c.1, c.2)

/-- `BaseModel.from_dataframe(data, **extra)` on a class WITHOUT the mixin. -/
def fromDataframeBase (strict : Bool) (names : List α) (dflt : P) (cols extra : List (α × P)) :
    Except Err (List (α × P)) :=
  if clash cols extra then .error typeError else ctorBase strict names dflt (cols ++ extra)

/-- The same classmethod on a class WITH the mixin: `cls(...)` is `AliasMixin.__init__`. -/
def fromDataframeAliased (m : AMap α) (strict : Bool) (names : List α) (dflt : P) (cols extra : List (α × P)) :
    Except Err (List (α × P)) :=
  if clash cols extra then .error typeError else ctorAliased m strict names dflt (cols ++ extra)

/-- `Linker(submodels, **kwargs)` with the mixin in front (no `strict` keyword on linkers). -/
def linkerCtorAliased (m : AMap α) (names : List α) (dflt : P) (kwargs : List (α × P)) : Except Err (List (α × P)) :=
  ctorAliased m false names dflt kwargs

/-- `cls.from_dataframe(obj.to_dataframe(use_aliases=True, status=False, iterations=False))` where `table` is
    what the plain export holds (one column per variable).  `none` = the export raised `ValueError`. -/
def roundTrip (le : α → α → Bool) (m : AMap α) (pref : List α) (strict : Bool) (names : List α) (dflt : P)
    (table : List (α × P)) : Option (Except Err (List (α × P))) :=
  (exportCols le m pref table).map fun out => fromDataframeAliased m strict names dflt out []

/-! ### Re-encoding of names (the model sees equality of names only) -/

/-- The alias map with every name re-encoded by `f`. -/
def reMap {β : Type} (f : α → β) (m : AMap α) : AMap β := m.map fun p => (f p.1, f p.2)

def Outcome.map {β : Type} (g : AMap α → AMap β) : Outcome α → Outcome β
  | .returned a => .returned (g a)
  | .valueError => .valueError

end Fsic.Alias
